/-
  CRProofs.XsdDocK — C03: the child-name sequences of the tree encoders (CRModel/CRXmlWDoc.lean) ARE the name-list models
  `XmlW.*Kids` (CRModel/CRXmlW.lean) the order theorems talk about.
-/
import CRModel.CRXmlWDoc

namespace CR.XmlW

def Shape1.kind : Shape1 → ShapeK
  | .rect .. => .rectangle | .circ .. => .circle | .poly .. => .polygon

def Prediction.kind : Prediction → CR.XmlW.Pred
  | .none => .none | .traj _ => .trajectory | .occ _ => .occupancySet

def Val.isInterval : Val → Bool | .interval .. => true | .exact _ => false
def TimeV.isInterval : TimeV → Bool | .interval .. => true | .exact _ => false

end CR.XmlW

namespace CR.C03
open CR.Xsd CR.XmlW

theorem names_map {α} (f : α → Xml) (n : String) (h : ∀ y, (f y).name = n) (l : List α) :
    (l.map f).map Xml.name = List.replicate l.length n := by
  induction l with
  | nil => rfl
  | cons y ys ih => simp [h y, ih, List.replicate_succ]

theorem names_optB (n : String) (o : Option Bool) : (optB n o).map Xml.name = CR.XmlW.opt o.isSome n := by
  cases o <;> rfl
theorem names_optLeaf (n : String) (o : Option String) : (optLeaf n o).map Xml.name = CR.XmlW.opt o.isSome n := by
  cases o <;> rfl

theorem kids_point (p : Nat) (tag : String) (q : Pt) : (ptNode p tag q).kidNames = pointKids q.z.isSome := by
  cases h : q.z <;> simp [ptNode, pointNode, Xml.kidNames, Xml.kids, pointKids, CR.XmlW.opt, leaf, Xml.name, h]

theorem kids_rectangle (p : Nat) (dyn : Bool) (l w o cx cy : Num) :
    (shape1Node p dyn (.rect l w o cx cy)).kidNames = rectangleKids dyn (!o.isZero) (!(cx.isZero && cy.isZero)) := by
  simp only [shape1Node, rectangleNode, Xml.kidNames, Xml.kids, rectangleKids, CR.XmlW.opt]
  split <;> split <;> simp_all [leaf, pointNode, Xml.name]

theorem kids_circle (p : Nat) (dyn : Bool) (r cx cy : Num) :
    (shape1Node p dyn (.circ r cx cy)).kidNames = circleKids dyn (!(cx.isZero && cy.isZero)) := by
  simp only [shape1Node, circleNode, Xml.kidNames, Xml.kids, circleKids, CR.XmlW.opt]
  split <;> simp_all [leaf, pointNode, Xml.name]

theorem kids_polygon (p : Nat) (dyn : Bool) (vs : List (Num × Num)) :
    (shape1Node p dyn (.poly vs)).kidNames = polygonKids vs.length := by
  simp only [shape1Node, el, Xml.kidNames, Xml.kids, polygonKids, CR.XmlW.rep]
  exact names_map _ "point" (fun _ => rfl) vs


theorem kids_shape (p : Nat) (dyn : Bool) (s : List Shape1) :
    (el "shape" (shapeNodes p dyn s)).kidNames = shapeKids (s.map Shape1.kind) := by
  simp only [el, Xml.kidNames, Xml.kids, shapeNodes, shapeKids, List.map_map]
  apply List.map_congr_left; intro x _; cases x <;> rfl

theorem kids_bound (p : Nat) (tag : String) (pts : List Pt) (lm : String) :
    (boundNode p tag pts lm).kidNames = boundKids pts.length (lm != "UNKNOWN") := by
  simp only [boundNode, el, Xml.kidNames, Xml.kids, List.map_append, boundKids, CR.XmlW.rep, names_optLeaf,
    names_map _ "point" (fun q => (rfl : (ptNode p "point" q).name = "point"))]
  by_cases h : lm = "UNKNOWN"
  · simp [boundMarking, h]
  · have hb : (lm != "UNKNOWN") = true := by simpa using h
    simp [boundMarking, h, hb]

theorem names_refs (n : String) (ids : List Int) : (ids.map (refNode n)).map Xml.name = List.replicate ids.length n :=
  names_map _ n (fun _ => rfl) ids

theorem names_leaves (n : String) (vs : List String) : (vs.map (fun v => leaf n v.toList)).map Xml.name = List.replicate vs.length n :=
  names_map _ n (fun _ => rfl) vs

theorem kids_stopLine (p : Nat) (s : StopLineD) :
    (stopLineNode p s).kidNames = stopLineKids s.pts.isSome s.marking.isSome s.signs.length s.lights.length := by
  have hp : (stopPtNodes p s.pts).map Xml.name = if s.pts.isSome then ["point", "point"] else [] := by
    cases h : s.pts with
    | none => rfl
    | some ab => obtain ⟨a, b⟩ := ab; rfl
  simp only [stopLineNode, el, Xml.kidNames, Xml.kids, List.map_append, hp, names_optLeaf, names_refs, stopLineKids, CR.XmlW.rep,
    Option.isSome_map]

theorem names_adj (tag : String) (o : Option (Int × Bool)) : (adjNode tag o).map Xml.name = CR.XmlW.opt o.isSome tag := by
  cases o with
  | none => rfl
  | some t => obtain ⟨i, s⟩ := t; rfl

theorem kids_lanelet (p : Nat) (l : LaneletD) :
    (laneletNode p l).kidNames = laneletKids
      { nPred := l.pred.length, nSucc := l.succ.length, adjL := l.adjL.isSome, adjR := l.adjR.isSome, stop := l.stop.isSome,
        nTypes := l.types.length, nOneWay := l.oneWay.length, nBidir := l.bidir.length, nSigns := l.signs.length,
        nLights := l.lights.length } := by
  have hs : (optStopNodes p l.stop).map Xml.name = CR.XmlW.opt l.stop.isSome "stopLine" := by cases l.stop <;> rfl
  have ht : (typesWritten l.types).length = if l.types.length = 0 then 1 else l.types.length := by
    unfold typesWritten
    cases l.types <;> simp
  simp only [laneletNode, Xml.kidNames, Xml.kids, List.map_append, List.map_cons, List.map_nil, names_refs, names_adj, hs,
    names_leaves, laneletKids, CR.XmlW.rep, List.length_map, ht]
  rfl

theorem kids_signElement (e : String × String × List String) : (signElementNode e).kidNames = signElementKids e.2.2.length := by
  simp only [signElementNode, el, Xml.kidNames, Xml.kids, List.map_cons, names_leaves, signElementKids, CR.XmlW.rep]
  rfl

theorem names_optPos (p : Nat) (o : Option Pt) : (optPosNodes p o).map Xml.name = CR.XmlW.opt o.isSome "position" := by
  cases o <;> rfl

theorem kids_trafficSign (p : Nat) (s : SignD) :
    (signNode p s).kidNames = trafficSignKids s.elements.length s.pos.isSome s.virtual.isSome := by
  simp only [signNode, Xml.kidNames, Xml.kids, List.map_append, names_optPos, names_optB, trafficSignKids, CR.XmlW.rep,
    names_map signElementNode "trafficSignElement" (fun _ => rfl)]

theorem kids_cycleElement (e : Int × String) : (cycleElementNode e).kidNames = cycleElementKids := rfl

theorem kids_cycle (es : List (Int × String)) (off : Option Int) :
    (cycleNode es off).kidNames = cycleKids es.length (match off with | some o => decide (0 < o) | none => false) := by
  have ho : (offsetNodes off).map Xml.name = CR.XmlW.opt (match off with | some o => decide (0 < o) | none => false) "timeOffset" := by
    cases off with
    | none => rfl
    | some o => simp only [offsetNodes]; split <;> simp_all [CR.XmlW.opt, leaf, Xml.name]
  simp only [cycleNode, el, Xml.kidNames, Xml.kids, List.map_append, ho, cycleKids, CR.XmlW.rep,
    names_map cycleElementNode "cycleElement" (fun _ => rfl)]

theorem kids_trafficLight (p : Nat) (l : LightD) :
    (lightNode p l).kidNames = trafficLightKids l.cycle.isSome l.pos.isSome (l.direction != "ALL") l.active.isSome := by
  have hc : (optCycleNodes l.cycle).map Xml.name = CR.XmlW.opt l.cycle.isSome "cycle" := by
    cases h : l.cycle with
    | none => rfl
    | some c => obtain ⟨es, off⟩ := c; rfl
  have hd : (lightDirection l.direction).isSome = (l.direction != "ALL") := by
    unfold lightDirection; split <;> simp_all
  simp only [lightNode, Xml.kidNames, Xml.kids, List.map_append, hc, names_optPos, names_optLeaf, names_optB, trafficLightKids, hd]

theorem kids_incoming (i : IncomingD) :
    (incomingNode i).kidNames = incomingKids i.lanelets.length i.right.length i.straight.length i.left.length i.leftOf.isSome := by
  have hl : (optRefNodes "isLeftOf" i.leftOf).map Xml.name = CR.XmlW.opt i.leftOf.isSome "isLeftOf" := by cases i.leftOf <;> rfl
  simp only [incomingNode, Xml.kidNames, Xml.kids, List.map_append, names_refs, hl, incomingKids, CR.XmlW.rep]

theorem kids_intersection (x : IntersectionD) :
    (intersectionNode x).kidNames = intersectionKids x.incomings.length (!x.crossings.isEmpty) := by
  have hc : (crossingNodes x.crossings).map Xml.name = CR.XmlW.opt (!x.crossings.isEmpty) "crossing" := by
    unfold crossingNodes; split <;> simp_all [CR.XmlW.opt, el, Xml.name]
  simp only [intersectionNode, Xml.kidNames, Xml.kids, List.map_append, hc, intersectionKids, CR.XmlW.rep,
    names_map incomingNode "incoming" (fun _ => rfl)]

theorem kids_crossing (ids : List Int) : (el "crossing" (ids.map (refNode "crossingLanelet"))).kidNames = crossingKids ids.length := by
  simp only [el, Xml.kidNames, Xml.kids, names_refs, crossingKids, CR.XmlW.rep]

theorem kids_location (l : LocationD) : (locationNode l).kidNames = locationKids l.geo.isSome l.env.isSome := by
  have hg : (optGeoNodes l.geo).map Xml.name = CR.XmlW.opt l.geo.isSome "geoTransformation" := by cases l.geo <;> rfl
  have he : (optEnvNodes l.env).map Xml.name = CR.XmlW.opt l.env.isSome "environment" := by cases l.env <;> rfl
  simp only [locationNode, el, Xml.kidNames, Xml.kids, List.map_append, hg, he, locationKids]
  rfl

theorem kids_geoTransformation (g : GeoD) : (geoNode g).kidNames = geoTransformationKids := rfl
theorem kids_environment (e : EnvD) : (envNode e).kidNames = environmentKids true true true := rfl
theorem kids_staticObstacle (p : Nat) (o : StaticObs) : (staticNode p o).kidNames = staticObstacleKids := rfl
theorem kids_environmentObstacle (p : Nat) (o : EnvObs) : (envObsNode p o).kidNames = environmentObstacleKids := rfl
theorem kids_occupancy (p : Nat) (o : Occ) : (occNode p o).kidNames = occupancyKids := rfl


theorem kids_dynamicObstacle (p : Nat) (o : DynObs) :
    (dynNode p o).kidNames = dynamicObstacleKids o.sig0.isSome o.pred.kind (!o.series.isEmpty) := by
  have h0 : (sig0Nodes o.sig0).map Xml.name = CR.XmlW.opt o.sig0.isSome "initialSignalState" := by cases o.sig0 <;> rfl
  have hp : (predNodes p o.pred).map Xml.name = o.pred.kind.kids := by cases o.pred <;> rfl
  have hs : (seriesNodes o.series).map Xml.name = CR.XmlW.opt (!o.series.isEmpty) "signalSeries" := by
    unfold seriesNodes; split <;> simp_all [CR.XmlW.opt, el, Xml.name]
  simp only [dynNode, Xml.kidNames, Xml.kids, List.map_append, h0, hp, hs, dynamicObstacleKids]
  rfl

theorem kids_phantomObstacle (p : Nat) (o : PhantomObs) : (phantomNode p o).kidNames = phantomObstacleKids o.occ.isSome := by
  cases h : o.occ <;> simp [phantomNode, optOccSetNodes, h, Xml.kidNames, Xml.kids, phantomObstacleKids, CR.XmlW.opt, occSetNode, el,
    Xml.name]

theorem kids_trajectory (p : Nat) (sts : List (List Attr)) : (trajNode p sts).kidNames = trajectoryKids sts.length := by
  simp only [trajNode, el, Xml.kidNames, Xml.kids, trajectoryKids, CR.XmlW.rep]
  exact names_map _ "state" (fun _ => rfl) sts

theorem kids_occupancySet (p : Nat) (os : List Occ) : (occSetNode p os).kidNames = occupancySetKids os.length := by
  simp only [occSetNode, el, Xml.kidNames, Xml.kids, occupancySetKids, CR.XmlW.rep]
  exact names_map _ "occupancy" (fun _ => rfl) os

theorem kids_signalSeries (ss : List Signal) :
    (el "signalSeries" (ss.map (signalNode "signalState"))).kidNames = signalSeriesKids ss.length := by
  simp only [el, Xml.kidNames, Xml.kids, signalSeriesKids, CR.XmlW.rep]
  exact names_map _ "signalState" (fun _ => rfl) ss


theorem kids_value (p : Nat) (n : String) (v : Val) : (el n (valKids p v)).kidNames = valueKids v.isInterval := by
  cases v <;> rfl
theorem kids_time (n : String) (t : TimeV) : (el n (timeKids t)).kidNames = valueKids t.isInterval := by
  cases t <;> rfl

theorem kids_signalState (tag : String) (s : Signal) :
    (signalNode tag s).kidNames = signalStateKids s.horn.isSome s.il.isSome s.ir.isSome s.bl.isSome s.hz.isSome s.fb.isSome := by
  simp only [signalNode, el, Xml.kidNames, Xml.kids, List.map_append, names_optB, signalStateKids]
  rfl

theorem name_attr (p : Nat) (a : Attr) : (attrNode p a).name = xmlProp a.pyName := by
  cases a with
  | position q => cases q <;> rfl
  | time t => rfl
  | value n v => rfl

/-- a state node's children are the used attributes, mapped by `_map_to_xml_prop`, in `used_attributes` order -/
theorem kids_state (p : Nat) (tag : String) (st : List Attr) : (stateNode p tag st).kidNames = stateKids (st.map Attr.pyName) := by
  simp only [stateNode, el, Xml.kidNames, Xml.kids, stateKids, List.map_map]
  apply List.map_congr_left; intro a _; exact name_attr p a

theorem kids_planningProblem (p : Nat) (q : ProblemD) : (problemNode p q).kidNames = planningProblemKids q.goals.length := by
  simp only [problemNode, Xml.kidNames, Xml.kids, List.map_cons, planningProblemKids, CR.XmlW.rep,
    names_map (stateNode p "goalState") "goalState" (fun _ => rfl)]
  rfl

theorem kids_tags (tags : List String) : (tagsNode tags).kidNames = tagKids (tags.map (enumValue CR.Py.Gen.tag)) := by
  simp only [tagsNode, el, Xml.kidNames, Xml.kids, tagKids, List.map_map]
  conv => rhs; rw [← List.map_id (tags.map (enumValue CR.Py.Gen.tag))]
  rw [List.map_map]; apply List.map_congr_left; intro t _; rfl

theorem kids_root (d : DocD) :
    (docNode d).kidNames = rootKids
      { nLanelets := d.lanelets.length, nSigns := d.signs.length, nLights := d.lights.length,
        nIntersections := d.intersections.length, nStatic := d.statics.length, nDynamic := d.dynamics.length,
        nPhantom := d.phantoms.length, nEnvironment := d.envs.length, nProblems := d.problems.length } := by
  simp only [docNode, Xml.kidNames, Xml.kids, docFamilies, List.flatten_cons, List.flatten_nil, List.append_nil, List.map_append,
    List.map_cons, List.map_nil, rootKids, CR.XmlW.rep,
    names_map (laneletNode d.precision) "lanelet" (fun _ => rfl), names_map (signNode d.precision) "trafficSign" (fun _ => rfl),
    names_map (lightNode d.precision) "trafficLight" (fun _ => rfl), names_map intersectionNode "intersection" (fun _ => rfl),
    names_map (staticNode d.precision) "staticObstacle" (fun _ => rfl), names_map (dynNode d.precision) "dynamicObstacle" (fun _ => rfl),
    names_map (phantomNode d.precision) "phantomObstacle" (fun _ => rfl),
    names_map (envObsNode d.precision) "environmentObstacle" (fun _ => rfl),
    names_map (problemNode d.precision) "planningProblem" (fun _ => rfl)]
  simp [locationNode, tagsNode, el, Xml.name, List.append_assoc]

end CR.C03
