/-
  CRProofs.Codec — the codec laws, proved once per combinator.
-/
import CRModel.Codec
import Std.Data.String.ToInt

namespace CR.X

/-! ## laws -/

structure Prim.Lawful {α : Type} (p : Prim α) : Prop where
  rt : ∀ a, p.ok a → p.read (p.fmt a) = some (p.norm a)

structure ECodec.Lawful {α : Type} (e : ECodec α) : Prop where
  rt : ∀ t a, e.ok a → e.decE (e.el t a) = some (e.norm a)

structure Codec.Lawful {α : Type} (c : Codec α) : Prop where
  enc_tags : ∀ a x, x ∈ c.enc a → c.tags.contains x.tag = true
  dec_local : ∀ l, c.dec l = c.dec (own c.tags l)
  rt : ∀ a, c.ok a → c.dec (c.enc a) = some (c.norm a)

/-! ## list facts -/

theorem own_append (ts : List String) (l1 l2 : List Xml) : own ts (l1 ++ l2) = own ts l1 ++ own ts l2 := by
  simp [own]

theorem own_eq_nil {ts : List String} {l : List Xml} (h : ∀ x, x ∈ l → ts.contains x.tag = false) : own ts l = [] := by
  simp only [own, List.filter_eq_nil_iff]
  intro x hx
  have := h x hx
  simpa using this

theorem own_eq_self {ts : List String} {l : List Xml} (h : ∀ x, x ∈ l → ts.contains x.tag = true) : own ts l = l := by
  simp only [own, List.filter_eq_self]
  exact h

theorem own_own_sub {ts us : List String} (hsub : ∀ t, ts.contains t = true → us.contains t = true) (l : List Xml) :
    own ts (own us l) = own ts l := by
  simp only [own, List.filter_filter]
  congr 1
  funext x
  cases h : ts.contains x.tag
  · simp
  · have := hsub _ h
    simpa using this

theorem find_own {t : String} {ts : List String} (ht : ts.contains t = true) (l : List Xml) : find t (own ts l) = find t l := by
  induction l with
  | nil => rfl
  | cons x xs ih =>
    simp only [own, List.filter_cons]
    by_cases hx : ts.contains x.tag = true
    · simp only [hx, if_true, find, List.find?_cons]
      cases hh : hasTag t x
      · exact ih
      · rfl
    · have hne : hasTag t x = false := by
        cases hh : hasTag t x
        · rfl
        · exfalso
          apply hx
          have : x.tag = t := by simpa [hasTag] using hh
          rw [this]; exact ht
      simp only [hx, find, List.find?_cons, hne]
      exact ih

theorem findAll_own {t : String} {ts : List String} (ht : ts.contains t = true) (l : List Xml) : findAll t (own ts l) = findAll t l := by
  simp only [findAll, own, List.filter_filter]
  congr 1
  funext x
  cases hh : hasTag t x
  · simp
  · have : x.tag = t := by simpa [hasTag] using hh
    subst this
    simpa using ht

theorem contains_singleton (t : String) : [t].contains t = true := by simp

theorem own_singleton (t : String) (l : List Xml) : own [t] l = findAll t l := by
  simp only [own, findAll]
  congr 1
  funext x
  simp only [hasTag, List.contains_cons, List.contains_nil, Bool.or_false]

theorem mapOpt_map {α β γ : Type} (f : β → Option γ) (g : α → β) (h : α → γ) (l : List α)
    (hl : ∀ a, a ∈ l → f (g a) = some (h a)) : mapOpt f (l.map g) = some (l.map h) := by
  induction l with
  | nil => rfl
  | cons a as ih =>
    have h1 := hl a (by simp)
    have h2 := ih (fun b hb => hl b (by simp [hb]))
    simp [mapOpt, h1, h2]

/-! ## the context law -/

theorem Codec.Lawful.ctx {α : Type} {c : Codec α} (h : c.Lawful) (a : α) (hok : c.ok a) (pre post : List Xml)
    (hpre : ∀ x, x ∈ pre → c.tags.contains x.tag = false) (hpost : ∀ x, x ∈ post → c.tags.contains x.tag = false) :
    c.dec (pre ++ c.enc a ++ post) = some (c.norm a) := by
  rw [h.dec_local, own_append, own_append, own_eq_nil hpre, own_eq_nil hpost, own_eq_self (h.enc_tags a)]
  simpa using h.rt a hok

/-! ## primitives -/

theorem Prim.int_lawful : Prim.int.Lawful := ⟨fun a _ => by
  show (toString a).toInt? = some a
  exact Int.toInt?_repr a⟩

theorem Prim.str_lawful : Prim.str.Lawful := ⟨fun _ _ => rfl⟩
theorem Prim.decRepr_lawful : Prim.decRepr.Lawful := ⟨fun _ _ => rfl⟩
theorem Prim.decPlain_lawful (P : Params) : (Prim.decPlain P).Lawful := ⟨fun _ _ => rfl⟩
theorem Prim.dec_lawful (P : Params) : (Prim.dec P).Lawful := ⟨fun _ _ => rfl⟩

theorem Prim.boolStrict_lawful : Prim.boolStrict.Lawful := ⟨fun a _ => by cases a <;> decide⟩
theorem Prim.boolDefault_lawful (d : Bool) : (Prim.boolDefault d).Lawful := ⟨fun a _ => by cases a <;> simp [Prim.boolDefault]⟩
theorem Prim.drivingDir_lawful : Prim.drivingDir.Lawful := ⟨fun a _ => by cases a <;> decide⟩

theorem Prim.enum_lawful (vals : List String) : (Prim.enum vals).Lawful := ⟨fun a h => by
  have h' : vals.contains a = true := h
  simp only [Prim.enum, id, h', if_true]⟩

theorem Prim.enumDefault_lawful (vals : List String) (d : String) : (Prim.enumDefault vals d).Lawful := ⟨fun a _ => by
  simp only [Prim.enumDefault, id]
  split <;> rfl⟩

/-! ## element codecs -/

theorem ECodec.ofText_lawful {α : Type} {p : Prim α} (hp : p.Lawful) : (ECodec.ofText p).Lawful :=
  ⟨fun _ a h => hp.rt a h⟩

theorem getAttr_head (k v : String) (r : List (String × String)) (t tx : String) (ks : List Xml) :
    getAttr k ⟨t, (k, v) :: r, tx, ks⟩ = some v := by
  simp [getAttr]

theorem getAttr_second (k1 k2 v1 v2 : String) (hne : (k1 == k2) = false) (t tx : String) (ks : List Xml) :
    getAttr k2 ⟨t, [(k1, v1), (k2, v2)], tx, ks⟩ = some v2 := by
  simp [getAttr, hne]

theorem ECodec.attr1_lawful {α : Type} (k : String) {p : Prim α} (hp : p.Lawful) : (ECodec.attr1 k p).Lawful :=
  ⟨fun t a h => by
    simp only [ECodec.attr1, ECodec.el, getAttr_head]
    exact hp.rt a h⟩

theorem ECodec.attr2_lawful {α β : Type} (k1 k2 : String) (hne : (k1 == k2) = false) {p1 : Prim α} {p2 : Prim β}
    (h1 : p1.Lawful) (h2 : p2.Lawful) : (ECodec.attr2 k1 p1 k2 p2).Lawful :=
  ⟨fun t a h => by
    simp only [ECodec.attr2, ECodec.el, getAttr_head, getAttr_second _ _ _ _ hne, h1.rt a.1 h.1, h2.rt a.2 h.2]⟩

theorem ECodec.ofKids_lawful {α : Type} {c : Codec α} (hc : c.Lawful) : (ECodec.ofKids c).Lawful :=
  ⟨fun _ a h => hc.rt a h⟩

theorem ECodec.attrKids_lawful {α β : Type} (k : String) {p : Prim α} {c : Codec β} (hp : p.Lawful) (hc : c.Lawful) :
    (ECodec.attrKids k p c).Lawful :=
  ⟨fun t a h => by
    simp only [ECodec.attrKids, ECodec.el, getAttr_head, hp.rt a.1 h.1, hc.rt a.2 h.2]⟩

theorem ECodec.pmap_lawful {α β : Type} {e : ECodec α} (he : e.Lawful) (to : β → α) (back : α → Option β) (n : β → β)
    (ok' : β → Prop) (hb : ∀ b, e.ok (to b) → ok' b → back (e.norm (to b)) = some (n b)) : (e.pmap to back n ok').Lawful :=
  ⟨fun t b h => by
    have := he.rt t (to b) h.1
    simp only [ECodec.pmap, ECodec.el] at this ⊢
    rw [this]
    exact hb b h.1 h.2⟩

/-! ## children-level combinators -/

theorem find_singleton_self (t : String) (x : Xml) (hx : x.tag = t) : find t [x] = some x := by
  simp [find, hasTag, hx]

theorem Codec.child_lawful {α : Type} (t : String) {e : ECodec α} (he : e.Lawful) : (Codec.child t e).Lawful where
  enc_tags := by
    intro a x hx
    simp only [Codec.child, List.mem_singleton] at hx
    subst hx
    simp [Codec.child, ECodec.el]
  dec_local := by
    intro l
    simp only [Codec.child]
    rw [find_own (contains_singleton t)]
  rt := by
    intro a h
    simp only [Codec.child]
    rw [find_singleton_self t _ rfl]
    exact he.rt t a h

theorem Codec.optChild_lawful {α : Type} (t : String) {e : ECodec α} (he : e.Lawful) (present : α → Bool) (dflt : α) :
    (Codec.optChild t e present dflt).Lawful where
  enc_tags := by
    intro a x hx
    simp only [Codec.optChild] at hx
    split at hx
    · simp only [List.mem_singleton] at hx
      subst hx
      simp [Codec.optChild, ECodec.el]
    · simp at hx
  dec_local := by
    intro l
    simp only [Codec.optChild]
    rw [find_own (contains_singleton t)]
  rt := by
    intro a h
    simp only [Codec.optChild]
    by_cases hp : present a = true
    · simp only [hp, if_true]
      rw [find_singleton_self t _ rfl]
      exact he.rt t a (h hp)
    · simp [hp, find]

theorem Codec.optional_lawful {α : Type} (t : String) {e : ECodec α} (he : e.Lawful) : (Codec.optional t e).Lawful where
  enc_tags := by
    intro a x hx
    cases a with
    | none => simp [Codec.optional] at hx
    | some v =>
      simp only [Codec.optional, List.mem_singleton] at hx
      subst hx
      simp [Codec.optional, ECodec.el]
  dec_local := by
    intro l
    simp only [Codec.optional]
    rw [find_own (contains_singleton t)]
  rt := by
    intro a h
    cases a with
    | none => simp [Codec.optional, find]
    | some v =>
      have hf : find t [e.el t v] = some (e.el t v) := find_singleton_self t _ rfl
      simp only [Codec.optional, hf, he.rt t v (h v rfl), Option.map]

theorem findAll_map_el {α : Type} (t : String) (e : ECodec α) (l : List α) : findAll t (l.map (e.el t)) = l.map (e.el t) := by
  simp only [findAll, List.filter_eq_self]
  intro x hx
  simp only [List.mem_map] at hx
  obtain ⟨a, _, rfl⟩ := hx
  simp [hasTag, ECodec.el]

theorem Codec.many_lawful {α : Type} (t : String) {e : ECodec α} (he : e.Lawful) : (Codec.many t e).Lawful where
  enc_tags := by
    intro l x hx
    simp only [Codec.many, List.mem_map] at hx
    obtain ⟨a, _, rfl⟩ := hx
    simp [Codec.many, ECodec.el]
  dec_local := by
    intro l
    simp only [Codec.many]
    rw [findAll_own (contains_singleton t)]
  rt := by
    intro l h
    simp only [Codec.many]
    rw [findAll_map_el]
    exact mapOpt_map _ _ _ _ (fun a ha => he.rt t a (h a ha))

theorem Codec.manyOf_lawful {α : Type} (ts : List String) (encEl : α → Xml) (decEl : Xml → Option α) (nrm : α → α)
    (ok : α → Prop) (htag : ∀ a, ts.contains (encEl a).tag = true) (hrt : ∀ a, ok a → decEl (encEl a) = some (nrm a)) :
    (Codec.manyOf ts encEl decEl nrm ok).Lawful where
  enc_tags := by
    intro l x hx
    simp only [Codec.manyOf, List.mem_map] at hx
    obtain ⟨a, _, rfl⟩ := hx
    exact htag a
  dec_local := by
    intro l
    simp only [Codec.manyOf]
    rw [own_own_sub (fun _ h => h)]
  rt := by
    intro l h
    simp only [Codec.manyOf]
    rw [own_eq_self]
    · exact mapOpt_map _ _ _ _ (fun a ha => hrt a (h a ha))
    · intro x hx
      simp only [List.mem_map] at hx
      obtain ⟨a, _, rfl⟩ := hx
      exact htag a

/-- tag sets that do not meet -/
def Disjoint (ts us : List String) : Prop := ∀ t, ts.contains t = true → us.contains t = false

theorem contains_append_left {ts us : List String} {t : String} (h : ts.contains t = true) : (ts ++ us).contains t = true := by
  simp only [List.contains_eq_mem, List.mem_append, decide_eq_true_eq] at h ⊢
  exact Or.inl h

theorem contains_append_right {ts us : List String} {t : String} (h : us.contains t = true) : (ts ++ us).contains t = true := by
  simp only [List.contains_eq_mem, List.mem_append, decide_eq_true_eq] at h ⊢
  exact Or.inr h

theorem Codec.pair_lawful {α β : Type} {c1 : Codec α} {c2 : Codec β} (h1 : c1.Lawful) (h2 : c2.Lawful)
    (hd : Disjoint c1.tags c2.tags) : (Codec.pair c1 c2).Lawful where
  enc_tags := by
    intro a x hx
    simp only [Codec.pair, List.mem_append] at hx
    cases hx with
    | inl h => exact contains_append_left (h1.enc_tags _ _ h)
    | inr h => exact contains_append_right (h2.enc_tags _ _ h)
  dec_local := by
    intro l
    simp only [Codec.pair]
    rw [h1.dec_local l, h2.dec_local l, h1.dec_local (own (c1.tags ++ c2.tags) l), h2.dec_local (own (c1.tags ++ c2.tags) l),
      own_own_sub (fun _ h => contains_append_left h), own_own_sub (fun _ h => contains_append_right h)]
  rt := by
    intro a h
    simp only [Codec.pair]
    have e1 : c1.dec (c1.enc a.1 ++ c2.enc a.2) = some (c1.norm a.1) := by
      have := h1.ctx a.1 h.1 [] (c2.enc a.2) (by simp) (by
        intro x hx
        have hx2 := h2.enc_tags _ _ hx
        cases hc : c1.tags.contains x.tag
        · rfl
        · rw [hd _ hc] at hx2; cases hx2)
      simpa using this
    have e2 : c2.dec (c1.enc a.1 ++ c2.enc a.2) = some (c2.norm a.2) := by
      have := h2.ctx a.2 h.2 (c1.enc a.1) [] (by
        intro x hx
        have hx1 := h1.enc_tags _ _ hx
        exact hd _ hx1) (by simp)
      simpa using this
    rw [e1, e2]

theorem Codec.unit_lawful : Codec.unit.Lawful where
  enc_tags := by intro a x hx; simp [Codec.unit] at hx
  dec_local := by intro l; rfl
  rt := by intro a _; rfl

theorem Codec.iso_lawful {α β : Type} {c : Codec α} (hc : c.Lawful) (to : β → α) (back : α → β) : (c.iso to back).Lawful where
  enc_tags := by intro b x hx; exact hc.enc_tags _ _ hx
  dec_local := by
    intro l
    simp only [Codec.iso]
    rw [hc.dec_local l]
  rt := by
    intro b h
    simp only [Codec.iso]
    rw [hc.rt (to b) h]
    rfl

theorem Codec.pmap_lawful {α β : Type} {c : Codec α} (hc : c.Lawful) (to : β → α) (back : α → Option β) (n : β → β)
    (ok' : β → Prop) (hb : ∀ b, c.ok (to b) → ok' b → back (c.norm (to b)) = some (n b)) : (c.pmap to back n ok').Lawful where
  enc_tags := by intro b x hx; exact hc.enc_tags _ _ hx
  dec_local := by
    intro l
    simp only [Codec.pmap]
    rw [hc.dec_local l]
  rt := by
    intro b h
    simp only [Codec.pmap]
    rw [hc.rt (to b) h.1]
    exact hb b h.1 h.2

theorem find_isSome_of_mem {t : String} {l : List Xml} {x : Xml} (hx : x ∈ l) (ht : x.tag = t) : (find t l).isSome = true := by
  simp only [find, List.find?_isSome]
  exact ⟨x, hx, by simp [hasTag, ht]⟩

theorem find_none_of_foreign {t : String} {l : List Xml} (h : ∀ x, x ∈ l → x.tag ≠ t) : find t l = none := by
  simp only [find, List.find?_eq_none]
  intro x hx
  simp [hasTag, h x hx]

theorem Codec.orElse_lawful {α β : Type} {c1 : Codec α} {c2 : Codec β} (h1 : c1.Lawful) (h2 : c2.Lawful) (probe : String)
    (hp1 : c1.tags.contains probe = true) (hp2 : c2.tags.contains probe = false)
    (hex : ∀ a, ∃ x, x ∈ c1.enc a ∧ x.tag = probe) : (Codec.orElse c1 c2 probe).Lawful where
  enc_tags := by
    intro a x hx
    cases a with
    | inl v => exact contains_append_left (h1.enc_tags _ _ hx)
    | inr v => exact contains_append_right (h2.enc_tags _ _ hx)
  dec_local := by
    intro l
    simp only [Codec.orElse]
    rw [find_own (contains_append_left hp1)]
    rw [h1.dec_local l, h2.dec_local l, h1.dec_local (own (c1.tags ++ c2.tags) l), h2.dec_local (own (c1.tags ++ c2.tags) l),
      own_own_sub (fun _ h => contains_append_left h), own_own_sub (fun _ h => contains_append_right h)]
  rt := by
    intro a h
    cases a with
    | inl v =>
      obtain ⟨x, hx, ht⟩ := hex v
      have hs := find_isSome_of_mem hx ht
      simp only [Codec.orElse]
      cases hf : find probe (c1.enc v) with
      | none => rw [hf] at hs; cases hs
      | some y =>
        simp only []
        rw [h1.rt v h]
        rfl
    | inr v =>
      have hn : find probe (c2.enc v) = none := by
        apply find_none_of_foreign
        intro x hx ht
        have := h2.enc_tags _ _ hx
        rw [ht, hp2] at this
        cases this
      simp only [Codec.orElse, hn]
      rw [h2.rt v h]
      rfl

end CR.X
