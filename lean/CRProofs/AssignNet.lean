/-
  CRProofs.AssignNet — invariants of histories in which the lanelet network changes too (CRModel/AssignNet.lean).

  Nothing here assumes that the lanelets an obstacle records are present: after `remove_lanelet` they are not, and an obstacle
  constructed with lanelet ids may name lanelets that arrive later.  What the recorded sets are assumed to be (`Sound`) is only
  TRUE-but-possibly-outdated: subsets of what the lookups answer on the universe of all lanelets of the case.
-/
import CRProofs.AssignWeak
import CRModel.AssignNet

namespace CR.Assign

/-- the recorded sets name only lanelets the lookups would name on the universe of lanelets, for time steps of the horizon -/
structure Sound (E : Env) (f : Fwd) (o : Id) : Prop where
  initCenter : ∀ ids, f.initCenter = some ids → ∀ l, l ∈ ids → l ∈ effCen E o (E.t0 o)
  predCenter : ∀ d, f.predCenter = some d → ∀ t ids, (t, ids) ∈ d → (∀ l, l ∈ ids → l ∈ E.cen o t) ∧ E.t0 o ≤ t ∧ t ≤ E.tf o
  initShape : ∀ ids, f.initShape = some ids → ∀ l, l ∈ ids → l ∈ effShp E o (E.t0 o)
  predShape : ∀ d, f.predShape = some d → ∀ t ids, (t, ids) ∈ d → (∀ l, l ∈ ids → l ∈ E.shp o t) ∧ E.t0 o ≤ t ∧ t ≤ E.tf o

theorem Sound.ofShapeD {E : Env} {f : Fwd} {o l : Id} {t : T} (hs : Sound E f o) (h : RecShapeD E f o t l) :
    l ∈ E.shp o t ∧ E.kind o ≠ Kind.dynSet ∧ InHorizon E o t := by
  rcases h with ⟨rfl, ids, h1, h2⟩ | ⟨hk, d, h1, ids, h2, h3⟩
  · obtain ⟨a, b⟩ := mem_effShp.mp (hs.initShape ids h1 l h2)
    exact ⟨b, a, Or.inl rfl⟩
  · obtain ⟨a, b, c⟩ := hs.predShape d h1 t ids h2
    have hns : E.kind o ≠ Kind.dynSet := by rw [hk]; intro h; cases h
    exact ⟨a l h3, hns, Or.inr ⟨hk, b, c⟩⟩

theorem mem_effCen {E : Env} {o l : Id} {t : T} : l ∈ effCen E o t ↔ (E.kind o ≠ Kind.dynSet ∧ l ∈ E.cen o t) := by
  unfold effCen
  split
  · next h => simp [h]
  · next h => simp [h]

theorem Sound.ofCenD {E : Env} {f : Fwd} {o l : Id} {t : T} (hs : Sound E f o) (h : RecCenD E f o t l) :
    l ∈ E.cen o t ∧ E.kind o ≠ Kind.dynSet ∧ InHorizon E o t := by
  rcases h with ⟨rfl, ids, h1, h2⟩ | ⟨hk, d, h1, ids, h2, h3⟩
  · obtain ⟨a, b⟩ := mem_effCen.mp (hs.initCenter ids h1 l h2)
    exact ⟨b, a, Or.inl rfl⟩
  · obtain ⟨a, b, c⟩ := hs.predCenter d h1 t ids h2
    have hns : E.kind o ≠ Kind.dynSet := by rw [hk]; intro h; cases h
    exact ⟨a l h3, hns, Or.inr ⟨hk, b, c⟩⟩

/-- The invariant of ALL network-changing histories (state part, for the present lanelets `P`):
    obstacle dicts hold obstacles of their kind; a lanelet that is not present lists nothing; every recorded set is sound;
    whatever a lanelet lists is an obstacle of the scenario whose recorded shape or centre set holds the lanelet. -/
structure NI (E : Env) (P : List Id) (s : St) : Prop where
  kindS : ∀ o, o ∈ s.statics → E.kind o = Kind.static
  kindD : ∀ o, o ∈ s.dynamics → E.kind o ≠ Kind.static
  absentS : ∀ l x, x ∈ s.sreg l → l ∈ P
  absentD : ∀ l t x, memD s.dreg l t x → l ∈ P
  sound : ∀ o, Sound E (s.fwd o) o
  sub : SubInv E s

def NetInv (E : Env) (n : NSt) : Prop := NI E n.present n.st

/-- the recorded relations do not look at the lanelets or the lookups of the environment -/
theorem SubInv.toOn {E : Env} {P : List Id} {s : St} (h : SubInv E s) : SubInv (E.on P) s := ⟨h.subS, h.subD⟩
theorem SubInv.ofOn {E : Env} {P : List Id} {s : St} (h : SubInv (E.on P) s) : SubInv E s := ⟨h.subS, h.subD⟩

/-! ### where an operation can write -/

theorem addToLanelets_where {E : Env} {s s' : St} {o : Id} (h : addToLanelets E s o = .ok s') :
    (∀ l x, x ∈ s'.sreg l → x ∈ s.sreg l ∨ l ∈ E.lanelets) ∧
    (∀ l t x, memD s'.dreg l t x → memD s.dreg l t x ∨ l ∈ E.lanelets) := by
  unfold addToLanelets at h
  split at h
  · obtain ⟨r, hr, h⟩ := bind_ok.mp h
    cases pure_ok.mp h
    refine ⟨fun l x hx => ?_, fun l t x hx => Or.inl hx⟩
    unfold addStaticReg at hr
    split at hr
    · cases hr; exact Or.inl hx
    · split at hr
      · cases hr; exact Or.inl hx
      · obtain ⟨h1, h2⟩ := regStatic_spec E o _ _ _ hr
        rcases (h2 l x).mp hx with h3 | ⟨_, h3⟩
        · exact Or.inl h3
        · exact Or.inr (h1 l h3)
  · split at h
    · cases h; exact ⟨fun l x hx => Or.inl hx, fun l t x hx => Or.inl hx⟩
    · obtain ⟨r1, hr1, h⟩ := bind_ok.mp h
      obtain ⟨r2, hr2, h⟩ := bind_ok.mp h
      cases pure_ok.mp h
      refine ⟨fun l x hx => Or.inl hx, fun l t x hx => ?_⟩
      have hx' : memD r2 l t x := hx
      have s1 : memD r1 l t x → memD s.dreg l t x ∨ l ∈ E.lanelets := by
        intro h5
        unfold regInit at hr1
        split at hr1
        · cases hr1; exact Or.inl h5
        · obtain ⟨g1, g2⟩ := regDyn_spec E o _ _ _ _ hr1
          rcases (g2 l t x).mp h5 with h6 | ⟨_, _, h6⟩
          · exact Or.inl h6
          · exact Or.inr (g1 l h6)
      unfold regPred at hr2
      split at hr2
      · split at hr2
        · cases hr2; exact s1 hx'
        · obtain ⟨g1, g2⟩ := regItems_spec E o _ _ _ hr2
          rcases (g2 l t x).mp hx' with h6 | ⟨_, ids, h7, h8⟩
          · exact s1 h6
          · exact Or.inr (g1 t ids h7 l h8)
      · cases hr2; exact s1 hx'

/-- `SubInv` through `_add_*_obstacle_to_lanelets`, from the kinds alone -/
theorem sub_addToLanelets_k {E : Env} {s s' : St} {o : Id} (hi : SubInv E s) (hin : o ∈ s.statics ∨ o ∈ s.dynamics)
    (hkS : ∀ x, x ∈ s.statics → E.kind x = Kind.static) (hkD : ∀ x, x ∈ s.dynamics → E.kind x ≠ Kind.static)
    (h : addToLanelets E s o = .ok s') : SubInv E s' := by
  obtain ⟨e1, e2, e3, hSt, hDy⟩ := addToLanelets_spec E s s' o h
  by_cases hk : E.kind o = Kind.static
  · obtain ⟨e4, e5⟩ := hSt hk
    have hos : o ∈ s.statics := by
      rcases hin with h' | h'
      · exact h'
      · exact absurd hk (hkD o h')
    refine ⟨?_, ?_⟩
    · intro l x hx
      rw [e5] at hx; rw [e1, e2]
      rcases hx with hx | ⟨rfl, _, hr⟩
      · exact hi.subS l x hx
      · exact ⟨hos, Or.inl hr⟩
    · intro l t x hx
      rw [e4] at hx; rw [e1, e3]; exact hi.subD l t x hx
  · obtain ⟨e4, e5⟩ := hDy hk
    have hod : o ∈ s.dynamics := by
      rcases hin with h' | h'
      · exact absurd (hkS o h') hk
      · exact h'
    refine ⟨?_, ?_⟩
    · intro l x hx
      rw [e4] at hx; rw [e1, e2]; exact hi.subS l x hx
    · intro l t x hx
      rw [e5] at hx; rw [e1, e3]
      rcases hx with hx | ⟨rfl, _, hr⟩
      · exact hi.subD l t x hx
      · exact ⟨hod, Or.inl hr⟩

theorem ni_addToLanelets {E : Env} {P : List Id} {s s' : St} {o : Id} (hi : NI E P s)
    (hin : o ∈ s.statics ∨ o ∈ s.dynamics) (h : addToLanelets (E.on P) s o = .ok s') : NI E P s' := by
  obtain ⟨e1, e2, e3, _⟩ := addToLanelets_spec (E.on P) s s' o h
  obtain ⟨w1, w2⟩ := addToLanelets_where h
  refine ⟨fun x hx => hi.kindS x (e2 ▸ hx), fun x hx => hi.kindD x (e3 ▸ hx), ?_, ?_, fun x => by rw [e1]; exact hi.sound x, ?_⟩
  · intro l x hx
    rcases w1 l x hx with h1 | h1
    · exact hi.absentS l x h1
    · exact h1
  · intro l t x hx
    rcases w2 l t x hx with h1 | h1
    · exact hi.absentD l t x h1
    · exact h1
  · exact (sub_addToLanelets_k (E := E.on P) hi.sub.toOn hin hi.kindS hi.kindD h).ofOn

theorem ni_add {E : Env} {P : List Id} {s s' : St} {o : Id} (hi : NI E P s) (h : add (E.on P) s o = .ok s') :
    NI E P s' := by
  unfold add at h
  split at h
  · cases h
  · split at h
    · next hk =>
      refine ni_addToLanelets (s := { s with statics := s.statics ++ [o] }) ?_
        (Or.inl (List.mem_append.mpr (Or.inr (List.mem_singleton.mpr rfl)))) h
      refine ⟨?_, hi.kindD, hi.absentS, hi.absentD, hi.sound, ?_⟩
      · intro x hx
        rcases List.mem_append.mp hx with hx | hx
        · exact hi.kindS x hx
        · rw [List.mem_singleton.mp hx]; exact hk
      · exact ⟨fun l x hx => ⟨List.mem_append.mpr (Or.inl (hi.sub.subS l x hx).1), (hi.sub.subS l x hx).2⟩, hi.sub.subD⟩
    · next hk =>
      refine ni_addToLanelets (s := { s with dynamics := s.dynamics ++ [o] }) ?_
        (Or.inr (List.mem_append.mpr (Or.inr (List.mem_singleton.mpr rfl)))) h
      refine ⟨hi.kindS, ?_, hi.absentS, hi.absentD, hi.sound, ?_⟩
      · intro x hx
        rcases List.mem_append.mp hx with hx | hx
        · exact hi.kindD x hx
        · rw [List.mem_singleton.mp hx]; exact hk
      · exact ⟨hi.sub.subS, fun l t x hx => ⟨List.mem_append.mpr (Or.inl (hi.sub.subD l t x hx).1), (hi.sub.subD l t x hx).2⟩⟩

/-- `remove_obstacle`: the obstacle leaves every registry of a PRESENT lanelet — and absent lanelets list nothing -/
theorem ni_remove {E : Env} {P : List Id} {s s' : St} {o : Id} (hi : NI E P s) (h : remove (E.on P) s o = .ok s') :
    NI E P s' := by
  unfold remove at h
  split at h
  · cases h
    refine ⟨fun x hx => hi.kindS x (List.mem_filter.mp hx).1, hi.kindD, ?_, hi.absentD, hi.sound, ?_, hi.sub.subD⟩
    · intro l x hx
      have hx' : x ∈ removeStaticReg (E.on P) o (s.fwd o) s.sreg l := hx
      rw [removeStaticReg_spec] at hx'
      exact hi.absentS l x hx'.1
    · intro l x hx
      have hx' : x ∈ removeStaticReg (E.on P) o (s.fwd o) s.sreg l := hx
      rw [removeStaticReg_spec] at hx'
      obtain ⟨h1, h2⟩ := hx'
      obtain ⟨h3, h4⟩ := hi.sub.subS l x h1
      refine ⟨List.mem_filter.mpr ⟨h3, decide_eq_true ?_⟩, h4⟩
      rintro rfl
      exact h2 ⟨rfl, hi.absentS l x h1, h4⟩
  · split at h
    · next hod =>
      split at h
      · next hl =>
        cases h
        refine ⟨hi.kindS, fun x hx => hi.kindD x (List.mem_filter.mp hx).1, hi.absentS, hi.absentD, hi.sound, hi.sub.subS, ?_⟩
        intro l t x hx
        obtain ⟨h3, h4⟩ := hi.sub.subD l t x hx
        refine ⟨List.mem_filter.mpr ⟨h3, decide_eq_true ?_⟩, h4⟩
        rintro rfl
        have hk : E.kind x ≠ Kind.dynSet := by
          rcases h4 with h5 | h5
          · exact ((hi.sound x).ofShapeD h5).2.1
          · exact ((hi.sound x).ofCenD h5).2.1
        rcases hl with hl | hl
        · exact hk hl
        · have := hi.absentD l t x hx
          have hl' : P = [] := hl
          rw [hl'] at this; cases this
      · cases h
        refine ⟨hi.kindS, fun x hx => hi.kindD x (List.mem_filter.mp hx).1, hi.absentS, ?_, hi.sound, hi.sub.subS, ?_⟩
        · intro l t x hx
          have hx' : memD (unregCenter (E.on P) o (s.fwd o) (unregShape (E.on P) o (s.fwd o) s.dreg)) l t x := hx
          rw [(unregCenter_spec (E.on P) o _ _).2, (unregShape_spec (E.on P) o _ _).2] at hx'
          exact hi.absentD l t x hx'.1.1
        · intro l t x hx
          have hx' : memD (unregCenter (E.on P) o (s.fwd o) (unregShape (E.on P) o (s.fwd o) s.dreg)) l t x := hx
          rw [(unregCenter_spec (E.on P) o _ _).2, (unregShape_spec (E.on P) o _ _).2] at hx'
          obtain ⟨⟨h1, n1⟩, n3⟩ := hx'
          obtain ⟨h3, h4⟩ := hi.sub.subD l t x h1
          refine ⟨List.mem_filter.mpr ⟨h3, decide_eq_true ?_⟩, h4⟩
          rintro rfl
          rcases h4 with h5 | h5
          · exact n1 ⟨rfl, hi.absentD l t x h1, h5⟩
          · exact n3 ⟨rfl, hi.absentD l t x h1, h5⟩
    · cases h; exact hi

/-! ### the network operations -/

theorem ni_dropLanelet_remove {E : Env} {P : List Id} {s : St} (l : Id) (hi : NI E P s) :
    NI E (P.filter (· ≠ l)) (s.dropLanelet l) := by
  refine ⟨hi.kindS, hi.kindD, ?_, ?_, hi.sound, ?_, ?_⟩
  · intro l' x hx
    have hx' : x ∈ (if l' = l then [] else s.sreg l') := hx
    split at hx'
    · cases hx'
    · next hne => exact List.mem_filter.mpr ⟨hi.absentS l' x hx', decide_eq_true hne⟩
  · intro l' t x hx
    obtain ⟨st, h1, h2⟩ := hx
    have h1' : (if l' = l then none else s.dreg l' t) = some st := h1
    split at h1'
    · cases h1'
    · next hne => exact List.mem_filter.mpr ⟨hi.absentD l' t x ⟨st, h1', h2⟩, decide_eq_true hne⟩
  · intro l' x hx
    have hx' : x ∈ (if l' = l then [] else s.sreg l') := hx
    split at hx'
    · cases hx'
    · exact hi.sub.subS l' x hx'
  · intro l' t x hx
    obtain ⟨st, h1, h2⟩ := hx
    have h1' : (if l' = l then none else s.dreg l' t) = some st := h1
    split at h1'
    · cases h1'
    · exact hi.sub.subD l' t x ⟨st, h1', h2⟩

theorem ni_dropLanelet_keep {E : Env} {P : List Id} {s : St} (l : Id) (hi : NI E P s) : NI E P (s.dropLanelet l) := by
  have h := ni_dropLanelet_remove l hi
  exact ⟨h.kindS, h.kindD, fun l' x hx => (List.mem_filter.mp (h.absentS l' x hx)).1,
    fun l' t x hx => (List.mem_filter.mp (h.absentD l' t x hx)).1, h.sound, h.sub⟩

theorem ni_dropLanelet_add {E : Env} {P : List Id} {s : St} (l : Id) (hi : NI E P s) :
    NI E (P ++ [l]) (s.dropLanelet l) := by
  have h := ni_dropLanelet_remove l hi
  refine ⟨h.kindS, h.kindD, ?_, ?_, h.sound, h.sub⟩
  · intro l' x hx
    exact List.mem_append.mpr (Or.inl (List.mem_filter.mp (h.absentS l' x hx)).1)
  · intro l' t x hx
    exact List.mem_append.mpr (Or.inl (List.mem_filter.mp (h.absentD l' t x hx)).1)

/-! ### one assignment under a restricted network: recorded sets stay sound, and what a PRESENT lanelet was recorded for stays
    recorded (the new set is the universe answer cut down to the present lanelets) -/

theorem shape_mono {E : Env} {P : List Id} {o : Id} {f f3 : Fwd} {t : T} (hs : Sound E f o) (hns : E.kind o ≠ Kind.dynSet)
    (ht : t = E.t0 o ∨ (E.kind o = Kind.dynTraj ∧ E.t0 o ≤ t ∧ t ≤ E.tf o))
    (hI : f3.initShape = f.initShape ∨ (t = E.t0 o ∧ f3.initShape = some ((E.shp o t).filter (· ∈ P))))
    (hP : f3.predShape = f.predShape ∨ (E.kind o = Kind.dynTraj ∧ ∃ ds, f.predShape = some ds ∧
        f3.predShape = some (dictSet ds t ((E.shp o t).filter (· ∈ P))))) :
    (∀ ids, f3.initShape = some ids → ∀ l, l ∈ ids → l ∈ effShp E o (E.t0 o)) ∧
    (∀ d, f3.predShape = some d → ∀ t' ids, (t', ids) ∈ d → (∀ l, l ∈ ids → l ∈ E.shp o t') ∧ E.t0 o ≤ t' ∧ t' ≤ E.tf o) ∧
    (∀ t' l, l ∈ P → RecShapeD E f o t' l → RecShapeD E f3 o t' l) := by
  refine ⟨?_, ?_, ?_⟩
  · intro ids hi l hl
    rcases hI with e | ⟨e0, e⟩
    · rw [e] at hi; exact hs.initShape ids hi l hl
    · rw [e] at hi; cases hi
      rw [effShp_of_ne _ hns, ← e0]
      exact (List.mem_filter.mp hl).1
  · intro d hd t' ids hm
    rcases hP with e | ⟨_, ds, e1, e⟩
    · rw [e] at hd; exact hs.predShape d hd t' ids hm
    · rw [e] at hd; cases hd
      rcases mem_dictSet_imp _ _ _ _ _ hm with h | ⟨rfl, rfl⟩
      · exact hs.predShape ds e1 t' ids h
      · refine ⟨fun l hl => (List.mem_filter.mp hl).1, ?_⟩
        rcases ht with rfl | ⟨_, h5, h6⟩
        · exact ⟨Int.le_refl _, tf_ge E o⟩
        · exact ⟨h5, h6⟩
  · intro t' l hlP hr
    rcases hr with ⟨rfl, ids, h1, h2⟩ | ⟨hk, d, h1, ids, h2, h3⟩
    · left
      refine ⟨rfl, ?_⟩
      rcases hI with e | ⟨e0, e⟩
      · rw [e]; exact ⟨ids, h1, h2⟩
      · rw [e]
        refine ⟨_, rfl, List.mem_filter.mpr ⟨?_, decide_eq_true hlP⟩⟩
        rw [e0]
        exact (mem_effShp.mp (hs.initShape ids h1 l h2)).2
    · right
      refine ⟨hk, ?_⟩
      rcases hP with e | ⟨_, ds, e1, e⟩
      · rw [e]; exact ⟨d, h1, ids, h2, h3⟩
      · rw [e1] at h1; cases h1
        refine ⟨_, e, ?_⟩
        by_cases et : t' = t
        · subst et
          exact ⟨_, mem_dictSet_self _ _ _, List.mem_filter.mpr ⟨(hs.predShape d e1 t' ids h2).1 l h3, decide_eq_true hlP⟩⟩
        · exact ⟨ids, mem_dictSet_of_ne _ _ _ _ _ h2 et, h3⟩

theorem shape_written {E : Env} {o : Id} {f3 : Fwd} {t : T} {S : List Id}
    (h : (t = E.t0 o ∧ f3.initShape = some S) ∨ (E.kind o = Kind.dynTraj ∧ ∃ ds, f3.predShape = some (dictSet ds t S))) :
    ∀ l, l ∈ S → RecShapeD E f3 o t l := by
  intro l hl
  rcases h with ⟨e0, e⟩ | ⟨hk, ds, e⟩
  · exact Or.inl ⟨e0, S, e, hl⟩
  · exact Or.inr ⟨hk, _, e, S, mem_dictSet_self _ _ _, hl⟩


theorem cen_mono {E : Env} {P : List Id} {o : Id} {f f3 : Fwd} {t : T} (hs : Sound E f o) (hns : E.kind o ≠ Kind.dynSet)
    (ht : t = E.t0 o ∨ (E.kind o = Kind.dynTraj ∧ E.t0 o ≤ t ∧ t ≤ E.tf o))
    (hI : f3.initCenter = f.initCenter ∨ (t = E.t0 o ∧ f3.initCenter = some ((E.cen o t).filter (· ∈ P))))
    (hP : f3.predCenter = f.predCenter ∨ (E.kind o = Kind.dynTraj ∧ ∃ ds, f.predCenter = some ds ∧
        f3.predCenter = some (dictSet ds t ((E.cen o t).filter (· ∈ P))))) :
    (∀ ids, f3.initCenter = some ids → ∀ l, l ∈ ids → l ∈ effCen E o (E.t0 o)) ∧
    (∀ d, f3.predCenter = some d → ∀ t' ids, (t', ids) ∈ d → (∀ l, l ∈ ids → l ∈ E.cen o t') ∧ E.t0 o ≤ t' ∧ t' ≤ E.tf o) ∧
    (∀ t' l, l ∈ P → RecCenD E f o t' l → RecCenD E f3 o t' l) := by
  refine ⟨?_, ?_, ?_⟩
  · intro ids hi l hl
    rcases hI with e | ⟨e0, e⟩
    · rw [e] at hi; exact hs.initCenter ids hi l hl
    · rw [e] at hi; cases hi
      rw [effCen_of_ne _ hns, ← e0]
      exact (List.mem_filter.mp hl).1
  · intro d hd t' ids hm
    rcases hP with e | ⟨_, ds, e1, e⟩
    · rw [e] at hd; exact hs.predCenter d hd t' ids hm
    · rw [e] at hd; cases hd
      rcases mem_dictSet_imp _ _ _ _ _ hm with h | ⟨rfl, rfl⟩
      · exact hs.predCenter ds e1 t' ids h
      · refine ⟨fun l hl => (List.mem_filter.mp hl).1, ?_⟩
        rcases ht with rfl | ⟨_, h5, h6⟩
        · exact ⟨Int.le_refl _, tf_ge E o⟩
        · exact ⟨h5, h6⟩
  · intro t' l hlP hr
    rcases hr with ⟨rfl, ids, h1, h2⟩ | ⟨hk, d, h1, ids, h2, h3⟩
    · left
      refine ⟨rfl, ?_⟩
      rcases hI with e | ⟨e0, e⟩
      · rw [e]; exact ⟨ids, h1, h2⟩
      · rw [e]
        refine ⟨_, rfl, List.mem_filter.mpr ⟨?_, decide_eq_true hlP⟩⟩
        rw [e0]
        exact (mem_effCen.mp (hs.initCenter ids h1 l h2)).2
    · right
      refine ⟨hk, ?_⟩
      rcases hP with e | ⟨_, ds, e1, e⟩
      · rw [e]; exact ⟨d, h1, ids, h2, h3⟩
      · rw [e1] at h1; cases h1
        refine ⟨_, e, ?_⟩
        by_cases et : t' = t
        · subst et
          exact ⟨_, mem_dictSet_self _ _ _, List.mem_filter.mpr ⟨(hs.predCenter d e1 t' ids h2).1 l h3, decide_eq_true hlP⟩⟩
        · exact ⟨ids, mem_dictSet_of_ne _ _ _ _ _ h2 et, h3⟩

theorem cen_written {E : Env} {o : Id} {f3 : Fwd} {t : T} {S : List Id}
    (h : (t = E.t0 o ∧ f3.initCenter = some S) ∨ (E.kind o = Kind.dynTraj ∧ ∃ ds, f3.predCenter = some (dictSet ds t S))) :
    ∀ l, l ∈ S → RecCenD E f3 o t l := by
  intro l hl
  rcases h with ⟨e0, e⟩ | ⟨hk, ds, e⟩
  · exact Or.inl ⟨e0, S, e, hl⟩
  · exact Or.inr ⟨hk, _, e, S, mem_dictSet_self _ _ _, hl⟩

theorem ni_assignDynAt {E : Env} {P : List Id} {co : Bool} {s s' : St} {o : Id} {t : T} (hi : NI E P s)
    (hod : o ∈ s.dynamics) (h : assignDynAt (E.on P) co o s t = .ok s') : NI E P s' := by
  unfold assignDynAt at h
  split at h
  · cases h; exact hi
  · next hskip =>
    split at h
    · cases h
    · next hlt =>
      obtain ⟨⟨lids, f3⟩, ha, h⟩ := bind_ok.mp h
      obtain ⟨r, hr, h⟩ := bind_ok.mp h
      cases pure_ok.mp h
      have ht : t = E.t0 o ∨ (E.kind o = Kind.dynTraj ∧ E.t0 o ≤ t ∧ t ≤ E.tf o) := by
        by_cases e : t = E.t0 o
        · exact Or.inl e
        · right
          have h5 : ¬(E.kind o ≠ Kind.dynTraj ∨ E.tf o < t) := fun h6 => hskip ⟨e, h6⟩
          exact ⟨Classical.not_not.mp (fun h6 => h5 (Or.inl h6)), Int.not_lt.mp hlt, Int.not_lt.mp (fun h6 => h5 (Or.inr h6))⟩
      obtain ⟨hlan, hreg⟩ := regDyn_spec (E.on P) o t _ _ _ hr
      have hns : o ∉ s.statics := fun h6 => hi.kindD o hod (hi.kindS o h6)
      have hso := hi.sound o
      -- the new attributes: sound; what a present lanelet was recorded for stays recorded; what is registered now is recorded
      have key : Sound E f3 o ∧
          (∀ t' l, l ∈ P → (RecShapeD E (s.fwd o) o t' l ∨ RecCenD E (s.fwd o) o t' l) →
            (RecShapeD E f3 o t' l ∨ RecCenD E f3 o t' l)) ∧
          (∀ l, l ∈ lids → RecShapeD E f3 o t l ∨ RecCenD E f3 o t l) := by
        cases co with
        | false =>
          obtain ⟨ens, e0, e1, e2, e3, e4⟩ := assignFwd_false (E.on P) o _ t lids f3 ha
          have ens' : E.kind o ≠ Kind.dynSet := ens
          have hIs : f3.initShape = (s.fwd o).initShape ∨ (t = E.t0 o ∧ f3.initShape = some ((E.shp o t).filter (· ∈ P))) := by
            by_cases e : t = E.t0 o
            · exact Or.inr ⟨e, by rw [e1]; exact if_pos e⟩
            · exact Or.inl (by rw [e1]; exact if_neg e)
          have hIc : f3.initCenter = (s.fwd o).initCenter ∨ (t = E.t0 o ∧ f3.initCenter = some ((E.cen o t).filter (· ∈ P))) := by
            by_cases e : t = E.t0 o
            · exact Or.inr ⟨e, by rw [e2]; exact if_pos e⟩
            · exact Or.inl (by rw [e2]; exact if_neg e)
          have hPs : f3.predShape = (s.fwd o).predShape ∨ (E.kind o = Kind.dynTraj ∧ ∃ ds, (s.fwd o).predShape = some ds ∧
              f3.predShape = some (dictSet ds t ((E.shp o t).filter (· ∈ P)))) := by
            by_cases hk : E.kind o = Kind.dynTraj
            · obtain ⟨dc, ds, g1, g2, g3, g4⟩ := e3 hk
              exact Or.inr ⟨hk, ds, g2, g4⟩
            · exact Or.inl (e4 hk).2
          have hPc : f3.predCenter = (s.fwd o).predCenter ∨ (E.kind o = Kind.dynTraj ∧ ∃ dc, (s.fwd o).predCenter = some dc ∧
              f3.predCenter = some (dictSet dc t ((E.cen o t).filter (· ∈ P)))) := by
            by_cases hk : E.kind o = Kind.dynTraj
            · obtain ⟨dc, ds, g1, g2, g3, g4⟩ := e3 hk
              exact Or.inr ⟨hk, dc, g1, g3⟩
            · exact Or.inl (e4 hk).1
          obtain ⟨s1, s2, s3⟩ := shape_mono hso ens' ht hIs hPs
          obtain ⟨c1, c2, c3⟩ := cen_mono hso ens' ht hIc hPc
          refine ⟨⟨c1, c2, s1, s2⟩, fun t' l hl hrec => hrec.imp (s3 t' l hl) (c3 t' l hl), ?_⟩
          intro l hl
          rw [e0] at hl
          left
          refine shape_written (S := (E.shp o t).filter (· ∈ P)) ?_ l hl
          by_cases hk : E.kind o = Kind.dynTraj
          · obtain ⟨dc, ds, g1, g2, g3, g4⟩ := e3 hk
            exact Or.inr ⟨hk, ds, g4⟩
          · rcases ht with e | ⟨hk', _⟩
            · exact Or.inl ⟨e, by rw [e1]; exact if_pos e⟩
            · exact absurd hk' hk
        | true =>
          obtain ⟨ens, e0, e1, e2, e3, e4, e5⟩ := assignFwd_true (E.on P) o _ t lids f3 ha
          have ens' : E.kind o ≠ Kind.dynSet := ens
          have hIc : f3.initCenter = (s.fwd o).initCenter ∨ (t = E.t0 o ∧ f3.initCenter = some ((E.cen o t).filter (· ∈ P))) := by
            by_cases e : t = E.t0 o
            · exact Or.inr ⟨e, by rw [e3]; exact if_pos e⟩
            · exact Or.inl (by rw [e3]; exact if_neg e)
          have hPc : f3.predCenter = (s.fwd o).predCenter ∨ (E.kind o = Kind.dynTraj ∧ ∃ dc, (s.fwd o).predCenter = some dc ∧
              f3.predCenter = some (dictSet dc t ((E.cen o t).filter (· ∈ P)))) := by
            by_cases hk : E.kind o = Kind.dynTraj
            · obtain ⟨dc, g1, g3⟩ := e4 hk
              exact Or.inr ⟨hk, dc, g1, g3⟩
            · exact Or.inl (e5 hk)
          obtain ⟨s1, s2, s3⟩ := shape_mono (P := P) hso ens' ht (Or.inl e1) (Or.inl e2)
          obtain ⟨c1, c2, c3⟩ := cen_mono hso ens' ht hIc hPc
          refine ⟨⟨c1, c2, s1, s2⟩, fun t' l hl hrec => hrec.imp (s3 t' l hl) (c3 t' l hl), ?_⟩
          intro l hl
          rw [e0] at hl
          right
          refine cen_written (S := (E.cen o t).filter (· ∈ P)) ?_ l hl
          by_cases hk : E.kind o = Kind.dynTraj
          · obtain ⟨dc, g1, g3⟩ := e4 hk
            exact Or.inr ⟨hk, dc, g3⟩
          · rcases ht with e | ⟨hk', _⟩
            · exact Or.inl ⟨e, by rw [e3]; exact if_pos e⟩
            · exact absurd hk' hk
      refine ⟨hi.kindS, hi.kindD, hi.absentS, ?_, ?_, ?_, ?_⟩
      · intro l t' x hx
        have hx' : memD r l t' x := hx
        rcases (hreg l t' x).mp hx' with h1 | ⟨_, _, h3⟩
        · exact hi.absentD l t' x h1
        · exact hlan l h3
      · intro x
        show Sound E ((s.setFwd o f3).fwd x) x
        rw [setFwd_fwd]
        split
        · next e => rw [e]; exact key.1
        · exact hi.sound x
      · intro l x hx
        obtain ⟨h1, h2⟩ := hi.sub.subS l x hx
        have hne : x ≠ o := fun e => hns (e ▸ h1)
        have : (s.setFwd o f3).fwd x = s.fwd x := by rw [setFwd_fwd, if_neg hne]
        exact ⟨h1, this ▸ h2⟩
      · intro l t' x hx
        have hx' : memD r l t' x := hx
        rw [hreg] at hx'
        show x ∈ s.dynamics ∧ (RecShapeD E ((s.setFwd o f3).fwd x) x t' l ∨ RecCenD E ((s.setFwd o f3).fwd x) x t' l)
        by_cases e : x = o
        · subst e
          rw [setFwd_fwd, if_pos rfl]
          rcases hx' with h1 | ⟨_, rfl, h3⟩
          · exact ⟨hod, key.2.1 t' l (hi.absentD l t' x h1) (hi.sub.subD l t' x h1).2⟩
          · exact ⟨hod, key.2.2 l h3⟩
        · rw [setFwd_fwd, if_neg e]
          rcases hx' with h1 | ⟨h2, _⟩
          · exact hi.sub.subD l t' x h1
          · exact absurd h2 e

theorem ni_assignStatic {E : Env} {P : List Id} {co : Bool} {s s' : St} {o : Id} (hi : NI E P s)
    (hos : o ∈ s.statics) (h : assignStatic (E.on P) co o s = .ok s') : NI E P s' := by
  unfold assignStatic at h
  obtain ⟨r, hr, h⟩ := bind_ok.mp h
  cases pure_ok.mp h
  obtain ⟨hlan, hreg⟩ := regStatic_spec (E.on P) o _ _ _ hr
  have hnd : o ∉ s.dynamics := fun h6 => hi.kindD o h6 (hi.kindS o hos)
  have hkn : E.kind o ≠ Kind.dynSet := by rw [hi.kindS o hos]; intro h; cases h
  have hso := hi.sound o
  refine ⟨hi.kindS, hi.kindD, ?_, hi.absentD, ?_, ?_, ?_⟩
  · intro l x hx
    have hx' : x ∈ r l := hx
    rcases (hreg l x).mp hx' with h1 | ⟨_, h3⟩
    · exact hi.absentS l x h1
    · exact hlan l h3
  · intro x
    simp only [setFwd_fwd]
    split
    · next e =>
      subst e
      have hc : ∀ ids, some ((E.cen x (E.t0 x)).filter (· ∈ P)) = some ids → ∀ l, l ∈ ids → l ∈ effCen E x (E.t0 x) := by
        intro ids hids l hl; cases hids
        rw [effCen_of_ne _ hkn]; exact (List.mem_filter.mp hl).1
      cases co with
      | false =>
        refine ⟨hc, hso.predCenter, ?_, hso.predShape⟩
        intro ids hids l hl; cases hids
        rw [effShp_of_ne _ hkn]; exact (List.mem_filter.mp hl).1
      | true => exact ⟨hc, hso.predCenter, hso.initShape, hso.predShape⟩
    · exact hi.sound x
  · intro l x hx
    have hx' : x ∈ r l := hx
    rw [hreg] at hx'
    simp only [setFwd_fwd, setFwd_statics]
    by_cases e : x = o
    · subst e
      rw [if_pos rfl]
      refine ⟨hos, ?_⟩
      have hcen : ∀ l', l' ∈ P → RecCenS (s.fwd x) l' → l' ∈ (E.cen x (E.t0 x)).filter (· ∈ P) := by
        rintro l' hl' ⟨ids, h1, h2⟩
        exact List.mem_filter.mpr ⟨(mem_effCen.mp (hso.initCenter ids h1 l' h2)).2, decide_eq_true hl'⟩
      have hshp : ∀ l', l' ∈ P → RecShapeS (s.fwd x) l' → l' ∈ (E.shp x (E.t0 x)).filter (· ∈ P) := by
        rintro l' hl' ⟨ids, h1, h2⟩
        exact List.mem_filter.mpr ⟨(mem_effShp.mp (hso.initShape ids h1 l' h2)).2, decide_eq_true hl'⟩
      cases co with
      | false =>
        rcases hx' with h1 | ⟨_, h2⟩
        · rcases (hi.sub.subS l x h1).2 with h3 | h3
          · exact Or.inl ⟨_, rfl, hshp l (hi.absentS l x h1) h3⟩
          · exact Or.inr ⟨_, rfl, hcen l (hi.absentS l x h1) h3⟩
        · exact Or.inl ⟨_, rfl, h2⟩
      | true =>
        rcases hx' with h1 | ⟨_, h2⟩
        · rcases (hi.sub.subS l x h1).2 with h3 | h3
          · exact Or.inl h3
          · exact Or.inr ⟨_, rfl, hcen l (hi.absentS l x h1) h3⟩
        · exact Or.inr ⟨_, rfl, h2⟩
    · rw [if_neg e]
      rcases hx' with h1 | ⟨h2, _⟩
      · exact hi.sub.subS l x h1
      · exact absurd h2 e
  · intro l t x hx
    obtain ⟨h1, h2⟩ := hi.sub.subD l t x hx
    have hne : x ≠ o := fun e => hnd (e ▸ h1)
    simp only [setFwd_fwd, setFwd_dynamics, if_neg hne]
    exact ⟨h1, h2⟩

theorem sound_initDicts {E : Env} {f : Fwd} {o : Id} (co : Bool) (hs : Sound E f o) : Sound E (initDicts co f) o := by
  refine ⟨hs.initCenter, ?_, hs.initShape, ?_⟩
  · intro d hd
    unfold initDicts at hd
    cases hp : f.predCenter with
    | none => simp [hp] at hd; subst hd; intro t ids hm; cases hm
    | some d' => simp [hp] at hd; subst hd; exact hs.predCenter d' hp
  · intro d hd
    unfold initDicts at hd
    cases hp : f.predShape with
    | none =>
      cases co
      · simp [hp] at hd; subst hd; intro t ids hm; cases hm
      · simp [hp] at hd
    | some d' => simp [hp] at hd; subst hd; exact hs.predShape d' hp

theorem ni_initDicts {E : Env} {P : List Id} {s : St} {o : Id} (co : Bool) (hi : NI E P s) :
    NI E P (s.setFwd o (initDicts co (s.fwd o))) := by
  refine ⟨hi.kindS, hi.kindD, hi.absentS, hi.absentD, ?_, sub_initDicts co hi.sub⟩
  intro x
  simp only [setFwd_fwd]
  split
  · next e => subst e; exact sound_initDicts co (hi.sound x)
  · exact hi.sound x

theorem ni_assignObs {E : Env} {P : List Id} {ts : Option (List T)} {co : Bool} {s s' : St} {o : Id} (hi : NI E P s)
    (h : assignObs (E.on P) ts co s o = .ok s') : NI E P s' := by
  unfold assignObs at h
  split at h
  · next hod =>
    split at h
    · cases h
    · have key : ∀ (s1 : St), NI E P s1 → s1.dynamics = s.dynamics →
          ∀ (steps : List T), steps.foldlM (assignDynAt (E.on P) co o) s1 = .ok s' → NI E P s' := by
        intro s1 h1 h3 steps hf
        have := foldlM_inv (assignDynAt (E.on P) co o) (fun x => NI E P x ∧ x.dynamics = s.dynamics) ?_ steps s1 s' ⟨h1, h3⟩ hf
        · exact this.1
        · rintro x t x' ⟨q1, q3⟩ hx
          exact ⟨ni_assignDynAt q1 (q3 ▸ hod) hx, (assignDynAt_lists hx).2.trans q3⟩
      refine key _ ?_ ?_ _ h
      · split
        · exact ni_initDicts co hi
        · exact hi
      · split <;> rfl
  · split at h
    · next hos => exact ni_assignStatic hi hos h
    · cases h

theorem ni_assign {E : Env} {P : List Id} {ids : Option (List Id)} {ts : Option (List T)} {co : Bool} {s s' : St}
    (hi : NI E P s) (h : assign (E.on P) ids ts co s = .ok s') : NI E P s' := by
  unfold assign at h
  exact foldlM_inv (assignObs (E.on P) ts co) (fun x => NI E P x) (fun x a x' hx hf => ni_assignObs hx hf) _ s s' hi h

/-! ### reading a file (the reader sees the present lanelets) -/

theorem recCenD_mk_traj (E : Env) (o : Id) (ids : List Id) (sh : Option (List Id)) (ps : Option Dict)
    (f : T → List Id) (steps : List T) (t : T) (l : Id) :
    RecCenD E ⟨some ids, sh, some (steps.map (fun t => (t, f t))), ps⟩ o t l ↔
      (t = E.t0 o ∧ l ∈ ids) ∨ (E.kind o = Kind.dynTraj ∧ t ∈ steps ∧ l ∈ f t) := by
  simp [RecCenD, itemsMem_map]

theorem recCenD_mk_none (E : Env) (o : Id) (ids : List Id) (sh : Option (List Id)) (ps : Option Dict) (t : T) (l : Id) :
    RecCenD E ⟨some ids, sh, none, ps⟩ o t l ↔ (t = E.t0 o ∧ l ∈ ids) := by
  simp [RecCenD]

theorem snd_none_c {E : Env} {o : Id} : ∀ d, (none : Option Dict) = some d → ∀ t ids, (t, ids) ∈ d →
    (∀ l, l ∈ ids → l ∈ E.cen o t) ∧ E.t0 o ≤ t ∧ t ≤ E.tf o := by
  intro d h; cases h

theorem snd_none_s {E : Env} {o : Id} : ∀ d, (none : Option Dict) = some d → ∀ t ids, (t, ids) ∈ d →
    (∀ l, l ∈ ids → l ∈ E.shp o t) ∧ E.t0 o ≤ t ∧ t ≤ E.tf o := by
  intro d h; cases h

theorem ni_readObs {E : Env} {P : List Id} {s s' : St} {o : Id} (hi : NI E P s)
    (hin : o ∈ s.statics ∨ o ∈ s.dynamics) (h : readObs (E.on P) s o = .ok s') :
    NI E P s' ∧ s'.statics = s.statics ∧ s'.dynamics = s.dynamics := by
  have hso := hi.sound o
  unfold readObs at h
  split at h
  · next hk =>
    have hk' : E.kind o = Kind.static := hk
    have hkn : E.kind o ≠ Kind.dynSet := by rw [hk']; intro h; cases h
    have hos : o ∈ s.statics := by
      rcases hin with h' | h'
      · exact h'
      · exact absurd hk' (hi.kindD o h')
    have hnd : o ∉ s.dynamics := fun h6 => hi.kindD o h6 hk'
    unfold readStatic at h
    obtain ⟨r, hr, h⟩ := bind_ok.mp h
    cases pure_ok.mp h
    obtain ⟨hlan, hreg⟩ := regStatic_spec (E.on P) o _ _ _ hr
    refine ⟨⟨hi.kindS, hi.kindD, ?_, hi.absentD, ?_, ?_, ?_⟩, rfl, rfl⟩
    · intro l x hx
      have hx' : x ∈ r l := hx
      rcases (hreg l x).mp hx' with h1 | ⟨_, h3⟩
      · exact hi.absentS l x h1
      · exact hlan l h3
    · intro x
      simp only [setFwd_fwd]
      split
      · next e =>
        subst e
        refine ⟨?_, snd_none_c, ?_, snd_none_s⟩
        · intro ids hids l hl; cases hids
          rw [effCen_of_ne _ hkn]; exact (List.mem_filter.mp hl).1
        · intro ids hids l hl; cases hids
          rw [effShp_of_ne _ hkn]; exact (List.mem_filter.mp hl).1
      · exact hi.sound x
    · intro l x hx
      have hx' : x ∈ r l := hx
      rw [hreg] at hx'
      simp only [setFwd_fwd, setFwd_statics]
      by_cases e : x = o
      · subst e
        rw [if_pos rfl]
        refine ⟨hos, ?_⟩
        rcases hx' with h1 | ⟨_, h2⟩
        · have hlP := hi.absentS l x h1
          rcases (hi.sub.subS l x h1).2 with ⟨ids, h3, h4⟩ | ⟨ids, h3, h4⟩
          · exact Or.inl ⟨_, rfl, List.mem_filter.mpr ⟨(mem_effShp.mp (hso.initShape ids h3 l h4)).2, decide_eq_true hlP⟩⟩
          · exact Or.inr ⟨_, rfl, List.mem_filter.mpr ⟨(mem_effCen.mp (hso.initCenter ids h3 l h4)).2, decide_eq_true hlP⟩⟩
        · exact Or.inl ⟨_, rfl, h2⟩
      · rw [if_neg e]
        rcases hx' with h1 | ⟨h2, _⟩
        · exact hi.sub.subS l x h1
        · exact absurd h2 e
    · intro l t x hx
      obtain ⟨h1, h2⟩ := hi.sub.subD l t x hx
      have hne : x ≠ o := fun e => hnd (e ▸ h1)
      simp only [setFwd_fwd, setFwd_dynamics, if_neg hne]
      exact ⟨h1, h2⟩
  · next hk =>
    have hk' : E.kind o ≠ Kind.static := hk
    have hod : o ∈ s.dynamics := by
      rcases hin with h' | h'
      · exact absurd (hi.kindS o h') hk'
      · exact h'
    have hns : o ∉ s.statics := fun h6 => hk' (hi.kindS o h6)
    -- what a present lanelet lists for `o` is a true pair of a lookup, inside the horizon
    have hold : ∀ l t, memD s.dreg l t o →
        l ∈ P ∧ E.kind o ≠ Kind.dynSet ∧ InHorizon E o t ∧ (l ∈ E.shp o t ∨ l ∈ E.cen o t) := by
      intro l t hm
      rcases (hi.sub.subD l t o hm).2 with h5 | h5
      · obtain ⟨a, b, c⟩ := hso.ofShapeD h5
        exact ⟨hi.absentD l t o hm, b, c, Or.inl a⟩
      · obtain ⟨a, b, c⟩ := hso.ofCenD h5
        exact ⟨hi.absentD l t o hm, b, c, Or.inr a⟩
    have hstat : ∀ (f' : Fwd) l x, x ∈ s.sreg l →
        x ∈ s.statics ∧ (RecShapeS ((s.setFwd o f').fwd x) l ∨ RecCenS ((s.setFwd o f').fwd x) l) := by
      intro f' l x hx
      obtain ⟨h1, h2⟩ := hi.sub.subS l x hx
      have hne : x ≠ o := fun e => hns (e ▸ h1)
      rw [setFwd_fwd, if_neg hne]
      exact ⟨h1, h2⟩
    unfold readDynamic at h
    split at h
    · next hset =>
      have hset' : E.kind o = Kind.dynSet := hset
      cases h
      refine ⟨⟨hi.kindS, hi.kindD, hi.absentS, hi.absentD, ?_, fun l x hx => hstat _ l x hx, ?_⟩, rfl, rfl⟩
      · intro x
        simp only [setFwd_fwd]
        split
        · next e =>
          subst e
          refine ⟨?_, snd_none_c, ?_, snd_none_s⟩
          · intro ids hids l hl; cases hids; cases hl
          · intro ids hids l hl; cases hids; cases hl
        · exact hi.sound x
      · intro l t x hx
        by_cases e : x = o
        · subst e
          exact absurd hset' (hold l t hx).2.1
        · simp only [setFwd_fwd, setFwd_dynamics, if_neg e]
          exact hi.sub.subD l t x hx
    next hset =>
    have hset' : E.kind o ≠ Kind.dynSet := hset
    obtain ⟨r1, hr1, h⟩ := bind_ok.mp h
    obtain ⟨hlan1, hreg1⟩ := regDyn_spec (E.on P) o _ _ _ _ hr1
    split at h
    · next hkt =>
      have hkt' : E.kind o = Kind.dynTraj := hkt
      obtain ⟨r2, hr2, h⟩ := bind_ok.mp h
      cases pure_ok.mp h
      obtain ⟨hlan2, hreg2⟩ := regItems_spec (E.on P) o _ _ _ hr2
      refine ⟨⟨hi.kindS, hi.kindD, hi.absentS, ?_, ?_, fun l x hx => hstat _ l x hx, ?_⟩, rfl, rfl⟩
      · intro l t x hx
        have hx' : memD r2 l t x := hx
        rcases (hreg2 l t x).mp hx' with h1 | ⟨_, ids, h7, h8⟩
        · rcases (hreg1 l t x).mp h1 with h2 | ⟨_, _, h3⟩
          · exact hi.absentD l t x h2
          · exact hlan1 l h3
        · exact hlan2 t ids h7 l h8
      · intro x
        simp only [setFwd_fwd]
        split
        · next e =>
          subst e
          refine ⟨?_, ?_, ?_, ?_⟩
          · intro ids hids l hl; cases hids
            rw [effCen_of_ne _ hset']; exact (List.mem_filter.mp hl).1
          · intro d hd t ids hm
            cases hd
            obtain ⟨a, ha, e1⟩ := List.mem_map.mp hm
            cases e1
            obtain ⟨h7, h8⟩ := mem_trange.mp ha
            exact ⟨fun l hl => (List.mem_filter.mp hl).1, h7, h8⟩
          · intro ids hids l hl; cases hids
            rw [effShp_of_ne _ hset']; exact (List.mem_filter.mp hl).1
          · intro d hd t ids hm
            cases hd
            obtain ⟨a, ha, e1⟩ := List.mem_map.mp hm
            cases e1
            obtain ⟨h7, h8⟩ := mem_trange.mp ha
            exact ⟨fun l hl => (List.mem_filter.mp hl).1, h7, h8⟩
        · exact hi.sound x
      · intro l t x hx
        have hx' : memD r2 l t x := hx
        rw [hreg2, hreg1] at hx'
        simp only [setFwd_fwd, setFwd_dynamics]
        by_cases e : x = o
        · subst e
          rw [if_pos rfl]
          refine ⟨hod, ?_⟩
          have hmem : ∀ t', InHorizon E x t' → t' = E.t0 x ∨ t' ∈ trange (E.t0 x) (E.len x) := by
            rintro t' (h5 | ⟨_, h5, h6⟩)
            · exact Or.inl h5
            · exact Or.inr (mem_trange.mpr ⟨h5, h6⟩)
          rcases hx' with (h1 | ⟨_, rfl, h3⟩) | ⟨_, h4⟩
          · obtain ⟨hlP, _, hh, hl⟩ := hold l t h1
            rcases hl with hl | hl
            · left
              rw [recShapeD_mk_traj]
              rcases hmem t hh with h5 | h5
              · exact Or.inl ⟨h5, h5 ▸ List.mem_filter.mpr ⟨hl, decide_eq_true hlP⟩⟩
              · exact Or.inr ⟨hkt', h5, List.mem_filter.mpr ⟨hl, decide_eq_true hlP⟩⟩
            · right
              rw [recCenD_mk_traj]
              rcases hmem t hh with h5 | h5
              · exact Or.inl ⟨h5, h5 ▸ List.mem_filter.mpr ⟨hl, decide_eq_true hlP⟩⟩
              · exact Or.inr ⟨hkt', h5, List.mem_filter.mpr ⟨hl, decide_eq_true hlP⟩⟩
          · left; rw [recShapeD_mk_traj]; exact Or.inl ⟨rfl, h3⟩
          · left; rw [recShapeD_mk_traj]; exact Or.inr ⟨hkt', (itemsMem_map _ _ t l).mp h4⟩
        · rw [if_neg e]
          rcases hx' with (h1 | ⟨h2, _⟩) | ⟨h2, _⟩
          · exact hi.sub.subD l t x h1
          · exact absurd h2 e
          · exact absurd h2 e
    · next k hkt =>
      have hkt' : E.kind o ≠ Kind.dynTraj := fun e => hkt e
      cases pure_ok.mp h
      refine ⟨⟨hi.kindS, hi.kindD, hi.absentS, ?_, ?_, fun l x hx => hstat _ l x hx, ?_⟩, rfl, rfl⟩
      · intro l t x hx
        have hx' : memD r1 l t x := hx
        rcases (hreg1 l t x).mp hx' with h2 | ⟨_, _, h3⟩
        · exact hi.absentD l t x h2
        · exact hlan1 l h3
      · intro x
        simp only [setFwd_fwd]
        split
        · next e =>
          subst e
          refine ⟨?_, snd_none_c, ?_, snd_none_s⟩
          · intro ids hids l hl; cases hids
            rw [effCen_of_ne _ hset']; exact (List.mem_filter.mp hl).1
          · intro ids hids l hl; cases hids
            rw [effShp_of_ne _ hset']; exact (List.mem_filter.mp hl).1
        · exact hi.sound x
      · intro l t x hx
        have hx' : memD r1 l t x := hx
        rw [hreg1] at hx'
        simp only [setFwd_fwd, setFwd_dynamics]
        by_cases e : x = o
        · subst e
          rw [if_pos rfl]
          refine ⟨hod, ?_⟩
          rcases hx' with h1 | ⟨_, rfl, h3⟩
          · obtain ⟨hlP, _, hh, hl⟩ := hold l t h1
            have ht0 : t = E.t0 x := by
              rcases hh with h5 | ⟨h5, _⟩
              · exact h5
              · exact absurd h5 hkt'
            rcases hl with hl | hl
            · left; rw [recShapeD_mk_none]; exact ⟨ht0, ht0 ▸ List.mem_filter.mpr ⟨hl, decide_eq_true hlP⟩⟩
            · right; rw [recCenD_mk_none]; exact ⟨ht0, ht0 ▸ List.mem_filter.mpr ⟨hl, decide_eq_true hlP⟩⟩
          · left; rw [recShapeD_mk_none]; exact ⟨rfl, h3⟩
        · rw [if_neg e]
          rcases hx' with h1 | ⟨h2, _⟩
          · exact hi.sub.subD l t x h1
          · exact absurd h2 e

theorem ni_clearReg {E : Env} {P : List Id} {s : St} (hi : NI E P s) : NI E P s.clearReg := by
  refine ⟨hi.kindS, hi.kindD, ?_, ?_, hi.sound, ?_, ?_⟩
  · intro l x hx; cases hx
  · intro l t x hx; obtain ⟨st, h1, _⟩ := hx; cases h1
  · intro l x hx; cases hx
  · intro l t x hx; obtain ⟨st, h1, _⟩ := hx; cases h1

theorem ni_reopenXml {E : Env} {P : List Id} {s s' : St} (hi : NI E P s) (h : reopenXml (E.on P) s = .ok s') :
    NI E P s' := by
  unfold reopenXml at h
  obtain ⟨s1, h1, h2⟩ := bind_ok.mp h
  have p1 := foldlM_prefix (readObs (E.on P)) (s.statics ++ s.dynamics)
    (fun _ x => NI E P x ∧ x.statics = s.statics ∧ x.dynamics = s.dynamics)
    (by
      rintro pre x a x' ha ⟨q1, q2, q3⟩ hx
      obtain ⟨r1, r2, r3⟩ := ni_readObs q1 (by rw [q2, q3]; exact List.mem_append.mp ha) hx
      exact ⟨r1, r2.trans q2, r3.trans q3⟩)
    (s.statics ++ s.dynamics) (fun a ha => ha) [] s.clearReg s1 ⟨ni_clearReg hi, rfl, rfl⟩ h1
  have p2 := foldlM_prefix (addToLanelets (E.on P)) (s.statics ++ s.dynamics)
    (fun _ x => NI E P x ∧ x.statics = s.statics ∧ x.dynamics = s.dynamics)
    (by
      rintro pre x a x' ha ⟨q1, q2, q3⟩ hx
      obtain ⟨_, e2, e3, _⟩ := addToLanelets_spec (E.on P) x x' a hx
      exact ⟨ni_addToLanelets q1 (by rw [q2, q3]; exact List.mem_append.mp ha) hx, e2.trans q2, e3.trans q3⟩)
    (s.statics ++ s.dynamics) (fun a ha => ha) [] s1 s' p1 h2
  exact p2.1

theorem ni_reopenPb {E : Env} {P : List Id} {s s' : St} (hi : NI E P s) (h : reopenPb (E.on P) s = .ok s') :
    NI E P s' := by
  unfold reopenPb at h
  have p1 := foldlM_prefix (fun s o => do let s' ← readObs (E.on P) s o; addToLanelets (E.on P) s' o) (s.statics ++ s.dynamics)
    (fun _ x => NI E P x ∧ x.statics = s.statics ∧ x.dynamics = s.dynamics)
    (by
      rintro pre x a x' ha ⟨q1, q2, q3⟩ hx
      obtain ⟨x1, hx1, hx2⟩ := bind_ok.mp hx
      have hin : a ∈ x.statics ∨ a ∈ x.dynamics := by rw [q2, q3]; exact List.mem_append.mp ha
      obtain ⟨r1, r2, r3⟩ := ni_readObs q1 hin hx1
      obtain ⟨_, e2, e3, _⟩ := addToLanelets_spec (E.on P) x1 x' a hx2
      exact ⟨ni_addToLanelets r1 (by rw [r2, r3]; exact hin) hx2, e2.trans (r2.trans q2), e3.trans (r3.trans q3)⟩)
    (s.statics ++ s.dynamics) (fun a ha => ha) [] s.clearReg s' ⟨ni_clearReg hi, rfl, rfl⟩ h
  exact p1.1

/-! ### every operation of a network-changing history -/

/-- operations the invariant of network-changing histories speaks about: everything except an in-place edit of the assignment
    attributes of an obstacle that is IN the scenario, or an edit to values that are not lookup answers (the registries are not
    told about such an edit: afterwards a lanelet may list the obstacle for a lanelet its attributes no longer name) -/
def NOp.Sane (E : Env) (n : NSt) : NOp → Prop
  | .setFwd o f => o ∉ n.st.statics ∧ o ∉ n.st.dynamics ∧ Sound E f o
  | _ => True

theorem netInv_step {E : Env} {n n' : NSt} {op : NOp} (hi : NetInv E n) (hop : op.Sane E n)
    (h : nstep E false n op = .ok n') : NetInv E n' := by
  cases op with
  | op o =>
    cases o with
    | add x =>
      simp only [nstep] at h
      cases hx : step (E.on n.present) n.st (.add x) with
      | error e => rw [hx] at h; cases h
      | ok s1 => rw [hx] at h; cases h; exact ni_add hi hx
    | remove x =>
      simp only [nstep, Bool.false_eq_true, if_false] at h
      cases hx : remove (E.on n.present) n.st x with
      | error e => rw [hx] at h; cases h
      | ok s1 => rw [hx] at h; cases h; exact ni_remove hi hx
    | assign ids ts co =>
      simp only [nstep] at h
      cases hx : step (E.on n.present) n.st (.assign ids ts co) with
      | error e => rw [hx] at h; cases h
      | ok s1 => rw [hx] at h; cases h; exact ni_assign hi hx
    | reopenXml =>
      simp only [nstep] at h
      cases hx : step (E.on n.present) n.st .reopenXml with
      | error e => rw [hx] at h; cases h
      | ok s1 => rw [hx] at h; cases h; exact ni_reopenXml hi hx
    | reopenPb =>
      simp only [nstep] at h
      cases hx : step (E.on n.present) n.st .reopenPb with
      | error e => rw [hx] at h; cases h
      | ok s1 => rw [hx] at h; cases h; exact ni_reopenPb hi hx
  | removeLanelet l =>
    simp only [nstep] at h
    split at h
    · cases h; exact ni_dropLanelet_remove l hi
    · cases h
  | addLanelet l =>
    simp only [nstep] at h
    split at h
    · cases h
    · cases h; exact ni_dropLanelet_add l hi
  | clearLanelet l =>
    simp only [nstep] at h
    split at h
    · cases h; exact ni_dropLanelet_keep l hi
    · cases h
  | query => simp only [nstep] at h; cases h; exact hi
  | setFwd o f =>
    simp only [nstep] at h
    cases h
    obtain ⟨h1, h2, h3⟩ := hop
    refine ⟨hi.kindS, hi.kindD, hi.absentS, hi.absentD, ?_, ?_, ?_⟩
    · intro x
      show Sound E ((n.st.setFwd o f).fwd x) x
      rw [setFwd_fwd]
      split
      · next e => rw [e]; exact h3
      · exact hi.sound x
    · intro l x hx
      obtain ⟨g1, g2⟩ := hi.sub.subS l x hx
      have hne : x ≠ o := fun e => h1 (e ▸ g1)
      show x ∈ n.st.statics ∧ (RecShapeS ((n.st.setFwd o f).fwd x) l ∨ RecCenS ((n.st.setFwd o f).fwd x) l)
      rw [setFwd_fwd, if_neg hne]; exact ⟨g1, g2⟩
    · intro l t x hx
      obtain ⟨g1, g2⟩ := hi.sub.subD l t x hx
      have hne : x ≠ o := fun e => h2 (e ▸ g1)
      show x ∈ n.st.dynamics ∧ (RecShapeD E ((n.st.setFwd o f).fwd x) x t l ∨ RecCenD E ((n.st.setFwd o f).fwd x) x t l)
      rw [setFwd_fwd, if_neg hne]; exact ⟨g1, g2⟩

/-- every operation of the history is sane in the state it is applied to -/
def SaneRun (E : Env) : NSt → List NOp → Prop
  | _, [] => True
  | n, op :: ops => op.Sane E n ∧ ∀ n', nstep E false n op = .ok n' → SaneRun E n' ops

theorem netInv_run {E : Env} : ∀ (ops : List NOp) (n n' : NSt), NetInv E n → SaneRun E n ops →
    nrun E false n ops = .ok n' → NetInv E n' := by
  intro ops
  induction ops with
  | nil =>
    intro n n' hi _ h
    simp only [nrun, List.foldlM_nil, pure_ok] at h
    exact h ▸ hi
  | cons op ops ih =>
    intro n n' hi hs h
    simp only [nrun, List.foldlM_cons] at h
    obtain ⟨n1, h1, h2⟩ := bind_ok.mp h
    exact ih n1 n' (netInv_step hi hs.1 h1) (hs.2 n1 h1) h2

/-- the scenario at the start: the lanelets `P0`, no obstacle added, obstacle objects constructed with sound lanelet ids -/
theorem netInv_init {E : Env} (P0 : List Id) (preset : Id → Fwd) (hp : ∀ o, Sound E (preset o) o) :
    NetInv E (NSt.init P0 preset) := by
  refine ⟨?_, ?_, ?_, ?_, hp, ?_, ?_⟩
  · intro o h; cases h
  · intro o h; cases h
  · intro l x hx; cases hx
  · intro l t x hx; obtain ⟨st, h1, _⟩ := hx; cases h1
  · intro l x hx; cases hx
  · intro l t x hx; obtain ⟨st, h1, _⟩ := hx; cases h1

/-! ### a full assignment registers everything it records (whatever the state before) -/

theorem assignDynAt_grows {E : Env} {co : Bool} {s s' : St} {o : Id} {t : T} (h : assignDynAt E co o s t = .ok s') :
    s'.sreg = s.sreg ∧ (∀ l t' x, memD s.dreg l t' x → memD s'.dreg l t' x) ∧
    (co = false → InHorizon E o t → ∀ l, l ∈ E.shp o t → memD s'.dreg l t o) := by
  unfold assignDynAt at h
  split at h
  · next hskip =>
    cases h
    refine ⟨rfl, fun l t' x hx => hx, ?_⟩
    intro _ hh
    exfalso
    rcases hh with e | ⟨hk, _, h2⟩
    · exact hskip.1 e
    · rcases hskip.2 with h3 | h3
      · exact h3 hk
      · exact absurd h2 (Int.not_le.mpr h3)
  · split at h
    · cases h
    · obtain ⟨⟨lids, f3⟩, ha, h⟩ := bind_ok.mp h
      obtain ⟨r, hr, h⟩ := bind_ok.mp h
      cases pure_ok.mp h
      obtain ⟨_, hreg⟩ := regDyn_spec E o t _ _ _ hr
      refine ⟨rfl, fun l t' x hx => (hreg l t' x).mpr (Or.inl hx), ?_⟩
      intro hco _ l hl
      subst hco
      obtain ⟨_, e0, _⟩ := assignFwd_false E o _ t lids f3 ha
      exact (hreg l t o).mpr (Or.inr ⟨rfl, rfl, e0 ▸ hl⟩)

theorem assignObs_grows {E : Env} {s s' : St} {o' : Id} (hdisj : o' ∈ s.dynamics → o' ∉ s.statics)
    (h : assignObs E none false s o' = .ok s') :
    (∀ l x, x ∈ s.sreg l → x ∈ s'.sreg l) ∧ (∀ l t x, memD s.dreg l t x → memD s'.dreg l t x) ∧
    (o' ∈ s.dynamics → ∀ t, InHorizon E o' t → ∀ l, l ∈ E.shp o' t → memD s'.dreg l t o') ∧
    (o' ∈ s.statics → ∀ l, l ∈ E.shp o' (E.t0 o') → o' ∈ s'.sreg l) := by
  unfold assignObs at h
  split at h
  · next hod =>
    split at h
    · cases h
    · have hgrow : ∀ (steps : List T) (s1 : St), steps.foldlM (assignDynAt E false o') s1 = .ok s' →
          (∀ l x, x ∈ s1.sreg l → x ∈ s'.sreg l) ∧ (∀ l t x, memD s1.dreg l t x → memD s'.dreg l t x) := by
        intro steps
        induction steps with
        | nil =>
          intro s1 hf
          simp only [List.foldlM_nil, pure_ok] at hf
          subst hf
          exact ⟨fun l x hx => hx, fun l t x hx => hx⟩
        | cons a as ih =>
          intro s1 hf
          rw [List.foldlM_cons] at hf
          obtain ⟨s2, h1, h2⟩ := bind_ok.mp hf
          obtain ⟨g1, g2, _⟩ := assignDynAt_grows h1
          obtain ⟨k1, k2⟩ := ih s2 h2
          exact ⟨fun l x hx => k1 l x (g1 ▸ hx), fun l t x hx => k2 l t x (g2 l t x hx)⟩
      have hs1 : ∀ (x : St), x = (if E.kind o' = Kind.dynTraj then s.setFwd o' (initDicts false (s.fwd o')) else s) →
          x.sreg = s.sreg ∧ x.dreg = s.dreg := by
        intro x hx; subst hx; split <;> exact ⟨rfl, rfl⟩
      obtain ⟨e1, e2⟩ := hs1 _ rfl
      obtain ⟨g1, g2⟩ := hgrow _ _ h
      refine ⟨fun l x hx => g1 l x (e1 ▸ hx), fun l t x hx => g2 l t x (e2 ▸ hx), ?_, fun hos => absurd hos (hdisj hod)⟩
      intro _ t hh l hl
      have hest := foldlM_establish (assignDynAt E false o') (fun x => memD x.dreg l t o') t
        (fun x a x' hR hx => (assignDynAt_grows hx).2.1 l t o' hR)
        (fun x x' hx => (assignDynAt_grows hx).2.2 rfl hh l hl) _ _ s' ?_ h
      · exact hest
      · show t ∈ (if E.kind o' = Kind.dynTraj then trange (E.t0 o') (E.len o') else [E.t0 o'])
        rcases hh with e | ⟨hk, h1, h2⟩
        · split
          · rw [e]; exact mem_trange.mpr ⟨Int.le_refl _, tf_ge E o'⟩
          · rw [e]; exact List.mem_singleton.mpr rfl
        · rw [if_pos hk]; exact mem_trange.mpr ⟨h1, h2⟩
  · next hnd =>
    split at h
    · next hos =>
      unfold assignStatic at h
      simp only [Bool.false_eq_true, if_false] at h
      obtain ⟨r, hr, h⟩ := bind_ok.mp h
      cases pure_ok.mp h
      obtain ⟨_, hreg⟩ := regStatic_spec E o' _ _ _ hr
      exact ⟨fun l x hx => (hreg l x).mpr (Or.inl hx), fun l t x hx => hx, fun hod => absurd hod hnd,
        fun _ l hl => (hreg l o').mpr (Or.inr ⟨rfl, hl⟩)⟩
    · cases h

/-- after `assign_obstacles_to_lanelets()` every lookup answer of every obstacle of the scenario, for every time step of its
    horizon, is registered — in whatever state the assignment started -/
theorem assign_registers {E : Env} {s s' : St} (hdisj : ∀ x, x ∈ s.dynamics → x ∉ s.statics)
    (h : assign E none none false s = .ok s') :
    (∀ o, o ∈ s.dynamics → ∀ t, InHorizon E o t → ∀ l, l ∈ E.shp o t → memD s'.dreg l t o) ∧
    (∀ o, o ∈ s.statics → ∀ l, l ∈ E.shp o (E.t0 o) → o ∈ s'.sreg l) := by
  unfold assign at h
  have hQ : ∀ (x : St) (a : Id) (x' : St), (x.statics = s.statics ∧ x.dynamics = s.dynamics) →
      assignObs E none false x a = .ok x' → (x'.statics = s.statics ∧ x'.dynamics = s.dynamics) := by
    rintro x a x' ⟨q2, q3⟩ hf
    obtain ⟨p2, p3⟩ := assignObs_lists hf
    exact ⟨p2.trans q2, p3.trans q3⟩
  constructor
  · intro o hod t hh l hl
    refine foldlM_establish' (assignObs E none false) (fun x => x.statics = s.statics ∧ x.dynamics = s.dynamics)
      (fun x => memD x.dreg l t o) o hQ ?_ ?_ _ s s' ⟨rfl, rfl⟩ (List.mem_append.mpr (Or.inr hod)) h
    · rintro x a x' ⟨q2, q3⟩ hR hf
      exact (assignObs_grows (fun hd => q2 ▸ hdisj a (q3 ▸ hd)) hf).2.1 l t o hR
    · rintro x x' ⟨q2, q3⟩ hf
      exact (assignObs_grows (fun hd => q2 ▸ hdisj o (q3 ▸ hd)) hf).2.2.1 (q3 ▸ hod) t hh l hl
  · intro o hos l hl
    refine foldlM_establish' (assignObs E none false) (fun x => x.statics = s.statics ∧ x.dynamics = s.dynamics)
      (fun x => o ∈ x.sreg l) o hQ ?_ ?_ _ s s' ⟨rfl, rfl⟩ (List.mem_append.mpr (Or.inl hos)) h
    · rintro x a x' ⟨q2, q3⟩ hR hf
      exact (assignObs_grows (fun hd => q2 ▸ hdisj a (q3 ▸ hd)) hf).1 l o hR
    · rintro x x' ⟨q2, q3⟩ hf
      exact (assignObs_grows (fun hd => q2 ▸ hdisj o (q3 ▸ hd)) hf).2.2.2 (q2 ▸ hos) l hl

/-- **re-assignment after any history, network changes included, re-establishes the exact — and geometric — inverse** on the
    present lanelets, provided the centre of an obstacle lies in its occupancy (`hcs`: a centre lanelet is a shape lanelet) -/
theorem reassign_exact {E : Env} {P : List Id} {s s' : St} (hi : NI E P s)
    (hcs : ∀ o t l, l ∈ E.cen o t → l ∈ E.shp o t) (h : assign (E.on P) none none false s = .ok s') :
    (∀ l t o, memD s'.dreg l t o ↔ (l ∈ P ∧ o ∈ s'.dynamics ∧ E.kind o ≠ Kind.dynSet ∧ InHorizon E o t ∧ l ∈ E.shp o t)) ∧
    (∀ l o, o ∈ s'.sreg l ↔ (l ∈ P ∧ o ∈ s'.statics ∧ l ∈ E.shp o (E.t0 o))) := by
  have hi' := ni_assign hi h
  obtain ⟨e2, e3⟩ : s'.statics = s.statics ∧ s'.dynamics = s.dynamics := by
    unfold assign at h
    refine foldlM_inv (assignObs (E.on P) none false) (fun x => x.statics = s.statics ∧ x.dynamics = s.dynamics) ?_ _ s s' ⟨rfl, rfl⟩ h
    rintro x a x' ⟨q2, q3⟩ hf
    obtain ⟨p2, p3⟩ := assignObs_lists hf
    exact ⟨p2.trans q2, p3.trans q3⟩
  obtain ⟨r1, r2⟩ := assign_registers (E := E.on P) (fun x hd hs' => hi.kindD x hd (hi.kindS x hs')) h
  constructor
  · intro l t o
    constructor
    · intro hm
      obtain ⟨h1, h2⟩ := hi'.sub.subD l t o hm
      refine ⟨hi'.absentD l t o hm, h1, ?_⟩
      rcases h2 with h5 | h5
      · obtain ⟨a, b, c⟩ := (hi'.sound o).ofShapeD h5
        exact ⟨b, c, a⟩
      · obtain ⟨a, b, c⟩ := (hi'.sound o).ofCenD h5
        exact ⟨b, c, hcs o t l a⟩
    · rintro ⟨hl, hod, _, hh, hshp⟩
      exact r1 o (e3 ▸ hod) t hh l (List.mem_filter.mpr ⟨hshp, decide_eq_true hl⟩)
  · intro l o
    constructor
    · intro hm
      obtain ⟨h1, h2⟩ := hi'.sub.subS l o hm
      refine ⟨hi'.absentS l o hm, h1, ?_⟩
      rcases h2 with ⟨ids, h3, h4⟩ | ⟨ids, h3, h4⟩
      · exact (mem_effShp.mp ((hi'.sound o).initShape ids h3 l h4)).2
      · exact hcs o _ l (mem_effCen.mp ((hi'.sound o).initCenter ids h3 l h4)).2
    · rintro ⟨hl, hos, hshp⟩
      exact r2 o (e2 ▸ hos) l (List.mem_filter.mpr ⟨hshp, decide_eq_true hl⟩)

end CR.Assign
