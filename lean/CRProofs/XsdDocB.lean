/-
  CRProofs.XsdDocB — C03 whole-document validity, part B: occupancies, predictions, obstacles.
-/
import CRProofs.XsdDocH
import CRProofs.XsdEnumT

namespace CR.C03
open CR.Xsd CR.XmlNum CR.XmlW

/-! ### occupancy, occupancy set, trajectory, signal series -/

theorem pt_occupancy : PlainType "occupancy" := by unfold PlainType; decide

theorem valid_occ (p : Nat) {o : Occ} (h : OccOk o) : validNode schema "occupancy" (occNode p o) = true := by
  have hm : matchGroup (schema.content "occupancy") ["shape", "time"] = some ["shape", "integerExactOrIntervalGreaterZero"] := by
    decide
  rw [occNode, el_valid pt_occupancy (ts := ["shape", "integerExactOrIntervalGreaterZero"]) (by simpa [el, Xml.name] using hm)]
  simp only [validKids, valid_shape p false h.1, valid_time "time" h.2, Bool.and_self]

theorem valid_occSet (T : String) (hT : PlainType T) (hg : isPlainSeq (schema.content T) = true)
    (he : elemsOf (schema.content T) = [{ name := "occupancy", type := "occupancy", min := 1, max := none }])
    (p : Nat) {os : List Occ} (hne : os ≠ []) (h : ∀ o ∈ os, OccOk o) : validNode schema T (occSetNode p os) = true := by
  refine one_family hT hg _ he rfl "occupancySet" _ ?_ (map_ne_nil _ hne) ?_
  · cases os with
    | nil => exact absurd rfl hne
    | cons _ _ => simp
  · intro x hx
    obtain ⟨o, ho, rfl⟩ := List.mem_map.mp hx
    exact ⟨rfl, valid_occ p (h o ho)⟩

theorem pt_dynOccSet : PlainType "dynamicObstacle/occupancySet" := by unfold PlainType; decide
theorem pt_phOccSet : PlainType "phantomObstacle/occupancySet" := by unfold PlainType; decide
theorem pt_traj : PlainType "dynamicObstacle/trajectory" := by unfold PlainType; decide
theorem pt_series : PlainType "dynamicObstacle/signalSeries" := by unfold PlainType; decide

theorem valid_traj (p : Nat) {sts : List (List Attr)} (hne : sts ≠ []) (h : ∀ st ∈ sts, StateOk st) :
    validNode schema "dynamicObstacle/trajectory" (trajNode p sts) = true := by
  refine one_family pt_traj (by decide) { name := "state", type := "state", min := 1, max := none } (by decide) rfl
    "trajectory" _ ?_ (map_ne_nil _ hne) ?_
  · cases sts with
    | nil => exact absurd rfl hne
    | cons _ _ => simp
  · intro x hx
    obtain ⟨st, hst, rfl⟩ := List.mem_map.mp hx
    exact ⟨rfl, valid_state p "state" (h st hst)⟩

theorem valid_series {ss : List Signal} (hne : ss ≠ []) (h : ∀ s ∈ ss, 1 ≤ s.t) :
    validNode schema "dynamicObstacle/signalSeries" (el "signalSeries" (ss.map (signalNode "signalState"))) = true := by
  refine one_family pt_series (by decide) { name := "signalState", type := "signalState", min := 1, max := none } (by decide) rfl
    "signalSeries" _ ?_ (map_ne_nil _ hne) ?_
  · cases ss with
    | nil => exact absurd rfl hne
    | cons _ _ => simp
  · intro x hx
    obtain ⟨s, hs, rfl⟩ := List.mem_map.mp hx
    exact ⟨rfl, valid_signalState "signalState" s (h s hs)⟩

/-! ### obstacles -/

theorem it_static : IdType "staticObstacle" := by unfold IdType; decide

theorem valid_static (p : Nat) {o : StaticObs} (h : StaticOk o) : validNode schema "staticObstacle" (staticNode p o) = true := by
  have hm : matchGroup (schema.content "staticObstacle") ["type", "shape", "initialState"] =
      some ["obstacleTypeStatic", "shape", "initialState"] := by decide
  rw [staticNode, id_valid it_static h.1 (ts := ["obstacleTypeStatic", "shape", "initialState"])
    (by simpa [el, leaf, stateNode, Xml.name] using hm)]
  simp only [validKids, leaf_enum "type" _ _ (ok_static h.2.1), valid_shape p false h.2.2.1, valid_initialState p "initialState" h.2.2.2,
    Bool.and_self]

theorem it_envObs : IdType "environmentObstacle" := by unfold IdType; decide

theorem valid_envObs (p : Nat) {o : EnvObs} (h : EnvObsOk o) :
    validNode schema "environmentObstacle" (envObsNode p o) = true := by
  have hm : matchGroup (schema.content "environmentObstacle") ["type", "shape"] = some ["obstacleTypeEnvironment", "shape"] := by
    decide
  rw [envObsNode, id_valid it_envObs h.1 (ts := ["obstacleTypeEnvironment", "shape"]) (by simpa [el, leaf, Xml.name] using hm)]
  simp only [validKids, leaf_enum "type" _ _ (ok_environment h.2.1), valid_shape p false h.2.2, Bool.and_self]

theorem it_phantom : IdType "phantomObstacle" := by unfold IdType; decide

theorem valid_phantom (p : Nat) {o : PhantomObs} (h : PhantomOk o) :
    validNode schema "phantomObstacle" (phantomNode p o) = true := by
  obtain ⟨hid, os, ho, hne, hos⟩ := h
  have hm : matchGroup (schema.content "phantomObstacle") ["occupancySet"] = some ["phantomObstacle/occupancySet"] := by decide
  rw [phantomNode, ho, optOccSetNodes, id_valid it_phantom hid (ts := ["phantomObstacle/occupancySet"])
    (by simpa [occSetNode, el, Xml.name] using hm)]
  simp only [validKids, valid_occSet _ pt_phOccSet (by decide) (by decide) p hne hos, Bool.and_self]

theorem it_dynamic : IdType "dynamicObstacle" := by unfold IdType; decide

theorem valid_dynamic (p : Nat) {o : DynObs} (h : DynOk o) : validNode schema "dynamicObstacle" (dynNode p o) = true := by
  obtain ⟨hid, hty, hsh, hinit, hs0, hpred, hser⟩ := h
  have A := leaf_enum "type" _ _ (ok_dynamic hty)
  have B := valid_shape p true hsh
  have C := valid_initialState p "initialState" hinit
  -- the optional parts, each with the type the content model assigns to it
  have S0 : ∀ s, o.sig0 = some s → validNode schema "initialSignalState" (signalNode "initialSignalState" s) = true :=
    fun s hs => valid_initialSignalState _ s (hs0 s hs)
  have SER : o.series.isEmpty = false →
      validNode schema "dynamicObstacle/signalSeries" (el "signalSeries" (o.series.map (signalNode "signalState"))) = true := by
    intro hne
    exact valid_series (by intro h; rw [h] at hne; simp at hne) hser
  unfold dynNode sig0Nodes predNodes seriesNodes
  cases hsig : o.sig0 with
  | none =>
    cases hp : o.pred with
    | none => rw [hp] at hpred; exact absurd hpred id
    | traj sts =>
      rw [hp] at hpred
      have P := valid_traj p hpred.1 hpred.2
      cases hse : o.series.isEmpty with
      | true =>
        have hm : matchGroup (schema.content "dynamicObstacle") ["type", "shape", "initialState", "trajectory"] =
            some ["obstacleTypeDynamic", "shape", "initialState", "dynamicObstacle/trajectory"] := by decide
        rw [id_valid it_dynamic hid (ts := ["obstacleTypeDynamic", "shape", "initialState", "dynamicObstacle/trajectory"])
          (by simpa [el, leaf, stateNode, trajNode, Xml.name] using hm)]
        simp [validKids, A, B, C, P]
      | false =>
        have hm : matchGroup (schema.content "dynamicObstacle") ["type", "shape", "initialState", "trajectory", "signalSeries"] =
            some ["obstacleTypeDynamic", "shape", "initialState", "dynamicObstacle/trajectory", "dynamicObstacle/signalSeries"] := by
          decide
        rw [id_valid it_dynamic hid
          (ts := ["obstacleTypeDynamic", "shape", "initialState", "dynamicObstacle/trajectory", "dynamicObstacle/signalSeries"])
          (by simpa [el, leaf, stateNode, trajNode, Xml.name] using hm)]
        simp [validKids, A, B, C, P, SER hse]
    | occ os =>
      rw [hp] at hpred
      have P := valid_occSet _ pt_dynOccSet (by decide) (by decide) p hpred.1 hpred.2
      cases hse : o.series.isEmpty with
      | true =>
        have hm : matchGroup (schema.content "dynamicObstacle") ["type", "shape", "initialState", "occupancySet"] =
            some ["obstacleTypeDynamic", "shape", "initialState", "dynamicObstacle/occupancySet"] := by decide
        rw [id_valid it_dynamic hid (ts := ["obstacleTypeDynamic", "shape", "initialState", "dynamicObstacle/occupancySet"])
          (by simpa [el, leaf, stateNode, occSetNode, Xml.name] using hm)]
        simp [validKids, A, B, C, P]
      | false =>
        have hm : matchGroup (schema.content "dynamicObstacle") ["type", "shape", "initialState", "occupancySet", "signalSeries"] =
            some ["obstacleTypeDynamic", "shape", "initialState", "dynamicObstacle/occupancySet", "dynamicObstacle/signalSeries"] := by
          decide
        rw [id_valid it_dynamic hid
          (ts := ["obstacleTypeDynamic", "shape", "initialState", "dynamicObstacle/occupancySet", "dynamicObstacle/signalSeries"])
          (by simpa [el, leaf, stateNode, occSetNode, Xml.name] using hm)]
        simp [validKids, A, B, C, P, SER hse]
  | some s0 =>
    have D := S0 s0 hsig
    cases hp : o.pred with
    | none => rw [hp] at hpred; exact absurd hpred id
    | traj sts =>
      rw [hp] at hpred
      have P := valid_traj p hpred.1 hpred.2
      cases hse : o.series.isEmpty with
      | true =>
        have hm : matchGroup (schema.content "dynamicObstacle") ["type", "shape", "initialState", "initialSignalState", "trajectory"] =
            some ["obstacleTypeDynamic", "shape", "initialState", "initialSignalState", "dynamicObstacle/trajectory"] := by decide
        rw [id_valid it_dynamic hid
          (ts := ["obstacleTypeDynamic", "shape", "initialState", "initialSignalState", "dynamicObstacle/trajectory"])
          (by simpa [el, leaf, stateNode, trajNode, signalNode, Xml.name] using hm)]
        simp [validKids, A, B, C, D, P]
      | false =>
        have hm : matchGroup (schema.content "dynamicObstacle")
            ["type", "shape", "initialState", "initialSignalState", "trajectory", "signalSeries"] =
            some ["obstacleTypeDynamic", "shape", "initialState", "initialSignalState", "dynamicObstacle/trajectory",
                  "dynamicObstacle/signalSeries"] := by decide
        rw [id_valid it_dynamic hid
          (ts := ["obstacleTypeDynamic", "shape", "initialState", "initialSignalState", "dynamicObstacle/trajectory",
                  "dynamicObstacle/signalSeries"])
          (by simpa [el, leaf, stateNode, trajNode, signalNode, Xml.name] using hm)]
        simp [validKids, A, B, C, D, P, SER hse]
    | occ os =>
      rw [hp] at hpred
      have P := valid_occSet _ pt_dynOccSet (by decide) (by decide) p hpred.1 hpred.2
      cases hse : o.series.isEmpty with
      | true =>
        have hm : matchGroup (schema.content "dynamicObstacle") ["type", "shape", "initialState", "initialSignalState", "occupancySet"] =
            some ["obstacleTypeDynamic", "shape", "initialState", "initialSignalState", "dynamicObstacle/occupancySet"] := by decide
        rw [id_valid it_dynamic hid
          (ts := ["obstacleTypeDynamic", "shape", "initialState", "initialSignalState", "dynamicObstacle/occupancySet"])
          (by simpa [el, leaf, stateNode, occSetNode, signalNode, Xml.name] using hm)]
        simp [validKids, A, B, C, D, P]
      | false =>
        have hm : matchGroup (schema.content "dynamicObstacle")
            ["type", "shape", "initialState", "initialSignalState", "occupancySet", "signalSeries"] =
            some ["obstacleTypeDynamic", "shape", "initialState", "initialSignalState", "dynamicObstacle/occupancySet",
                  "dynamicObstacle/signalSeries"] := by decide
        rw [id_valid it_dynamic hid
          (ts := ["obstacleTypeDynamic", "shape", "initialState", "initialSignalState", "dynamicObstacle/occupancySet",
                  "dynamicObstacle/signalSeries"])
          (by simpa [el, leaf, stateNode, occSetNode, signalNode, Xml.name] using hm)]
        simp [validKids, A, B, C, D, P, SER hse]

end CR.C03
