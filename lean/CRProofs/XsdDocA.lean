/-
  CRProofs.XsdDocA — C03 whole-document validity, part A: points, shapes, values, times, positions, states, signal states.
-/
import CRProofs.XsdDoc

namespace CR.C03
open CR.Xsd CR.XmlNum CR.XmlW

/-- complex type `T` of the schema has no attributes and element-only content -/
def PlainType (T : String) : Prop := schema.lookup T = some (.complex [] false (schema.content T))

theorem el_valid {T : String} (hT : PlainType T) {n : String} {kids : List Xml} {ts : List String}
    (hm : matchGroup (schema.content T) (kids.map Xml.name) = some ts) :
    validNode schema T (el n kids) = validKids schema ts kids :=
  validNode_complex hT (by rfl) hm

/-! ### points -/

theorem pt_point : PlainType "point" := by unfold PlainType; decide

theorem valid_pointNode (tag : String) {x y : Str} {z : Option Str} (hx : isDecimal x = true) (hy : isDecimal y = true)
    (hz : ∀ z', z = some z' → isDecimal z' = true) : validNode schema "point" (pointNode tag x y z) = true := by
  cases z with
  | none =>
    have hm : matchGroup (schema.content "point") ["x", "y"] = some ["xs:decimal", "xs:decimal"] := by decide
    rw [pointNode, validNode_complex pt_point (ts := ["xs:decimal", "xs:decimal"]) (by rfl) (by simpa [leaf, Xml.name] using hm)]
    simp only [List.append_nil, validKids, leaf_decimal _ hx, leaf_decimal _ hy, Bool.and_self]
  | some z' =>
    have hm : matchGroup (schema.content "point") ["x", "y", "z"] = some ["xs:decimal", "xs:decimal", "xs:decimal"] := by decide
    rw [pointNode, validNode_complex pt_point (ts := ["xs:decimal", "xs:decimal", "xs:decimal"]) (by rfl)
      (by simpa [leaf, Xml.name] using hm)]
    simp only [List.cons_append, List.nil_append, validKids, leaf_decimal _ hx, leaf_decimal _ hy, leaf_decimal _ (hz z' rfl),
      Bool.and_self]

theorem valid_pt (p : Nat) (tag : String) {q : Pt} (h : PtOk q) : validNode schema "point" (ptNode p tag q) = true := by
  unfold ptNode
  refine valid_pointNode tag (h.1.coord p) (h.2.1.coord p) ?_
  intro z' hz
  cases hq : q.z with
  | none => rw [hq] at hz; cases hz
  | some z => rw [hq] at hz; cases hz; exact (h.2.2 z hq).coord p

theorem name_pt (p : Nat) (tag : String) (q : Pt) : (ptNode p tag q).name = tag := rfl

/-! ### shapes -/

theorem pt_rectangle : PlainType "rectangle" := by unfold PlainType; decide
theorem pt_circle : PlainType "circle" := by unfold PlainType; decide
theorem pt_polygon : PlainType "polygon" := by unfold PlainType; decide

theorem valid_rectangleNode {l w : Num} (hl : PosNum l) (hw : PosNum w) (o : Option Str) (c : Option (Str × Str))
    (ho : ∀ o', o = some o' → isDecimal o' = true)
    (hc : ∀ cx cy, c = some (cx, cy) → isDecimal cx = true ∧ isDecimal cy = true) :
    validNode schema "rectangle" (rectangleNode l.dec w.dec o c) = true := by
  have L := leaf_posdec_num "length" hl
  have W := leaf_posdec_num "width" hw
  cases o with
  | none =>
    cases c with
    | none =>
      have hm : matchGroup (schema.content "rectangle") ["length", "width"] = some ["positiveDecimal", "positiveDecimal"] := by decide
      rw [rectangleNode, validNode_complex pt_rectangle (ts := ["positiveDecimal", "positiveDecimal"]) (by rfl)
        (by simpa [leaf, Xml.name] using hm)]
      simp only [List.append_nil, validKids, L, W, Bool.and_self]
    | some t =>
      obtain ⟨cx, cy⟩ := t
      obtain ⟨hcx, hcy⟩ := hc cx cy rfl
      have hm : matchGroup (schema.content "rectangle") ["length", "width", "center"] =
          some ["positiveDecimal", "positiveDecimal", "point"] := by decide
      rw [rectangleNode, validNode_complex pt_rectangle (ts := ["positiveDecimal", "positiveDecimal", "point"]) (by rfl)
        (by simpa [leaf, pointNode, Xml.name] using hm)]
      simp only [List.append_nil, List.cons_append, List.nil_append, validKids, L, W,
        valid_pointNode (z := none) "center" hcx hcy (by intro _ h; cases h), Bool.and_self]
  | some o' =>
    have ho' := ho o' rfl
    cases c with
    | none =>
      have hm : matchGroup (schema.content "rectangle") ["length", "width", "orientation"] =
          some ["positiveDecimal", "positiveDecimal", "xs:decimal"] := by decide
      rw [rectangleNode, validNode_complex pt_rectangle (ts := ["positiveDecimal", "positiveDecimal", "xs:decimal"]) (by rfl)
        (by simpa [leaf, Xml.name] using hm)]
      simp only [List.append_nil, List.cons_append, List.nil_append, validKids, L, W, leaf_decimal _ ho', Bool.and_self]
    | some t =>
      obtain ⟨cx, cy⟩ := t
      obtain ⟨hcx, hcy⟩ := hc cx cy rfl
      have hm : matchGroup (schema.content "rectangle") ["length", "width", "orientation", "center"] =
          some ["positiveDecimal", "positiveDecimal", "xs:decimal", "point"] := by decide
      rw [rectangleNode, validNode_complex pt_rectangle (ts := ["positiveDecimal", "positiveDecimal", "xs:decimal", "point"]) (by rfl)
        (by simpa [leaf, pointNode, Xml.name] using hm)]
      simp only [List.cons_append, List.nil_append, validKids, L, W, leaf_decimal _ ho',
        valid_pointNode (z := none) "center" hcx hcy (by intro _ h; cases h), Bool.and_self]

theorem valid_circleNode {r : Num} (hr : PosNum r) (c : Option (Str × Str))
    (hc : ∀ cx cy, c = some (cx, cy) → isDecimal cx = true ∧ isDecimal cy = true) :
    validNode schema "circle" (circleNode r.dec c) = true := by
  have R := leaf_posdec_num "radius" hr
  cases c with
  | none =>
    have hm : matchGroup (schema.content "circle") ["radius"] = some ["positiveDecimal"] := by decide
    rw [circleNode, validNode_complex pt_circle (ts := ["positiveDecimal"]) (by rfl) (by simpa [leaf, Xml.name] using hm)]
    simp only [List.append_nil, validKids, R, Bool.and_self]
  | some t =>
    obtain ⟨cx, cy⟩ := t
    obtain ⟨hcx, hcy⟩ := hc cx cy rfl
    have hm : matchGroup (schema.content "circle") ["radius", "center"] = some ["positiveDecimal", "point"] := by decide
    rw [circleNode, validNode_complex pt_circle (ts := ["positiveDecimal", "point"]) (by rfl)
      (by simpa [leaf, pointNode, Xml.name] using hm)]
    simp only [List.cons_append, List.nil_append, validKids, R, valid_pointNode (z := none) "center" hcx hcy (by intro _ h; cases h),
      Bool.and_self]

theorem name_shape1 (p : Nat) (dyn : Bool) (s : Shape1) : (shape1Node p dyn s).name = s.tag := by
  cases s <;> rfl

theorem lk_polygon : schema.lookup "polygon" = some (.complex [] false (schema.content "polygon")) := pt_polygon

/-- every single shape element the writer emits — static or in the frame of a dynamic obstacle — is valid, down to its leaves -/
theorem valid_shape1 (p : Nat) (dyn : Bool) {s : Shape1} (h : Shape1Ok s) :
    validNode schema s.tag (shape1Node p dyn s) = true := by
  cases s with
  | rect l w o cx cy =>
    obtain ⟨hl, hw, ho, hcx, hcy⟩ := h
    refine valid_rectangleNode hl hw _ _ ?_ ?_
    · intro o' h'; split at h' <;> cases h'; exact ho.dec
    · intro a b h'; split at h' <;> cases h'; exact ⟨hcx.coord p, hcy.coord p⟩
  | circ r cx cy =>
    obtain ⟨hr, hcx, hcy⟩ := h
    refine valid_circleNode hr _ ?_
    intro a b h'; split at h' <;> cases h'; exact ⟨hcx.coord p, hcy.coord p⟩
  | poly vs =>
    obtain ⟨h3, hv⟩ := h
    have he : elemsOf (schema.content "polygon") = [{ name := "point", type := "point", min := 3, max := none }] := by decide
    have hf : FamsOk schema (elemsOf (schema.content "polygon")) [vs.map fun v => ptNode p "point" { x := v.1, y := v.2 }] := by
      rw [he]
      refine ⟨?_, ⟨by simpa using h3, fun m hm => by cases hm⟩, trivial⟩
      intro x hx
      obtain ⟨v, hv', rfl⟩ := List.mem_map.mp hx
      exact ⟨rfl, valid_pt p "point" ⟨(hv v hv').1, (hv v hv').2, by intro z hz; cases hz⟩⟩
    have := seq_assembly lk_polygon (by decide) "polygon" [] (by rfl) _ hf (by
      cases vs with
      | nil => simp at h3
      | cons _ _ => simp)
    simpa [shape1Node, el, Shape1.tag] using this

theorem pt_shape : PlainType "shape" := by unfold PlainType; decide

theorem shape_tag_type (s : Shape1) :
    s.tag ∈ (elemsOf (schema.content "shape")).map (·.name) ∧ typeOfIn (elemsOf (schema.content "shape")) s.tag = s.tag := by
  have key : ∀ t ∈ ["rectangle", "circle", "polygon"],
      t ∈ (elemsOf (schema.content "shape")).map (·.name) ∧ typeOfIn (elemsOf (schema.content "shape")) t = t := by decide
  cases s <;> exact key _ (by simp [Shape1.tag])

/-- `<shape>`: the members of a shape group (or the single shape), in any mixture -/
theorem valid_shape (p : Nat) (dyn : Bool) {s : List Shape1} (h : ShapeOk s) :
    validNode schema "shape" (el "shape" (shapeNodes p dyn s)) = true := by
  refine unit_choice_assembly 1 pt_shape (by decide) (by decide) "shape" [] (by rfl) _ ?_ ?_
  · intro k hk
    obtain ⟨x, hx, rfl⟩ := List.mem_map.mp hk
    rw [name_shape1]
    exact ⟨(shape_tag_type x).1, by rw [(shape_tag_type x).2]; exact valid_shape1 p dyn (h.2 x hx)⟩
  · cases s with
    | nil => exact absurd rfl h.1
    | cons _ _ => simp [shapeNodes]

/-! ### values and times -/

theorem pt_dei : PlainType "decimalExactOrInterval" := by unfold PlainType; decide
theorem pt_di : PlainType "decimalInterval" := by unfold PlainType; decide
theorem pt_de : PlainType "decimalExact" := by unfold PlainType; decide
theorem pt_iei : PlainType "integerExactOrIntervalGreaterZero" := by unfold PlainType; decide
theorem pt_ii : PlainType "integerIntervalGreaterZero" := by unfold PlainType; decide
theorem pt_iz : PlainType "integerExactZero" := by unfold PlainType; decide

/-- exact value or interval (`decimalExactOrInterval`) -/
theorem valid_val (p : Nat) (n : String) {v : Val} (h : ValOk v) :
    validNode schema "decimalExactOrInterval" (el n (valKids p v)) = true := by
  cases v with
  | exact x =>
    have hm : matchGroup (schema.content "decimalExactOrInterval") ["exact"] = some ["xs:decimal"] := by decide
    rw [el_valid pt_dei (ts := ["xs:decimal"]) (by simpa [valKids, leaf, Xml.name] using hm)]
    simp only [valKids, validKids, leaf_coord _ h p, Bool.and_self]
  | interval a b =>
    have hm : matchGroup (schema.content "decimalExactOrInterval") ["intervalStart", "intervalEnd"] =
        some ["xs:decimal", "xs:decimal"] := by decide
    rw [el_valid pt_dei (ts := ["xs:decimal", "xs:decimal"]) (by simpa [valKids, leaf, Xml.name] using hm)]
    simp only [valKids, validKids, leaf_coord _ h.1 p, leaf_coord _ h.2 p, Bool.and_self]

/-- intervals only (`decimalInterval`, goal states) -/
theorem valid_val_interval (p : Nat) (n : String) {a b : Num} (ha : Fin a) (hb : Fin b) :
    validNode schema "decimalInterval" (el n (valKids p (.interval a b))) = true := by
  have hm : matchGroup (schema.content "decimalInterval") ["intervalStart", "intervalEnd"] = some ["xs:decimal", "xs:decimal"] := by
    decide
  rw [el_valid pt_di (ts := ["xs:decimal", "xs:decimal"]) (by simpa [valKids, leaf, Xml.name] using hm)]
  simp only [valKids, validKids, leaf_coord _ ha p, leaf_coord _ hb p, Bool.and_self]

/-- exact values only (`decimalExact`, initial states of planning problems) -/
theorem valid_val_exact (p : Nat) (n : String) {x : Num} (h : Fin x) :
    validNode schema "decimalExact" (el n (valKids p (.exact x))) = true := by
  have hm : matchGroup (schema.content "decimalExact") ["exact"] = some ["xs:decimal"] := by decide
  rw [el_valid pt_de (ts := ["xs:decimal"]) (by simpa [valKids, leaf, Xml.name] using hm)]
  simp only [valKids, validKids, leaf_coord _ h p, Bool.and_self]

theorem valid_time (n : String) {t : TimeV} (h : TimeOk t) :
    validNode schema "integerExactOrIntervalGreaterZero" (el n (timeKids t)) = true := by
  cases t with
  | exact t =>
    have hm : matchGroup (schema.content "integerExactOrIntervalGreaterZero") ["exact"] = some ["xs:positiveInteger"] := by decide
    rw [el_valid pt_iei (ts := ["xs:positiveInteger"]) (by simpa [timeKids, leaf, Xml.name] using hm)]
    simp only [timeKids, validKids, leaf_posint _ h, Bool.and_self]
  | interval a b =>
    have hm : matchGroup (schema.content "integerExactOrIntervalGreaterZero") ["intervalStart", "intervalEnd"] =
        some ["xs:nonNegativeInteger", "xs:positiveInteger"] := by decide
    rw [el_valid pt_iei (ts := ["xs:nonNegativeInteger", "xs:positiveInteger"]) (by simpa [timeKids, leaf, Xml.name] using hm)]
    simp only [timeKids, validKids, leaf_nonneg _ h.1, leaf_posint _ h.2, Bool.and_self]

/-- time of an initial state: exactly 0 -/
theorem valid_time_zero (n : String) : validNode schema "integerExactZero" (el n (timeKids (.exact 0))) = true := by
  have hm : matchGroup (schema.content "integerExactZero") ["exact"] = some ["integerZero"] := by decide
  rw [el_valid pt_iz (ts := ["integerZero"]) (by simpa [timeKids, leaf, Xml.name] using hm)]
  simp only [timeKids, validKids, leaf_zero, Bool.and_self]

/-- time of a goal state: an interval -/
theorem valid_time_goal (n : String) {a b : Int} (ha : 0 ≤ a) (hb : 1 ≤ b) :
    validNode schema "integerIntervalGreaterZero" (el n (timeKids (.interval a b))) = true := by
  have hm : matchGroup (schema.content "integerIntervalGreaterZero") ["intervalStart", "intervalEnd"] =
      some ["xs:nonNegativeInteger", "xs:positiveInteger"] := by decide
  rw [el_valid pt_ii (ts := ["xs:nonNegativeInteger", "xs:positiveInteger"]) (by simpa [timeKids, leaf, Xml.name] using hm)]
  simp only [timeKids, validKids, leaf_nonneg _ ha, leaf_posint _ hb, Bool.and_self]

/-! ### references -/

def refDecl : List AttrP := [{ name := "ref", type := "xs:integer", required := true }]

/-- `<n ref="i"/>` against a type that consists of the `ref` attribute (laneletRef, trafficSignRef, trafficLightRef, incomingRef) -/
theorem valid_ref {T : String} (hT : schema.lookup T = some (.complex refDecl false .empty)) (n : String) (i : Int) :
    validNode schema T (refNode n i) = true := by
  have hm : matchGroup .empty (([] : List Xml).map Xml.name) = some [] := by decide
  rw [refNode, validNode_complex hT (attrs_ref i) hm]; rfl

theorem lk_laneletRef : schema.lookup "laneletRef" = some (.complex refDecl false .empty) := by decide
theorem lk_signRef : schema.lookup "trafficSignRef" = some (.complex refDecl false .empty) := by decide
theorem lk_lightRef : schema.lookup "trafficLightRef" = some (.complex refDecl false .empty) := by decide
theorem lk_incomingRef : schema.lookup "incomingRef" = some (.complex refDecl false .empty) := by decide

theorem fam_refs {T : String} (hT : schema.lookup T = some (.complex refDecl false .empty)) (n : String) (ids : List Int) :
    ∀ x ∈ ids.map (refNode n), x.name = n ∧ validNode schema T x = true := by
  intro x hx
  obtain ⟨i, _, rfl⟩ := List.mem_map.mp hx
  exact ⟨rfl, valid_ref hT n i⟩

/-! ### positions -/

theorem pt_position : PlainType "position" := by unfold PlainType; decide
theorem pt_positionInterval : PlainType "positionInterval" := by unfold PlainType; decide
theorem pt_positionExact : PlainType "positionExact" := by unfold PlainType; decide

theorem shape_run {T : String} (hT : PlainType T)
    (hg : schema.content T = .choice ((elemsOf (schema.content T)).map Item.elem) 1 (some 1))
    (hmin : (elemsOf (schema.content T)).all (fun e => decide (1 ≤ e.min)) = true)
    (hnd : ((elemsOf (schema.content T)).map (·.name)).Nodup)
    (hin : ∀ t ∈ ["rectangle", "circle", "polygon"],
      ({ name := t, type := t, min := 1, max := none } : ElemP) ∈ elemsOf (schema.content T))
    (p : Nat) {s : List Shape1} (hne : s ≠ []) {t : String} (hs : ∀ x ∈ s, x.tag = t ∧ Shape1Ok x) :
    validNode schema T (el "position" (shapeNodes p false s)) = true := by
  have ht : t ∈ ["rectangle", "circle", "polygon"] := by
    cases s with
    | nil => exact absurd rfl hne
    | cons x _ =>
      have := (hs x List.mem_cons_self).1
      rw [← this]; cases x <;> simp [Shape1.tag]
  refine choice_run_assembly hT hg hmin hnd { name := t, type := t, min := 1, max := none } (hin t ht) rfl (by simp)
    "position" [] (by rfl) _ (by cases s with | nil => exact absurd rfl hne | cons _ _ => simp [shapeNodes]) ?_
  intro k hk
  obtain ⟨x, hx, rfl⟩ := List.mem_map.mp hk
  rw [name_shape1]
  have := hs x hx
  refine ⟨this.1, ?_⟩
  have hv := valid_shape1 p false this.2
  rw [this.1] at hv; exact hv

theorem lanelet_run {T : String} (hT : PlainType T)
    (hg : schema.content T = .choice ((elemsOf (schema.content T)).map Item.elem) 1 (some 1))
    (hmin : (elemsOf (schema.content T)).all (fun e => decide (1 ≤ e.min)) = true)
    (hnd : ((elemsOf (schema.content T)).map (·.name)).Nodup)
    (hin : ({ name := "lanelet", type := "laneletRef", min := 1, max := none } : ElemP) ∈ elemsOf (schema.content T))
    {ids : List Int} (hne : ids ≠ []) : validNode schema T (el "position" (ids.map (refNode "lanelet"))) = true :=
  choice_run_assembly hT hg hmin hnd { name := "lanelet", type := "laneletRef", min := 1, max := none } hin rfl (by simp)
    "position" [] (by rfl) _ (by cases ids with | nil => exact absurd rfl hne | cons _ _ => simp)
    (fam_refs lk_laneletRef "lanelet" ids)

/-- `<position>` of a state / initial state (type `position`) -/
theorem valid_pos (p : Nat) {q : Pos} (h : PosOk q) : validNode schema "position" (posNode p q) = true := by
  cases q with
  | point q =>
    have hm := choice_one_types (g := schema.content "position") (by decide) (by decide) (by decide)
      { name := "point", type := "point", min := 1, max := some 1 } (by decide) (by simp) (by intro m hm; cases hm; simp)
    rw [posNode, el_valid pt_position (ts := ["point"]) (by simpa [ptNode, pointNode, Xml.name] using hm)]
    simp only [validKids, valid_pt p "point" h, Bool.and_self]
  | shapes s =>
    obtain ⟨hne, t, hs⟩ := h
    exact shape_run pt_position (by decide) (by decide) (by decide) (by decide) p hne hs
  | lanelets ids => exact lanelet_run pt_position (by decide) (by decide) (by decide) (by decide) h

/-- `<position>` of a goal state (type `positionInterval`): shapes of one kind or lanelet references -/
theorem valid_pos_goal (p : Nat) {q : Pos} (h : PosOk q) (hq : ∀ pt, q ≠ .point pt) :
    validNode schema "positionInterval" (posNode p q) = true := by
  cases q with
  | point q => exact absurd rfl (hq q)
  | shapes s =>
    obtain ⟨hne, t, hs⟩ := h
    exact shape_run pt_positionInterval (by decide) (by decide) (by decide) (by decide) p hne hs
  | lanelets ids => exact lanelet_run pt_positionInterval (by decide) (by decide) (by decide) (by decide) h

/-- `<position>` of a planning problem's initial state (type `positionExact`): a point -/
theorem valid_pos_exact (p : Nat) {q : Pt} (h : PtOk q) : validNode schema "positionExact" (posNode p (.point q)) = true := by
  have hm : matchGroup (schema.content "positionExact") ["point"] = some ["point"] := by decide
  rw [posNode, el_valid pt_positionExact (ts := ["point"]) (by simpa [ptNode, pointNode, Xml.name] using hm)]
  simp only [validKids, valid_pt p "point" h, Bool.and_self]

/-! ### states (xs:all) -/

theorem name_attrNode (p : Nat) (a : Attr) : (attrNode p a).name = a.name := by
  cases a with
  | position q => cases q <;> rfl
  | time t => rfl
  | value n v => rfl

/-- General form: a state element of container type `T` (xs:all with elements `es`), whose position / time / other
    elements have the types `posT` / `timeT` / `valT`. -/
theorem valid_state_gen {T : String} {es : List ElemP} (posT timeT valT : String) (req : List String)
    (hl : schema.lookup T = some (.complex [] false (.all es))) (hp : isPlainAll es = true)
    (hpos : typeOfIn es "position" = posT) (htime : typeOfIn es "time" = timeT)
    (hval : es.all (fun e => e.name == "position" || e.name == "time" || e.type == valT) = true)
    (hrq : es.all (fun e => e.min != 1 || req.contains e.name) = true)
    (p : Nat) (tag : String) (st : List Attr) (hnd : (st.map Attr.name).Nodup)
    (hdecl : ∀ a ∈ st, a.name ∈ es.map (·.name)) (hreq : ∀ r ∈ req, r ∈ st.map Attr.name)
    (hattr : ∀ a ∈ st, match a with
      | .position q => validNode schema posT (posNode p q) = true
      | .time t => validNode schema timeT (el "time" (timeKids t)) = true
      | .value n v => xmlProp n ≠ "position" ∧ xmlProp n ≠ "time" ∧ validNode schema valT (el (xmlProp n) (valKids p v)) = true) :
    validNode schema T (stateNode p tag st) = true := by
  have hnames : (st.map (attrNode p)).map Xml.name = st.map Attr.name := by
    rw [List.map_map]; apply List.map_congr_left; intro a _; exact name_attrNode p a
  refine all_assembly hl hp tag [] (by rfl) (st.map (attrNode p)) (by rw [hnames]; exact hnd) ?_ ?_ ?_
  · intro k hk
    obtain ⟨a, ha, rfl⟩ := List.mem_map.mp hk
    rw [name_attrNode]; exact hdecl a ha
  · intro e he hmin
    rw [hnames]
    rw [List.all_eq_true] at hrq
    have := hrq e he
    simp only [hmin, bne_self_eq_false, Bool.false_or] at this
    exact hreq _ (by simpa using this)
  · intro k hk
    obtain ⟨a, ha, rfl⟩ := List.mem_map.mp hk
    rw [name_attrNode]
    have h := hattr a ha
    cases a with
    | position q => simp only [Attr.name, hpos]; exact h
    | time t => simp only [Attr.name, htime]; exact h
    | value n v =>
      simp only [Attr.name] at *
      obtain ⟨e, he, hen, hty⟩ := typeOfIn_mem (hdecl _ ha)
      rw [List.all_eq_true] at hval
      have hv := hval e he
      have h1 : (e.name == "position") = false := by rw [hen]; simpa using h.1
      have h2 : (e.name == "time") = false := by rw [hen]; simpa using h.2.1
      simp only [h1, h2, Bool.false_or, beq_iff_eq] at hv
      rw [hty, hv]; exact h.2.2

/-! #### xs:all membership is derived from the attribute set -/

theorem nodup_map_of_subset {α β} [DecidableEq β] {f : α → β} {L : List α} (hL : (L.map f).Nodup) :
    ∀ {l : List α}, l.Nodup → (∀ x ∈ l, x ∈ L) → (l.map f).Nodup
  | [], _, _ => by simp
  | x :: xs, hnd, hsub => by
    rw [List.nodup_cons] at hnd
    rw [List.map_cons, List.nodup_cons]
    refine ⟨?_, nodup_map_of_subset hL hnd.2 (fun y hy => hsub y (List.mem_cons_of_mem _ hy))⟩
    intro hm
    obtain ⟨y, hy, hxy⟩ := List.mem_map.mp hm
    have : y = x := nodup_map_inj hL (hsub y (List.mem_cons_of_mem _ hy)) (hsub x List.mem_cons_self) hxy
    subst this; exact hnd.1 hy

theorem attr_name_py (a : Attr) : a.name = xmlProp a.pyName := by
  cases a <;> rfl

/-- **the xs:all conditions of a state container follow from the attribute set**: if the used attributes are pairwise
    different, position / time_step / attributes from `allowed`, and the required attributes are set, then the element names
    are pairwise different, declared by the container type `T`, and the required elements are present — provided the table
    facts hold (`xmlProp` is injective on the allowed attributes and maps them to declared elements; decided per container). -/
theorem shape_of_attrs {T : String} {allowed reqPy : List String} {st : List Attr}
    (t1 : (("position" :: "time_step" :: allowed).map xmlProp).Nodup)
    (t2 : ∀ n ∈ "position" :: "time_step" :: allowed, xmlProp n ∈ (stateEs T).map (·.name))
    (h : AttrSet reqPy st) (hin : ∀ a ∈ st, a.pyName ∈ "position" :: "time_step" :: allowed) :
    StateShape T (reqPy.map xmlProp) st := by
  have hn : st.map Attr.name = (st.map Attr.pyName).map xmlProp := by
    rw [List.map_map]; apply List.map_congr_left; intro a _; exact attr_name_py a
  refine ⟨?_, ?_, ?_⟩
  · rw [hn]
    exact nodup_map_of_subset t1 h.1 (by intro x hx; obtain ⟨a, ha, rfl⟩ := List.mem_map.mp hx; exact hin a ha)
  · intro a ha; rw [attr_name_py]; exact t2 _ (hin a ha)
  · intro r hr
    obtain ⟨q, hq, rfl⟩ := List.mem_map.mp hr
    rw [hn]; exact List.mem_map.mpr ⟨q, h.2 q hq, rfl⟩

theorem pyName_in {allowed : List String} {st : List Attr} {P : Attr → Prop}
    (h : ∀ a ∈ st, P a) (hv : ∀ n v, P (.value n v) → n ∈ allowed) : ∀ a ∈ st, a.pyName ∈ "position" :: "time_step" :: allowed := by
  intro a ha
  cases a with
  | position q => simp [Attr.pyName]
  | time t => simp [Attr.pyName]
  | value n v => simp only [Attr.pyName]; exact List.mem_cons_of_mem _ (List.mem_cons_of_mem _ (hv n v (h _ ha)))

theorem stateAttrs_t1 : (("position" :: "time_step" :: stateAttrs).map xmlProp).Nodup := by decide
theorem stateAttrs_t2 (T : String) (hT : T = "state" ∨ T = "initialState") :
    ∀ n ∈ "position" :: "time_step" :: stateAttrs, xmlProp n ∈ (stateEs T).map (·.name) := by
  rcases hT with rfl | rfl <;> decide
theorem stateAttrs_ne : ∀ n ∈ stateAttrs, xmlProp n ≠ "position" ∧ xmlProp n ≠ "time" := by decide
theorem planningAttrs_facts : (("position" :: "time_step" :: planningAttrs).map xmlProp).Nodup ∧
    (∀ n ∈ "position" :: "time_step" :: planningAttrs, xmlProp n ∈ (stateEs "initialStateExact").map (·.name)) ∧
    (∀ n ∈ planningAttrs, xmlProp n ≠ "position" ∧ xmlProp n ≠ "time") := by decide
theorem goalAttrs_facts : (("position" :: "time_step" :: goalAttrs).map xmlProp).Nodup ∧
    (∀ n ∈ "position" :: "time_step" :: goalAttrs, xmlProp n ∈ (stateEs "goalState").map (·.name)) ∧
    (∀ n ∈ goalAttrs, xmlProp n ≠ "position" ∧ xmlProp n ≠ "time") := by decide

theorem state_shape {st : List Attr} (h : StateOk st) : StateShape "state" ["position", "orientation", "time"] st :=
  shape_of_attrs (allowed := stateAttrs) stateAttrs_t1 (stateAttrs_t2 _ (Or.inl rfl)) h.1
    (pyName_in (P := fun a => match a with
      | .position q => PosOk q | .time t => TimeOk t | .value n v => n ∈ stateAttrs ∧ ValOk v) h.2 (fun _ _ hp => hp.1))

theorem initialState_shape {st : List Attr} (h : InitialStateOk st) :
    StateShape "initialState" ["position", "orientation", "time"] st :=
  shape_of_attrs (allowed := stateAttrs) stateAttrs_t1 (stateAttrs_t2 _ (Or.inr rfl)) h.1
    (pyName_in (P := fun a => match a with
      | .position q => PosOk q | .time t => t = .exact 0 | .value n v => n ∈ stateAttrs ∧ ValOk v) h.2 (fun _ _ hp => hp.1))

theorem planningInitialState_shape {st : List Attr} (h : PlanningInitialStateOk st) :
    StateShape "initialStateExact" ["position", "velocity", "orientation", "yawRate", "slipAngle", "time"] st :=
  shape_of_attrs (allowed := planningAttrs) planningAttrs_facts.1 planningAttrs_facts.2.1 h.1
    (pyName_in (P := fun a => match a with
      | .position q => ∃ pt, q = .point pt ∧ PtOk pt | .time t => t = .exact 0
      | .value n v => n ∈ planningAttrs ∧ ∃ x, v = .exact x ∧ Fin x) h.2 (fun _ _ hp => hp.1))

theorem goalState_shape {st : List Attr} (h : GoalStateOk st) : StateShape "goalState" ["time"] st :=
  shape_of_attrs (allowed := goalAttrs) goalAttrs_facts.1 goalAttrs_facts.2.1 h.1
    (pyName_in (P := fun a => match a with
      | .position q => PosOk q ∧ ∀ pt, q ≠ .point pt | .time t => ∃ a b, t = .interval a b ∧ 0 ≤ a ∧ 1 ≤ b
      | .value n v => n ∈ goalAttrs ∧ ∃ a b, v = .interval a b ∧ Fin a ∧ Fin b) h.2 (fun _ _ hp => hp.1))

theorem valid_state (p : Nat) (tag : String) {st : List Attr} (h : StateOk st) :
    validNode schema "state" (stateNode p tag st) = true := by
  obtain ⟨hnd, hdecl, hreq⟩ := state_shape h
  have hattr := h.2
  refine valid_state_gen (es := stateEs "state") "position" "integerExactOrIntervalGreaterZero" "decimalExactOrInterval"
    ["position", "orientation", "time"] (by decide) (by decide) (by decide) (by decide) (by decide) (by decide) p tag st hnd hdecl hreq ?_
  intro a ha
  have := hattr a ha
  cases a with
  | position q => exact valid_pos p this
  | time t => exact valid_time "time" this
  | value n v => exact ⟨(stateAttrs_ne n this.1).1, (stateAttrs_ne n this.1).2, valid_val p _ this.2⟩

theorem valid_initialState (p : Nat) (tag : String) {st : List Attr} (h : InitialStateOk st) :
    validNode schema "initialState" (stateNode p tag st) = true := by
  obtain ⟨hnd, hdecl, hreq⟩ := initialState_shape h
  have hattr := h.2
  refine valid_state_gen (es := stateEs "initialState") "position" "integerExactZero" "decimalExactOrInterval"
    ["position", "orientation", "time"] (by decide) (by decide) (by decide) (by decide) (by decide) (by decide) p tag st hnd hdecl hreq ?_
  intro a ha
  have := hattr a ha
  cases a with
  | position q => exact valid_pos p this
  | time t => simp only at this; subst this; exact valid_time_zero "time"
  | value n v => exact ⟨(stateAttrs_ne n this.1).1, (stateAttrs_ne n this.1).2, valid_val p _ this.2⟩

theorem valid_planningInitialState (p : Nat) (tag : String) {st : List Attr} (h : PlanningInitialStateOk st) :
    validNode schema "initialStateExact" (stateNode p tag st) = true := by
  obtain ⟨hnd, hdecl, hreq⟩ := planningInitialState_shape h
  have hattr := h.2
  refine valid_state_gen (es := stateEs "initialStateExact") "positionExact" "integerExactZero" "decimalExact"
    ["position", "velocity", "orientation", "yawRate", "slipAngle", "time"] (by decide) (by decide) (by decide) (by decide)
    (by decide) (by decide) p tag st hnd hdecl hreq ?_
  intro a ha
  have := hattr a ha
  cases a with
  | position q => obtain ⟨pt, rfl, hpt⟩ := this; exact valid_pos_exact p hpt
  | time t => simp only at this; subst this; exact valid_time_zero "time"
  | value n v =>
    obtain ⟨h1, x, rfl, hx⟩ := this
    exact ⟨(planningAttrs_facts.2.2 n h1).1, (planningAttrs_facts.2.2 n h1).2, valid_val_exact p _ hx⟩

theorem valid_goalState (p : Nat) (tag : String) {st : List Attr} (h : GoalStateOk st) :
    validNode schema "goalState" (stateNode p tag st) = true := by
  obtain ⟨hnd, hdecl, hreq⟩ := goalState_shape h
  have hattr := h.2
  refine valid_state_gen (es := stateEs "goalState") "positionInterval" "integerIntervalGreaterZero" "decimalInterval"
    ["time"] (by decide) (by decide) (by decide) (by decide) (by decide) (by decide) p tag st hnd hdecl hreq ?_
  intro a ha
  have := hattr a ha
  cases a with
  | position q => exact valid_pos_goal p this.1 this.2
  | time t => obtain ⟨a, b, rfl, h1, h2⟩ := this; exact valid_time_goal "time" h1 h2
  | value n v =>
    obtain ⟨h1, a, b, rfl, ha', hb'⟩ := this
    exact ⟨(goalAttrs_facts.2.2 n h1).1, (goalAttrs_facts.2.2 n h1).2, valid_val_interval p _ ha' hb'⟩

theorem name_stateNode (p : Nat) (tag : String) (st : List Attr) : (stateNode p tag st).name = tag := rfl

/-! ### signal states (xs:all: time + any subset of the six flags) -/

def flagNames : List String :=
  ["horn", "indicatorLeft", "indicatorRight", "brakingLights", "hazardWarningLights", "flashingBlueLights"]

theorem mem_optB {n : String} {o : Option Bool} {k : Xml} (h : k ∈ optB n o) : ∃ b, k = leaf n (boolStr b) := by
  cases o with
  | none => simp [optB] at h
  | some b => simp [optB] at h; exact ⟨b, h⟩

theorem optB_names_sublist (n : String) (o : Option Bool) : ((optB n o).map Xml.name).Sublist [n] := by
  cases o with
  | none => simp [optB]
  | some b => simp [optB, leaf, Xml.name]

def signalFlagKids (s : Signal) : List Xml :=
  optB "horn" s.horn ++ optB "indicatorLeft" s.il ++ optB "indicatorRight" s.ir ++ optB "brakingLights" s.bl ++
    optB "hazardWarningLights" s.hz ++ optB "flashingBlueLights" s.fb

theorem signalFlag_sublist (s : Signal) : ((signalFlagKids s).map Xml.name).Sublist flagNames := by
  simp only [signalFlagKids, List.map_append]
  have h := ((((optB_names_sublist "horn" s.horn).append (optB_names_sublist "indicatorLeft" s.il)).append
    (optB_names_sublist "indicatorRight" s.ir)).append (optB_names_sublist "brakingLights" s.bl)).append
    ((optB_names_sublist "hazardWarningLights" s.hz).append (optB_names_sublist "flashingBlueLights" s.fb))
  simpa [flagNames, List.append_assoc] using h

theorem signalFlag_mem {s : Signal} {k : Xml} (h : k ∈ signalFlagKids s) : ∃ n ∈ flagNames, ∃ b, k = leaf n (boolStr b) := by
  simp only [signalFlagKids, List.mem_append] at h
  rcases h with ((((h | h) | h) | h) | h) | h
  · obtain ⟨b, hb⟩ := mem_optB h; exact ⟨_, by simp [flagNames], b, hb⟩
  · obtain ⟨b, hb⟩ := mem_optB h; exact ⟨_, by simp [flagNames], b, hb⟩
  · obtain ⟨b, hb⟩ := mem_optB h; exact ⟨_, by simp [flagNames], b, hb⟩
  · obtain ⟨b, hb⟩ := mem_optB h; exact ⟨_, by simp [flagNames], b, hb⟩
  · obtain ⟨b, hb⟩ := mem_optB h; exact ⟨_, by simp [flagNames], b, hb⟩
  · obtain ⟨b, hb⟩ := mem_optB h; exact ⟨_, by simp [flagNames], b, hb⟩

/-- General form for `signalState` (time ≥ 1) and `initialSignalState` (time 0): `timeT` is the type of `<time>`. -/
theorem valid_signal_gen {T : String} {es : List ElemP} (timeT : String)
    (hl : schema.lookup T = some (.complex [] false (.all es))) (hp : isPlainAll es = true)
    (htime : typeOfIn es "time" = timeT) (hnames : es.map (·.name) = "time" :: flagNames)
    (hflag : ∀ n ∈ flagNames, typeOfIn es n = "xs:boolean")
    (hrq : es.all (fun e => e.min != 1 || e.name == "time") = true)
    (tag : String) (s : Signal) (ht : validNode schema timeT (el "time" [leaf "exact" (intStr s.t)]) = true) :
    validNode schema T (signalNode tag s) = true := by
  have hkids : signalNode tag s = el tag (el "time" [leaf "exact" (intStr s.t)] :: signalFlagKids s) := by
    simp [signalNode, signalFlagKids, List.append_assoc]
  rw [hkids]
  have hsub := signalFlag_sublist s
  refine all_assembly hl hp tag [] (by rfl) _ ?_ ?_ ?_ ?_
  · simp only [List.map_cons, el, Xml.name]
    have hnd : ("time" :: flagNames).Nodup := by decide
    exact (List.Sublist.cons_cons "time" hsub).nodup hnd
  · intro k hk
    rw [hnames]
    rcases List.mem_cons.mp hk with rfl | hk
    · simp [el, Xml.name]
    · obtain ⟨n, hn, b, rfl⟩ := signalFlag_mem hk
      exact List.mem_cons_of_mem _ hn
  · intro e he hmin
    rw [List.all_eq_true] at hrq
    have := hrq e he
    simp only [hmin, bne_self_eq_false, Bool.false_or, beq_iff_eq] at this
    rw [this]; simp [el, Xml.name]
  · intro k hk
    rcases List.mem_cons.mp hk with rfl | hk
    · simp only [el, Xml.name, htime]; exact ht
    · obtain ⟨n, hn, b, rfl⟩ := signalFlag_mem hk
      simp only [leaf, Xml.name, hflag n hn]
      exact leaf_bool n b

/-- a state of the signal series: time step ≥ 1 -/
theorem valid_signalState (tag : String) (s : Signal) (h : 1 ≤ s.t) : validNode schema "signalState" (signalNode tag s) = true :=
  valid_signal_gen (es := stateEs "signalState") "integerExactOrIntervalGreaterZero" (by decide) (by decide) (by decide)
    (by decide) (by decide) (by decide) tag s (valid_time (t := .exact s.t) "time" h)

/-- the initial signal state: time step 0 -/
theorem valid_initialSignalState (tag : String) (s : Signal) (h : s.t = 0) :
    validNode schema "initialSignalState" (signalNode tag s) = true := by
  refine valid_signal_gen (es := stateEs "initialSignalState") "integerExactZero" (by decide) (by decide) (by decide)
    (by decide) (by decide) (by decide) tag s ?_
  rw [h]; exact valid_time_zero "time"

end CR.C03
