/-
  CRProofs.AssignGeo — composing C07's bookkeeping model (CRModel/Assign.lean) with C06's index model (CRModel/Index.lean):
  the lookups `Env.cen` / `Env.shp` are instantiated by `find_lanelet_by_position` / `find_lanelet_by_shape` on a modelled
  `LaneletNetwork`, and characterised by the two primitive predicates `within` (point–polygon) and `meets` (polygon–shape).
-/
import CRProps.C06
import CRProps.C07
import CRModel.AssignGeo

namespace CR.Assign
open CR.Geom

/-- lanelet `l` of the network contains the centre of obstacle `o` at time step `t` -/
def Within (G : Geo) (n : Index.Net) (o : Id) (t : T) (l : Id) : Prop :=
  ∃ L ∈ n.lanelets, L.id = l ∧ G.within L.poly.ring (G.pos o t) = true

/-- the polygon of lanelet `l` meets the occupancy of obstacle `o` at time step `t` (some member, for a ShapeGroup) -/
def Meets (G : Geo) (n : Index.Net) (o : Id) (t : T) (l : Id) : Prop :=
  ∃ L ∈ n.lanelets, L.id = l ∧ Index.hits G.meets L.poly.ring (G.occ o t) = true

theorem scan_nodup {n : Index.Net} (hs : Index.Sync n) (P : Index.Lanelet → Bool) :
    ((n.lanelets.filter P).map (·.id)).Nodup :=
  List.Nodup.sublist (List.Sublist.map _ List.filter_sublist) hs.1.2.1

theorem cenOf_eq {G : Geo} {n : Index.Net} (hs : Index.Sync n) (o : Id) (t : T) :
    cenOf G n o t = (n.lanelets.filter (fun l => G.within l.poly.ring (G.pos o t))).map (·.id) := by
  unfold cenOf
  rw [CR.Index.find_eq_scan G.within n hs [G.pos o t]]
  rfl

theorem mem_cenOf {G : Geo} {n : Index.Net} (hs : Index.Sync n) (o : Id) (t : T) (l : Id) :
    l ∈ cenOf G n o t ↔ Within G n o t l := by
  rw [cenOf_eq hs]
  simp only [Within, List.mem_map, List.mem_filter]
  constructor
  · rintro ⟨L, ⟨h1, h2⟩, h3⟩; exact ⟨L, h1, h3, h2⟩
  · rintro ⟨L, h1, h3, h2⟩; exact ⟨L, ⟨h1, h2⟩, h3⟩

theorem nodup_cenOf {G : Geo} {n : Index.Net} (hs : Index.Sync n) (o : Id) (t : T) : (cenOf G n o t).Nodup := by
  rw [cenOf_eq hs]; exact scan_nodup hs _

theorem shpOf_spec {G : Geo} {n : Index.Net} (hs : Index.Sync n) (o : Id) (t : T) :
    (shpOf G n o t).Nodup ∧ ∀ l, l ∈ shpOf G n o t ↔ Meets G n o t l := by
  unfold shpOf Meets
  cases hocc : G.occ o t with
  | prim s =>
    rw [CR.Index.findShape_eq_scan G.meets n hs s]
    refine ⟨scan_nodup hs _, fun l => ?_⟩
    simp only [Index.hits, List.mem_map, List.mem_filter]
    constructor
    · rintro ⟨L, ⟨h1, h2⟩, h3⟩; exact ⟨L, h1, h3, h2⟩
    · rintro ⟨L, h1, h3, h2⟩; exact ⟨L, ⟨h1, h2⟩, h3⟩
  | group ss =>
    obtain ⟨r, hr, hnd, hmem⟩ := CR.Props.C06.C06_findShape_group G.meets n hs ss
    rw [hr]
    exact ⟨hnd, fun l => by rw [hmem]; rfl⟩

theorem mem_shpOf {G : Geo} {n : Index.Net} (hs : Index.Sync n) (o : Id) (t : T) (l : Id) :
    l ∈ shpOf G n o t ↔ Meets G n o t l := (shpOf_spec hs o t).2 l

/-- on a synchronised index the instantiated lookups answer with lanelets of the network, each once -/
theorem wf_envOf (G : Geo) {n : Index.Net} (hs : Index.Sync n) : WfEnv (envOf G n) := by
  refine ⟨?_, ?_, ?_, ?_⟩
  · intro o t l hl
    obtain ⟨L, h1, h2, _⟩ := (mem_shpOf hs o t l).mp hl
    exact List.mem_map.mpr ⟨L, h1, h2⟩
  · intro o t; exact (shpOf_spec hs o t).1
  · intro o t l hl
    obtain ⟨L, h1, h2, _⟩ := (mem_cenOf hs o t l).mp hl
    exact List.mem_map.mpr ⟨L, h1, h2⟩
  · intro o t; exact nodup_cenOf hs o t

/-! ### the lookups depend on the network only through its (id, vertex ring) list -/

theorem scan_pairs (P : List Pt → Bool) (ls : List Index.Lanelet) :
    (ls.filter (fun l => P l.poly.ring)).map (·.id) =
      ((ls.map (fun l => (l.id, l.poly.ring))).filter (fun e => P e.2)).map (·.1) := by
  induction ls with
  | nil => rfl
  | cons a as ih =>
    simp only [List.filter_cons, List.map_cons]
    by_cases h : P a.poly.ring = true
    · simp only [h, if_true, List.map_cons, ih]
    · have h' : P a.poly.ring = false := by simpa using h
      simp only [h', Bool.false_eq_true, if_false, ih]

theorem scan_congr (P : List Pt → Bool) {ls ls' : List Index.Lanelet}
    (h : ls.map (fun l => (l.id, l.poly.ring)) = ls'.map (fun l => (l.id, l.poly.ring))) :
    (ls.filter (fun l => P l.poly.ring)).map (·.id) = (ls'.filter (fun l => P l.poly.ring)).map (·.id) := by
  rw [scan_pairs, scan_pairs, h]

/-- the ShapeGroup loop on a synchronised index, as a fold of the per-member scans -/
theorem findGroup_sync {G : Geo} {n : Index.Net} (hs : Index.Sync n) : ∀ (ss : List Prim) (res : List Int),
    Index.findGroup G.meets n res ss =
      .ok (ss.foldl (fun acc s => Index.appendNew acc ((n.lanelets.filter (fun l => G.meets l.poly.ring s)).map (·.id))) res) := by
  intro ss
  induction ss with
  | nil => intro res; rfl
  | cons s ss ih =>
    intro res
    have hp := CR.Index.findShape_eq_scan G.meets n hs s
    simp only [Index.findByShape] at hp
    simp only [Index.findGroup, hp, List.foldl_cons]
    exact ih _

theorem foldl_congr {α β : Type} (f g : β → α → β) (h : ∀ b a, f b a = g b a) : ∀ (l : List α) (b : β),
    l.foldl f b = l.foldl g b := by
  intro l
  induction l with
  | nil => intro b; rfl
  | cons a as ih => intro b; simp only [List.foldl_cons, h, ih]

theorem envOf_congr (G : Geo) {n n' : Index.Net} (hs : Index.Sync n) (hs' : Index.Sync n')
    (h : n.lanelets.map (fun l => (l.id, l.poly.ring)) = n'.lanelets.map (fun l => (l.id, l.poly.ring))) :
    envOf G n = envOf G n' := by
  have hid : n.lanelets.map (·.id) = n'.lanelets.map (·.id) := by
    have := congrArg (List.map (·.1)) h
    simpa [List.map_map, Function.comp_def] using this
  have hc : cenOf G n = cenOf G n' := by
    funext o t
    rw [cenOf_eq hs, cenOf_eq hs']
    exact scan_congr (fun ring => G.within ring (G.pos o t)) h
  have hsx : shpOf G n = shpOf G n' := by
    funext o t
    unfold shpOf
    cases hocc : G.occ o t with
    | prim s =>
      rw [CR.Index.findShape_eq_scan G.meets n hs s, CR.Index.findShape_eq_scan G.meets n' hs' s]
      exact scan_congr (fun ring => G.meets ring s) h
    | group ss =>
      simp only [Index.findByShape, findGroup_sync hs, findGroup_sync hs']
      exact foldl_congr _ _ (fun acc s => by rw [scan_congr (fun ring => G.meets ring s) h]) ss []
  simp only [envOf, hid, hc, hsx]

/-! ### from lookup answers to geometry -/

/-- the sets recorded on obstacle `o` for time step `t` are, as sets without repetition, the lanelets containing its centre
    and the lanelets its occupancy meets -/
def GeoAssigned (G : Geo) (n : Index.Net) (f : Fwd) (o : Id) (t : T) : Prop :=
  (t = G.t0 o → ∃ cs ss, f.initCenter = some cs ∧ f.initShape = some ss ∧ cs.Nodup ∧ ss.Nodup ∧
      (∀ l, l ∈ cs ↔ Within G n o t l) ∧ (∀ l, l ∈ ss ↔ Meets G n o t l)) ∧
  (G.kind o = Kind.dynTraj → ∃ dc ds cs ss, f.predCenter = some dc ∧ f.predShape = some ds ∧
      dictGet dc t = some cs ∧ dictGet ds t = some ss ∧ cs.Nodup ∧ ss.Nodup ∧
      (∀ l, l ∈ cs ↔ Within G n o t l) ∧ (∀ l, l ∈ ss ↔ Meets G n o t l))

theorem geoAssigned_of_assigned {G : Geo} {n : Index.Net} (hs : Index.Sync n) {f : Fwd} {o : Id} {t : T}
    (h : Assigned (envOf G n) f o t) : GeoAssigned G n f o t := by
  obtain ⟨h1, h2⟩ := h
  refine ⟨fun et => ?_, fun hk => ?_⟩
  · obtain ⟨a, b⟩ := h1 et
    exact ⟨_, _, a, b, nodup_cenOf hs o t, (shpOf_spec hs o t).1, mem_cenOf hs o t, mem_shpOf hs o t⟩
  · obtain ⟨dc, ds, a, b, c, d⟩ := h2 hk
    exact ⟨dc, ds, _, _, a, b, c, d, nodup_cenOf hs o t, (shpOf_spec hs o t).1, mem_cenOf hs o t, mem_shpOf hs o t⟩

/-- registries = lookup relation, for every state that satisfies the invariant and is assigned over all horizons
    (set-based predictions, which the code neither assigns nor registers, excepted) -/
theorem registry_exact_of_assigned {E : Env} {s : St} (hi : Inv E s)
    (ha : ∀ o, o ∈ s.statics ++ s.dynamics → E.kind o ≠ Kind.dynSet → ∀ t, InHorizon E o t → Assigned E (s.fwd o) o t) :
    (∀ l t o, memD s.dreg l t o ↔ (o ∈ s.dynamics ∧ E.kind o ≠ Kind.dynSet ∧ InHorizon E o t ∧ l ∈ E.shp o t)) ∧
    (∀ l o, o ∈ s.sreg l ↔ (o ∈ s.statics ∧ l ∈ E.shp o (E.t0 o))) := by
  constructor
  · intro l t o
    rw [hi.invD]
    simp only [true_and]
    constructor
    · rintro ⟨h1, h2⟩
      have hset := RecShapeD.not_set (hi.coh o) h2
      exact ⟨h1, hset,
        (rec_iff_lookup (hi.coh o) (fun t' ht' => ha o (List.mem_append.mpr (Or.inr h1)) hset t' ht') t l).mp h2⟩
    · rintro ⟨h1, hset, h2⟩
      exact ⟨h1, (rec_iff_lookup (hi.coh o) (fun t' ht' => ha o (List.mem_append.mpr (Or.inr h1)) hset t' ht') t l).mpr h2⟩
  · intro l o
    rw [hi.invS]
    simp only [true_and]
    constructor
    · rintro ⟨h1, h2⟩
      exact ⟨h1, RecShapeS.mem_lanelets (hi.coh o) h2⟩
    · rintro ⟨h1, h2⟩
      have hset : E.kind o ≠ Kind.dynSet := by rw [hi.kindS o h1]; intro h; cases h
      obtain ⟨a1, _⟩ := ha o (List.mem_append.mpr (Or.inl h1)) hset (E.t0 o) (Or.inl rfl)
      exact ⟨h1, _, (a1 rfl).2, h2⟩

end CR.Assign
