import CRProofs.XsdEnum
namespace CR.C03
set_option maxRecDepth 100000 in
set_option maxHeartbeats 1000000 in
theorem signs_ger_3 : (((gerSigns.drop 60).take 30).all okNV) = true := by decide
end CR.C03
