/-
  CRProofs.EqHash — lemmas about the generic comparison `CR.EqHash.rel`.
-/
import CRModel.EqHash
import Mathlib.Tactic.Linarith

namespace CR.EqHash

/-! ## chains as lists -/

/-- the elements of a chain (a value that is not a cons cell has none) -/
def elems : Val → List Val
  | .cons h t => h :: elems t
  | _ => []

/-- the proper chain with the given elements -/
def ofList : List Val → Val
  | [] => .nil
  | x :: xs => .cons x (ofList xs)

@[simp] theorem elems_ofList (l : List Val) : elems (ofList l) = l := by
  induction l with
  | nil => rfl
  | cons x xs ih => simp [ofList, elems, ih]

@[simp] theorem elems_cons (h t : Val) : elems (.cons h t) = h :: elems t := rfl

theorem anyV_eq (p : Val → Bool) (w : Val) : anyV p w = (elems w).any p := by
  induction w with
  | cons h t _ iht => simp [anyV, elems, iht]
  | _ => simp [anyV, elems]

theorem allV_eq (p : Val → Bool) (w : Val) : allV p w = (elems w).all p := by
  induction w with
  | cons h t _ iht => simp [allV, elems, iht]
  | _ => simp [allV, elems]

/-- "same members" for lists under a Boolean relation -/
def setRel (p : Val → Val → Bool) (l w : List Val) : Bool :=
  l.all (fun x => w.any (fun y => p x y)) && w.all (fun y => l.any (fun x => p x y))

theorem rel_sub (T : Table) (k : Kind) (l w : Val) :
    rel T l (.sub k) w = (elems l).all (fun x => (elems w).any (fun y => rel T x k y)) := by
  induction l with
  | cons h t _ iht => simp [rel, anyV_eq, iht]
  | _ => simp [rel, elems]

theorem rel_subNA (T : Table) (l w : Val) :
    rel T l .subNA w = (elems l).all (fun x => x == absent || (elems w).any (fun y => rel T x .eq y)) := by
  induction l with
  | cons h t _ iht => simp [rel, anyV_eq, iht]
  | _ => simp [rel, elems]

theorem rel_cover (T : Table) (k : Kind) (l y : Val) :
    rel T l (.cover k) y = (elems l).any (fun x => rel T x k y) := by
  induction l with
  | cons h t _ iht => simp [rel, iht]
  | _ => simp [rel, elems]

theorem rel_setOf_cons (T : Table) (k : Kind) (h t w : Val) :
    rel T (.cons h t) (.setOf k) w = setRel (fun x y => rel T x k y) (h :: elems t) (elems w) := by
  simp [rel, setRel, anyV_eq, allV_eq, rel_sub, rel_cover]

theorem rel_setNE_cons (T : Table) (h t w : Val) :
    rel T (.cons h t) .setNE w = setRel (fun x y => rel T x .eq y) (h :: elems t) (elems w) := by
  simp [rel, setRel, anyV_eq, allV_eq, rel_sub, rel_cover]

theorem rel_setNA_cons (T : Table) (h t w : Val) :
    rel T (.cons h t) .setNA w =
      ((h :: elems t).all (fun x => x == absent || (elems w).any (fun y => rel T x .eq y))
        && (elems w).all (fun y => y == absent || (h :: elems t).any (fun x => rel T x .eq y))) := by
  simp [rel, anyV_eq, allV_eq, rel_subNA, rel_cover]

/-! ## regular kinds and tables -/

/-- kinds that may occur in a class table (and `fields`): everything but the auxiliary chain modes -/
def Kind.reg : Kind → Bool
  | .skip | .eq | .r10 | .setNE | .setNA => true
  | .listOf k => k.reg
  | .setOf k => k.reg
  | .consK k kt => k.reg && kt.reg
  | .fields _ _ => true
  | .sub _ | .cover _ | .subNA => false

structure Table.Reg (T : Table) : Prop where
  attr : ∀ c i, (T.attr c i).reg = true
  whole : ∀ c, (T.whole c).reg = true

theorem setRel_refl (p : Val → Val → Bool) (l : List Val) (h : ∀ x ∈ l, p x x = true) : setRel p l l = true := by
  simp only [setRel, Bool.and_eq_true, List.all_eq_true, List.any_eq_true]
  exact ⟨fun x hx => ⟨x, hx, h x hx⟩, fun x hx => ⟨x, hx, h x hx⟩⟩

/-! ## reflexivity -/

theorem rel_refl_aux (T : Table) (hT : T.Reg) (v : Val) :
    (∀ k, k.reg = true → rel T v k v = true) ∧ (∀ x ∈ elems v, ∀ k, k.reg = true → rel T x k x = true) := by
  induction v with
  | none => exact ⟨fun k hk => by cases k <;> simp_all [rel, Kind.reg], by simp [elems]⟩
  | num a => exact ⟨fun k hk => by cases k <;> simp_all [rel, Kind.reg], by simp [elems]⟩
  | str s => exact ⟨fun k hk => by cases k <;> simp_all [rel, Kind.reg], by simp [elems]⟩
  | nil => exact ⟨fun k hk => by cases k <;> simp_all [rel, Kind.reg, allV], by simp [elems]⟩
  | obj c f ihf =>
    refine ⟨fun k hk => ?_, by simp [elems]⟩
    have hf := ihf.1 (T.whole c) (hT.whole c)
    cases k <;> simp_all [rel, Kind.reg]
  | cons h t ihh iht =>
    have hel : ∀ x ∈ h :: elems t, ∀ k, k.reg = true → rel T x k x = true := by
      intro x hx
      rcases List.mem_cons.mp hx with rfl | hx
      · exact ihh.1
      · exact iht.2 x hx
    refine ⟨fun k hk => ?_, hel⟩
    cases k with
    | skip => simp [rel]
    | eq => simp [rel, ihh.1 .eq rfl, iht.1 .eq rfl]
    | r10 => simp [rel, ihh.1 .r10 rfl, iht.1 .r10 rfl]
    | listOf k => simp [rel, ihh.1 k hk, iht.1 (.listOf k) hk]
    | consK k kt =>
      simp only [Kind.reg, Bool.and_eq_true] at hk
      simp [rel, ihh.1 k hk.1, iht.1 kt hk.2]
    | fields c i => simp [rel, ihh.1 _ (hT.attr c i), iht.1 (.fields c (i + 1)) rfl]
    | setOf k =>
      rw [rel_setOf_cons]
      exact setRel_refl _ _ (fun x hx => hel x hx k hk)
    | setNE =>
      rw [rel_setNE_cons]
      exact setRel_refl _ _ (fun x hx => hel x hx .eq rfl)
    | setNA =>
      rw [rel_setNA_cons]
      simp only [Bool.and_eq_true, List.all_eq_true, Bool.or_eq_true, List.any_eq_true]
      refine ⟨fun x hx => ?_, fun x hx => ?_⟩
      · by_cases hxa : x = absent
        · left; simp [hxa]
        · right; exact ⟨x, hx, hel x hx .eq rfl⟩
      · by_cases hxa : x = absent
        · left; simp [hxa]
        · right; exact ⟨x, hx, hel x hx .eq rfl⟩
    | sub k => simp [Kind.reg] at hk
    | cover k => simp [Kind.reg] at hk
    | subNA => simp [Kind.reg] at hk

theorem rel_refl (T : Table) (hT : T.Reg) (v : Val) (k : Kind) (hk : k.reg = true) : rel T v k v = true :=
  (rel_refl_aux T hT v).1 k hk

/-! ## symmetry (tables of `__eq__`) -/

/-- kinds of the `__eq__` tables -/
def Kind.regE : Kind → Bool
  | .skip | .eq | .r10 | .setNE => true
  | .listOf k => k.regE
  | .setOf k => k.regE
  | .consK k kt => k.regE && kt.regE
  | .fields _ _ => true
  | .setNA | .sub _ | .cover _ | .subNA => false

structure Table.RegE (T : Table) : Prop where
  attr : ∀ c i, (T.attr c i).regE = true
  whole : ∀ c, T.whole c = .fields c 0

theorem setRel_symm (p : Val → Val → Bool) (l w : List Val)
    (hs : ∀ x ∈ l, ∀ y, p x y = true → p y x = true) (h : setRel p l w = true) : setRel p w l = true := by
  simp only [setRel, Bool.and_eq_true, List.all_eq_true, List.any_eq_true] at h ⊢
  refine ⟨fun y hy => ?_, fun x hx => ?_⟩
  · obtain ⟨x, hx, hxy⟩ := h.2 y hy
    exact ⟨x, hx, hs x hx y hxy⟩
  · obtain ⟨y, hy, hxy⟩ := h.1 x hx
    exact ⟨y, hy, hs x hx y hxy⟩

theorem rel_obj_obj (T : Table) (c c' : Cls) (f f' : Val) (k : Kind) (hk : k.reg = true) (hs : k ≠ .skip) :
    rel T (.obj c f) k (.obj c' f') = (c == c' && rel T f (T.whole c) f') := by
  cases k <;> simp_all [rel, Kind.reg]

theorem rel_obj_other (T : Table) (c : Cls) (f w : Val) (k : Kind) (hk : k.reg = true) (hs : k ≠ .skip)
    (hw : ∀ c' f', w ≠ .obj c' f') : rel T (.obj c f) k w = false := by
  cases w <;> cases k <;> simp_all [rel, Kind.reg]

theorem Kind.regE_reg {k : Kind} (h : k.regE = true) : k.reg = true := by
  induction k <;> simp_all [Kind.regE, Kind.reg]

theorem rel_symm_aux (T : Table) (hT : T.RegE) (v : Val) :
    (∀ k w, k.regE = true → rel T v k w = true → rel T w k v = true)
      ∧ (∀ x ∈ elems v, ∀ k w, k.regE = true → rel T x k w = true → rel T w k x = true) := by
  induction v with
  | none =>
    refine ⟨fun k w hk h => ?_, by simp [elems]⟩
    cases k <;> simp_all [rel, Kind.regE]
    all_goals (rcases h with rfl | rfl <;> simp [rel])
  | num a =>
    refine ⟨fun k w hk h => ?_, by simp [elems]⟩
    cases k <;> try (simp_all [rel, Kind.regE]; done)
    cases w <;> simp_all [rel]
  | str s =>
    refine ⟨fun k w hk h => ?_, by simp [elems]⟩
    cases k <;> simp_all [rel, Kind.regE]
  | nil =>
    refine ⟨fun k w hk h => ?_, by simp [elems]⟩
    cases k <;> simp_all [rel, Kind.regE]
    all_goals (rcases h with rfl | rfl <;> simp [rel])
  | obj c f ihf =>
    refine ⟨fun k w hk h => ?_, by simp [elems]⟩
    have ihf1 := ihf.1
    clear ihf
    by_cases hs : k = .skip
    · subst hs; simp [rel]
    · cases w with
      | obj c' f' =>
        rw [rel_obj_obj T _ _ _ _ k (Kind.regE_reg hk) hs] at h ⊢
        simp only [Bool.and_eq_true, beq_iff_eq] at h ⊢
        obtain ⟨rfl, h2⟩ := h
        rw [hT.whole] at h2 ⊢
        exact ⟨rfl, ihf1 _ _ rfl h2⟩
      | _ => rw [rel_obj_other T c f _ k (Kind.regE_reg hk) hs (by simp)] at h; cases h
  | cons h t ihh iht =>
    have hel : ∀ x ∈ h :: elems t, ∀ k w, k.regE = true → rel T x k w = true → rel T w k x = true := by
      intro x hx
      rcases List.mem_cons.mp hx with rfl | hx
      · exact ihh.1
      · exact iht.2 x hx
    have ihh1 := ihh.1
    have iht1 := iht.1
    clear ihh iht
    refine ⟨fun k w hk hr => ?_, hel⟩
    cases k with
    | skip => simp [rel]
    | eq =>
      cases w with
      | cons h' t' =>
        simp only [rel, Bool.and_eq_true] at hr ⊢
        exact ⟨ihh1 _ _ rfl hr.1, iht1 _ _ rfl hr.2⟩
      | _ => simp [rel] at hr
    | r10 =>
      cases w with
      | cons h' t' =>
        simp only [rel, Bool.and_eq_true] at hr ⊢
        exact ⟨ihh1 _ _ rfl hr.1, iht1 _ _ rfl hr.2⟩
      | _ => simp [rel] at hr
    | listOf k =>
      cases w with
      | cons h' t' =>
        simp only [rel, Bool.and_eq_true] at hr ⊢
        exact ⟨ihh1 _ _ hk hr.1, iht1 (.listOf k) _ hk hr.2⟩
      | _ => simp [rel] at hr
    | consK k kt =>
      simp only [Kind.regE, Bool.and_eq_true] at hk
      cases w with
      | cons h' t' =>
        simp only [rel, Bool.and_eq_true] at hr ⊢
        exact ⟨ihh1 _ _ hk.1 hr.1, iht1 _ _ hk.2 hr.2⟩
      | _ => simp [rel] at hr
    | fields c i =>
      cases w with
      | cons h' t' =>
        simp only [rel, Bool.and_eq_true] at hr ⊢
        exact ⟨ihh1 _ _ (hT.attr c i) hr.1, iht1 (.fields c (i + 1)) _ rfl hr.2⟩
      | _ => simp [rel] at hr
    | setOf k =>
      rw [rel_setOf_cons] at hr
      cases w with
      | cons h' t' =>
        rw [rel_setOf_cons]
        exact setRel_symm _ _ _ (fun x hx y hxy => hel x hx k y hk hxy) hr
      | _ => simp [setRel, elems] at hr
    | setNE =>
      rw [rel_setNE_cons] at hr
      cases w with
      | cons h' t' =>
        rw [rel_setNE_cons]
        exact setRel_symm _ _ _ (fun x hx y hxy => hel x hx .eq y rfl hxy) hr
      | _ => simp [setRel, elems] at hr
    | setNA => simp [Kind.regE] at hk
    | sub k => simp [Kind.regE] at hk
    | cover k => simp [Kind.regE] at hk
    | subNA => simp [Kind.regE] at hk

theorem rel_symm (T : Table) (hT : T.RegE) (v w : Val) (k : Kind) (hk : k.regE = true) :
    rel T v k w = rel T w k v := by
  cases h1 : rel T v k w <;> cases h2 : rel T w k v <;> try rfl
  · rw [(rel_symm_aux T hT w).1 k v hk h2] at h1; cases h1
  · rw [(rel_symm_aux T hT v).1 k w hk h1] at h2; cases h2

/-! ## from `__eq__` to `__hash__`: a hash table that is point-wise coarser than the eq table -/

/-- `k'` (used by `__hash__`) identifies at least what `k` (used by `__eq__`) identifies:
    not hashed at all | the same kind | frozenset(list) vs list == list | None-as-empty-set vs set == set -/
def coarser (k' k : Kind) : Bool :=
  k' == .skip || k' == k || (k' == .setOf .eq && k == .eq) || (k' == .setNE && k == .setOf .eq)

structure Coarser (E H : Table) : Prop where
  regE : E.RegE
  attr : ∀ c i, coarser (H.attr c i) (E.attr c i) = true
  /-- the hash of an object is attribute-wise, or the set of its assigned values where `__eq__` compares every attribute with `==` -/
  whole : ∀ c, H.whole c = .fields c 0 ∨ (H.whole c = .setNA ∧ ∀ i, E.attr c i = .eq)

theorem setRel_mono (p q : Val → Val → Bool) (l w : List Val)
    (hpq : ∀ x ∈ l, ∀ y, p x y = true → q x y = true) (h : setRel p l w = true) : setRel q l w = true := by
  simp only [setRel, Bool.and_eq_true, List.all_eq_true, List.any_eq_true] at h ⊢
  refine ⟨fun x hx => ?_, fun y hy => ?_⟩
  · obtain ⟨y, hy, hxy⟩ := h.1 x hx
    exact ⟨y, hy, hpq x hx y hxy⟩
  · obtain ⟨x, hx, hxy⟩ := h.2 y hy
    exact ⟨x, hx, hpq x hx y hxy⟩

theorem setRel_of_forall2 (p : Val → Val → Bool) (l w : List Val)
    (h : List.Forall₂ (fun x y => p x y = true) l w) : setRel p l w = true := by
  simp only [setRel, Bool.and_eq_true, List.all_eq_true, List.any_eq_true]
  induction h with
  | nil => simp
  | cons hxy _ ih =>
    refine ⟨fun x hx => ?_, fun y hy => ?_⟩
    · rcases List.mem_cons.mp hx with rfl | hx
      · exact ⟨_, List.mem_cons_self, hxy⟩
      · obtain ⟨y, hy, h'⟩ := ih.1 x hx
        exact ⟨y, List.mem_cons_of_mem _ hy, h'⟩
    · rcases List.mem_cons.mp hy with rfl | hy
      · exact ⟨_, List.mem_cons_self, hxy⟩
      · obtain ⟨x, hx, h'⟩ := ih.2 y hy
        exact ⟨x, List.mem_cons_of_mem _ hx, h'⟩

/-- lists that are `==` are element-wise `==` -/
theorem rel_eq_forall2 (T : Table) (t t' : Val) (h : rel T t .eq t' = true) :
    List.Forall₂ (fun x y => rel T x .eq y = true) (elems t) (elems t') := by
  induction t generalizing t' with
  | cons a b _ ihb =>
    cases t' with
    | cons a' b' =>
      simp only [rel, Bool.and_eq_true] at h
      exact List.Forall₂.cons h.1 (ihb b' h.2)
    | _ => simp [rel] at h
  | obj c f _ =>
    cases t' <;> simp_all [rel, elems]
  | _ => simp_all [rel, elems]

/-- attribute chains of a class whose attributes are all compared with `==` -/
theorem rel_fields_forall2 (T : Table) (c : Cls) (hc : ∀ i, T.attr c i = .eq) (t t' : Val) (i : Nat)
    (h : rel T t (.fields c i) t' = true) :
    List.Forall₂ (fun x y => rel T x .eq y = true) (elems t) (elems t') := by
  induction t generalizing t' i with
  | cons a b _ ihb =>
    cases t' with
    | cons a' b' =>
      simp only [rel, Bool.and_eq_true, hc] at h
      exact List.Forall₂.cons h.1 (ihb b' (i + 1) h.2)
    | _ => simp [rel] at h
  | obj c f _ =>
    cases t' <;> simp_all [rel, elems]
  | _ => simp_all [rel, elems]

/-- `list == list` implies `frozenset(list) == frozenset(list)` -/
theorem rel_eq_setOf (T : Table) (v w : Val) (h : rel T v .eq w = true) : rel T v (.setOf .eq) w = true := by
  cases v with
  | cons a b =>
    cases w with
    | cons a' b' =>
      rw [rel_setOf_cons]
      exact setRel_of_forall2 _ _ _ (rel_eq_forall2 T _ _ h)
    | _ => simp [rel] at h
  | obj c f =>
    cases w with
    | obj c' f' => simp only [rel] at h ⊢; exact h
    | _ => simp [rel] at h
  | _ => simp_all [rel]

/-- `set == set` implies equality when `None` is read as the empty set -/
theorem rel_setOf_setNE (T : Table) (v w : Val) (h : rel T v (.setOf .eq) w = true) : rel T v .setNE w = true := by
  cases v with
  | cons a b => rw [rel_setNE_cons]; rw [rel_setOf_cons] at h; exact h
  | obj c f =>
    cases w with
    | obj c' f' => simp only [rel] at h ⊢; exact h
    | _ => simp [rel] at h
  | _ => simp_all [rel]

theorem rel_setNA_of_forall2 (T : Table) (a b w : Val)
    (h : List.Forall₂ (fun x y => rel T x .eq y = true) (a :: elems b) (elems w)) : rel T (.cons a b) .setNA w = true := by
  rw [rel_setNA_cons]
  have hs := setRel_of_forall2 (fun x y => rel T x .eq y) _ _ h
  simp only [setRel, Bool.and_eq_true, List.all_eq_true, List.any_eq_true] at hs
  simp only [Bool.and_eq_true, List.all_eq_true, Bool.or_eq_true, List.any_eq_true]
  exact ⟨fun x hx => Or.inr (hs.1 x hx), fun y hy => Or.inr (hs.2 y hy)⟩

theorem forall2_mono_mem {p q : Val → Val → Prop} {l w : List Val} (h : List.Forall₂ p l w)
    (hpq : ∀ x ∈ l, ∀ y, p x y → q x y) : List.Forall₂ q l w := by
  induction h with
  | nil => exact .nil
  | cons hxy _ ih =>
    exact .cons (hpq _ List.mem_cons_self _ hxy) (ih (fun x hx y => hpq x (List.mem_cons_of_mem _ hx) y))

theorem rel_mono_aux (E H : Table) (hc : Coarser E H) (v : Val) :
    (∀ k w, k.regE = true → rel E v k w = true → rel H v k w = true)
      ∧ (∀ x ∈ elems v, ∀ k w, k.regE = true → rel E x k w = true → rel H x k w = true) := by
  induction v with
  | none => exact ⟨fun k w hk h => by cases k <;> simp_all [rel, Kind.regE], by simp [elems]⟩
  | num a =>
    refine ⟨fun k w hk h => ?_, by simp [elems]⟩
    cases k <;> try (simp_all [rel, Kind.regE]; done)
    cases w <;> simp_all [rel]
  | str s => exact ⟨fun k w hk h => by cases k <;> simp_all [rel, Kind.regE], by simp [elems]⟩
  | nil => exact ⟨fun k w hk h => by cases k <;> simp_all [rel, Kind.regE], by simp [elems]⟩
  | obj c f ihf =>
    refine ⟨fun k w hk h => ?_, by simp [elems]⟩
    have ihf1 := ihf.1
    have ihf2 := ihf.2
    clear ihf
    by_cases hs : k = .skip
    · subst hs; simp [rel]
    · cases w with
      | obj c' f' =>
        rw [rel_obj_obj E _ _ _ _ k (Kind.regE_reg hk) hs] at h
        rw [rel_obj_obj H _ _ _ _ k (Kind.regE_reg hk) hs]
        simp only [Bool.and_eq_true, beq_iff_eq] at h ⊢
        obtain ⟨rfl, h2⟩ := h
        rw [hc.regE.whole] at h2
        refine ⟨rfl, ?_⟩
        rcases hc.whole c with hw | ⟨hw, hall⟩
        · rw [hw]; exact ihf1 _ _ rfl h2
        · rw [hw]
          cases f with
          | cons a b =>
            cases f' with
            | cons a' b' =>
              apply rel_setNA_of_forall2
              have hf := rel_fields_forall2 E c hall _ _ 0 h2
              exact forall2_mono_mem hf (fun x hx y hxy => ihf2 x hx .eq y rfl hxy)
            | _ => simp [rel] at h2
          | obj c1 f1 =>
            have := ihf1 _ _ rfl h2
            cases f' with
            | obj c2 f2 =>
              rw [rel_obj_obj H _ _ _ _ _ rfl (by simp)] at this
              rw [rel_obj_obj H _ _ _ _ _ rfl (by simp)]
              exact this
            | _ => simp [rel] at h2
          | _ => simp_all [rel, allV]
      | _ => rw [rel_obj_other E c f _ k (Kind.regE_reg hk) hs (by simp)] at h; cases h
  | cons a b iha ihb =>
    have hel : ∀ x ∈ a :: elems b, ∀ k w, k.regE = true → rel E x k w = true → rel H x k w = true := by
      intro x hx
      rcases List.mem_cons.mp hx with rfl | hx
      · exact iha.1
      · exact ihb.2 x hx
    have iha1 := iha.1
    have ihb1 := ihb.1
    clear iha ihb
    refine ⟨fun k w hk hr => ?_, hel⟩
    cases k with
    | skip => simp [rel]
    | eq =>
      cases w with
      | cons a' b' =>
        simp only [rel, Bool.and_eq_true] at hr ⊢
        exact ⟨iha1 _ _ rfl hr.1, ihb1 _ _ rfl hr.2⟩
      | _ => simp [rel] at hr
    | r10 =>
      cases w with
      | cons a' b' =>
        simp only [rel, Bool.and_eq_true] at hr ⊢
        exact ⟨iha1 _ _ rfl hr.1, ihb1 _ _ rfl hr.2⟩
      | _ => simp [rel] at hr
    | listOf k =>
      cases w with
      | cons a' b' =>
        simp only [rel, Bool.and_eq_true] at hr ⊢
        exact ⟨iha1 _ _ hk hr.1, ihb1 (.listOf k) _ hk hr.2⟩
      | _ => simp [rel] at hr
    | consK k kt =>
      simp only [Kind.regE, Bool.and_eq_true] at hk
      cases w with
      | cons a' b' =>
        simp only [rel, Bool.and_eq_true] at hr ⊢
        exact ⟨iha1 _ _ hk.1 hr.1, ihb1 _ _ hk.2 hr.2⟩
      | _ => simp [rel] at hr
    | fields c i =>
      cases w with
      | cons a' b' =>
        simp only [rel, Bool.and_eq_true] at hr ⊢
        refine ⟨?_, ihb1 (.fields c (i + 1)) _ rfl hr.2⟩
        have hco := hc.attr c i
        have hre := hc.regE.attr c i
        simp only [coarser, Bool.or_eq_true, Bool.and_eq_true, beq_iff_eq] at hco
        rcases hco with ((hsk | hsame) | ⟨h1, h2⟩) | ⟨h1, h2⟩
        · rw [hsk]; simp [rel]
        · rw [hsame]; exact iha1 _ _ hre hr.1
        · rw [h1]; rw [h2] at hr
          exact rel_eq_setOf H _ _ (iha1 _ _ rfl hr.1)
        · rw [h1]; rw [h2] at hr
          exact rel_setOf_setNE H _ _ (iha1 _ _ rfl hr.1)
      | _ => simp [rel] at hr
    | setOf k =>
      rw [rel_setOf_cons] at hr ⊢
      exact setRel_mono _ _ _ _ (fun x hx y hxy => hel x hx k y hk hxy) hr
    | setNE =>
      rw [rel_setNE_cons] at hr ⊢
      exact setRel_mono _ _ _ _ (fun x hx y hxy => hel x hx .eq y rfl hxy) hr
    | setNA => simp [Kind.regE] at hk
    | sub k => simp [Kind.regE] at hk
    | cover k => simp [Kind.regE] at hk
    | subNA => simp [Kind.regE] at hk

/-- equal under the eq table ⇒ equal under every coarser hash table -/
theorem rel_mono (E H : Table) (hc : Coarser E H) (v w : Val) (k : Kind) (hk : k.regE = true)
    (h : rel E v k w = true) : rel H v k w = true :=
  (rel_mono_aux E H hc v).1 k w hk h

/-! ## sets: order and multiplicity of the members are irrelevant -/

theorem rel_setOf_same_members (T : Table) (hT : T.Reg) (k : Kind) (hk : k.reg = true) (xs ys : List Val)
    (h1 : ∀ x ∈ xs, x ∈ ys) (h2 : ∀ y ∈ ys, y ∈ xs) : rel T (ofList xs) (.setOf k) (ofList ys) = true := by
  cases xs with
  | nil =>
    cases ys with
    | nil => simp [ofList, rel]
    | cons y ys => exact absurd (h2 y List.mem_cons_self) (by simp)
  | cons x xs =>
    simp only [ofList]
    rw [rel_setOf_cons, elems_ofList, elems_ofList]
    simp only [setRel, Bool.and_eq_true, List.all_eq_true, List.any_eq_true]
    exact ⟨fun a ha => ⟨a, h1 a ha, rel_refl T hT a k hk⟩, fun b hb => ⟨b, h2 b hb, rel_refl T hT b k hk⟩⟩

theorem rel_setNE_same_members (T : Table) (hT : T.Reg) (xs ys : List Val)
    (h1 : ∀ x ∈ xs, x ∈ ys) (h2 : ∀ y ∈ ys, y ∈ xs) : rel T (ofList xs) .setNE (ofList ys) = true := by
  cases xs with
  | nil =>
    cases ys with
    | nil => simp [ofList, rel]
    | cons y ys => exact absurd (h2 y List.mem_cons_self) (by simp)
  | cons x xs =>
    simp only [ofList]
    rw [rel_setNE_cons, elems_ofList, elems_ofList]
    simp only [setRel, Bool.and_eq_true, List.all_eq_true, List.any_eq_true]
    exact ⟨fun a ha => ⟨a, h1 a ha, rel_refl T hT a .eq rfl⟩, fun b hb => ⟨b, h2 b hb, rel_refl T hT b .eq rfl⟩⟩

/-! ## one attribute inside an attribute chain -/

theorem rel_fields_at (T : Table) (hT : T.Reg) (c : Cls) (pre post : List Val) (v v' : Val) (i0 : Nat) :
    rel T (ofList (pre ++ v :: post)) (.fields c i0) (ofList (pre ++ v' :: post))
      = rel T v (T.attr c (i0 + pre.length)) v' := by
  induction pre generalizing i0 with
  | nil => simp [ofList, rel, rel_refl T hT (ofList post) (.fields c (i0 + 1)) rfl]
  | cons p pre ih =>
    simp only [List.cons_append, ofList, rel, List.length_cons]
    rw [ih (i0 + 1), rel_refl T hT p _ (hT.attr c i0)]
    simp [Nat.add_assoc, Nat.add_comm 1]

/-! ## what counts as a difference, and that every difference is detected -/

def Val.isLeaf : Val → Bool
  | .none | .num _ | .str _ | .nil => true
  | _ => false

def Val.isNum : Val → Bool
  | .num _ => true
  | _ => false

def Val.isNoneNil : Val → Bool
  | .none | .nil => true
  | _ => false

/-- the two situations in which different leaves agree: rounding, and `None` read as the empty set -/
def leafExcept (k : Kind) (v w : Val) : Bool :=
  (k == .r10 && v.isNum && w.isNum) || (k == .setNE && v.isNoneNil && w.isNoneNil)

/-- head kind and tail kind of the element-wise kinds -/
def Kind.split (T : Table) : Kind → Option (Kind × Kind)
  | .eq => some (.eq, .eq)
  | .r10 => some (.r10, .r10)
  | .listOf k => some (k, .listOf k)
  | .consK k kt => some (k, kt)
  | .fields c i => some (T.attr c i, .fields c (i + 1))
  | _ => none

/-- element kind of the set kinds -/
def Kind.setElem : Kind → Option Kind
  | .setOf k => some k
  | .setNE => some .eq
  | _ => none

theorem rel_split (T : Table) (K kh kt : Kind) (hK : K.split T = some (kh, kt)) (h t h' t' : Val) :
    rel T (.cons h t) K (.cons h' t') = (rel T h kh h' && rel T t kt t') := by
  cases K <;> simp_all [Kind.split, rel]
  all_goals (obtain ⟨rfl, rfl⟩ := hK; rfl)

theorem rel_setElem (T : Table) (K k : Kind) (hK : K.setElem = some k) (h t w : Val) :
    rel T (.cons h t) K w = setRel (fun x y => rel T x k y) (h :: elems t) (elems w) := by
  cases K <;> simp_all [Kind.setElem]
  · subst hK; exact rel_setOf_cons T _ h t w
  · subst hK; exact rel_setNE_cons T h t w

/-- `round(x, 10)` separates numbers that are more than 10⁻¹⁰ apart -/
theorem round10_far (a b : Rat) (h : 1 / 10000000000 < a - b ∨ 1 / 10000000000 < b - a) : round10 a ≠ round10 b := by
  intro heq
  unfold round10 at heq
  have ha1 := Rat.floor_le (a * 10000000000 + 1 / 2)
  have ha2 := Rat.lt_floor_add_one (a * 10000000000 + 1 / 2)
  have hb1 := Rat.floor_le (b * 10000000000 + 1 / 2)
  have hb2 := Rat.lt_floor_add_one (b * 10000000000 + 1 / 2)
  rw [heq] at ha1 ha2
  push_cast at ha2 hb2
  rcases h with h | h <;> linarith

/-- numbers in one 10-decimal bucket are at most 10⁻¹⁰ apart (so rounding never identifies more than that) -/
theorem round10_near (a b : Rat) (h : round10 a = round10 b) :
    a - b ≤ 1 / 10000000000 ∧ b - a ≤ 1 / 10000000000 := by
  refine ⟨?_, ?_⟩
  · by_contra hc
    exact round10_far a b (Or.inl (by linarith)) h
  · by_contra hc
    exact round10_far a b (Or.inr (by linarith)) h

/-- A *difference* between two attribute values under the kind by which the attribute is compared.
    This is the reading of "differ in a constructor-visible attribute (reals by more than 1e-10)". -/
inductive Differs (T : Table) : Kind → Val → Val → Prop
  /-- a leaf (None, number, string, empty container) against any other value -/
  | leaf {k : Kind} {v w : Val} : k.regE = true → k ≠ .skip → (v.isLeaf = true ∨ w.isLeaf = true) → v ≠ w →
      leafExcept k v w = false → Differs T k v w
  /-- two reals in different 10-decimal buckets under rounding (in particular: further apart than 10⁻¹⁰, `Differs.real_far`) -/
  | real {a b : Rat} : round10 a ≠ round10 b → Differs T .r10 (.num a) (.num b)
  /-- a container against an object -/
  | shapeCO {k : Kind} {h t : Val} {c : Cls} {f : Val} : k.regE = true → k ≠ .skip → Differs T k (.cons h t) (.obj c f)
  | shapeOC {k : Kind} {h t : Val} {c : Cls} {f : Val} : k.regE = true → k ≠ .skip → Differs T k (.obj c f) (.cons h t)
  /-- objects of different classes -/
  | cls {k : Kind} {c c' : Cls} {f f' : Val} : k.regE = true → k ≠ .skip → c ≠ c' → Differs T k (.obj c f) (.obj c' f')
  /-- objects of one class whose attribute chains differ -/
  | attrs {k : Kind} {c c' : Cls} {f f' : Val} : k.regE = true → k ≠ .skip → Differs T (T.whole c) f f' →
      Differs T k (.obj c f) (.obj c' f')
  /-- element-wise kinds: a difference in the first element, or in the rest -/
  | head {K kh kt : Kind} {h t h' t' : Val} : K.split T = some (kh, kt) → Differs T kh h h' → Differs T K (.cons h t) (.cons h' t')
  | tail {K kh kt : Kind} {h t h' t' : Val} : K.split T = some (kh, kt) → Differs T kt t t' → Differs T K (.cons h t) (.cons h' t')
  /-- set kinds: a member of one side that differs from every member of the other side -/
  | memL {K k : Kind} {h t w x : Val} : K.setElem = some k → x ∈ h :: elems t → (∀ y ∈ elems w, Differs T k x y) →
      Differs T K (.cons h t) w
  | memR {K k : Kind} {h t w y : Val} : K.setElem = some k → y ∈ elems w → (∀ x ∈ h :: elems t, Differs T k x y) →
      Differs T K (.cons h t) w

theorem Differs.real_far (T : Table) {a b : Rat} (h : 1 / 10000000000 < a - b ∨ 1 / 10000000000 < b - a) :
    Differs T .r10 (.num a) (.num b) := .real (round10_far a b h)

theorem rel_leaf_false_l (T : Table) (k : Kind) (v w : Val) (hk : k.regE = true) (hs : k ≠ .skip)
    (hl : v.isLeaf = true) (hne : v ≠ w) (hex : leafExcept k v w = false) : rel T v k w = false := by
  have hne' : w ≠ v := fun h => hne h.symm
  cases v with
  | cons _ _ => simp [Val.isLeaf] at hl
  | obj _ _ => simp [Val.isLeaf] at hl
  | none =>
    cases k <;> simp [Kind.regE] at hk
    all_goals (try simp [rel, hne'])
    · exact hs rfl
    · simp [leafExcept, Val.isNoneNil] at hex
      cases w <;> simp_all
  | nil =>
    cases k <;> simp [Kind.regE] at hk
    all_goals (try simp [rel, hne'])
    · exact hs rfl
    · simp [leafExcept, Val.isNoneNil] at hex
      cases w <;> simp_all
  | str s =>
    cases k <;> simp [Kind.regE] at hk
    all_goals (try simp [rel, hne'])
    · exact hs rfl
  | num a =>
    cases k <;> simp [Kind.regE] at hk
    all_goals (try simp [rel, hne'])
    · exact hs rfl
    · simp [leafExcept, Val.isNum] at hex
      cases w <;> simp_all [rel]

theorem rel_cons_leaf (T : Table) (k : Kind) (a b w : Val) (hk : k.regE = true) (hs : k ≠ .skip)
    (hl : w.isLeaf = true) : rel T (.cons a b) k w = false := by
  cases w <;> simp [Val.isLeaf] at hl
  all_goals (cases k <;> simp [Kind.regE] at hk)
  all_goals (try simp [rel, anyV, allV])
  all_goals exact hs rfl

theorem rel_leaf_false (T : Table) (k : Kind) (v w : Val) (hk : k.regE = true) (hs : k ≠ .skip)
    (hl : v.isLeaf = true ∨ w.isLeaf = true) (hne : v ≠ w) (hex : leafExcept k v w = false) : rel T v k w = false := by
  rcases hl with hl | hl
  · exact rel_leaf_false_l T k v w hk hs hl hne hex
  · cases v with
    | cons a b => exact rel_cons_leaf T k a b w hk hs hl
    | obj c f => exact rel_obj_other T _ _ _ _ (Kind.regE_reg hk) hs (by cases w <;> simp [Val.isLeaf] at hl <;> simp)
    | _ => exact rel_leaf_false_l T k _ w hk hs rfl hne hex
theorem differs_sound (T : Table) (hT : T.RegE) {k : Kind} {v w : Val} (h : Differs T k v w) : rel T v k w = false := by
  induction h with
  | leaf hk hs hl hne hex => exact rel_leaf_false T _ _ _ hk hs hl hne hex
  | real hab =>
    simp only [rel, beq_eq_false_iff_ne, ne_eq]
    exact hab
  | shapeCO hk hs => rename_i k h t c f; cases k <;> simp_all [rel, Kind.regE, setRel, elems, anyV, allV]
  | shapeOC hk hs => exact rel_obj_other T _ _ _ _ (Kind.regE_reg hk) hs (by simp)
  | cls hk hs hc =>
    rw [rel_obj_obj T _ _ _ _ _ (Kind.regE_reg hk) hs]
    simp [hc]
  | attrs hk hs _ ih =>
    rw [rel_obj_obj T _ _ _ _ _ (Kind.regE_reg hk) hs, ih]
    simp
  | head hK _ ih => rw [rel_split T _ _ _ hK, ih]; simp
  | tail hK _ ih => rw [rel_split T _ _ _ hK, ih]; simp
  | memL hK hx _ ih =>
    rw [rel_setElem T _ _ hK]
    simp only [setRel, Bool.and_eq_false_iff, List.all_eq_false, List.any_eq_true, not_exists, not_and]
    left
    exact ⟨_, hx, fun y hy => by simp [ih y hy]⟩
  | memR hK hy _ ih =>
    rw [rel_setElem T _ _ hK]
    simp only [setRel, Bool.and_eq_false_iff, List.all_eq_false, List.any_eq_true, not_exists, not_and]
    right
    exact ⟨_, hy, fun x hx => by simp [ih x hx]⟩

/-! ## the class tables satisfy the side conditions -/

/-- side conditions of one class row: every `__eq__` kind is an eq-table kind and not `skip` (every listed attribute is
    compared), every `__hash__` kind is regular and coarser than the `__eq__` kind of the same attribute, and a
    value-set hash is only used where `__eq__` compares every attribute with `==` -/
def rowOk (row : ClassRow) : Bool :=
  row.attrs.all (fun ar => ar.eqK.regE && ar.eqK != .skip && ar.hashK.reg && coarser ar.hashK ar.eqK)
    && row.restEq.regE && row.restEq != .skip && row.restHash.reg && coarser row.restHash row.restEq
    && (match row.wholeHash with
        | none => true
        | some k => k == .setNA && row.attrs.all (fun ar => ar.eqK == .eq) && row.restEq == .eq)

theorem rows_ok (c : Cls) : rowOk (row c) = true := by
  cases c <;> decide

theorem kinds_ok (c : Cls) (i : Nat) :
    (kinds c i).1.regE = true ∧ (kinds c i).1 ≠ .skip ∧ (kinds c i).2.reg = true
      ∧ coarser (kinds c i).2 (kinds c i).1 = true := by
  have hr := rows_ok c
  simp only [rowOk, Bool.and_eq_true, List.all_eq_true, bne_iff_ne, ne_eq] at hr
  unfold kinds
  cases ha : (row c).attrs[i]? with
  | none => dsimp only; exact ⟨hr.1.1.1.1.2, hr.1.1.1.2, hr.1.1.2, hr.1.2⟩
  | some ar =>
    dsimp only
    have hm : ar ∈ (row c).attrs := List.mem_of_getElem? ha
    have := hr.1.1.1.1.1 ar hm
    exact ⟨this.1.1.1, this.1.1.2, this.1.2, this.2⟩

theorem eqT_regE : eqT.RegE := ⟨fun c i => (kinds_ok c i).1, fun _ => rfl⟩
theorem eqT_reg : eqT.Reg := ⟨fun c i => Kind.regE_reg (kinds_ok c i).1, fun _ => rfl⟩

theorem wholeHash_ok (c : Cls) :
    wholeHashKind c = .fields c 0 ∨ (wholeHashKind c = .setNA ∧ ∀ i, (kinds c i).1 = .eq) := by
  have hr := rows_ok c
  simp only [rowOk, Bool.and_eq_true, List.all_eq_true] at hr
  unfold wholeHashKind
  cases hw : (row c).wholeHash with
  | none => left; rfl
  | some k =>
    right
    have h3 := hr.2
    rw [hw] at h3
    simp only [Bool.and_eq_true, beq_iff_eq, List.all_eq_true] at h3
    refine ⟨by simp [h3.1.1], fun i => ?_⟩
    unfold kinds
    cases ha : (row c).attrs[i]? with
    | none => exact h3.2
    | some ar => exact h3.1.2 ar (List.mem_of_getElem? ha)

theorem hashT_reg : hashT.Reg := by
  refine ⟨fun c i => (kinds_ok c i).2.2.1, fun c => ?_⟩
  show (wholeHashKind c).reg = true
  rcases wholeHash_ok c with h | ⟨h, _⟩ <;> rw [h] <;> rfl

theorem eq_hash_coarser : Coarser eqT hashT :=
  ⟨eqT_regE, fun c i => (kinds_ok c i).2.2.2, wholeHash_ok⟩

theorem not_differs_skip (T : Table) (v w : Val) : ¬ Differs T .skip v w := by
  intro h
  cases h <;> simp_all [Kind.split, Kind.setElem]

end CR.EqHash
