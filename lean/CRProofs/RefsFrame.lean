/-
  CRProofs.RefsFrame — the *frame* vocabulary of property C10 ("all relations between remaining elements are
  untouched, every element … with unchanged content") and its lemmas.

  `Frame n n'` : every element of `n'` is an element of `n` with the same id and content, and each of its relations is
  the old relation intersected with the ids that are present in `n'` (as sets; order / multiplicity is not claimed).
-/
import CRModel.Refs
import CRProofs.Refs

namespace CR.Refs

/-- `new = old ∩ S` as sets. -/
def SetRestr (S : Id → Prop) (old new : List Id) : Prop := ∀ a, a ∈ new ↔ a ∈ old ∧ S a

/-- an optional reference survives iff its target is in `S`. -/
def OptRestr (S : Id → Prop) (old new : Option Id) : Prop := ∀ a, new = some a ↔ old = some a ∧ S a

/-- `None` stays `None`, a set is intersected with `S`. -/
def OptSetRestr (S : Id → Prop) : Option (List Id) → Option (List Id) → Prop
  | none, none => True
  | some o, some n => SetRestr S o n
  | _, _ => False

def StopFrame (SS ST : Id → Prop) : Option StopLine → Option StopLine → Prop
  | none, none => True
  | some o, some n => OptSetRestr SS o.signRef n.signRef ∧ OptSetRestr ST o.lightRef n.lightRef
  | _, _ => False

structure LaneletFrame (SL SS ST : Id → Prop) (l l' : Lanelet) : Prop where
  id : l'.id = l.id
  content : l'.content = l.content
  pred : SetRestr SL l.pred l'.pred
  succ : SetRestr SL l.succ l'.succ
  adjL : OptRestr SL l.adjL l'.adjL
  adjR : OptRestr SL l.adjR l'.adjR
  adjLSame : l'.adjL.isSome = true → l'.adjLSame = l.adjLSame
  adjRSame : l'.adjR.isSome = true → l'.adjRSame = l.adjRSame
  signs : SetRestr SS l.signs l'.signs
  lights : SetRestr ST l.lights l'.lights
  stop : StopFrame SS ST l.stop l'.stop

structure IncFrame (S : Id → Prop) (k k' : Incoming) : Prop where
  id : k'.id = k.id
  leftOf : k'.leftOf = k.leftOf
  inc : SetRestr S k.inc k'.inc
  right : SetRestr S k.right k'.right
  straight : SetRestr S k.straight k'.straight
  left : SetRestr S k.left k'.left

structure InterFrame (S : Id → Prop) (i i' : Intersection) : Prop where
  id : i'.id = i.id
  crossings : SetRestr S i.crossings i'.crossings
  incs : ∀ k' ∈ i'.incomings, ∃ k ∈ i.incomings, IncFrame S k k'

structure Frame (n n' : Net) : Prop where
  lsub : ∀ a ∈ n'.lids, a ∈ n.lids
  ssub : ∀ a ∈ n'.sids, a ∈ n.sids
  tsub : ∀ a ∈ n'.tids, a ∈ n.tids
  lan : ∀ l' ∈ n'.lanelets, ∃ l ∈ n.lanelets, LaneletFrame (· ∈ n'.lids) (· ∈ n'.sids) (· ∈ n'.tids) l l'
  sign : ∀ e ∈ n'.signs, e ∈ n.signs
  light : ∀ e ∈ n'.lights, e ∈ n.lights
  inter : ∀ i' ∈ n'.inters, ∃ i ∈ n.inters, InterFrame (· ∈ n'.lids) i i'

/-! ### sets -/

theorem SetRestr.refl {S : Id → Prop} {xs : List Id} (h : ∀ a ∈ xs, S a) : SetRestr S xs xs :=
  fun a => ⟨fun ha => ⟨ha, h a ha⟩, fun ha => ha.1⟩

theorem SetRestr.trans {S1 S2 : Id → Prop} {x y z : List Id} (hsub : ∀ a, S2 a → S1 a)
    (h1 : SetRestr S1 x y) (h2 : SetRestr S2 y z) : SetRestr S2 x z := by
  intro a
  rw [h2 a, h1 a]
  exact ⟨fun h => ⟨h.1.1, h.2⟩, fun h => ⟨⟨h.1, hsub a h.2⟩, h.2⟩⟩

theorem SetRestr.keepIn {S : Id → Prop} {P : Id → Bool} (hP : ∀ a, P a = true ↔ S a) (xs : List Id) :
    SetRestr S xs (keepIn P xs) := fun a => by rw [mem_keepIn, hP]

theorem SetRestr.keepInL {S : Id → Prop} {P : Id → Bool} (hP : ∀ a, P a = true ↔ S a) (xs : List Id) :
    SetRestr S xs (keepInL P xs) := fun a => by rw [mem_keepInL, hP]

theorem OptRestr.refl {S : Id → Prop} {o : Option Id} (h : ∀ a ∈ o.toList, S a) : OptRestr S o o :=
  fun a => ⟨fun ha => ⟨ha, h a (by simp [ha])⟩, fun ha => ha.1⟩

theorem OptRestr.trans {S1 S2 : Id → Prop} {x y z : Option Id} (hsub : ∀ a, S2 a → S1 a)
    (h1 : OptRestr S1 x y) (h2 : OptRestr S2 y z) : OptRestr S2 x z := by
  intro a
  rw [h2 a, h1 a]
  exact ⟨fun h => ⟨h.1.1, h.2⟩, fun h => ⟨⟨h.1, hsub a h.2⟩, h.2⟩⟩

theorem OptRestr.filter {S : Id → Prop} {P : Id → Bool} (hP : ∀ a, P a = true ↔ S a) (o : Option Id) :
    OptRestr S o (o.filter P) := by
  intro a
  rw [← hP]
  cases o with
  | none => simp
  | some b =>
    by_cases h : P b = true
    · have e1 : (some b).filter P = some b := by simp [Option.filter, h]
      rw [e1]
      constructor
      · intro e; cases e; exact ⟨rfl, h⟩
      · intro e; exact e.1
    · have e1 : (some b).filter P = none := by simp [Option.filter, h]
      rw [e1]
      constructor
      · intro e; cases e
      · rintro ⟨e, hp⟩; cases e; exact absurd hp h

theorem OptRestr.isSome {S : Id → Prop} {o o' : Option Id} (h : OptRestr S o o') (hs : o'.isSome = true) :
    o.isSome = true := by
  cases o' with
  | none => cases hs
  | some a => rw [((h a).1 rfl).1]; rfl

theorem OptSetRestr.refl {S : Id → Prop} {o : Option (List Id)} (h : ∀ a ∈ o.getD [], S a) : OptSetRestr S o o := by
  cases o with
  | none => trivial
  | some r => exact SetRestr.refl h

theorem OptSetRestr.trans {S1 S2 : Id → Prop} {x y z : Option (List Id)} (hsub : ∀ a, S2 a → S1 a)
    (h1 : OptSetRestr S1 x y) (h2 : OptSetRestr S2 y z) : OptSetRestr S2 x z := by
  cases x <;> cases y <;> cases z <;> simp only [OptSetRestr] at h1 h2 ⊢
  exact SetRestr.trans hsub h1 h2

theorem OptSetRestr.map_keepIn {S : Id → Prop} {P : Id → Bool} (hP : ∀ a, P a = true ↔ S a) (o : Option (List Id)) :
    OptSetRestr S o (o.map (CR.Refs.keepIn P)) := by
  cases o with
  | none => trivial
  | some r => exact SetRestr.keepIn hP r

/-! ### stop lines -/

theorem StopFrame.refl {SS ST : Id → Prop} {l : Lanelet} (hs : ∀ a ∈ l.stopS, SS a) (ht : ∀ a ∈ l.stopT, ST a) :
    StopFrame SS ST l.stop l.stop := by
  unfold Lanelet.stopS StopLine.srefs at hs
  unfold Lanelet.stopT StopLine.trefs at ht
  cases h : l.stop with
  | none => trivial
  | some st =>
    rw [h] at hs ht
    exact ⟨OptSetRestr.refl hs, OptSetRestr.refl ht⟩

theorem StopFrame.trans {S1 S2 T1 T2 : Id → Prop} {x y z : Option StopLine} (hs : ∀ a, S2 a → S1 a)
    (ht : ∀ a, T2 a → T1 a) (h1 : StopFrame S1 T1 x y) (h2 : StopFrame S2 T2 y z) : StopFrame S2 T2 x z := by
  cases x <;> cases y <;> cases z <;> simp only [StopFrame] at h1 h2 ⊢
  exact ⟨OptSetRestr.trans hs h1.1 h2.1, OptSetRestr.trans ht h1.2 h2.2⟩

theorem StopFrame.cleanS {SS ST : Id → Prop} {P : Id → Bool} (hP : ∀ a, P a = true ↔ SS a) (l : Lanelet)
    (ht : ∀ a ∈ l.stopT, ST a) : StopFrame SS ST l.stop (l.cleanS P).stop := by
  unfold Lanelet.stopT StopLine.trefs at ht
  unfold Lanelet.cleanS
  cases h : l.stop with
  | none => trivial
  | some st =>
    rw [h] at ht
    exact ⟨OptSetRestr.map_keepIn hP _, OptSetRestr.refl ht⟩

theorem StopFrame.cleanT {SS ST : Id → Prop} {P : Id → Bool} (hP : ∀ a, P a = true ↔ ST a) (l : Lanelet)
    (hs : ∀ a ∈ l.stopS, SS a) : StopFrame SS ST l.stop (l.cleanT P).stop := by
  unfold Lanelet.stopS StopLine.srefs at hs
  unfold Lanelet.cleanT
  cases h : l.stop with
  | none => trivial
  | some st =>
    rw [h] at hs
    exact ⟨OptSetRestr.refl hs, OptSetRestr.map_keepIn hP _⟩

/-! ### lanelets -/

theorem mem_lrefs {l : Lanelet} {a : Id} :
    a ∈ l.lrefs ↔ a ∈ l.pred ∨ a ∈ l.succ ∨ l.adjL = some a ∨ l.adjR = some a := by
  simp only [Lanelet.lrefs, List.mem_append, Option.mem_toList]
  constructor
  · rintro (((h | h) | h) | h)
    · exact Or.inl h
    · exact Or.inr (Or.inl h)
    · exact Or.inr (Or.inr (Or.inl h))
    · exact Or.inr (Or.inr (Or.inr h))
  · rintro (h | h | h | h)
    · exact Or.inl (Or.inl (Or.inl h))
    · exact Or.inl (Or.inl (Or.inr h))
    · exact Or.inl (Or.inr h)
    · exact Or.inr h

theorem LaneletFrame.refl {SL SS ST : Id → Prop} {l : Lanelet} (hl : ∀ a ∈ l.lrefs, SL a)
    (hs : ∀ a ∈ l.signs ++ l.stopS, SS a) (ht : ∀ a ∈ l.lights ++ l.stopT, ST a) : LaneletFrame SL SS ST l l where
  id := rfl
  content := rfl
  pred := SetRestr.refl fun a ha => hl a (mem_lrefs.2 (Or.inl ha))
  succ := SetRestr.refl fun a ha => hl a (mem_lrefs.2 (Or.inr (Or.inl ha)))
  adjL := OptRestr.refl fun a ha => hl a (mem_lrefs.2 (Or.inr (Or.inr (Or.inl (by simpa using ha)))))
  adjR := OptRestr.refl fun a ha => hl a (mem_lrefs.2 (Or.inr (Or.inr (Or.inr (by simpa using ha)))))
  adjLSame := fun _ => rfl
  adjRSame := fun _ => rfl
  signs := SetRestr.refl fun a ha => hs a (List.mem_append_left _ ha)
  lights := SetRestr.refl fun a ha => ht a (List.mem_append_left _ ha)
  stop := StopFrame.refl (fun a ha => hs a (List.mem_append_right _ ha)) (fun a ha => ht a (List.mem_append_right _ ha))

theorem LaneletFrame.trans {L1 S1 T1 L2 S2 T2 : Id → Prop} {x y z : Lanelet} (hl : ∀ a, L2 a → L1 a)
    (hs : ∀ a, S2 a → S1 a) (ht : ∀ a, T2 a → T1 a) (h1 : LaneletFrame L1 S1 T1 x y) (h2 : LaneletFrame L2 S2 T2 y z) :
    LaneletFrame L2 S2 T2 x z where
  id := h2.id.trans h1.id
  content := h2.content.trans h1.content
  pred := SetRestr.trans hl h1.pred h2.pred
  succ := SetRestr.trans hl h1.succ h2.succ
  adjL := OptRestr.trans hl h1.adjL h2.adjL
  adjR := OptRestr.trans hl h1.adjR h2.adjR
  adjLSame := fun h => (h2.adjLSame h).trans (h1.adjLSame (h2.adjL.isSome h))
  adjRSame := fun h => (h2.adjRSame h).trans (h1.adjRSame (h2.adjR.isSome h))
  signs := SetRestr.trans hs h1.signs h2.signs
  lights := SetRestr.trans ht h1.lights h2.lights
  stop := StopFrame.trans hs ht h1.stop h2.stop

theorem LaneletFrame.cleanL {SL SS ST : Id → Prop} {P : Id → Bool} (hP : ∀ a, P a = true ↔ SL a) (l : Lanelet)
    (hs : ∀ a ∈ l.signs ++ l.stopS, SS a) (ht : ∀ a ∈ l.lights ++ l.stopT, ST a) :
    LaneletFrame SL SS ST l (l.cleanL P) where
  id := rfl
  content := rfl
  pred := SetRestr.keepInL hP _
  succ := SetRestr.keepInL hP _
  adjL := OptRestr.filter hP _
  adjR := OptRestr.filter hP _
  adjLSame := fun h => by rw [Lanelet.cleanL_adjLSame]; rw [Lanelet.cleanL_adjL] at h; simp [h]
  adjRSame := fun h => by rw [Lanelet.cleanL_adjRSame]; rw [Lanelet.cleanL_adjR] at h; simp [h]
  signs := SetRestr.refl fun a ha => hs a (List.mem_append_left _ ha)
  lights := SetRestr.refl fun a ha => ht a (List.mem_append_left _ ha)
  stop := StopFrame.refl (fun a ha => hs a (List.mem_append_right _ ha)) (fun a ha => ht a (List.mem_append_right _ ha))

theorem LaneletFrame.cleanS {SL SS ST : Id → Prop} {P : Id → Bool} (hP : ∀ a, P a = true ↔ SS a) (l : Lanelet)
    (hl : ∀ a ∈ l.lrefs, SL a) (ht : ∀ a ∈ l.lights ++ l.stopT, ST a) : LaneletFrame SL SS ST l (l.cleanS P) where
  id := rfl
  content := rfl
  pred := SetRestr.refl fun a ha => hl a (mem_lrefs.2 (Or.inl ha))
  succ := SetRestr.refl fun a ha => hl a (mem_lrefs.2 (Or.inr (Or.inl ha)))
  adjL := OptRestr.refl fun a ha => hl a (mem_lrefs.2 (Or.inr (Or.inr (Or.inl (by simpa using ha)))))
  adjR := OptRestr.refl fun a ha => hl a (mem_lrefs.2 (Or.inr (Or.inr (Or.inr (by simpa using ha)))))
  adjLSame := fun _ => rfl
  adjRSame := fun _ => rfl
  signs := SetRestr.keepIn hP _
  lights := SetRestr.refl fun a ha => ht a (List.mem_append_left _ ha)
  stop := StopFrame.cleanS hP l (fun a ha => ht a (List.mem_append_right _ ha))

theorem LaneletFrame.cleanT {SL SS ST : Id → Prop} {P : Id → Bool} (hP : ∀ a, P a = true ↔ ST a) (l : Lanelet)
    (hl : ∀ a ∈ l.lrefs, SL a) (hs : ∀ a ∈ l.signs ++ l.stopS, SS a) : LaneletFrame SL SS ST l (l.cleanT P) where
  id := rfl
  content := rfl
  pred := SetRestr.refl fun a ha => hl a (mem_lrefs.2 (Or.inl ha))
  succ := SetRestr.refl fun a ha => hl a (mem_lrefs.2 (Or.inr (Or.inl ha)))
  adjL := OptRestr.refl fun a ha => hl a (mem_lrefs.2 (Or.inr (Or.inr (Or.inl (by simpa using ha)))))
  adjR := OptRestr.refl fun a ha => hl a (mem_lrefs.2 (Or.inr (Or.inr (Or.inr (by simpa using ha)))))
  adjLSame := fun _ => rfl
  adjRSame := fun _ => rfl
  signs := SetRestr.refl fun a ha => hs a (List.mem_append_left _ ha)
  lights := SetRestr.keepIn hP _
  stop := StopFrame.cleanT hP l (fun a ha => hs a (List.mem_append_right _ ha))

/-! ### intersections -/

theorem IncFrame.refl {S : Id → Prop} {k : Incoming} (h : ∀ a ∈ k.lrefs, S a) : IncFrame S k k where
  id := rfl
  leftOf := rfl
  inc := SetRestr.refl fun a ha => h a (by simp [Incoming.lrefs, ha])
  right := SetRestr.refl fun a ha => h a (by simp [Incoming.lrefs, ha])
  straight := SetRestr.refl fun a ha => h a (by simp [Incoming.lrefs, ha])
  left := SetRestr.refl fun a ha => h a (by simp [Incoming.lrefs, ha])

theorem IncFrame.trans {S1 S2 : Id → Prop} {x y z : Incoming} (hsub : ∀ a, S2 a → S1 a) (h1 : IncFrame S1 x y)
    (h2 : IncFrame S2 y z) : IncFrame S2 x z where
  id := h2.id.trans h1.id
  leftOf := h2.leftOf.trans h1.leftOf
  inc := SetRestr.trans hsub h1.inc h2.inc
  right := SetRestr.trans hsub h1.right h2.right
  straight := SetRestr.trans hsub h1.straight h2.straight
  left := SetRestr.trans hsub h1.left h2.left

theorem IncFrame.cleanL {S : Id → Prop} {P : Id → Bool} (hP : ∀ a, P a = true ↔ S a) (k : Incoming) :
    IncFrame S k (k.cleanL P) where
  id := rfl
  leftOf := rfl
  inc := SetRestr.keepIn hP _
  right := SetRestr.keepIn hP _
  straight := SetRestr.keepIn hP _
  left := SetRestr.keepIn hP _

theorem IncFrame.cut {S : Id → Prop} {P : Id → Bool} (hP : ∀ a, P a = true ↔ S a) {k k' : Incoming}
    (h : k.cut P = some k') : IncFrame S k k' := by
  rw [Incoming.cut_some h]
  exact ⟨rfl, rfl, SetRestr.keepIn hP _, SetRestr.keepIn hP _, SetRestr.keepIn hP _, SetRestr.keepIn hP _⟩

theorem InterFrame.refl {S : Id → Prop} {i : Intersection} (h : ∀ a ∈ i.lrefs, S a) : InterFrame S i i where
  id := rfl
  crossings := SetRestr.refl fun a ha => h a (by simp [Intersection.lrefs, ha])
  incs := fun k hk => ⟨k, hk, IncFrame.refl fun a ha => h a (by
    simp only [Intersection.lrefs, List.mem_append, List.mem_flatMap]; exact Or.inr ⟨k, hk, ha⟩)⟩

theorem InterFrame.trans {S1 S2 : Id → Prop} {x y z : Intersection} (hsub : ∀ a, S2 a → S1 a)
    (h1 : InterFrame S1 x y) (h2 : InterFrame S2 y z) : InterFrame S2 x z where
  id := h2.id.trans h1.id
  crossings := SetRestr.trans hsub h1.crossings h2.crossings
  incs := fun k'' hk'' => by
    obtain ⟨k', hk', f2⟩ := h2.incs k'' hk''
    obtain ⟨k, hk, f1⟩ := h1.incs k' hk'
    exact ⟨k, hk, IncFrame.trans hsub f1 f2⟩

theorem InterFrame.cleanL {S : Id → Prop} {P : Id → Bool} (hP : ∀ a, P a = true ↔ S a) (i : Intersection) :
    InterFrame S i (i.cleanL P) where
  id := rfl
  crossings := SetRestr.keepIn hP _
  incs := fun k' hk' => by
    simp only [Intersection.cleanL, List.mem_map] at hk'
    obtain ⟨k, hk, rfl⟩ := hk'
    exact ⟨k, hk, IncFrame.cleanL hP k⟩

theorem InterFrame.cut {S : Id → Prop} {P : Id → Bool} (hP : ∀ a, P a = true ↔ S a) {i i' : Intersection}
    (h : i.cut P = some i') : InterFrame S i i' := by
  rw [Intersection.cut_some h]
  refine ⟨rfl, SetRestr.keepIn hP _, fun k' hk' => ?_⟩
  simp only [List.mem_filterMap] at hk'
  obtain ⟨k, hk, hc⟩ := hk'
  exact ⟨k, hk, IncFrame.cut hP hc⟩

/-! ### networks -/

theorem Frame.refl {n : Net} (h : NoDangling n) : Frame n n where
  lsub := fun _ h => h
  ssub := fun _ h => h
  tsub := fun _ h => h
  lan := fun l hl => ⟨l, hl, LaneletFrame.refl (h.1 l hl) (h.2.1 l hl) (h.2.2.1 l hl)⟩
  sign := fun _ h => h
  light := fun _ h => h
  inter := fun i hi => ⟨i, hi, InterFrame.refl (h.2.2.2 i hi)⟩

theorem Frame.trans {a b c : Net} (h1 : Frame a b) (h2 : Frame b c) : Frame a c where
  lsub := fun x hx => h1.lsub x (h2.lsub x hx)
  ssub := fun x hx => h1.ssub x (h2.ssub x hx)
  tsub := fun x hx => h1.tsub x (h2.tsub x hx)
  lan := fun l'' hl'' => by
    obtain ⟨l', hl', f2⟩ := h2.lan l'' hl''
    obtain ⟨l, hl, f1⟩ := h1.lan l' hl'
    exact ⟨l, hl, LaneletFrame.trans h2.lsub h2.ssub h2.tsub f1 f2⟩
  sign := fun e he => h1.sign e (h2.sign e he)
  light := fun e he => h1.light e (h2.light e he)
  inter := fun i'' hi'' => by
    obtain ⟨i', hi', f2⟩ := h2.inter i'' hi''
    obtain ⟨i, hi, f1⟩ := h1.inter i' hi'
    exact ⟨i, hi, InterFrame.trans h2.lsub f1 f2⟩

/-! ### the frame of every network-level operation -/

/-- `cleanup_lanelet_references` after the lanelets / signs / lights have been reduced and the intersections re-built. -/
theorem frame_cleanupLaneletRefs_of {n n1 : Net} (S0 : Id → Prop) (hS0 : ∀ a ∈ n1.lids, S0 a)
    (hl : ∀ l ∈ n1.lanelets, l ∈ n.lanelets) (hsg : ∀ e ∈ n1.signs, e ∈ n.signs) (htl : ∀ e ∈ n1.lights, e ∈ n.lights)
    (hS1 : SignOK n1) (hT1 : LightOK n1)
    (hi : ∀ i1 ∈ n1.inters, ∃ i ∈ n.inters, InterFrame S0 i i1) : Frame n n1.cleanupLaneletRefs := by
  have hP : ∀ a, (fun a => n1.lids.contains a) a = true ↔ a ∈ n1.cleanupLaneletRefs.lids := by
    intro a; rw [Net.cleanupLaneletRefs_lids]; simp
  refine ⟨?_, ?_, ?_, ?_, hsg, htl, ?_⟩
  · intro a ha
    rw [Net.cleanupLaneletRefs_lids] at ha
    obtain ⟨l, hl1, rfl⟩ := List.mem_map.1 ha
    exact List.mem_map.2 ⟨l, hl l hl1, rfl⟩
  · intro a ha
    obtain ⟨e, he, rfl⟩ := List.mem_map.1 ha
    exact List.mem_map.2 ⟨e, hsg e he, rfl⟩
  · intro a ha
    obtain ⟨e, he, rfl⟩ := List.mem_map.1 ha
    exact List.mem_map.2 ⟨e, htl e he, rfl⟩
  · intro l' hl'
    simp only [Net.cleanupLaneletRefs, List.mem_map] at hl'
    obtain ⟨l, hl1, rfl⟩ := hl'
    exact ⟨l, hl l hl1, LaneletFrame.cleanL hP l (hS1 l hl1) (hT1 l hl1)⟩
  · intro i' hi'
    simp only [Net.cleanupLaneletRefs, List.mem_map] at hi'
    obtain ⟨i1, hi1, rfl⟩ := hi'
    obtain ⟨i, hin, f⟩ := hi i1 hi1
    refine ⟨i, hin, InterFrame.trans ?_ f (InterFrame.cleanL hP i1)⟩
    intro a ha
    rw [Net.cleanupLaneletRefs_lids] at ha
    exact hS0 a ha

theorem frame_removeLanelet {n : Net} (h : NoDangling n) (x : Id) : Frame n (n.removeLanelet x) := by
  unfold Net.removeLanelet
  split
  · refine frame_cleanupLaneletRefs_of (· ∈ n.lids) ?_ (fun l hl => (List.mem_filter.1 hl).1) (fun _ h => h)
      (fun _ h => h) ?_ ?_ (fun i hi => ⟨i, hi, InterFrame.refl (h.2.2.2 i hi)⟩)
    · intro a ha
      obtain ⟨l, hl1, rfl⟩ := List.mem_map.1 ha
      exact List.mem_map.2 ⟨l, (List.mem_filter.1 hl1).1, rfl⟩
    · intro l hl a ha; exact h.2.1 l (List.mem_filter.1 hl).1 a ha
    · intro l hl a ha; exact h.2.2.1 l (List.mem_filter.1 hl).1 a ha
  · exact Frame.refl h

theorem frame_removeSign {n : Net} (h : NoDangling n) (x : Id) : Frame n (n.removeSign x) := by
  unfold Net.removeSign
  split
  · have hP : ∀ a, (fun a => (({ n with signs := n.signs.filter (fun s => s.1 != x) } : Net).sids).contains a) a = true ↔
        a ∈ (({ n with signs := n.signs.filter (fun s => s.1 != x) } : Net).cleanupSignRefs).sids := by
      intro a; rw [Net.cleanupSignRefs_sids]; simp
    refine ⟨?_, ?_, fun _ h => h, ?_, fun e he => (List.mem_filter.1 he).1, fun _ h => h,
      fun i hi => ⟨i, hi, InterFrame.refl ?_⟩⟩
    · intro a ha; rw [Net.cleanupSignRefs_lids] at ha; exact ha
    · intro a ha
      obtain ⟨e, he, rfl⟩ := List.mem_map.1 ha
      exact List.mem_map.2 ⟨e, (List.mem_filter.1 he).1, rfl⟩
    · intro l' hl'
      simp only [Net.cleanupSignRefs, List.mem_map] at hl'
      obtain ⟨l, hl1, rfl⟩ := hl'
      refine ⟨l, hl1, LaneletFrame.cleanS hP l ?_ (h.2.2.1 l hl1)⟩
      intro a ha
      rw [Net.cleanupSignRefs_lids]
      exact h.1 l hl1 a ha
    · intro a ha
      rw [Net.cleanupSignRefs_lids]
      exact h.2.2.2 i hi a ha
  · exact Frame.refl h

theorem frame_removeLight {n : Net} (h : NoDangling n) (x : Id) : Frame n (n.removeLight x) := by
  unfold Net.removeLight
  have hP : ∀ a, (fun a => (({ n with lights := n.lights.filter (fun s => s.1 != x) } : Net).tids).contains a) a = true ↔
      a ∈ (({ n with lights := n.lights.filter (fun s => s.1 != x) } : Net).cleanupLightRefs).tids := by
    intro a; rw [Net.cleanupLightRefs_tids]; simp
  refine ⟨?_, fun _ h => h, ?_, ?_, fun _ h => h, fun e he => (List.mem_filter.1 he).1,
    fun i hi => ⟨i, hi, InterFrame.refl ?_⟩⟩
  · intro a ha; rw [Net.cleanupLightRefs_lids] at ha; exact ha
  · intro a ha
    obtain ⟨e, he, rfl⟩ := List.mem_map.1 ha
    exact List.mem_map.2 ⟨e, (List.mem_filter.1 he).1, rfl⟩
  · intro l' hl'
    simp only [Net.cleanupLightRefs, List.mem_map] at hl'
    obtain ⟨l, hl1, rfl⟩ := hl'
    refine ⟨l, hl1, LaneletFrame.cleanT hP l ?_ (h.2.1 l hl1)⟩
    intro a ha
    rw [Net.cleanupLightRefs_lids]
    exact h.1 l hl1 a ha
  · intro a ha
    rw [Net.cleanupLightRefs_lids]
    exact h.2.2.2 i hi a ha

theorem frame_removeInter {n : Net} (h : NoDangling n) (x : Id) : Frame n (n.removeInter x) :=
  ⟨fun _ h => h, fun _ h => h, fun _ h => h,
    fun l hl => ⟨l, hl, LaneletFrame.refl (h.1 l hl) (h.2.1 l hl) (h.2.2.1 l hl)⟩, fun _ h => h, fun _ h => h,
    fun i hi => ⟨i, (List.mem_filter.1 hi).1, InterFrame.refl (h.2.2.2 i (List.mem_filter.1 hi).1)⟩⟩

theorem frame_cutOut {n n' : Net} {keep : Id → Bool} (hw : Wf n) (h : n.cutOut keep true = .ok n') : Frame n n' := by
  obtain ⟨hs, ht, rfl⟩ := cutOut_ok h
  simp only [if_true]
  refine frame_cleanupLaneletRefs_of (· ∈ (n.cutBase keep).lids) (fun _ h => h)
    (fun l hl => (List.mem_filter.1 hl).1) (fun e he => (List.mem_filter.1 he).1) (fun e he => (List.mem_filter.1 he).1)
    (signOK_cutBase hw hs) (lightOK_cutBase hw ht) ?_
  intro i1 hi1
  simp only [Net.cutBase, List.mem_filterMap] at hi1
  obtain ⟨i, hi, hc⟩ := hi1
  refine ⟨i, hi, InterFrame.cut ?_ hc⟩
  intro a
  simp [Net.cutBase, Net.lids]

/-- `create_from_lanelet_list(…, cleanup_ids=True)` written out -/
theorem fromList_true_eq (n : Net) (sel : List Id) :
    n.fromList sel true =
      { lanelets := (addLanelets [] (sel.filterMap n.findLanelet)).map (fun l =>
          ((l.cleanL (fun a => ((addLanelets [] (sel.filterMap n.findLanelet)).map (·.id)).contains a)).cleanT
            (fun a => ([] : List Id).contains a)).cleanS (fun a => ([] : List Id).contains a))
        signs := [], lights := [], inters := [] } := by
  simp [Net.fromList, Net.cleanupSignRefs, Net.cleanupLightRefs, Net.cleanupLaneletRefs, Net.lids, Net.sids, Net.tids,
    List.map_map, Function.comp_def]

theorem frame_fromList {n : Net} (h : NoDangling n) (sel : List Id) : Frame n (n.fromList sel true) := by
  rw [fromList_true_eq]
  generalize hb : addLanelets [] (sel.filterMap n.findLanelet) = base
  have hbase : ∀ l ∈ base, l ∈ n.lanelets := fun l hl => (fromList_base_mem (hb ▸ hl)).1
  have hlids : ∀ (f : Lanelet → Lanelet), (∀ l, (f l).id = l.id) →
      (({ lanelets := base.map f, signs := [], lights := [], inters := [] } : Net).lids) = base.map (·.id) := by
    intro f hf; simp [Net.lids, List.map_map, Function.comp_def, hf]
  refine ⟨?_, ?_, ?_, ?_, ?_, ?_, ?_⟩
  · intro a ha
    rw [hlids (fun l => Lanelet.cleanS _ (Lanelet.cleanT _ (Lanelet.cleanL _ l))) (fun l => rfl)] at ha
    obtain ⟨l, hl, rfl⟩ := List.mem_map.1 ha
    exact List.mem_map.2 ⟨l, hbase l hl, rfl⟩
  · intro a ha; cases ha
  · intro a ha; cases ha
  · intro l' hl'
    obtain ⟨l, hl, rfl⟩ := List.mem_map.1 hl'
    refine ⟨l, hbase l hl, ?_⟩
    rw [hlids (fun l => Lanelet.cleanS _ (Lanelet.cleanT _ (Lanelet.cleanL _ l))) (fun l => rfl)]
    have f1 : LaneletFrame (· ∈ base.map (·.id)) (· ∈ n.sids) (· ∈ n.tids) l
        (l.cleanL fun a => (base.map (·.id)).contains a) :=
      LaneletFrame.cleanL (by intro a; simp) l (h.2.1 l (hbase l hl)) (h.2.2.1 l (hbase l hl))
    have f2 : LaneletFrame (· ∈ base.map (·.id)) (· ∈ n.sids) (· ∈ ([] : List Id))
        (l.cleanL fun a => (base.map (·.id)).contains a)
        ((l.cleanL fun a => (base.map (·.id)).contains a).cleanT fun a => ([] : List Id).contains a) :=
      LaneletFrame.cleanT (by intro a; simp) _
        (fun a ha => contains_eq_true_iff.1 ((Lanelet.mem_cleanL_lrefs _ l).1 ha).2)
        (fun a ha => h.2.1 l (hbase l hl) a (by simpa using ha))
    have f3 : LaneletFrame (· ∈ base.map (·.id)) (· ∈ ([] : List Id)) (· ∈ ([] : List Id))
        ((l.cleanL fun a => (base.map (·.id)).contains a).cleanT fun a => ([] : List Id).contains a)
        (((l.cleanL fun a => (base.map (·.id)).contains a).cleanT fun a => ([] : List Id).contains a).cleanS
          fun a => ([] : List Id).contains a) :=
      LaneletFrame.cleanS (by intro a; simp) _
        (fun a ha => contains_eq_true_iff.1 ((Lanelet.mem_cleanL_lrefs _ l).1 ha).2)
        (fun a ha => by
          rw [List.mem_append, Lanelet.cleanT_lights, mem_keepIn, Lanelet.mem_cleanT_stopT] at ha
          rcases ha with h | h <;> simp at h)
    exact LaneletFrame.trans (fun _ h => h) (fun a (h : a ∈ ([] : List Id)) => by cases h) (fun _ h => h)
      (LaneletFrame.trans (fun _ h => h) (fun _ h => h) (fun a (h : a ∈ ([] : List Id)) => by cases h) f1 f2) f3
  · intro e he; cases he
  · intro e he; cases he
  · intro i hi; cases hi

end CR.Refs
