/-
  CRProofs.RefsFrame — the *frame* vocabulary of property C10 ("all relations between remaining elements are
  untouched, every element … with unchanged content") and its lemmas.

  `Frame n n'` : every element of `n'` is an element of `n` with the same id and content; no relation of it has a
  member it did not have in `n`, and every old member that names an element still present in `n'` is still a member
  (as sets; order / multiplicity is not claimed).  No hypothesis on `n` is needed: a reference that was dangling
  already in `n` may stay or go, the relation *between remaining elements* is what is fixed.  When `n'` has no dangling
  reference this is "new relation = old relation ∩ remaining ids" (`SetRestr.iff`).
  `left_of` of an incoming element is not one of the relations the property lists; the frame only records that the
  operations copy it verbatim (`IncFrame.leftOf`) — it can therefore name an incoming element that a cut-out dropped
  (CRProps.C10 `C10_witness_leftOf_dangles`).
-/
import CRModel.Refs
import CRProofs.Refs

namespace CR.Refs

/-- nothing is added, and every old member that lies in `S` (the ids still present) is kept. -/
def SetRestr (S : Id → Prop) (old new : List Id) : Prop := (∀ a ∈ new, a ∈ old) ∧ (∀ a ∈ old, S a → a ∈ new)

/-- an optional reference is not re-targeted, and it survives if its target is in `S`. -/
def OptRestr (S : Id → Prop) (old new : Option Id) : Prop :=
  (∀ a, new = some a → old = some a) ∧ (∀ a, old = some a → S a → new = some a)

/-- `None` stays `None`, a set is restricted as in `SetRestr`. -/
def OptSetRestr (S : Id → Prop) : Option (List Id) → Option (List Id) → Prop
  | none, none => True
  | some o, some n => SetRestr S o n
  | _, _ => False

def StopFrame (SS ST : Id → Prop) : Option StopLine → Option StopLine → Prop
  | none, none => True
  | some o, some n => OptSetRestr SS o.signRef n.signRef ∧ OptSetRestr ST o.lightRef n.lightRef
  | _, _ => False

structure LaneletFrame (SL SS ST : Id → Prop) (l l' : Lanelet) : Prop where
  id : l'.id = l.id
  content : l'.content = l.content
  pred : SetRestr SL l.pred l'.pred
  succ : SetRestr SL l.succ l'.succ
  adjL : OptRestr SL l.adjL l'.adjL
  adjR : OptRestr SL l.adjR l'.adjR
  adjLSame : l'.adjL.isSome = true → l'.adjLSame = l.adjLSame
  adjRSame : l'.adjR.isSome = true → l'.adjRSame = l.adjRSame
  signs : SetRestr SS l.signs l'.signs
  lights : SetRestr ST l.lights l'.lights
  stop : StopFrame SS ST l.stop l'.stop

structure IncFrame (S : Id → Prop) (k k' : Incoming) : Prop where
  id : k'.id = k.id
  leftOf : k'.leftOf = k.leftOf
  inc : SetRestr S k.inc k'.inc
  right : SetRestr S k.right k'.right
  straight : SetRestr S k.straight k'.straight
  left : SetRestr S k.left k'.left

structure InterFrame (S : Id → Prop) (i i' : Intersection) : Prop where
  id : i'.id = i.id
  crossings : SetRestr S i.crossings i'.crossings
  incs : ∀ k' ∈ i'.incomings, ∃ k ∈ i.incomings, IncFrame S k k'

structure Frame (n n' : Net) : Prop where
  lsub : ∀ a ∈ n'.lids, a ∈ n.lids
  ssub : ∀ a ∈ n'.sids, a ∈ n.sids
  tsub : ∀ a ∈ n'.tids, a ∈ n.tids
  lan : ∀ l' ∈ n'.lanelets, ∃ l ∈ n.lanelets, LaneletFrame (· ∈ n'.lids) (· ∈ n'.sids) (· ∈ n'.tids) l l'
  sign : ∀ e ∈ n'.signs, e ∈ n.signs
  light : ∀ e ∈ n'.lights, e ∈ n.lights
  inter : ∀ i' ∈ n'.inters, ∃ i ∈ n.inters, InterFrame (· ∈ n'.lids) i i'

/-! ### sets -/

theorem SetRestr.refl {S : Id → Prop} {xs : List Id} : SetRestr S xs xs := ⟨fun _ h => h, fun _ h _ => h⟩

theorem SetRestr.trans {S1 S2 : Id → Prop} {x y z : List Id} (hsub : ∀ a, S2 a → S1 a)
    (h1 : SetRestr S1 x y) (h2 : SetRestr S2 y z) : SetRestr S2 x z :=
  ⟨fun a h => h1.1 a (h2.1 a h), fun a ha hs => h2.2 a (h1.2 a ha (hsub a hs)) hs⟩

/-- when the new relation has no member outside `S` (no dangling reference afterwards) it is exactly `old ∩ S` -/
theorem SetRestr.iff {S : Id → Prop} {old new : List Id} (h : SetRestr S old new) (hnew : ∀ a ∈ new, S a) (a : Id) :
    a ∈ new ↔ a ∈ old ∧ S a :=
  ⟨fun ha => ⟨h.1 a ha, hnew a ha⟩, fun ha => h.2 a ha.1 ha.2⟩

theorem SetRestr.keepIn {S : Id → Prop} {P : Id → Bool} (hP : ∀ a, P a = true ↔ S a) (xs : List Id) :
    SetRestr S xs (keepIn P xs) :=
  ⟨fun _ h => (mem_keepIn.1 h).1, fun a ha hs => mem_keepIn.2 ⟨ha, (hP a).2 hs⟩⟩

theorem SetRestr.keepInL {S : Id → Prop} {P : Id → Bool} (hP : ∀ a, P a = true ↔ S a) (xs : List Id) :
    SetRestr S xs (keepInL P xs) :=
  ⟨fun _ h => (mem_keepInL.1 h).1, fun a ha hs => mem_keepInL.2 ⟨ha, (hP a).2 hs⟩⟩

theorem OptRestr.refl {S : Id → Prop} {o : Option Id} : OptRestr S o o := ⟨fun _ h => h, fun _ h _ => h⟩

theorem OptRestr.trans {S1 S2 : Id → Prop} {x y z : Option Id} (hsub : ∀ a, S2 a → S1 a)
    (h1 : OptRestr S1 x y) (h2 : OptRestr S2 y z) : OptRestr S2 x z :=
  ⟨fun a h => h1.1 a (h2.1 a h), fun a ha hs => h2.2 a (h1.2 a ha (hsub a hs)) hs⟩

theorem OptRestr.filter {S : Id → Prop} {P : Id → Bool} (hP : ∀ a, P a = true ↔ S a) (o : Option Id) :
    OptRestr S o (o.filter P) := by
  cases o with
  | none => exact OptRestr.refl
  | some b =>
    by_cases h : P b = true
    · have e1 : (some b).filter P = some b := by simp [Option.filter, h]
      rw [e1]; exact OptRestr.refl
    · have e1 : (some b).filter P = none := by simp [Option.filter, h]
      rw [e1]
      refine ⟨fun a e => (by cases e), fun a e hs => ?_⟩
      cases e
      exact absurd ((hP b).2 hs) h

theorem OptRestr.isSome {S : Id → Prop} {o o' : Option Id} (h : OptRestr S o o') (hs : o'.isSome = true) :
    o.isSome = true := by
  cases o' with
  | none => cases hs
  | some a => rw [h.1 a rfl]; rfl

theorem OptSetRestr.refl {S : Id → Prop} {o : Option (List Id)} : OptSetRestr S o o := by
  cases o with
  | none => trivial
  | some r => exact SetRestr.refl

theorem OptSetRestr.trans {S1 S2 : Id → Prop} {x y z : Option (List Id)} (hsub : ∀ a, S2 a → S1 a)
    (h1 : OptSetRestr S1 x y) (h2 : OptSetRestr S2 y z) : OptSetRestr S2 x z := by
  cases x <;> cases y <;> cases z <;> simp only [OptSetRestr] at h1 h2 ⊢
  exact SetRestr.trans hsub h1 h2

theorem OptSetRestr.map_keepIn {S : Id → Prop} {P : Id → Bool} (hP : ∀ a, P a = true ↔ S a) (o : Option (List Id)) :
    OptSetRestr S o (o.map (CR.Refs.keepIn P)) := by
  cases o with
  | none => trivial
  | some r => exact SetRestr.keepIn hP r

/-! ### stop lines -/

theorem StopFrame.refl {SS ST : Id → Prop} {x : Option StopLine} : StopFrame SS ST x x := by
  cases x with
  | none => trivial
  | some st => exact ⟨OptSetRestr.refl, OptSetRestr.refl⟩

theorem StopFrame.trans {S1 S2 T1 T2 : Id → Prop} {x y z : Option StopLine} (hs : ∀ a, S2 a → S1 a)
    (ht : ∀ a, T2 a → T1 a) (h1 : StopFrame S1 T1 x y) (h2 : StopFrame S2 T2 y z) : StopFrame S2 T2 x z := by
  cases x <;> cases y <;> cases z <;> simp only [StopFrame] at h1 h2 ⊢
  exact ⟨OptSetRestr.trans hs h1.1 h2.1, OptSetRestr.trans ht h1.2 h2.2⟩

theorem StopFrame.cleanS {SS ST : Id → Prop} {P : Id → Bool} (hP : ∀ a, P a = true ↔ SS a) (l : Lanelet) :
    StopFrame SS ST l.stop (l.cleanS P).stop := by
  unfold Lanelet.cleanS
  cases h : l.stop with
  | none => trivial
  | some st => exact ⟨OptSetRestr.map_keepIn hP _, OptSetRestr.refl⟩

theorem StopFrame.cleanT {SS ST : Id → Prop} {P : Id → Bool} (hP : ∀ a, P a = true ↔ ST a) (l : Lanelet) :
    StopFrame SS ST l.stop (l.cleanT P).stop := by
  unfold Lanelet.cleanT
  cases h : l.stop with
  | none => trivial
  | some st => exact ⟨OptSetRestr.refl, OptSetRestr.map_keepIn hP _⟩

/-! ### lanelets -/

theorem mem_lrefs {l : Lanelet} {a : Id} :
    a ∈ l.lrefs ↔ a ∈ l.pred ∨ a ∈ l.succ ∨ l.adjL = some a ∨ l.adjR = some a := by
  simp only [Lanelet.lrefs, List.mem_append, Option.mem_toList]
  constructor
  · rintro (((h | h) | h) | h)
    · exact Or.inl h
    · exact Or.inr (Or.inl h)
    · exact Or.inr (Or.inr (Or.inl h))
    · exact Or.inr (Or.inr (Or.inr h))
  · rintro (h | h | h | h)
    · exact Or.inl (Or.inl (Or.inl h))
    · exact Or.inl (Or.inl (Or.inr h))
    · exact Or.inl (Or.inr h)
    · exact Or.inr h

theorem LaneletFrame.refl {SL SS ST : Id → Prop} {l : Lanelet} : LaneletFrame SL SS ST l l where
  id := rfl
  content := rfl
  pred := SetRestr.refl
  succ := SetRestr.refl
  adjL := OptRestr.refl
  adjR := OptRestr.refl
  adjLSame := fun _ => rfl
  adjRSame := fun _ => rfl
  signs := SetRestr.refl
  lights := SetRestr.refl
  stop := StopFrame.refl

theorem LaneletFrame.trans {L1 S1 T1 L2 S2 T2 : Id → Prop} {x y z : Lanelet} (hl : ∀ a, L2 a → L1 a)
    (hs : ∀ a, S2 a → S1 a) (ht : ∀ a, T2 a → T1 a) (h1 : LaneletFrame L1 S1 T1 x y) (h2 : LaneletFrame L2 S2 T2 y z) :
    LaneletFrame L2 S2 T2 x z where
  id := h2.id.trans h1.id
  content := h2.content.trans h1.content
  pred := SetRestr.trans hl h1.pred h2.pred
  succ := SetRestr.trans hl h1.succ h2.succ
  adjL := OptRestr.trans hl h1.adjL h2.adjL
  adjR := OptRestr.trans hl h1.adjR h2.adjR
  adjLSame := fun h => (h2.adjLSame h).trans (h1.adjLSame (h2.adjL.isSome h))
  adjRSame := fun h => (h2.adjRSame h).trans (h1.adjRSame (h2.adjR.isSome h))
  signs := SetRestr.trans hs h1.signs h2.signs
  lights := SetRestr.trans ht h1.lights h2.lights
  stop := StopFrame.trans hs ht h1.stop h2.stop

theorem LaneletFrame.cleanL {SL SS ST : Id → Prop} {P : Id → Bool} (hP : ∀ a, P a = true ↔ SL a) (l : Lanelet) :
    LaneletFrame SL SS ST l (l.cleanL P) where
  id := rfl
  content := rfl
  pred := SetRestr.keepInL hP _
  succ := SetRestr.keepInL hP _
  adjL := OptRestr.filter hP _
  adjR := OptRestr.filter hP _
  adjLSame := fun h => by rw [Lanelet.cleanL_adjLSame]; rw [Lanelet.cleanL_adjL] at h; simp [h]
  adjRSame := fun h => by rw [Lanelet.cleanL_adjRSame]; rw [Lanelet.cleanL_adjR] at h; simp [h]
  signs := SetRestr.refl
  lights := SetRestr.refl
  stop := StopFrame.refl

theorem LaneletFrame.cleanS {SL SS ST : Id → Prop} {P : Id → Bool} (hP : ∀ a, P a = true ↔ SS a) (l : Lanelet) :
    LaneletFrame SL SS ST l (l.cleanS P) where
  id := rfl
  content := rfl
  pred := SetRestr.refl
  succ := SetRestr.refl
  adjL := OptRestr.refl
  adjR := OptRestr.refl
  adjLSame := fun _ => rfl
  adjRSame := fun _ => rfl
  signs := SetRestr.keepIn hP _
  lights := SetRestr.refl
  stop := StopFrame.cleanS hP l

theorem LaneletFrame.cleanT {SL SS ST : Id → Prop} {P : Id → Bool} (hP : ∀ a, P a = true ↔ ST a) (l : Lanelet) :
    LaneletFrame SL SS ST l (l.cleanT P) where
  id := rfl
  content := rfl
  pred := SetRestr.refl
  succ := SetRestr.refl
  adjL := OptRestr.refl
  adjR := OptRestr.refl
  adjLSame := fun _ => rfl
  adjRSame := fun _ => rfl
  signs := SetRestr.refl
  lights := SetRestr.keepIn hP _
  stop := StopFrame.cleanT hP l

/-! ### intersections -/

theorem IncFrame.refl {S : Id → Prop} {k : Incoming} : IncFrame S k k :=
  ⟨rfl, rfl, SetRestr.refl, SetRestr.refl, SetRestr.refl, SetRestr.refl⟩

theorem IncFrame.trans {S1 S2 : Id → Prop} {x y z : Incoming} (hsub : ∀ a, S2 a → S1 a) (h1 : IncFrame S1 x y)
    (h2 : IncFrame S2 y z) : IncFrame S2 x z where
  id := h2.id.trans h1.id
  leftOf := h2.leftOf.trans h1.leftOf
  inc := SetRestr.trans hsub h1.inc h2.inc
  right := SetRestr.trans hsub h1.right h2.right
  straight := SetRestr.trans hsub h1.straight h2.straight
  left := SetRestr.trans hsub h1.left h2.left

theorem IncFrame.cleanL {S : Id → Prop} {P : Id → Bool} (hP : ∀ a, P a = true ↔ S a) (k : Incoming) :
    IncFrame S k (k.cleanL P) where
  id := rfl
  leftOf := rfl
  inc := SetRestr.keepIn hP _
  right := SetRestr.keepIn hP _
  straight := SetRestr.keepIn hP _
  left := SetRestr.keepIn hP _

theorem IncFrame.cut {S : Id → Prop} {P : Id → Bool} (hP : ∀ a, P a = true ↔ S a) {k k' : Incoming}
    (h : k.cut P = some k') : IncFrame S k k' := by
  rw [Incoming.cut_some h]
  exact ⟨rfl, rfl, SetRestr.keepIn hP _, SetRestr.keepIn hP _, SetRestr.keepIn hP _, SetRestr.keepIn hP _⟩

theorem InterFrame.refl {S : Id → Prop} {i : Intersection} : InterFrame S i i :=
  ⟨rfl, SetRestr.refl, fun k hk => ⟨k, hk, IncFrame.refl⟩⟩

theorem InterFrame.trans {S1 S2 : Id → Prop} {x y z : Intersection} (hsub : ∀ a, S2 a → S1 a)
    (h1 : InterFrame S1 x y) (h2 : InterFrame S2 y z) : InterFrame S2 x z where
  id := h2.id.trans h1.id
  crossings := SetRestr.trans hsub h1.crossings h2.crossings
  incs := fun k'' hk'' => by
    obtain ⟨k', hk', f2⟩ := h2.incs k'' hk''
    obtain ⟨k, hk, f1⟩ := h1.incs k' hk'
    exact ⟨k, hk, IncFrame.trans hsub f1 f2⟩

theorem InterFrame.cleanL {S : Id → Prop} {P : Id → Bool} (hP : ∀ a, P a = true ↔ S a) (i : Intersection) :
    InterFrame S i (i.cleanL P) where
  id := rfl
  crossings := SetRestr.keepIn hP _
  incs := fun k' hk' => by
    simp only [Intersection.cleanL, List.mem_map] at hk'
    obtain ⟨k, hk, rfl⟩ := hk'
    exact ⟨k, hk, IncFrame.cleanL hP k⟩

theorem InterFrame.cut {S : Id → Prop} {P : Id → Bool} (hP : ∀ a, P a = true ↔ S a) {i i' : Intersection}
    (h : i.cut P = some i') : InterFrame S i i' := by
  rw [Intersection.cut_some h]
  refine ⟨rfl, SetRestr.keepIn hP _, fun k' hk' => ?_⟩
  simp only [List.mem_filterMap] at hk'
  obtain ⟨k, hk, hc⟩ := hk'
  exact ⟨k, hk, IncFrame.cut hP hc⟩

/-! ### networks -/

theorem Frame.refl {n : Net} : Frame n n where
  lsub := fun _ h => h
  ssub := fun _ h => h
  tsub := fun _ h => h
  lan := fun l hl => ⟨l, hl, LaneletFrame.refl⟩
  sign := fun _ h => h
  light := fun _ h => h
  inter := fun i hi => ⟨i, hi, InterFrame.refl⟩

theorem Frame.trans {a b c : Net} (h1 : Frame a b) (h2 : Frame b c) : Frame a c where
  lsub := fun x hx => h1.lsub x (h2.lsub x hx)
  ssub := fun x hx => h1.ssub x (h2.ssub x hx)
  tsub := fun x hx => h1.tsub x (h2.tsub x hx)
  lan := fun l'' hl'' => by
    obtain ⟨l', hl', f2⟩ := h2.lan l'' hl''
    obtain ⟨l, hl, f1⟩ := h1.lan l' hl'
    exact ⟨l, hl, LaneletFrame.trans h2.lsub h2.ssub h2.tsub f1 f2⟩
  sign := fun e he => h1.sign e (h2.sign e he)
  light := fun e he => h1.light e (h2.light e he)
  inter := fun i'' hi'' => by
    obtain ⟨i', hi', f2⟩ := h2.inter i'' hi''
    obtain ⟨i, hi, f1⟩ := h1.inter i' hi'
    exact ⟨i, hi, InterFrame.trans h2.lsub f1 f2⟩

/-! ### the frame of every network-level operation (no hypothesis on the network) -/

/-- `cleanup_lanelet_references` after the lanelets / signs / lights have been reduced and the intersections re-built. -/
theorem frame_cleanupLaneletRefs_of {n n1 : Net} (S0 : Id → Prop) (hS0 : ∀ a ∈ n1.lids, S0 a)
    (hl : ∀ l ∈ n1.lanelets, l ∈ n.lanelets) (hsg : ∀ e ∈ n1.signs, e ∈ n.signs) (htl : ∀ e ∈ n1.lights, e ∈ n.lights)
    (hi : ∀ i1 ∈ n1.inters, ∃ i ∈ n.inters, InterFrame S0 i i1) : Frame n n1.cleanupLaneletRefs := by
  have hP : ∀ a, (fun a => n1.lids.contains a) a = true ↔ a ∈ n1.cleanupLaneletRefs.lids := by
    intro a; rw [Net.cleanupLaneletRefs_lids]; simp
  refine ⟨?_, ?_, ?_, ?_, hsg, htl, ?_⟩
  · intro a ha
    rw [Net.cleanupLaneletRefs_lids] at ha
    obtain ⟨l, hl1, rfl⟩ := List.mem_map.1 ha
    exact List.mem_map.2 ⟨l, hl l hl1, rfl⟩
  · intro a ha
    obtain ⟨e, he, rfl⟩ := List.mem_map.1 ha
    exact List.mem_map.2 ⟨e, hsg e he, rfl⟩
  · intro a ha
    obtain ⟨e, he, rfl⟩ := List.mem_map.1 ha
    exact List.mem_map.2 ⟨e, htl e he, rfl⟩
  · intro l' hl'
    simp only [Net.cleanupLaneletRefs, List.mem_map] at hl'
    obtain ⟨l, hl1, rfl⟩ := hl'
    exact ⟨l, hl l hl1, LaneletFrame.cleanL hP l⟩
  · intro i' hi'
    simp only [Net.cleanupLaneletRefs, List.mem_map] at hi'
    obtain ⟨i1, hi1, rfl⟩ := hi'
    obtain ⟨i, hin, f⟩ := hi i1 hi1
    refine ⟨i, hin, InterFrame.trans ?_ f (InterFrame.cleanL hP i1)⟩
    intro a ha
    rw [Net.cleanupLaneletRefs_lids] at ha
    exact hS0 a ha

theorem frame_removeLanelet (n : Net) (x : Id) : Frame n (n.removeLanelet x) := by
  unfold Net.removeLanelet
  split
  · refine frame_cleanupLaneletRefs_of (· ∈ n.lids) ?_ (fun l hl => (List.mem_filter.1 hl).1) (fun _ h => h)
      (fun _ h => h) (fun i hi => ⟨i, hi, InterFrame.refl⟩)
    intro a ha
    obtain ⟨l, hl1, rfl⟩ := List.mem_map.1 ha
    exact List.mem_map.2 ⟨l, (List.mem_filter.1 hl1).1, rfl⟩
  · exact Frame.refl

theorem frame_removeSign (n : Net) (x : Id) : Frame n (n.removeSign x) := by
  unfold Net.removeSign
  split
  · have hP : ∀ a, (fun a => (({ n with signs := n.signs.filter (fun s => s.1 != x) } : Net).sids).contains a) a = true ↔
        a ∈ (({ n with signs := n.signs.filter (fun s => s.1 != x) } : Net).cleanupSignRefs).sids := by
      intro a; rw [Net.cleanupSignRefs_sids]; simp
    refine ⟨?_, ?_, fun _ h => h, ?_, fun e he => (List.mem_filter.1 he).1, fun _ h => h,
      fun i hi => ⟨i, hi, InterFrame.refl⟩⟩
    · intro a ha; rw [Net.cleanupSignRefs_lids] at ha; exact ha
    · intro a ha
      obtain ⟨e, he, rfl⟩ := List.mem_map.1 ha
      exact List.mem_map.2 ⟨e, (List.mem_filter.1 he).1, rfl⟩
    · intro l' hl'
      simp only [Net.cleanupSignRefs, List.mem_map] at hl'
      obtain ⟨l, hl1, rfl⟩ := hl'
      exact ⟨l, hl1, LaneletFrame.cleanS hP l⟩
  · exact Frame.refl

theorem frame_removeLight (n : Net) (x : Id) : Frame n (n.removeLight x) := by
  unfold Net.removeLight
  have hP : ∀ a, (fun a => (({ n with lights := n.lights.filter (fun s => s.1 != x) } : Net).tids).contains a) a = true ↔
      a ∈ (({ n with lights := n.lights.filter (fun s => s.1 != x) } : Net).cleanupLightRefs).tids := by
    intro a; rw [Net.cleanupLightRefs_tids]; simp
  refine ⟨?_, fun _ h => h, ?_, ?_, fun _ h => h, fun e he => (List.mem_filter.1 he).1,
    fun i hi => ⟨i, hi, InterFrame.refl⟩⟩
  · intro a ha; rw [Net.cleanupLightRefs_lids] at ha; exact ha
  · intro a ha
    obtain ⟨e, he, rfl⟩ := List.mem_map.1 ha
    exact List.mem_map.2 ⟨e, (List.mem_filter.1 he).1, rfl⟩
  · intro l' hl'
    simp only [Net.cleanupLightRefs, List.mem_map] at hl'
    obtain ⟨l, hl1, rfl⟩ := hl'
    exact ⟨l, hl1, LaneletFrame.cleanT hP l⟩

theorem frame_removeInter (n : Net) (x : Id) : Frame n (n.removeInter x) :=
  ⟨fun _ h => h, fun _ h => h, fun _ h => h, fun l hl => ⟨l, hl, LaneletFrame.refl⟩, fun _ h => h, fun _ h => h,
    fun i hi => ⟨i, (List.mem_filter.1 hi).1, InterFrame.refl⟩⟩

theorem frame_cutOut {n n' : Net} {keep : Id → Bool} (h : n.cutOut keep true = .ok n') : Frame n n' := by
  obtain ⟨_, _, rfl⟩ := cutOut_ok h
  simp only [if_true]
  refine frame_cleanupLaneletRefs_of (· ∈ (n.cutBase keep).lids) (fun _ h => h)
    (fun l hl => (List.mem_filter.1 hl).1) (fun e he => (List.mem_filter.1 he).1) (fun e he => (List.mem_filter.1 he).1) ?_
  intro i1 hi1
  simp only [Net.cutBase, List.mem_filterMap] at hi1
  obtain ⟨i, hi, hc⟩ := hi1
  refine ⟨i, hi, InterFrame.cut ?_ hc⟩
  intro a
  simp [Net.cutBase, Net.lids]

/-- `create_from_lanelet_list(…, cleanup_ids=True)` written out -/
theorem fromList_true_eq (n : Net) (sel : List Id) :
    n.fromList sel true =
      { lanelets := (addLanelets [] (sel.filterMap n.findLanelet)).map (fun l =>
          ((l.cleanL (fun a => ((addLanelets [] (sel.filterMap n.findLanelet)).map (·.id)).contains a)).cleanT
            (fun a => ([] : List Id).contains a)).cleanS (fun a => ([] : List Id).contains a))
        signs := [], lights := [], inters := [] } := by
  simp [Net.fromList, Net.cleanupSignRefs, Net.cleanupLightRefs, Net.cleanupLaneletRefs, Net.lids, Net.sids, Net.tids,
    List.map_map, Function.comp_def]

theorem frame_fromList (n : Net) (sel : List Id) : Frame n (n.fromList sel true) := by
  rw [fromList_true_eq]
  generalize hb : addLanelets [] (sel.filterMap n.findLanelet) = base
  have hbase : ∀ l ∈ base, l ∈ n.lanelets := fun l hl => (fromList_base_mem (hb ▸ hl)).1
  have hlids : ∀ (f : Lanelet → Lanelet), (∀ l, (f l).id = l.id) →
      (({ lanelets := base.map f, signs := [], lights := [], inters := [] } : Net).lids) = base.map (·.id) := by
    intro f hf; simp [Net.lids, List.map_map, Function.comp_def, hf]
  refine ⟨?_, ?_, ?_, ?_, ?_, ?_, ?_⟩
  · intro a ha
    rw [hlids (fun l => Lanelet.cleanS _ (Lanelet.cleanT _ (Lanelet.cleanL _ l))) (fun l => rfl)] at ha
    obtain ⟨l, hl, rfl⟩ := List.mem_map.1 ha
    exact List.mem_map.2 ⟨l, hbase l hl, rfl⟩
  · intro a ha; cases ha
  · intro a ha; cases ha
  · intro l' hl'
    obtain ⟨l, hl, rfl⟩ := List.mem_map.1 hl'
    refine ⟨l, hbase l hl, ?_⟩
    rw [hlids (fun l => Lanelet.cleanS _ (Lanelet.cleanT _ (Lanelet.cleanL _ l))) (fun l => rfl)]
    have f1 : LaneletFrame (· ∈ base.map (·.id)) (· ∈ ([] : List Id)) (· ∈ ([] : List Id)) l
        (l.cleanL fun a => (base.map (·.id)).contains a) := LaneletFrame.cleanL (by intro a; simp) l
    have f2 : LaneletFrame (· ∈ base.map (·.id)) (· ∈ ([] : List Id)) (· ∈ ([] : List Id))
        (l.cleanL fun a => (base.map (·.id)).contains a)
        ((l.cleanL fun a => (base.map (·.id)).contains a).cleanT fun a => ([] : List Id).contains a) :=
      LaneletFrame.cleanT (by intro a; simp) _
    have f3 : LaneletFrame (· ∈ base.map (·.id)) (· ∈ ([] : List Id)) (· ∈ ([] : List Id))
        ((l.cleanL fun a => (base.map (·.id)).contains a).cleanT fun a => ([] : List Id).contains a)
        (((l.cleanL fun a => (base.map (·.id)).contains a).cleanT fun a => ([] : List Id).contains a).cleanS
          fun a => ([] : List Id).contains a) :=
      LaneletFrame.cleanS (by intro a; simp) _
    exact LaneletFrame.trans (fun _ h => h) (fun _ h => h) (fun _ h => h)
      (LaneletFrame.trans (fun _ h => h) (fun _ h => h) (fun _ h => h) f1 f2) f3
  · intro e he; cases he
  · intro e he; cases he
  · intro i hi; cases hi

end CR.Refs
