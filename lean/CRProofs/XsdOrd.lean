/-
  CRProofs.XsdOrd — C03, element order: "the emitted child-name sequence matches the content model of the complex type" (`Ok`),
  shared by CRProofs.XsdOrd1..3 and CRProps/C03.lean.
-/
import CRProofs.Xsd
import CRModel.CRXmlWOk
import Gen.XsdScenario

namespace CR.C03
open CR.Xsd CR.XmlNum CR.XmlW

def Ok (type : String) (kids : List String) : Prop := (matchGroup (schema.content type) kids).isSome = true

instance (type : String) (kids : List String) : Decidable (Ok type kids) :=
  inferInstanceAs (Decidable ((matchGroup (schema.content type) kids).isSome = true))

macro "kids_eq" defs:Lean.Parser.Tactic.simpLemma,* : tactic =>
  `(tactic| (simp only [$defs,*, blocksN, CR.XmlW.rep, CR.XmlW.opt, List.map, Cnt.val] <;> (try split) <;> simp))

end CR.C03
