import CRModel.Geom
import Mathlib.Tactic.Ring
import Mathlib.Tactic.Tauto
import Mathlib.Tactic.Linarith
import Mathlib.Tactic.LinearCombination
import Mathlib.Algebra.Order.Field.Rat
import Mathlib.Algebra.Order.Group.MinMax

/-!
  Helper lemmas for C06 (geometry part): algebra of the exact predicates of `CR.Geom`.
-/
namespace CR.Geom

/-! ### disc -/

theorem inDisc_iff (c : Pt) (r : Rat) (p : Pt) : inDisc c r p = true ↔ 0 ≤ r ∧ d2 p c ≤ r * r := by
  simp [inDisc]

/-- The code compares `r >= ‖p - c‖`; for ANY value `nrm ≥ 0` with `nrm² = |p - c|²` this is the squared test. -/
theorem inDisc_norm (c : Pt) (r : Rat) (p : Pt) (nrm : Rat) (h0 : 0 ≤ nrm) (hn : nrm * nrm = d2 p c) :
    inDisc c r p = true ↔ nrm ≤ r := by
  rw [inDisc_iff, ← hn]
  constructor
  · rintro ⟨hr, h⟩
    by_contra hc
    have : r * r < nrm * nrm := mul_self_lt_mul_self hr (not_le.mp hc)
    linarith
  · intro h
    exact ⟨le_trans h0 h, mul_self_le_mul_self h0 h⟩

/-! ### translation -/

theorem d2_add (p c t : Pt) : d2 (p.add t) (c.add t) = d2 p c := by
  simp only [d2, Pt.add]; ring

theorem cross_add (a b p t : Pt) : cross (a.add t) (b.add t) (p.add t) = cross a b p := by
  simp only [cross, Pt.add]; ring

theorem inDisc_add (c : Pt) (r : Rat) (p t : Pt) : inDisc (c.add t) r (p.add t) = inDisc c r p := by
  simp only [inDisc, d2_add]

theorem onSeg_add (a b p t : Pt) : onSeg (a.add t) (b.add t) (p.add t) = onSeg a b p := by
  simp only [onSeg, cross_add]
  simp only [Pt.add, min_add_add_right, max_add_add_right, add_le_add_iff_right]

theorem rayCross_add (a b p t : Pt) : rayCross (a.add t) (b.add t) (p.add t) = rayCross a b p := by
  simp only [rayCross, Pt.add, add_lt_add_iff_right, add_sub_add_right_eq_sub]

theorem edges_map (f : Pt → Pt) (vs : List Pt) : edges (vs.map f) = (edges vs).map (fun e => (f e.1, f e.2)) := by
  cases vs with
  | nil => rfl
  | cons v vs =>
    simp only [edges, List.map_cons]
    rw [show vs.map f ++ [f v] = (vs ++ [v]).map f by simp, ← List.map_cons, List.zip_map]
    simp [Prod.map]

theorem inRing_add (vs : List Pt) (p t : Pt) : inRing (vs.map (·.add t)) (p.add t) = inRing vs p := by
  simp only [inRing, crossings, edges_map, List.any_map, List.filter_map, List.length_map, Function.comp_def,
    onSeg_add, rayCross_add]

theorem inBBox_add (vs : List Pt) (p t : Pt) : inBBox (vs.map (·.add t)) (p.add t) = inBBox vs p := by
  simp only [inBBox, List.any_map, Function.comp_def, Pt.add, add_le_add_iff_right]

theorem polyContains_add (vs : List Pt) (p t : Pt) :
    polyContains (vs.map (·.add t)) (p.add t) = polyContains vs p := by
  simp only [polyContains, inRing_add, inBBox_add]

theorem place_add (ctr t : Pt) (c s : Rat) (v : Pt) : place (ctr.add t) c s v = (place ctr c s v).add t := by
  simp only [place, Pt.add, Pt.mk.injEq]; constructor <;> ring

theorem rectVerts_add (l w : Rat) (ctr t : Pt) (c s : Rat) :
    rectVerts l w (ctr.add t) c s = (rectVerts l w ctr c s).map (·.add t) := by
  simp only [rectVerts, place_add, List.map_cons, List.map_nil]

theorem rectContains_add (l w : Rat) (ctr t : Pt) (c s : Rat) (p : Pt) :
    rectContains l w (ctr.add t) c s (p.add t) = rectContains l w ctr c s p := by
  simp only [rectContains, rectVerts_add, inRing_add]

theorem inBox_add (l w : Rat) (ctr t : Pt) (c s : Rat) (p : Pt) :
    inBox l w (ctr.add t) c s (p.add t) = inBox l w ctr c s p := by
  simp only [inBox, Pt.add, add_sub_add_right_eq_sub]

theorem prim_contains_translate (s : Prim) (t p : Pt) : (s.translate t).contains (p.add t) = s.contains p := by
  cases s with
  | rect l w ctr c s => exact rectContains_add l w ctr t c s p
  | circ r ctr => exact inDisc_add ctr r p t
  | poly vs => exact polyContains_add vs p t

/-! ### box = quad -/

section box
variable (l w : Rat) (ctr : Pt) (c s : Rat) (p : Pt)

theorem cross_q0q1 (h : c * c + s * s = 1) :
    cross (place ctr c s ⟨-(l / 2), -(w / 2)⟩) (place ctr c s ⟨-(l / 2), w / 2⟩) p
      = -w * ((c * (p.x - ctr.x) + s * (p.y - ctr.y)) + l / 2) := by
  simp only [cross, place]; linear_combination (-(w * l / 2)) * h

theorem cross_q1q2 (h : c * c + s * s = 1) :
    cross (place ctr c s ⟨-(l / 2), w / 2⟩) (place ctr c s ⟨l / 2, w / 2⟩) p
      = l * ((-(s * (p.x - ctr.x)) + c * (p.y - ctr.y)) - w / 2) := by
  simp only [cross, place]; linear_combination (-(w * l / 2)) * h

theorem cross_q2q3 (h : c * c + s * s = 1) :
    cross (place ctr c s ⟨l / 2, w / 2⟩) (place ctr c s ⟨l / 2, -(w / 2)⟩) p
      = w * ((c * (p.x - ctr.x) + s * (p.y - ctr.y)) - l / 2) := by
  simp only [cross, place]; linear_combination (-(w * l / 2)) * h

theorem cross_q3q0 (h : c * c + s * s = 1) :
    cross (place ctr c s ⟨l / 2, -(w / 2)⟩) (place ctr c s ⟨-(l / 2), -(w / 2)⟩) p
      = -l * ((-(s * (p.x - ctr.x)) + c * (p.y - ctr.y)) + w / 2) := by
  simp only [cross, place]; linear_combination (-(w * l / 2)) * h

end box

theorem neg_mul_nonpos_iff {a x : Rat} (ha : 0 < a) : -a * x ≤ 0 ↔ 0 ≤ x := by
  constructor
  · intro h; by_contra hc; have := mul_pos ha (neg_pos.mpr (not_le.mp hc)); nlinarith
  · intro h; have := mul_nonneg ha.le h; linarith

theorem mul_nonpos_iff_right {a x : Rat} (ha : 0 < a) : a * x ≤ 0 ↔ x ≤ 0 := by
  constructor
  · intro h; by_contra hc; have := mul_pos ha (not_le.mp hc); linarith
  · intro h; have := mul_nonneg ha.le (neg_nonneg.mpr h); linarith

/-! ### parity of sign changes around a closed ring -/

/-- Number of changes of `f` along the path `a, l₀, l₁, …`. -/
def flips {α} (f : α → Bool) : α → List α → Nat
  | _, [] => 0
  | a, b :: rest => (if f a != f b then 1 else 0) + flips f b rest

theorem flips_parity {α} (f : α → Bool) : ∀ (l : List α) (a z : α),
    flips f a (l ++ [z]) % 2 = if f a != f z then 1 else 0 := by
  intro l
  induction l with
  | nil => intro a z; simp only [List.nil_append, flips]; split <;> rfl
  | cons b l ih =>
    intro a z
    simp only [List.cons_append, flips]
    have := ih b z
    cases hfa : f a <;> cases hfb : f b <;> cases hfz : f z <;> simp [hfb, hfz] at this ⊢ <;> omega

theorem filter_zip_flips {α} (f : α → Bool) : ∀ (l : List α) (a z : α),
    (((a :: l).zip (l ++ [z])).filter (fun e => f e.1 != f e.2)).length = flips f a (l ++ [z]) := by
  intro l
  induction l with
  | nil => intro a z; simp only [List.nil_append, List.zip_cons_cons, List.zip_nil_right, flips]
           by_cases h : (f a != f z) = true <;> simp [List.filter, h]
  | cons b l ih =>
    intro a z
    simp only [List.cons_append, List.zip_cons_cons, flips]
    rw [List.filter_cons]
    have := ih b z
    by_cases h : (f a != f b) = true
    · simp only [h, if_true, List.length_cons]; rw [this]; omega
    · simp only [h, Bool.false_eq_true, if_false]; rw [this]; simp

/-- Around a closed ring the number of edges whose end points lie on different sides is even. -/
theorem straddle_even (f : Pt → Bool) (vs : List Pt) :
    ((edges vs).filter (fun e => f e.1 != f e.2)).length % 2 = 0 := by
  cases vs with
  | nil => rfl
  | cons v vs =>
    simp only [edges]
    rw [filter_zip_flips, flips_parity]
    simp

theorem mem_edges {vs : List Pt} {e : Pt × Pt} (h : e ∈ edges vs) : e.1 ∈ vs ∧ e.2 ∈ vs := by
  cases vs with
  | nil => cases h
  | cons v vs =>
    simp only [edges] at h
    have := List.of_mem_zip (a := e.1) (b := e.2) h
    refine ⟨this.1, ?_⟩
    rcases List.mem_append.mp this.2 with h2 | h2
    · exact List.mem_cons_of_mem _ h2
    · simp at h2; rw [h2]; exact List.mem_cons_self

/-! ### the bounding-box prefilter of `Polygon.contains_point` never changes the answer -/

theorem rayCross_of_not_straddle {a b p : Pt} (h : (decide (p.y < a.y) != decide (p.y < b.y)) = false) :
    rayCross a b p = false := by
  unfold rayCross; rw [h]; rfl

/-- Both end points strictly left of `p`: the ray towards `+x` cannot meet the edge. -/
theorem rayCross_false_of_left {a b p : Pt} (ha : a.x < p.x) (hb : b.x < p.x) : rayCross a b p = false := by
  unfold rayCross
  by_cases h1 : p.y < a.y <;> by_cases h2 : p.y < b.y
  · simp [h1, h2]
  · have hab : ¬ a.y < b.y := by linarith
    simp only [h1, h2, decide_true, decide_false, hab, if_false, Bool.and_eq_false_imp, decide_eq_false_iff_not]
    intro _
    have e1 : 0 < a.y - p.y := by linarith
    have e2 : 0 ≤ p.y - b.y := by linarith
    nlinarith [mul_pos e1 (sub_pos.mpr hb), mul_nonneg e2 (sub_pos.mpr ha).le]
  · have hab : a.y < b.y := by linarith
    simp only [h1, h2, decide_true, decide_false, hab, if_true, Bool.and_eq_false_imp, decide_eq_false_iff_not]
    intro _
    have e1 : 0 ≤ p.y - a.y := by linarith
    have e2 : 0 < b.y - p.y := by linarith
    nlinarith [mul_nonneg e1 (sub_pos.mpr hb).le, mul_pos e2 (sub_pos.mpr ha)]
  · simp [h1, h2]

/-- Both end points strictly right of `p`: the ray meets the edge exactly when the end points straddle its line. -/
theorem rayCross_of_right {a b p : Pt} (ha : p.x < a.x) (hb : p.x < b.x) :
    rayCross a b p = (decide (p.y < a.y) != decide (p.y < b.y)) := by
  unfold rayCross
  by_cases h1 : p.y < a.y <;> by_cases h2 : p.y < b.y
  · simp [h1, h2]
  · have hab : ¬ a.y < b.y := by linarith
    simp only [h1, h2, decide_true, decide_false, hab, if_false, Bool.true_and, Bool.true_bne, Bool.not_false,
      decide_eq_true_eq]
    have e1 : 0 < a.y - p.y := by linarith
    have e2 : 0 ≤ p.y - b.y := by linarith
    nlinarith [mul_pos e1 (sub_pos.mpr hb), mul_nonneg e2 (sub_pos.mpr ha).le]
  · have hab : a.y < b.y := by linarith
    simp only [h1, h2, decide_true, decide_false, hab, if_true, Bool.true_and, Bool.false_bne,
      decide_eq_true_eq]
    have e1 : 0 ≤ p.y - a.y := by linarith
    have e2 : 0 < b.y - p.y := by linarith
    nlinarith [mul_nonneg e1 (sub_pos.mpr hb).le, mul_pos e2 (sub_pos.mpr ha)]
  · simp [h1, h2]

theorem crossings_zero_of_all {vs : List Pt} {p : Pt} (h : ∀ e ∈ edges vs, rayCross e.1 e.2 p = false) :
    crossings vs p = 0 := by
  unfold crossings
  rw [List.length_eq_zero_iff, List.filter_eq_nil_iff]
  intro e he; rw [h e he]; simp

/-- Outside the bounding box of the vertices the crossing number is even. -/
theorem crossings_even_outside (vs : List Pt) (p : Pt) (h : inBBox vs p = false) : crossings vs p % 2 = 0 := by
  simp only [inBBox, Bool.and_eq_false_iff, List.any_eq_false, decide_eq_true_eq] at h
  rcases h with ((h | h) | h) | h
  · -- every vertex strictly right of p: crossings = straddling edges
    have : crossings vs p = ((edges vs).filter (fun e => decide (p.y < e.1.y) != decide (p.y < e.2.y))).length := by
      unfold crossings
      congr 1
      apply List.filter_congr
      intro e he
      have := mem_edges he
      exact rayCross_of_right (not_le.mp (h _ this.1)) (not_le.mp (h _ this.2))
    rw [this]
    exact straddle_even (fun v => decide (p.y < v.y)) vs
  · rw [crossings_zero_of_all (fun e he => rayCross_false_of_left (not_le.mp (h _ (mem_edges he).1))
      (not_le.mp (h _ (mem_edges he).2)))]
  · -- every vertex strictly above p
    rw [crossings_zero_of_all (fun e he => rayCross_of_not_straddle (by
      have h1 := not_le.mp (h _ (mem_edges he).1); have h2 := not_le.mp (h _ (mem_edges he).2); simp [h1, h2]))]
  · -- every vertex strictly below p
    rw [crossings_zero_of_all (fun e he => rayCross_of_not_straddle (by
      have h1 := not_le.mp (h _ (mem_edges he).1); have h2 := not_le.mp (h _ (mem_edges he).2)
      simp [not_lt.mpr h1.le, not_lt.mpr h2.le]))]

/-- A point on an edge lies in the bounding box of the vertices. -/
theorem inBBox_of_onSeg {vs : List Pt} {p : Pt} {e : Pt × Pt} (he : e ∈ edges vs) (h : onSeg e.1 e.2 p = true) :
    inBBox vs p = true := by
  have hm := mem_edges he
  simp only [onSeg, Bool.and_eq_true, decide_eq_true_eq] at h
  obtain ⟨⟨⟨⟨_, h1⟩, h2⟩, h3⟩, h4⟩ := h
  simp only [inBBox, Bool.and_eq_true, List.any_eq_true, decide_eq_true_eq]
  refine ⟨⟨⟨?_, ?_⟩, ?_⟩, ?_⟩
  · rcases min_le_iff.mp h1 with h | h
    · exact ⟨_, hm.1, h⟩
    · exact ⟨_, hm.2, h⟩
  · rcases le_max_iff.mp h2 with h | h
    · exact ⟨_, hm.1, h⟩
    · exact ⟨_, hm.2, h⟩
  · rcases min_le_iff.mp h3 with h | h
    · exact ⟨_, hm.1, h⟩
    · exact ⟨_, hm.2, h⟩
  · rcases le_max_iff.mp h4 with h | h
    · exact ⟨_, hm.1, h⟩
    · exact ⟨_, hm.2, h⟩

theorem inBBox_of_inRing {vs : List Pt} {p : Pt} (h : inRing vs p = true) : inBBox vs p = true := by
  simp only [inRing, Bool.or_eq_true, List.any_eq_true, beq_iff_eq] at h
  rcases h with ⟨e, he, hs⟩ | h
  · exact inBBox_of_onSeg he hs
  · by_contra hc
    have := crossings_even_outside vs p (by simpa using hc)
    omega

/-! ### axis-parallel rectangles: ring test = box -/

section axis
set_option linter.unusedSectionVars false
variable (a b : Rat) (ha : 0 < a) (hb : 0 < b) (p : Pt)
include ha hb

theorem ray_left : rayCross ⟨-a, -b⟩ ⟨-a, b⟩ p = true ↔ (-b ≤ p.y ∧ p.y < b ∧ p.x < -a) := by
  have hbb : -b < b := by linarith
  simp only [rayCross, if_pos hbb, Bool.and_eq_true, bne_iff_ne, ne_eq, decide_eq_decide, decide_eq_true_eq]
  have e : (-a - -a : Rat) = 0 := by ring
  rw [e, mul_zero]
  constructor
  · rintro ⟨h1, h2⟩
    have h3 : p.x - -a < 0 := by
      by_contra hc; have := mul_nonneg (not_lt.mp hc) (by linarith : (0:Rat) ≤ b - -b); linarith
    refine ⟨?_, ?_, by linarith⟩
    · by_contra hc; exact h1 ⟨fun _ => by linarith, fun _ => not_le.mp hc⟩
    · by_contra hc; exact h1 ⟨fun h => absurd h (by linarith), fun h => absurd h hc⟩
  · rintro ⟨h1, h2, h3⟩
    refine ⟨fun h => ?_, ?_⟩
    · have := h.mpr h2; linarith
    · have := mul_pos (by linarith : (0:Rat) < -a - p.x) (by linarith : (0:Rat) < b - -b); nlinarith

theorem ray_right : rayCross ⟨a, b⟩ ⟨a, -b⟩ p = true ↔ (-b ≤ p.y ∧ p.y < b ∧ p.x < a) := by
  have hbb : ¬ b < -b := by linarith
  simp only [rayCross, if_neg hbb, Bool.and_eq_true, bne_iff_ne, ne_eq, decide_eq_decide, decide_eq_true_eq]
  have e : (a - a : Rat) = 0 := by ring
  rw [e, mul_zero]
  constructor
  · rintro ⟨h1, h2⟩
    have h3 : p.x - a < 0 := by
      by_contra hc; have := mul_nonneg (not_lt.mp hc) (by linarith : (0:Rat) ≤ b - -b); nlinarith
    refine ⟨?_, ?_, by linarith⟩
    · by_contra hc; exact h1 ⟨fun _ => not_le.mp hc, fun _ => by linarith⟩
    · by_contra hc; exact h1 ⟨fun h => absurd h hc, fun h => absurd h (by linarith)⟩
  · rintro ⟨h1, h2, h3⟩
    refine ⟨fun h => ?_, ?_⟩
    · have := h.mp h2; linarith
    · have := mul_pos (by linarith : (0:Rat) < a - p.x) (by linarith : (0:Rat) < b - -b); nlinarith

omit ha hb in
theorem ray_flat (x1 x2 y : Rat) : rayCross ⟨x1, y⟩ ⟨x2, y⟩ p = false := by
  simp [rayCross]

theorem seg_left : onSeg ⟨-a, -b⟩ ⟨-a, b⟩ p = true ↔ (p.x = -a ∧ -b ≤ p.y ∧ p.y ≤ b) := by
  simp only [onSeg, Bool.and_eq_true, decide_eq_true_eq, min_self, max_self,
    min_eq_left (by linarith : -b ≤ b), max_eq_right (by linarith : -b ≤ b)]
  constructor
  · rintro ⟨⟨⟨⟨_, h2⟩, h3⟩, h4⟩, h5⟩; exact ⟨le_antisymm h3 h2, h4, h5⟩
  · rintro ⟨h1, h2, h3⟩; refine ⟨⟨⟨⟨?_, h1.ge⟩, h1.le⟩, h2⟩, h3⟩; simp only [cross, h1]; ring

theorem seg_right : onSeg ⟨a, b⟩ ⟨a, -b⟩ p = true ↔ (p.x = a ∧ -b ≤ p.y ∧ p.y ≤ b) := by
  simp only [onSeg, Bool.and_eq_true, decide_eq_true_eq, min_self, max_self,
    min_eq_right (by linarith : -b ≤ b), max_eq_left (by linarith : -b ≤ b)]
  constructor
  · rintro ⟨⟨⟨⟨_, h2⟩, h3⟩, h4⟩, h5⟩; exact ⟨le_antisymm h3 h2, h4, h5⟩
  · rintro ⟨h1, h2, h3⟩; refine ⟨⟨⟨⟨?_, h1.ge⟩, h1.le⟩, h2⟩, h3⟩; simp only [cross, h1]; ring

theorem seg_top : onSeg ⟨-a, b⟩ ⟨a, b⟩ p = true ↔ (p.y = b ∧ -a ≤ p.x ∧ p.x ≤ a) := by
  simp only [onSeg, Bool.and_eq_true, decide_eq_true_eq, min_self, max_self,
    min_eq_left (by linarith : -a ≤ a), max_eq_right (by linarith : -a ≤ a)]
  constructor
  · rintro ⟨⟨⟨⟨_, h2⟩, h3⟩, h4⟩, h5⟩; exact ⟨le_antisymm h5 h4, h2, h3⟩
  · rintro ⟨h1, h2, h3⟩; refine ⟨⟨⟨⟨?_, h2⟩, h3⟩, h1.ge⟩, h1.le⟩; simp only [cross, h1]; ring

theorem seg_bottom : onSeg ⟨a, -b⟩ ⟨-a, -b⟩ p = true ↔ (p.y = -b ∧ -a ≤ p.x ∧ p.x ≤ a) := by
  simp only [onSeg, Bool.and_eq_true, decide_eq_true_eq, min_self, max_self,
    min_eq_right (by linarith : -a ≤ a), max_eq_left (by linarith : -a ≤ a)]
  constructor
  · rintro ⟨⟨⟨⟨_, h2⟩, h3⟩, h4⟩, h5⟩; exact ⟨le_antisymm h5 h4, h2, h3⟩
  · rintro ⟨h1, h2, h3⟩; refine ⟨⟨⟨⟨?_, h2⟩, h3⟩, h1.ge⟩, h1.le⟩; simp only [cross, h1]; ring

omit ha hb in
theorem seg_point (v : Pt) : onSeg v v p = true ↔ (p.x = v.x ∧ p.y = v.y) := by
  simp only [onSeg, Bool.and_eq_true, decide_eq_true_eq, min_self, max_self]
  constructor
  · rintro ⟨⟨⟨⟨_, h2⟩, h3⟩, h4⟩, h5⟩; exact ⟨le_antisymm h3 h2, le_antisymm h5 h4⟩
  · rintro ⟨h1, h2⟩; refine ⟨⟨⟨⟨?_, h1.ge⟩, h1.le⟩, h2.ge⟩, h2.le⟩; simp only [cross, h1, h2]; ring

/-- Axis-parallel rectangle centred at the origin: the ring test of the exported vertices is the box. -/
theorem rect_axis_origin :
    inRing [⟨-a, -b⟩, ⟨-a, b⟩, ⟨a, b⟩, ⟨a, -b⟩, ⟨-a, -b⟩] p = true
      ↔ (-a ≤ p.x ∧ p.x ≤ a ∧ -b ≤ p.y ∧ p.y ≤ b) := by
  have c1 := ray_left a b ha hb p
  have c2 := ray_right a b ha hb p
  have s1 := seg_left a b ha hb p
  have s2 := seg_top a b ha hb p
  have s3 := seg_right a b ha hb p
  have s4 := seg_bottom a b ha hb p
  have s5 := seg_point p ⟨-a, -b⟩
  simp only [inRing, crossings, edges, List.cons_append, List.nil_append, List.zip_cons_cons, List.zip_nil_right,
    List.any_cons, List.any_nil, Bool.or_false, List.filter_cons, List.filter_nil, ray_flat, Bool.false_eq_true, if_false,
    Bool.or_eq_true, beq_iff_eq]
  rw [s1, s2, s3, s4, s5]
  generalize rayCross ⟨-a, -b⟩ ⟨-a, b⟩ p = r1 at c1 ⊢
  generalize rayCross ⟨a, b⟩ ⟨a, -b⟩ p = r2 at c2 ⊢
  cases r1 <;> cases r2 <;> simp only [Bool.false_eq_true, if_false, if_true, List.length_cons, List.length_nil] at c1 c2 ⊢
  · constructor
    · rintro ((⟨h1, h2, h3⟩ | ⟨h1, h2, h3⟩ | ⟨h1, h2, h3⟩ | ⟨h1, h2, h3⟩ | ⟨h1, h2⟩) | h)
      · exact ⟨by linarith, by linarith, by linarith, by linarith⟩
      · exact ⟨by linarith, by linarith, by linarith, by linarith⟩
      · exact ⟨by linarith, by linarith, by linarith, by linarith⟩
      · exact ⟨by linarith, by linarith, by linarith, by linarith⟩
      · exact ⟨by linarith, by linarith, by linarith, by linarith⟩
      · exact absurd h (by decide)
    · rintro ⟨h1, h2, h3, h4⟩
      left
      by_cases hy : p.y < b
      · have hx : ¬ p.x < a := fun hx => c2.mpr ⟨h3, hy, hx⟩
        exact Or.inr (Or.inr (Or.inl ⟨le_antisymm h2 (not_lt.mp hx), h3, h4⟩))
      · exact Or.inr (Or.inl ⟨le_antisymm h4 (not_lt.mp hy), h1, h2⟩)
  · obtain ⟨k1, k2, k3⟩ := c2.mp trivial
    have hx : ¬ p.x < -a := fun hx => c1.mpr ⟨k1, k2, hx⟩
    exact ⟨fun _ => ⟨not_lt.mp hx, k3.le, k1, k2.le⟩, fun _ => Or.inr trivial⟩
  · obtain ⟨k1, k2, k3⟩ := c1.mp trivial
    exact (c2.mpr ⟨k1, k2, by linarith⟩).elim
  · obtain ⟨k1, k2, k3⟩ := c1.mp trivial
    constructor
    · rintro ((⟨h1, h2, h3⟩ | ⟨h1, h2, h3⟩ | ⟨h1, h2, h3⟩ | ⟨h1, h2, h3⟩ | ⟨h1, h2⟩) | h)
      · exfalso; linarith
      · exfalso; linarith
      · exfalso; linarith
      · exfalso; linarith
      · exfalso; linarith
      · exact absurd h (by decide)
    · rintro ⟨h1, _, _, _⟩; exfalso; linarith

end axis

/-- Axis-parallel rectangle (orientation 0, i.e. `(c, s) = (1, 0)`) anywhere: the crossing-number test of the ring
    it exports is the `l`-by-`w` box around its centre. -/
theorem rect_axis (l w : Rat) (hl : 0 < l) (hw : 0 < w) (ctr p : Pt) :
    rectContains l w ctr 1 0 p = inBox l w ctr 1 0 p := by
  have hv : rectVerts l w ctr 1 0 =
      ([⟨-(l / 2), -(w / 2)⟩, ⟨-(l / 2), w / 2⟩, ⟨l / 2, w / 2⟩, ⟨l / 2, -(w / 2)⟩, ⟨-(l / 2), -(w / 2)⟩] : List Pt).map
        (·.add ctr) := by
    simp only [rectVerts, place, Pt.add, List.map_cons, List.map_nil, one_mul, zero_mul, sub_zero, zero_add]
    simp only [add_comm]
  have hp : p = (⟨p.x - ctr.x, p.y - ctr.y⟩ : Pt).add ctr := by
    cases p; simp [Pt.add]
  unfold rectContains
  rw [hv]
  conv_lhs => rw [hp]
  rw [inRing_add, Bool.eq_iff_iff, rect_axis_origin _ _ (by linarith : (0:Rat) < l / 2) (by linarith : (0:Rat) < w / 2)]
  simp only [inBox, Bool.and_eq_true, decide_eq_true_eq, one_mul, zero_mul, add_zero, neg_zero, zero_add]
  tauto

end CR.Geom
