/-
  CRProofs.Rigid — helper lemmas for C05 (rigid motion): algebra of `tr`, shoelace sums, polygon normal form,
  the `make_valid_orientation` loops, observation lists and the `Moved` relation.
-/
import CRModel.Rigid
import CRProofs.Interval
import CRProps.C16
import Mathlib.Tactic.Linarith
import Mathlib.Tactic.Ring
import Mathlib.Tactic.LinearCombination
import Mathlib.Tactic.Positivity

namespace CR.Rigid
open CR.Iv

/-! ### points -/

theorem Pt.ext' {p q : Pt} (hx : p.x = q.x) (hy : p.y = q.y) : p = q := by
  cases p; cases q; simp_all

/-- squared distance -/
def dist2 (p q : Pt) : Rat := (p.x - q.x) ^ 2 + (p.y - q.y) ^ 2

theorem dist2_tr (c s : Rat) (t p q : Pt) :
    dist2 (tr c s t p) (tr c s t q) = (c ^ 2 + s ^ 2) * dist2 p q := by
  simp only [dist2, tr]; ring

theorem dist2_pos {p q : Pt} (h : p ≠ q) : 0 < dist2 p q := by
  unfold dist2
  by_cases hx : p.x = q.x
  · have hy : p.y ≠ q.y := fun hy => h (Pt.ext' hx hy)
    have : 0 < (p.y - q.y) ^ 2 := by
      have : p.y - q.y ≠ 0 := sub_ne_zero.mpr hy
      positivity
    nlinarith [sq_nonneg (p.x - q.x)]
  · have : 0 < (p.x - q.x) ^ 2 := by
      have : p.x - q.x ≠ 0 := sub_ne_zero.mpr hx
      positivity
    nlinarith [sq_nonneg (p.y - q.y)]

/-- `tr` is injective as soon as the matrix is not singular. -/
theorem tr_injective {c s : Rat} (hk : c ^ 2 + s ^ 2 ≠ 0) (t : Pt) {p q : Pt}
    (h : tr c s t p = tr c s t q) : p = q := by
  simp only [tr, Pt.mk.injEq] at h
  obtain ⟨h1, h2⟩ := h
  have ex : (c ^ 2 + s ^ 2) * (p.x - q.x) = 0 := by linear_combination c * h1 + s * h2
  have ey : (c ^ 2 + s ^ 2) * (p.y - q.y) = 0 := by linear_combination (-s) * h1 + c * h2
  rcases mul_eq_zero.mp ex with h0 | hx
  · exact absurd h0 hk
  rcases mul_eq_zero.mp ey with h0 | hy
  · exact absurd h0 hk
  exact Pt.ext' (by linarith) (by linarith)

/-! ### shoelace sums -/

/-- cross product of `p - o` and `q - o` (twice the signed area of the triangle `o p q`). -/
def crossAt (o p q : Pt) : Rat := (p.x - o.x) * (q.y - o.y) - (q.x - o.x) * (p.y - o.y)

/-- fan triangulation from `o` along a chain of vertices. -/
def fan (o : Pt) : List Pt → Rat
  | p :: q :: rest => crossAt o p q + fan o (q :: rest)
  | _ => 0

/-- the last vertex of the chain `p :: l`. -/
def lastOf (p : Pt) : List Pt → Pt
  | [] => p
  | q :: l => lastOf q l

theorem crossAt_tr (c s : Rat) (t o p q : Pt) :
    crossAt (tr c s t o) (tr c s t p) (tr c s t q) = (c ^ 2 + s ^ 2) * crossAt o p q := by
  simp only [crossAt, tr]; ring

theorem fan_map (c s : Rat) (t o : Pt) : ∀ (p : Pt) (l : List Pt),
    fan (tr c s t o) ((p :: l).map (tr c s t)) = (c ^ 2 + s ^ 2) * fan o (p :: l)
  | p, [] => by simp [fan]
  | p, q :: l => by
    have ih := fan_map c s t o q l
    simp only [List.map_cons] at ih ⊢
    simp only [fan]
    rw [ih, crossAt_tr]; ring

theorem chain2_eq_fan (o : Pt) : ∀ (p : Pt) (l : List Pt),
    chain2 (p :: l) = fan o (p :: l) - cross2 o p + cross2 o (lastOf p l)
  | p, [] => by simp [chain2, fan, lastOf]
  | p, q :: l => by
    have ih := chain2_eq_fan o q l
    simp only [chain2, fan, lastOf]
    rw [ih]
    simp only [cross2, crossAt]; ring

theorem lastOf_map (f : Pt → Pt) : ∀ (p : Pt) (l : List Pt), lastOf (f p) (l.map f) = f (lastOf p l)
  | _, [] => rfl
  | _, q :: l => by simp only [List.map_cons, lastOf]; exact lastOf_map f q l

theorem lastOf_append (r : Pt) : ∀ (p : Pt) (l : List Pt), lastOf p (l ++ [r]) = r
  | _, [] => rfl
  | _, q :: l => by simp only [List.cons_append, lastOf]; exact lastOf_append r q l

theorem getLast?_cons (p : Pt) (l : List Pt) : (p :: l).getLast? = some (lastOf p l) := by
  induction l generalizing p with
  | nil => rfl
  | cons q l ih => rw [List.getLast?_cons_cons, ih q]; rfl

/-- A closed ring: the chain returns to its first vertex. -/
def ClosedRing : List Pt → Prop
  | [] => True
  | p :: l => lastOf p l = p

/-- The shoelace sum of a closed ring scales by `c² + s²` (= 1 for a rotation) under `tr`:
    polygon areas and their orientation are preserved. -/
theorem chain2_map_closed (c s : Rat) (t : Pt) : ∀ (l : List Pt), ClosedRing l →
    chain2 (l.map (tr c s t)) = (c ^ 2 + s ^ 2) * chain2 l
  | [], _ => by simp [chain2]
  | p :: l, h => by
    have h' : lastOf p l = p := h
    have e1 := chain2_eq_fan p p l
    have e2 := chain2_eq_fan (tr c s t p) (tr c s t p) (l.map (tr c s t))
    rw [lastOf_map, h'] at e2
    rw [h'] at e1
    have e3 := fan_map c s t p p l
    simp only [List.map_cons] at e3 ⊢
    rw [e2, e3, e1]; ring

theorem closeRing_closed : ∀ (l : List Pt), ClosedRing (closeRing l)
  | [] => trivial
  | p :: l => by
    simp only [closeRing]
    rw [getLast?_cons]
    by_cases h : lastOf p l = p
    · simp only [h, if_true]; exact h
    · have : ¬ (some (lastOf p l) = some p) := by simpa using h
      simp only [this, if_false]
      show lastOf p (l ++ [p]) = p
      exact lastOf_append p p l

theorem closeRing_map {f : Pt → Pt} (hf : ∀ p q, f p = f q → p = q) :
    ∀ (l : List Pt), closeRing (l.map f) = (closeRing l).map f
  | [] => rfl
  | p :: l => by
    simp only [List.map_cons, closeRing]
    rw [getLast?_cons, getLast?_cons, lastOf_map]
    by_cases h : lastOf p l = p
    · simp [h]
    · have h2 : ¬ (f (lastOf p l) = f p) := fun e => h (hf _ _ e)
      simp [h, h2]

/-- `Polygon.__init__` commutes with a non-singular `tr`: moving the vertices and constructing gives the moved vertices
    of the constructed polygon (same closing, same orientation decision). -/
theorem polyMk_map (c s : Rat) (t : Pt) (hk : 0 < c ^ 2 + s ^ 2) (l : List Pt) :
    polyMk (l.map (tr c s t)) = (polyMk l).map (List.map (tr c s t)) := by
  unfold polyMk
  simp only [List.length_map]
  by_cases hl : l.length < 3
  · simp [hl, Except.map]
  · simp only [hl, if_false]
    have hinj : ∀ p q, tr c s t p = tr c s t q → p = q := fun p q h => tr_injective (ne_of_gt hk) t h
    rw [closeRing_map hinj, chain2_map_closed c s t _ (closeRing_closed l)]
    have hiff : (0 < (c ^ 2 + s ^ 2) * chain2 (closeRing l)) ↔ 0 < chain2 (closeRing l) := by
      constructor
      · intro h; by_contra hn; push Not at hn; nlinarith
      · intro h; positivity
    by_cases hc : 0 < chain2 (closeRing l)
    · simp [hc, hiff.mpr hc, Except.map, List.map_reverse]
    · have : ¬ 0 < (c ^ 2 + s ^ 2) * chain2 (closeRing l) := fun h => hc (hiff.mp h)
      simp [hc, this, Except.map]

/-! ### the polygon constructor is idempotent -/

theorem cross2_antisymm (p q : Pt) : cross2 q p = - cross2 p q := by simp only [cross2]; ring

theorem closedRing_iff : ∀ l : List Pt, ClosedRing l ↔ l.getLast? = l.head?
  | [] => by simp [ClosedRing]
  | p :: l => by rw [getLast?_cons]; simp [ClosedRing]

theorem closedRing_reverse (l : List Pt) (h : ClosedRing l) : ClosedRing l.reverse := by
  rw [closedRing_iff] at h ⊢
  rw [List.getLast?_reverse, List.head?_reverse, h]

theorem closeRing_of_closed : ∀ l : List Pt, ClosedRing l → closeRing l = l
  | [], _ => rfl
  | p :: l, h => by
    have h' : lastOf p l = p := h
    simp [closeRing, getLast?_cons, h']

theorem chain2_append_singleton (q : Pt) : ∀ (p : Pt) (l : List Pt),
    chain2 ((p :: l) ++ [q]) = chain2 (p :: l) + cross2 (lastOf p l) q
  | p, [] => by simp [chain2, lastOf]
  | p, r :: l => by
    have ih := chain2_append_singleton q r l
    simp only [List.cons_append] at ih ⊢
    simp only [chain2, lastOf]
    rw [ih]; ring

theorem lastOf_reverse_cons (p : Pt) : ∀ (r : Pt) (l : List Pt), lastOf r (l ++ [p]) = p
  | _, [] => rfl
  | _, q :: l => by simp only [List.cons_append, lastOf]; exact lastOf_reverse_cons p q l

theorem chain2_reverse : ∀ l : List Pt, chain2 l.reverse = - chain2 l
  | [] => by simp [chain2]
  | [p] => by simp [chain2]
  | p :: q :: l => by
    have ih := chain2_reverse (q :: l)
    -- (p :: q :: l).reverse = (q :: l).reverse ++ [p]; the last vertex of (q :: l).reverse is q
    have hne : (q :: l).reverse = l.reverse ++ [q] := by simp
    rw [List.reverse_cons]
    cases hr : l.reverse with
    | nil =>
      rw [hne, hr] at ih ⊢
      simp only [List.nil_append] at ih ⊢
      simp only [chain2, List.cons_append, List.nil_append]
      have hl : l = [] := by simpa using hr
      subst hl
      simp only [chain2] at ih ⊢
      rw [cross2_antisymm p q]; ring
    | cons r rs =>
      rw [hne, hr] at ih ⊢
      have e := chain2_append_singleton p r (rs ++ [q])
      simp only [List.cons_append, List.append_assoc] at e ih ⊢
      rw [e, ih, lastOf_reverse_cons q r rs]
      simp only [chain2]
      rw [cross2_antisymm p q]; ring

theorem length_closeRing_ge : ∀ l : List Pt, l.length ≤ (closeRing l).length
  | [] => Nat.le_refl _
  | p :: l => by
    simp only [closeRing]
    split <;> simp

/-- the polygon constructor is idempotent: what it stores is in normal form. -/
theorem polyMk_idem (vs r : List Pt) (h : polyMk vs = .ok r) : polyMk r = .ok r := by
  unfold polyMk at h
  by_cases hl : vs.length < 3
  · simp [hl] at h
  · simp only [hl, if_false, Except.ok.injEq] at h
    have hc := closeRing_closed vs
    have hlen := length_closeRing_ge vs
    by_cases hpos : 0 < chain2 (closeRing vs)
    · simp only [hpos, if_true] at h
      subst h
      have hcr := closedRing_reverse _ hc
      unfold polyMk
      have : ¬ (closeRing vs).reverse.length < 3 := by simp; omega
      simp only [this, if_false, closeRing_of_closed _ hcr, chain2_reverse]
      have : ¬ 0 < -chain2 (closeRing vs) := by linarith
      simp [this]
    · simp only [hpos, if_false] at h
      subst h
      unfold polyMk
      have : ¬ (closeRing vs).length < 3 := by omega
      simp only [this, if_false, closeRing_of_closed _ hc]
      simp [hpos]

/-! ### `make_valid_orientation` -/

theorem downLoop_spec (τ : Rat) (hτ : 0 < τ) : ∀ (n : Nat) (x : Rat), x ≤ (n + 1) * τ →
    ∃ m : Nat, downLoop n τ x = x - m * τ ∧ downLoop n τ x ≤ τ ∧ (m = 0 ∨ 0 < downLoop n τ x)
  | 0, x, hx => ⟨0, by simp [downLoop], by simpa [downLoop] using hx, Or.inl rfl⟩
  | n + 1, x, hx => by
    unfold downLoop
    by_cases hg : x > τ
    · simp only [hg, if_true]
      obtain ⟨m, hm, h1, h2⟩ := downLoop_spec τ hτ n (x - τ) (by push_cast at hx ⊢; linarith)
      refine ⟨m + 1, by rw [hm]; push_cast; ring, h1, Or.inr ?_⟩
      rcases h2 with h2 | h2
      · subst h2; rw [hm]; simp; linarith
      · exact h2
    · simp only [hg, if_false]
      exact ⟨0, by simp, by linarith, Or.inl rfl⟩

theorem upLoop_spec (τ : Rat) (hτ : 0 < τ) : ∀ (n : Nat) (x : Rat), -((n : Rat) + 1) * τ ≤ x →
    ∃ m : Nat, upLoop n τ x = x + m * τ ∧ -τ ≤ upLoop n τ x ∧ (m = 0 ∨ upLoop n τ x < 0)
  | 0, x, hx => ⟨0, by simp [upLoop], by simp [upLoop] at hx ⊢; linarith, Or.inl rfl⟩
  | n + 1, x, hx => by
    unfold upLoop
    by_cases hg : x < -τ
    · simp only [hg, if_true]
      obtain ⟨m, hm, h1, h2⟩ := upLoop_spec τ hτ n (x + τ) (by push_cast at hx ⊢; linarith)
      refine ⟨m + 1, by rw [hm]; push_cast; ring, h1, Or.inr ?_⟩
      rcases h2 with h2 | h2
      · subst h2; rw [hm]; simp; linarith
      · exact h2
    · simp only [hg, if_false]
      exact ⟨0, by simp, by linarith, Or.inl rfl⟩

/-- `make_valid_orientation(x)` is `x` plus an integer multiple of `τ` and lies in `[-τ, τ]` — for every `x`. -/
theorem makeValid_spec (τ : Rat) (hτ : 0 < τ) (x : Rat) :
    ∃ k : Int, makeValid τ x = x + k * τ ∧ -τ ≤ makeValid τ x ∧ makeValid τ x ≤ τ := by
  unfold makeValid
  obtain ⟨hf1, hf2⟩ := abs_le_fuel hτ x
  set f := fuelFor τ x
  obtain ⟨m, hm, hd1, hd2⟩ := downLoop_spec τ hτ f x (by nlinarith)
  have hlow : -((f : Rat) + 1) * τ ≤ downLoop f τ x := by
    rcases hd2 with h | h
    · subst h; rw [hm]; simp; nlinarith
    · have : (0 : Rat) ≤ (f : Rat) * τ := by positivity
      nlinarith
  obtain ⟨m2, hm2, hu1, hu2⟩ := upLoop_spec τ hτ f (downLoop f τ x) hlow
  refine ⟨(m2 : Int) - m, ?_, hu1, ?_⟩
  · rw [hm2, hm]; push_cast; ring
  · rcases hu2 with h | h
    · subst h; rw [hm2]; simp; exact hd1
    · linarith

/-! ### observations: every stored point / orientation / orientation interval / dimension / velocity vector -/

structure Obs where
  pts : List Pt := []
  angs : List Rat := []
  ivs : List I := []
  dims : List Rat := []
  vels : List Pt := []

def Obs.nil : Obs := {}
def Obs.app (a b : Obs) : Obs :=
  ⟨a.pts ++ b.pts, a.angs ++ b.angs, a.ivs ++ b.ivs, a.dims ++ b.dims, a.vels ++ b.vels⟩
instance : Append Obs := ⟨Obs.app⟩
def Obs.ofPts (l : List Pt) : Obs := { pts := l }

@[simp] theorem Obs.app_pts (a b : Obs) : (a ++ b).pts = a.pts ++ b.pts := rfl
@[simp] theorem Obs.app_angs (a b : Obs) : (a ++ b).angs = a.angs ++ b.angs := rfl
@[simp] theorem Obs.app_ivs (a b : Obs) : (a ++ b).ivs = a.ivs ++ b.ivs := rfl
@[simp] theorem Obs.app_dims (a b : Obs) : (a ++ b).dims = a.dims ++ b.dims := rfl
@[simp] theorem Obs.app_vels (a b : Obs) : (a ++ b).vels = a.vels ++ b.vels := rfl

/-- observations of a list of components -/
def obsL {α : Type} (f : α → Obs) : List α → Obs
  | [] => Obs.nil
  | x :: xs => f x ++ obsL f xs

/-- An orientation interval moved by `a`: both ends shifted by `a` plus the SAME multiple of `τ`
    (so the length is unchanged and the denoted set of angles is the image), ends within `[-τ, τ]`. -/
def IvMoved (m : Mo) (i i' : I) : Prop :=
  ∃ k : Int, i'.lo = i.lo + m.a + k * m.τ ∧ i'.hi = i.hi + m.a + k * m.τ ∧ -m.τ ≤ i'.lo ∧ i'.hi ≤ m.τ

def IvsMoved (m : Mo) : List I → List I → Prop
  | [], [] => True
  | i :: l, i' :: l' => IvMoved m i i' ∧ IvsMoved m l l'
  | _, _ => False

theorem IvsMoved.app (m : Mo) : ∀ {a a' b b' : List I}, IvsMoved m a a' → IvsMoved m b b' →
    IvsMoved m (a ++ b) (a' ++ b')
  | [], [], _, _, _, hb => hb
  | _ :: _, [], _, _, ha, _ => ha.elim
  | [], _ :: _, _, _, ha, _ => ha.elim
  | _ :: _, _ :: _, _, _, ha, hb => ⟨ha.1, IvsMoved.app m ha.2 hb⟩

/-- The component observed as `o'` is the component observed as `o`, moved: EVERY stored point is `tr` of the old one,
    every orientation is `make_valid_orientation(θ + a)`, every orientation interval is shifted, every dimension is
    unchanged, every point-mass velocity vector is rotated.  List equality: none forgotten, none added, same order. -/
structure Moved (m : Mo) (o o' : Obs) : Prop where
  pts : o'.pts = o.pts.map m.mv
  angs : o'.angs = o.angs.map m.wr
  ivs : IvsMoved m o.ivs o'.ivs
  dims : o'.dims = o.dims
  vels : o'.vels = o.vels.map m.rv

theorem Moved.nil (m : Mo) : Moved m Obs.nil Obs.nil := ⟨rfl, rfl, trivial, rfl, rfl⟩

theorem Moved.app {m : Mo} {a a' b b' : Obs} (ha : Moved m a a') (hb : Moved m b b') :
    Moved m (a ++ b) (a' ++ b') :=
  ⟨by simp [ha.pts, hb.pts], by simp [ha.angs, hb.angs], IvsMoved.app m ha.ivs hb.ivs,
   by simp [ha.dims, hb.dims], by simp [ha.vels, hb.vels]⟩

theorem Moved.ofPts (m : Mo) (l : List Pt) : Moved m (Obs.ofPts l) (Obs.ofPts (l.map m.mv)) :=
  ⟨rfl, rfl, trivial, rfl, rfl⟩

/-- admissible motion: `τ > 0`, the angle passes `is_valid_orientation`, the matrix is not singular
    (`c² + s² = 1` for the cosine and sine of an angle). -/
structure Adm (m : Mo) : Prop where
  τpos : 0 < m.τ
  valid : validOrientation m.τ m.a = true
  det : 0 < m.c ^ 2 + m.s ^ 2

theorem guard_ok {m : Mo} (h : Adm m) : guard m = .ok () := by simp [guard, h.valid]

theorem mapR_moved {α : Type} (m : Mo) (f : α → Res α) (g : α → Obs) (P : α → Prop)
    (h : ∀ x, P x → ∃ y, f x = .ok y ∧ Moved m (g x) (g y)) :
    ∀ l : List α, (∀ x ∈ l, P x) → ∃ l', mapR f l = .ok l' ∧ Moved m (obsL g l) (obsL g l')
  | [], _ => ⟨[], rfl, Moved.nil m⟩
  | x :: xs, hP => by
    obtain ⟨y, hy, hm⟩ := h x (hP x (by simp))
    obtain ⟨ys, hys, hms⟩ := mapR_moved m f g P h xs (fun z hz => hP z (by simp [hz]))
    exact ⟨y :: ys, by simp [mapR, hy, hys], Moved.app hm hms⟩

theorem mapR_movePosition {m : Mo} (h : Adm m) : ∀ l : List Pt, mapR (movePosition m) l = .ok (l.map m.mv)
  | [] => rfl
  | p :: l => by simp [mapR, movePosition, guard_ok h, mapR_movePosition h l]

/-! ### shapes -/

mutual
def Shape.obs : Shape → Obs
  | .rect l w ctr θ => { pts := [ctr], angs := [θ], dims := [l, w] }
  | .circ r ctr => { pts := [ctr], dims := [r] }
  | .poly vs => { pts := vs }
  | .group ss => Shape.obsList ss
def Shape.obsList : List Shape → Obs
  | [] => Obs.nil
  | x :: xs => Shape.obs x ++ Shape.obsList xs
end

mutual
/-- stored polygons are in the normal form of the constructor (closed, clockwise): constructing again changes nothing. -/
def Shape.WF : Shape → Prop
  | .rect _ _ _ _ => True
  | .circ _ _ => True
  | .poly vs => polyMk vs = .ok vs
  | .group ss => Shape.WFList ss
def Shape.WFList : List Shape → Prop
  | [] => True
  | x :: xs => Shape.WF x ∧ Shape.WFList xs
end

mutual
theorem Shape.move_spec {m : Mo} (h : Adm m) : ∀ sh : Shape, sh.WF →
    ∃ sh', sh.move m = .ok sh' ∧ Moved m sh.obs sh'.obs ∧ sh'.WF
  | .rect l w ctr θ, _ =>
    ⟨.rect l w (m.mv ctr) (m.wr θ), by simp [Shape.move, guard_ok h], ⟨rfl, rfl, trivial, rfl, rfl⟩, trivial⟩
  | .circ r ctr, _ => ⟨.circ r (m.mv ctr), by simp [Shape.move], ⟨rfl, rfl, trivial, rfl, rfl⟩, trivial⟩
  | .poly vs, hw => by
    have hw' : polyMk vs = .ok vs := hw
    have e : polyMk (vs.map m.mv) = .ok (vs.map m.mv) := by
      have := polyMk_map m.c m.s m.t h.det vs
      rw [hw'] at this
      exact this
    exact ⟨.poly (vs.map m.mv), by simp [Shape.move, guard_ok h, e], ⟨rfl, rfl, trivial, rfl, rfl⟩, e⟩
  | .group ss, hw => by
    obtain ⟨ss', e, hm, hw'⟩ := Shape.moveList_spec h ss hw
    exact ⟨.group ss', by simp [Shape.move, guard_ok h, e], hm, hw'⟩
theorem Shape.moveList_spec {m : Mo} (h : Adm m) : ∀ ss : List Shape, Shape.WFList ss →
    ∃ ss', Shape.moveList m ss = .ok ss' ∧ Moved m (Shape.obsList ss) (Shape.obsList ss') ∧ Shape.WFList ss'
  | [], _ => ⟨[], rfl, Moved.nil m, trivial⟩
  | x :: xs, hw => by
    obtain ⟨y, e1, hm1, hw1⟩ := Shape.move_spec h x hw.1
    obtain ⟨ys, e2, hm2, hw2⟩ := Shape.moveList_spec h xs hw.2
    exact ⟨y :: ys, by simp [Shape.moveList, e1, e2], Moved.app hm1 hm2, ⟨hw1, hw2⟩⟩
end

/-! ### states -/

def Pos.obs : Pos → Obs
  | .none => Obs.nil
  | .pt p => { pts := [p] }
  | .region sh => sh.obs

def Ori.obs : Ori → Obs
  | .none => Obs.nil
  | .exact θ => { angs := [θ] }
  | .iv i => { ivs := [i] }

def State.obs (st : State) : Obs := st.pos.obs ++ st.ori.obs ++ { vels := st.vel.toList }

def Pos.WF : Pos → Prop
  | .region sh => sh.WF
  | _ => True

/-- a constructed `AngleInterval`: `start ≤ end`, `end - start < 2π`. -/
def Ori.WF (τ : Rat) : Ori → Prop
  | .iv i => i.lo ≤ i.hi ∧ i.hi - i.lo < τ
  | _ => True

def State.WF (τ : Rat) (st : State) : Prop := st.pos.WF ∧ st.ori.WF τ

theorem addAngle_spec {m : Mo} (h : Adm m) (i : I) (h1 : i.lo ≤ i.hi) (h2 : i.hi - i.lo < m.τ) :
    ∃ i', addAngle m.τ i m.a = .ok i' ∧ IvMoved m i i' ∧ i'.lo ≤ i'.hi ∧ i'.hi - i'.lo < m.τ := by
  obtain ⟨k, hk, b1, b2⟩ := C16_angle_norm m.τ h.τpos (i.lo + m.a) (i.hi + m.a) (by linarith) (by linarith)
  refine ⟨⟨i.lo + m.a + k * m.τ, i.hi + m.a + k * m.τ⟩, ?_, ⟨k, rfl, rfl, b1, b2⟩, by simp; linarith, by simp; linarith⟩
  unfold addAngle mkAngle
  simp only [hk]
  have c1 : i.hi + m.a + k * m.τ - (i.lo + m.a + k * m.τ) < m.τ := by linarith
  have c2 : validOrientation m.τ (i.lo + m.a + k * m.τ) = true := by
    simp only [validOrientation, Bool.and_eq_true, decide_eq_true_eq]; exact ⟨b1, by linarith⟩
  have c3 : validOrientation m.τ (i.hi + m.a + k * m.τ) = true := by
    simp only [validOrientation, Bool.and_eq_true, decide_eq_true_eq]; exact ⟨by linarith, b2⟩
  have c4 : i.lo + m.a + k * m.τ ≤ i.hi + m.a + k * m.τ := by linarith
  simp [c2, c3, c4, h2]

theorem Pos.move_spec {m : Mo} (h : Adm m) : ∀ p : Pos, p.WF → ∃ p', p.move m = .ok p' ∧ Moved m p.obs p'.obs ∧ p'.WF
  | .none, _ => ⟨.none, rfl, Moved.nil m, trivial⟩
  | .pt p, _ => ⟨.pt (m.mv p), rfl, ⟨rfl, rfl, trivial, rfl, rfl⟩, trivial⟩
  | .region sh, hw => by
    obtain ⟨sh', e, hm, hw'⟩ := Shape.move_spec h sh hw
    exact ⟨.region sh', by simp [Pos.move, e], hm, hw'⟩

theorem Ori.move_spec {m : Mo} (h : Adm m) : ∀ o : Ori, o.WF m.τ →
    ∃ o', o.move m = .ok o' ∧ Moved m o.obs o'.obs ∧ o'.WF m.τ
  | .none, _ => ⟨.none, rfl, Moved.nil m, trivial⟩
  | .exact θ, _ => ⟨.exact (m.wr θ), rfl, ⟨rfl, rfl, trivial, rfl, rfl⟩, trivial⟩
  | .iv i, hw => by
    obtain ⟨i', e, hm, hv⟩ := addAngle_spec h i hw.1 hw.2
    exact ⟨.iv i', by simp [Ori.move, e], ⟨rfl, rfl, ⟨hm, trivial⟩, rfl, rfl⟩, hv⟩

theorem State.move_spec {m : Mo} (h : Adm m) (st : State) (hw : st.WF m.τ) :
    ∃ st', st.move m = .ok st' ∧ Moved m st.obs st'.obs ∧ st'.WF m.τ := by
  obtain ⟨p', e1, hm1, hw1⟩ := Pos.move_spec h st.pos hw.1
  obtain ⟨o', e2, hm2, hw2⟩ := Ori.move_spec h st.ori hw.2
  refine ⟨⟨p', o', st.vel.map m.rv⟩, by simp [State.move, guard_ok h, e1, e2], ?_, ⟨hw1, hw2⟩⟩
  refine Moved.app (Moved.app hm1 hm2) ⟨rfl, rfl, trivial, rfl, ?_⟩
  cases st.vel <;> rfl

theorem moveStates_spec {m : Mo} (h : Adm m) (l : List State) (hw : ∀ st ∈ l, st.WF m.τ) :
    ∃ l', moveStates m l = .ok l' ∧ Moved m (obsL State.obs l) (obsL State.obs l') :=
  mapR_moved m (State.move m) State.obs (fun st => st.WF m.τ)
    (fun st hst => let ⟨st', e, hm, _⟩ := State.move_spec h st hst; ⟨st', e, hm⟩) l hw

theorem moveOccs_spec {m : Mo} (h : Adm m) (l : List Shape) (hw : ∀ sh ∈ l, sh.WF) :
    ∃ l', moveOccs m l = .ok l' ∧ Moved m (obsL Shape.obs l) (obsL Shape.obs l') := by
  have := mapR_moved m (fun sh => match guard m with | .error e => .error e | .ok _ => Shape.move m sh) Shape.obs
    (fun sh => sh.WF)
    (fun sh hsh => let ⟨sh', e, hm, _⟩ := Shape.move_spec h sh hsh; ⟨sh', by simp [guard_ok h, e], hm⟩) l hw
  obtain ⟨l', e, hm⟩ := this
  have e' : mapR (fun sh => Shape.move m sh) l = .ok l' := by simpa [guard_ok h] using e
  exact ⟨l', by simp [moveOccs, guard_ok h, e'], hm⟩

/-! ### road network -/

def Lanelet.obs (la : Lanelet) : Obs :=
  Obs.ofPts (la.left ++ la.center ++ la.right ++ (match la.stop with | none => [] | some sl => [sl.1, sl.2]) ++ la.poly)

/-- the stored polygon of a lanelet is the one its constructor builds from `right ++ reverse left`. -/
def Lanelet.WF (la : Lanelet) : Prop := polyMk (la.right ++ la.left.reverse) = .ok la.poly

theorem Lanelet.move_spec {m : Mo} (h : Adm m) (la : Lanelet) (hw : la.WF) :
    ∃ la', la.move m = .ok la' ∧ Moved m la.obs la'.obs ∧ la'.WF := by
  have e : polyMk (la.right.map m.mv ++ (la.left.map m.mv).reverse) = .ok (la.poly.map m.mv) := by
    have := polyMk_map m.c m.s m.t h.det (la.right ++ la.left.reverse)
    rw [hw] at this
    have hmv : m.mv = tr m.c m.s m.t := rfl
    rw [hmv]
    simpa [List.map_append, List.map_reverse, Except.map] using this
  refine ⟨⟨la.left.map m.mv, la.center.map m.mv, la.right.map m.mv,
           la.stop.map (fun sl => (m.mv sl.1, m.mv sl.2)), la.poly.map m.mv⟩, ?_, ?_, e⟩
  · cases hs : la.stop <;> simp [Lanelet.move, guard_ok h, moveStop, hs, e]
  · have : (Lanelet.obs ⟨la.left.map m.mv, la.center.map m.mv, la.right.map m.mv,
        la.stop.map (fun sl => (m.mv sl.1, m.mv sl.2)), la.poly.map m.mv⟩)
        = Obs.ofPts ((la.left ++ la.center ++ la.right ++
            (match la.stop with | none => [] | some sl => [sl.1, sl.2]) ++ la.poly).map m.mv) := by
      cases la.stop <;> simp [Lanelet.obs]
    rw [this]
    exact Moved.ofPts m _

/-! ### obstacles -/

def Pred.obs : Pred → Obs
  | .none => Obs.nil
  | .traj sts => obsL State.obs sts
  | .occ shs => obsL Shape.obs shs

def Pred.WF (τ : Rat) : Pred → Prop
  | .none => True
  | .traj sts => ∀ st ∈ sts, st.WF τ
  | .occ shs => ∀ sh ∈ shs, sh.WF

def Obstacle.obs : Obstacle → Obs
  | .static st => st.obs
  | .dynamic st p => st.obs ++ p.obs
  | .phantom none => Obs.nil
  | .phantom (some shs) => obsL Shape.obs shs
  | .env sh => sh.obs

def Obstacle.WF (τ : Rat) : Obstacle → Prop
  | .static st => st.WF τ
  | .dynamic st p => st.WF τ ∧ p.WF τ
  | .phantom none => True
  | .phantom (some shs) => ∀ sh ∈ shs, sh.WF
  | .env sh => sh.WF

theorem Pred.move_spec {m : Mo} (h : Adm m) : ∀ p : Pred, p.WF m.τ → ∃ p', p.move m = .ok p' ∧ Moved m p.obs p'.obs
  | .none, _ => ⟨.none, rfl, Moved.nil m⟩
  | .traj sts, hw => by
    obtain ⟨l', e, hm⟩ := moveStates_spec h sts hw
    exact ⟨.traj l', by simp [Pred.move, moveTraj, guard_ok h, e], hm⟩
  | .occ shs, hw => by
    obtain ⟨l', e, hm⟩ := moveOccs_spec h shs hw
    exact ⟨.occ l', by simp [Pred.move, e], hm⟩

theorem Obstacle.move_spec {m : Mo} (h : Adm m) : ∀ o : Obstacle, o.WF m.τ →
    ∃ o', o.move m = .ok o' ∧ Moved m o.obs o'.obs
  | .static st, hw => by
    obtain ⟨st', e, hm, _⟩ := State.move_spec h st hw
    exact ⟨.static st', by simp [Obstacle.move, guard_ok h, e], hm⟩
  | .dynamic st p, hw => by
    obtain ⟨st', e1, hm1, _⟩ := State.move_spec h st hw.1
    obtain ⟨p', e2, hm2⟩ := Pred.move_spec h p hw.2
    exact ⟨.dynamic st' p', by simp [Obstacle.move, guard_ok h, e1, e2], Moved.app hm1 hm2⟩
  | .phantom none, _ => ⟨.phantom none, by simp [Obstacle.move, guard_ok h], Moved.nil m⟩
  | .phantom (some shs), hw => by
    obtain ⟨l', e, hm⟩ := moveOccs_spec h shs hw
    exact ⟨.phantom (some l'), by simp [Obstacle.move, guard_ok h, e], hm⟩
  | .env sh, hw => by
    obtain ⟨sh', e, hm, _⟩ := Shape.move_spec h sh hw
    exact ⟨.env sh', by simp [Obstacle.move, guard_ok h, e], hm⟩

/-! ### scenario, planning problems -/

def Scenario.obs (sc : Scenario) : Obs :=
  obsL Lanelet.obs sc.lanelets ++ Obs.ofPts sc.signs ++ Obs.ofPts sc.lights ++ obsL Obstacle.obs sc.obstacles

def Scenario.WF (τ : Rat) (sc : Scenario) : Prop :=
  (∀ la ∈ sc.lanelets, la.WF) ∧ (∀ o ∈ sc.obstacles, o.WF τ)

def Problem.obs (pp : Problem) : Obs := pp.init.obs ++ obsL State.obs pp.goal

def Problem.WF (τ : Rat) (pp : Problem) : Prop := pp.init.WF τ ∧ ∀ st ∈ pp.goal, st.WF τ

theorem Scenario.move_spec {m : Mo} (h : Adm m) (sc : Scenario) (hw : sc.WF m.τ) :
    ∃ sc', sc.move m = .ok sc' ∧ Moved m sc.obs sc'.obs := by
  obtain ⟨ls, e1, hm1⟩ := mapR_moved m (Lanelet.move m) Lanelet.obs Lanelet.WF
    (fun la hla => let ⟨la', e, hm, _⟩ := Lanelet.move_spec h la hla; ⟨la', e, hm⟩) sc.lanelets hw.1
  obtain ⟨obs, e4, hm4⟩ := mapR_moved m (Obstacle.move m) Obstacle.obs (Obstacle.WF m.τ)
    (fun o ho => Obstacle.move_spec h o ho) sc.obstacles hw.2
  refine ⟨⟨ls, sc.signs.map m.mv, sc.lights.map m.mv, obs⟩, ?_, ?_⟩
  · simp [Scenario.move, guard_ok h, e1, mapR_movePosition h, e4]
  · exact Moved.app (Moved.app (Moved.app hm1 (Moved.ofPts m _)) (Moved.ofPts m _)) hm4

theorem Problem.move_spec {m : Mo} (h : Adm m) (pp : Problem) (hw : pp.WF m.τ) :
    ∃ pp', pp.move m = .ok pp' ∧ Moved m pp.obs pp'.obs := by
  obtain ⟨i', e1, hm1, _⟩ := State.move_spec h pp.init hw.1
  obtain ⟨g', e2, hm2⟩ := moveStates_spec h pp.goal hw.2
  exact ⟨⟨i', g'⟩, by simp [Problem.move, e1, e2], Moved.app hm1 hm2⟩

theorem moveProblems_spec {m : Mo} (h : Adm m) (l : List Problem) (hw : ∀ pp ∈ l, pp.WF m.τ) :
    ∃ l', moveProblems m l = .ok l' ∧ Moved m (obsL Problem.obs l) (obsL Problem.obs l') :=
  mapR_moved m (Problem.move m) Problem.obs (Problem.WF m.τ) (fun pp hpp => Problem.move_spec h pp hpp) l hw

end CR.Rigid
