/-
  CRProofs.Rigid — helper lemmas for C05 (rigid motion): algebra of `tr`, shoelace sums, polygon normal form,
  the `make_valid_orientation` loops, observation lists and the `Moved` relation.
-/
import CRModel.Rigid
import CRProofs.Interval
import CRProps.C16
import Mathlib.Tactic.Linarith
import Mathlib.Tactic.Ring
import Mathlib.Tactic.LinearCombination
import Mathlib.Tactic.Positivity

namespace CR.Rigid
open CR.Iv

/-! ### points -/

theorem Pt.ext' {p q : Pt} (hx : p.x = q.x) (hy : p.y = q.y) : p = q := by
  cases p; cases q; simp_all

/-- squared distance -/
def dist2 (p q : Pt) : Rat := (p.x - q.x) ^ 2 + (p.y - q.y) ^ 2

theorem dist2_tr (c s : Rat) (t p q : Pt) :
    dist2 (tr c s t p) (tr c s t q) = (c ^ 2 + s ^ 2) * dist2 p q := by
  simp only [dist2, tr]; ring

theorem dist2_pos {p q : Pt} (h : p ≠ q) : 0 < dist2 p q := by
  unfold dist2
  by_cases hx : p.x = q.x
  · have hy : p.y ≠ q.y := fun hy => h (Pt.ext' hx hy)
    have : 0 < (p.y - q.y) ^ 2 := by
      have : p.y - q.y ≠ 0 := sub_ne_zero.mpr hy
      positivity
    nlinarith [sq_nonneg (p.x - q.x)]
  · have : 0 < (p.x - q.x) ^ 2 := by
      have : p.x - q.x ≠ 0 := sub_ne_zero.mpr hx
      positivity
    nlinarith [sq_nonneg (p.y - q.y)]

/-- `tr` is injective as soon as the matrix is not singular. -/
theorem tr_injective {c s : Rat} (hk : c ^ 2 + s ^ 2 ≠ 0) (t : Pt) {p q : Pt}
    (h : tr c s t p = tr c s t q) : p = q := by
  simp only [tr, Pt.mk.injEq] at h
  obtain ⟨h1, h2⟩ := h
  have ex : (c ^ 2 + s ^ 2) * (p.x - q.x) = 0 := by linear_combination c * h1 + s * h2
  have ey : (c ^ 2 + s ^ 2) * (p.y - q.y) = 0 := by linear_combination (-s) * h1 + c * h2
  rcases mul_eq_zero.mp ex with h0 | hx
  · exact absurd h0 hk
  rcases mul_eq_zero.mp ey with h0 | hy
  · exact absurd h0 hk
  exact Pt.ext' (by linarith) (by linarith)

/-! ### shoelace sums -/

/-- cross product of `p - o` and `q - o` (twice the signed area of the triangle `o p q`). -/
def crossAt (o p q : Pt) : Rat := (p.x - o.x) * (q.y - o.y) - (q.x - o.x) * (p.y - o.y)

/-- fan triangulation from `o` along a chain of vertices. -/
def fan (o : Pt) : List Pt → Rat
  | p :: q :: rest => crossAt o p q + fan o (q :: rest)
  | _ => 0

/-- the last vertex of the chain `p :: l`. -/
def lastOf (p : Pt) : List Pt → Pt
  | [] => p
  | q :: l => lastOf q l

theorem crossAt_tr (c s : Rat) (t o p q : Pt) :
    crossAt (tr c s t o) (tr c s t p) (tr c s t q) = (c ^ 2 + s ^ 2) * crossAt o p q := by
  simp only [crossAt, tr]; ring

theorem fan_map (c s : Rat) (t o : Pt) : ∀ (p : Pt) (l : List Pt),
    fan (tr c s t o) ((p :: l).map (tr c s t)) = (c ^ 2 + s ^ 2) * fan o (p :: l)
  | p, [] => by simp [fan]
  | p, q :: l => by
    have ih := fan_map c s t o q l
    simp only [List.map_cons] at ih ⊢
    simp only [fan]
    rw [ih, crossAt_tr]; ring

theorem chain2_eq_fan (o : Pt) : ∀ (p : Pt) (l : List Pt),
    chain2 (p :: l) = fan o (p :: l) - cross2 o p + cross2 o (lastOf p l)
  | p, [] => by simp [chain2, fan, lastOf]
  | p, q :: l => by
    have ih := chain2_eq_fan o q l
    simp only [chain2, fan, lastOf]
    rw [ih]
    simp only [cross2, crossAt]; ring

theorem lastOf_map (f : Pt → Pt) : ∀ (p : Pt) (l : List Pt), lastOf (f p) (l.map f) = f (lastOf p l)
  | _, [] => rfl
  | _, q :: l => by simp only [List.map_cons, lastOf]; exact lastOf_map f q l

theorem lastOf_append (r : Pt) : ∀ (p : Pt) (l : List Pt), lastOf p (l ++ [r]) = r
  | _, [] => rfl
  | _, q :: l => by simp only [List.cons_append, lastOf]; exact lastOf_append r q l

theorem getLast?_cons (p : Pt) (l : List Pt) : (p :: l).getLast? = some (lastOf p l) := by
  induction l generalizing p with
  | nil => rfl
  | cons q l ih => rw [List.getLast?_cons_cons, ih q]; rfl

/-- A closed ring: the chain returns to its first vertex. -/
def ClosedRing : List Pt → Prop
  | [] => True
  | p :: l => lastOf p l = p

/-- The shoelace sum of a closed ring scales by `c² + s²` (= 1 for a rotation) under `tr`:
    polygon areas and their orientation are preserved. -/
theorem chain2_map_closed (c s : Rat) (t : Pt) : ∀ (l : List Pt), ClosedRing l →
    chain2 (l.map (tr c s t)) = (c ^ 2 + s ^ 2) * chain2 l
  | [], _ => by simp [chain2]
  | p :: l, h => by
    have h' : lastOf p l = p := h
    have e1 := chain2_eq_fan p p l
    have e2 := chain2_eq_fan (tr c s t p) (tr c s t p) (l.map (tr c s t))
    rw [lastOf_map, h'] at e2
    rw [h'] at e1
    have e3 := fan_map c s t p p l
    simp only [List.map_cons] at e3 ⊢
    rw [e2, e3, e1]; ring

theorem closeRing_closed : ∀ (l : List Pt), ClosedRing (closeRing l)
  | [] => trivial
  | p :: l => by
    simp only [closeRing]
    rw [getLast?_cons]
    by_cases h : lastOf p l = p
    · simp only [h, if_true]; exact h
    · have : ¬ (some (lastOf p l) = some p) := by simpa using h
      simp only [this, if_false]
      show lastOf p (l ++ [p]) = p
      exact lastOf_append p p l

theorem closeRing_map {f : Pt → Pt} (hf : ∀ p q, f p = f q → p = q) :
    ∀ (l : List Pt), closeRing (l.map f) = (closeRing l).map f
  | [] => rfl
  | p :: l => by
    simp only [List.map_cons, closeRing]
    rw [getLast?_cons, getLast?_cons, lastOf_map]
    by_cases h : lastOf p l = p
    · simp [h]
    · have h2 : ¬ (f (lastOf p l) = f p) := fun e => h (hf _ _ e)
      simp [h, h2]

/-- `Polygon.__init__` commutes with a non-singular `tr`: moving the vertices and constructing gives the moved vertices
    of the constructed polygon (same closing, same orientation decision). -/
theorem polyMk_map (c s : Rat) (t : Pt) (hk : 0 < c ^ 2 + s ^ 2) (l : List Pt) :
    polyMk (l.map (tr c s t)) = (polyMk l).map (List.map (tr c s t)) := by
  unfold polyMk
  simp only [List.length_map]
  by_cases hl : l.length < 3
  · simp [hl, Except.map]
  · simp only [hl, if_false]
    have hinj : ∀ p q, tr c s t p = tr c s t q → p = q := fun p q h => tr_injective (ne_of_gt hk) t h
    rw [closeRing_map hinj, chain2_map_closed c s t _ (closeRing_closed l)]
    have hiff : (0 < (c ^ 2 + s ^ 2) * chain2 (closeRing l)) ↔ 0 < chain2 (closeRing l) := by
      constructor
      · intro h; by_contra hn; push Not at hn; nlinarith
      · intro h; positivity
    by_cases hc : 0 < chain2 (closeRing l)
    · simp [hc, hiff.mpr hc, Except.map, List.map_reverse]
    · have : ¬ 0 < (c ^ 2 + s ^ 2) * chain2 (closeRing l) := fun h => hc (hiff.mp h)
      simp [hc, this, Except.map]

/-! ### the polygon constructor is idempotent -/

theorem cross2_antisymm (p q : Pt) : cross2 q p = - cross2 p q := by simp only [cross2]; ring

theorem closedRing_iff : ∀ l : List Pt, ClosedRing l ↔ l.getLast? = l.head?
  | [] => by simp [ClosedRing]
  | p :: l => by rw [getLast?_cons]; simp [ClosedRing]

theorem closedRing_reverse (l : List Pt) (h : ClosedRing l) : ClosedRing l.reverse := by
  rw [closedRing_iff] at h ⊢
  rw [List.getLast?_reverse, List.head?_reverse, h]

theorem closeRing_of_closed : ∀ l : List Pt, ClosedRing l → closeRing l = l
  | [], _ => rfl
  | p :: l, h => by
    have h' : lastOf p l = p := h
    simp [closeRing, getLast?_cons, h']

theorem chain2_append_singleton (q : Pt) : ∀ (p : Pt) (l : List Pt),
    chain2 ((p :: l) ++ [q]) = chain2 (p :: l) + cross2 (lastOf p l) q
  | p, [] => by simp [chain2, lastOf]
  | p, r :: l => by
    have ih := chain2_append_singleton q r l
    simp only [List.cons_append] at ih ⊢
    simp only [chain2, lastOf]
    rw [ih]; ring

theorem lastOf_reverse_cons (p : Pt) : ∀ (r : Pt) (l : List Pt), lastOf r (l ++ [p]) = p
  | _, [] => rfl
  | _, q :: l => by simp only [List.cons_append, lastOf]; exact lastOf_reverse_cons p q l

theorem chain2_reverse : ∀ l : List Pt, chain2 l.reverse = - chain2 l
  | [] => by simp [chain2]
  | [p] => by simp [chain2]
  | p :: q :: l => by
    have ih := chain2_reverse (q :: l)
    -- (p :: q :: l).reverse = (q :: l).reverse ++ [p]; the last vertex of (q :: l).reverse is q
    have hne : (q :: l).reverse = l.reverse ++ [q] := by simp
    rw [List.reverse_cons]
    cases hr : l.reverse with
    | nil =>
      rw [hne, hr] at ih ⊢
      simp only [List.nil_append] at ih ⊢
      simp only [chain2, List.cons_append, List.nil_append]
      have hl : l = [] := by simpa using hr
      subst hl
      simp only [chain2] at ih ⊢
      rw [cross2_antisymm p q]; ring
    | cons r rs =>
      rw [hne, hr] at ih ⊢
      have e := chain2_append_singleton p r (rs ++ [q])
      simp only [List.cons_append, List.append_assoc] at e ih ⊢
      rw [e, ih, lastOf_reverse_cons q r rs]
      simp only [chain2]
      rw [cross2_antisymm p q]; ring

theorem length_closeRing_ge : ∀ l : List Pt, l.length ≤ (closeRing l).length
  | [] => Nat.le_refl _
  | p :: l => by
    simp only [closeRing]
    split <;> simp

/-- the polygon constructor is idempotent: what it stores is in normal form. -/
theorem polyMk_idem (vs r : List Pt) (h : polyMk vs = .ok r) : polyMk r = .ok r := by
  unfold polyMk at h
  by_cases hl : vs.length < 3
  · simp [hl] at h
  · simp only [hl, if_false, Except.ok.injEq] at h
    have hc := closeRing_closed vs
    have hlen := length_closeRing_ge vs
    by_cases hpos : 0 < chain2 (closeRing vs)
    · simp only [hpos, if_true] at h
      subst h
      have hcr := closedRing_reverse _ hc
      unfold polyMk
      have : ¬ (closeRing vs).reverse.length < 3 := by simp; omega
      simp only [this, if_false, closeRing_of_closed _ hcr, chain2_reverse]
      have : ¬ 0 < -chain2 (closeRing vs) := by linarith
      simp [this]
    · simp only [hpos, if_false] at h
      subst h
      unfold polyMk
      have : ¬ (closeRing vs).length < 3 := by omega
      simp only [this, if_false, closeRing_of_closed _ hc]
      simp [hpos]

/-! ### `make_valid_orientation` -/

theorem downLoop_spec (τ : Rat) (hτ : 0 < τ) : ∀ (n : Nat) (x : Rat), x ≤ (n + 1) * τ →
    ∃ m : Nat, downLoop n τ x = x - m * τ ∧ downLoop n τ x ≤ τ ∧ (m = 0 ∨ 0 < downLoop n τ x)
  | 0, x, hx => ⟨0, by simp [downLoop], by simpa [downLoop] using hx, Or.inl rfl⟩
  | n + 1, x, hx => by
    unfold downLoop
    by_cases hg : x > τ
    · simp only [hg, if_true]
      obtain ⟨m, hm, h1, h2⟩ := downLoop_spec τ hτ n (x - τ) (by push_cast at hx ⊢; linarith)
      refine ⟨m + 1, by rw [hm]; push_cast; ring, h1, Or.inr ?_⟩
      rcases h2 with h2 | h2
      · subst h2; rw [hm]; simp; linarith
      · exact h2
    · simp only [hg, if_false]
      exact ⟨0, by simp, by linarith, Or.inl rfl⟩

theorem upLoop_spec (τ : Rat) (hτ : 0 < τ) : ∀ (n : Nat) (x : Rat), -((n : Rat) + 1) * τ ≤ x →
    ∃ m : Nat, upLoop n τ x = x + m * τ ∧ -τ ≤ upLoop n τ x ∧ (m = 0 ∨ upLoop n τ x < 0)
  | 0, x, hx => ⟨0, by simp [upLoop], by simp [upLoop] at hx ⊢; linarith, Or.inl rfl⟩
  | n + 1, x, hx => by
    unfold upLoop
    by_cases hg : x < -τ
    · simp only [hg, if_true]
      obtain ⟨m, hm, h1, h2⟩ := upLoop_spec τ hτ n (x + τ) (by push_cast at hx ⊢; linarith)
      refine ⟨m + 1, by rw [hm]; push_cast; ring, h1, Or.inr ?_⟩
      rcases h2 with h2 | h2
      · subst h2; rw [hm]; simp; linarith
      · exact h2
    · simp only [hg, if_false]
      exact ⟨0, by simp, by linarith, Or.inl rfl⟩

/-- `make_valid_orientation(x)` is `x` plus an integer multiple of `τ` and lies in `[-τ, τ]` — for every `x`. -/
theorem makeValid_spec (τ : Rat) (hτ : 0 < τ) (x : Rat) :
    ∃ k : Int, makeValid τ x = x + k * τ ∧ -τ ≤ makeValid τ x ∧ makeValid τ x ≤ τ := by
  unfold makeValid
  obtain ⟨hf1, hf2⟩ := abs_le_fuel hτ x
  set f := fuelFor τ x
  obtain ⟨m, hm, hd1, hd2⟩ := downLoop_spec τ hτ f x (by nlinarith)
  have hlow : -((f : Rat) + 1) * τ ≤ downLoop f τ x := by
    rcases hd2 with h | h
    · subst h; rw [hm]; simp; nlinarith
    · have : (0 : Rat) ≤ (f : Rat) * τ := by positivity
      nlinarith
  obtain ⟨m2, hm2, hu1, hu2⟩ := upLoop_spec τ hτ f (downLoop f τ x) hlow
  refine ⟨(m2 : Int) - m, ?_, hu1, ?_⟩
  · rw [hm2, hm]; push_cast; ring
  · rcases hu2 with h | h
    · subst h; rw [hm2]; simp; exact hd1
    · linarith

/-! ### exact behaviour of the wrap loops on the ranges that occur (|θ| ≤ τ, |a| ≤ τ) -/

theorem downLoop_id (τ : Rat) : ∀ (n : Nat) (x : Rat), x ≤ τ → downLoop n τ x = x
  | 0, _, _ => rfl
  | n + 1, x, h => by
    unfold downLoop
    have : ¬ x > τ := by linarith
    simp [this]

theorem upLoop_id (τ : Rat) : ∀ (n : Nat) (x : Rat), -τ ≤ x → upLoop n τ x = x
  | 0, _, _ => rfl
  | n + 1, x, h => by
    unfold upLoop
    have : ¬ x < -τ := by linarith
    simp [this]

theorem fuelFor_pos (τ x : Rat) : ∃ n, fuelFor τ x = n + 1 := ⟨_, rfl⟩

/-- `make_valid_orientation` computed exactly on `[-2τ, 2τ]` (all that `θ + a` can reach for a valid orientation and a
    valid angle): unchanged inside `[-τ, τ]`, exactly one period down above, exactly one period up below. -/
theorem makeValid_exact (τ : Rat) (hτ : 0 < τ) (x : Rat) (h1 : -(2 * τ) ≤ x) (h2 : x ≤ 2 * τ) :
    makeValid τ x = if τ < x then x - τ else if x < -τ then x + τ else x := by
  unfold makeValid
  obtain ⟨n, hn⟩ := fuelFor_pos τ x
  rw [hn]
  by_cases ha : τ < x
  · simp only [ha, if_true]
    have e1 : downLoop (n + 1) τ x = x - τ := by
      rw [downLoop]; simp only [gt_iff_lt, ha, if_true]
      exact downLoop_id τ n _ (by linarith)
    rw [e1]; exact upLoop_id τ _ _ (by linarith)
  · simp only [ha, if_false]
    have e1 : downLoop (n + 1) τ x = x := downLoop_id τ _ _ (by linarith)
    rw [e1]
    by_cases hb : x < -τ
    · simp only [hb, if_true]
      rw [upLoop]; simp only [hb, if_true]
      exact upLoop_id τ n _ (by linarith)
    · simp only [hb, if_false]
      exact upLoop_id τ _ _ (by linarith)

theorem downLoop2_id (τ : Rat) : ∀ (n : Nat) (s e : Rat), s ≤ τ → e ≤ τ → downLoop2 n τ s e = (s, e)
  | 0, _, _, _, _ => rfl
  | n + 1, s, e, h1, h2 => by
    unfold downLoop2
    have : ¬ (s > τ ∨ e > τ) := by rintro (h | h) <;> linarith
    rw [if_neg this]

theorem upLoop2_id (τ : Rat) : ∀ (n : Nat) (s e : Rat), -τ ≤ s → upLoop2 n τ s e = (s, e)
  | 0, _, _, _ => rfl
  | n + 1, s, e, h1 => by
    unfold upLoop2
    have : ¬ (s < -τ ∨ s < -τ) := by rintro (h | h) <;> linarith
    rw [if_neg this]

theorem mvi_aux (τ : Rat) (s e : Rat) (hse : s ≤ e) (hl : e - s < τ) (h1 : -(2 * τ) ≤ s) (h2 : e ≤ 2 * τ)
    (f g : Nat) :
    upLoop2 (g + 1) τ (downLoop2 (f + 1) τ s e).1 (downLoop2 (f + 1) τ s e).2
      = if τ < e then (s - τ, e - τ) else if s < -τ then (s + τ, e + τ) else (s, e) := by
  by_cases ha : τ < e
  · rw [if_pos ha]
    have e1 : downLoop2 (f + 1) τ s e = (s - τ, e - τ) := by
      rw [downLoop2]
      have : s > τ ∨ e > τ := Or.inr ha
      rw [if_pos this]
      exact downLoop2_id τ f _ _ (by linarith) (by linarith)
    rw [e1]; exact upLoop2_id τ _ _ _ (by simp only; linarith)
  · rw [if_neg ha]
    have e1 : downLoop2 (f + 1) τ s e = (s, e) := downLoop2_id τ _ _ _ (by linarith) (by linarith)
    rw [e1]
    by_cases hb : s < -τ
    · rw [if_pos hb, upLoop2]
      have : s < -τ ∨ s < -τ := Or.inl hb
      rw [if_pos this]
      exact upLoop2_id τ g _ _ (by linarith)
    · rw [if_neg hb]
      exact upLoop2_id τ _ _ _ (by linarith)

/-- `make_valid_orientation_interval` computed exactly for `-2τ ≤ s ≤ e ≤ 2τ`, `e - s < τ`: unchanged when already inside
    `[-τ, τ]`, one period down when the end exceeds `τ`, one period up when the start is below `-τ`. -/
theorem makeValidInterval_exact (τ : Rat) (s e : Rat) (hse : s ≤ e) (hl : e - s < τ)
    (h1 : -(2 * τ) ≤ s) (h2 : e ≤ 2 * τ) :
    makeValidInterval τ s e
      = if τ < e then (s - τ, e - τ) else if s < -τ then (s + τ, e + τ) else (s, e) := by
  unfold makeValidInterval
  obtain ⟨n1, hn1⟩ := fuelFor_pos τ s
  have hn : fuelFor τ s + fuelFor τ e = (n1 + fuelFor τ e) + 1 := by rw [hn1]; omega
  have hk : ∀ n : Nat, n + 1 + (n + 1) = (n + 1 + n) + 1 := fun n => by omega
  simp only []
  rw [hn, hk]
  exact mvi_aux τ s e hse hl h1 h2 _ _

/-! ### observations: what is stored in a component, as lists -/

/-- a stored rectangle (length, width, centre, orientation) -/
structure Rect where
  l : Rat
  w : Rat
  ctr : Pt
  θ : Rat

/-- What a component stores, as lists in traversal order.  `pts` holds EVERY stored point of the model record (centres,
    polygon and polyline vertices, positions); `rings` / `lines` / `rects` repeat some of them grouped into the polygons,
    polylines and rectangles they belong to (so that areas, lengths and corner points can be stated on the composite). -/
structure Obs where
  pts : List Pt := []
  angs : List Rat := []
  ivs : List I := []
  dims : List Rat := []
  vels : List Pt := []
  rings : List (List Pt) := []
  lines : List (List Pt) := []
  rects : List Rect := []

def Obs.nil : Obs := {}
def Obs.app (a b : Obs) : Obs :=
  ⟨a.pts ++ b.pts, a.angs ++ b.angs, a.ivs ++ b.ivs, a.dims ++ b.dims, a.vels ++ b.vels,
   a.rings ++ b.rings, a.lines ++ b.lines, a.rects ++ b.rects⟩
instance : Append Obs := ⟨Obs.app⟩
def Obs.ofPts (l : List Pt) : Obs := { pts := l }

@[simp] theorem Obs.app_pts (a b : Obs) : (a ++ b).pts = a.pts ++ b.pts := rfl
@[simp] theorem Obs.app_angs (a b : Obs) : (a ++ b).angs = a.angs ++ b.angs := rfl
@[simp] theorem Obs.app_ivs (a b : Obs) : (a ++ b).ivs = a.ivs ++ b.ivs := rfl
@[simp] theorem Obs.app_dims (a b : Obs) : (a ++ b).dims = a.dims ++ b.dims := rfl
@[simp] theorem Obs.app_vels (a b : Obs) : (a ++ b).vels = a.vels ++ b.vels := rfl
@[simp] theorem Obs.app_rings (a b : Obs) : (a ++ b).rings = a.rings ++ b.rings := rfl
@[simp] theorem Obs.app_lines (a b : Obs) : (a ++ b).lines = a.lines ++ b.lines := rfl
@[simp] theorem Obs.app_rects (a b : Obs) : (a ++ b).rects = a.rects ++ b.rects := rfl

/-- observations of a list of components -/
def obsL {α : Type} (f : α → Obs) : List α → Obs
  | [] => Obs.nil
  | x :: xs => f x ++ obsL f xs

/-- An orientation interval moved by `a`: both ends shifted by `a` plus the SAME multiple of `τ`
    (so the length is unchanged and the denoted set of angles is the image), ends within `[-τ, τ]`. -/
def IvMoved (m : Mo) (i i' : I) : Prop :=
  ∃ k : Int, i'.lo = i.lo + m.a + k * m.τ ∧ i'.hi = i.hi + m.a + k * m.τ ∧ -m.τ ≤ i'.lo ∧ i'.hi ≤ m.τ

def IvsMoved (m : Mo) : List I → List I → Prop
  | [], [] => True
  | i :: l, i' :: l' => IvMoved m i i' ∧ IvsMoved m l l'
  | _, _ => False

theorem IvsMoved.app (m : Mo) : ∀ {a a' b b' : List I}, IvsMoved m a a' → IvsMoved m b b' →
    IvsMoved m (a ++ b) (a' ++ b')
  | [], [], _, _, _, hb => hb
  | _ :: _, [], _, _, ha, _ => ha.elim
  | [], _ :: _, _, _, ha, _ => ha.elim
  | _ :: _, _ :: _, _, _, ha, hb => ⟨ha.1, IvsMoved.app m ha.2 hb⟩

/-- two shifts in a row are one shift by the sum (same `τ`). -/
theorem IvsMoved.trans {m1 m2 m12 : Mo} (hτ : m2.τ = m1.τ) (hτ' : m12.τ = m1.τ) (ha : m12.a = m1.a + m2.a) :
    ∀ {a b c : List I}, IvsMoved m1 a b → IvsMoved m2 b c → IvsMoved m12 a c
  | [], [], [], _, _ => trivial
  | [], [], _ :: _, _, h => h.elim
  | [], _ :: _, _, h, _ => h.elim
  | _ :: _, [], _, h, _ => h.elim
  | _ :: _, _ :: _, [], _, h => h.elim
  | i :: _, j :: _, k :: _, h1, h2 => by
    refine ⟨?_, IvsMoved.trans hτ hτ' ha h1.2 h2.2⟩
    obtain ⟨k1, a1, a2, _, _⟩ := h1.1
    obtain ⟨k2, b1, b2, b3, b4⟩ := h2.1
    refine ⟨k1 + k2, ?_, ?_, ?_, ?_⟩
    · rw [b1, a1, ha, hτ, hτ']; push_cast; ring
    · rw [b2, a2, ha, hτ, hτ']; push_cast; ring
    · rw [hτ', ← hτ]; exact b3
    · rw [hτ', ← hτ]; exact b4

/-- the rectangle `r` moved: centre by `tr`, orientation by `make_valid_orientation(θ + a)`, length and width kept. -/
def Mo.mvRect (m : Mo) (r : Rect) : Rect := ⟨r.l, r.w, m.mv r.ctr, m.wr r.θ⟩

/-- The component observed as `o'` is the component observed as `o`, moved: every listed point is `tr` of the old one, every
    orientation is `make_valid_orientation(θ + a)`, every orientation interval is shifted, every dimension is unchanged, every
    point-mass velocity vector is rotated; polygons, polylines and rectangles are moved vertex by vertex / as a whole.
    List equality: nothing of the listed content is skipped or added, same order. -/
structure Moved (m : Mo) (o o' : Obs) : Prop where
  pts : o'.pts = o.pts.map m.mv
  angs : o'.angs = o.angs.map m.wr
  ivs : IvsMoved m o.ivs o'.ivs
  dims : o'.dims = o.dims
  vels : o'.vels = o.vels.map m.rv
  rings : o'.rings = o.rings.map (List.map m.mv)
  lines : o'.lines = o.lines.map (List.map m.mv)
  rects : o'.rects = o.rects.map m.mvRect

theorem Moved.nil (m : Mo) : Moved m Obs.nil Obs.nil := ⟨rfl, rfl, trivial, rfl, rfl, rfl, rfl, rfl⟩

theorem Moved.app {m : Mo} {a a' b b' : Obs} (ha : Moved m a a') (hb : Moved m b b') :
    Moved m (a ++ b) (a' ++ b') :=
  ⟨by simp [ha.pts, hb.pts], by simp [ha.angs, hb.angs], IvsMoved.app m ha.ivs hb.ivs,
   by simp [ha.dims, hb.dims], by simp [ha.vels, hb.vels], by simp [ha.rings, hb.rings],
   by simp [ha.lines, hb.lines], by simp [ha.rects, hb.rects]⟩

theorem Moved.ofPts (m : Mo) (l : List Pt) : Moved m (Obs.ofPts l) (Obs.ofPts (l.map m.mv)) :=
  ⟨rfl, rfl, trivial, rfl, rfl, rfl, rfl, rfl⟩

/-- admissible motion: `τ > 0`, the angle passes `is_valid_orientation`, the matrix is not singular
    (`c² + s² = 1` for the cosine and sine of an angle). -/
structure Adm (m : Mo) : Prop where
  τpos : 0 < m.τ
  valid : validOrientation m.τ m.a = true
  det : 0 < m.c ^ 2 + m.s ^ 2

theorem guard_ok {m : Mo} (h : Adm m) : guard m = .ok () := by simp [guard, h.valid]

theorem mapR_moved {α : Type} (m : Mo) (f : α → Res α) (g : α → Obs) (P : α → Prop)
    (h : ∀ x, P x → ∃ y, f x = .ok y ∧ Moved m (g x) (g y) ∧ P y) :
    ∀ l : List α, (∀ x ∈ l, P x) →
      ∃ l', mapR f l = .ok l' ∧ Moved m (obsL g l) (obsL g l') ∧ (∀ y ∈ l', P y) ∧ l'.length = l.length
  | [], _ => ⟨[], rfl, Moved.nil m, by simp, rfl⟩
  | x :: xs, hP => by
    obtain ⟨y, hy, hm, hpy⟩ := h x (hP x (by simp))
    obtain ⟨ys, hys, hms, hpys, hl⟩ := mapR_moved m f g P h xs (fun z hz => hP z (by simp [hz]))
    refine ⟨y :: ys, by simp [mapR, hy, hys], Moved.app hm hms, ?_, by simp [hl]⟩
    intro z hz
    rcases List.mem_cons.mp hz with rfl | hz
    · exact hpy
    · exact hpys z hz

theorem mapR_movePosition {m : Mo} (h : Adm m) : ∀ l : List Pt, mapR (movePosition m) l = .ok (l.map m.mv)
  | [] => rfl
  | p :: l => by simp [mapR, movePosition, guard_ok h, mapR_movePosition h l]

/-! ### shapes -/

mutual
def Shape.obs : Shape → Obs
  | .rect l w ctr θ => { pts := [ctr], angs := [θ], dims := [l, w], rects := [⟨l, w, ctr, θ⟩] }
  | .circ r ctr => { pts := [ctr], dims := [r] }
  | .poly vs => { pts := vs, rings := [vs] }
  | .group ss => Shape.obsList ss
def Shape.obsList : List Shape → Obs
  | [] => Obs.nil
  | x :: xs => Shape.obs x ++ Shape.obsList xs
end

mutual
/-- stored polygons are in the normal form of the constructor (closed, clockwise): constructing again changes nothing. -/
def Shape.WF : Shape → Prop
  | .rect _ _ _ _ => True
  | .circ _ _ => True
  | .poly vs => polyMk vs = .ok vs
  | .group ss => Shape.WFList ss
def Shape.WFList : List Shape → Prop
  | [] => True
  | x :: xs => Shape.WF x ∧ Shape.WFList xs
end

mutual
theorem Shape.move_spec {m : Mo} (h : Adm m) : ∀ sh : Shape, sh.WF →
    ∃ sh', sh.move m = .ok sh' ∧ Moved m sh.obs sh'.obs ∧ sh'.WF
  | .rect l w ctr θ, _ =>
    ⟨.rect l w (m.mv ctr) (m.wr θ), by simp [Shape.move, guard_ok h], ⟨rfl, rfl, trivial, rfl, rfl, rfl, rfl, rfl⟩, trivial⟩
  | .circ r ctr, _ =>
    ⟨.circ r (m.mv ctr), by simp [Shape.move], ⟨rfl, rfl, trivial, rfl, rfl, rfl, rfl, rfl⟩, trivial⟩
  | .poly vs, hw => by
    have hw' : polyMk vs = .ok vs := hw
    have e : polyMk (vs.map m.mv) = .ok (vs.map m.mv) := by
      have := polyMk_map m.c m.s m.t h.det vs
      rw [hw'] at this
      exact this
    exact ⟨.poly (vs.map m.mv), by simp [Shape.move, guard_ok h, e], ⟨rfl, rfl, trivial, rfl, rfl, rfl, rfl, rfl⟩, e⟩
  | .group ss, hw => by
    obtain ⟨ss', e, hm, hw'⟩ := Shape.moveList_spec h ss hw
    exact ⟨.group ss', by simp [Shape.move, guard_ok h, e], hm, hw'⟩
theorem Shape.moveList_spec {m : Mo} (h : Adm m) : ∀ ss : List Shape, Shape.WFList ss →
    ∃ ss', Shape.moveList m ss = .ok ss' ∧ Moved m (Shape.obsList ss) (Shape.obsList ss') ∧ Shape.WFList ss'
  | [], _ => ⟨[], rfl, Moved.nil m, trivial⟩
  | x :: xs, hw => by
    obtain ⟨y, e1, hm1, hw1⟩ := Shape.move_spec h x hw.1
    obtain ⟨ys, e2, hm2, hw2⟩ := Shape.moveList_spec h xs hw.2
    exact ⟨y :: ys, by simp [Shape.moveList, e1, e2], Moved.app hm1 hm2, ⟨hw1, hw2⟩⟩
end

/-! ### states -/

def Pos.obs : Pos → Obs
  | .pt p => { pts := [p] }
  | .region sh => sh.obs
  | _ => Obs.nil

def Ori.obs : Ori → Obs
  | .exact θ => { angs := [θ] }
  | .iv i => { ivs := [i] }
  | _ => Obs.nil

def State.obs (st : State) : Obs := st.pos.obs ++ st.ori.obs ++ { vels := st.vel.toList }

/-- admissible position: absent, an array, or a shape in normal form (anything else is the `TypeError` branch). -/
def Pos.WF : Pos → Prop
  | .region sh => sh.WF
  | .other => False
  | _ => True

/-- admissible orientation: absent, a number, or a constructed `AngleInterval` (`start ≤ end`, `end - start < 2π`). -/
def Ori.WF (τ : Rat) : Ori → Prop
  | .iv i => i.lo ≤ i.hi ∧ i.hi - i.lo < τ
  | .other => False
  | _ => True

def State.WF (τ : Rat) (st : State) : Prop := st.pos.WF ∧ st.ori.WF τ

theorem addAngle_spec {m : Mo} (h : Adm m) (i : I) (h1 : i.lo ≤ i.hi) (h2 : i.hi - i.lo < m.τ) :
    ∃ i', addAngle m.τ i m.a = .ok i' ∧ IvMoved m i i' ∧ i'.lo ≤ i'.hi ∧ i'.hi - i'.lo < m.τ := by
  obtain ⟨k, hk, b1, b2⟩ := C16_angle_norm m.τ h.τpos (i.lo + m.a) (i.hi + m.a) (by linarith) (by linarith)
  refine ⟨⟨i.lo + m.a + k * m.τ, i.hi + m.a + k * m.τ⟩, ?_, ⟨k, rfl, rfl, b1, b2⟩, by simp; linarith, by simp; linarith⟩
  unfold addAngle mkAngle
  simp only [hk]
  have c2 : validOrientation m.τ (i.lo + m.a + k * m.τ) = true := by
    simp only [validOrientation, Bool.and_eq_true, decide_eq_true_eq]; exact ⟨b1, by linarith⟩
  have c3 : validOrientation m.τ (i.hi + m.a + k * m.τ) = true := by
    simp only [validOrientation, Bool.and_eq_true, decide_eq_true_eq]; exact ⟨by linarith, b2⟩
  have c4 : i.lo + m.a + k * m.τ ≤ i.hi + m.a + k * m.τ := by linarith
  simp [c2, c3, c4, h2]

/-- the shift of a constructed interval whose ends are valid orientations by a valid angle, computed exactly:
    `k = 0` when `[lo + a, hi + a]` is already inside `[-τ, τ]`, `k = -1` when `hi + a > τ`, `k = +1` when `lo + a < -τ`. -/
theorem addAngle_exact (τ a : Rat) (hτ : 0 < τ) (i : I) (h1 : i.lo ≤ i.hi) (h2 : i.hi - i.lo < τ)
    (hlo : -τ ≤ i.lo) (hhi : i.hi ≤ τ) (ha1 : -τ ≤ a) (ha2 : a ≤ τ) :
    addAngle τ i a = .ok (if τ < i.hi + a then ⟨i.lo + a - τ, i.hi + a - τ⟩
                          else if i.lo + a < -τ then ⟨i.lo + a + τ, i.hi + a + τ⟩ else ⟨i.lo + a, i.hi + a⟩) := by
  unfold addAngle mkAngle
  rw [makeValidInterval_exact τ (i.lo + a) (i.hi + a) (by linarith) (by linarith) (by linarith) (by linarith)]
  by_cases c : τ < i.hi + a
  · simp only [c, if_true]
    have v1 : validOrientation τ (i.lo + a - τ) = true := by
      simp only [validOrientation, Bool.and_eq_true, decide_eq_true_eq]; constructor <;> linarith
    have v2 : validOrientation τ (i.hi + a - τ) = true := by
      simp only [validOrientation, Bool.and_eq_true, decide_eq_true_eq]; constructor <;> linarith
    have v3 : i.hi + a - τ - (i.lo + a - τ) < τ := by linarith
    have v4 : i.lo + a - τ ≤ i.hi + a - τ := by linarith
    simp [v1, v2, v4, h2]
  · simp only [c, if_false]
    by_cases d : i.lo + a < -τ
    · simp only [d, if_true]
      have v1 : validOrientation τ (i.lo + a + τ) = true := by
        simp only [validOrientation, Bool.and_eq_true, decide_eq_true_eq]; constructor <;> linarith
      have v2 : validOrientation τ (i.hi + a + τ) = true := by
        simp only [validOrientation, Bool.and_eq_true, decide_eq_true_eq]; constructor <;> linarith
      have v3 : i.hi + a + τ - (i.lo + a + τ) < τ := by linarith
      have v4 : i.lo + a + τ ≤ i.hi + a + τ := by linarith
      simp [v1, v2, v4, h2]
    · simp only [d, if_false]
      have v1 : validOrientation τ (i.lo + a) = true := by
        simp only [validOrientation, Bool.and_eq_true, decide_eq_true_eq]; constructor <;> linarith
      have v2 : validOrientation τ (i.hi + a) = true := by
        simp only [validOrientation, Bool.and_eq_true, decide_eq_true_eq]; constructor <;> linarith
      have v3 : i.hi + a - (i.lo + a) < τ := by linarith
      have v4 : i.lo + a ≤ i.hi + a := by linarith
      simp [v1, v2, v4, h2]

theorem Pos.move_spec {m : Mo} (h : Adm m) : ∀ p : Pos, p.WF → ∃ p', p.move m = .ok p' ∧ Moved m p.obs p'.obs ∧ p'.WF
  | .none, _ => ⟨.none, rfl, Moved.nil m, trivial⟩
  | .pt p, _ => ⟨.pt (m.mv p), rfl, ⟨rfl, rfl, trivial, rfl, rfl, rfl, rfl, rfl⟩, trivial⟩
  | .region sh, hw => by
    obtain ⟨sh', e, hm, hw'⟩ := Shape.move_spec h sh hw
    exact ⟨.region sh', by simp [Pos.move, e], hm, hw'⟩
  | .other, hw => hw.elim

theorem Ori.move_spec {m : Mo} (h : Adm m) : ∀ o : Ori, o.WF m.τ →
    ∃ o', o.move m = .ok o' ∧ Moved m o.obs o'.obs ∧ o'.WF m.τ
  | .none, _ => ⟨.none, rfl, Moved.nil m, trivial⟩
  | .exact θ, _ => ⟨.exact (m.wr θ), rfl, ⟨rfl, rfl, trivial, rfl, rfl, rfl, rfl, rfl⟩, trivial⟩
  | .iv i, hw => by
    obtain ⟨i', e, hm, hv⟩ := addAngle_spec h i hw.1 hw.2
    exact ⟨.iv i', by simp [Ori.move, e], ⟨rfl, rfl, ⟨hm, trivial⟩, rfl, rfl, rfl, rfl, rfl⟩, hv⟩
  | .other, hw => hw.elim

theorem State.move_spec {m : Mo} (h : Adm m) (st : State) (hw : st.WF m.τ) :
    ∃ st', st.move m = .ok st' ∧ Moved m st.obs st'.obs ∧ st'.WF m.τ := by
  obtain ⟨p', e1, hm1, hw1⟩ := Pos.move_spec h st.pos hw.1
  obtain ⟨o', e2, hm2, hw2⟩ := Ori.move_spec h st.ori hw.2
  refine ⟨⟨p', o', st.vel.map m.rv⟩, by simp [State.move, guard_ok h, e1, e2], ?_, ⟨hw1, hw2⟩⟩
  refine Moved.app (Moved.app hm1 hm2) ⟨rfl, rfl, trivial, rfl, ?_, rfl, rfl, rfl⟩
  cases st.vel <;> rfl

theorem moveStates_spec {m : Mo} (h : Adm m) (l : List State) (hw : ∀ st ∈ l, st.WF m.τ) :
    ∃ l', moveStates m l = .ok l' ∧ Moved m (obsL State.obs l) (obsL State.obs l') ∧ (∀ st ∈ l', st.WF m.τ) :=
  let ⟨l', e, hm, hw', _⟩ := mapR_moved m (State.move m) State.obs (fun st => st.WF m.τ)
    (fun st hst => State.move_spec h st hst) l hw
  ⟨l', e, hm, hw'⟩

theorem moveOccs_spec {m : Mo} (h : Adm m) (l : List Shape) (hw : ∀ sh ∈ l, sh.WF) :
    ∃ l', moveOccs m l = .ok l' ∧ Moved m (obsL Shape.obs l) (obsL Shape.obs l') ∧ (∀ sh ∈ l', sh.WF) := by
  have := mapR_moved m (fun sh => match guard m with | .error e => .error e | .ok _ => Shape.move m sh) Shape.obs
    (fun sh => sh.WF)
    (fun sh hsh => let ⟨sh', e, hm, hw'⟩ := Shape.move_spec h sh hsh; ⟨sh', by simp [guard_ok h, e], hm, hw'⟩) l hw
  obtain ⟨l', e, hm, hw', _⟩ := this
  have e' : mapR (fun sh => Shape.move m sh) l = .ok l' := by simpa [guard_ok h] using e
  exact ⟨l', by simp [moveOccs, guard_ok h, e'], hm, hw'⟩

/-! ### road network -/

def stopLine (s : Option (Pt × Pt)) : List Pt := match s with | none => [] | some sl => [sl.1, sl.2]

def Lanelet.obs (la : Lanelet) : Obs :=
  { pts := la.left ++ la.center ++ la.right ++ stopLine la.stop ++ la.poly,
    lines := [la.left, la.center, la.right, stopLine la.stop],
    rings := [la.poly] }

/-- the stored polygon of a lanelet is the one its constructor builds from `right ++ reverse left`. -/
def Lanelet.WF (la : Lanelet) : Prop := polyMk (la.right ++ la.left.reverse) = .ok la.poly

theorem Lanelet.move_spec {m : Mo} (h : Adm m) (la : Lanelet) (hw : la.WF) :
    ∃ la', la.move m = .ok la' ∧ Moved m la.obs la'.obs ∧ la'.WF := by
  have e : polyMk (la.right.map m.mv ++ (la.left.map m.mv).reverse) = .ok (la.poly.map m.mv) := by
    have := polyMk_map m.c m.s m.t h.det (la.right ++ la.left.reverse)
    rw [hw] at this
    have hmv : m.mv = tr m.c m.s m.t := rfl
    rw [hmv]
    simpa [List.map_append, List.map_reverse, Except.map] using this
  refine ⟨⟨la.left.map m.mv, la.center.map m.mv, la.right.map m.mv,
           la.stop.map (fun sl => (m.mv sl.1, m.mv sl.2)), la.poly.map m.mv⟩, ?_, ?_, e⟩
  · cases hs : la.stop <;> simp [Lanelet.move, guard_ok h, moveStop, hs, e]
  · have hst : stopLine (la.stop.map (fun sl => (m.mv sl.1, m.mv sl.2))) = (stopLine la.stop).map m.mv := by
      cases la.stop <;> simp [stopLine]
    refine ⟨?_, rfl, trivial, rfl, rfl, ?_, ?_, rfl⟩
    · simp [Lanelet.obs, hst]
    · simp [Lanelet.obs]
    · simp [Lanelet.obs, hst]

def Light.obs (l : Light) : Obs := Obs.ofPts [l.pos]

theorem Light.move_spec {m : Mo} (h : Adm m) (l : Light) :
    ∃ l', l.move m = .ok l' ∧ Moved m l.obs l'.obs ∧ l'.shape = l.shape :=
  ⟨⟨m.mv l.pos, l.shape⟩, by simp [Light.move, movePosition, guard_ok h], Moved.ofPts m _, rfl⟩

/-! ### obstacles -/

def Pred.obs : Pred → Obs
  | .none => Obs.nil
  | .traj _ sts => obsL State.obs sts
  | .occ shs => obsL Shape.obs shs

def Pred.WF (τ : Rat) : Pred → Prop
  | .none => True
  | .traj _ sts => ∀ st ∈ sts, st.WF τ
  | .occ shs => ∀ sh ∈ shs, sh.WF

/-- every world-frame content of an obstacle: initial state, prediction, history, occupancies, environment shape. -/
def Obstacle.obs : Obstacle → Obs
  | .static _ st => st.obs
  | .dynamic _ st p hist => st.obs ++ p.obs ++ obsL State.obs hist
  | .phantom none => Obs.nil
  | .phantom (some shs) => obsL Shape.obs shs
  | .env sh => sh.obs

/-- body-frame shapes (`obstacle_shape`, `TrajectoryPrediction.shape`): must stay as they are. -/
def Obstacle.bodies : Obstacle → List Shape
  | .static b _ => [b]
  | .dynamic b _ (.traj pb _) _ => [b, pb]
  | .dynamic b _ _ _ => [b]
  | _ => []

def Obstacle.WF (τ : Rat) : Obstacle → Prop
  | .static _ st => st.WF τ
  | .dynamic _ st p hist => st.WF τ ∧ p.WF τ ∧ ∀ st ∈ hist, st.WF τ
  | .phantom none => True
  | .phantom (some shs) => ∀ sh ∈ shs, sh.WF
  | .env sh => sh.WF

theorem Pred.move_spec {m : Mo} (h : Adm m) : ∀ p : Pred, p.WF m.τ →
    ∃ p', p.move m = .ok p' ∧ Moved m p.obs p'.obs ∧ p'.WF m.τ
      ∧ (match p, p' with | .traj b _, .traj b' _ => b' = b | .traj _ _, _ => False | _, .traj _ _ => False | _, _ => True)
  | .none, _ => ⟨.none, rfl, Moved.nil m, trivial, trivial⟩
  | .traj b sts, hw => by
    obtain ⟨l', e, hm, hw'⟩ := moveStates_spec h sts hw
    exact ⟨.traj b l', by simp [Pred.move, moveTraj, guard_ok h, e], hm, hw', rfl⟩
  | .occ shs, hw => by
    obtain ⟨l', e, hm, hw'⟩ := moveOccs_spec h shs hw
    exact ⟨.occ l', by simp [Pred.move, e], hm, hw', trivial⟩

theorem Obstacle.move_spec {m : Mo} (h : Adm m) : ∀ o : Obstacle, o.WF m.τ →
    ∃ o', o.move m = .ok o' ∧ Moved m o.obs o'.obs ∧ o'.WF m.τ ∧ o'.bodies = o.bodies
  | .static b st, hw => by
    obtain ⟨st', e, hm, hw'⟩ := State.move_spec h st hw
    exact ⟨.static b st', by simp [Obstacle.move, guard_ok h, e], hm, hw', rfl⟩
  | .dynamic b st p hist, hw => by
    obtain ⟨st', e1, hm1, hw1⟩ := State.move_spec h st hw.1
    obtain ⟨p', e2, hm2, hw2, hb⟩ := Pred.move_spec h p hw.2.1
    obtain ⟨hist', e3, hm3, hw3⟩ := moveStates_spec h hist hw.2.2
    refine ⟨.dynamic b st' p' hist', by simp [Obstacle.move, guard_ok h, e1, e2, e3],
            Moved.app (Moved.app hm1 hm2) hm3, ⟨hw1, hw2, hw3⟩, ?_⟩
    cases p <;> cases p' <;> simp_all [Obstacle.bodies]
  | .phantom none, _ => ⟨.phantom none, by simp [Obstacle.move, guard_ok h], Moved.nil m, trivial, rfl⟩
  | .phantom (some shs), hw => by
    obtain ⟨l', e, hm, hw'⟩ := moveOccs_spec h shs hw
    exact ⟨.phantom (some l'), by simp [Obstacle.move, guard_ok h, e], hm, hw', rfl⟩
  | .env sh, hw => by
    obtain ⟨sh', e, hm, hw'⟩ := Shape.move_spec h sh hw
    exact ⟨.env sh', by simp [Obstacle.move, guard_ok h, e], hm, hw', rfl⟩

/-! ### scenario, planning problems -/

/-- area borders: every vertex, and every border as a polyline. -/
def areasObs (as : List (List (List Pt))) : Obs := { pts := as.flatten.flatten, lines := as.flatten }

theorem areasObs_moved (m : Mo) (as : List (List (List Pt))) :
    Moved m (areasObs as) (areasObs (as.map (List.map (List.map m.mv)))) := by
  refine ⟨?_, rfl, trivial, rfl, rfl, rfl, ?_, rfl⟩
  · simp only [areasObs, List.map_flatten, List.map_map]
  · simp only [areasObs, List.map_flatten, List.map_map]

/-- EVERYTHING spatial in the scenario record that lives in the world frame: lanelets (boundaries, center lines, stop lines,
    polygons), sign and light positions, all obstacles (states, predictions, histories, occupancies, environment shapes),
    area borders. -/
def Scenario.obs (sc : Scenario) : Obs :=
  obsL Lanelet.obs sc.lanelets ++ Obs.ofPts sc.signs ++ obsL Light.obs sc.lights ++ obsL Obstacle.obs sc.obstacles
    ++ areasObs sc.areas

def Scenario.WF (τ : Rat) (sc : Scenario) : Prop :=
  (∀ la ∈ sc.lanelets, la.WF) ∧ (∀ o ∈ sc.obstacles, o.WF τ)

def Problem.obs (pp : Problem) : Obs := pp.init.obs ++ obsL State.obs pp.goal

def Problem.WF (τ : Rat) (pp : Problem) : Prop := pp.init.WF τ ∧ ∀ st ∈ pp.goal, st.WF τ

theorem Scenario.move_spec {m : Mo} (h : Adm m) (sc : Scenario) (hw : sc.WF m.τ) :
    ∃ sc', sc.move m = .ok sc' ∧ Moved m sc.obs sc'.obs ∧ sc'.WF m.τ := by
  obtain ⟨ls, e1, hm1, hw1, _⟩ := mapR_moved m (Lanelet.move m) Lanelet.obs Lanelet.WF
    (fun la hla => Lanelet.move_spec h la hla) sc.lanelets hw.1
  obtain ⟨lt, e3, hm3, _, _⟩ := mapR_moved m (Light.move m) Light.obs (fun _ => True)
    (fun l _ => let ⟨l', e, hm, _⟩ := Light.move_spec h l; ⟨l', e, hm, trivial⟩) sc.lights (fun _ _ => trivial)
  obtain ⟨obs, e4, hm4, hw4, _⟩ := mapR_moved m (Obstacle.move m) Obstacle.obs (Obstacle.WF m.τ)
    (fun o ho => let ⟨o', e, hm, hw', _⟩ := Obstacle.move_spec h o ho; ⟨o', e, hm, hw'⟩) sc.obstacles hw.2
  refine ⟨⟨ls, sc.signs.map m.mv, lt, obs, sc.areas.map (List.map (List.map m.mv))⟩, ?_, ?_, ⟨hw1, hw4⟩⟩
  · simp [Scenario.move, guard_ok h, e1, mapR_movePosition h, e3, e4]
  · exact Moved.app (Moved.app (Moved.app (Moved.app hm1 (Moved.ofPts m _)) hm3) hm4) (areasObs_moved m _)

theorem Problem.move_spec {m : Mo} (h : Adm m) (pp : Problem) (hw : pp.WF m.τ) :
    ∃ pp', pp.move m = .ok pp' ∧ Moved m pp.obs pp'.obs ∧ pp'.WF m.τ := by
  obtain ⟨i', e1, hm1, hw1⟩ := State.move_spec h pp.init hw.1
  obtain ⟨g', e2, hm2, hw2⟩ := moveStates_spec h pp.goal hw.2
  exact ⟨⟨i', g'⟩, by simp [Problem.move, e1, e2], Moved.app hm1 hm2, ⟨hw1, hw2⟩⟩

theorem moveProblems_spec {m : Mo} (h : Adm m) (l : List Problem) (hw : ∀ pp ∈ l, pp.WF m.τ) :
    ∃ l', moveProblems m l = .ok l' ∧ Moved m (obsL Problem.obs l) (obsL Problem.obs l') ∧ (∀ pp ∈ l', pp.WF m.τ) :=
  let ⟨l', e, hm, hw', _⟩ := mapR_moved m (Problem.move m) Problem.obs (Problem.WF m.τ)
    (fun pp hpp => Problem.move_spec h pp hpp) l hw
  ⟨l', e, hm, hw'⟩

/-! ### consequences of `Moved` on a composite: distances, areas, lengths -/

/-- twice the signed area of the polygon with vertex list `l` (fan triangulation from the first vertex; for a closed ring
    this is the shoelace sum `chain2`, see `areaOf_eq_chain2`). -/
def areaOf : List Pt → Rat
  | [] => 0
  | p :: l => fan p (p :: l)

theorem areaOf_map (c s : Rat) (t : Pt) : ∀ l : List Pt, areaOf (l.map (tr c s t)) = (c ^ 2 + s ^ 2) * areaOf l
  | [] => by simp [areaOf]
  | p :: l => by
    have := fan_map c s t p p l
    simpa [areaOf] using this

theorem areaOf_eq_chain2 : ∀ l : List Pt, ClosedRing l → areaOf l = chain2 l
  | [], _ => by simp [areaOf, chain2]
  | p :: l, h => by
    have h' : lastOf p l = p := h
    have e := chain2_eq_fan p p l
    rw [h'] at e
    simp only [areaOf]; linarith

/-- squared lengths of the consecutive segments of a polyline -/
def segs2 : List Pt → List Rat
  | p :: q :: l => dist2 p q :: segs2 (q :: l)
  | _ => []

theorem segs2_map (c s : Rat) (h1 : c ^ 2 + s ^ 2 = 1) (t : Pt) : ∀ l : List Pt, segs2 (l.map (tr c s t)) = segs2 l
  | [] => rfl
  | [_] => rfl
  | p :: q :: l => by
    have ih := segs2_map c s h1 t (q :: l)
    simp only [List.map_cons] at ih ⊢
    simp only [segs2]
    rw [ih, dist2_tr, h1, one_mul]

theorem Moved.areas {m : Mo} {o o' : Obs} (hm : Moved m o o') (h1 : m.c ^ 2 + m.s ^ 2 = 1) :
    o'.rings.map areaOf = o.rings.map areaOf := by
  rw [hm.rings, List.map_map]
  apply List.map_congr_left
  intro r _
  have hmv : m.mv = tr m.c m.s m.t := rfl
  simp only [Function.comp, hmv, areaOf_map, h1, one_mul]

theorem Moved.lengths {m : Mo} {o o' : Obs} (hm : Moved m o o') (h1 : m.c ^ 2 + m.s ^ 2 = 1) :
    o'.lines.map segs2 = o.lines.map segs2 := by
  rw [hm.lines, List.map_map]
  apply List.map_congr_left
  intro r _
  have hmv : m.mv = tr m.c m.s m.t := rfl
  simp only [Function.comp, hmv, segs2_map m.c m.s h1]

theorem Moved.dists {m : Mo} {o o' : Obs} (hm : Moved m o o') (h1 : m.c ^ 2 + m.s ^ 2 = 1) :
    ∀ i j : Nat, ∀ p q p' q' : Pt, o.pts[i]? = some p → o.pts[j]? = some q →
      o'.pts[i]? = some p' → o'.pts[j]? = some q' → dist2 p' q' = dist2 p q := by
  intro i j p q p' q' hp hq hp' hq'
  rw [hm.pts, List.getElem?_map, hp] at hp'
  rw [hm.pts, List.getElem?_map, hq] at hq'
  simp only [Option.map_some, Option.some.injEq] at hp' hq'
  rw [← hp', ← hq']
  show dist2 (tr m.c m.s m.t p) (tr m.c m.s m.t q) = dist2 p q
  rw [dist2_tr, h1, one_mul]

/-! ### headings: points and orientations turn by the same rotation -/

/-- `dir` plays the role of `θ ↦ (cos θ, sin θ)`.  It is coherent with the motion `m` when turning the angle by `m.a`
    is the rotation by `(m.c, m.s)` (the angle-sum formulas with `c = cos a`, `s = sin a`) and it has period `τ`.
    This is the only place where the angle `a` and the matrix entries `(c, s)` are related. -/
structure Coherent (m : Mo) (dir : Rat → Pt) : Prop where
  add : ∀ θ, dir (θ + m.a) = m.rv (dir θ)
  period : ∀ θ (k : Int), dir (θ + k * m.τ) = dir θ

theorem Coherent.wr {m : Mo} {dir : Rat → Pt} (hc : Coherent m dir) (hτ : 0 < m.τ) (θ : Rat) :
    dir (m.wr θ) = m.rv (dir θ) := by
  obtain ⟨k, e, _, _⟩ := makeValid_spec m.τ hτ (θ + m.a)
  show dir (makeValid m.τ (θ + m.a)) = _
  rw [e, hc.period, hc.add]

def Rect.corners (dir : Rat → Pt) (r : Rect) : List Pt := rectCorners r.l r.w r.ctr (dir r.θ).x (dir r.θ).y

theorem rectCorners_tr (c s : Rat) (t ctr : Pt) (l w cθ sθ : Rat) :
    rectCorners l w (tr c s t ctr) (rot c s ⟨cθ, sθ⟩).x (rot c s ⟨cθ, sθ⟩).y
      = (rectCorners l w ctr cθ sθ).map (tr c s t) := by
  simp only [rectCorners, List.map_cons, List.map_nil, tr, rot]
  refine List.cons_eq_cons.mpr ⟨?_, List.cons_eq_cons.mpr ⟨?_, List.cons_eq_cons.mpr ⟨?_, List.cons_eq_cons.mpr ⟨?_, rfl⟩⟩⟩⟩ <;>
    (apply Pt.ext' <;> ring)

theorem Rect.corners_moved {m : Mo} {dir : Rat → Pt} (hc : Coherent m dir) (hτ : 0 < m.τ) (r : Rect) :
    (m.mvRect r).corners dir = (r.corners dir).map m.mv := by
  simp only [Rect.corners, Mo.mvRect]
  rw [hc.wr hτ]
  exact rectCorners_tr m.c m.s m.t r.ctr r.l r.w (dir r.θ).x (dir r.θ).y

theorem Moved.headings {m : Mo} {o o' : Obs} {dir : Rat → Pt} (hm : Moved m o o') (hc : Coherent m dir)
    (hτ : 0 < m.τ) : o'.angs.map dir = o.angs.map (fun θ => m.rv (dir θ)) := by
  rw [hm.angs, List.map_map]
  apply List.map_congr_left
  intro θ _
  exact hc.wr hτ θ

theorem Moved.corners {m : Mo} {o o' : Obs} {dir : Rat → Pt} (hm : Moved m o o') (hc : Coherent m dir)
    (hτ : 0 < m.τ) : o'.rects.map (Rect.corners dir) = o.rects.map (fun r => (r.corners dir).map m.mv) := by
  rw [hm.rects, List.map_map]
  apply List.map_congr_left
  intro r _
  exact Rect.corners_moved hc hτ r

theorem IvsMoved.headings {m : Mo} {dir : Rat → Pt} (hc : Coherent m dir) :
    ∀ {a b : List I}, IvsMoved m a b →
      b.map (fun i => (dir i.lo, dir i.hi)) = a.map (fun i => (m.rv (dir i.lo), m.rv (dir i.hi)))
  | [], [], _ => rfl
  | [], _ :: _, h => h.elim
  | _ :: _, [], h => h.elim
  | i :: _, j :: _, h => by
    obtain ⟨k, e1, e2, _, _⟩ := h.1
    simp only [List.map_cons]
    rw [IvsMoved.headings hc h.2, e1, e2, hc.period, hc.period, hc.add, hc.add]

/-! ### undoing the motion on a composite -/

/-- rotate back by `-a` about the origin (cos = c, sin = -s), no translation -/
def Mo.invRot (m : Mo) : Mo := ⟨m.c, -m.s, -m.a, ⟨0, 0⟩, m.τ⟩
/-- translate back by `-t`, angle 0 (cos = 1, sin = 0) -/
def Mo.invTr (m : Mo) : Mo := ⟨1, 0, 0, ⟨-m.t.x, -m.t.y⟩, m.τ⟩

theorem Adm.invRot {m : Mo} (h : Adm m) : Adm m.invRot := by
  refine ⟨h.τpos, ?_, ?_⟩
  · have := h.valid
    show validOrientation m.τ (-m.a) = true
    simp only [validOrientation, Bool.and_eq_true, decide_eq_true_eq] at this ⊢
    constructor <;> linarith [this.1, this.2]
  · have := h.det
    simp only [Mo.invRot]; nlinarith

theorem Adm.invTr {m : Mo} (h : Adm m) : Adm m.invTr := by
  refine ⟨h.τpos, ?_, by simp [Mo.invTr]⟩
  have := h.τpos
  show validOrientation m.τ 0 = true
  simp only [validOrientation, Bool.and_eq_true, decide_eq_true_eq]
  constructor <;> linarith

theorem mv_inverse {m : Mo} (h1 : m.c ^ 2 + m.s ^ 2 = 1) (p : Pt) : m.invTr.mv (m.invRot.mv (m.mv p)) = p := by
  apply Pt.ext'
  · simp only [Mo.mv, Mo.invTr, Mo.invRot, tr]; linear_combination (p.x + m.t.x) * h1
  · simp only [Mo.mv, Mo.invTr, Mo.invRot, tr]; linear_combination (p.y + m.t.y) * h1

theorem rv_inverse {m : Mo} (h1 : m.c ^ 2 + m.s ^ 2 = 1) (v : Pt) : m.invTr.rv (m.invRot.rv (m.rv v)) = v := by
  apply Pt.ext'
  · simp only [Mo.rv, Mo.invTr, Mo.invRot, rot]; linear_combination v.x * h1
  · simp only [Mo.rv, Mo.invTr, Mo.invRot, rot]; linear_combination v.y * h1

theorem wr_inverse {m : Mo} (hτ : 0 < m.τ) (θ : Rat) :
    ∃ k : Int, m.invTr.wr (m.invRot.wr (m.wr θ)) = θ + k * m.τ := by
  obtain ⟨k1, e1, _, _⟩ := makeValid_spec m.τ hτ (θ + m.a)
  obtain ⟨k2, e2, _, _⟩ := makeValid_spec m.τ hτ (makeValid m.τ (θ + m.a) + -m.a)
  obtain ⟨k3, e3, _, _⟩ := makeValid_spec m.τ hτ (makeValid m.τ (makeValid m.τ (θ + m.a) + -m.a) + 0)
  refine ⟨k1 + k2 + k3, ?_⟩
  show makeValid m.τ (makeValid m.τ (makeValid m.τ (θ + m.a) + -m.a) + 0) = _
  rw [e3, e2, e1]; push_cast; ring

theorem map3_id {α : Type} (f g h : α → α) (hid : ∀ x, h (g (f x)) = x) (l : List α) :
    ((l.map f).map g).map h = l := by
  rw [List.map_map, List.map_map]
  conv_rhs => rw [← List.map_id l]
  apply List.map_congr_left
  intro x _
  simp [Function.comp, hid]

/-- the composite is restored: every listed point, polygon, polyline, dimension and velocity vector is exactly what it was;
    orientations are what they were as angles (a common map `f` with `f θ = θ + k τ`), intervals are shifted by a multiple of
    `τ` (both ends alike). -/
structure Restored (τ : Rat) (o o' : Obs) : Prop where
  pts : o'.pts = o.pts
  dims : o'.dims = o.dims
  vels : o'.vels = o.vels
  rings : o'.rings = o.rings
  lines : o'.lines = o.lines
  angs : ∃ f : Rat → Rat, (∀ θ, ∃ k : Int, f θ = θ + k * τ) ∧ o'.angs = o.angs.map f
            ∧ o'.rects = o.rects.map (fun r => ⟨r.l, r.w, r.ctr, f r.θ⟩)
  ivs : IvsMoved ⟨1, 0, 0, ⟨0, 0⟩, τ⟩ o.ivs o'.ivs

theorem Moved.restored {m : Mo} {o o1 o2 o3 : Obs} (h1 : m.c ^ 2 + m.s ^ 2 = 1) (hτ : 0 < m.τ)
    (ha : Moved m o o1) (hb : Moved m.invRot o1 o2) (hc : Moved m.invTr o2 o3) : Restored m.τ o o3 := by
  refine ⟨?_, ?_, ?_, ?_, ?_, ⟨fun θ => m.invTr.wr (m.invRot.wr (m.wr θ)), wr_inverse hτ, ?_, ?_⟩, ?_⟩
  · rw [hc.pts, hb.pts, ha.pts]; exact map3_id _ _ _ (mv_inverse h1) _
  · rw [hc.dims, hb.dims, ha.dims]
  · rw [hc.vels, hb.vels, ha.vels]; exact map3_id _ _ _ (rv_inverse h1) _
  · rw [hc.rings, hb.rings, ha.rings]
    exact map3_id _ _ _ (fun r => map3_id _ _ _ (mv_inverse h1) r) _
  · rw [hc.lines, hb.lines, ha.lines]
    exact map3_id _ _ _ (fun r => map3_id _ _ _ (mv_inverse h1) r) _
  · rw [hc.angs, hb.angs, ha.angs, List.map_map, List.map_map]; rfl
  · rw [hc.rects, hb.rects, ha.rects, List.map_map, List.map_map]
    apply List.map_congr_left
    intro r _
    simp only [Function.comp, Mo.mvRect, mv_inverse h1]
  · have h12 : IvsMoved ⟨1, 0, 0, ⟨0, 0⟩, m.τ⟩ o.ivs o2.ivs :=
      IvsMoved.trans (m1 := m) (m2 := m.invRot) (m12 := ⟨1, 0, 0, ⟨0, 0⟩, m.τ⟩) rfl rfl (by simp [Mo.invRot]) ha.ivs hb.ivs
    exact IvsMoved.trans (m1 := ⟨1, 0, 0, ⟨0, 0⟩, m.τ⟩) (m2 := m.invTr) (m12 := ⟨1, 0, 0, ⟨0, 0⟩, m.τ⟩) rfl rfl
      (by simp [Mo.invTr]) h12 hc.ivs

end CR.Rigid
