/-
  CRProofs.Cache — helper lemmas for C11 (generic cached cell, table semantics, list facts for the history).
-/
import CRModel.Cache
namespace CR.Cache

/-! ## Generic cell -/

section generic
variable {P D M : Type} (S : Spec P D M)

/-- The cache slot is empty or holds exactly what would be derived from the current primary data. -/
def Coherent (c : Cell P D) : Prop := c.cache = none ∨ c.cache = some (S.derive c.primary)

/-- The side condition on the mutators: whoever leaves the slot alone does not change what `derive` yields. -/
def Sound : Prop := ∀ m p, S.act m = .keep → S.derive (S.eff m p) = S.derive p

theorem answer_of_coherent {c : Cell P D} (h : Coherent S c) : S.answer c = S.derive c.primary := by
  unfold Spec.answer
  rcases h with h | h <;> simp [h]

theorem coherent_step (hs : Sound S) {c : Cell P D} (h : Coherent S c) (e : Ev M) : Coherent S (S.step c e) := by
  cases e with
  | query =>
    right
    simp [Spec.step, answer_of_coherent S h]
  | mutate m =>
    unfold Spec.step
    cases ha : S.act m with
    | drop => left; simp [Action.apply, ha]
    | recompute => right; simp [Action.apply, ha]
    | keep =>
      rcases h with h | h
      · left; simp [Action.apply, h, ha]
      · right; simp [Action.apply, h, ha, hs m c.primary ha]

theorem coherent_run (hs : Sound S) : ∀ (evs : List (Ev M)) {c : Cell P D}, Coherent S c → Coherent S (S.run c evs)
  | [], _, h => h
  | e :: es, _, h => coherent_run hs es (coherent_step S hs h e)

theorem answers_fresh (hs : Sound S) : ∀ (evs : List (Ev M)) {c : Cell P D}, Coherent S c →
    ∀ x ∈ S.answers c evs, x.1 = S.derive x.2
  | [], _, _, x, hx => by simp [Spec.answers] at hx
  | .query :: es, c, h, x, hx => by
    simp only [Spec.answers, List.mem_cons] at hx
    rcases hx with rfl | hx
    · exact answer_of_coherent S h
    · exact answers_fresh hs es (coherent_step S hs h .query) x hx
  | .mutate m :: es, c, h, x, hx => by
    simp only [Spec.answers] at hx
    exact answers_fresh hs es (coherent_step S hs h (.mutate m)) x hx

/-- A `keep` mutator that changes the derived value makes the history query → mutate → query answer stale. -/
theorem stale_run (m : M) (p : P) (hk : S.act m = .keep) :
    S.answers ⟨p, none⟩ [.query, .mutate m, .query] = [(S.derive p, p), (S.derive p, S.eff m p)] := by
  simp [Spec.answers, Spec.step, Spec.answer, hk, Action.apply]

end generic

/-! ## Table semantics -/

theorem row_sound_of_mem {r : Row} (h : tableSound = true) (hr : r ∈ table) : r.sound = true := by
  unfold tableSound at h
  exact List.all_eq_true.mp h r hr

/-- If the table passes the decidable check, every item's token semantics satisfies the semantic side condition. -/
theorem tokenSpec_sound (h : tableSound = true) (i : Item) : Sound (tokenSpec i) := by
  intro m s hk
  have hr := row_sound_of_mem h m.mem
  simp only [tokenSpec] at hk ⊢
  unfold Row.sound at hr
  have hw : m.row.writes.all (fun f => !(reads m.row.item).contains f) = true := by
    rcases Bool.or_eq_true _ _ |>.mp hr with h1 | h2
    · simp [hk] at h1
    · exact h2
  rw [m.item] at hw
  apply List.map_congr_left
  intro f hf
  have hnot : f ∉ m.row.writes := by
    intro hmem
    have := List.all_eq_true.mp hw f hmem
    simp [hf] at this
  simp [hnot]

/-! ## List facts for the history clause -/

theorem lastN_length {α : Type} (m : Nat) (l : List α) : (lastN m l).length = min m l.length := by
  unfold lastN
  simp only [List.length_drop]
  omega

theorem lastN_of_le {α : Type} {m : Nat} {l : List α} (h : l.length ≤ m) : lastN m l = l := by
  unfold lastN
  have : l.length - m = 0 := by omega
  simp [this]

/-- Truncating, appending and truncating again is truncating once (constant bound `m ≥ 1`). -/
theorem lastN_append_lastN {α : Type} (m : Nat) (hm : 0 < m) (l : List α) (x : α) :
    lastN m (lastN m l ++ [x]) = lastN m (l ++ [x]) := by
  unfold lastN
  by_cases h : l.length ≤ m
  · have : l.length - m = 0 := by omega
    simp [this]
  · have h1 : (List.drop (l.length - m) l).length = m := by simp; omega
    simp only [List.length_append, List.length_cons, List.length_nil, h1]
    rw [List.drop_append_of_le_length (by simp; omega), List.drop_append_of_le_length (by omega)]
    rw [List.drop_drop]
    congr 2
    omega

end CR.Cache
