/-
  CRProofs.Cache — helper lemmas for C11 (generic cached cell, table semantics, list facts for the history).
-/
import CRModel.Cache
namespace CR.Cache

/-! ## Generic cell -/

section generic
variable {P D M : Type} (S : Spec P D M)

/-- The cache slot is empty or holds exactly what would be derived from the current primary data. -/
def Coherent (c : Cell P D) : Prop := c.cache = none ∨ c.cache = some (S.derive c.primary)

/-- The side condition on ONE mutator: if it leaves the slot alone it does not change what `derive` yields; if it
    patches the slot, the patch of a fresh value is the fresh value for the new primary data. -/
def SoundAt (m : M) : Prop :=
  (S.act m = .keep → ∀ p, S.derive (S.eff m p) = S.derive p) ∧
  (S.act m = .update → ∀ p, S.upd m (S.derive p) = S.derive (S.eff m p))

def Sound : Prop := ∀ m, SoundAt S m

/-- The mutators of a history all satisfy the side condition. -/
def SoundOn (evs : List (Ev M)) : Prop := ∀ m, Ev.mutate m ∈ evs → SoundAt S m

theorem answer_of_coherent {c : Cell P D} (h : Coherent S c) : S.answer c = S.derive c.primary := by
  unfold Spec.answer
  rcases h with h | h <;> simp [h]

theorem coherent_query {c : Cell P D} (h : Coherent S c) : Coherent S (S.step c .query) := by
  right
  simp [Spec.step, answer_of_coherent S h]

theorem coherent_mutate {m : M} (hs : SoundAt S m) {c : Cell P D} (h : Coherent S c) : Coherent S (S.step c (.mutate m)) := by
  unfold Spec.step
  cases ha : S.act m with
  | drop => left; simp [Action.apply, ha]
  | recompute => right; simp [Action.apply, ha]
  | update =>
    rcases h with h | h
    · left; simp [Action.apply, h, ha]
    · right; simp [Action.apply, h, ha, hs.2 ha c.primary]
  | keep =>
    rcases h with h | h
    · left; simp [Action.apply, h, ha]
    · right; simp [Action.apply, h, ha, hs.1 ha c.primary]

theorem SoundOn.tail {e : Ev M} {es : List (Ev M)} (h : SoundOn S (e :: es)) : SoundOn S es :=
  fun m hm => h m (List.mem_cons_of_mem _ hm)

theorem coherent_run : ∀ (evs : List (Ev M)) {c : Cell P D}, SoundOn S evs → Coherent S c → Coherent S (S.run c evs)
  | [], _, _, h => h
  | .query :: es, _, hs, h => coherent_run es hs.tail (coherent_query S h)
  | .mutate m :: es, _, hs, h => coherent_run es hs.tail (coherent_mutate S (hs m (by simp)) h)

theorem answers_fresh : ∀ (evs : List (Ev M)) {c : Cell P D}, SoundOn S evs → Coherent S c →
    ∀ x ∈ S.answers c evs, x.1 = S.derive x.2
  | [], _, _, _, x, hx => by simp [Spec.answers] at hx
  | .query :: es, c, hs, h, x, hx => by
    simp only [Spec.answers, List.mem_cons] at hx
    rcases hx with rfl | hx
    · exact answer_of_coherent S h
    · exact answers_fresh es hs.tail (coherent_query S h) x hx
  | .mutate m :: es, c, hs, h, x, hx => by
    simp only [Spec.answers] at hx
    exact answers_fresh es hs.tail (coherent_mutate S (hs m (by simp)) h) x hx

/-- A `keep` mutator makes the history query → mutate → query repeat the first answer. -/
theorem stale_run (m : M) (p : P) (hk : S.act m = .keep) :
    S.answers ⟨p, none⟩ [.query, .mutate m, .query] = [(S.derive p, p), (S.derive p, S.eff m p)] := by
  simp [Spec.answers, Spec.step, Spec.answer, hk, Action.apply]

/-- An `update` mutator makes it answer with the patched first answer. -/
theorem patched_run (m : M) (p : P) (hk : S.act m = .update) :
    S.answers ⟨p, none⟩ [.query, .mutate m, .query] = [(S.derive p, p), (S.upd m (S.derive p), S.eff m p)] := by
  simp [Spec.answers, Spec.step, Spec.answer, hk, Action.apply]

end generic

/-! ## Table semantics -/

theorem mem_table (i : Item) (m : Mut) : (⟨i, m, writesOf m, act i m⟩ : Row) ∈ table := by
  unfold table
  simp only [List.mem_flatMap, List.mem_map]
  exact ⟨i, by cases i <;> simp [allItems], m, by cases m <;> simp [allMuts], rfl⟩

/-- A pair that passes the decidable check satisfies the semantic side condition in the token semantics. -/
theorem tokenSpec_soundAt (i : Item) (x : Inv) (h : pairSound i x.m = true) : SoundAt (tokenSpec i) x := by
  constructor
  · intro hk s
    simp only [tokenSpec] at hk ⊢
    have hw : (writesOf x.m).all (fun f => !(reads i).contains f) = true := by
      unfold pairSound at h
      rcases Bool.or_eq_true _ _ |>.mp h with h1 | h2
      · simp [hk] at h1
      · exact h2
    apply List.map_congr_left
    intro f hf
    have hnot : f ∉ writesOf x.m := by
      intro hmem
      have := List.all_eq_true.mp hw f hmem
      simp [hf] at this
    simp [hnot]
  · intro _ s
    simp only [tokenSpec]
    rw [List.zipWith_map_right]
    simp [List.zipWith_self]

/-- A pair that fails it is refuted by the history query → mutate → query (the written field gets a new version). -/
theorem tokenSpec_stale (i : Item) (m : Mut) (h : pairSound i m = false) :
    ∃ s v, ∃ x ∈ (tokenSpec i).answers ⟨s, none⟩ [.query, .mutate ⟨m, v⟩, .query], x.1 ≠ (reads i).map x.2 := by
  unfold pairSound at h
  simp only [Bool.or_eq_false_iff, bne_eq_false_iff_eq] at h
  obtain ⟨hk, hw⟩ := h
  have : ∃ f ∈ writesOf m, f ∈ reads i := by
    obtain ⟨f, hf, hp⟩ := List.all_eq_false.mp hw
    exact ⟨f, hf, by simpa using hp⟩
  obtain ⟨f, hf1, hf2⟩ := this
  refine ⟨fun _ => 0, 1, ?_⟩
  rw [stale_run (tokenSpec i) ⟨m, 1⟩ _ (by simpa [tokenSpec] using hk)]
  refine ⟨_, List.mem_cons_of_mem _ (List.mem_singleton.mpr rfl), ?_⟩
  simp only [tokenSpec]
  intro heq
  have h1 := congrArg (fun l => l.all (· == 0)) heq
  simp only [List.all_map] at h1
  have hl : ((reads i).all fun f => (fun _ => (0 : Nat)) f == 0) = true := by simp
  have hr : ((reads i).all fun f' => (if (writesOf m).contains f' then 1 else 0) == 0) = false := by
    apply Bool.eq_false_iff.mpr
    intro hall
    have := List.all_eq_true.mp hall f hf2
    simp [hf1] at this
  simp only [Function.comp_def] at h1
  rw [hl] at h1
  exact absurd (h1.trans hr) (by decide)

/-! ## The table's entries as rewrite rules (one per pair; changing an entry of `act` breaks the rule and the proofs that use it) -/

@[simp] theorem act_occupancySet_predSetShape : act .occupancySet .predSetShape = .drop := rfl
@[simp] theorem act_occupancySet_predSetTrajectory : act .occupancySet .predSetTrajectory = .drop := rfl
@[simp] theorem act_occupancySet_predSetWheelbase : act .occupancySet .predSetWheelbase = .drop := rfl
@[simp] theorem act_occupancySet_predSetAssignment : act .occupancySet .predSetAssignment = .keep := rfl
@[simp] theorem act_occupancySet_predTranslateRotate : act .occupancySet .predTranslateRotate = .drop := rfl
@[simp] theorem act_occupancySet_trajTranslateRotate : act .occupancySet .trajTranslateRotate = .keep := rfl
@[simp] theorem act_occupancySet_trajAppendState : act .occupancySet .trajAppendState = .keep := rfl
@[simp] theorem act_occupancySet_obsSetInitialState : act .occupancySet .obsSetInitialState = .keep := rfl
@[simp] theorem act_occupancySet_obsSetShape : act .occupancySet .obsSetShape = .keep := rfl
@[simp] theorem act_occupancySet_obsTranslateRotate : act .occupancySet .obsTranslateRotate = .drop := rfl
@[simp] theorem act_occupancySet_obsSetPrediction : act .occupancySet .obsSetPrediction = .drop := rfl
@[simp] theorem act_occupancySet_obsUpdateInitialState : act .occupancySet .obsUpdateInitialState = .drop := rfl
@[simp] theorem act_occupancySet_lanTranslateRotate : act .occupancySet .lanTranslateRotate = .keep := rfl
@[simp] theorem act_occupancySet_lanConvert2d : act .occupancySet .lanConvert2d = .keep := rfl
@[simp] theorem act_occupancySet_netAddLanelet : act .occupancySet .netAddLanelet = .keep := rfl
@[simp] theorem act_occupancySet_netAddFromNetwork : act .occupancySet .netAddFromNetwork = .keep := rfl
@[simp] theorem act_occupancySet_netRemoveLanelet : act .occupancySet .netRemoveLanelet = .keep := rfl
@[simp] theorem act_occupancySet_netTranslateRotate : act .occupancySet .netTranslateRotate = .keep := rfl
@[simp] theorem act_occupancySet_netConvert2d : act .occupancySet .netConvert2d = .keep := rfl
@[simp] theorem act_occupancySet_netDeepcopy : act .occupancySet .netDeepcopy = .keep := rfl
@[simp] theorem act_occupancySet_netPickle : act .occupancySet .netPickle = .keep := rfl
@[simp] theorem act_occupancySet_cycSetElements : act .occupancySet .cycSetElements = .keep := rfl
@[simp] theorem act_occupancySet_cycSetOffset : act .occupancySet .cycSetOffset = .keep := rfl
@[simp] theorem act_occupancySet_cycSetActive : act .occupancySet .cycSetActive = .keep := rfl
@[simp] theorem act_initialOccupancy_predSetShape : act .initialOccupancy .predSetShape = .keep := rfl
@[simp] theorem act_initialOccupancy_predSetTrajectory : act .initialOccupancy .predSetTrajectory = .keep := rfl
@[simp] theorem act_initialOccupancy_predSetWheelbase : act .initialOccupancy .predSetWheelbase = .keep := rfl
@[simp] theorem act_initialOccupancy_predSetAssignment : act .initialOccupancy .predSetAssignment = .keep := rfl
@[simp] theorem act_initialOccupancy_predTranslateRotate : act .initialOccupancy .predTranslateRotate = .keep := rfl
@[simp] theorem act_initialOccupancy_trajTranslateRotate : act .initialOccupancy .trajTranslateRotate = .keep := rfl
@[simp] theorem act_initialOccupancy_trajAppendState : act .initialOccupancy .trajAppendState = .keep := rfl
@[simp] theorem act_initialOccupancy_obsSetInitialState : act .initialOccupancy .obsSetInitialState = .recompute := rfl
@[simp] theorem act_initialOccupancy_obsSetShape : act .initialOccupancy .obsSetShape = .keep := rfl
@[simp] theorem act_initialOccupancy_obsTranslateRotate : act .initialOccupancy .obsTranslateRotate = .recompute := rfl
@[simp] theorem act_initialOccupancy_obsSetPrediction : act .initialOccupancy .obsSetPrediction = .keep := rfl
@[simp] theorem act_initialOccupancy_obsUpdateInitialState : act .initialOccupancy .obsUpdateInitialState = .recompute := rfl
@[simp] theorem act_initialOccupancy_lanTranslateRotate : act .initialOccupancy .lanTranslateRotate = .keep := rfl
@[simp] theorem act_initialOccupancy_lanConvert2d : act .initialOccupancy .lanConvert2d = .keep := rfl
@[simp] theorem act_initialOccupancy_netAddLanelet : act .initialOccupancy .netAddLanelet = .keep := rfl
@[simp] theorem act_initialOccupancy_netAddFromNetwork : act .initialOccupancy .netAddFromNetwork = .keep := rfl
@[simp] theorem act_initialOccupancy_netRemoveLanelet : act .initialOccupancy .netRemoveLanelet = .keep := rfl
@[simp] theorem act_initialOccupancy_netTranslateRotate : act .initialOccupancy .netTranslateRotate = .keep := rfl
@[simp] theorem act_initialOccupancy_netConvert2d : act .initialOccupancy .netConvert2d = .keep := rfl
@[simp] theorem act_initialOccupancy_netDeepcopy : act .initialOccupancy .netDeepcopy = .keep := rfl
@[simp] theorem act_initialOccupancy_netPickle : act .initialOccupancy .netPickle = .keep := rfl
@[simp] theorem act_initialOccupancy_cycSetElements : act .initialOccupancy .cycSetElements = .keep := rfl
@[simp] theorem act_initialOccupancy_cycSetOffset : act .initialOccupancy .cycSetOffset = .keep := rfl
@[simp] theorem act_initialOccupancy_cycSetActive : act .initialOccupancy .cycSetActive = .keep := rfl
@[simp] theorem act_laneletPolygon_predSetShape : act .laneletPolygon .predSetShape = .keep := rfl
@[simp] theorem act_laneletPolygon_predSetTrajectory : act .laneletPolygon .predSetTrajectory = .keep := rfl
@[simp] theorem act_laneletPolygon_predSetWheelbase : act .laneletPolygon .predSetWheelbase = .keep := rfl
@[simp] theorem act_laneletPolygon_predSetAssignment : act .laneletPolygon .predSetAssignment = .keep := rfl
@[simp] theorem act_laneletPolygon_predTranslateRotate : act .laneletPolygon .predTranslateRotate = .keep := rfl
@[simp] theorem act_laneletPolygon_trajTranslateRotate : act .laneletPolygon .trajTranslateRotate = .keep := rfl
@[simp] theorem act_laneletPolygon_trajAppendState : act .laneletPolygon .trajAppendState = .keep := rfl
@[simp] theorem act_laneletPolygon_obsSetInitialState : act .laneletPolygon .obsSetInitialState = .keep := rfl
@[simp] theorem act_laneletPolygon_obsSetShape : act .laneletPolygon .obsSetShape = .keep := rfl
@[simp] theorem act_laneletPolygon_obsTranslateRotate : act .laneletPolygon .obsTranslateRotate = .keep := rfl
@[simp] theorem act_laneletPolygon_obsSetPrediction : act .laneletPolygon .obsSetPrediction = .keep := rfl
@[simp] theorem act_laneletPolygon_obsUpdateInitialState : act .laneletPolygon .obsUpdateInitialState = .keep := rfl
@[simp] theorem act_laneletPolygon_lanTranslateRotate : act .laneletPolygon .lanTranslateRotate = .recompute := rfl
@[simp] theorem act_laneletPolygon_lanConvert2d : act .laneletPolygon .lanConvert2d = .recompute := rfl
@[simp] theorem act_laneletPolygon_netAddLanelet : act .laneletPolygon .netAddLanelet = .keep := rfl
@[simp] theorem act_laneletPolygon_netAddFromNetwork : act .laneletPolygon .netAddFromNetwork = .keep := rfl
@[simp] theorem act_laneletPolygon_netRemoveLanelet : act .laneletPolygon .netRemoveLanelet = .keep := rfl
@[simp] theorem act_laneletPolygon_netTranslateRotate : act .laneletPolygon .netTranslateRotate = .recompute := rfl
@[simp] theorem act_laneletPolygon_netConvert2d : act .laneletPolygon .netConvert2d = .recompute := rfl
@[simp] theorem act_laneletPolygon_netDeepcopy : act .laneletPolygon .netDeepcopy = .keep := rfl
@[simp] theorem act_laneletPolygon_netPickle : act .laneletPolygon .netPickle = .keep := rfl
@[simp] theorem act_laneletPolygon_cycSetElements : act .laneletPolygon .cycSetElements = .keep := rfl
@[simp] theorem act_laneletPolygon_cycSetOffset : act .laneletPolygon .cycSetOffset = .keep := rfl
@[simp] theorem act_laneletPolygon_cycSetActive : act .laneletPolygon .cycSetActive = .keep := rfl
@[simp] theorem act_laneletDistance_predSetShape : act .laneletDistance .predSetShape = .keep := rfl
@[simp] theorem act_laneletDistance_predSetTrajectory : act .laneletDistance .predSetTrajectory = .keep := rfl
@[simp] theorem act_laneletDistance_predSetWheelbase : act .laneletDistance .predSetWheelbase = .keep := rfl
@[simp] theorem act_laneletDistance_predSetAssignment : act .laneletDistance .predSetAssignment = .keep := rfl
@[simp] theorem act_laneletDistance_predTranslateRotate : act .laneletDistance .predTranslateRotate = .keep := rfl
@[simp] theorem act_laneletDistance_trajTranslateRotate : act .laneletDistance .trajTranslateRotate = .keep := rfl
@[simp] theorem act_laneletDistance_trajAppendState : act .laneletDistance .trajAppendState = .keep := rfl
@[simp] theorem act_laneletDistance_obsSetInitialState : act .laneletDistance .obsSetInitialState = .keep := rfl
@[simp] theorem act_laneletDistance_obsSetShape : act .laneletDistance .obsSetShape = .keep := rfl
@[simp] theorem act_laneletDistance_obsTranslateRotate : act .laneletDistance .obsTranslateRotate = .keep := rfl
@[simp] theorem act_laneletDistance_obsSetPrediction : act .laneletDistance .obsSetPrediction = .keep := rfl
@[simp] theorem act_laneletDistance_obsUpdateInitialState : act .laneletDistance .obsUpdateInitialState = .keep := rfl
@[simp] theorem act_laneletDistance_lanTranslateRotate : act .laneletDistance .lanTranslateRotate = .keep := rfl
@[simp] theorem act_laneletDistance_lanConvert2d : act .laneletDistance .lanConvert2d = .drop := rfl
@[simp] theorem act_laneletDistance_netAddLanelet : act .laneletDistance .netAddLanelet = .keep := rfl
@[simp] theorem act_laneletDistance_netAddFromNetwork : act .laneletDistance .netAddFromNetwork = .keep := rfl
@[simp] theorem act_laneletDistance_netRemoveLanelet : act .laneletDistance .netRemoveLanelet = .keep := rfl
@[simp] theorem act_laneletDistance_netTranslateRotate : act .laneletDistance .netTranslateRotate = .keep := rfl
@[simp] theorem act_laneletDistance_netConvert2d : act .laneletDistance .netConvert2d = .drop := rfl
@[simp] theorem act_laneletDistance_netDeepcopy : act .laneletDistance .netDeepcopy = .keep := rfl
@[simp] theorem act_laneletDistance_netPickle : act .laneletDistance .netPickle = .keep := rfl
@[simp] theorem act_laneletDistance_cycSetElements : act .laneletDistance .cycSetElements = .keep := rfl
@[simp] theorem act_laneletDistance_cycSetOffset : act .laneletDistance .cycSetOffset = .keep := rfl
@[simp] theorem act_laneletDistance_cycSetActive : act .laneletDistance .cycSetActive = .keep := rfl
@[simp] theorem act_laneletInnerDistance_predSetShape : act .laneletInnerDistance .predSetShape = .keep := rfl
@[simp] theorem act_laneletInnerDistance_predSetTrajectory : act .laneletInnerDistance .predSetTrajectory = .keep := rfl
@[simp] theorem act_laneletInnerDistance_predSetWheelbase : act .laneletInnerDistance .predSetWheelbase = .keep := rfl
@[simp] theorem act_laneletInnerDistance_predSetAssignment : act .laneletInnerDistance .predSetAssignment = .keep := rfl
@[simp] theorem act_laneletInnerDistance_predTranslateRotate : act .laneletInnerDistance .predTranslateRotate = .keep := rfl
@[simp] theorem act_laneletInnerDistance_trajTranslateRotate : act .laneletInnerDistance .trajTranslateRotate = .keep := rfl
@[simp] theorem act_laneletInnerDistance_trajAppendState : act .laneletInnerDistance .trajAppendState = .keep := rfl
@[simp] theorem act_laneletInnerDistance_obsSetInitialState : act .laneletInnerDistance .obsSetInitialState = .keep := rfl
@[simp] theorem act_laneletInnerDistance_obsSetShape : act .laneletInnerDistance .obsSetShape = .keep := rfl
@[simp] theorem act_laneletInnerDistance_obsTranslateRotate : act .laneletInnerDistance .obsTranslateRotate = .keep := rfl
@[simp] theorem act_laneletInnerDistance_obsSetPrediction : act .laneletInnerDistance .obsSetPrediction = .keep := rfl
@[simp] theorem act_laneletInnerDistance_obsUpdateInitialState : act .laneletInnerDistance .obsUpdateInitialState = .keep := rfl
@[simp] theorem act_laneletInnerDistance_lanTranslateRotate : act .laneletInnerDistance .lanTranslateRotate = .keep := rfl
@[simp] theorem act_laneletInnerDistance_lanConvert2d : act .laneletInnerDistance .lanConvert2d = .drop := rfl
@[simp] theorem act_laneletInnerDistance_netAddLanelet : act .laneletInnerDistance .netAddLanelet = .keep := rfl
@[simp] theorem act_laneletInnerDistance_netAddFromNetwork : act .laneletInnerDistance .netAddFromNetwork = .keep := rfl
@[simp] theorem act_laneletInnerDistance_netRemoveLanelet : act .laneletInnerDistance .netRemoveLanelet = .keep := rfl
@[simp] theorem act_laneletInnerDistance_netTranslateRotate : act .laneletInnerDistance .netTranslateRotate = .keep := rfl
@[simp] theorem act_laneletInnerDistance_netConvert2d : act .laneletInnerDistance .netConvert2d = .drop := rfl
@[simp] theorem act_laneletInnerDistance_netDeepcopy : act .laneletInnerDistance .netDeepcopy = .keep := rfl
@[simp] theorem act_laneletInnerDistance_netPickle : act .laneletInnerDistance .netPickle = .keep := rfl
@[simp] theorem act_laneletInnerDistance_cycSetElements : act .laneletInnerDistance .cycSetElements = .keep := rfl
@[simp] theorem act_laneletInnerDistance_cycSetOffset : act .laneletInnerDistance .cycSetOffset = .keep := rfl
@[simp] theorem act_laneletInnerDistance_cycSetActive : act .laneletInnerDistance .cycSetActive = .keep := rfl
@[simp] theorem act_networkIndex_predSetShape : act .networkIndex .predSetShape = .keep := rfl
@[simp] theorem act_networkIndex_predSetTrajectory : act .networkIndex .predSetTrajectory = .keep := rfl
@[simp] theorem act_networkIndex_predSetWheelbase : act .networkIndex .predSetWheelbase = .keep := rfl
@[simp] theorem act_networkIndex_predSetAssignment : act .networkIndex .predSetAssignment = .keep := rfl
@[simp] theorem act_networkIndex_predTranslateRotate : act .networkIndex .predTranslateRotate = .keep := rfl
@[simp] theorem act_networkIndex_trajTranslateRotate : act .networkIndex .trajTranslateRotate = .keep := rfl
@[simp] theorem act_networkIndex_trajAppendState : act .networkIndex .trajAppendState = .keep := rfl
@[simp] theorem act_networkIndex_obsSetInitialState : act .networkIndex .obsSetInitialState = .keep := rfl
@[simp] theorem act_networkIndex_obsSetShape : act .networkIndex .obsSetShape = .keep := rfl
@[simp] theorem act_networkIndex_obsTranslateRotate : act .networkIndex .obsTranslateRotate = .keep := rfl
@[simp] theorem act_networkIndex_obsSetPrediction : act .networkIndex .obsSetPrediction = .keep := rfl
@[simp] theorem act_networkIndex_obsUpdateInitialState : act .networkIndex .obsUpdateInitialState = .keep := rfl
@[simp] theorem act_networkIndex_lanTranslateRotate : act .networkIndex .lanTranslateRotate = .keep := rfl
@[simp] theorem act_networkIndex_lanConvert2d : act .networkIndex .lanConvert2d = .keep := rfl
@[simp] theorem act_networkIndex_netAddLanelet : act .networkIndex .netAddLanelet = .update := rfl
@[simp] theorem act_networkIndex_netAddFromNetwork : act .networkIndex .netAddFromNetwork = .update := rfl
@[simp] theorem act_networkIndex_netRemoveLanelet : act .networkIndex .netRemoveLanelet = .update := rfl
@[simp] theorem act_networkIndex_netTranslateRotate : act .networkIndex .netTranslateRotate = .recompute := rfl
@[simp] theorem act_networkIndex_netConvert2d : act .networkIndex .netConvert2d = .keep := rfl
@[simp] theorem act_networkIndex_netDeepcopy : act .networkIndex .netDeepcopy = .keep := rfl
@[simp] theorem act_networkIndex_netPickle : act .networkIndex .netPickle = .keep := rfl
@[simp] theorem act_networkIndex_cycSetElements : act .networkIndex .cycSetElements = .keep := rfl
@[simp] theorem act_networkIndex_cycSetOffset : act .networkIndex .cycSetOffset = .keep := rfl
@[simp] theorem act_networkIndex_cycSetActive : act .networkIndex .cycSetActive = .keep := rfl
@[simp] theorem act_cycleInit_predSetShape : act .cycleInit .predSetShape = .keep := rfl
@[simp] theorem act_cycleInit_predSetTrajectory : act .cycleInit .predSetTrajectory = .keep := rfl
@[simp] theorem act_cycleInit_predSetWheelbase : act .cycleInit .predSetWheelbase = .keep := rfl
@[simp] theorem act_cycleInit_predSetAssignment : act .cycleInit .predSetAssignment = .keep := rfl
@[simp] theorem act_cycleInit_predTranslateRotate : act .cycleInit .predTranslateRotate = .keep := rfl
@[simp] theorem act_cycleInit_trajTranslateRotate : act .cycleInit .trajTranslateRotate = .keep := rfl
@[simp] theorem act_cycleInit_trajAppendState : act .cycleInit .trajAppendState = .keep := rfl
@[simp] theorem act_cycleInit_obsSetInitialState : act .cycleInit .obsSetInitialState = .keep := rfl
@[simp] theorem act_cycleInit_obsSetShape : act .cycleInit .obsSetShape = .keep := rfl
@[simp] theorem act_cycleInit_obsTranslateRotate : act .cycleInit .obsTranslateRotate = .keep := rfl
@[simp] theorem act_cycleInit_obsSetPrediction : act .cycleInit .obsSetPrediction = .keep := rfl
@[simp] theorem act_cycleInit_obsUpdateInitialState : act .cycleInit .obsUpdateInitialState = .keep := rfl
@[simp] theorem act_cycleInit_lanTranslateRotate : act .cycleInit .lanTranslateRotate = .keep := rfl
@[simp] theorem act_cycleInit_lanConvert2d : act .cycleInit .lanConvert2d = .keep := rfl
@[simp] theorem act_cycleInit_netAddLanelet : act .cycleInit .netAddLanelet = .keep := rfl
@[simp] theorem act_cycleInit_netAddFromNetwork : act .cycleInit .netAddFromNetwork = .keep := rfl
@[simp] theorem act_cycleInit_netRemoveLanelet : act .cycleInit .netRemoveLanelet = .keep := rfl
@[simp] theorem act_cycleInit_netTranslateRotate : act .cycleInit .netTranslateRotate = .keep := rfl
@[simp] theorem act_cycleInit_netConvert2d : act .cycleInit .netConvert2d = .keep := rfl
@[simp] theorem act_cycleInit_netDeepcopy : act .cycleInit .netDeepcopy = .keep := rfl
@[simp] theorem act_cycleInit_netPickle : act .cycleInit .netPickle = .keep := rfl
@[simp] theorem act_cycleInit_cycSetElements : act .cycleInit .cycSetElements = .drop := rfl
@[simp] theorem act_cycleInit_cycSetOffset : act .cycleInit .cycSetOffset = .drop := rfl
@[simp] theorem act_cycleInit_cycSetActive : act .cycleInit .cycSetActive = .keep := rfl

@[simp] theorem act_occupancySet_netCreateFrom : act .occupancySet .netCreateFrom = .keep := rfl
@[simp] theorem act_occupancySet_netReplace : act .occupancySet .netReplace = .keep := rfl
@[simp] theorem act_occupancySet_elemSetDuration : act .occupancySet .elemSetDuration = .keep := rfl
@[simp] theorem act_occupancySet_elemSetState : act .occupancySet .elemSetState = .keep := rfl
@[simp] theorem act_occupancySet_elemsListEdit : act .occupancySet .elemsListEdit = .keep := rfl
@[simp] theorem act_initialOccupancy_netCreateFrom : act .initialOccupancy .netCreateFrom = .keep := rfl
@[simp] theorem act_initialOccupancy_netReplace : act .initialOccupancy .netReplace = .keep := rfl
@[simp] theorem act_initialOccupancy_elemSetDuration : act .initialOccupancy .elemSetDuration = .keep := rfl
@[simp] theorem act_initialOccupancy_elemSetState : act .initialOccupancy .elemSetState = .keep := rfl
@[simp] theorem act_initialOccupancy_elemsListEdit : act .initialOccupancy .elemsListEdit = .keep := rfl
@[simp] theorem act_laneletPolygon_netCreateFrom : act .laneletPolygon .netCreateFrom = .keep := rfl
@[simp] theorem act_laneletPolygon_netReplace : act .laneletPolygon .netReplace = .recompute := rfl
@[simp] theorem act_laneletPolygon_elemSetDuration : act .laneletPolygon .elemSetDuration = .keep := rfl
@[simp] theorem act_laneletPolygon_elemSetState : act .laneletPolygon .elemSetState = .keep := rfl
@[simp] theorem act_laneletPolygon_elemsListEdit : act .laneletPolygon .elemsListEdit = .keep := rfl
@[simp] theorem act_laneletDistance_netCreateFrom : act .laneletDistance .netCreateFrom = .keep := rfl
@[simp] theorem act_laneletDistance_netReplace : act .laneletDistance .netReplace = .drop := rfl
@[simp] theorem act_laneletDistance_elemSetDuration : act .laneletDistance .elemSetDuration = .keep := rfl
@[simp] theorem act_laneletDistance_elemSetState : act .laneletDistance .elemSetState = .keep := rfl
@[simp] theorem act_laneletDistance_elemsListEdit : act .laneletDistance .elemsListEdit = .keep := rfl
@[simp] theorem act_laneletInnerDistance_netCreateFrom : act .laneletInnerDistance .netCreateFrom = .keep := rfl
@[simp] theorem act_laneletInnerDistance_netReplace : act .laneletInnerDistance .netReplace = .drop := rfl
@[simp] theorem act_laneletInnerDistance_elemSetDuration : act .laneletInnerDistance .elemSetDuration = .keep := rfl
@[simp] theorem act_laneletInnerDistance_elemSetState : act .laneletInnerDistance .elemSetState = .keep := rfl
@[simp] theorem act_laneletInnerDistance_elemsListEdit : act .laneletInnerDistance .elemsListEdit = .keep := rfl
@[simp] theorem act_networkIndex_netCreateFrom : act .networkIndex .netCreateFrom = .recompute := rfl
@[simp] theorem act_networkIndex_netReplace : act .networkIndex .netReplace = .recompute := rfl
@[simp] theorem act_networkIndex_elemSetDuration : act .networkIndex .elemSetDuration = .keep := rfl
@[simp] theorem act_networkIndex_elemSetState : act .networkIndex .elemSetState = .keep := rfl
@[simp] theorem act_networkIndex_elemsListEdit : act .networkIndex .elemsListEdit = .keep := rfl
@[simp] theorem act_cycleInit_netCreateFrom : act .cycleInit .netCreateFrom = .keep := rfl
@[simp] theorem act_cycleInit_netReplace : act .cycleInit .netReplace = .keep := rfl
@[simp] theorem act_cycleInit_elemSetDuration : act .cycleInit .elemSetDuration = .drop := rfl
@[simp] theorem act_cycleInit_elemSetState : act .cycleInit .elemSetState = .keep := rfl
@[simp] theorem act_cycleInit_elemsListEdit : act .cycleInit .elemsListEdit = .drop := rfl

/-! ## List facts for the history clause -/

theorem lastN_length {α : Type} (m : Nat) (l : List α) : (lastN m l).length = min m l.length := by
  unfold lastN
  simp only [List.length_drop]
  omega

theorem lastN_of_le {α : Type} {m : Nat} {l : List α} (h : l.length ≤ m) : lastN m l = l := by
  unfold lastN
  have : l.length - m = 0 := by omega
  simp [this]

/-- Truncating, appending and truncating again is truncating once (constant bound `m ≥ 1`). -/
theorem lastN_append_lastN {α : Type} (m : Nat) (hm : 0 < m) (l : List α) (x : α) :
    lastN m (lastN m l ++ [x]) = lastN m (l ++ [x]) := by
  unfold lastN
  by_cases h : l.length ≤ m
  · have : l.length - m = 0 := by omega
    simp [this]
  · have h1 : (List.drop (l.length - m) l).length = m := by simp; omega
    simp only [List.length_append, List.length_cons, List.length_nil, h1]
    rw [List.drop_append_of_le_length (by simp; omega), List.drop_append_of_le_length (by omega)]
    rw [List.drop_drop]
    congr 2
    omega

/-- Truncating, appending and truncating again is truncating once. -/
theorem lastN_lastN_append {α : Type} (m : Nat) (l r : List α) :
    lastN m (lastN m l ++ r) = lastN m (l ++ r) := by
  unfold lastN
  by_cases h : l.length ≤ m
  · have : l.length - m = 0 := by omega
    simp [this]
  · have h1 : (List.drop (l.length - m) l).length = m := by simp; omega
    rw [List.drop_append, List.drop_append, List.drop_drop]
    simp only [List.length_append, h1]
    congr 2 <;> omega

/-! ## Association lists (the dicts `_lanelets`, `_buffered_polygons`) -/

theorem assocGet_map {α β : Type} (f : α → β) (k : Nat) : ∀ (l : List (Nat × α)),
    assocGet k (l.map (fun p => (p.1, f p.2))) = (assocGet k l).map f
  | [] => rfl
  | (i, a) :: r => by
    simp only [List.map_cons, assocGet]
    split
    · rfl
    · exact assocGet_map f k r

theorem assocGet_mem {α : Type} {k : Nat} {a : α} : ∀ {l : List (Nat × α)}, assocGet k l = some a → (k, a) ∈ l
  | [], h => by simp [assocGet] at h
  | (i, b) :: r, h => by
    simp only [assocGet] at h
    split at h
    · next hik => simp at h; subst h; subst hik; simp
    · exact List.mem_cons_of_mem _ (assocGet_mem h)

theorem assocErase_map {α β : Type} (f : α → β) (k : Nat) (l : List (Nat × α)) :
    (assocErase k l).map (fun p => (p.1, f p.2)) = assocErase k (l.map (fun p => (p.1, f p.2))) := by
  unfold assocErase
  rw [List.filter_map]
  rfl

theorem mem_assocErase {α : Type} {k : Nat} {l : List (Nat × α)} {p : Nat × α} (h : p ∈ assocErase k l) : p ∈ l := by
  unfold assocErase at h
  exact (List.mem_filter.mp h).1

/-- Replacing the value of a key by one with the same image leaves the mapped list unchanged. -/
theorem assocSet_map_eq {α β : Type} (f : α → β) (k : Nat) (a a' : α) (hf : f a' = f a) : ∀ (l : List (Nat × α)),
    assocGet k l = some a → (assocSet k a' l).map (fun p => (p.1, f p.2)) = l.map (fun p => (p.1, f p.2))
  | [], h => by simp [assocGet] at h
  | (i, b) :: r, h => by
    simp only [assocGet] at h
    simp only [assocSet]
    split
    · next hik =>
      simp only [hik, if_true] at h
      simp at h
      subst h
      simp [hf]
    · next hik =>
      simp only [hik, if_false] at h
      simp [assocSet_map_eq f k a a' hf r h]

theorem mem_assocSet {α : Type} {k : Nat} {a' : α} : ∀ {l : List (Nat × α)} {p : Nat × α},
    p ∈ assocSet k a' l → p ∈ l ∨ p = (k, a')
  | [], p, h => by simp [assocSet] at h
  | (i, b) :: r, p, h => by
    simp only [assocSet] at h
    split at h
    · next hik =>
      rcases List.mem_cons.mp h with h | h
      · right; rw [h, hik]
      · left; exact List.mem_cons_of_mem _ h
    · rcases List.mem_cons.mp h with h | h
      · left; rw [h]; simp
      · rcases mem_assocSet h with h | h
        · left; exact List.mem_cons_of_mem _ h
        · right; exact h

theorem map_lastN {α β : Type} (g : α → β) (m : Nat) (l : List α) : (lastN m l).map g = lastN m (l.map g) := by
  unfold lastN
  rw [List.map_drop, List.length_map]

end CR.Cache
