/-
  CRProofs.Cache — helper lemmas for C11 (generic cached cell, table semantics, list facts for the history).
-/
import CRModel.Cache
namespace CR.Cache

/-! ## Generic cell -/

section generic
variable {P D M : Type} (S : Spec P D M)

/-- The cache slot is empty or holds exactly what would be derived from the current primary data. -/
def Coherent (c : Cell P D) : Prop := c.cache = none ∨ c.cache = some (S.derive c.primary)

/-- The side condition on the mutators: whoever leaves the slot alone does not change what `derive` yields. -/
def Sound : Prop := ∀ m p, S.act m = .keep → S.derive (S.eff m p) = S.derive p

theorem answer_of_coherent {c : Cell P D} (h : Coherent S c) : S.answer c = S.derive c.primary := by
  unfold Spec.answer
  rcases h with h | h <;> simp [h]

theorem coherent_step (hs : Sound S) {c : Cell P D} (h : Coherent S c) (e : Ev M) : Coherent S (S.step c e) := by
  cases e with
  | query =>
    right
    simp [Spec.step, answer_of_coherent S h]
  | mutate m =>
    unfold Spec.step
    cases ha : S.act m with
    | drop => left; simp [Action.apply, ha]
    | recompute => right; simp [Action.apply, ha]
    | keep =>
      rcases h with h | h
      · left; simp [Action.apply, h, ha]
      · right; simp [Action.apply, h, ha, hs m c.primary ha]

theorem coherent_run (hs : Sound S) : ∀ (evs : List (Ev M)) {c : Cell P D}, Coherent S c → Coherent S (S.run c evs)
  | [], _, h => h
  | e :: es, _, h => coherent_run hs es (coherent_step S hs h e)

theorem answers_fresh (hs : Sound S) : ∀ (evs : List (Ev M)) {c : Cell P D}, Coherent S c →
    ∀ x ∈ S.answers c evs, x.1 = S.derive x.2
  | [], _, _, x, hx => by simp [Spec.answers] at hx
  | .query :: es, c, h, x, hx => by
    simp only [Spec.answers, List.mem_cons] at hx
    rcases hx with rfl | hx
    · exact answer_of_coherent S h
    · exact answers_fresh hs es (coherent_step S hs h .query) x hx
  | .mutate m :: es, c, h, x, hx => by
    simp only [Spec.answers] at hx
    exact answers_fresh hs es (coherent_step S hs h (.mutate m)) x hx

/-- A `keep` mutator that changes the derived value makes the history query → mutate → query answer stale. -/
theorem stale_run (m : M) (p : P) (hk : S.act m = .keep) :
    S.answers ⟨p, none⟩ [.query, .mutate m, .query] = [(S.derive p, p), (S.derive p, S.eff m p)] := by
  simp [Spec.answers, Spec.step, Spec.answer, hk, Action.apply]

end generic

/-! ## Table semantics -/

theorem row_sound_of_mem {r : Row} (h : tableSound = true) (hr : r ∈ table) : r.sound = true := by
  unfold tableSound at h
  exact List.all_eq_true.mp h r hr

/-- If the table passes the decidable check, every item's token semantics satisfies the semantic side condition. -/
theorem tokenSpec_sound (h : tableSound = true) (i : Item) : Sound (tokenSpec i) := by
  intro m s hk
  have hr := row_sound_of_mem h m.mem
  simp only [tokenSpec] at hk ⊢
  unfold Row.sound at hr
  have hw : m.row.writes.all (fun f => !(reads m.row.item).contains f) = true := by
    rcases Bool.or_eq_true _ _ |>.mp hr with h1 | h2
    · simp [hk] at h1
    · exact h2
  rw [m.item] at hw
  apply List.map_congr_left
  intro f hf
  have hnot : f ∉ m.row.writes := by
    intro hmem
    have := List.all_eq_true.mp hw f hmem
    simp [hf] at this
  simp [hnot]

/-! ## The table's actions as rewrite rules (each one is an entry of `table`; flipping an entry breaks the proofs that use it) -/

@[simp] theorem act_occupancySet_predSetShape : act .occupancySet .predSetShape = .drop := by decide
@[simp] theorem act_occupancySet_predSetTrajectory : act .occupancySet .predSetTrajectory = .drop := by decide
@[simp] theorem act_occupancySet_predSetWheelbase : act .occupancySet .predSetWheelbase = .drop := by decide
@[simp] theorem act_occupancySet_predSetAssignment : act .occupancySet .predSetAssignment = .keep := by decide
@[simp] theorem act_occupancySet_predTranslateRotate : act .occupancySet .predTranslateRotate = .drop := by decide
@[simp] theorem act_occupancySet_obsTranslateRotate : act .occupancySet .obsTranslateRotate = .drop := by decide
@[simp] theorem act_occupancySet_obsSetPrediction : act .occupancySet .obsSetPrediction = .drop := by decide
@[simp] theorem act_occupancySet_obsUpdateInitialState : act .occupancySet .obsUpdateInitialState = .drop := by decide
@[simp] theorem act_initialOccupancy_obsSetInitialState : act .initialOccupancy .obsSetInitialState = .recompute := by decide
@[simp] theorem act_initialOccupancy_obsSetShape : act .initialOccupancy .obsSetShape = .keep := by decide
@[simp] theorem act_initialOccupancy_obsTranslateRotate : act .initialOccupancy .obsTranslateRotate = .recompute := by decide
@[simp] theorem act_initialOccupancy_obsSetPrediction : act .initialOccupancy .obsSetPrediction = .keep := by decide
@[simp] theorem act_initialOccupancy_obsUpdateInitialState : act .initialOccupancy .obsUpdateInitialState = .recompute := by decide
@[simp] theorem act_laneletPolygon_lanTranslateRotate : act .laneletPolygon .lanTranslateRotate = .recompute := by decide
@[simp] theorem act_laneletPolygon_lanConvert2d : act .laneletPolygon .lanConvert2d = .recompute := by decide
@[simp] theorem act_laneletDistance_lanTranslateRotate : act .laneletDistance .lanTranslateRotate = .keep := by decide
@[simp] theorem act_laneletDistance_lanConvert2d : act .laneletDistance .lanConvert2d = .drop := by decide
@[simp] theorem act_laneletInnerDistance_lanTranslateRotate : act .laneletInnerDistance .lanTranslateRotate = .keep := by decide
@[simp] theorem act_laneletInnerDistance_lanConvert2d : act .laneletInnerDistance .lanConvert2d = .drop := by decide
@[simp] theorem act_laneletPolygon_netTranslateRotate : act .laneletPolygon .netTranslateRotate = .recompute := by decide
@[simp] theorem act_laneletPolygon_netConvert2d : act .laneletPolygon .netConvert2d = .recompute := by decide
@[simp] theorem act_laneletDistance_netTranslateRotate : act .laneletDistance .netTranslateRotate = .keep := by decide
@[simp] theorem act_laneletDistance_netConvert2d : act .laneletDistance .netConvert2d = .drop := by decide
@[simp] theorem act_laneletInnerDistance_netTranslateRotate : act .laneletInnerDistance .netTranslateRotate = .keep := by decide
@[simp] theorem act_laneletInnerDistance_netConvert2d : act .laneletInnerDistance .netConvert2d = .drop := by decide
@[simp] theorem act_networkIndex_netAddLanelet : act .networkIndex .netAddLanelet = .recompute := by decide
@[simp] theorem act_networkIndex_netAddFromNetwork : act .networkIndex .netAddFromNetwork = .recompute := by decide
@[simp] theorem act_networkIndex_netRemoveLanelet : act .networkIndex .netRemoveLanelet = .recompute := by decide
@[simp] theorem act_networkIndex_netTranslateRotate : act .networkIndex .netTranslateRotate = .recompute := by decide
@[simp] theorem act_networkIndex_netConvert2d : act .networkIndex .netConvert2d = .keep := by decide
@[simp] theorem act_networkIndex_netDeepcopy : act .networkIndex .netDeepcopy = .keep := by decide
@[simp] theorem act_networkIndex_netPickle : act .networkIndex .netPickle = .keep := by decide
@[simp] theorem act_cycleInit_cycSetElements : act .cycleInit .cycSetElements = .drop := by decide
@[simp] theorem act_cycleInit_cycSetOffset : act .cycleInit .cycSetOffset = .drop := by decide
@[simp] theorem act_cycleInit_cycSetActive : act .cycleInit .cycSetActive = .keep := by decide

/-! ## List facts for the history clause -/

theorem lastN_length {α : Type} (m : Nat) (l : List α) : (lastN m l).length = min m l.length := by
  unfold lastN
  simp only [List.length_drop]
  omega

theorem lastN_of_le {α : Type} {m : Nat} {l : List α} (h : l.length ≤ m) : lastN m l = l := by
  unfold lastN
  have : l.length - m = 0 := by omega
  simp [this]

/-- Truncating, appending and truncating again is truncating once (constant bound `m ≥ 1`). -/
theorem lastN_append_lastN {α : Type} (m : Nat) (hm : 0 < m) (l : List α) (x : α) :
    lastN m (lastN m l ++ [x]) = lastN m (l ++ [x]) := by
  unfold lastN
  by_cases h : l.length ≤ m
  · have : l.length - m = 0 := by omega
    simp [this]
  · have h1 : (List.drop (l.length - m) l).length = m := by simp; omega
    simp only [List.length_append, List.length_cons, List.length_nil, h1]
    rw [List.drop_append_of_le_length (by simp; omega), List.drop_append_of_le_length (by omega)]
    rw [List.drop_drop]
    congr 2
    omega

/-- Truncating, appending and truncating again is truncating once. -/
theorem lastN_lastN_append {α : Type} (m : Nat) (l r : List α) :
    lastN m (lastN m l ++ r) = lastN m (l ++ r) := by
  unfold lastN
  by_cases h : l.length ≤ m
  · have : l.length - m = 0 := by omega
    simp [this]
  · have h1 : (List.drop (l.length - m) l).length = m := by simp; omega
    rw [List.drop_append, List.drop_append, List.drop_drop]
    simp only [List.length_append, h1]
    congr 2 <;> omega

/-! ## Association lists (the dicts `_lanelets`, `_buffered_polygons`) -/

theorem assocGet_map {α β : Type} (f : α → β) (k : Nat) : ∀ (l : List (Nat × α)),
    assocGet k (l.map (fun p => (p.1, f p.2))) = (assocGet k l).map f
  | [] => rfl
  | (i, a) :: r => by
    simp only [List.map_cons, assocGet]
    split
    · rfl
    · exact assocGet_map f k r

theorem assocGet_mem {α : Type} {k : Nat} {a : α} : ∀ {l : List (Nat × α)}, assocGet k l = some a → (k, a) ∈ l
  | [], h => by simp [assocGet] at h
  | (i, b) :: r, h => by
    simp only [assocGet] at h
    split at h
    · next hik => simp at h; subst h; subst hik; simp
    · exact List.mem_cons_of_mem _ (assocGet_mem h)

theorem assocErase_map {α β : Type} (f : α → β) (k : Nat) (l : List (Nat × α)) :
    (assocErase k l).map (fun p => (p.1, f p.2)) = assocErase k (l.map (fun p => (p.1, f p.2))) := by
  unfold assocErase
  rw [List.filter_map]
  rfl

theorem mem_assocErase {α : Type} {k : Nat} {l : List (Nat × α)} {p : Nat × α} (h : p ∈ assocErase k l) : p ∈ l := by
  unfold assocErase at h
  exact (List.mem_filter.mp h).1

/-- Replacing the value of a key by one with the same image leaves the mapped list unchanged. -/
theorem assocSet_map_eq {α β : Type} (f : α → β) (k : Nat) (a a' : α) (hf : f a' = f a) : ∀ (l : List (Nat × α)),
    assocGet k l = some a → (assocSet k a' l).map (fun p => (p.1, f p.2)) = l.map (fun p => (p.1, f p.2))
  | [], h => by simp [assocGet] at h
  | (i, b) :: r, h => by
    simp only [assocGet] at h
    simp only [assocSet]
    split
    · next hik =>
      simp only [hik, if_true] at h
      simp at h
      subst h
      simp [hf]
    · next hik =>
      simp only [hik, if_false] at h
      simp [assocSet_map_eq f k a a' hf r h]

theorem mem_assocSet {α : Type} {k : Nat} {a' : α} : ∀ {l : List (Nat × α)} {p : Nat × α},
    p ∈ assocSet k a' l → p ∈ l ∨ p = (k, a')
  | [], p, h => by simp [assocSet] at h
  | (i, b) :: r, p, h => by
    simp only [assocSet] at h
    split at h
    · next hik =>
      rcases List.mem_cons.mp h with h | h
      · right; rw [h, hik]
      · left; exact List.mem_cons_of_mem _ h
    · rcases List.mem_cons.mp h with h | h
      · left; rw [h]; simp
      · rcases mem_assocSet h with h | h
        · left; exact List.mem_cons_of_mem _ h
        · right; exact h

end CR.Cache
