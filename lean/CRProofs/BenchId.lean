import CRModel.BenchId
