/-
  CRProofs.BenchId — helper lemmas for C13 (digits, span / split / join, the normal form of a printed id).
-/
import CRModel.BenchId
set_option linter.unusedSimpArgs false
namespace CR.BenchId

/-! ## digits -/

theorem digitChar_isDigit : ∀ d, d < 10 → (digitChar d).isDigit = true := by decide
theorem digitChar_isDigit19 : ∀ d, d < 10 → 0 < d → isDigit19 (digitChar d) = true := by decide
theorem digitVal_digitChar : ∀ d, d < 10 → digitVal (digitChar d) = d := by decide

theorem natToDigitsF_fuel : ∀ (f g n : Nat), n ≤ f → n ≤ g → natToDigitsF f n = natToDigitsF g n := by
  intro f
  induction f with
  | zero =>
    intro g n hf hg
    have : n = 0 := by omega
    subst this
    cases g <;> simp [natToDigitsF]
  | succ f ih =>
    intro g n hf hg
    cases g with
    | zero =>
      have : n = 0 := by omega
      subst this
      simp [natToDigitsF]
    | succ g =>
      simp only [natToDigitsF]
      split
      · rfl
      · rw [ih g (n / 10) (by omega) (by omega)]

theorem natToDigits_lt {n : Nat} (h : n < 10) : natToDigits n = [digitChar n] := by
  unfold natToDigits
  cases n with
  | zero => simp [natToDigitsF]
  | succ k => simp [natToDigitsF, h]

theorem natToDigits_ge {n : Nat} (h : 10 ≤ n) :
    natToDigits n = natToDigits (n / 10) ++ [digitChar (n % 10)] := by
  unfold natToDigits
  cases n with
  | zero => omega
  | succ k =>
    simp only [natToDigitsF]
    rw [if_neg (by omega)]
    rw [natToDigitsF_fuel k ((k + 1) / 10) ((k + 1) / 10) (by omega) (by omega)]

theorem digitsToNat_append (a : Str) (c : Char) : digitsToNat (a ++ [c]) = digitsToNat a * 10 + digitVal c := by
  simp [digitsToNat, List.foldl_append]

/-- `int(str(n)) = n` -/
theorem digitsToNat_natToDigits (n : Nat) : digitsToNat (natToDigits n) = n := by
  induction n using Nat.strongRecOn with
  | ind n ih =>
    by_cases h : n < 10
    · rw [natToDigits_lt h]
      simp [digitsToNat, digitVal_digitChar n h]
    · rw [natToDigits_ge (by omega), digitsToNat_append, ih (n / 10) (by omega),
        digitVal_digitChar _ (Nat.mod_lt _ (by omega))]
      omega

theorem natToDigits_all_digit (n : Nat) : ∀ c ∈ natToDigits n, c.isDigit = true := by
  induction n using Nat.strongRecOn with
  | ind n ih =>
    by_cases h : n < 10
    · rw [natToDigits_lt h]
      intro c hc
      simp at hc
      subst hc
      exact digitChar_isDigit n h
    · rw [natToDigits_ge (by omega)]
      intro c hc
      rcases List.mem_append.1 hc with hc | hc
      · exact ih (n / 10) (by omega) c hc
      · simp at hc
        subst hc
        exact digitChar_isDigit _ (Nat.mod_lt _ (by omega))

/-- `str(n)` for `n > 0` is `[1-9][0-9]*` -/
theorem natToDigits_pos {n : Nat} (hn : 0 < n) :
    ∃ c t, natToDigits n = c :: t ∧ isDigit19 c = true ∧ ∀ x ∈ t, x.isDigit = true := by
  induction n using Nat.strongRecOn with
  | ind n ih =>
    by_cases h : n < 10
    · exact ⟨digitChar n, [], natToDigits_lt h, digitChar_isDigit19 n h hn, by simp⟩
    · obtain ⟨c, t, e, hc, ht⟩ := ih (n / 10) (by omega) (by omega)
      refine ⟨c, t ++ [digitChar (n % 10)], by rw [natToDigits_ge (by omega), e]; rfl, hc, ?_⟩
      intro x hx
      rcases List.mem_append.1 hx with hx | hx
      · exact ht x hx
      · simp at hx
        subst hx
        exact digitChar_isDigit _ (Nat.mod_lt _ (by omega))

theorem natToDigits_ne_nil (n : Nat) : natToDigits n ≠ [] := by
  by_cases h : n < 10
  · rw [natToDigits_lt h]; simp
  · rw [natToDigits_ge (by omega)]; simp

theorem intRepr_ofNat (n : Nat) : intRepr (n : Int) = natToDigits n := by
  simp [intRepr]

/-! ## span, split, join -/

theorem span_append (p : Char → Bool) (a r : Str) (ha : ∀ c ∈ a, p c = true)
    (hr : ∀ x ∈ r.head?, p x = false) : span p (a ++ r) = (a, r) := by
  induction a with
  | nil =>
    cases r with
    | nil => rfl
    | cons x t =>
      have : p x = false := hr x (by simp)
      simp [span, this]
  | cons c a ih =>
    have hc : p c = true := ha c (by simp)
    have := ih (fun x hx => ha x (by simp [hx]))
    simp [span, hc, this]

theorem splitOn'_notin (c : Char) (a : Str) (h : c ∉ a) : splitOn' c a = (a, []) := by
  induction a with
  | nil => rfl
  | cons x a ih =>
    have hx : x ≠ c := fun e => h (by simp [e])
    have := ih (fun hm => h (by simp [hm]))
    simp [splitOn', hx, this]

theorem splitOn_notin (c : Char) (a : Str) (h : c ∉ a) : splitOn c a = [a] := by
  simp [splitOn, splitOn'_notin c a h]

theorem splitOn_append (c : Char) (a b : Str) (h : c ∉ a) : splitOn c (a ++ c :: b) = a :: splitOn c b := by
  induction a with
  | nil => simp [splitOn, splitOn']
  | cons x a ih =>
    have hx : x ≠ c := fun e => h (by simp [e])
    have := ih (fun hm => h (by simp [hm]))
    simp only [splitOn, List.cons_append, splitOn', hx, if_false] at this ⊢
    simp only [List.cons.injEq] at this
    simp [this.1, this.2]

theorem splitOn_join (c : Char) : ∀ (l : List Str), l ≠ [] → (∀ a ∈ l, c ∉ a) → splitOn c (join c l) = l
  | [], h, _ => absurd rfl h
  | [a], _, h => by simpa [join] using splitOn_notin c a (h a (by simp))
  | a :: b :: t, _, h => by
    rw [join, splitOn_append c a _ (h a (by simp)), splitOn_join c (b :: t) (by simp) (fun x hx => h x (by simp [hx]))]

theorem mem_join (c : Char) : ∀ (l : List Str) (x : Char), x ∈ join c l → x = c ∨ ∃ a ∈ l, x ∈ a
  | [], x, h => by simp [join] at h
  | [a], x, h => by simp [join] at h; exact Or.inr ⟨a, by simp, h⟩
  | a :: b :: t, x, h => by
    rw [join] at h
    rcases List.mem_append.1 h with h | h
    · exact Or.inr ⟨a, by simp, h⟩
    · rcases List.mem_cons.1 h with h | h
      · exact Or.inl h
      · rcases mem_join c (b :: t) x h with h | ⟨y, hy, hx⟩
        · exact Or.inl h
        · exact Or.inr ⟨y, by simp [hy], hx⟩

/-! ## character facts -/

theorem upper_alnum {c : Char} (h : c.isUpper = true) : c.isAlphanum = true := by
  simp [Char.isAlphanum, Char.isAlpha, h]

theorem digit_alnum {c : Char} (h : c.isDigit = true) : c.isAlphanum = true := by
  simp [Char.isAlphanum, h]

theorem isDigit19_digit {c : Char} (h : isDigit19 c = true) : c.isDigit = true := by
  simp [isDigit19] at h; exact h.1

theorem upper_ne_dash {c : Char} (h : c.isUpper = true) : c ≠ '-' := by
  intro e; subst e; revert h; decide

theorem alnum_ne {c d : Char} (h : c.isAlphanum = true) (hd : d.isAlphanum = false) : c ≠ d := by
  intro e; subst e; rw [h] at hd; cases hd

theorem isSTPI_cases {t : Char} (h : isSTPI t = true) : t = 'S' ∨ t = 'T' ∨ t = 'P' ∨ t = 'I' := by
  simpa [isSTPI, or_assoc] using h

theorem isSTPI_alnum {t : Char} (h : isSTPI t = true) : t.isAlphanum = true := by
  rcases isSTPI_cases h with e | e | e | e <;> subst e <;> decide

/-! ## normal form of a printed id -/

inductive NFTail where
  | map
  | cfg (c : Nat)
  | pred (c : Nat) (t : Char) (ps : List Nat)

structure NF where
  coop : Bool
  a : Char
  b : Char
  c : Char
  name : Str
  mapId : Nat
  tail : NFTail

/-- `-p1-p2…` -/
def predStr : List Nat → Str
  | [] => []
  | n :: t => '-' :: (natToDigits n ++ predStr t)

def NFTail.str : NFTail → Str
  | .map => []
  | .cfg c => '_' :: natToDigits c
  | .pred c t ps => '_' :: (natToDigits c ++ '_' :: t :: predStr ps)

def NF.body (x : NF) : Str :=
  x.a :: x.b :: x.c :: '_' :: (x.name ++ '-' :: (natToDigits x.mapId ++ x.tail.str))

def NF.str (x : NF) : Str := if x.coop then 'C' :: '-' :: x.body else x.body

def NFTail.Ok : NFTail → Prop
  | .map => True
  | .cfg c => 0 < c
  | .pred c t ps => 0 < c ∧ isSTPI t = true ∧ ps ≠ [] ∧ ∀ p ∈ ps, 0 < p

structure NF.Ok (x : NF) : Prop where
  ua : x.a.isUpper = true
  ub : x.b.isUpper = true
  uc : x.c.isUpper = true
  name_ne : x.name ≠ []
  name_alnum : ∀ ch ∈ x.name, ch.isAlphanum = true
  mapId_pos : 0 < x.mapId
  tail : x.tail.Ok

def predOfList : List Nat → Pred
  | [n] => .one n
  | l => .many (l.map fun (n : Nat) => (n : Int))

def NFTail.config : NFTail → Option Int
  | .map => none | .cfg c => some c | .pred c _ _ => some c
def NFTail.beh : NFTail → Option Str
  | .pred _ t _ => some [t] | _ => none
def NFTail.predv : NFTail → Pred
  | .pred _ _ ps => predOfList ps | _ => .none

def NF.toId (x : NF) (v : Str) : Id :=
  { coop := x.coop, country := [x.a, x.b, x.c], mapName := x.name, mapId := x.mapId, config := x.tail.config,
    beh := x.tail.beh, pred := x.tail.predv, version := v }

def NF.toRaw (x : NF) (v : Str) : Raw :=
  { coop := x.coop, country := some [x.a, x.b, x.c], mapName := x.name, mapId := x.mapId, config := x.tail.config,
    beh := x.tail.beh, pred := x.tail.predv, version := v }

def NFTail.groups : NFTail → Option Str × Option Char × Option Str
  | .map => (none, none, none)
  | .cfg c => (some (natToDigits c), none, none)
  | .pred c t ps => (some (natToDigits c), some t, some (predStr ps))

def NF.groups (x : NF) : Groups :=
  { coop := x.coop, country := [x.a, x.b, x.c], mapName := x.name, mapId := natToDigits x.mapId,
    config := x.tail.groups.1, predType := x.tail.groups.2.1, predIds := x.tail.groups.2.2 }

/-! ### printing a normal-form id gives the normal-form string -/

theorem join_pred (b : Str) (f : Nat → Str) (g : List Nat → Str) (hg0 : g [] = [])
    (hg : ∀ n t, g (n :: t) = '-' :: (f n ++ g t)) : ∀ ps, join '-' (b :: ps.map f) = b ++ g ps
  | [] => by simp [join, hg0]
  | n :: t => by
    have := join_pred (f n) f g hg0 hg t
    simp only [List.map_cons, join, hg] at this ⊢
    rw [this]

theorem predStrs_predOfList (ps : List Nat) (h : ps ≠ []) : (predOfList ps).strs = ps.map natToDigits := by
  match ps, h with
  | [n], _ => simp [predOfList, Pred.strs, intRepr_ofNat]
  | a :: b :: t, _ =>
    simp [predOfList, Pred.strs, intRepr_ofNat, Function.comp_def]

theorem print_toId (x : NF) (v : Str) (h : x.Ok) : print (x.toId v) = x.str := by
  obtain ⟨coop, a, b, c, name, mapId, tail⟩ := x
  have key : join '_' ([some [a, b, c], some (name ++ '-' :: intRepr (mapId : Int)), tail.config.map intRepr,
      tail.beh.map fun bb => join '-' (bb :: tail.predv.strs)].filterMap id)
      = a :: b :: c :: '_' :: (name ++ '-' :: (natToDigits mapId ++ tail.str)) := by
    cases tail with
    | map => simp [NFTail.config, NFTail.beh, NFTail.str, join, intRepr_ofNat]
    | cfg k => simp [NFTail.config, NFTail.beh, NFTail.str, join, intRepr_ofNat]
    | pred k t ps =>
      have hps : ps ≠ [] := h.tail.2.2.1
      have hj := join_pred [t] natToDigits predStr rfl (fun _ _ => rfl) ps
      simp [NFTail.config, NFTail.beh, NFTail.predv, NFTail.str, join, intRepr_ofNat, predStrs_predOfList ps hps, hj]
  simp only [print, NF.toId, NF.str, NF.body, key]

/-! ### the matcher on a normal-form string -/

theorem stripCoop_str (x : NF) (h : x.Ok) : stripCoop x.str = (x.coop, x.body) := by
  obtain ⟨coop, a, b, c, name, mapId, tail⟩ := x
  cases coop with
  | true => simp [NF.str, stripCoop]
  | false =>
    have hb : b ≠ '-' := upper_ne_dash h.ub
    simp [NF.str, NF.body, stripCoop, hb]

theorem takeNum_natToDigits (n : Nat) (r : Str) (hn : 0 < n) (hr : ∀ x ∈ r.head?, x.isDigit = false) :
    takeNum (natToDigits n ++ r) = some (natToDigits n, r) := by
  obtain ⟨c, t, e, hc, ht⟩ := natToDigits_pos hn
  rw [e]
  simp [takeNum, hc, span_append Char.isDigit t r ht hr]

theorem predIdsOk_digits_append (ds r : Str) (h : ∀ c ∈ ds, c.isDigit = true) :
    predIdsOk .digits (ds ++ r) = predIdsOk .digits r := by
  induction ds with
  | nil => rfl
  | cons c ds ih =>
    have hc := h c (by simp)
    simp [predIdsOk, hc, ih (fun x hx => h x (by simp [hx]))]

theorem predIdsOk_predStr : ∀ (ps : List Nat), (∀ p ∈ ps, 0 < p) → predIdsOk .digits (predStr ps) = true
  | [], _ => rfl
  | n :: t, h => by
    obtain ⟨c, ds, e, hc, hds⟩ := natToDigits_pos (h n (by simp))
    have ih := predIdsOk_predStr t (fun p hp => h p (by simp [hp]))
    have hd : ('-' : Char).isDigit = false := by decide
    simp [predStr, predIdsOk, hd, e, hc, predIdsOk_digits_append ds _ hds, ih]

theorem predIdsOk_dash_predStr (ps : List Nat) (hne : ps ≠ []) (h : ∀ p ∈ ps, 0 < p) :
    predIdsOk .dash (predStr ps) = true := by
  match ps, hne with
  | n :: t, _ =>
    obtain ⟨c, ds, e, hc, hds⟩ := natToDigits_pos (h n (by simp))
    have ih := predIdsOk_predStr t (fun p hp => h p (by simp [hp]))
    simp [predStr, predIdsOk, e, hc, predIdsOk_digits_append ds _ hds, ih]

theorem matchTail_str (t : NFTail) (h : t.Ok) : matchTail t.str = some t.groups := by
  cases t with
  | map => rfl
  | cfg c =>
    have := takeNum_natToDigits c [] h (by simp)
    simp only [List.append_nil] at this
    simp [NFTail.str, matchTail, this, NFTail.groups]
  | pred c t ps =>
    obtain ⟨hc, ht, hne, hps⟩ := h
    have hu : ('_' : Char).isDigit = false := by decide
    have := takeNum_natToDigits c ('_' :: t :: predStr ps) hc (by simp [hu])
    simp [NFTail.str, matchTail, this, NFTail.groups, ht, predIdsOk_dash_predStr ps hne hps]

theorem tail_head_not_digit (t : NFTail) : ∀ x ∈ t.str.head?, x.isDigit = false := by
  have hu : ('_' : Char).isDigit = false := by decide
  cases t <;> simp [NFTail.str, hu]

theorem matchId_str (x : NF) (h : x.Ok) : matchId x.str = some x.groups := by
  have hs := stripCoop_str x h
  obtain ⟨coop, a, b, c, name, mapId, tail⟩ := x
  have hd : ('-' : Char).isAlphanum = false := by decide
  have hspan := span_append Char.isAlphanum name ('-' :: (natToDigits mapId ++ tail.str)) h.name_alnum (by simp [hd])
  have hnum := takeNum_natToDigits mapId tail.str h.mapId_pos (tail_head_not_digit tail)
  have hname : name ≠ [] := h.name_ne
  simp only [matchId, hs, NF.body]
  simp [h.ua, h.ub, h.uc, hspan, hname, hnum, matchTail_str tail h.tail, NF.groups]

/-! ### from the groups back to the constructor arguments -/

theorem dash_notin_digits (n : Nat) : '-' ∉ natToDigits n := by
  intro h
  have := natToDigits_all_digit n _ h
  revert this; decide

theorem splitOn_digits_predStr : ∀ (t : List Nat) (n : Nat),
    splitOn '-' (natToDigits n ++ predStr t) = natToDigits n :: t.map natToDigits
  | [], n => by simpa [predStr] using splitOn_notin '-' _ (dash_notin_digits n)
  | m :: t, n => by
    rw [predStr, splitOn_append '-' _ _ (dash_notin_digits n), splitOn_digits_predStr t m]
    rfl

theorem splitOn_predStr : ∀ (ps : List Nat), splitOn '-' (predStr ps) = [] :: ps.map natToDigits
  | [] => rfl
  | n :: t => by
    have := splitOn_append '-' [] (natToDigits n ++ predStr t) (by simp)
    simp only [List.nil_append] at this
    rw [predStr, this, splitOn_digits_predStr t n]
    rfl

theorem predOfGroup_predStr (ps : List Nat) : predOfGroup (some (predStr ps)) = predOfList ps := by
  have : ((splitOn '-' (predStr ps)).tail.map fun d => (digitsToNat d : Int)) = ps.map (fun (n : Nat) => (n : Int)) := by
    rw [splitOn_predStr]
    simp [digitsToNat_natToDigits]
  simp only [predOfGroup, this]
  match ps with
  | [] => rfl
  | [n] => rfl
  | a :: b :: t => rfl

theorem parse_str (cs : List Str) (x : NF) (v : Str) (h : x.Ok) : parse cs x.str v = mk cs (x.toRaw v) := by
  rw [parse, matchId_str x h]
  obtain ⟨coop, a, b, c, name, mapId, tail⟩ := x
  cases tail with
  | map => simp [NF.groups, NFTail.groups, NF.toRaw, NFTail.config, NFTail.beh, NFTail.predv, digitsToNat_natToDigits, predOfGroup]
  | cfg k => simp [NF.groups, NFTail.groups, NF.toRaw, NFTail.config, NFTail.beh, NFTail.predv, digitsToNat_natToDigits, predOfGroup]
  | pred k t ps =>
    simp [NF.groups, NFTail.groups, NF.toRaw, NFTail.config, NFTail.beh, NFTail.predv, digitsToNat_natToDigits,
      predOfGroup_predStr]

theorem filter_alnum_self (name : Str) (h : ∀ ch ∈ name, ch.isAlphanum = true) : name.filter Char.isAlphanum = name :=
  List.filter_eq_self.2 h

theorem predOfList_orOne (ps : List Nat) (hne : ps ≠ []) (h : ∀ p ∈ ps, 0 < p) : (predOfList ps).orOne = predOfList ps := by
  match ps, hne with
  | [n], _ =>
    have : n ≠ 0 := by have := h n (by simp); omega
    simp [predOfList, Pred.orOne, this]
  | a :: b :: t, _ => simp [predOfList, Pred.orOne]

theorem predOfList_allPos (ps : List Nat) (hne : ps ≠ []) (h : ∀ p ∈ ps, 0 < p) : (predOfList ps).allPos = true := by
  match ps, hne with
  | [n], _ => simpa [predOfList, Pred.allPos] using h n (by simp)
  | a :: b :: t, _ =>
    have ha := h a (by simp)
    have hb := h b (by simp)
    simp only [predOfList, Pred.allPos, List.map_cons, List.all_cons, Bool.and_eq_true, decide_eq_true_eq, List.all_eq_true,
      List.mem_map]
    refine ⟨by exact_mod_cast ha, by exact_mod_cast hb, ?_⟩
    rintro x ⟨p, hp, rfl⟩
    exact_mod_cast h p (by simp [hp])

theorem predOfList_ne_none (ps : List Nat) : predOfList ps ≠ .none := by
  match ps with
  | [] => simp [predOfList]
  | [n] => simp [predOfList]
  | a :: b :: t => simp [predOfList]

theorem isSTPI_behaviours {t : Char} (h : isSTPI t = true) : [t] ∈ behaviours := by
  rcases isSTPI_cases h with e | e | e | e <;> subst e <;> decide

theorem mk_toRaw (cs : List Str) (x : NF) (v : Str) (h : x.Ok) (hv : v ∈ supported)
    (hc : [x.a, x.b, x.c] ∈ cs ∨ [x.a, x.b, x.c] = ZAM) : mk cs (x.toRaw v) = .ok (x.toId v) := by
  obtain ⟨coop, a, b, c, name, mapId, tail⟩ := x
  have hm : (0 : Int) < (mapId : Int) := by exact_mod_cast h.mapId_pos
  have hf := filter_alnum_self name h.name_alnum
  have hm0 : mapId ≠ 0 := by have := h.mapId_pos; simp only at this; omega
  simp only at hc
  cases tail with
  | map =>
    simp [mk, NF.toRaw, NF.toId, hv, setCountry, hc, hf, NFTail.config, NFTail.beh, NFTail.predv, behOk, hm, hm0]
  | cfg k =>
    have hk : (0 : Int) < (k : Int) := by exact_mod_cast h.tail
    have hk0 : (k : Int) ≠ 0 := by omega
    have hkN : k ≠ 0 := by omega
    simp [mk, NF.toRaw, NF.toId, hv, setCountry, hc, hf, NFTail.config, NFTail.beh, NFTail.predv, behOk, hm, hm0, cfgOrOne, hk, hk0, hkN]
  | pred k t ps =>
    obtain ⟨hk', ht, hne, hps⟩ := h.tail
    have hk : (0 : Int) < (k : Int) := by exact_mod_cast hk'
    have hk0 : (k : Int) ≠ 0 := by omega
    have hkN : k ≠ 0 := by omega
    simp [mk, NF.toRaw, NF.toId, hv, setCountry, hc, hf, NFTail.config, NFTail.beh, NFTail.predv, behOk, hm, hm0, cfgOrOne, hk, hk0, hkN,
      predOfList_orOne ps hne hps, predOfList_allPos ps hne hps, predOfList_ne_none, isSTPI_behaviours ht]

/-- parsing the print of a normal-form id gives the id back -/
theorem parse_print_nf (cs : List Str) (x : NF) (v : Str) (h : x.Ok) (hv : v ∈ supported)
    (hc : [x.a, x.b, x.c] ∈ cs ∨ [x.a, x.b, x.c] = ZAM) : parse cs (print (x.toId v)) v = .ok (x.toId v) := by
  rw [print_toId x v h, parse_str cs x v h, mk_toRaw cs x v h hv hc]

/-! ## grammar membership -/

theorem Matches.seq' {a b : RE} {s t u : Str} (h1 : Matches a s) (h2 : Matches b t) (e : u = s ++ t) :
    Matches (.seq a b) u := e ▸ Matches.seq h1 h2

theorem matches_star_cls (p : Char → Bool) : ∀ (s : Str), (∀ c ∈ s, p c = true) → Matches (.star (.cls p)) s
  | [], _ => Matches.starNil
  | c :: t, h =>
    (Matches.starCons (Matches.cls (h c (by simp))) (matches_star_cls p t fun x hx => h x (by simp [hx])) :
      Matches (.star (.cls p)) ([c] ++ t))

theorem matches_plus_cls (p : Char → Bool) (s : Str) (hne : s ≠ []) (h : ∀ c ∈ s, p c = true) :
    Matches (RE.plus (.cls p)) s := by
  match s, hne with
  | c :: t, _ =>
    exact Matches.seq' (Matches.cls (h c (by simp))) (matches_star_cls p t fun x hx => h x (by simp [hx])) rfl

theorem matches_num {n : Nat} (hn : 0 < n) : Matches numRE (natToDigits n) := by
  obtain ⟨c, t, e, hc, ht⟩ := natToDigits_pos hn
  rw [e]
  exact Matches.seq' (Matches.cls hc) (matches_star_cls _ t ht) rfl

theorem matches_dash_num {n : Nat} (hn : 0 < n) : Matches (.seq (.chr '-') numRE) ('-' :: natToDigits n) :=
  Matches.seq' Matches.chr (matches_num hn) rfl

theorem matches_predStr_star : ∀ (ps : List Nat), (∀ p ∈ ps, 0 < p) →
    Matches (.star (.seq (.chr '-') numRE)) (predStr ps)
  | [], _ => Matches.starNil
  | n :: t, h => by
    have h1 := matches_dash_num (h n (by simp))
    have h2 := matches_predStr_star t fun p hp => h p (by simp [hp])
    have := Matches.starCons h1 h2
    simpa [predStr] using this

theorem matches_predStr_plus (ps : List Nat) (hne : ps ≠ []) (h : ∀ p ∈ ps, 0 < p) :
    Matches (RE.plus (.seq (.chr '-') numRE)) (predStr ps) := by
  match ps, hne with
  | n :: t, _ =>
    exact Matches.seq' (matches_dash_num (h n (by simp))) (matches_predStr_star t fun p hp => h p (by simp [hp]))
      (by simp [predStr])

def tailRE : RE :=
  RE.opt (.seq (.chr '_') (.seq numRE
    (RE.opt (.seq (.chr '_') (.seq (.cls isSTPI) (RE.plus (.seq (.chr '-') numRE)))))))

theorem matches_tail (t : NFTail) (h : t.Ok) : Matches tailRE t.str := by
  cases t with
  | map => exact Matches.altR Matches.eps
  | cfg c =>
    exact Matches.altL (Matches.seq' Matches.chr (Matches.seq' (matches_num h) (Matches.altR Matches.eps) rfl)
      (by simp [NFTail.str]))
  | pred c t ps =>
    obtain ⟨hc, ht, hne, hps⟩ := h
    refine Matches.altL (Matches.seq' Matches.chr (Matches.seq' (matches_num hc)
      (Matches.altL (Matches.seq' Matches.chr (Matches.seq' (Matches.cls ht) (matches_predStr_plus ps hne hps) rfl) rfl)) rfl)
      (by simp [NFTail.str]))

theorem matches_body (x : NF) (h : x.Ok) :
    Matches (.seq (.cls Char.isUpper) (.seq (.cls Char.isUpper) (.seq (.cls Char.isUpper) (.seq (.chr '_')
      (.seq (RE.plus (.cls Char.isAlphanum)) (.seq (.chr '-') (.seq numRE tailRE))))))) x.body := by
  refine Matches.seq' (Matches.cls h.ua) (Matches.seq' (Matches.cls h.ub) (Matches.seq' (Matches.cls h.uc)
    (Matches.seq' Matches.chr (Matches.seq' (matches_plus_cls _ x.name h.name_ne h.name_alnum)
      (Matches.seq' Matches.chr (Matches.seq' (matches_num h.mapId_pos) (matches_tail x.tail h.tail) rfl) rfl) rfl) rfl) rfl) rfl)
    (by simp [NF.body])

theorem matches_str (x : NF) (h : x.Ok) : Matches idRE x.str := by
  have hb := matches_body x h
  unfold idRE
  unfold NF.str
  cases x.coop with
  | true =>
    exact Matches.seq' (Matches.altL (Matches.seq' Matches.chr Matches.chr rfl)) hb (by simp)
  | false =>
    exact Matches.seq' (Matches.altR Matches.eps) hb (by simp)

/-! ## solution benchmark ids -/

/-- characters that occur in a printed scenario id -/
def idChar (ch : Char) : Prop := ch.isAlphanum = true ∨ ch = '-' ∨ ch = '_'

theorem digits_idChar (n : Nat) : ∀ ch ∈ natToDigits n, idChar ch :=
  fun ch h => Or.inl (digit_alnum (natToDigits_all_digit n ch h))

theorem predStr_idChar : ∀ (ps : List Nat), ∀ ch ∈ predStr ps, idChar ch
  | [], ch, h => by simp [predStr] at h
  | n :: t, ch, h => by
    simp only [predStr, List.mem_cons, List.mem_append] at h
    rcases h with h | h | h
    · exact Or.inr (Or.inl h)
    · exact digits_idChar n ch h
    · exact predStr_idChar t ch h

theorem tail_idChar (t : NFTail) (h : t.Ok) : ∀ ch ∈ t.str, idChar ch := by
  intro ch hm
  cases t with
  | map => simp [NFTail.str] at hm
  | cfg c =>
    simp only [NFTail.str, List.mem_cons] at hm
    rcases hm with hm | hm
    · exact Or.inr (Or.inr hm)
    · exact digits_idChar c ch hm
  | pred c t ps =>
    simp only [NFTail.str, List.mem_cons, List.mem_append] at hm
    rcases hm with hm | hm | hm | hm | hm
    · exact Or.inr (Or.inr hm)
    · exact digits_idChar c ch hm
    · exact Or.inr (Or.inr hm)
    · exact Or.inl (hm ▸ isSTPI_alnum h.2.1)
    · exact predStr_idChar ps ch hm

theorem str_idChar (x : NF) (h : x.Ok) : ∀ ch ∈ x.str, idChar ch := by
  have hb : ∀ ch ∈ x.body, idChar ch := by
    intro ch hm
    simp only [NF.body, List.mem_cons, List.mem_append] at hm
    rcases hm with hm | hm | hm | hm | hm | hm | hm | hm
    · exact Or.inl (hm ▸ upper_alnum h.ua)
    · exact Or.inl (hm ▸ upper_alnum h.ub)
    · exact Or.inl (hm ▸ upper_alnum h.uc)
    · exact Or.inr (Or.inr hm)
    · exact Or.inl (h.name_alnum ch hm)
    · exact Or.inr (Or.inl hm)
    · exact digits_idChar _ ch hm
    · exact tail_idChar x.tail h.tail ch hm
  intro ch hm
  unfold NF.str at hm
  split at hm
  · simp only [List.mem_cons] at hm
    rcases hm with hm | hm | hm
    · exact Or.inl (by subst hm; decide)
    · exact Or.inr (Or.inl hm)
    · exact hb ch hm
  · exact hb ch hm

theorem idChar_ne {ch d : Char} (h : idChar ch) (hd : d.isAlphanum = false) (h1 : d ≠ '-') (h2 : d ≠ '_') : ch ≠ d := by
  rcases h with h | h | h
  · exact alnum_ne h hd
  · exact h ▸ fun e => h1 e.symm
  · exact h ▸ fun e => h2 e.symm

def zip3 (vs : List (VModel × VType)) (ks : List Cost) : List (VModel × VType × Cost) :=
  List.zipWith (fun v k => (v.1, v.2, k)) vs ks

theorem parseVehicleId_vehicleId (v : VModel × VType) : parseVehicleId (vehicleId v) = .ok v := by
  obtain ⟨m, t⟩ := v
  cases m <;> cases t <;> decide

theorem parseCostId_name (k : Cost) : parseCostId k.name = .ok k := by
  cases k <;> decide

theorem vehicleId_alnum (v : VModel × VType) : ∀ ch ∈ vehicleId v, ch.isAlphanum = true := by
  obtain ⟨m, t⟩ := v
  cases m <;> cases t <;> decide

theorem costName_alnum (k : Cost) : ∀ ch ∈ k.name, ch.isAlphanum = true := by
  cases k <;> decide

theorem readPps_map : ∀ (vs : List (VModel × VType)) (ks : List Cost), vs.length = ks.length →
    readPps vs.length (vs.map vehicleId) (ks.map Cost.name) = .ok (zip3 vs ks)
  | [], [], _ => rfl
  | [], _ :: _, h => by simp at h
  | _ :: _, [], h => by simp at h
  | v :: vs, k :: ks, h => by
    have ih := readPps_map vs ks (by simpa using h)
    simp [readPps, parseVehicleId_vehicleId, parseCostId_name, ih, zip3]

/-- a list of alphanumeric words, bracketed and joined as `Solution.benchmark_id` does -/
theorem join_chars (l : List Str) (h : ∀ a ∈ l, ∀ ch ∈ a, ch.isAlphanum = true) :
    ∀ ch ∈ join ',' l, ch.isAlphanum = true ∨ ch = ',' := by
  intro ch hm
  rcases mem_join ',' l ch hm with e | ⟨a, ha, hx⟩
  · exact Or.inr e
  · exact Or.inl (h a ha ch hx)

theorem bracket_chars (l : List Str) (h : ∀ a ∈ l, ∀ ch ∈ a, ch.isAlphanum = true) :
    ∀ ch ∈ bracket l, ch.isAlphanum = true ∨ ch = ',' ∨ ch = '[' ∨ ch = ']' := by
  intro ch hm
  have hj := join_chars l h
  match l, hm with
  | [a], hm => exact Or.inl (h a (by simp) ch (by simpa [bracket] using hm))
  | [], hm => simp [bracket, join] at hm; rcases hm with e | e <;> simp [e]
  | a :: b :: t, hm =>
    simp only [bracket, List.mem_cons, List.mem_append, List.not_mem_nil, or_false] at hm
    rcases hm with (e | e) | e
    · exact Or.inr (Or.inr (Or.inl e))
    · rcases hj ch e with e | e
      · exact Or.inl e
      · exact Or.inr (Or.inl e)
    · exact Or.inr (Or.inr (Or.inr e))

theorem filter_notBracket_bracket (l : List Str) (hne : l ≠ []) (h : ∀ a ∈ l, ∀ ch ∈ a, ch.isAlphanum = true) :
    (bracket l).filter notBracket = join ',' l := by
  have hj : (join ',' l).filter notBracket = join ',' l := by
    apply List.filter_eq_self.2
    intro ch hm
    rcases join_chars l h ch hm with e | e
    · have h1 : ch ≠ '[' := alnum_ne e (by decide)
      have h2 : ch ≠ ']' := alnum_ne e (by decide)
      simp [notBracket, h1, h2]
    · subst e; decide
  match l, hne with
  | [a], _ => simpa [bracket, join] using hj
  | a :: b :: t, _ =>
    have e1 : notBracket '[' = false := by decide
    have e2 : notBracket ']' = false := by decide
    simp only [bracket, List.filter_cons, e1, List.filter_append, hj]
    simp [e2]

theorem bracket_ne (l : List Str) (h : ∀ a ∈ l, ∀ ch ∈ a, ch.isAlphanum = true) (d : Char)
    (hd : d.isAlphanum = false) (h1 : d ≠ ',') (h2 : d ≠ '[') (h3 : d ≠ ']') : d ∉ bracket l := by
  intro hm
  rcases bracket_chars l h d hm with e | e | e | e
  · rw [e] at hd; cases hd
  · exact h1 e
  · exact h2 e
  · exact h3 e

end CR.BenchId
