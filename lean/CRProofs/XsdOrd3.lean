/-
  CRProofs.XsdOrd3 — C03, section 2 of CRProps/C03.lean (element order per node builder): the proofs, kept in their own modules so
  that lake builds them in parallel with the tree-encoder chain (CRProofs.XsdDoc*).  CRProps/C03.lean states the theorems.
-/
import CRProofs.XsdOrd

namespace CR.C03
open CR.Xsd CR.XmlNum CR.XmlW

theorem ord_order_trajectory (n : Nat) (h : 1 ≤ n) : Ok "dynamicObstacle/trajectory" (trajectoryKids n) :=
  order_of (by decide) ["state"] (by decide) [.ge 1 n h] (by rfl) (by simp [trajectoryKids, blocksN, CR.XmlW.rep, Cnt.val])

theorem ord_order_occupancySet (n : Nat) (h : 1 ≤ n) :
    Ok "dynamicObstacle/occupancySet" (occupancySetKids n) ∧ Ok "phantomObstacle/occupancySet" (occupancySetKids n) :=
  ⟨order_of (by decide) ["occupancy"] (by decide) [.ge 1 n h] (by rfl) (by simp [occupancySetKids, blocksN, CR.XmlW.rep, Cnt.val]),
   order_of (by decide) ["occupancy"] (by decide) [.ge 1 n h] (by rfl) (by simp [occupancySetKids, blocksN, CR.XmlW.rep, Cnt.val])⟩

theorem ord_order_signalSeries (n : Nat) (h : 1 ≤ n) : Ok "dynamicObstacle/signalSeries" (signalSeriesKids n) :=
  order_of (by decide) ["signalState"] (by decide) [.ge 1 n h] (by rfl) (by simp [signalSeriesKids, blocksN, CR.XmlW.rep, Cnt.val])

theorem ord_order_planningProblem (n : Nat) (h : 1 ≤ n) : Ok "planningProblem" (planningProblemKids n) :=
  order_of (by decide) ["initialState", "goalState"] (by decide) [.const 1, .ge 1 n h] (by rfl)
    (by simp [planningProblemKids, blocksN, CR.XmlW.rep, Cnt.val])

theorem ord_order_root (p : RootP) (hl : 1 ≤ p.nLanelets) (hp : 1 ≤ p.nProblems) : Ok "/commonRoad" (rootKids p) :=
  order_of (by decide)
    ["location", "scenarioTags", "lanelet", "trafficSign", "trafficLight", "intersection", "staticObstacle", "dynamicObstacle",
     "phantomObstacle", "environmentObstacle", "planningProblem"] (by decide)
    [.const 1, .const 1, .ge 1 p.nLanelets hl, .any p.nSigns, .any p.nLights, .any p.nIntersections, .any p.nStatic,
     .any p.nDynamic, .any p.nPhantom, .any p.nEnvironment, .ge 1 p.nProblems hp] (by rfl)
    (by simp [rootKids, blocksN, CR.XmlW.rep, Cnt.val])

theorem ord_order_value (interval : Bool) :
    Ok "decimalExactOrInterval" (valueKids interval) ∧ Ok "integerExactOrIntervalGreaterZero" (valueKids interval) ∧
    Ok "decimalInterval" (valueKids true) ∧ Ok "integerIntervalGreaterZero" (valueKids true) ∧
    Ok "decimalExact" (valueKids false) ∧ Ok "integerExactZero" (valueKids false) := by
  cases interval <;> decide

theorem ord_shape_order (ks : List ShapeK) (h : ks ≠ []) : Ok "shape" (shapeKids ks) := by
  have hc : schema.content "shape" = .choice ((elemsOf (schema.content "shape")).map Item.elem) 1 none := by decide
  unfold Ok; rw [hc]
  refine unit_choice_ok (by decide) 1 _ ?_ ?_
  · intro n hn
    simp only [shapeKids, List.mem_map] at hn
    obtain ⟨k, _, rfl⟩ := hn
    cases k <;> decide
  · cases ks with
    | nil => exact absurd rfl h
    | cons _ _ => simp [shapeKids]

theorem ord_position_order (n : Nat) :
    Ok "position" ["point"] ∧ Ok "position" (List.replicate (n + 1) "rectangle") ∧
    Ok "position" (List.replicate (n + 1) "circle") ∧ Ok "position" (List.replicate (n + 1) "polygon") ∧
    Ok "position" (List.replicate (n + 1) "lanelet") ∧
    Ok "positionInterval" (List.replicate (n + 1) "rectangle") ∧ Ok "positionInterval" (List.replicate (n + 1) "circle") ∧
    Ok "positionInterval" (List.replicate (n + 1) "polygon") ∧ Ok "positionInterval" (List.replicate (n + 1) "lanelet") ∧
    Ok "positionExact" ["point"] := by
  have run : ∀ (t : String) (e : ElemP), e ∈ elemsOf (schema.content t) → e.max = none → e.min ≤ 1 →
      schema.content t = .choice ((elemsOf (schema.content t)).map Item.elem) 1 (some 1) →
      (elemsOf (schema.content t)).all (fun e => decide (1 ≤ e.min)) = true →
      ((elemsOf (schema.content t)).map (·.name)).Nodup → Ok t (List.replicate (n + 1) e.name) := by
    intro t e he hmax hmin hg hall hnd
    exact choice_run_ok hg hall hnd e he hmax n (by omega)
  refine ⟨by decide, ?_, ?_, ?_, ?_, ?_, ?_, ?_, ?_, by decide⟩
  · exact run "position" { name := "rectangle", type := "rectangle", min := 1, max := none } (by decide) rfl (by decide) (by decide) (by decide) (by decide)
  · exact run "position" { name := "circle", type := "circle", min := 1, max := none } (by decide) rfl (by decide) (by decide) (by decide) (by decide)
  · exact run "position" { name := "polygon", type := "polygon", min := 1, max := none } (by decide) rfl (by decide) (by decide) (by decide) (by decide)
  · exact run "position" { name := "lanelet", type := "laneletRef", min := 1, max := none } (by decide) rfl (by decide) (by decide) (by decide) (by decide)
  · exact run "positionInterval" { name := "rectangle", type := "rectangle", min := 1, max := none } (by decide) rfl (by decide) (by decide) (by decide) (by decide)
  · exact run "positionInterval" { name := "circle", type := "circle", min := 1, max := none } (by decide) rfl (by decide) (by decide) (by decide) (by decide)
  · exact run "positionInterval" { name := "polygon", type := "polygon", min := 1, max := none } (by decide) rfl (by decide) (by decide) (by decide) (by decide)
  · exact run "positionInterval" { name := "lanelet", type := "laneletRef", min := 1, max := none } (by decide) rfl (by decide) (by decide) (by decide) (by decide)

end CR.C03
