/-
  CRProofs.Decimal — `float_to_str` on plain decimal strings: what it keeps and how far the value can move.
-/
import CRModel.Codec
import CRModel.DecVal
import Mathlib.Tactic.Ring
import Mathlib.Tactic.Linarith
import Mathlib.Tactic.Positivity
import Mathlib.Tactic.FieldSimp

namespace CR.X

def isDigit (c : Char) : Bool := c.isDigit

def noDot (s : List Char) : Prop := ∀ c, c ∈ s → c ≠ '.'

theorem splitDot_ne_nil (s : List Char) : splitDot s ≠ [] := by
  induction s with
  | nil => simp [splitDot]
  | cons c cs ih =>
    simp only [splitDot]
    cases h : splitDot cs with
    | nil => exact absurd h ih
    | cons p ps => by_cases hc : c = '.' <;> simp [hc]

theorem splitDot_noDot (s : List Char) (h : noDot s) : splitDot s = [s] := by
  induction s with
  | nil => rfl
  | cons c cs ih =>
    have hc : c ≠ '.' := h c (by simp)
    have ih' := ih (fun d hd => h d (by simp [hd]))
    simp [splitDot, ih', hc]

theorem splitDot_append (a b : List Char) (ha : noDot a) : splitDot (a ++ '.' :: b) = a :: splitDot b := by
  induction a with
  | nil =>
    simp only [List.nil_append, splitDot]
    cases h : splitDot b with
    | nil => exact absurd h (splitDot_ne_nil b)
    | cons p ps => simp
  | cons c cs ih =>
    have hc : c ≠ '.' := ha c (by simp)
    have ih' := ih (fun d hd => ha d (by simp [hd]))
    simp [splitDot, ih', hc]

/-- structure: a decimal `int.frac` keeps its integer part and the first `d` fraction digits; without a dot nothing changes -/
theorem truncChars_decimal (d : Nat) (ip fp : List Char) (hi : noDot ip) (hf : noDot fp) :
    truncChars d (ip ++ '.' :: fp) = ip ++ '.' :: fp.take d := by
  simp [truncChars, splitDot_append ip fp hi, splitDot_noDot fp hf]

theorem truncChars_integer (d : Nat) (ip : List Char) (hi : noDot ip) : truncChars d ip = ip := by
  simp [truncChars, splitDot_noDot ip hi]

theorem natOf_acc (s : List Char) (acc : Nat) : natOf s acc = acc * 10 ^ s.length + natOf s 0 := by
  induction s generalizing acc with
  | nil => simp [natOf]
  | cons c cs ih =>
    simp only [natOf, List.length_cons]
    rw [ih (10 * acc + (c.toNat - 48)), ih (10 * 0 + (c.toNat - 48))]
    ring

theorem natOf_append (a b : List Char) : natOf (a ++ b) 0 = natOf a 0 * 10 ^ b.length + natOf b 0 := by
  induction a generalizing b with
  | nil => simp [natOf]
  | cons c cs ih =>
    simp only [List.cons_append, natOf]
    rw [natOf_acc (cs ++ b), natOf_acc cs, ih b, List.length_append]
    ring

theorem digit_le (c : Char) (h : c.isDigit = true) : c.toNat - 48 ≤ 9 := by
  simp only [Char.isDigit, Bool.and_eq_true, decide_eq_true_eq] at h
  have h2 : c.val ≤ 57 := h.2
  have : c.toNat ≤ 57 := by
    simp only [Char.toNat]
    exact_mod_cast h2
  omega

theorem natOf_lt (s : List Char) (h : ∀ c, c ∈ s → c.isDigit = true) : natOf s 0 < 10 ^ s.length := by
  induction s with
  | nil => simp [natOf]
  | cons c cs ih =>
    have ih' := ih (fun d hd => h d (by simp [hd]))
    have hc := digit_le c (h c (by simp))
    simp only [natOf, List.length_cons]
    rw [natOf_acc]
    have : 10 ^ (cs.length + 1) = 10 * 10 ^ cs.length := by ring
    rw [this]
    nlinarith

/-- numeric content of the truncation, scaled by 10^len: the dropped digits are worth less than one unit of the d-th place -/
theorem trunc_scaled (d : Nat) (fp : List Char) (h : ∀ c, c ∈ fp → c.isDigit = true) :
    natOf (fp.take d) 0 * 10 ^ (fp.drop d).length ≤ natOf fp 0 ∧
    natOf fp 0 < (natOf (fp.take d) 0 + 1) * 10 ^ (fp.drop d).length := by
  have hsplit : natOf fp 0 = natOf (fp.take d) 0 * 10 ^ (fp.drop d).length + natOf (fp.drop d) 0 := by
    conv_lhs => rw [← List.take_append_drop d fp]
    exact natOf_append _ _
  have hlt := natOf_lt (fp.drop d) (fun c hc => h c (List.mem_of_mem_drop hc))
  constructor
  · omega
  · rw [hsplit]
    nlinarith

/-- the value of a fraction digit string -/
def fracVal (fp : List Char) : ℚ := (natOf fp 0 : ℚ) / 10 ^ fp.length

/-- **truncation moves a real by less than 10^-d** (towards zero): for digit strings `fp` with at least `d` digits,
    0 ≤ 0.fp − 0.(first d digits of fp) < 10^-d -/
theorem trunc_close (d : Nat) (fp : List Char) (h : ∀ c, c ∈ fp → c.isDigit = true) (hd : d ≤ fp.length) :
    0 ≤ fracVal fp - fracVal (fp.take d) ∧ fracVal fp - fracVal (fp.take d) < 1 / 10 ^ d := by
  obtain ⟨h1, h2⟩ := trunc_scaled d fp h
  have hlen : fp.length = d + (fp.drop d).length := by simp; omega
  have htl : (fp.take d).length = d := by simp [hd]
  set k := (fp.drop d).length with hk
  set a := natOf (fp.take d) 0 with ha
  set n := natOf fp 0 with hn
  have h1q : (a : ℚ) * 10 ^ k ≤ n := by exact_mod_cast h1
  have h2q : (n : ℚ) < (a + 1) * 10 ^ k := by exact_mod_cast h2
  have hpk : (0 : ℚ) < 10 ^ k := by positivity
  have hpd : (0 : ℚ) < 10 ^ d := by positivity
  have e : fracVal fp - fracVal (fp.take d) = ((n : ℚ) - a * 10 ^ k) / (10 ^ d * 10 ^ k) := by
    simp only [fracVal, htl, hlen, ← hn, ← ha, pow_add]
    field_simp
  rw [e]
  constructor
  · apply div_nonneg
    · linarith
    · positivity
  · rw [div_lt_div_iff₀ (by positivity) hpd]
    nlinarith

end CR.X
