/-
  CRProofs.Refs — lemmas about the reference model (CRModel.Refs) used by CRProps.C10.
-/
import CRModel.Refs

namespace CR.Refs

/-! ### filters -/

theorem mem_keepIn {P : Id → Bool} {xs : List Id} {a : Id} : a ∈ keepIn P xs ↔ a ∈ xs ∧ P a = true := by
  simp [keepIn]

theorem mem_keepInL {P : Id → Bool} {xs : List Id} {a : Id} : a ∈ keepInL P xs ↔ a ∈ xs ∧ P a = true := by
  simp [keepInL, List.mem_eraseDups]

theorem mem_optFilter_toList {P : Id → Bool} {o : Option Id} {a : Id} :
    a ∈ (o.filter P).toList ↔ a ∈ o.toList ∧ P a = true := by
  cases o with
  | none => simp
  | some b =>
    by_cases h : P b = true
    · simp [Option.filter, h]; intro e; subst e; exact h
    · simp [Option.filter, h]; intro e; subst e; simpa using h

/-! ### one lanelet -/

section lanelet
variable (P : Id → Bool) (l : Lanelet)

@[simp] theorem Lanelet.cleanL_id : (l.cleanL P).id = l.id := rfl
@[simp] theorem Lanelet.cleanL_content : (l.cleanL P).content = l.content := rfl
@[simp] theorem Lanelet.cleanL_signs : (l.cleanL P).signs = l.signs := rfl
@[simp] theorem Lanelet.cleanL_lights : (l.cleanL P).lights = l.lights := rfl
@[simp] theorem Lanelet.cleanL_stop : (l.cleanL P).stop = l.stop := rfl
@[simp] theorem Lanelet.cleanL_stopS : (l.cleanL P).stopS = l.stopS := rfl
@[simp] theorem Lanelet.cleanL_stopT : (l.cleanL P).stopT = l.stopT := rfl
@[simp] theorem Lanelet.cleanL_pred : (l.cleanL P).pred = keepInL P l.pred := rfl
@[simp] theorem Lanelet.cleanL_succ : (l.cleanL P).succ = keepInL P l.succ := rfl
@[simp] theorem Lanelet.cleanL_adjL : (l.cleanL P).adjL = l.adjL.filter P := rfl
@[simp] theorem Lanelet.cleanL_adjR : (l.cleanL P).adjR = l.adjR.filter P := rfl
theorem Lanelet.cleanL_adjLSame :
    (l.cleanL P).adjLSame = if (l.adjL.filter P).isSome then l.adjLSame else none := rfl
theorem Lanelet.cleanL_adjRSame :
    (l.cleanL P).adjRSame = if (l.adjR.filter P).isSome then l.adjRSame else none := rfl

@[simp] theorem Lanelet.cleanS_id : (l.cleanS P).id = l.id := rfl
@[simp] theorem Lanelet.cleanS_content : (l.cleanS P).content = l.content := rfl
@[simp] theorem Lanelet.cleanS_pred : (l.cleanS P).pred = l.pred := rfl
@[simp] theorem Lanelet.cleanS_succ : (l.cleanS P).succ = l.succ := rfl
@[simp] theorem Lanelet.cleanS_adjL : (l.cleanS P).adjL = l.adjL := rfl
@[simp] theorem Lanelet.cleanS_adjR : (l.cleanS P).adjR = l.adjR := rfl
@[simp] theorem Lanelet.cleanS_adjLSame : (l.cleanS P).adjLSame = l.adjLSame := rfl
@[simp] theorem Lanelet.cleanS_adjRSame : (l.cleanS P).adjRSame = l.adjRSame := rfl
@[simp] theorem Lanelet.cleanS_lrefs : (l.cleanS P).lrefs = l.lrefs := rfl
@[simp] theorem Lanelet.cleanS_signs : (l.cleanS P).signs = keepIn P l.signs := rfl
@[simp] theorem Lanelet.cleanS_lights : (l.cleanS P).lights = l.lights := rfl

@[simp] theorem Lanelet.cleanT_id : (l.cleanT P).id = l.id := rfl
@[simp] theorem Lanelet.cleanT_content : (l.cleanT P).content = l.content := rfl
@[simp] theorem Lanelet.cleanT_pred : (l.cleanT P).pred = l.pred := rfl
@[simp] theorem Lanelet.cleanT_succ : (l.cleanT P).succ = l.succ := rfl
@[simp] theorem Lanelet.cleanT_adjL : (l.cleanT P).adjL = l.adjL := rfl
@[simp] theorem Lanelet.cleanT_adjR : (l.cleanT P).adjR = l.adjR := rfl
@[simp] theorem Lanelet.cleanT_adjLSame : (l.cleanT P).adjLSame = l.adjLSame := rfl
@[simp] theorem Lanelet.cleanT_adjRSame : (l.cleanT P).adjRSame = l.adjRSame := rfl
@[simp] theorem Lanelet.cleanT_lrefs : (l.cleanT P).lrefs = l.lrefs := rfl
@[simp] theorem Lanelet.cleanT_lights : (l.cleanT P).lights = keepIn P l.lights := rfl
@[simp] theorem Lanelet.cleanT_signs : (l.cleanT P).signs = l.signs := rfl

theorem Lanelet.mem_cleanL_lrefs {a : Id} : a ∈ (l.cleanL P).lrefs ↔ a ∈ l.lrefs ∧ P a = true := by
  simp only [Lanelet.lrefs, List.mem_append, Lanelet.cleanL_pred, Lanelet.cleanL_succ, Lanelet.cleanL_adjL,
    Lanelet.cleanL_adjR, mem_keepInL, mem_optFilter_toList]
  grind

theorem Lanelet.mem_cleanS_stopS {a : Id} : a ∈ (l.cleanS P).stopS ↔ a ∈ l.stopS ∧ P a = true := by
  unfold Lanelet.stopS Lanelet.cleanS StopLine.srefs
  cases h : l.stop with
  | none => simp
  | some st =>
    cases h2 : st.signRef with
    | none => simp [h2]
    | some r => simp [h2, mem_keepIn]

theorem Lanelet.cleanS_stopT : (l.cleanS P).stopT = l.stopT := by
  unfold Lanelet.stopT Lanelet.cleanS StopLine.trefs
  cases h : l.stop <;> simp

theorem Lanelet.mem_cleanT_stopT {a : Id} : a ∈ (l.cleanT P).stopT ↔ a ∈ l.stopT ∧ P a = true := by
  unfold Lanelet.stopT Lanelet.cleanT StopLine.trefs
  cases h : l.stop with
  | none => simp
  | some st =>
    cases h2 : st.lightRef with
    | none => simp [h2]
    | some r => simp [h2, mem_keepIn]

theorem Lanelet.cleanT_stopS : (l.cleanT P).stopS = l.stopS := by
  unfold Lanelet.stopS Lanelet.cleanT StopLine.srefs
  cases h : l.stop <;> simp

end lanelet

/-! ### one intersection -/

theorem Incoming.mem_cleanL_lrefs (P : Id → Bool) (k : Incoming) {a : Id} :
    a ∈ (k.cleanL P).lrefs ↔ a ∈ k.lrefs ∧ P a = true := by
  simp only [Incoming.lrefs, Incoming.cleanL, List.mem_append, mem_keepIn]
  grind

theorem Intersection.mem_cleanL_lrefs (P : Id → Bool) (i : Intersection) {a : Id} :
    a ∈ (i.cleanL P).lrefs ↔ a ∈ i.lrefs ∧ P a = true := by
  simp only [Intersection.lrefs, Intersection.cleanL, List.mem_append, mem_keepIn, List.mem_flatMap, List.mem_map]
  constructor
  · rintro (h | ⟨k', ⟨k, hk, rfl⟩, ha⟩)
    · exact ⟨Or.inl h.1, h.2⟩
    · rw [Incoming.mem_cleanL_lrefs] at ha
      exact ⟨Or.inr ⟨k, hk, ha.1⟩, ha.2⟩
  · rintro ⟨h | ⟨k, hk, ha⟩, hp⟩
    · exact Or.inl ⟨h, hp⟩
    · exact Or.inr ⟨k.cleanL P, ⟨k, hk, rfl⟩, (Incoming.mem_cleanL_lrefs P k).2 ⟨ha, hp⟩⟩

theorem Incoming.cut_some {P : Id → Bool} {k k' : Incoming} (h : k.cut P = some k') :
    k' = { k with inc := keepIn P k.inc, right := keepIn P k.right, straight := keepIn P k.straight,
                  left := keepIn P k.left } := by
  unfold Incoming.cut at h
  simp only at h
  split at h
  · cases h
  · split at h
    · cases h
    · exact (Option.some.inj h).symm

theorem Incoming.mem_cut_lrefs {P : Id → Bool} {k k' : Incoming} (h : k.cut P = some k') {a : Id} :
    a ∈ k'.lrefs ↔ a ∈ k.lrefs ∧ P a = true := by
  rw [Incoming.cut_some h]
  simp only [Incoming.lrefs, List.mem_append, mem_keepIn]
  grind

theorem Intersection.cut_some {P : Id → Bool} {i i' : Intersection} (h : i.cut P = some i') :
    i' = { i with incomings := i.incomings.filterMap (·.cut P), crossings := keepIn P i.crossings } := by
  unfold Intersection.cut at h
  simp only at h
  split at h
  · cases h
  · exact (Option.some.inj h).symm

theorem Intersection.mem_cut_lrefs {P : Id → Bool} {i i' : Intersection} (h : i.cut P = some i') {a : Id}
    (ha : a ∈ i'.lrefs) : a ∈ i.lrefs ∧ P a = true := by
  rw [Intersection.cut_some h] at ha
  simp only [Intersection.lrefs, List.mem_append, mem_keepIn, List.mem_flatMap, List.mem_filterMap] at ha ⊢
  rcases ha with h1 | ⟨k', ⟨k, hk, hc⟩, hk'⟩
  · exact ⟨Or.inl h1.1, h1.2⟩
  · have := (Incoming.mem_cut_lrefs hc).1 hk'
    exact ⟨Or.inr ⟨k, hk, this.1⟩, this.2⟩

/-! ### network level: which ids an operation leaves -/

@[simp] theorem Net.cleanupLaneletRefs_lids (n : Net) : n.cleanupLaneletRefs.lids = n.lids := by
  simp [Net.cleanupLaneletRefs, Net.lids, List.map_map, Function.comp_def]
@[simp] theorem Net.cleanupLaneletRefs_signs (n : Net) : n.cleanupLaneletRefs.signs = n.signs := rfl
@[simp] theorem Net.cleanupLaneletRefs_lights (n : Net) : n.cleanupLaneletRefs.lights = n.lights := rfl
@[simp] theorem Net.cleanupLaneletRefs_sids (n : Net) : n.cleanupLaneletRefs.sids = n.sids := rfl
@[simp] theorem Net.cleanupLaneletRefs_tids (n : Net) : n.cleanupLaneletRefs.tids = n.tids := rfl

@[simp] theorem Net.cleanupSignRefs_lids (n : Net) : n.cleanupSignRefs.lids = n.lids := by
  simp [Net.cleanupSignRefs, Net.lids, List.map_map, Function.comp_def]
@[simp] theorem Net.cleanupSignRefs_signs (n : Net) : n.cleanupSignRefs.signs = n.signs := rfl
@[simp] theorem Net.cleanupSignRefs_lights (n : Net) : n.cleanupSignRefs.lights = n.lights := rfl
@[simp] theorem Net.cleanupSignRefs_sids (n : Net) : n.cleanupSignRefs.sids = n.sids := rfl
@[simp] theorem Net.cleanupSignRefs_tids (n : Net) : n.cleanupSignRefs.tids = n.tids := rfl
@[simp] theorem Net.cleanupSignRefs_inters (n : Net) : n.cleanupSignRefs.inters = n.inters := rfl

@[simp] theorem Net.cleanupLightRefs_lids (n : Net) : n.cleanupLightRefs.lids = n.lids := by
  simp [Net.cleanupLightRefs, Net.lids, List.map_map, Function.comp_def]
@[simp] theorem Net.cleanupLightRefs_signs (n : Net) : n.cleanupLightRefs.signs = n.signs := rfl
@[simp] theorem Net.cleanupLightRefs_lights (n : Net) : n.cleanupLightRefs.lights = n.lights := rfl
@[simp] theorem Net.cleanupLightRefs_sids (n : Net) : n.cleanupLightRefs.sids = n.sids := rfl
@[simp] theorem Net.cleanupLightRefs_tids (n : Net) : n.cleanupLightRefs.tids = n.tids := rfl
@[simp] theorem Net.cleanupLightRefs_inters (n : Net) : n.cleanupLightRefs.inters = n.inters := rfl

theorem contains_eq_true_iff {xs : List Id} {a : Id} : xs.contains a = true ↔ a ∈ xs := by simp

/-! ### the four parts of `NoDangling` under the three clean-ups -/

theorem lanOK_cleanupLaneletRefs (n : Net) : LanOK n.cleanupLaneletRefs := by
  intro l' hl' a ha
  rw [Net.cleanupLaneletRefs_lids]
  simp only [Net.cleanupLaneletRefs, List.mem_map] at hl'
  obtain ⟨l, _, rfl⟩ := hl'
  have := ((Lanelet.mem_cleanL_lrefs _ l).1 ha).2
  simpa using this

theorem interOK_cleanupLaneletRefs (n : Net) : InterOK n.cleanupLaneletRefs := by
  intro i' hi' a ha
  rw [Net.cleanupLaneletRefs_lids]
  simp only [Net.cleanupLaneletRefs, List.mem_map] at hi'
  obtain ⟨i, _, rfl⟩ := hi'
  have := ((Intersection.mem_cleanL_lrefs _ i).1 ha).2
  simpa using this

theorem signOK_cleanupLaneletRefs {n : Net} (h : SignOK n) : SignOK n.cleanupLaneletRefs := by
  intro l' hl' a ha
  simp only [Net.cleanupLaneletRefs, List.mem_map] at hl'
  obtain ⟨l, hl, rfl⟩ := hl'
  simpa using h l hl a (by simpa using ha)

theorem lightOK_cleanupLaneletRefs {n : Net} (h : LightOK n) : LightOK n.cleanupLaneletRefs := by
  intro l' hl' a ha
  simp only [Net.cleanupLaneletRefs, List.mem_map] at hl'
  obtain ⟨l, hl, rfl⟩ := hl'
  simpa using h l hl a (by simpa using ha)

theorem signOK_cleanupSignRefs (n : Net) : SignOK n.cleanupSignRefs := by
  intro l' hl' a ha
  rw [Net.cleanupSignRefs_sids]
  simp only [Net.cleanupSignRefs, List.mem_map] at hl'
  obtain ⟨l, _, rfl⟩ := hl'
  rw [List.mem_append, Lanelet.cleanS_signs, mem_keepIn, Lanelet.mem_cleanS_stopS] at ha
  rcases ha with h | h <;> simpa using h.2

theorem lanOK_cleanupSignRefs {n : Net} (h : LanOK n) : LanOK n.cleanupSignRefs := by
  intro l' hl' a ha
  simp only [Net.cleanupSignRefs, List.mem_map] at hl'
  obtain ⟨l, hl, rfl⟩ := hl'
  simpa using h l hl a (by simpa using ha)

theorem lightOK_cleanupSignRefs {n : Net} (h : LightOK n) : LightOK n.cleanupSignRefs := by
  intro l' hl' a ha
  simp only [Net.cleanupSignRefs, List.mem_map] at hl'
  obtain ⟨l, hl, rfl⟩ := hl'
  rw [Lanelet.cleanS_lights, Lanelet.cleanS_stopT] at ha
  simpa using h l hl a ha

theorem interOK_cleanupSignRefs {n : Net} (h : InterOK n) : InterOK n.cleanupSignRefs := by
  intro i hi a ha
  simpa using h i hi a ha

theorem lightOK_cleanupLightRefs (n : Net) : LightOK n.cleanupLightRefs := by
  intro l' hl' a ha
  rw [Net.cleanupLightRefs_tids]
  simp only [Net.cleanupLightRefs, List.mem_map] at hl'
  obtain ⟨l, _, rfl⟩ := hl'
  rw [List.mem_append, Lanelet.cleanT_lights, mem_keepIn, Lanelet.mem_cleanT_stopT] at ha
  rcases ha with h | h <;> simpa using h.2

theorem lanOK_cleanupLightRefs {n : Net} (h : LanOK n) : LanOK n.cleanupLightRefs := by
  intro l' hl' a ha
  simp only [Net.cleanupLightRefs, List.mem_map] at hl'
  obtain ⟨l, hl, rfl⟩ := hl'
  simpa using h l hl a (by simpa using ha)

theorem signOK_cleanupLightRefs {n : Net} (h : SignOK n) : SignOK n.cleanupLightRefs := by
  intro l' hl' a ha
  simp only [Net.cleanupLightRefs, List.mem_map] at hl'
  obtain ⟨l, hl, rfl⟩ := hl'
  rw [Lanelet.cleanT_signs, Lanelet.cleanT_stopS] at ha
  simpa using h l hl a ha

theorem interOK_cleanupLightRefs {n : Net} (h : InterOK n) : InterOK n.cleanupLightRefs := by
  intro i hi a ha
  simpa using h i hi a ha

/-! ### `Wf` under the clean-ups and under taking fewer lanelets -/

theorem wf_cleanupLaneletRefs {n : Net} (h : Wf n) : Wf n.cleanupLaneletRefs := by
  intro l' hl'
  simp only [Net.cleanupLaneletRefs, List.mem_map] at hl'
  obtain ⟨l, hl, rfl⟩ := hl'
  simpa using h l hl

theorem wf_cleanupSignRefs {n : Net} (h : Wf n) : Wf n.cleanupSignRefs := by
  intro l' hl'
  simp only [Net.cleanupSignRefs, List.mem_map] at hl'
  obtain ⟨l, hl, rfl⟩ := hl'
  refine ⟨?_, ?_⟩
  · intro a ha
    rw [Lanelet.mem_cleanS_stopS] at ha
    rw [Lanelet.cleanS_signs, mem_keepIn]
    exact ⟨(h l hl).1 a ha.1, ha.2⟩
  · rw [Lanelet.cleanS_stopT, Lanelet.cleanS_lights]
    exact (h l hl).2

theorem wf_cleanupLightRefs {n : Net} (h : Wf n) : Wf n.cleanupLightRefs := by
  intro l' hl'
  simp only [Net.cleanupLightRefs, List.mem_map] at hl'
  obtain ⟨l, hl, rfl⟩ := hl'
  refine ⟨?_, ?_⟩
  · rw [Lanelet.cleanT_stopS, Lanelet.cleanT_signs]
    exact (h l hl).1
  · intro a ha
    rw [Lanelet.mem_cleanT_stopT] at ha
    rw [Lanelet.cleanT_lights, mem_keepIn]
    exact ⟨(h l hl).2 a ha.1, ha.2⟩

theorem wf_of_lanelets_subset {n m : Net} (h : Wf n) (hs : ∀ l ∈ m.lanelets, l ∈ n.lanelets) : Wf m :=
  fun l hl => h l (hs l hl)

/-! ### network-level operations keep `NoDangling` and `Wf` -/

theorem nd_removeLanelet {n : Net} (h : NoDangling n) (x : Id) : NoDangling (n.removeLanelet x) := by
  unfold Net.removeLanelet
  split
  · refine ⟨lanOK_cleanupLaneletRefs _, signOK_cleanupLaneletRefs ?_, lightOK_cleanupLaneletRefs ?_,
      interOK_cleanupLaneletRefs _⟩
    · intro l hl a ha; exact h.2.1 l (List.mem_filter.1 hl).1 a ha
    · intro l hl a ha; exact h.2.2.1 l (List.mem_filter.1 hl).1 a ha
  · exact h

theorem wf_removeLanelet {n : Net} (h : Wf n) (x : Id) : Wf (n.removeLanelet x) := by
  unfold Net.removeLanelet
  split
  · exact wf_cleanupLaneletRefs (wf_of_lanelets_subset h fun l hl => (List.mem_filter.1 hl).1)
  · exact h

theorem nd_removeSign {n : Net} (h : NoDangling n) (x : Id) : NoDangling (n.removeSign x) := by
  unfold Net.removeSign
  split
  · exact ⟨lanOK_cleanupSignRefs h.1, signOK_cleanupSignRefs _, lightOK_cleanupSignRefs h.2.2.1,
      interOK_cleanupSignRefs h.2.2.2⟩
  · exact h

theorem wf_removeSign {n : Net} (h : Wf n) (x : Id) : Wf (n.removeSign x) := by
  unfold Net.removeSign
  split
  · exact wf_cleanupSignRefs (n := { n with signs := n.signs.filter (fun s => s.1 != x) }) h
  · exact h

theorem nd_removeLight {n : Net} (h : NoDangling n) (x : Id) : NoDangling (n.removeLight x) :=
  ⟨lanOK_cleanupLightRefs h.1, signOK_cleanupLightRefs h.2.1, lightOK_cleanupLightRefs _,
    interOK_cleanupLightRefs h.2.2.2⟩

theorem wf_removeLight {n : Net} (h : Wf n) (x : Id) : Wf (n.removeLight x) :=
  wf_cleanupLightRefs (n := { n with lights := n.lights.filter (fun s => s.1 != x) }) h

theorem nd_removeInter {n : Net} (h : NoDangling n) (x : Id) : NoDangling (n.removeInter x) :=
  ⟨h.1, h.2.1, h.2.2.1, fun i hi a ha => h.2.2.2 i (List.mem_filter.1 hi).1 a ha⟩

theorem wf_removeInter {n : Net} (h : Wf n) (x : Id) : Wf (n.removeInter x) := h

/-- what a successful cut-out returns -/
theorem cutOut_ok {n n' : Net} {keep : Id → Bool} {c : Bool} (h : n.cutOut keep c = .ok n') :
    (∀ l ∈ n.cutKept keep, ∀ a ∈ l.signs, a ∈ n.sids) ∧ (∀ l ∈ n.cutKept keep, ∀ a ∈ l.lights, a ∈ n.tids) ∧
    n' = if c then (n.cutBase keep).cleanupLaneletRefs else n.cutBase keep := by
  unfold Net.cutOut at h
  simp only at h
  split at h
  · cases h
  · split at h
    · cases h
    · rename_i h1 h2
      simp only [Bool.not_eq_false, Bool.not_eq_eq_eq_not, Bool.not_true,
        List.all_eq_true, List.mem_flatMap, contains_eq_true_iff] at h1 h2
      refine ⟨fun l hl a ha => ?_, fun l hl a ha => ?_, (Except.ok.inj h).symm⟩
      · have := h1; simp at this; exact this a l hl ha
      · have := h2; simp at this; exact this a l hl ha

theorem signOK_cutBase {n : Net} {keep : Id → Bool} (hw : Wf n)
    (hs : ∀ l ∈ n.cutKept keep, ∀ a ∈ l.signs, a ∈ n.sids) : SignOK (n.cutBase keep) := by
  intro l hl a ha
  have hl' : l ∈ n.cutKept keep := hl
  have hln : l ∈ n.lanelets := (List.mem_filter.1 hl').1
  have ha' : a ∈ l.signs := by
    rcases List.mem_append.1 ha with h | h
    · exact h
    · exact (hw l hln).1 a h
  have hin := hs l hl' a ha'
  simp only [Net.sids, List.mem_map] at hin ⊢
  obtain ⟨s, hs1, hs2⟩ := hin
  refine ⟨s, ?_, hs2⟩
  simp only [Net.cutBase, List.mem_filter, contains_eq_true_iff, List.mem_flatMap]
  exact ⟨hs1, l, hl', hs2 ▸ ha'⟩

theorem lightOK_cutBase {n : Net} {keep : Id → Bool} (hw : Wf n)
    (hs : ∀ l ∈ n.cutKept keep, ∀ a ∈ l.lights, a ∈ n.tids) : LightOK (n.cutBase keep) := by
  intro l hl a ha
  have hl' : l ∈ n.cutKept keep := hl
  have hln : l ∈ n.lanelets := (List.mem_filter.1 hl').1
  have ha' : a ∈ l.lights := by
    rcases List.mem_append.1 ha with h | h
    · exact h
    · exact (hw l hln).2 a h
  have hin := hs l hl' a ha'
  simp only [Net.tids, List.mem_map] at hin ⊢
  obtain ⟨s, hs1, hs2⟩ := hin
  refine ⟨s, ?_, hs2⟩
  simp only [Net.cutBase, List.mem_filter, contains_eq_true_iff, List.mem_flatMap]
  exact ⟨hs1, l, hl', hs2 ▸ ha'⟩

theorem nd_cutOut {n n' : Net} {keep : Id → Bool} (hw : Wf n) (h : n.cutOut keep true = .ok n') :
    NoDangling n' := by
  obtain ⟨hs, ht, rfl⟩ := cutOut_ok h
  exact ⟨lanOK_cleanupLaneletRefs _, signOK_cleanupLaneletRefs (signOK_cutBase hw hs),
    lightOK_cleanupLaneletRefs (lightOK_cutBase hw ht), interOK_cleanupLaneletRefs _⟩

theorem wf_cutBase {n : Net} (keep : Id → Bool) (hw : Wf n) : Wf (n.cutBase keep) :=
  wf_of_lanelets_subset hw fun _ hl => (List.mem_filter.1 hl).1

theorem wf_cutOut {n n' : Net} {keep : Id → Bool} {c : Bool} (hw : Wf n) (h : n.cutOut keep c = .ok n') : Wf n' := by
  obtain ⟨_, _, rfl⟩ := cutOut_ok h
  cases c
  · exact wf_cutBase keep hw
  · exact wf_cleanupLaneletRefs (wf_cutBase keep hw)

theorem mem_addLanelets {acc ls : List Lanelet} {l : Lanelet} (h : l ∈ addLanelets acc ls) : l ∈ acc ∨ l ∈ ls := by
  induction ls generalizing acc with
  | nil => exact Or.inl h
  | cons b bs ih =>
    unfold addLanelets at h
    split at h
    · rcases ih h with h | h
      · exact Or.inl h
      · exact Or.inr (List.mem_cons_of_mem _ h)
    · rcases ih h with h | h
      · rcases List.mem_append.1 h with h | h
        · exact Or.inl h
        · exact Or.inr (by simp at h; simp [h])
      · exact Or.inr (List.mem_cons_of_mem _ h)

theorem findLanelet_mem {n : Net} {x : Id} {l : Lanelet} (h : n.findLanelet x = some l) : l ∈ n.lanelets ∧ l.id = x := by
  unfold Net.findLanelet at h
  exact ⟨List.mem_of_find?_eq_some h, by simpa using List.find?_some h⟩

/-- the lanelets `create_from_lanelet_list` starts from are lanelets of the old network -/
theorem fromList_base_mem {n : Net} {sel : List Id} {l : Lanelet}
    (h : l ∈ addLanelets [] (sel.filterMap n.findLanelet)) : l ∈ n.lanelets ∧ l.id ∈ sel := by
  rcases mem_addLanelets h with h | h
  · cases h
  · obtain ⟨x, hx, hf⟩ := List.mem_filterMap.1 h
    have := findLanelet_mem hf
    exact ⟨this.1, this.2 ▸ hx⟩

theorem nd_fromList (n : Net) (sel : List Id) : NoDangling (n.fromList sel true) := by
  unfold Net.fromList
  simp only [if_true]
  exact ⟨lanOK_cleanupSignRefs (lanOK_cleanupLightRefs (lanOK_cleanupLaneletRefs _)), signOK_cleanupSignRefs _,
    lightOK_cleanupSignRefs (lightOK_cleanupLightRefs _),
    interOK_cleanupSignRefs (interOK_cleanupLightRefs (interOK_cleanupLaneletRefs _))⟩

theorem wf_fromList {n : Net} (hw : Wf n) (sel : List Id) (c : Bool) : Wf (n.fromList sel c) := by
  have h0 : Wf ({ lanelets := addLanelets [] (sel.filterMap n.findLanelet), signs := [], lights := [], inters := [] } : Net) :=
    wf_of_lanelets_subset hw fun l hl => (fromList_base_mem hl).1
  unfold Net.fromList
  cases c
  · exact h0
  · exact wf_cleanupSignRefs (wf_cleanupLightRefs (wf_cleanupLaneletRefs h0))

/-! ### scenario-level loops -/

@[simp] theorem Scn.idsRemove_net (s : Scn) (i : Id) : (s.idsRemove i).1.net = s.net := by
  unfold Scn.idsRemove; split <;> rfl

theorem Scn.idsRemoveAll_net (s : Scn) (is : List Id) : (s.idsRemoveAll is).1.net = s.net := by
  induction is generalizing s with
  | nil => rfl
  | cons i is ih =>
    unfold Scn.idsRemoveAll
    have := Scn.idsRemove_net s i
    split
    · rename_i s1 heq; rw [ih]; rw [heq] at this; exact this
    · rename_i r hne
      cases hr : s.idsRemove i with
      | mk s1 e =>
        cases e with
        | none => exact absurd hr (hne s1)
        | some e => rw [hr] at this; exact this

/-- the shape shared by the three scenario-level loops: look the element up (`kind`), remove it from the network
(`f`), remove its id from the pool -/
def LoopShape (kind : Net → List Id) (f : Net → Id → Net) (loop : Scn → List Id → Scn × Option Err) : Prop :=
  (∀ s, loop s [] = (s, none)) ∧
  ∀ s i is, loop s (i :: is) =
    if (kind s.net).contains i then
      match ({ s with net := f s.net i } : Scn).idsRemove i with
      | (s2, none) => loop s2 is
      | r => r
    else (s, some .key)

theorem loopShape_signs : LoopShape Net.sids Net.removeSign Scn.removeSigns := ⟨fun _ => rfl, fun _ _ _ => rfl⟩
theorem loopShape_lights : LoopShape Net.tids Net.removeLight Scn.removeLights := ⟨fun _ => rfl, fun _ _ _ => rfl⟩
theorem loopShape_lanelets : LoopShape Net.lids Net.removeLanelet Scn.removeLaneletLoop := ⟨fun _ => rfl, fun _ _ _ => rfl⟩

/-- A predicate on networks kept by one network operation is kept by the scenario loop over it. -/
theorem Scn.loop_inv {kind : Net → List Id} {f : Net → Id → Net} {loop : Scn → List Id → Scn × Option Err}
    (hl : LoopShape kind f loop)
    (Q : Net → Prop) (hf : ∀ n i, Q n → Q (f n i)) (s : Scn) (is : List Id) (h : Q s.net) : Q (loop s is).1.net := by
  induction is generalizing s with
  | nil => rw [hl.1]; exact h
  | cons i is ih =>
    rw [hl.2]
    split
    · have hn := Scn.idsRemove_net ({ s with net := f s.net i } : Scn) i
      cases hr : ({ s with net := f s.net i } : Scn).idsRemove i with
      | mk s1 e =>
        rw [hr] at hn
        cases e with
        | none => exact ih s1 (by rw [hn]; exact hf _ _ h)
        | some e => show Q s1.net; rw [hn]; exact hf _ _ h
    · exact h

theorem Scn.removeSigns_inv (Q : Net → Prop) (hf : ∀ n i, Q n → Q (n.removeSign i)) (s : Scn) (is : List Id)
    (h : Q s.net) : Q (s.removeSigns is).1.net := Scn.loop_inv loopShape_signs Q hf s is h

theorem Scn.removeLights_inv (Q : Net → Prop) (hf : ∀ n i, Q n → Q (n.removeLight i)) (s : Scn) (is : List Id)
    (h : Q s.net) : Q (s.removeLights is).1.net := Scn.loop_inv loopShape_lights Q hf s is h

theorem Scn.removeLaneletLoop_inv (Q : Net → Prop) (hf : ∀ n i, Q n → Q (n.removeLanelet i)) (s : Scn) (is : List Id)
    (h : Q s.net) : Q (s.removeLaneletLoop is).1.net := Scn.loop_inv loopShape_lanelets Q hf s is h

theorem Scn.removeHanging_inv (Q : Net → Prop) (hs : ∀ n i, Q n → Q (n.removeSign i))
    (ht : ∀ n i, Q n → Q (n.removeLight i)) (s : Scn) (args : List RmArg) (h : Q s.net) :
    Q (s.removeHanging args).1.net := by
  unfold Scn.removeHanging
  dsimp only
  have h1 := Scn.removeSigns_inv Q hs s (s.net.hangingSigns args) h
  cases hr : s.removeSigns (s.net.hangingSigns args) with
  | mk s1 e =>
    rw [hr] at h1
    cases e with
    | none => exact Scn.removeLights_inv Q ht s1 _ h1
    | some e => exact h1

theorem Scn.removeLanelets_inv (Q : Net → Prop) (hl : ∀ n i, Q n → Q (n.removeLanelet i))
    (hs : ∀ n i, Q n → Q (n.removeSign i)) (ht : ∀ n i, Q n → Q (n.removeLight i)) (s : Scn) (args : List RmArg)
    (r : Bool) (h : Q s.net) : Q (s.removeLanelets args r).1.net := by
  unfold Scn.removeLanelets
  cases r
  · exact Scn.removeLaneletLoop_inv Q hl s _ h
  · simp only [if_true]
    have h1 := Scn.removeHanging_inv Q hs ht s args h
    cases hr : s.removeHanging args with
    | mk s1 e =>
      rw [hr] at h1
      cases e with
      | none => exact Scn.removeLaneletLoop_inv Q hl s1 _ h1
      | some e => exact h1

/-- `Scenario.remove_intersection`: whether or not it raises, the network afterwards is the network without the
intersection (when the network holds no such intersection nothing is removed) -/
theorem Scn.removeInter_net (s : Scn) (x : Id) : (s.removeInter x).1.net = s.net.removeInter x := by
  unfold Scn.removeInter
  cases hf : s.net.inters.find? (fun i => i.id == x) with
  | some i => simp only; rw [Scn.idsRemoveAll_net]
  | none =>
    simp only
    rw [List.find?_eq_none] at hf
    have : s.net.inters.filter (fun i => i.id != x) = s.net.inters := by
      apply List.filter_eq_self.2
      intro i hi
      have := hf i hi
      simpa using this
    unfold Net.removeInter
    rw [this]

/-- a predicate kept by `LaneletNetwork.remove_intersection` is kept by the list form of `Scenario.remove_intersection`
(also in the state it leaves when it raises half-way) -/
theorem Scn.removeInters_inv' (Q : Net → Prop) (s : Scn) (xs : List Id)
    (hf : ∀ n, ∀ x ∈ xs, Q n → Q (n.removeInter x)) (h : Q s.net) : Q (s.removeInters xs).1.net := by
  induction xs generalizing s with
  | nil => exact h
  | cons x xs ih =>
    unfold Scn.removeInters
    have hn := Scn.removeInter_net s x
    have hq : Q (s.net.removeInter x) := hf _ x List.mem_cons_self h
    cases hr : s.removeInter x with
    | mk s1 e =>
      rw [hr] at hn
      cases e with
      | none => exact ih s1 (fun n y hy => hf n y (List.mem_cons_of_mem _ hy)) (by rw [hn]; exact hq)
      | some e => show Q s1.net; rw [hn]; exact hq

theorem Scn.removeInters_inv (Q : Net → Prop) (hf : ∀ n x, Q n → Q (n.removeInter x)) (s : Scn) (xs : List Id)
    (h : Q s.net) : Q (s.removeInters xs).1.net := Scn.removeInters_inv' Q s xs (fun n x _ => hf n x) h

end CR.Refs
