import CRProofs.XsdEnum
namespace CR.C03
set_option maxRecDepth 100000 in
set_option maxHeartbeats 1000000 in
theorem signs_zam_1 : (zamSigns.drop 0).take 60 = (gerSigns.drop 0).take 60 := by decide
end CR.C03
