/-
  Helper lemmas for C15 (model: CRModel/WriterSM.lean).
-/
import CRModel.WriterSM
namespace CR.Writer

variable {Input Node Bytes : Type}

/-- The constructor arguments a writer object carries. -/
def Writer.args (w : Writer Input Node) : Format × Input × Nat := (w.fmt, w.inp, w.prec)

/-- Constructor arguments of all writer objects of a process, in order of construction. -/
def argsOf (st : Proc Input Node Bytes) : List (Format × Input × Nat) := st.ws.map Writer.args

/-- The constructor arguments appearing in a history, in order. -/
def newsOf : List (Op Input) → List (Format × Input × Nat)
  | [] => []
  | .new f i p :: r => (f, i, p) :: newsOf r
  | .write _ _ _ _ _ :: r => newsOf r

theorem map_set_same {α β : Type} (f : α → β) :
    ∀ (l : List α) (i : Nat) (w w' : α), l[i]? = some w → f w' = f w → (l.set i w').map f = l.map f
  | [], _, _, _, h, _ => by simp at h
  | a :: l, 0, w, w', h, hf => by
    simp at h
    subst h
    simp [hf]
  | a :: l, i + 1, w, w', h, hf => by
    simp at h
    simp [map_set_same f l i w w' h hf]

/-- Everything a write call can do, for either variant of the code. -/
theorem writeStep_cases (sem : Sem) (c : Codec Input Node Bytes) (st : Proc Input Node Bytes)
    (i : Nat) (kind : Kind) (file : Option String) (mode : Mode) (a : Bool) :
    ∀ r, writeStep sem c st i kind file mode a = r →
    r.1.gprec = st.gprec ∧ argsOf r.1 = argsOf st ∧
    ((r.1.fs = st.fs ∧ (r.2 = .skipped ∨ ∃ e, r.2 = .failed e)) ∨
     (∃ w p b, st.ws[i]? = some w ∧ p = resolveName c w kind file ∧ p ≠ "" ∧
        ¬ ((st.fs p).isSome = true ∧ keepExisting mode a = true) ∧
        r.2 = .wrote p b ∧ r.1.fs = setFile st.fs p b ∧
        b = (match w.fmt with
             | .xml => c.dumpXml w.inp ((if sem.freshRoot then [] else w.root) ++
                         newNodes c w.inp kind (if sem.ownPrec then w.prec else st.gprec))
             | .pb => c.pbBytes w.inp kind))) := by
  intro r hr
  subst hr
  unfold writeStep
  split
  · simp
  · rename_i w hw
    simp only
    split
    · simp
    · rename_i h1
      split
      · simp
      · rename_i h2
        split
        · rename_i hf
          split
          · rename_i h3
            refine ⟨rfl, ?_, Or.inl ⟨rfl, Or.inr ⟨_, rfl⟩⟩⟩
            exact map_set_same Writer.args st.ws i w _ hw rfl
          · rename_i h3
            refine ⟨rfl, ?_, Or.inr ⟨w, _, _, hw, rfl, h3, ?_, rfl, rfl, by simp [hf]⟩⟩
            · exact map_set_same Writer.args st.ws i w _ hw rfl
            · intro hk
              simp [h3, hk.1, hk.2] at h2
        · rename_i hf
          have hne : resolveName c w kind file ≠ "" := by
            intro he
            simp [he, hf] at h1
          refine ⟨rfl, rfl, Or.inr ⟨w, _, _, hw, rfl, hne, ?_, rfl, rfl, by simp [hf]⟩⟩
          intro hk
          simp [hne, hk.1, hk.2] at h2

theorem step_gprec_write (sem : Sem) (c : Codec Input Node Bytes) (st : Proc Input Node Bytes)
    (i : Nat) (kind : Kind) (file : Option String) (mode : Mode) (a : Bool) :
    (step sem c st (.write i kind file mode a)).1.gprec = st.gprec :=
  (writeStep_cases sem c st i kind file mode a _ rfl).1

theorem argsOf_step (sem : Sem) (c : Codec Input Node Bytes) (st : Proc Input Node Bytes) (op : Op Input) :
    argsOf (step sem c st op).1 = argsOf st ++ newsOf [op] := by
  cases op with
  | new f i p => simp [step, argsOf, newsOf, Writer.args]
  | write i kind file mode a =>
    have := (writeStep_cases sem c st i kind file mode a _ rfl).2.1
    simpa [step, newsOf] using this

theorem newsOf_append (l1 l2 : List (Op Input)) : newsOf (l1 ++ l2) = newsOf l1 ++ newsOf l2 := by
  induction l1 with
  | nil => rfl
  | cons op r ih => cases op <;> simp [newsOf, ih]

theorem argsOf_run (sem : Sem) (c : Codec Input Node Bytes) :
    ∀ (ops : List (Op Input)) (st : Proc Input Node Bytes), argsOf (runSt sem c st ops) = argsOf st ++ newsOf ops
  | [], st => by simp [runSt, run, newsOf]
  | op :: ops, st => by
    have ih := argsOf_run sem c ops (step sem c st op).1
    have h1 := argsOf_step sem c st op
    simp only [runSt, run] at ih ⊢
    rw [ih, h1, List.append_assoc, ← newsOf_append]
    rfl

theorem runSt_append (sem : Sem) (c : Codec Input Node Bytes) :
    ∀ (l1 l2 : List (Op Input)) (st : Proc Input Node Bytes),
      runSt sem c st (l1 ++ l2) = runSt sem c (runSt sem c st l1) l2
  | [], _, _ => rfl
  | op :: l1, l2, st => by
    have ih := runSt_append sem c l1 l2 (step sem c st op).1
    simpa [runSt, run] using ih

theorem runSt_cons (sem : Sem) (c : Codec Input Node Bytes) (st : Proc Input Node Bytes) (op : Op Input)
    (ops : List (Op Input)) : runSt sem c st (op :: ops) = runSt sem c (step sem c st op).1 ops := rfl

/-- The `n`-th outcome of a history is the outcome of its `n`-th operation in the state the
    first `n` operations lead to. -/
theorem runOut_get (sem : Sem) (c : Codec Input Node Bytes) :
    ∀ (ops : List (Op Input)) (st : Proc Input Node Bytes) (n : Nat) (op : Op Input),
      ops[n]? = some op →
      (runOut sem c st ops)[n]? = some (step sem c (runSt sem c st (ops.take n)) op).2
  | [], _, _, _, h => by simp at h
  | o :: ops, st, 0, op, h => by
    simp at h
    subst h
    simp [runOut, run, runSt]
  | o :: ops, st, n + 1, op, h => by
    simp at h
    have ih := runOut_get sem c ops (step sem c st o).1 n op h
    simpa [runOut, run, runSt] using ih

theorem newsOf_take_prefix (ops : List (Op Input)) (n : Nat) :
    ∃ t, newsOf ops = newsOf (ops.take n) ++ t := by
  refine ⟨newsOf (ops.drop n), ?_⟩
  rw [← newsOf_append, List.take_append_drop]

theorem getElem?_append_some {α : Type} (l t : List α) (i : Nat) (x : α) (h : l[i]? = some x) :
    (l ++ t)[i]? = some x := by
  have hi : i < l.length := by
    rcases Nat.lt_or_ge i l.length with hlt | hge
    · exact hlt
    · simp [List.getElem?_eq_none hge] at h
  rw [List.getElem?_append_left hi]
  exact h

/-- A write that produced a file: which writer it was, and (for the code as it is now) what it wrote. -/
theorem wrote_repaired (c : Codec Input Node Bytes) (st st' : Proc Input Node Bytes)
    (i : Nat) (kind : Kind) (file : Option String) (mode : Mode) (a : Bool) (p : String) (b : Bytes)
    (h : step repaired c st (.write i kind file mode a) = (st', .wrote p b)) :
    ∃ w, st.ws[i]? = some w ∧ p = resolveName c w kind file ∧ p ≠ "" ∧
      b = render c w.fmt w.inp kind w.prec ∧ st'.fs = setFile st.fs p b ∧ st'.gprec = st.gprec := by
  simp only [step] at h
  have hc := writeStep_cases repaired c st i kind file mode a _ h
  obtain ⟨hg, _, hrest⟩ := hc
  rcases hrest with ⟨_, h2⟩ | ⟨w, p', b', hw, hp, hne, _, ho, hfs, hb⟩
  · rcases h2 with h2 | ⟨e, h2⟩ <;> simp at h2
  · simp only [Outcome.wrote.injEq] at ho
    obtain ⟨rfl, rfl⟩ := ho
    refine ⟨w, hw, hp, hne, ?_, hfs, hg⟩
    rw [hb]
    cases hf : w.fmt <;> simp [render, repaired]

end CR.Writer
