/-
  Helper lemmas for C15 (model: CRModel/WriterSM.lean): the loops over the mutable document are related to the pure
  specification `mkNodes` / `render`; the `with`-block restores the global precision; frame facts.
-/
import CRModel.WriterSM
namespace CR.Writer

variable {Input Item Node Bytes Date Content : Type}

/-- The constructor arguments a writer object carries. -/
def Writer.args (w : Writer Input Node Date) : Format × Input × Nat := (w.fmt, w.inp, w.prec)

/-- Constructor arguments of all writer objects of a process, in order of construction. -/
def argsOf (st : St Input Node Bytes Date) : List (Format × Input × Nat) := st.ws.map Writer.args

/-- The constructor arguments appearing in a history, in order. -/
def newsOf : List (Op Input Date) → List (Format × Input × Nat)
  | [] => []
  | .new f i p :: r => (f, i, p) :: newsOf r
  | .write _ _ _ _ _ _ :: r => newsOf r
  | .setGlobal _ :: r => newsOf r

/-! ### lists -/

theorem map_set_same {α β : Type} (f : α → β) :
    ∀ (l : List α) (i : Nat) (w w' : α), l[i]? = some w → f w' = f w → (l.set i w').map f = l.map f
  | [], _, _, _, h, _ => by simp at h
  | a :: l, 0, w, w', h, hf => by
    simp at h
    subst h
    simp [hf]
  | a :: l, i + 1, w, w', h, hf => by
    simp at h
    simp [map_set_same f l i w w' h hf]

theorem get_set_self {α : Type} : ∀ (l : List α) (i : Nat) (x y : α), l[i]? = some y → (l.set i x)[i]? = some x
  | [], _, _, _, h => by simp at h
  | _ :: _, 0, _, _, _ => by simp
  | _ :: l, i + 1, x, y, h => by
    simp at h
    simpa using get_set_self l i x y h

theorem set_set_same {α : Type} : ∀ (l : List α) (i : Nat) (x y : α), (l.set i x).set i y = l.set i y
  | [], _, _, _ => by simp
  | _ :: _, 0, _, _ => by simp
  | _ :: l, i + 1, x, y => by simp [set_set_same l i x y]

theorem set_get_same {α : Type} : ∀ (l : List α) (i : Nat) (x : α), l[i]? = some x → l.set i x = l
  | [], _, _, h => by simp at h
  | a :: l, 0, x, h => by
    simp at h
    simp [h]
  | a :: l, i + 1, x, h => by
    simp at h
    simp [set_get_same l i x h]

theorem getElem?_append_some {α : Type} (l t : List α) (i : Nat) (x : α) (h : l[i]? = some x) :
    (l ++ t)[i]? = some x := by
  have hi : i < l.length := by
    rcases Nat.lt_or_ge i l.length with hlt | hge
    · exact hlt
    · simp [List.getElem?_eq_none hge] at h
  rw [List.getElem?_append_left hi]
  exact h

/-! ### replacing a writer object -/

theorem setWriter_get (st : St Input Node Bytes Date) (i : Nat) (w w' : Writer Input Node Date)
    (h : st.ws[i]? = some w) : (setWriter st i w').ws[i]? = some w' :=
  get_set_self st.ws i w' w h

theorem setWriter_setWriter (st : St Input Node Bytes Date) (i : Nat) (w1 w2 : Writer Input Node Date) :
    setWriter (setWriter st i w1) i w2 = setWriter st i w2 := by
  simp [setWriter]

theorem setWriter_self (st : St Input Node Bytes Date) (i : Nat) (w : Writer Input Node Date)
    (h : st.ws[i]? = some w) : setWriter st i w = st := by
  cases st
  simp only [setWriter] at *
  rw [set_get_same _ i w h]

@[simp] theorem setWriter_gprec (st : St Input Node Bytes Date) (i : Nat) (w : Writer Input Node Date) :
    (setWriter st i w).gprec = st.gprec := rfl

@[simp] theorem setWriter_fs (st : St Input Node Bytes Date) (i : Nat) (w : Writer Input Node Date) :
    (setWriter st i w).fs = st.fs := rfl

theorem setWriter_argsOf (st : St Input Node Bytes Date) (i : Nat) (w w' : Writer Input Node Date)
    (h : st.ws[i]? = some w) (ha : w'.args = w.args) : argsOf (setWriter st i w') = argsOf st :=
  map_set_same Writer.args st.ws i w w' h ha

/-! ### the pure specification -/

theorem mkNodes_append (mk : Item → Res Node) :
    ∀ (a b : List Item), mkNodes mk (a ++ b) =
      (match mkNodes mk a with
       | .error e => .error e
       | .ok x => match mkNodes mk b with
         | .error e => .error e
         | .ok y => .ok (x ++ y))
  | [], b => by
    simp only [List.nil_append, mkNodes]
    cases mkNodes mk b <;> simp
  | it :: a, b => by
    simp only [List.cons_append, mkNodes]
    cases mk it with
    | error e => rfl
    | ok n =>
      simp only
      rw [mkNodes_append mk a b]
      cases mkNodes mk a with
      | error e => rfl
      | ok x =>
        simp only
        cases mkNodes mk b <;> simp

/-- A protobuf creator formats no float as text: the precision is irrelevant. -/
theorem creator_pb (c : Codec Input Item Node Bytes Date Content) (p q : Nat) :
    creator c Format.pb p = creator c Format.pb q := by
  funext it
  rfl

/-! ### the loops over the mutable document -/

/-- A state that differs from `st` only in the document (date, children) of writer `i`. -/
def DocOf (st : St Input Node Bytes Date) (i : Nat) (w : Writer Input Node Date) (d : Option Date) (ns : List Node) :
    St Input Node Bytes Date := setWriter st i { w with date := d, root := ns }

/-- The append loop, run in a state where the global precision is `st.gprec` throughout, appends exactly
    `mkNodes (creator … st.gprec)` to the document — or stops at the first exception with a prefix appended. -/
theorem appendItems_spec (c : Codec Input Item Node Bytes Date Content) :
    ∀ (items : List Item) (st : St Input Node Bytes Date) (i : Nat) (w : Writer Input Node Date),
      st.ws[i]? = some w →
      (match mkNodes (creator c w.fmt st.gprec) items with
       | .ok ns => appendItems c st i items = (DocOf st i w w.date (w.root ++ ns), none)
       | .error e => ∃ ns', appendItems c st i items = (DocOf st i w w.date (w.root ++ ns'), some e))
  | [], st, i, w, hw => by
    simp only [mkNodes, appendItems, List.append_nil, DocOf]
    rw [show ({ w with date := w.date, root := w.root } : Writer Input Node Date) = w by cases w; rfl]
    rw [setWriter_self st i w hw]
  | it :: r, st, i, w, hw => by
    simp only [mkNodes, appendItems, appendItem, hw]
    cases hc : creator c w.fmt st.gprec it with
    | error e =>
      refine ⟨[], ?_⟩
      simp only [List.append_nil, DocOf]
      rw [show ({ w with date := w.date, root := w.root } : Writer Input Node Date) = w by cases w; rfl]
      rw [setWriter_self st i w hw]
    | ok n =>
      simp only
      have hw1 := setWriter_get st i w { w with root := w.root ++ [n] } hw
      have ih := appendItems_spec c r (setWriter st i { w with root := w.root ++ [n] }) i _ hw1
      simp only [setWriter_gprec] at ih
      cases hm : mkNodes (creator c w.fmt st.gprec) r with
      | error e =>
        rw [hm] at ih
        obtain ⟨ns', h⟩ := ih
        refine ⟨n :: ns', ?_⟩
        rw [h]
        simp [DocOf, setWriter_setWriter]
      | ok ns =>
        rw [hm] at ih
        simp only at ih ⊢
        rw [ih]
        simp [DocOf, setWriter_setWriter]

/-- Header + the one or two loops: the document becomes date + `mkNodes` of all objects of this call. -/
theorem buildDocument_spec (c : Codec Input Item Node Bytes Date Content) (st : St Input Node Bytes Date) (i : Nat)
    (w : Writer Input Node Date) (kind : Kind) (date : Date) (hw : st.ws[i]? = some w) :
    (match mkNodes (creator c w.fmt st.gprec) (itemsOf c w.inp kind) with
     | .ok ns => buildDocument c st i w.inp kind date = (DocOf st i w (some date) (w.root ++ ns), none)
     | .error e => ∃ ns', buildDocument c st i w.inp kind date = (DocOf st i w (some date) (w.root ++ ns'), some e)) := by
  have hh : writeHeader st i date = setWriter st i { w with date := some date } := by simp [writeHeader, hw]
  have hw1 := setWriter_get st i w { w with date := some date } hw
  have h1 := appendItems_spec c (c.scItems w.inp) (setWriter st i { w with date := some date }) i _ hw1
  simp only [setWriter_gprec] at h1
  unfold buildDocument
  simp only [hh]
  cases kind with
  | scenarioOnly =>
    simp only [itemsOf]
    cases hm : mkNodes (creator c w.fmt st.gprec) (c.scItems w.inp) with
    | error e =>
      rw [hm] at h1
      obtain ⟨ns', h⟩ := h1
      refine ⟨ns', ?_⟩
      rw [h]
      simp [DocOf, setWriter_setWriter]
    | ok ns =>
      rw [hm] at h1
      simp only at h1 ⊢
      rw [h1]
      simp [DocOf, setWriter_setWriter]
  | full =>
    simp only [itemsOf]
    rw [mkNodes_append]
    cases hm : mkNodes (creator c w.fmt st.gprec) (c.scItems w.inp) with
    | error e =>
      rw [hm] at h1
      obtain ⟨ns', h⟩ := h1
      refine ⟨ns', ?_⟩
      rw [h]
      simp [DocOf, setWriter_setWriter]
    | ok ns =>
      rw [hm] at h1
      simp only at h1 ⊢
      rw [h1]
      simp only [DocOf, setWriter_setWriter]
      have hw2 := setWriter_get st i w { w with date := some date, root := w.root ++ ns } hw
      have h2 := appendItems_spec c (c.ppItems w.inp) (setWriter st i { w with date := some date, root := w.root ++ ns }) i _ hw2
      simp only [setWriter_gprec] at h2
      cases hm2 : mkNodes (creator c w.fmt st.gprec) (c.ppItems w.inp) with
      | error e =>
        rw [hm2] at h2
        obtain ⟨ns', h⟩ := h2
        refine ⟨ns ++ ns', ?_⟩
        rw [h]
        simp [DocOf, setWriter_setWriter, List.append_assoc]
      | ok ns2 =>
        rw [hm2] at h2
        simp only at h2 ⊢
        rw [h2]
        simp [DocOf, setWriter_setWriter, List.append_assoc]

/-! ### frame: what building a document cannot touch -/

/-- Same files, same constructor arguments of all writers, same global precision. -/
def Frame (st st' : St Input Node Bytes Date) : Prop :=
  st'.fs = st.fs ∧ argsOf st' = argsOf st ∧ st'.gprec = st.gprec

theorem Frame.refl (st : St Input Node Bytes Date) : Frame st st := ⟨rfl, rfl, rfl⟩

theorem Frame.trans {a b d : St Input Node Bytes Date} (h1 : Frame a b) (h2 : Frame b d) : Frame a d :=
  ⟨h2.1.trans h1.1, h2.2.1.trans h1.2.1, h2.2.2.trans h1.2.2⟩

theorem DocOf_frame (st : St Input Node Bytes Date) (i : Nat) (w : Writer Input Node Date) (d : Option Date)
    (ns : List Node) (hw : st.ws[i]? = some w) : Frame st (DocOf st i w d ns) :=
  ⟨rfl, setWriter_argsOf st i w _ hw rfl, rfl⟩

theorem freshDocument_frame (st : St Input Node Bytes Date) (i : Nat) : Frame st (freshDocument st i) := by
  unfold freshDocument
  cases hw : st.ws[i]? with
  | none => exact Frame.refl st
  | some w => exact DocOf_frame st i w none [] hw

theorem buildDocument_frame (c : Codec Input Item Node Bytes Date Content) (st : St Input Node Bytes Date) (i : Nat)
    (w : Writer Input Node Date) (kind : Kind) (date : Date) (hw : st.ws[i]? = some w) :
    Frame st (buildDocument c st i w.inp kind date).1 := by
  have h := buildDocument_spec c st i w kind date hw
  cases hm : mkNodes (creator c w.fmt st.gprec) (itemsOf c w.inp kind) with
  | error e =>
    rw [hm] at h
    obtain ⟨ns', h⟩ := h
    rw [h]
    exact DocOf_frame st i w _ _ hw
  | ok ns =>
    rw [hm] at h
    simp only at h
    rw [h]
    exact DocOf_frame st i w _ _ hw

/-- The `with`-block: whatever the body does to the global precision — and whether or not it raises — the value from
    before the block is back afterwards (the `finally`); without the block (`legacy`) a body that keeps it, keeps it. -/
theorem withOwnPrecision_frame (sem : Sem) (st : St Input Node Bytes Date) (own : Nat)
    (body : St Input Node Bytes Date → St Input Node Bytes Date × Option Err)
    (h1 : Frame { st with gprec := own } (body { st with gprec := own }).1)
    (h2 : Frame st (body st).1) : Frame st (withOwnPrecision sem st own body).1 := by
  unfold withOwnPrecision
  split
  · exact ⟨h1.1, h1.2.1, rfl⟩
  · exact h2

/-! ### a write call -/

theorem buildFor_frame (sem : Sem) (c : Codec Input Item Node Bytes Date Content) (st : St Input Node Bytes Date)
    (i : Nat) (w : Writer Input Node Date) (kind : Kind) (date : Date) (hw : st.ws[i]? = some w) :
    Frame st (buildFor sem c st i w kind date).1 := by
  -- the state after the optional fresh document, and the writer object in it
  have key : ∀ st1 : St Input Node Bytes Date, ∀ w1 : Writer Input Node Date, Frame st st1 → st1.ws[i]? = some w1 →
      w1.inp = w.inp →
      Frame st (match w.fmt with
        | .xml => withOwnPrecision sem st1 w.prec (fun s => buildDocument c s i w.inp kind date)
        | .pb => buildDocument c st1 i w.inp kind date).1 := by
    intro st1 w1 hfr hw1 hinp
    cases w.fmt with
    | pb =>
      simp only
      rw [← hinp]
      exact hfr.trans (buildDocument_frame c st1 i w1 kind date hw1)
    | xml =>
      simp only
      refine hfr.trans (withOwnPrecision_frame sem st1 w.prec _ ?_ ?_)
      · rw [← hinp]
        exact buildDocument_frame c { st1 with gprec := w.prec } i w1 kind date hw1
      · rw [← hinp]
        exact buildDocument_frame c st1 i w1 kind date hw1
  unfold buildFor
  by_cases hcond : (w.fmt == Format.pb || sem.freshRoot) = true
  · simp only [hcond, if_true]
    have hf : freshDocument st i = setWriter st i { w with date := none, root := [] } := by simp [freshDocument, hw]
    have hw0 := setWriter_get st i w { w with date := none, root := [] } hw
    rw [← hf] at hw0
    exact key _ { w with date := none, root := [] } (freshDocument_frame st i) hw0 rfl
  · simp only [hcond]
    exact key st w (Frame.refl st) hw rfl

/-- Reset + install + header + loops + restore = the pure `mkNodes` at the writer's OWN precision, in a document that
    holds nothing else (code as it is now). -/
theorem buildFor_repaired (c : Codec Input Item Node Bytes Date Content) (st : St Input Node Bytes Date) (i : Nat)
    (w : Writer Input Node Date) (kind : Kind) (date : Date) (hw : st.ws[i]? = some w) :
    (match mkNodes (creator c w.fmt w.prec) (itemsOf c w.inp kind) with
     | .ok ns => buildFor repaired c st i w kind date = (DocOf st i w (some date) ns, none)
     | .error e => (buildFor repaired c st i w kind date).2 = some e) := by
  have hf : freshDocument st i = setWriter st i { w with date := none, root := [] } := by simp [freshDocument, hw]
  have hw0 := setWriter_get st i w { w with date := none, root := [] } hw
  unfold buildFor
  simp only [repaired, Bool.or_true, if_true]
  cases hfmt : w.fmt with
  | pb =>
    simp only
    have h := buildDocument_spec c (freshDocument st i) i _ kind date (hf ▸ hw0)
    rw [hf] at h ⊢
    simp only [setWriter_gprec, hfmt] at h ⊢
    rw [creator_pb c st.gprec w.prec] at h
    cases hm : mkNodes (creator c Format.pb w.prec) (itemsOf c w.inp kind) with
    | error e =>
      rw [hm] at h
      obtain ⟨ns', h⟩ := h
      simp only [h]
    | ok ns =>
      rw [hm] at h
      simp only at h ⊢
      rw [h]
      simp [DocOf, setWriter_setWriter, hfmt]
  | xml =>
    simp only [withOwnPrecision, if_true]
    have hw1 : ({ freshDocument st i with gprec := w.prec } : St Input Node Bytes Date).ws[i]? =
        some { w with date := none, root := [] } := by rw [hf]; exact hw0
    have h := buildDocument_spec c { freshDocument st i with gprec := w.prec } i _ kind date hw1
    simp only [hfmt] at h ⊢
    cases hm : mkNodes (creator c Format.xml w.prec) (itemsOf c w.inp kind) with
    | error e =>
      rw [hm] at h
      obtain ⟨ns', h⟩ := h
      simp only [h]
    | ok ns =>
      rw [hm] at h
      simp only at h ⊢
      rw [h, hf]
      simp [DocOf, setWriter, hfmt]

/-- Everything a write call can do, for either variant of the code: the global precision and the constructor
    arguments of all writers are as before; either no file changed (skipped / raised) or exactly the reported one. -/
theorem writeStep_shape (sem : Sem) (c : Codec Input Item Node Bytes Date Content) (st : St Input Node Bytes Date)
    (i : Nat) (kind : Kind) (file : Option String) (mode : Mode) (a : Answer) (date : Date) :
    ∀ r, writeStep sem c st i kind file mode a date = r →
    r.1.gprec = st.gprec ∧ argsOf r.1 = argsOf st ∧
    ((r.1.fs = st.fs ∧ (r.2 = .skipped ∨ ∃ e, r.2 = .failed e)) ∨
     (∃ w p b, st.ws[i]? = some w ∧ p = resolveName c w kind file ∧ p ≠ "" ∧
        ¬ ((st.fs p).isSome = true ∧ keepExisting mode a = true) ∧
        r.2 = .wrote p b ∧ r.1.fs = setFile st.fs p b)) := by
  intro r hr
  subst hr
  unfold writeStep
  split
  · simp
  · rename_i w hw
    simp only
    split
    · simp
    · rename_i h1
      split
      · simp
      · split
        · simp
        · rename_i h2
          have hfr := buildFor_frame sem c st i w kind date hw
          rcases hb : buildFor sem c st i w kind date with ⟨st2, _ | e⟩
          · rw [hb] at hfr
            simp only
            split
            · exact ⟨hfr.2.2, hfr.2.1, Or.inl ⟨hfr.1, Or.inr ⟨_, rfl⟩⟩⟩
            · rename_i h3
              have hne : resolveName c w kind file ≠ "" := by
                intro he
                simp [he] at h3
              split
              · exact ⟨hfr.2.2, hfr.2.1, Or.inl ⟨hfr.1, Or.inr ⟨_, rfl⟩⟩⟩
              · refine ⟨hfr.2.2, hfr.2.1, Or.inr ⟨w, _, _, hw, rfl, hne, ?_, rfl, ?_⟩⟩
                · intro hk
                  simp [hne, hk.1, hk.2] at h2
                · show setFile st2.fs _ _ = _
                  rw [hfr.1]
          · rw [hb] at hfr
            exact ⟨hfr.2.2, hfr.2.1, Or.inl ⟨hfr.1, Or.inr ⟨_, rfl⟩⟩⟩

/-- The decision table of a write call, in terms of the pure `render` only. -/
def expected (c : Codec Input Item Node Bytes Date Content) (st : St Input Node Bytes Date)
    (w : Writer Input Node Date) (kind : Kind) (file : Option String) (mode : Mode) (a : Answer) (date : Date) :
    Outcome Bytes :=
  let name := resolveName c w kind file
  if name = "" && !(w.fmt == .xml && kind == .scenarioOnly) then .skipped else
  if name ≠ "" && (st.fs name).isSome && askRaises mode a then .failed .other else
  if name ≠ "" && (st.fs name).isSome && keepExisting mode a then .skipped else
  match render c w.fmt w.inp kind w.prec date with
  | .error e => .failed e
  | .ok b => if name = "" || st.unwritable name then .failed .other else .wrote name b

/-- The mechanism (reset, install, header, loops reading the global at every site, restore, dump from the document)
    produces exactly the decision table over the pure `render` at the writer's own arguments. -/
theorem writeStep_repaired_outcome (c : Codec Input Item Node Bytes Date Content) (st : St Input Node Bytes Date)
    (i : Nat) (w : Writer Input Node Date) (kind : Kind) (file : Option String) (mode : Mode) (a : Answer) (date : Date)
    (hw : st.ws[i]? = some w) :
    (writeStep repaired c st i kind file mode a date).2 = expected c st w kind file mode a date := by
  unfold writeStep expected
  simp only [hw]
  split
  · rfl
  · split
    · rfl
    · split
      · rfl
      · have hb := buildFor_repaired c st i w kind date hw
        unfold render
        cases hm : mkNodes (creator c w.fmt w.prec) (itemsOf c w.inp kind) with
        | error e =>
          rw [hm] at hb
          rcases hbf : buildFor repaired c st i w kind date with ⟨st2, o⟩
          rw [hbf] at hb
          simp only at hb
          subst hb
          rfl
        | ok ns =>
          rw [hm] at hb
          simp only at hb
          rw [hb]
          simp only
          split
          · rfl
          · have hg : (DocOf st i w (some date) ns).ws[i]? = some { w with date := some date, root := ns } :=
              setWriter_get st i w _ hw
            simp only [hg]

/-! ### histories -/

theorem step_gprec_write (sem : Sem) (c : Codec Input Item Node Bytes Date Content) (st : St Input Node Bytes Date)
    (i : Nat) (kind : Kind) (file : Option String) (mode : Mode) (a : Answer) (date : Date) :
    (step sem c st (.write i kind file mode a date)).1.gprec = st.gprec :=
  (writeStep_shape sem c st i kind file mode a date _ rfl).1

theorem argsOf_step (sem : Sem) (c : Codec Input Item Node Bytes Date Content) (st : St Input Node Bytes Date)
    (op : Op Input Date) : argsOf (step sem c st op).1 = argsOf st ++ newsOf [op] := by
  cases op with
  | new f i p => simp [step, argsOf, newsOf, Writer.args]
  | write i kind file mode a date =>
    have := (writeStep_shape sem c st i kind file mode a date _ rfl).2.1
    simpa [step, newsOf] using this
  | setGlobal g => simp [step, argsOf, newsOf]

theorem newsOf_append (l1 l2 : List (Op Input Date)) : newsOf (l1 ++ l2) = newsOf l1 ++ newsOf l2 := by
  induction l1 with
  | nil => rfl
  | cons op r ih => cases op <;> simp [newsOf, ih]

theorem argsOf_run (sem : Sem) (c : Codec Input Item Node Bytes Date Content) :
    ∀ (ops : List (Op Input Date)) (st : St Input Node Bytes Date),
      argsOf (runSt sem c st ops) = argsOf st ++ newsOf ops
  | [], st => by simp [runSt, run, newsOf]
  | op :: ops, st => by
    have ih := argsOf_run sem c ops (step sem c st op).1
    have h1 := argsOf_step sem c st op
    simp only [runSt, run] at ih ⊢
    rw [ih, h1, List.append_assoc, ← newsOf_append]
    rfl

theorem runSt_cons (sem : Sem) (c : Codec Input Item Node Bytes Date Content) (st : St Input Node Bytes Date)
    (op : Op Input Date) (ops : List (Op Input Date)) :
    runSt sem c st (op :: ops) = runSt sem c (step sem c st op).1 ops := rfl

/-- The `n`-th outcome of a history is the outcome of its `n`-th operation in the state the first `n` operations
    lead to. -/
theorem runOut_get (sem : Sem) (c : Codec Input Item Node Bytes Date Content) :
    ∀ (ops : List (Op Input Date)) (st : St Input Node Bytes Date) (n : Nat) (op : Op Input Date),
      ops[n]? = some op →
      (runOut sem c st ops)[n]? = some (step sem c (runSt sem c st (ops.take n)) op).2
  | [], _, _, _, h => by simp at h
  | o :: ops, st, 0, op, h => by
    simp at h
    subst h
    simp [runOut, run, runSt]
  | o :: ops, st, n + 1, op, h => by
    simp at h
    have ih := runOut_get sem c ops (step sem c st o).1 n op h
    simpa [runOut, run, runSt] using ih

theorem newsOf_take_prefix (ops : List (Op Input Date)) (n : Nat) :
    ∃ t, newsOf ops = newsOf (ops.take n) ++ t := by
  refine ⟨newsOf (ops.drop n), ?_⟩
  rw [← newsOf_append, List.take_append_drop]

/-- The global precision a history leaves: the precision of the last constructor, else the one it started with. -/
def precAfter (g : Nat) : List (Op Input Date) → Nat
  | [] => g
  | .new _ _ p :: r => precAfter p r
  | .write _ _ _ _ _ _ :: r => precAfter g r
  | .setGlobal g' :: r => precAfter g' r

theorem gprec_run (sem : Sem) (c : Codec Input Item Node Bytes Date Content) :
    ∀ (ops : List (Op Input Date)) (st : St Input Node Bytes Date),
      (runSt sem c st ops).gprec = precAfter st.gprec ops
  | [], _ => rfl
  | .new f i p :: r, st => by
    rw [runSt_cons, gprec_run sem c r]
    rfl
  | .write i k f m a d :: r, st => by
    rw [runSt_cons, gprec_run sem c r, step_gprec_write]
    rfl
  | .setGlobal g :: r, st => by
    rw [runSt_cons, gprec_run sem c r]
    rfl

end CR.Writer
