/-
  CRProofs.CRProto — round-trip lemmas for the protobuf codec model (CRModel.CRProto): one lemma per message kind,
  `dec… (enc… a) = norm… a`, assembled bottom-up.  Core Lean only.
-/
import CRModel.CRProto

namespace CR.PBF
open PB
set_option linter.unusedSimpArgs false

/-! ### field access on literal messages -/

@[simp] theorem get_cons_eq (n : String) (v : PB) (fs : List (String × PB)) : (PB.msg ((n, v) :: fs)).get n = v := by
  simp [PB.get, List.lookup]

theorem get_cons_ne {n k : String} (v : PB) (fs : List (String × PB)) (h : (n == k) = false) :
    (PB.msg ((k, v) :: fs)).get n = (PB.msg fs).get n := by
  simp [PB.get, List.lookup, h]

@[simp] theorem get_nil (n : String) : (PB.msg []).get n = .null := rfl

@[simp] theorem isSet_null : PB.null.isSet = false := rfl
@[simp] theorem isSet_msg (fs) : (PB.msg fs).isSet = true := rfl
@[simp] theorem isSet_rep (l) : (PB.rep l).isSet = true := rfl
@[simp] theorem isSet_dbl (d) : (PB.dbl d).isSet = true := rfl
@[simp] theorem isSet_u32 (i) : (PB.u32 i).isSet = true := rfl
@[simp] theorem isSet_i32 (i) : (PB.i32 i).isSet = true := rfl
@[simp] theorem isSet_bool (b) : (PB.bool b).isSet = true := rfl
@[simp] theorem isSet_str (s) : (PB.str s).isSet = true := rfl
@[simp] theorem isSet_enum (t n) : (PB.enum t n).isSet = true := rfl

@[simp] theorem ofOpt_none : ofOpt none = .null := rfl
@[simp] theorem ofOpt_some (p : PB) : ofOpt (some p) = p := rfl

/-! ### leaves -/

@[simp] theorem decPt_encPt (p : Pt) : decPt (encPt p) = p := by
  cases p; simp [decPt, encPt, get_cons_ne, PB.dblD]

@[simp] theorem decIntEOI_enc (t : IntEOI) : decIntEOI (encIntEOI t) = t := by
  cases t <;> simp [decIntEOI, encIntEOI, PB.has, get_cons_ne, PB.int, PB.get, List.lookup]

@[simp] theorem decFloatEOI_enc (v : FloatEOI) : decFloatEOI (encFloatEOI v) = v := by
  cases v <;> simp [decFloatEOI, encFloatEOI, PB.has, get_cons_ne, PB.dblD, PB.get, List.lookup]

@[simp] theorem encIntEOI_isSet (t : IntEOI) : (encIntEOI t).isSet = true := by cases t <;> rfl
@[simp] theorem encFloatEOI_isSet (v : FloatEOI) : (encFloatEOI v).isSet = true := by cases v <;> rfl
@[simp] theorem encPt_isSet (p : Pt) : (encPt p).isSet = true := rfl

theorem map_map_id {α β : Type} (f : α → β) (g : β → α) (h : ∀ a, g (f a) = a) (l : List α) : (l.map f).map g = l := by
  induction l with
  | nil => rfl
  | cons a r ih => simp [h, ih]

theorem map_map_norm {α β γ : Type} (f : α → β) (g : β → γ) (n : α → γ) (h : ∀ a, g (f a) = n a) (l : List α) :
    (l.map f).map g = l.map n := by
  induction l with
  | nil => rfl
  | cons a r ih => simp [h, ih]

@[simp] theorem decIds_encIds (l : List Int) : decIds (encIds l) = l := by
  simp only [decIds, encIds, PB.items]; exact map_map_id _ _ (fun _ => rfl) l

@[simp] theorem decEnums_encEnums (ty : String) (l : List String) : decEnums (encEnums ty l) = l := by
  simp only [decEnums, encEnums, PB.items]; exact map_map_id _ _ (fun _ => rfl) l

/-! ### shapes (nested shape groups of any depth) -/

mutual
def Shape.depth : Shape → Nat
  | .group l => 1 + Shape.depthL l
  | _ => 1
def Shape.depthL : List Shape → Nat
  | [] => 0
  | s :: r => s.depth + Shape.depthL r
end

theorem encShapes_eq_map (l : List Shape) : encShape.encShapes l = l.map encShape := by
  induction l with
  | nil => rfl
  | cons s r ih => simp [encShape.encShapes, ih]

mutual
theorem decShapeF_enc : ∀ (s : Shape) (n : Nat), s.depth ≤ n → decShapeF n (encShape s) = s
  | .rect l w c o, n, h => by
    cases n with
    | zero => simp [Shape.depth] at h
    | succ k => simp [decShapeF, encShape, PB.has, get_cons_ne, PB.dblD]
  | .circ r c, n, h => by
    cases n with
    | zero => simp [Shape.depth] at h
    | succ k => simp [decShapeF, encShape, PB.has, get_cons_ne, PB.dblD, PB.get, List.lookup]
  | .poly v, n, h => by
    cases n with
    | zero => simp [Shape.depth] at h
    | succ k =>
      simp only [decShapeF, encShape, PB.has, PB.get, List.lookup]
      simp [PB.items, Function.comp_def]
  | .group l, n, h => by
    cases n with
    | zero => simp [Shape.depth] at h
    | succ k =>
      have hk : Shape.depthL l ≤ k := by simp [Shape.depth] at h; omega
      simp only [decShapeF, encShape, PB.has, PB.get, List.lookup]
      simp [PB.items]
      exact decShapesF_enc l k hk
theorem decShapesF_enc : ∀ (l : List Shape) (n : Nat), Shape.depthL l ≤ n → (encShape.encShapes l).map (decShapeF n) = l
  | [], _, _ => rfl
  | s :: r, n, h => by
    have h1 : s.depth ≤ n := by simp [Shape.depthL] at h; omega
    have h2 : Shape.depthL r ≤ n := by simp [Shape.depthL] at h; omega
    simp [encShape.encShapes, decShapeF_enc s n h1, decShapesF_enc r n h2]
end

mutual
theorem depth_le_size : ∀ s : Shape, s.depth ≤ (encShape s).size
  | .rect l w c o => by simp [Shape.depth, encShape, PB.size]
  | .circ r c => by simp [Shape.depth, encShape, PB.size]
  | .poly v => by simp [Shape.depth, encShape, PB.size]
  | .group l => by
    have := depthL_le_size l
    simp [Shape.depth, encShape, PB.size, PB.sizeFields]; omega
theorem depthL_le_size : ∀ l : List Shape, Shape.depthL l ≤ PB.sizeList (encShape.encShapes l)
  | [] => by simp [Shape.depthL, encShape.encShapes, PB.sizeList]
  | s :: r => by
    have h1 := depth_le_size s
    have h2 := depthL_le_size r
    simp [Shape.depthL, encShape.encShapes, PB.sizeList]; omega
end

/-- ShapeFactory ∘ ShapeMessage is the identity on every shape, shape groups nested to any depth included. -/
@[simp] theorem decShape_encShape (s : Shape) : decShape (encShape s) = s :=
  decShapeF_enc s _ (depth_le_size s)

@[simp] theorem encShape_isSet (s : Shape) : (encShape s).isSet = true := by cases s <;> rfl

/-! ### association lists ordered along a key list -/

theorem filterMap_congr' {α β : Type} {f g : α → Option β} : ∀ (l : List α), (∀ a ∈ l, f a = g a) →
    l.filterMap f = l.filterMap g
  | [], _ => rfl
  | a :: r, h => by
    have h1 := h a (List.mem_cons_self ..)
    have h2 := filterMap_congr' r (fun b hb => h b (List.mem_cons_of_mem _ hb))
    simp [List.filterMap_cons, h1, h2]

theorem subOrdered_mem {β : Type} : ∀ (all : List String) (kvs : List (String × β)), subOrdered kvs all = true →
    ∀ kv ∈ kvs, kv.1 ∈ all
  | [], [], _, kv, hkv => by simp at hkv
  | [], _ :: _, h, _, _ => by simp [subOrdered] at h
  | _ :: _, [], _, kv, hkv => by simp at hkv
  | a :: as, kv :: r, h, kv', hkv' => by
    simp only [subOrdered] at h
    by_cases hk : kv.1 == a
    · simp only [hk, if_true] at h
      rcases List.mem_cons.mp hkv' with rfl | hr
      · simp [beq_iff_eq.mp hk]
      · exact List.mem_cons_of_mem _ (subOrdered_mem as r h kv' hr)
    · simp only [hk] at h
      exact List.mem_cons_of_mem _ (subOrdered_mem as (kv :: r) h kv' hkv')

theorem lookup_none_of_not_mem {β : Type} (all : List String) (kvs : List (String × β)) (h : subOrdered kvs all = true)
    (n : String) (hn : n ∉ all) : kvs.lookup n = none := by
  rw [List.lookup_eq_none_iff]
  intro p hp
  have := subOrdered_mem all kvs h p hp
  simp only [bne_iff_ne, ne_eq]
  intro e; exact hn (e ▸ this)

/-- Reading the keys of `all` one after the other out of an association list whose keys are ordered along `all`
    gives back the association list (the reader walks the descriptor's field list; the writer walked the state). -/
theorem filterMap_lookup {β : Type} : ∀ (all : List String), all.Nodup → ∀ (kvs : List (String × β)),
    subOrdered kvs all = true → all.filterMap (fun n => (kvs.lookup n).map (fun v => (n, v))) = kvs
  | [], _, [], _ => rfl
  | [], _, _ :: _, h => by simp [subOrdered] at h
  | a :: as, _, [], _ => by simp
  | a :: as, hnd, kv :: r, h => by
    have hna : a ∉ as := (List.nodup_cons.mp hnd).1
    have hnd' : as.Nodup := (List.nodup_cons.mp hnd).2
    simp only [subOrdered] at h
    by_cases hk : kv.1 == a
    · simp only [hk, if_true] at h
      have hka : kv.1 = a := beq_iff_eq.mp hk
      have ih := filterMap_lookup as hnd' r h
      have hcongr : as.filterMap (fun n => ((kv :: r).lookup n).map (fun v => (n, v)))
          = as.filterMap (fun n => (r.lookup n).map (fun v => (n, v))) := by
        apply filterMap_congr'
        intro n hn
        have hne : (n == kv.1) = false := by
          rw [hka]; apply beq_false_of_ne; intro e; exact hna (e ▸ hn)
        cases kv with
        | mk k v =>
          have hne' : (n == k) = false := hne
          simp only [List.lookup_cons, hne']
      cases kv with
      | mk k v =>
        simp only at hka
        subst hka
        simp only [List.filterMap_cons, List.lookup_cons_self, Option.map_some]
        rw [hcongr, ih]
    · simp only [hk] at h
      have ih := filterMap_lookup as hnd' (kv :: r) h
      have hnone : (kv :: r).lookup a = none := lookup_none_of_not_mem as (kv :: r) h a hna
      simp only [List.filterMap_cons, hnone, Option.map_none]
      exact ih

theorem stateFields_nodup : stateFields.Nodup := by decide

/-! ### states -/

theorem lookup_map_encAttr (n : String) : ∀ (kvs : List (String × FloatEOI)), (∀ kv ∈ kvs, kv.1 ∈ stateFields) →
    (kvs.map encAttr).lookup n = (kvs.lookup n).map encFloatEOI
  | [], _ => rfl
  | (k, v) :: r, h => by
    have hk : stateFields.contains k = true := by
      simpa using h (k, v) (List.mem_cons_self ..)
    have ih := lookup_map_encAttr n r (fun kv hkv => h kv (List.mem_cons_of_mem _ hkv))
    simp only [List.map_cons, encAttr, hk, if_true, List.lookup_cons]
    cases n == k <;> simp [ih]

theorem lookup_encPos_none (p : Option Pos) (n : String) (h1 : n ≠ "point") (h2 : n ≠ "shape") :
    (encPos p).lookup n = none := by
  cases p with
  | none => rfl
  | some q =>
    have e1 : (n == "point") = false := beq_false_of_ne h1
    have e2 : (n == "shape") = false := beq_false_of_ne h2
    cases q <;> simp [encPos, List.lookup_cons, e1, e2]

theorem not_mem_stateFields_point : "point" ∉ stateFields := by decide
theorem not_mem_stateFields_shape : "shape" ∉ stateFields := by decide
theorem not_mem_stateFields_time : "time_step" ∉ stateFields := by decide

/-- a float field of the written `State` message holds exactly the state's attribute of that name -/
theorem get_encState_attr (s : St) (hw : s.wf = true) (n : String) (hn : n ∈ stateFields) :
    (encState s).get n = ((s.attrs.lookup n).map encFloatEOI).getD .null := by
  have hkeys := subOrdered_mem stateFields s.attrs hw
  have h1 : n ≠ "point" := fun e => not_mem_stateFields_point (e ▸ hn)
  have h2 : n ≠ "shape" := fun e => not_mem_stateFields_shape (e ▸ hn)
  have h3 : (n == "time_step") = false := beq_false_of_ne (fun e => not_mem_stateFields_time (e ▸ hn))
  simp only [encState, PB.get, List.lookup_append, lookup_encPos_none _ n h1 h2, lookup_map_encAttr n s.attrs hkeys,
    List.lookup_cons, h3, List.lookup_nil]
  cases s.attrs.lookup n <;> simp

theorem get_encState_other (s : St) (hw : s.wf = true) (n : String) (hn : n ∉ stateFields) (ht : n ≠ "time_step") :
    (encState s).get n = ((encPos s.pos).lookup n).getD .null := by
  have hkeys := subOrdered_mem stateFields s.attrs hw
  have h0 : (s.attrs.map encAttr).lookup n = none := by
    rw [lookup_map_encAttr n s.attrs hkeys, lookup_none_of_not_mem stateFields s.attrs hw n hn]; rfl
  have h3 : (n == "time_step") = false := beq_false_of_ne ht
  simp only [encState, PB.get, List.lookup_append, h0, List.lookup_cons, h3, List.lookup_nil]
  cases (encPos s.pos).lookup n <;> simp

theorem get_encState_time (s : St) (hw : s.wf = true) : (encState s).get "time_step" = encIntEOI s.t := by
  have hkeys := subOrdered_mem stateFields s.attrs hw
  have h0 : (s.attrs.map encAttr).lookup "time_step" = none := by
    rw [lookup_map_encAttr _ s.attrs hkeys, lookup_none_of_not_mem stateFields s.attrs hw _ not_mem_stateFields_time]; rfl
  simp only [encState, PB.get, List.lookup_append, lookup_encPos_none _ "time_step" (by decide) (by decide), h0]
  simp

theorem decPos_encState (s : St) (hw : s.wf = true) : decPos (encState s) = s.pos := by
  have hp := get_encState_other s hw "point" not_mem_stateFields_point (by decide)
  have hs := get_encState_other s hw "shape" not_mem_stateFields_shape (by decide)
  simp only [decPos, PB.has, hp, hs]
  cases s.pos with
  | none => simp [encPos]
  | some q => cases q <;> simp [encPos, List.lookup_cons]

theorem has_encState_attr (s : St) (hw : s.wf = true) (n : String) (hn : n ∈ stateFields) :
    (encState s).has n = (s.attrs.lookup n).isSome := by
  simp only [PB.has, get_encState_attr s hw n hn]
  cases s.attrs.lookup n <;> simp

/-- the populated float attributes come back exactly: same names, same order, same bits -/
theorem decAttrs_encState (s : St) (hw : s.wf = true) : decAttrs (encState s) = s.attrs := by
  have : decAttrs (encState s) = stateFields.filterMap (fun n => (s.attrs.lookup n).map (fun v => (n, v))) := by
    apply filterMap_congr'
    intro n hn
    simp only [has_encState_attr s hw n hn, get_encState_attr s hw n hn]
    cases s.attrs.lookup n <;> simp
  rw [this]
  exact filterMap_lookup stateFields stateFields_nodup s.attrs hw

/-- StateFactory ∘ StateMessage (any state that is not an initial state): time step, position and every populated
    attribute are unchanged; only the class is re-derived. -/
theorem decState_encState (s : St) (hw : s.wf = true) : decState (encState s) = normState s := by
  simp only [decState, normState, get_encState_time s hw, decIntEOI_enc, decPos_encState s hw, decAttrs_encState s hw]

theorem initFields_sub : ∀ n ∈ initFields, n ∈ stateFields := by decide

/-- StateFactory ∘ StateMessage for an initial state: every written attribute is read (also after an unset one), the
    unset ones become 0. -/
theorem decInitState_encState (s : St) (hw : s.wf = true) : decInitState (encState s) = normInit s := by
  simp only [decInitState, normInit, get_encState_time s hw, decIntEOI_enc, decPos_encState s hw]
  congr 1
  apply List.map_congr_left
  intro n hn
  have hs := initFields_sub n hn
  simp only [has_encState_attr s hw n hs, get_encState_attr s hw n hs]
  cases s.attrs.lookup n <;> simp

/-! ### signal states, occupancies, predictions -/

@[simp] theorem optBool_optB (o : Option Bool) : (optB o).optBool = o := by
  cases o <;> simp [optB, PB.optBool, PB.boolD]

@[simp] theorem optInt_ofOpt_u32 (o : Option Int) : (ofOpt (o.map PB.u32)).optInt = o := by
  cases o <;> simp [PB.optInt, PB.int]

@[simp] theorem optEnum_ofOpt_enum (ty : String) (o : Option String) : (ofOpt (o.map (PB.enum ty))).optEnum = o := by
  cases o <;> simp [PB.optEnum, PB.enumD]

/-- SignalStateFactory ∘ SignalStateMessage: every slot (horn included) that is set comes back, every unset slot stays
    unset; an object without any slot is read as "no signal state". -/
theorem decSig_encSig (s : Sig) : decSig (encSig s) = if s.any then some s else none := by
  cases s with
  | mk t horn il ir bl hw fb =>
    simp only [decSig, encSig, PB.has, PB.get, List.lookup, Option.getD, optBool_optB]
    cases t <;> simp [Sig.any]

theorem eq_emptySig_of_not_any (s : Sig) (h : s.any = false) : s = emptySig := by
  cases s with
  | mk t horn il ir bl hw fb =>
    cases t <;> cases horn <;> cases il <;> cases ir <;> cases bl <;> cases hw <;> cases fb <;>
      simp_all [Sig.any, emptySig]

/-- an entry of a signal series comes back as it was; an object without any slot comes back as "nothing set" (the reader
    appends the `None` that SignalStateFactory returns, which the snapshot shows as the all-unset signal state) -/
theorem decSigD_encSig (s : Sig) : decSigD (encSig s) = s := by
  by_cases h : s.any = true
  · simp [decSigD, decSig_encSig, h]
  · have h' : s.any = false := by simpa using h
    simp [decSigD, decSig_encSig, h', (eq_emptySig_of_not_any s h').symm]

@[simp] theorem items_rep (l : List PB) : (PB.rep l).items = l := rfl

@[simp] theorem map_decPt_encPt (v : List Pt) : (v.map encPt).map decPt = v := map_map_id _ _ decPt_encPt v

@[simp] theorem decOcc_encOcc (o : Occ) : decOcc (encOcc o) = o := by
  cases o; simp [decOcc, encOcc, PB.get, List.lookup]

@[simp] theorem decSetPred_enc (p : SetPred) : decSetPred (encSetPred p) = p := by
  cases p with
  | mk t0 occ =>
    simp [decSetPred, encSetPred, PB.get, List.lookup, PB.int, Function.comp_def]

@[simp] theorem encSetPred_isSet (p : SetPred) : (encSetPred p).isSet = true := rfl
@[simp] theorem encSig_isSet (s : Sig) : (encSig s).isSet = true := rfl
@[simp] theorem encState_isSet (s : St) : (encState s).isSet = true := rfl

theorem map_decState_encState (states : List St) (hs : states.all St.wf = true) :
    (states.map encState).map decState = states.map normState := by
  rw [List.map_map]
  apply List.map_congr_left
  intro s hs'
  exact decState_encState s (List.all_eq_true.mp hs s hs')

theorem decSig0_enc (o : Option Sig) (fs : List (String × PB)) (h : fs.lookup "initial_signal_state" = some (ofOpt (o.map encSig))) :
    decSig0 (.msg fs) = normSig0 o := by
  cases o with
  | none => simp [decSig0, PB.has, PB.get, h, normSig0]
  | some s => simp [decSig0, PB.has, PB.get, h, normSig0, decSig_encSig]

theorem map_decSigD_encSig (l : List Sig) : (l.map encSig).map decSigD = l :=
  map_map_id _ _ decSigD_encSig l

theorem map_decSigD_comp (l : List Sig) : l.map (decSigD ∘ encSig) = l := by
  rw [← List.map_map]; exact map_decSigD_encSig l

/-! ### obstacles and planning problems -/

theorem decStatic_enc (o : StaticObs) (hw : o.init.wf = true) :
    decStatic (encStatic o) = normStatic o := by
  cases o with
  | mk id type shape init sig0 series =>
    have h0 := decSig0_enc sig0 _ (rfl : List.lookup "initial_signal_state"
      [("static_obstacle_id", PB.u32 id), ("obstacle_type", PB.enum "ObstacleType" type), ("shape", encShape shape),
       ("initial_state", encState init), ("initial_signal_state", ofOpt (sig0.map encSig)),
       ("signal_series", PB.rep (series.map encSig))] = _)
    simp only [encStatic] at *
    simp only [decStatic, h0, normStatic]
    simp [PB.get, List.lookup, PB.int, PB.enumD, decInitState_encState _ hw, map_decSigD_comp]

theorem decPred_encDynamic (o : DynObs) (hp : (match o.pred with | some p => p.wf | none => true) = true) :
    decPred (encDynamic o) = o.pred.map normPred := by
  cases o with
  | mk id type shape init pred sig0 series =>
    cases pred with
    | none => simp [decPred, encDynamic, PB.has, PB.get, List.lookup, encTrajPred, encSetPredOf]
    | some p =>
      cases p with
      | traj t0 states sh =>
        have hm := map_decState_encState states (by simpa [Pred.wf] using hp)
        simp [decPred, encDynamic, PB.has, PB.get, List.lookup, encTrajPred, encSetPredOf, PB.int, normPred, hm]
      | set q =>
        simp [decPred, encDynamic, PB.has, PB.get, List.lookup, encTrajPred, encSetPredOf, normPred]

theorem decDynamic_enc (o : DynObs) (hw : o.init.wf = true)
    (hp : (match o.pred with | some p => p.wf | none => true) = true) :
    decDynamic (encDynamic o) = normDynamic o := by
  have hpred := decPred_encDynamic o hp
  cases o with
  | mk id type shape init pred sig0 series =>
    have h0 := decSig0_enc sig0 _ (rfl : List.lookup "initial_signal_state"
      [("dynamic_obstacle_id", PB.u32 id), ("obstacle_type", PB.enum "ObstacleType" type), ("shape", encShape shape),
       ("initial_state", encState init), ("initial_signal_state", ofOpt (sig0.map encSig)),
       ("signal_series", PB.rep (series.map encSig)), ("trajectory_prediction", encTrajPred pred),
       ("set_based_prediction", encSetPredOf pred)] = _)
    simp only [encDynamic] at *
    simp only [decDynamic, h0, hpred, normDynamic]
    simp [PB.get, List.lookup, PB.int, PB.enumD, decInitState_encState _ hw, map_decSigD_comp]

@[simp] theorem decEnvObs_enc (o : EnvObs) : decEnvObs (encEnvObs o) = o := by
  cases o; simp [decEnvObs, encEnvObs, PB.get, List.lookup, PB.int, PB.enumD]

@[simp] theorem decPhantom_enc (o : Phantom) : decPhantom (encPhantom o) = o := by
  cases o with
  | mk id pred => cases pred <;> simp [decPhantom, encPhantom, PB.has, PB.get, List.lookup, PB.int]

theorem decGoal_enc (g : Goal) (hw : g.state.wf = true) : decGoal (encGoal g) = normGoal g := by
  cases g; simp [decGoal, encGoal, PB.get, List.lookup, normGoal, decState_encState _ hw]

theorem decPP_enc (p : PP) (hw : p.init.wf = true) (hg : p.goals.all (fun g => g.state.wf) = true) :
    decPP (encPP p) = normPP p := by
  cases p with
  | mk id init goals =>
    have hm : (goals.map encGoal).map decGoal = goals.map normGoal := by
      rw [List.map_map]
      apply List.map_congr_left
      intro g hg'
      exact decGoal_enc g (List.all_eq_true.mp hg g hg')
    simp [decPP, encPP, PB.get, List.lookup, PB.int, normPP, decInitState_encState _ hw, hm]

/-! ### lanelet network -/

@[simp] theorem decPt_null : decPt .null = ⟨Dbl.zero, Dbl.zero⟩ := rfl
@[simp] theorem encTm_isSet (t : Tm) : (encTm t).isSet = true := rfl
@[simp] theorem encEnvr_isSet (e : Envr) : (encEnvr e).isSet = true := rfl
@[simp] theorem encGeo_isSet (g : Geo) : (encGeo g).isSet = true := rfl
@[simp] theorem encStop_isSet (s : Stop) : (encStop s).isSet = true := rfl

@[simp] theorem decStop_enc (s : Stop) : decStop (encStop s) = .ok s := by
  cases s; simp [decStop, encStop, PB.get, List.lookup, PB.enumD]

@[simp] theorem decDir_enc (o : Option Bool) : decDir (ofOpt (o.map encDir)) = o := by
  cases o with
  | none => rfl
  | some b => cases b <;> simp [decDir, encDir, PB.enumD]

theorem decLm_encBound (v : List Pt) (lm : Option String) : decLm (encBound v lm) = some (lm.getD "NO_MARKING") := by
  cases lm <;> simp [decLm, encBound, PB.has, PB.get, List.lookup, PB.enumD]

theorem points_encBound (v : List Pt) (lm : Option String) : ((encBound v lm).get "points").items.map decPt = v := by
  simp [encBound, PB.get, List.lookup, Function.comp_def]

/-- LaneletFactory ∘ LaneletMessage: boundary polylines bit-identical and in order, relations, optional adjacency and
    stop line present exactly when they were, enum sets by member name. -/
theorem decLanelet_enc (l : Lanelet) : decLanelet (encLanelet l) = .ok (normLanelet l) := by
  cases l with
  | mk id left right lml lmr pred succ al als ar ars stop types ow bd signs lights =>
    have hl : (encLanelet ⟨id, left, right, lml, lmr, pred, succ, al, als, ar, ars, stop, types, ow, bd, signs, lights⟩).get
        "left_bound" = encBound left lml := rfl
    have hr : (encLanelet ⟨id, left, right, lml, lmr, pred, succ, al, als, ar, ars, stop, types, ow, bd, signs, lights⟩).get
        "right_bound" = encBound right lmr := rfl
    simp only [decLanelet, hl, hr, decLm_encBound, points_encBound, normLanelet]
    cases stop <;>
      simp [encLanelet, PB.has, PB.get, List.lookup, PB.int, bind, Except.bind, Except.map, pure, Except.pure]

theorem signField_cases (c : String) :
    signField c = "germany_element_id" ∨ signField c = "zamunda_element_id" ∨ signField c = "usa_element_id" ∨
    signField c = "china_element_id" ∨ signField c = "spain_element_id" ∨ signField c = "russia_element_id" ∨
    signField c = "argentina_element_id" ∨ signField c = "belgium_element_id" ∨ signField c = "france_element_id" ∨
    signField c = "greece_element_id" ∨ signField c = "croatia_element_id" ∨ signField c = "italy_element_id" ∨
    signField c = "puerto_rico_element_id" := by
  unfold signField
  split <;> simp

theorem signFields_eq : signCountries.map signField =
    ["germany_element_id", "zamunda_element_id", "usa_element_id", "china_element_id", "spain_element_id",
     "russia_element_id", "argentina_element_id", "belgium_element_id", "france_element_id", "greece_element_id",
     "croatia_element_id", "italy_element_id", "puerto_rico_element_id"] := by decide

/-- TrafficSignElementFactory ∘ TrafficSignElementMessage: the element id travels by member name in the oneof member of
    its enum class; additional values keep their order. -/
@[simp] theorem decSignEl_enc (e : SignEl) : decSignEl (encSignEl e) = normSignEl e := by
  cases e with
  | mk country name values =>
    have hv : ∀ l : List String, (l.map PB.str).map PB.strD = l := fun l => map_map_id _ _ (fun _ => rfl) l
    simp only [decSignEl, signFieldOf, encSignEl, normSignEl, signFields_eq]
    rcases signField_cases country with h | h | h | h | h | h | h | h | h | h | h | h | h <;>
      rw [h] <;> simp [List.find?, PB.has, PB.get, List.lookup, PB.enumD, hv, signEnumOfField]

theorem decSign_enc (s : Sign) : decSign (encSign s) = normSign s := by
  cases s with
  | mk id elements first pos virtual =>
    have hm : (elements.map encSignEl).map decSignEl = elements.map normSignEl := map_map_norm _ _ _ decSignEl_enc _
    cases pos <;> cases virtual <;>
      simp [decSign, encSign, normSign, PB.has, PB.get, List.lookup, PB.int, PB.boolD, hm, optB]

@[simp] theorem decCycEl_enc (e : CycEl) : decCycEl (encCycEl e) = e := by
  cases e; simp [decCycEl, encCycEl, PB.get, List.lookup, PB.int, PB.enumD]

theorem decLight_enc (t : Light) : decLight (encLight t) = normLight t := by
  cases t with
  | mk id cycle pos offset direction active =>
    have hm : (cycle.map encCycEl).map decCycEl = cycle := map_map_id _ _ decCycEl_enc _
    cases pos <;> cases offset <;> cases direction <;> cases active <;>
      simp [decLight, encLight, normLight, PB.has, PB.get, List.lookup, PB.int, PB.boolD, PB.enumD, hm, optB]

@[simp] theorem decIncoming_enc (i : Incoming) : decIncoming (encIncoming i) = i := by
  cases i; simp [decIncoming, encIncoming, PB.get, List.lookup, PB.int]

@[simp] theorem decInter_enc (i : Inter) : decInter (encInter i) = i := by
  cases i with
  | mk id incomings crossings =>
    have hm : (incomings.map encIncoming).map decIncoming = incomings := map_map_id _ _ decIncoming_enc _
    simp [decInter, encInter, PB.get, List.lookup, PB.int, hm]

/-! ### header -/

@[simp] theorem decTm_enc (t : Tm) : decTm (encTm t) = t := by
  cases t; simp [decTm, encTm, PB.has, PB.get, List.lookup, PB.int]

@[simp] theorem decEnvr_enc (e : Envr) : decEnvr (encEnvr e) = e := by
  cases e with
  | mk time tod w u => cases time <;> simp [decEnvr, encEnvr, PB.has, PB.get, List.lookup]

@[simp] theorem decGeo_enc (g : Geo) : decGeo (encGeo g) = g := by
  cases g; simp [decGeo, encGeo, PB.get, List.lookup, PB.strD, PB.dblD]

@[simp] theorem decLoc_enc (l : Loc) : decLoc (encLoc l) = l := by
  cases l with
  | mk id lat lon geo env =>
    cases geo <;> cases env <;> simp [decLoc, encLoc, PB.has, PB.get, List.lookup, PB.int, PB.dblD]

@[simp] theorem decInfo_enc (i : Info) : decInfo (encInfo i) = i := by
  cases i; simp [decInfo, encInfo, PB.get, List.lookup, PB.strD, PB.dblD]

/-! ### which class a written state is matched to, stated on the snapshot -/

theorem lookup_isSome_eq_contains {β : Type} (a : String) : ∀ l : List (String × β),
    (l.lookup a).isSome = (l.map Prod.fst).contains a
  | [] => rfl
  | (k, v) :: r => by
    have ih := lookup_isSome_eq_contains a r
    simp only [List.lookup_cons, List.map_cons, List.contains_cons]
    cases h : a == k <;> simp [ih]

theorem filter_length_eq_filterMap {α β : Type} (p : α → Bool) (f : α → Option β) : ∀ l : List α,
    (∀ a ∈ l, p a = (f a).isSome) → (l.filter p).length = (l.filterMap f).length
  | [], _ => rfl
  | a :: r, h => by
    have h1 := h a (List.mem_cons_self ..)
    have ih := filter_length_eq_filterMap p f r (fun b hb => h b (List.mem_cons_of_mem _ hb))
    cases hf : f a with
    | none => simp [List.filter_cons, List.filterMap_cons, h1, hf, ih]
    | some b => simp [List.filter_cons, List.filterMap_cons, h1, hf, ih]

theorem has_encState_time (s : St) (hw : s.wf = true) : (encState s).has "time_step" = true := by
  simp [PB.has, get_encState_time s hw]

theorem has_encState_point_or_shape (s : St) (hw : s.wf = true) :
    ((encState s).has "point" || (encState s).has "shape") = s.pos.isSome := by
  have hp := get_encState_other s hw "point" not_mem_stateFields_point (by decide)
  have hs := get_encState_other s hw "shape" not_mem_stateFields_shape (by decide)
  simp only [PB.has, hp, hs]
  cases s.pos with
  | none => simp [encPos]
  | some q => cases q <;> simp [encPos, List.lookup_cons]

theorem usedFields_length (s : St) (hw : s.wf = true) :
    (usedFields (encState s)).length = (if s.pos.isSome then 1 else 0) + (s.attrs.map Prod.fst).length + 1 := by
  have hp := get_encState_other s hw "point" not_mem_stateFields_point (by decide)
  have hs := get_encState_other s hw "shape" not_mem_stateFields_shape (by decide)
  have hf : (stateFields.filter (encState s).has).length = s.attrs.length := by
    rw [filter_length_eq_filterMap _ (fun n => (s.attrs.lookup n).map (fun v => (n, v))) stateFields
      (fun n hn => by simp [has_encState_attr s hw n hn])]
    rw [filterMap_lookup stateFields stateFields_nodup s.attrs hw]
  simp only [usedFields, List.length_append, hf, has_encState_time s hw, if_true, List.length_cons, List.length_nil,
    List.length_map]
  simp only [PB.has, hp, hs]
  cases s.pos with
  | none => simp [encPos]
  | some q => cases q <;> simp [encPos, List.lookup_cons]

theorem fillsAttr_encState (s : St) (hw : s.wf = true) (a : String) :
    fillsAttr (encState s) a =
      (if a == "position" then s.pos.isSome else if a == "time_step" then true else (s.attrs.map Prod.fst).contains a) := by
  unfold fillsAttr
  by_cases h1 : a = "position"
  · subst h1; simp [has_encState_point_or_shape s hw]
  · have e1 : (a == "position") = false := beq_false_of_ne h1
    by_cases h2 : a = "time_step"
    · subst h2; simp [has_encState_time s hw]
    · have e2 : (a == "time_step") = false := beq_false_of_ne h2
      simp only [e1, e2, Bool.false_or]
      by_cases hm : a ∈ stateFields
      · have hc : stateFields.contains a = true := by simpa using hm
        rw [hc, has_encState_attr s hw a hm, lookup_isSome_eq_contains]; rfl
      · have hc : stateFields.contains a = false := by simpa using hm
        have hnone := lookup_none_of_not_mem stateFields s.attrs hw a hm
        have : (s.attrs.map Prod.fst).contains a = false := by
          rw [← lookup_isSome_eq_contains, hnone]; rfl
        rw [hc, this]; rfl

/-- The class the reader matches a written state to is the class its populated attributes denote (`specClassK` looks at
    the snapshot only: has a position?, which float attributes?). -/
theorem matchClass_encState (s : St) (hw : s.wf = true) :
    matchClass (encState s) = specClassK s.pos.isSome (s.attrs.map Prod.fst) := by
  unfold matchClass specClassK
  congr 1
  congr 1
  funext c
  rw [usedFields_length s hw]
  congr 1
  apply List.all_congr rfl
  intro a
  exact fillsAttr_encState s hw a

theorem normState_cls (s : St) (hw : s.wf = true) : (normState s).cls = s.specClass := by
  simp [normState, St.specClass, matchClass_encState s hw]

/-! ### initial states -/

theorem map_lookup_keys {β : Type} (d : β) : ∀ (kvs : List (String × β)), (kvs.map Prod.fst).Nodup →
    (kvs.map Prod.fst).map (fun n => (n, (kvs.lookup n).getD d)) = kvs
  | [], _ => rfl
  | (k, v) :: r, h => by
    have hk : k ∉ r.map Prod.fst := (List.nodup_cons.mp h).1
    have ih := map_lookup_keys d r (List.nodup_cons.mp h).2
    simp only [List.map_cons, List.lookup_cons_self, Option.getD_some]
    congr 1
    conv => rhs; rw [← ih]
    apply List.map_congr_left
    intro n hn
    have hne : (n == k) = false := beq_false_of_ne (fun e => hk (e ▸ hn))
    simp only [List.lookup_cons, hne]

theorem initFields_nodup : initFields.Nodup := by decide

/-- a fully populated initial state is returned exactly -/
theorem normInit_of_initFull (s : St) (h : s.initFull = true) : normInit s = s := by
  cases s with
  | mk cls t pos attrs =>
    simp only [St.initFull, Bool.and_eq_true, beq_iff_eq] at h
    obtain ⟨⟨⟨_, hc⟩, hp⟩, hk⟩ := h
    have hnd : (attrs.map Prod.fst).Nodup := hk ▸ initFields_nodup
    have := map_lookup_keys (FloatEOI.exact Dbl.zero) attrs hnd
    rw [hk] at this
    cases pos with
    | none => simp at hp
    | some q => simp [normInit, hc, this]

theorem mem_lookup_of_wf (s : St) (hw : s.wf = true) (kv : String × FloatEOI) (hkv : kv ∈ s.attrs) :
    s.attrs.lookup kv.1 = some kv.2 := by
  have h := filterMap_lookup stateFields stateFields_nodup s.attrs hw
  rw [← h] at hkv
  obtain ⟨n, _, hn⟩ := List.mem_filterMap.mp hkv
  cases hl : s.attrs.lookup n with
  | none => simp [hl] at hn
  | some v =>
    simp only [hl, Option.map_some, Option.some.injEq] at hn
    subst hn
    exact hl

theorem lookup_map_self {β : Type} (f : String → β) (n : String) : ∀ ks : List String, n ∈ ks →
    (ks.map (fun k => (k, f k))).lookup n = some (f n)
  | [], h => by simp at h
  | k :: r, h => by
    simp only [List.map_cons, List.lookup_cons]
    cases hk : n == k with
    | true => simp [beq_iff_eq.mp hk]
    | false =>
      have : n ∈ r := by
        rcases List.mem_cons.mp h with e | e
        · simp [e] at hk
        · exact e
      simpa using lookup_map_self f n r this

theorem subOrdered_congr_keys {β γ : Type} : ∀ (all : List String) (kvs : List (String × β)) (kvs' : List (String × γ)),
    kvs.map Prod.fst = kvs'.map Prod.fst → subOrdered kvs all = subOrdered kvs' all
  | [], [], [], _ => rfl
  | [], [], _ :: _, h => by simp at h
  | [], _ :: _, [], h => by simp at h
  | [], _ :: _, _ :: _, _ => rfl
  | _ :: _, [], [], _ => rfl
  | _ :: _, [], _ :: _, h => by simp at h
  | _ :: _, _ :: _, [], h => by simp at h
  | a :: as, kv :: r, kv' :: r', h => by
    simp only [List.map_cons, List.cons.injEq] at h
    have h1 := subOrdered_congr_keys as r r' h.2
    have h2 := subOrdered_congr_keys as (kv :: r) (kv' :: r') (by simp [h.1, h.2])
    simp only [subOrdered, h.1, h1, h2]

theorem normInit_initFull (s : St) : (normInit s).initFull = true := by
  have hk : ((normInit s).attrs).map Prod.fst = initFields := by
    simp [normInit, List.map_map, Function.comp_def]
  have hw : (normInit s).wf = true := by
    unfold St.wf
    rw [subOrdered_congr_keys stateFields (normInit s).attrs (initFields.map fun n => (n, ())) (by
      rw [hk]; simp [List.map_map, Function.comp_def])]
    decide
  have hc : (normInit s).cls = "InitialState" := rfl
  have hp : (normInit s).pos.isSome = true := rfl
  simp only [St.initFull, hw, hc, hp, hk, beq_self_eq_true, Bool.and_self]

theorem normState_canon (s : St) (hw : s.wf = true) : (normState s).canon = true := by
  have h1 : (normState s).wf = true := hw
  have h2 : (normState s).specClass = s.specClass := rfl
  simp [St.canon, h1, h2, normState_cls s hw]

theorem normState_of_canon (s : St) (h : s.canon = true) : normState s = s := by
  simp only [St.canon, Bool.and_eq_true, beq_iff_eq] at h
  have := normState_cls s h.1
  cases s with
  | mk cls t pos attrs =>
    simp only [normState] at this ⊢
    simp only [this]
    exact congrArg (fun c => St.mk c t pos attrs) h.2.symm

theorem signEnumOfField_mem (f : String) : signCountries.contains (signEnumOfField f) = true := by
  unfold signEnumOfField
  split <;> decide

theorem map_id_of_mem {α : Type} (f : α → α) (l : List α) (h : ∀ a ∈ l, f a = a) : l.map f = l := by
  conv => rhs; rw [← List.map_id l]
  exact List.map_congr_left h

theorem mapRes_ok {α β γ : Type} (f : α → β) (g : β → Res γ) (n : α → γ) (h : ∀ a, g (f a) = .ok (n a)) :
    ∀ l : List α, mapRes g (l.map f) = .ok (l.map n)
  | [] => rfl
  | a :: r => by
    simp [mapRes, h, mapRes_ok f g n h r, bind, Except.bind, pure, Except.pure]

end CR.PBF
