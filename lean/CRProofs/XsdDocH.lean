/-
  CRProofs.XsdDocH — C03 whole-document validity: helpers shared by parts B (obstacles), C (lanelet network) and D (planning
  problems, location, tags), which are independent of each other: one-family sequence types, types with an `id` attribute,
  occurrence ranges and child families.
-/
import CRProofs.XsdDocA

namespace CR.C03
open CR.Xsd CR.XmlNum CR.XmlW

/-- a one-family sequence type: `n ≥ min` children `name` of type `type` -/
theorem one_family {T : String} (hT : PlainType T) (hg : isPlainSeq (schema.content T) = true) (e : ElemP)
    (he : elemsOf (schema.content T) = [e]) (hmax : e.max = none) (tag : String) (kids : List Xml) (hmin : e.min ≤ kids.length)
    (hne : kids ≠ []) (hk : ∀ x ∈ kids, x.name = e.name ∧ validNode schema e.type x = true) :
    validNode schema T (el tag kids) = true := by
  have hf : FamsOk schema (elemsOf (schema.content T)) [kids] := by
    rw [he]; exact ⟨hk, ⟨hmin, fun m hm => by rw [hmax] at hm; cases hm⟩, trivial⟩
  have := seq_assembly hT hg tag [] (by rfl) [kids] hf (by simpa using hne)
  simpa [el] using this

theorem map_ne_nil {α β} {l : List α} (f : α → β) (h : l ≠ []) : l.map f ≠ [] := by
  cases l with
  | nil => exact absurd rfl h
  | cons _ _ => simp

/-! ### types with an `id` attribute -/

def idDecl : List AttrP := [{ name := "id", type := "xs:positiveInteger", required := true }]

/-- complex type with the `id` attribute and element-only content -/
def IdType (T : String) : Prop := schema.lookup T = some (.complex idDecl false (schema.content T))

theorem id_valid {T : String} (hT : IdType T) {n : String} {i : Int} (hi : 1 ≤ i) {kids : List Xml} {ts : List String}
    (hm : matchGroup (schema.content T) (kids.map Xml.name) = some ts) :
    validNode schema T (.node n (idAttr i) [] kids) = validKids schema ts kids :=
  validNode_complex hT (attrs_id hi) hm

/-! ### occurrence ranges -/

theorem ir_any (n t : String) (k : Nat) : inRange { name := n, type := t, min := 0, max := none } k :=
  ⟨Nat.zero_le _, fun m hm => by cases hm⟩

theorem ir_ge (n t : String) (mn : Nat) {k : Nat} (h : mn ≤ k) : inRange { name := n, type := t, min := mn, max := none } k :=
  ⟨h, fun m hm => by cases hm⟩

theorem ir_one (n t : String) : inRange { name := n, type := t, min := 1, max := some 1 } 1 :=
  ⟨Nat.le_refl _, fun m hm => by cases hm; exact Nat.le_refl _⟩

theorem ir_opt (n t : String) (mx : Nat) {k : Nat} (h : k ≤ mx) : inRange { name := n, type := t, min := 0, max := some mx } k :=
  ⟨Nat.zero_le _, fun m hm => by cases hm; exact h⟩

theorem fam_map {α} {S : Schema} {nm ty : String} {l : List α} {f : α → Xml}
    (h : ∀ y ∈ l, (f y).name = nm ∧ validNode S ty (f y) = true) : ∀ x ∈ l.map f, x.name = nm ∧ validNode S ty x = true := by
  intro x hx; obtain ⟨y, hy, rfl⟩ := List.mem_map.mp hx; exact h y hy

theorem fam_one {S : Schema} {nm ty : String} {x : Xml} (h1 : x.name = nm) (h2 : validNode S ty x = true) :
    ∀ y ∈ [x], y.name = nm ∧ validNode S ty y = true := by
  intro y hy; simp at hy; subst hy; exact ⟨h1, h2⟩

theorem fam_nil {S : Schema} {nm ty : String} : ∀ y ∈ ([] : List Xml), y.name = nm ∧ validNode S ty y = true := by
  intro y hy; cases hy

/-- enumeration-valued leaves -/
theorem fam_enum (n T : String) {vs : List String} (h : ∀ v ∈ vs, acceptsV T v = true) :
    ∀ x ∈ vs.map (fun v => leaf n v.toList), x.name = n ∧ validNode schema T x = true :=
  fam_map (fun v hv => ⟨rfl, leaf_enum n T v (h v hv)⟩)

theorem fam_optLeaf (n T : String) {o : Option String} (h : ∀ v, o = some v → acceptsV T v = true) :
    ∀ x ∈ optLeaf n o, x.name = n ∧ validNode schema T x = true := by
  cases o with
  | none => exact fam_nil
  | some v => exact fam_one rfl (leaf_enum n T v (h v rfl))

theorem len_optLeaf (n : String) (o : Option String) : (optLeaf n o).length ≤ 1 := by cases o <;> simp [optLeaf]
theorem len_optB (n : String) (o : Option Bool) : (optB n o).length ≤ 1 := by cases o <;> simp [optB]

theorem fam_optB (n : String) (o : Option Bool) : ∀ x ∈ optB n o, x.name = n ∧ validNode schema "xs:boolean" x = true := by
  cases o with
  | none => exact fam_nil
  | some b => exact fam_one rfl (leaf_bool n b)

end CR.C03
