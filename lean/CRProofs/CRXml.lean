/-
  CRProofs.CRXml — the assembled 2020a codecs are lawful: each lemma applies the combinator laws of CRProofs.Codec along the
  structure of the codec term (tag disjointness is decided on the concrete tag lists).
-/
import CRModel.CRXml
import CRProofs.Codec

namespace CR.X

def disjointB (ts us : List String) : Bool := ts.all (fun t => !us.contains t)

theorem Disjoint_of_check {ts us : List String} (h : disjointB ts us = true) : Disjoint ts us := by
  intro t ht
  simp only [disjointB, List.all_eq_true] at h
  have ht' : t ∈ ts := by simpa using ht
  have := h t ht'
  simpa using this

theorem Codec.pair_lawful' {α β : Type} {c1 : Codec α} {c2 : Codec β} (h1 : c1.Lawful) (h2 : c2.Lawful)
    (hd : disjointB c1.tags c2.tags = true) : (Codec.pair c1 c2).Lawful :=
  Codec.pair_lawful h1 h2 (Disjoint_of_check hd)

/-- structural proof search over codec terms -/
macro "lawful_step" : tactic => `(tactic| first
  | assumption
  | exact Prim.int_lawful | exact Prim.str_lawful | exact Prim.decRepr_lawful | exact Prim.dec_lawful _ | exact Prim.decPlain_lawful _
  | exact Prim.boolStrict_lawful | exact Prim.boolDefault_lawful _ | exact Prim.drivingDir_lawful
  | exact Prim.enum_lawful _ | exact Prim.enumDefault_lawful _ _
  | apply ECodec.ofText_lawful | apply ECodec.attr1_lawful | apply ECodec.ofKids_lawful | apply ECodec.attrKids_lawful
  | apply Codec.child_lawful | apply Codec.optChild_lawful | apply Codec.optional_lawful | apply Codec.many_lawful
  | apply Codec.iso_lawful | exact Codec.unit_lawful
  | refine Codec.pair_lawful' ?_ ?_ (by rfl))

macro "lawful" : tactic => `(tactic| repeat' lawful_step)


theorem ptKidsC_lawful (P : Params) : (ptKidsC P).Lawful := by unfold ptKidsC; lawful
theorem ptE_lawful (P : Params) : (ptE P).Lawful := by have h := ptKidsC_lawful P; unfold ptE; lawful
theorem pt3E_lawful (P : Params) : (pt3E P).Lawful := by have h := ptKidsC_lawful P; unfold pt3E; lawful
theorem refE_lawful : refE.Lawful := by unfold refE; lawful

theorem centerC_lawful (P : Params) (dyn : Bool) : (centerC P dyn).Lawful := by
  unfold centerC; apply Codec.optChild_lawful; exact ptE_lawful P

theorem orientC_lawful (P : Params) (dyn : Bool) : (orientC P dyn).Lawful := by unfold orientC; lawful

theorem rectE_lawful (P : Params) (dyn : Bool) : (rectE P dyn).Lawful := by
  have h1 := centerC_lawful P dyn
  have h2 := orientC_lawful P dyn
  unfold rectE; lawful

theorem circE_lawful (P : Params) (dyn : Bool) : (circE P dyn).Lawful := by
  have h1 := centerC_lawful P dyn
  unfold circE; lawful

theorem polyE_lawful (P : Params) : (polyE P).Lawful := by
  have h := ptE_lawful P
  unfold polyE; lawful

/-! ## shapes -/

theorem decShape1_encShape1 (P : Params) (dyn : Bool) (s : Shape1) (h : okShape1 P dyn s) :
    decShape1 P dyn (encShape1 P dyn s) = some (normShape1 P dyn s) := by
  cases s with
  | rect l w o c =>
    have := (rectE_lawful P dyn).rt "rectangle" (l, w, o, c) h
    have ht : ((rectE P dyn).el "rectangle" (l, w, o, c)).tag = "rectangle" := rfl
    simp only [decShape1, encShape1, ht, this, normShape1]
    rfl
  | circ r c =>
    have := (circE_lawful P dyn).rt "circle" (r, c) h
    have ht : ((circE P dyn).el "circle" (r, c)).tag = "circle" := rfl
    simp only [decShape1, encShape1, ht, this, normShape1]
    rfl
  | poly vs =>
    have := (polyE_lawful P).rt "polygon" vs h
    have ht : ((polyE P).el "polygon" vs).tag = "polygon" := rfl
    simp only [decShape1, encShape1, ht, this, normShape1]
    rfl

theorem encShape1_tag (P : Params) (dyn : Bool) (s : Shape1) : shapeTags.contains (encShape1 P dyn s).tag = true := by
  cases s <;> rfl

theorem shapeC_lawful (P : Params) (dyn : Bool) : (shapeC P dyn).Lawful := by
  unfold shapeC
  apply Codec.pmap_lawful (Codec.manyOf_lawful _ _ _ _ _ (encShape1_tag P dyn) (decShape1_encShape1 P dyn))
  intro s _ hok
  cases s with
  | one s => rfl
  | group l =>
    match l, hok with
    | [], hok => exact absurd rfl hok
    | [s], _ => rfl
    | s1 :: s2 :: r, _ => rfl

/-! ## values -/

theorem valC_lawful (P : Params) : (valC P).Lawful := by
  unfold valC
  apply Codec.iso_lawful
  apply Codec.orElse_lawful
  · lawful
  · lawful
  · rfl
  · rfl
  · intro a
    exact ⟨_, List.mem_cons_self, rfl⟩

theorem timeC_lawful : timeC.Lawful := by
  unfold timeC
  apply Codec.iso_lawful
  apply Codec.orElse_lawful
  · lawful
  · lawful
  · rfl
  · rfl
  · intro a
    exact ⟨_, List.mem_cons_self, rfl⟩

/-! ## occupancies and signals -/

theorem occE_lawful (P : Params) : (occE P).Lawful := by
  have h1 := shapeC_lawful P false
  have h2 := timeC_lawful
  unfold occE; lawful

theorem occSetE_lawful (P : Params) : (occSetE P).Lawful := by
  have h := occE_lawful P
  unfold occSetE
  apply ECodec.pmap_lawful (by lawful)
  intro l _ hne
  cases l with
  | nil => exact absurd rfl hne
  | cons a as => rfl

theorem signalE_lawful : signalE.Lawful := by unfold signalE sigB; lawful

/-! ## everything that contains states is lawful relative to the three state element codecs -/

structure StateLaws (cfg : Cfg) : Prop where
  state : (stateE cfg).Lawful
  goal : (goalStateE cfg).Lawful
  initial : (initialStateE cfg).Lawful

theorem trajE_lawful {cfg : Cfg} (hS : StateLaws cfg) : (trajE cfg).Lawful := by
  have h := hS.state
  unfold trajE
  apply ECodec.pmap_lawful (by lawful)
  intro l _ hne
  cases l with
  | nil => exact absurd rfl hne
  | cons a as => rfl

theorem predC_lawful {cfg : Cfg} (hS : StateLaws cfg) : (predC cfg).Lawful := by
  have h1 := trajE_lawful hS
  have h2 := occSetE_lawful cfg.P
  unfold predC; lawful

theorem typeC_lawful : typeC.Lawful := by unfold typeC; lawful

theorem staticObsE_lawful {cfg : Cfg} (hS : StateLaws cfg) : (staticObsE cfg).Lawful := by
  have h1 := shapeC_lawful cfg.P false
  have h2 := hS.initial
  have h3 := typeC_lawful
  unfold staticObsE
  apply ECodec.pmap_lawful (by lawful)
  intro o _ _
  rfl

theorem seriesC_lawful : seriesC.Lawful := by
  have h := signalE_lawful
  unfold seriesC; lawful

theorem dynObsE_lawful {cfg : Cfg} (hS : StateLaws cfg) : (dynObsE cfg).Lawful := by
  have h1 := shapeC_lawful cfg.P true
  have h2 := hS.initial
  have h3 := typeC_lawful
  have h4 := signalE_lawful
  have h5 := predC_lawful hS
  have h6 := seriesC_lawful
  unfold dynObsE
  apply ECodec.pmap_lawful (by lawful)
  intro o _ _
  rfl

theorem envObsE_lawful (cfg : Cfg) : (envObsE cfg).Lawful := by
  have h1 := shapeC_lawful cfg.P false
  have h3 := typeC_lawful
  unfold envObsE
  apply ECodec.pmap_lawful (by lawful)
  intro o _ _
  rfl

theorem phantomObsE_lawful (cfg : Cfg) : (phantomObsE cfg).Lawful := by
  have h1 := occSetE_lawful cfg.P
  unfold phantomObsE
  apply ECodec.pmap_lawful (by lawful)
  intro o _ _
  rfl

/-! ## lanelets -/

theorem boundE_lawful (P : Params) : (boundE P).Lawful := by
  have h := pt3E_lawful P
  unfold boundE; lawful

theorem adjE_lawful : adjE.Lawful := by
  unfold adjE
  apply ECodec.pmap_lawful (ECodec.attr2_lawful _ _ (by decide) Prim.int_lawful Prim.drivingDir_lawful)
  intro a _ _
  rfl

theorem adjC_lawful (t : String) : (adjC t).Lawful := by
  have h := adjE_lawful
  unfold adjC; lawful

theorem refsC_lawful (t : String) : (refsC t).Lawful := by
  have h := refE_lawful
  unfold refsC; lawful

theorem map_refE_norm (l : List Int) : List.map refE.norm l = l := by
  have : refE.norm = id := rfl
  rw [this]; simp

theorem stopLineE_lawful (P : Params) : (stopLineE P).Lawful := by
  have h := ptE_lawful P
  have h2 := refsC_lawful "trafficSignRef"
  have h3 := refsC_lawful "trafficLightRef"
  unfold stopLineE
  apply ECodec.pmap_lawful (by lawful)
  intro s _ _
  cases hp : s.pts with
  | none => simp [ECodec.ofKids, Codec.pair, Codec.many, Codec.child, ECodec.ofText, Prim.enum, refsC, hp, map_refE_norm]
  | some pq =>
    obtain ⟨a, b⟩ := pq
    simp [ECodec.ofKids, Codec.pair, Codec.many, Codec.child, ECodec.ofText, Prim.enum, refsC, hp, map_refE_norm]

theorem typesC_lawful : typesC.Lawful := by unfold typesC; lawful
theorem usersC_lawful (t : String) : (usersC t).Lawful := by unfold usersC; lawful

theorem laneletKidsC_lawful (P : Params) : (laneletKidsC P).Lawful := by
  have h1 := boundE_lawful P
  have h2 := refsC_lawful "predecessor"
  have h3 := refsC_lawful "successor"
  have h4 := adjC_lawful "adjacentLeft"
  have h5 := adjC_lawful "adjacentRight"
  have h6 := stopLineE_lawful P
  have h7 := typesC_lawful
  have h8 := usersC_lawful "userOneWay"
  have h9 := usersC_lawful "userBidirectional"
  have h10 := refsC_lawful "trafficSignRef"
  have h11 := refsC_lawful "trafficLightRef"
  unfold laneletKidsC; lawful

theorem getLast?_isSome_of_ne_nil {α : Type} {l : List α} (h : l ≠ []) : (l.getLast?).isSome = true := by
  cases l with
  | nil => exact absurd rfl h
  | cons a as => simp [List.getLast?_cons_cons, List.getLast?]

theorem laneletOfTuple_isSome (P : Params) (l : Lanelet)
    (hok : ∀ sl, l.stop = some sl → sl.pts = none → l.left.pts ≠ [] ∧ l.right.pts ≠ []) :
    (laneletOfTuple ((ECodec.attrKids "id" Prim.int (laneletKidsC P)).norm (laneletToTuple l))).isSome = true := by
  obtain ⟨id, left, right, pred, succ, adjL, adjR, stop, types, oneWay, bidir, signs, lights⟩ := l
  simp only [laneletToTuple] at *
  show (laneletOfTuple (id, (boundE P).norm left, (boundE P).norm right, _, _, _, _, stop.map (stopLineE P).norm, _, _, _, _, _)).isSome = true
  simp only [laneletOfTuple]
  cases stop with
  | none => simp [completeStop]
  | some sl =>
    cases hp : sl.pts with
    | some pq =>
      have : ((stopLineE P).norm sl).pts = some ((ptE P).norm pq.1, (ptE P).norm pq.2) := by
        show sl.pts.map _ = _
        rw [hp]; rfl
      simp [completeStop, this]
    | none =>
      have hn : ((stopLineE P).norm sl).pts = none := by
        show sl.pts.map _ = _
        rw [hp]; rfl
      obtain ⟨hl, hr⟩ := hok sl rfl hp
      have hl' : (((boundE P).norm left).pts).getLast?.isSome = true := by
        apply getLast?_isSome_of_ne_nil
        show left.pts.map _ ≠ []
        simpa using hl
      have hr' : (((boundE P).norm right).pts).getLast?.isSome = true := by
        apply getLast?_isSome_of_ne_nil
        show right.pts.map _ ≠ []
        simpa using hr
      simp only [Option.map, completeStop, hn, lastPt]
      cases h1 : ((boundE P).norm left).pts.getLast? with
      | none => rw [h1] at hl'; cases hl'
      | some a =>
        cases h2 : ((boundE P).norm right).pts.getLast? with
        | none => rw [h2] at hr'; cases hr'
        | some b => rfl

theorem laneletE_lawful (P : Params) : (laneletE P).Lawful := by
  have hk := laneletKidsC_lawful P
  unfold laneletE
  apply ECodec.pmap_lawful (ECodec.attrKids_lawful "id" Prim.int_lawful hk)
  intro l _ hok
  have := laneletOfTuple_isSome P l hok
  cases h : laneletOfTuple ((ECodec.attrKids "id" Prim.int (laneletKidsC P)).norm (laneletToTuple l)) with
  | none => rw [h] at this; cases this
  | some v => rfl

/-! ## traffic signs, traffic lights, intersections -/

theorem Prim.signId_lawful (vals : List String) (m : Option String) : (Prim.signId vals m).Lawful := ⟨fun a h => by
  simp only [Prim.signId, id]
  cases hb : (a == "274")
  · cases hc : vals.contains a <;> simp [hc]
  · have ha : a = "274" := by simpa using hb
    have hm : m.isSome = true := h ha
    cases m with
    | none => cases hm
    | some v => simp⟩

theorem signElementE_lawful (cfg : Cfg) : (signElementE cfg).Lawful := by
  have h := Prim.signId_lawful cfg.signVals cfg.maxSpeed
  unfold signElementE; lawful

theorem virtualC_lawful : virtualC.Lawful where
  enc_tags := by
    intro a x hx
    simp only [virtualC, List.mem_singleton] at hx
    subst hx
    rfl
  dec_local := by intro l; rfl
  rt := by intro a _; rfl

theorem positionC_lawful (P : Params) : (positionC P).Lawful := by
  have h := ptE_lawful P
  unfold positionC; lawful

theorem signE_lawful (cfg : Cfg) : (signE cfg).Lawful := by
  have h1 := signElementE_lawful cfg
  have h2 := positionC_lawful cfg.P
  have h3 := virtualC_lawful
  unfold signE
  apply ECodec.pmap_lawful (by lawful)
  intro o _ _
  rfl

theorem cycleE_lawful : cycleE.Lawful := by unfold cycleE; lawful

theorem lightE_lawful (P : Params) : (lightE P).Lawful := by
  have h1 := cycleE_lawful
  have h2 := positionC_lawful P
  unfold lightE
  apply ECodec.pmap_lawful (by lawful)
  intro l _ hok
  cases hc : l.cycle with
  | none => rw [hc] at hok; cases hok
  | some c =>
    simp [ECodec.attrKids, Codec.pair, Codec.optional, Codec.optChild, Prim.int, positionC, ECodec.ofText, ECodec.ofKids,
      Codec.child, Prim.boolDefault]
    intro h
    rw [h]
    rfl

theorem leftOfC_lawful : leftOfC.Lawful := by
  have h := refsC_lawful "isLeftOf"
  unfold leftOfC; lawful

theorem incomingE_lawful : incomingE.Lawful := by
  have h1 := refsC_lawful "incomingLanelet"
  have h2 := refsC_lawful "successorsRight"
  have h3 := refsC_lawful "successorsStraight"
  have h4 := refsC_lawful "successorsLeft"
  have h5 := leftOfC_lawful
  unfold incomingE
  apply ECodec.pmap_lawful (by lawful)
  intro i _ _
  simp [ECodec.attrKids, Codec.pair, refsC, Codec.many, map_refE_norm, Prim.int]

theorem intersectionE_lawful : intersectionE.Lawful := by
  have h1 := incomingE_lawful
  have h2 := refsC_lawful "crossingLanelet"
  unfold intersectionE
  apply ECodec.pmap_lawful (by lawful)
  intro i _ _
  simp [ECodec.attrKids, Codec.pair, Codec.optChild, ECodec.ofKids, refsC, Codec.many, map_refE_norm, Prim.int]

/-! ## planning problems and the document body -/

theorem planningProblemE_lawful {cfg : Cfg} (hS : StateLaws cfg) : (planningProblemE cfg).Lawful := by
  have h1 := hS.initial
  have h2 := hS.goal
  unfold planningProblemE
  apply ECodec.pmap_lawful (by lawful)
  intro o _ _
  rfl

theorem docC_lawful {cfg : Cfg} (hS : StateLaws cfg) : (docC cfg).Lawful := by
  have h1 := laneletE_lawful cfg.P
  have h2 := signE_lawful cfg
  have h3 := lightE_lawful cfg.P
  have h4 := intersectionE_lawful
  have h5 := staticObsE_lawful hS
  have h6 := dynObsE_lawful hS
  have h7 := phantomObsE_lawful cfg
  have h8 := envObsE_lawful cfg
  have h9 := planningProblemE_lawful hS
  unfold docC; lawful

end CR.X
