/-
  CRProofs.XsdDocD — C03 whole-document validity, part D: planning problems, location / environment / tags (the root element:
  CRProofs.XsdDocR).
-/
import CRProofs.XsdDocH
import CRProofs.XsdEnumT

namespace CR.C03
open CR.Xsd CR.XmlNum CR.XmlW

/-! ### planning problems -/

theorem it_problem : IdType "planningProblem" := by unfold IdType; decide

theorem valid_problem (p : Nat) {q : ProblemD} (h : ProblemOk q) : validNode schema "planningProblem" (problemNode p q) = true := by
  obtain ⟨hid, hinit, hne, hg⟩ := h
  have he : elemsOf (schema.content "planningProblem") =
      [{ name := "initialState", type := "initialStateExact", min := 1, max := some 1 },
       { name := "goalState", type := "goalState", min := 1, max := none }] := by decide
  have hf : FamsOk schema (elemsOf (schema.content "planningProblem"))
      [[stateNode p "initialState" q.init], q.goals.map (stateNode p "goalState")] := by
    rw [he]
    refine ⟨fam_one rfl (valid_planningInitialState p _ hinit), ir_one _ _,
            fam_map (fun g hg' => ⟨rfl, valid_goalState p _ (hg g hg')⟩), ir_ge _ _ 1 ?_, trivial⟩
    cases hq : q.goals with
    | nil => exact absurd hq hne
    | cons _ _ => simp
  have := seq_assembly it_problem (by decide) "planningProblem" (idAttr q.id) (attrs_id hid) _ hf (by simp)
  simpa [problemNode] using this

/-! ### location, environment, tags -/

theorem pt_addTr : PlainType "additionalTransformation" := by unfold PlainType; decide
theorem pt_geoTr : PlainType "geoTransformation" := by unfold PlainType; decide
theorem lk_geoRef : schema.lookup "geoReference" = some (.complex [] true .empty) := by decide

/-- `<geoReference>` has mixed content: any text -/
theorem valid_geoReference (t : Str) : validNode schema "geoReference" (leaf "geoReference" t) = true := by
  simp [leaf, validNode, shallow, lk_geoRef, attrsOk, Xml.attrs, Xml.text, Xml.kidNames, Xml.kids, matchGroup, validKids]

theorem valid_geo {g : GeoD} (h : GeoOk g) : validNode schema "geoTransformation" (geoNode g) = true := by
  have hm1 : matchGroup (schema.content "additionalTransformation") ["xTranslation", "yTranslation", "zRotation", "scaling"] =
      some ["xs:decimal", "xs:decimal", "xs:decimal", "positiveDecimal"] := by decide
  have hm2 : matchGroup (schema.content "geoTransformation") ["geoReference", "additionalTransformation"] =
      some ["geoReference", "additionalTransformation"] := by decide
  have hadd : validNode schema "additionalTransformation" (el "additionalTransformation"
      [leaf "xTranslation" g.x.dec, leaf "yTranslation" g.y.dec, leaf "zRotation" g.rot.dec, leaf "scaling" g.scale.dec]) = true := by
    rw [el_valid pt_addTr (ts := ["xs:decimal", "xs:decimal", "xs:decimal", "positiveDecimal"]) (by simpa [leaf, Xml.name] using hm1)]
    simp only [validKids, leaf_dec _ h.1, leaf_dec _ h.2.1, leaf_dec _ h.2.2.1, leaf_posdec_num _ h.2.2.2, Bool.and_self]
  rw [geoNode, el_valid pt_geoTr (ts := ["geoReference", "additionalTransformation"]) (by simpa [leaf, el, Xml.name] using hm2)]
  simp only [validKids, valid_geoReference, hadd, Bool.and_self]

set_option maxRecDepth 100000 in
theorem timeText_ok : ∀ h, h < 24 → ∀ m, m < 60 → isTime (timeText h m) = true := by decide

theorem pt_env : PlainType "environment" := by unfold PlainType; decide

theorem valid_env {e : EnvD} (h : EnvOk e) : validNode schema "environment" (envNode e) = true := by
  have hm : matchGroup (schema.content "environment") ["time", "timeOfDay", "weather", "underground"] =
      some ["xs:time", "timeOfDay", "weather", "underground"] := by decide
  have ht : validNode schema "xs:time" (leaf "time" (timeText e.hours e.minutes)) = true :=
    validNode_simple stime "time" (by simp [Simple.accepts, timeText_ok _ h.1 _ h.2.1])
  rw [envNode, el_valid pt_env (ts := ["xs:time", "timeOfDay", "weather", "underground"]) (by simpa [leaf, Xml.name] using hm)]
  simp only [validKids, ht, leaf_enum _ _ _ (ok_timeOfDay h.2.2.1), leaf_enum _ _ _ (ok_weather h.2.2.2.1),
    leaf_enum _ _ _ (ok_underground h.2.2.2.2.1 h.2.2.2.2.2), Bool.and_self]

theorem pt_location : PlainType "location" := by unfold PlainType; decide

theorem valid_location {l : LocationD} (h : LocationOk l) : validNode schema "location" (locationNode l) = true := by
  obtain ⟨hlat, hlon, hgeo, henv⟩ := h
  have he : elemsOf (schema.content "location") =
      [{ name := "geoNameId", type := "xs:integer", min := 1, max := some 1 },
       { name := "gpsLatitude", type := "xs:decimal", min := 1, max := some 1 },
       { name := "gpsLongitude", type := "xs:decimal", min := 1, max := some 1 },
       { name := "geoTransformation", type := "geoTransformation", min := 0, max := some 1 },
       { name := "environment", type := "environment", min := 0, max := some 1 }] := by decide
  have hf : FamsOk schema (elemsOf (schema.content "location"))
      [[leaf "geoNameId" (intStr l.geoNameId)], [leaf "gpsLatitude" l.lat.dec], [leaf "gpsLongitude" l.lon.dec],
       optGeoNodes l.geo, optEnvNodes l.env] := by
    rw [he]
    refine ⟨fam_one rfl (leaf_integer _ _), ir_one _ _, fam_one rfl (leaf_dec _ hlat), ir_one _ _,
            fam_one rfl (leaf_dec _ hlon), ir_one _ _, ?_, ?_, ?_, ?_, trivial⟩
    · cases hg : l.geo with
      | none => exact fam_nil
      | some g => exact fam_one rfl (valid_geo (hgeo g hg))
    · cases l.geo <;> exact ir_opt _ _ 1 (by simp [optGeoNodes])
    · cases hg : l.env with
      | none => exact fam_nil
      | some e => exact fam_one rfl (valid_env (henv e hg))
    · cases l.env <;> exact ir_opt _ _ 1 (by simp [optEnvNodes])
  have := seq_assembly pt_location (by decide) "location" [] (by rfl) _ hf (by simp)
  simpa [locationNode, el, List.append_assoc] using this

theorem tag_values_nodup' : ∀ {tags : List String}, TagsOk tags → (tags.map (enumValue CR.Py.Gen.tag)).Nodup
  | [], _ => by simp
  | t :: ts, h => by
    have hn := h.1
    rw [List.nodup_cons] at hn
    rw [List.map_cons, List.nodup_cons]
    refine ⟨?_, tag_values_nodup' ⟨hn.2, fun x hx => h.2 x (List.mem_cons_of_mem _ hx)⟩⟩
    intro hm
    obtain ⟨u, hu, hv⟩ := List.mem_map.mp hm
    have := tag_value_inj (h.2 u (List.mem_cons_of_mem _ hu)) (h.2 t List.mem_cons_self) hv
    subst this; exact hn.1 hu

theorem valid_tags {tags : List String} (h : TagsOk tags) : validNode schema "tag" (tagsNode tags) = true := by
  have hnames : ((tags.map (enumValue CR.Py.Gen.tag)).map fun t => leaf t []).map Xml.name = tags.map (enumValue CR.Py.Gen.tag) := by
    rw [List.map_map]; conv => rhs; rw [← List.map_id (tags.map (enumValue CR.Py.Gen.tag))]
    apply List.map_congr_left; intro t _; rfl
  have hl : schema.lookup "tag" = some (.complex [] false (.all (stateEs "tag"))) := by decide
  have hstr : (stateEs "tag").all (fun e => e.type == "xs:string" && e.min == 0) = true := by decide
  have hnd := tag_values_nodup' h
  refine all_assembly hl (by decide) "scenarioTags" [] (by rfl) _ (by rw [hnames]; exact hnd) ?_ ?_ ?_
  · intro k hk
    obtain ⟨v, hv, rfl⟩ := List.mem_map.mp hk
    obtain ⟨t, ht, rfl⟩ := List.mem_map.mp hv
    exact ok_tag (h.2 t ht)
  · intro e he hmin
    rw [List.all_eq_true] at hstr
    have := hstr e he
    simp [hmin] at this
  · intro k hk
    obtain ⟨v, hv, rfl⟩ := List.mem_map.mp hk
    obtain ⟨t, ht, rfl⟩ := List.mem_map.mp hv
    obtain ⟨e, he, _, hty⟩ := typeOfIn_mem (ok_tag (h.2 t ht))
    rw [List.all_eq_true] at hstr
    have := hstr e he
    simp only [Bool.and_eq_true, beq_iff_eq] at this
    show validNode schema (typeOfIn (elemsOf (schema.content "tag")) (enumValue CR.Py.Gen.tag t)) (leaf (enumValue CR.Py.Gen.tag t) []) = true
    rw [hty, this.1]; exact leaf_string _ _

end CR.C03
