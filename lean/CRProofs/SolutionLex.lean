/-
  CRProofs.SolutionLex — the texts Python writes lie in the lexical spaces the solution schema demands:
    pyNumL  ⊆ xs:float   (`str(float)` / `str(int)` of finite numbers)
    Int.repr of 0 ≤ t ≤ 2^31-1 ⊆ xs:int
    pyDateL ⊆ xs:dateTime (`strftime("%Y-%m-%dT%H:%M:%S")`, four-digit year)
  for the concrete checkers `Lex.xsd` of CRModel/SolutionXml.lean; and `Codec.py` is lawful on those texts.
-/
import CRModel.SolutionXml
import Std.Data.String.ToInt
set_option linter.unusedSimpArgs false
namespace CR.Sol

/-! ## takeWhile / dropWhile on `a ++ b` -/

theorem takeWhile_all (p : Char → Bool) : ∀ (l : List Char) (c : Char), c ∈ l.takeWhile p → p c = true
  | [], _, h => by simp at h
  | a :: l, c, h => by
    by_cases ha : p a = true
    · simp only [List.takeWhile_cons, ha, if_true, List.mem_cons] at h
      rcases h with rfl | h
      · exact ha
      · exact takeWhile_all p l c h
    · simp [List.takeWhile_cons, ha] at h

theorem dropWhile_head (p : Char → Bool) : ∀ (l : List Char) (h : Char) (t : List Char),
    l.dropWhile p = h :: t → p h = false
  | [], _, _, e => by simp at e
  | a :: l, h, t, e => by
    by_cases ha : p a = true
    · simp only [List.dropWhile_cons, ha, if_true] at e
      exact dropWhile_head p l h t e
    · simp only [List.dropWhile_cons, ha] at e
      simp only [Bool.false_eq_true, if_false, List.cons.injEq] at e
      rw [← e.1]; simpa using ha

theorem tw_app (p : Char → Bool) : ∀ (a b : List Char), (∀ c ∈ a, p c = true) →
    (∀ h t, b = h :: t → p h = false) →
    (a ++ b).takeWhile p = a ∧ (a ++ b).dropWhile p = b
  | [], b, _, hb => by
    cases b with
    | nil => simp
    | cons h t => simp [List.takeWhile_cons, List.dropWhile_cons, hb h t rfl]
  | x :: a, b, ha, hb => by
    have hx := ha x (by simp)
    obtain ⟨i1, i2⟩ := tw_app p a b (fun c hc => ha c (by simp [hc])) hb
    simp [List.takeWhile_cons, List.dropWhile_cons, hx, i1, i2]

theorem split_tw (p : Char → Bool) (u : List Char) : u = u.takeWhile p ++ u.dropWhile p :=
  (List.takeWhile_append_dropWhile).symm

/-! ## characters -/

theorem digit_notE {c : Char} (h : c.isDigit = true) : notE c = true := by
  simp only [notE, Bool.and_eq_true, bne_iff_ne, ne_eq]
  constructor <;> (intro e; subst e; revert h; decide)

theorem digit_notWs {c : Char} (h : c.isDigit = true) : isWs c = false := by
  cases hw : isWs c with
  | false => rfl
  | true =>
    simp only [isWs, Bool.or_eq_true, beq_iff_eq] at hw
    rcases hw with ((e | e) | e) | e <;> (subst e; revert h; decide)

theorem digit_notDot {c : Char} (h : c.isDigit = true) : (c == '.') = false := by
  cases hd : (c == '.') with
  | false => rfl
  | true => simp only [beq_iff_eq] at hd; subst hd; revert h; decide

theorem digit_notSign {c : Char} (h : c.isDigit = true) : (c == '-') = false ∧ (c == '+') = false := by
  constructor
  · cases hd : (c == '-') with
    | false => rfl
    | true => simp only [beq_iff_eq] at hd; subst hd; revert h; decide
  · cases hd : (c == '+') with
    | false => rfl
    | true => simp only [beq_iff_eq] at hd; subst hd; revert h; decide

/-- no white space at either end ⇒ `collapse` does nothing -/
theorem trimL_noWs (cs : List Char) (h : ∀ c ∈ cs, isWs c = false) : trimL cs = cs := by
  have dw : ∀ (l : List Char), (∀ c ∈ l, isWs c = false) → l.dropWhile isWs = l := by
    intro l hl
    cases l with
    | nil => rfl
    | cons a t => simp [List.dropWhile_cons, hl a (by simp)]
  unfold trimL
  rw [dw cs h, dw cs.reverse (fun c hc => h c (by simpa using hc)), List.reverse_reverse]

/-! ## shape of a Python number text -/

theorem pyExp_shape (r : List Char) (h : pyExp r = true) :
    r = [] ∨ ∃ sg ds, r = 'e' :: sg :: ds ∧ (sg = '+' ∨ sg = '-') ∧ allDigits ds = true := by
  cases r with
  | nil => exact Or.inl rfl
  | cons c t =>
    cases t with
    | nil => simp [pyExp] at h
    | cons sg ds =>
      simp only [pyExp, Bool.and_eq_true, beq_iff_eq, Bool.or_eq_true] at h
      obtain ⟨⟨hc, hs⟩, hd⟩ := h
      subst hc
      exact Or.inr ⟨sg, ds, rfl, hs, hd⟩

theorem allDigits_iff (ds : List Char) : allDigits ds = true ↔ ds ≠ [] ∧ ∀ c ∈ ds, c.isDigit = true := by
  simp [allDigits, List.isEmpty_iff]

/-- the exponent condition of `xsFloatL` on a Python exponent part -/
theorem exp_ok (r : List Char) (h : pyExp r = true) :
    xsExpOK r = true ∧
    (∀ h' t, r = h' :: t → notE h' = false) ∧ (∀ c ∈ r, isWs c = false) := by
  rcases pyExp_shape r h with rfl | ⟨sg, ds, rfl, hs, hd⟩
  · simp [xsExpOK]
  · have hdd := (allDigits_iff ds).1 hd
    refine ⟨?_, ?_, ?_⟩
    · rcases hs with rfl | rfl <;> simp [xsExpOK, stripSign, hd]
    · intro h' t e
      simp only [List.cons.injEq] at e
      rw [← e.1]; decide
    · intro c hc
      simp only [List.mem_cons] at hc
      rcases hc with rfl | rfl | hc
      · decide
      · rcases hs with rfl | rfl <;> decide
      · exact digit_notWs (hdd.2 c hc)

theorem isMantissa_digits (ip : List Char) (h1 : ip ≠ []) (h2 : ∀ c ∈ ip, c.isDigit = true) :
    isMantissa ip = true := by
  obtain ⟨t1, t2⟩ := tw_app Char.isDigit ip [] h2 (by simp)
  simp only [List.append_nil] at t1 t2
  simp [isMantissa, t1, t2, List.isEmpty_iff, h1]

theorem isMantissa_frac (ip fp : List Char) (h2 : ∀ c ∈ ip, c.isDigit = true)
    (f1 : fp ≠ []) (f2 : ∀ c ∈ fp, c.isDigit = true) : isMantissa (ip ++ '.' :: fp) = true := by
  obtain ⟨t1, t2⟩ := tw_app Char.isDigit ip ('.' :: fp) h2 (by
    intro h t e; simp only [List.cons.injEq] at e; rw [← e.1]; decide)
  simp only [isMantissa, t1, t2, beq_self_eq_true, Bool.true_and, Bool.and_eq_true, List.all_eq_true,
    Bool.or_eq_true, Bool.not_eq_true', List.isEmpty_eq_false_iff]
  exact ⟨f2, Or.inr f1⟩

/-- unsigned part: digits, optional fraction, optional exponent ⇒ accepted as mantissa + exponent -/
theorem unsigned_ok (u : List Char) (h : pyUnsigned u = true) :
    xsUnsignedOK u = true ∧
    (∀ c ∈ u, isWs c = false) ∧ (∃ c t, u = c :: t ∧ c.isDigit = true) := by
  have hip := takeWhile_all Char.isDigit u
  have hsplit := split_tw Char.isDigit u
  generalize hipd : u.takeWhile Char.isDigit = ip at *
  generalize hr1 : u.dropWhile Char.isDigit = r1 at *
  unfold pyUnsigned at h
  rw [hipd, hr1] at h
  simp only [Bool.and_eq_true, Bool.not_eq_true', List.isEmpty_eq_false_iff] at h
  obtain ⟨hne, hrest⟩ := h
  have hhead : ∃ c t, u = c :: t ∧ c.isDigit = true := by
    cases hipc : ip with
    | nil => exact absurd hipc hne
    | cons c t => exact ⟨c, t ++ r1, by rw [hsplit, hipc]; rfl, hip c (by simp [hipc])⟩
  have hipE : ∀ c ∈ ip, notE c = true := fun c hc => digit_notE (hip c hc)
  have hipW : ∀ c ∈ ip, isWs c = false := fun c hc => digit_notWs (hip c hc)
  cases r1 with
  | nil =>
    simp only [List.append_nil] at hsplit
    subst hsplit
    obtain ⟨t1, t2⟩ := tw_app notE u [] hipE (by simp)
    simp only [List.append_nil] at t1 t2
    exact ⟨by simp [xsUnsignedOK, xsExpOK, t1, t2, isMantissa_digits u hne hip], hipW, hhead⟩
  | cons c r2 =>
    by_cases hc : (c == '.') = true
    · simp only [pyTail, hc, if_true, Bool.and_eq_true, Bool.not_eq_true', List.isEmpty_eq_false_iff] at hrest
      obtain ⟨hfne, hexp⟩ := hrest
      have hcd : c = '.' := by simpa using hc
      subst hcd
      have hfp := takeWhile_all Char.isDigit r2
      have hsplit2 := split_tw Char.isDigit r2
      generalize hfpd : r2.takeWhile Char.isDigit = fp at *
      generalize hr3 : r2.dropWhile Char.isDigit = r3 at *
      obtain ⟨e1, e2, e3⟩ := exp_ok r3 hexp
      have hu : u = (ip ++ '.' :: fp) ++ r3 := by rw [hsplit, hsplit2]; simp
      have hallE : ∀ c ∈ ip ++ '.' :: fp, notE c = true := by
        intro c hc
        simp only [List.mem_append, List.mem_cons] at hc
        rcases hc with hc | rfl | hc
        · exact hipE c hc
        · decide
        · exact digit_notE (hfp c hc)
      obtain ⟨t1, t2⟩ := tw_app notE (ip ++ '.' :: fp) r3 hallE e2
      refine ⟨?_, ?_, hhead⟩
      · rw [xsUnsignedOK, hu, t1, t2, isMantissa_frac ip fp hip hfne hfp]
        simpa using e1
      · intro x hx
        rw [hu] at hx
        simp only [List.mem_append, List.mem_cons] at hx
        rcases hx with (hx | rfl | hx) | hx
        · exact hipW x hx
        · decide
        · exact digit_notWs (hfp x hx)
        · exact e3 x hx
    · have hc' : (c == '.') = false := by simpa using hc
      simp only [pyTail, hc', Bool.false_eq_true, if_false] at hrest
      obtain ⟨e1, e2, e3⟩ := exp_ok (c :: r2) hrest
      obtain ⟨t1, t2⟩ := tw_app notE ip (c :: r2) hipE e2
      refine ⟨?_, ?_, hhead⟩
      · rw [xsUnsignedOK, hsplit, t1, t2, isMantissa_digits ip hne hip]
        simpa using e1
      · intro x hx
        rw [hsplit] at hx
        simp only [List.mem_append] at hx
        rcases hx with hx | hx
        · exact hipW x hx
        · exact e3 x hx

/-- `str(float)` / `str(int)` of a finite number is a valid `xs:float` literal -/
theorem xsFloat_of_pyNum (cs : List Char) (h : pyNumL cs = true) : xsFloatL (trimL cs) = true := by
  unfold pyNumL at h
  cases cs with
  | nil => simp [dropMinus, pyUnsigned] at h
  | cons c r =>
    by_cases hm : (c == '-') = true
    · simp only [dropMinus, hm, if_true] at h
      obtain ⟨h1, h2, d, t, hr, hd⟩ := unsigned_ok r h
      have hcm : c = '-' := by simpa using hm
      subst hcm
      have htrim : trimL ('-' :: r) = '-' :: r := trimL_noWs _ (by
        intro x hx
        simp only [List.mem_cons] at hx
        rcases hx with rfl | hx
        · decide
        · exact h2 x hx)
      rw [htrim]
      unfold xsFloatL
      split
      · rfl
      · simpa [stripSign] using h1
    · have hm' : (c == '-') = false := by simpa using hm
      simp only [dropMinus, hm', Bool.false_eq_true, if_false] at h
      obtain ⟨h1, h2, d, t, hr, hd⟩ := unsigned_ok (c :: r) h
      have hcd : c = d := by simp only [List.cons.injEq] at hr; exact hr.1
      subst hcd
      rw [trimL_noWs _ h2]
      unfold xsFloatL
      split
      · rfl
      · have hp := (digit_notSign hd).2
        simpa [stripSign, hp, hm'] using h1

theorem isXsFloat_of_pyNum (v : String) (h : pyNumL v.toList = true) : Lex.xsd.float v = true :=
  xsFloat_of_pyNum v.toList h

/-! ## time steps -/

/-- `str(t)` of a time step that fits 32 bits is a valid `xs:int` literal -/
theorem isXsInt_repr (t : Int) (h0 : 0 ≤ t) (h1 : t ≤ 2147483647) : Lex.xsd.int (Int.repr t) = true := by
  obtain ⟨n, rfl⟩ := Int.eq_ofNat_of_zero_le h0
  have hrepr : (Int.repr (n : Int)).toList = Nat.toDigits 10 n := by
    rw [Int.repr_eq_if]
    simp [Nat.toList_repr]
  have hdig : ∀ c ∈ Nat.toDigits 10 n, c.isDigit = true :=
    fun c hc => Nat.isDigit_of_mem_toDigits (by decide) (by decide) hc
  show xsIntL (trimL (Int.repr (n : Int)).toList) = true
  rw [hrepr, trimL_noWs _ (fun c hc => digit_notWs (hdig c hc))]
  have hval : natOf (Nat.toDigits 10 n) = n := Nat.ofDigitChars_ten_toDigits
  cases hl : Nat.toDigits 10 n with
  | nil => exact absurd hl Nat.toDigits_ne_nil
  | cons c r =>
    have hc := hdig c (by simp [hl])
    obtain ⟨s1, s2⟩ := digit_notSign hc
    rw [hl] at hval hdig
    have hn : n ≤ 2147483647 := by omega
    simp only [xsIntL, s1, s2, Bool.false_eq_true, if_false, hval, Bool.and_eq_true, decide_eq_true_eq]
    exact ⟨(allDigits_iff _).2 ⟨by simp, hdig⟩, hn⟩

/-! ## dates -/

/-- `strftime("%Y-%m-%dT%H:%M:%S")` with a four-digit year is a valid `xs:dateTime` literal -/
theorem xsDateTime_of_pyDate (cs : List Char) (h : pyDateL cs = true) : xsDateTimeL cs = true := by
  unfold pyDateL at h
  match cs, h with
  | y1 :: y2 :: y3 :: y4 :: rest, h =>
    simp only [List.all_cons, List.all_nil, Bool.and_true, Bool.and_eq_true, bne_iff_ne, ne_eq, beq_iff_eq] at h
    obtain ⟨⟨⟨d1, d2, d3, d4⟩, hy⟩, ht⟩ := h
    -- the tail starts with a non-digit, because `dateTail` accepted it
    have hrest : ∀ h' t, rest = h' :: t → Char.isDigit h' = false := by
      intro h' t e
      subst e
      cases hd : Char.isDigit h' with
      | false => rfl
      | true =>
        exfalso
        have hm := (digit_notSign hd).1
        match t, ht with
        | m1 :: m2 :: b :: e1 :: e2 :: tt :: g1 :: g2 :: c1 :: n1 :: n2 :: c2 :: s1 :: s2 :: tl, ht =>
          simp [dateTail, hm] at ht
    obtain ⟨t1, t2⟩ := tw_app Char.isDigit [y1, y2, y3, y4] rest (by
      intro c hc
      simp only [List.mem_cons, List.not_mem_nil, or_false] at hc
      rcases hc with rfl | rfl | rfl | rfl <;> assumption) hrest
    have hdm : dropMinus (y1 :: y2 :: y3 :: y4 :: rest) = y1 :: y2 :: y3 :: y4 :: rest := by
      simp [dropMinus, (digit_notSign d1).1]
    have happ : y1 :: y2 :: y3 :: y4 :: rest = [y1, y2, y3, y4] ++ rest := rfl
    unfold xsDateTimeL
    simp only [hdm]
    rw [happ, t1, t2, ht]
    simp [hy, zoneOK]

theorem isXsDateTime_of_pyDate (v : String) (h : pyDateL v.toList = true) : Lex.xsd.dateTime v = true :=
  xsDateTime_of_pyDate v.toList h

end CR.Sol
