/-
  CRProofs.CRFile — the whole file: root attributes, location, scenario tags and body read back what was written.
-/
import CRModel.CRXml
import CRProofs.CRXml
import CRProofs.CRState

namespace CR.X

/-! ## the clock text -/

theorem parse2_digits : ∀ a, a < 10 → ∀ b, b < 10 → parse2 (digitChar a) (digitChar b) = some (a * 10 + b) := by decide

theorem parse2_fmt2 (n : Nat) (h : n < 100) : parse2 (digitChar (n / 10)) (digitChar (n % 10)) = some n := by
  rw [parse2_digits (n / 10) (by omega) (n % 10) (by omega)]
  congr 1
  omega

theorem Prim.clock_lawful : Prim.clock.Lawful := ⟨fun t h => by
  obtain ⟨hh, hm⟩ := h
  simp only [Prim.clock, String.toList_ofList, fmt2, List.cons_append, List.nil_append, parse2_fmt2 t.1 hh, parse2_fmt2 t.2 hm, id]⟩

/-! ## location -/

theorem addTransformationE_lawful (P : Params) : (addTransformationE P).Lawful := by unfold addTransformationE; lawful

theorem geoE_lawful (P : Params) : (geoE P).Lawful := by
  have h := addTransformationE_lawful P
  unfold geoE
  apply ECodec.pmap_lawful (by lawful)
  intro g _ _
  rfl

theorem envE_lawful : envE.Lawful := by
  have h := Prim.clock_lawful
  unfold envE; lawful

theorem locationE_lawful (P : Params) : (locationE P).Lawful := by
  have h1 := geoE_lawful P
  have h2 := envE_lawful
  unfold locationE; lawful

theorem locationC_lawful (P : Params) : (locationC P).Lawful := by
  have h := locationE_lawful P
  unfold locationC; lawful

/-! ## scenario tags -/

theorem find_leaves (t : String) (l : List String) : (find t (l.map (fun s => leaf s ""))).isSome = l.contains t := by
  induction l with
  | nil => rfl
  | cons a r ih =>
    simp only [List.map_cons, find, List.find?_cons, hasTag, leaf, List.contains_cons]
    cases h : (a == t)
    · have h' : (t == a) = false := by
        have : a ≠ t := by simpa using h
        have : t ≠ a := fun e => this e.symm
        simpa using this
      simp only [h', Bool.false_or]
      exact ih
    · have : a = t := by simpa using h
      simp [this]

theorem tagsC_lawful : tagsC.Lawful where
  enc_tags := by
    intro a x hx
    simp only [tagsC, List.mem_singleton] at hx
    subst hx
    rfl
  dec_local := by
    intro l
    simp only [tagsC]
    rw [find_own (contains_singleton "scenarioTags")]
  rt := by
    intro l _
    have hf : find "scenarioTags" [node "scenarioTags" (l.map (fun t => leaf t ""))] =
        some (node "scenarioTags" (l.map (fun t => leaf t ""))) := find_singleton_self _ _ rfl
    simp only [tagsC]
    rw [hf]
    simp only [node]
    congr 1
    apply List.filter_congr
    intro t _
    exact find_leaves t l

/-! ## all children of <commonRoad> -/

theorem fileKidsC_lawful {cfg : Cfg} (hS : StateLaws cfg) : (fileKidsC cfg).Lawful := by
  have h1 := locationC_lawful cfg.P
  have h2 := tagsC_lawful
  have h3 := docC_lawful hS
  unfold fileKidsC; lawful

/-! ## the root element -/

theorem getAttr_cons_ne (k k' v : String) (r : List (String × String)) (t tx : String) (ks : List Xml) (h : (k' == k) = false) :
    getAttr k ⟨t, (k', v) :: r, tx, ks⟩ = getAttr k ⟨t, r, tx, ks⟩ := by
  simp [getAttr, List.find?_cons, h]

/-- the seven `root.get(...)` of the reader on the attribute list the writer sets -/
theorem rootAttrs (dt ver bid today : String) (au af so : Option String) (tx : String) (ks : List Xml) :
    let x : Xml := ⟨"commonRoad", [("timeStepSize", dt), ("commonRoadVersion", ver)] ++ optAttr "author" au ++ optAttr "affiliation" af ++
      optAttr "source" so ++ [("benchmarkID", bid), ("date", today)], tx, ks⟩
    getAttr "commonRoadVersion" x = some ver ∧ getAttr "timeStepSize" x = some dt ∧ getAttr "benchmarkID" x = some bid ∧
      getAttr "author" x = au ∧ getAttr "affiliation" x = af ∧ getAttr "source" x = so := by
  cases au <;> cases af <;> cases so <;> simp [getAttr, optAttr, List.find?_cons]

theorem decodeFile_encodeFile (fc : FileCfg) (f : File)
    (hS : StateLaws (fc.cfgFor f.header.benchmarkId)) (htab : hasTable (countryOf fc.countries f.header.benchmarkId) fc.tables = true)
    (hok : okFile fc f) :
    decodeFile fc (encodeFile fc f) = some (normFile fc f) := by
  obtain ⟨h1, h2, h3, h4, h5, h6⟩ := rootAttrs (decimalToStr fc.P f.header.dt) "2020a" f.header.benchmarkId fc.today f.header.author
    f.header.affiliation f.header.source "" ((fileKidsC (fc.cfgFor f.header.benchmarkId)).enc (f.location, f.tags, f.body))
  have hk := (fileKidsC_lawful hS).rt (f.location, f.tags, f.body) hok
  simp only [decodeFile, encodeFile]
  rw [h1, h2, h3]
  simp only [beq_self_eq_true, htab, Bool.and_self, ↓reduceIte, hk, h4, h5, h6]
  rfl

end CR.X
