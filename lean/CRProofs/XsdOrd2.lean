/-
  CRProofs.XsdOrd2 — C03, section 2 of CRProps/C03.lean (element order per node builder): the proofs, kept in their own modules so
  that lake builds them in parallel with the tree-encoder chain (CRProofs.XsdDoc*).  CRProps/C03.lean states the theorems.
-/
import CRProofs.XsdOrd

namespace CR.C03
open CR.Xsd CR.XmlNum CR.XmlW

theorem ord_order_cycle (n : Nat) (offset : Bool) (h : 1 ≤ n) : Ok "trafficLightCycle" (cycleKids n offset) :=
  order_of (by decide) ["cycleElement", "timeOffset"] (by decide) [.ge 1 n h, .opt offset] (by rfl)
    (by cases offset <;> simp [cycleKids, blocksN, CR.XmlW.rep, CR.XmlW.opt, Cnt.val])

theorem ord_order_cycleElement : Ok "trafficCycleElement" cycleElementKids := by decide

theorem ord_order_incoming (nIn nRight nStraight nLeft : Nat) (leftOf : Bool) (h : 1 ≤ nIn) :
    Ok "incoming" (incomingKids nIn nRight nStraight nLeft leftOf) :=
  order_of (by decide) ["incomingLanelet", "successorsRight", "successorsStraight", "successorsLeft", "isLeftOf"] (by decide)
    [.ge 1 nIn h, .any nRight, .any nStraight, .any nLeft, .opt leftOf] (by rfl)
    (by cases leftOf <;> simp [incomingKids, blocksN, CR.XmlW.rep, CR.XmlW.opt, Cnt.val])

theorem ord_order_intersection (n : Nat) (crossing : Bool) (h : 1 ≤ n) : Ok "intersection" (intersectionKids n crossing) :=
  order_of (by decide) ["incoming", "crossing"] (by decide) [.ge 1 n h, .opt crossing] (by rfl)
    (by cases crossing <;> simp [intersectionKids, blocksN, CR.XmlW.rep, CR.XmlW.opt, Cnt.val])

theorem ord_order_crossing (n : Nat) (h : 1 ≤ n) : Ok "crossing" (crossingKids n) :=
  order_of (by decide) ["crossingLanelet"] (by decide) [.ge 1 n h] (by rfl) (by simp [crossingKids, blocksN, CR.XmlW.rep, Cnt.val])

theorem ord_order_location (geo env : Bool) : Ok "location" (locationKids geo env) := by cases geo <;> cases env <;> decide

theorem ord_order_geoTransformation : Ok "geoTransformation" geoTransformationKids := by decide

theorem ord_order_additionalTransformation : Ok "additionalTransformation" additionalTransformationKids := by decide

theorem ord_order_environment : Ok "environment" (environmentKids true true true) := by decide

theorem ord_order_staticObstacle : Ok "staticObstacle" staticObstacleKids := by decide

theorem ord_order_environmentObstacle : Ok "environmentObstacle" environmentObstacleKids := by decide

theorem ord_order_occupancy : Ok "occupancy" occupancyKids := by decide

theorem ord_order_dynamicObstacle (signal0 series : Bool) (pred : Pred) (h : pred ≠ .none) :
    Ok "dynamicObstacle" (dynamicObstacleKids signal0 pred series) := by
  cases pred with
  | none => exact absurd rfl h
  | trajectory => cases signal0 <;> cases series <;> decide
  | occupancySet => cases signal0 <;> cases series <;> decide

theorem ord_order_phantomObstacle : Ok "phantomObstacle" (phantomObstacleKids true) := by decide

end CR.C03
