/-
  CRProofs.XsdDoc — C03, whole-document validity: leaf lemmas (integers, booleans, strings, enumeration values, time text),
  exact-type versions of the content-model lemmas, and the structural lemmas used by the per-encoder validity proofs.
-/
import CRProofs.Xsd
import CRProofs.XsdEnum
import CRModel.CRXmlWDoc

namespace CR.XmlNum
open CR.Xsd

/-! ### integers -/

theorem digitChar_spec : ∀ d, d < 10 → (Nat.digitChar d).isDigit = true ∧ digitVal (Nat.digitChar d) = d := by decide

theorem digitsVal_append_single (s : Str) (c : Char) :
    digitsVal (s ++ [c]) = if c.isDigit then 10 * digitsVal s + digitVal c else digitsVal s := by
  simp [digitsVal, List.foldl_append]

theorem digitsVal_natStr (n : Nat) : digitsVal (natStr n) = n := by
  induction n using Nat.strongRecOn with
  | _ n ih =>
    unfold natStr
    by_cases h : n < 10
    · rw [Nat.toDigits_of_lt_base h]
      have := digitChar_spec n h
      simp [digitsVal, this.1, this.2]
    · rw [Nat.toDigits_of_base_le (by decide) (by omega), digitsVal_append_single]
      have := digitChar_spec (n % 10) (Nat.mod_lt _ (by decide))
      rw [if_pos this.1, this.2]
      have ih' := ih (n / 10) (by omega)
      unfold natStr at ih'
      rw [ih']; omega

theorem natStr_any_nz (n : Nat) (h : 1 ≤ n) : (natStr n).any nz = true := by
  apply Classical.byContradiction
  intro hc
  have hall : ∀ c ∈ natStr n, nz c = false := by
    intro c hm
    cases hz : nz c with
    | false => rfl
    | true => exact absurd (List.any_eq_true.mpr ⟨c, hm, hz⟩) hc
  -- all digits zero-valued: the value is zero
  have : ∀ (s : Str) (acc : Nat), (∀ c ∈ s, nz c = false) →
      s.foldl (fun acc c => if c.isDigit then 10 * acc + digitVal c else acc) acc = 10 ^ (s.filter Char.isDigit).length * acc := by
    intro s
    induction s with
    | nil => intro acc _; simp
    | cons c cs ihs =>
      intro acc hs
      have hc0 : digitVal c = 0 := by
        have := hs c List.mem_cons_self
        simpa [nz] using this
      rw [List.foldl_cons, ihs _ (fun d hd => hs d (List.mem_cons_of_mem _ hd))]
      by_cases hd : c.isDigit = true
      · simp [hd, hc0, Nat.pow_succ]; rw [Nat.mul_assoc]
      · simp [hd]
  have hv := this (natStr n) 0 hall
  have := digitsVal_natStr n
  unfold digitsVal at this
  rw [this] at hv
  omega

theorem natStr_no_dot (n : Nat) : ∀ c ∈ natStr n, (c != '.') = true := nodot_of_digits (natStr_digits n)

theorem scaleOf_nodot {s : Str} (h : ∀ c ∈ s, (c != '.') = true) : scaleOf s = 0 := by
  unfold scaleOf
  have := @List.dropWhile_append_of_pos _ (· != '.') s [] h
  simp only [List.append_nil, List.dropWhile_nil] at this
  rw [this]; rfl

end CR.XmlNum

namespace CR.XmlW
open CR.Xsd CR.XmlNum

theorem intStr_cases (i : Int) : (0 ≤ i ∧ intStr i = natStr i.toNat) ∨ (i < 0 ∧ intStr i = '-' :: natStr (-i).toNat) := by
  unfold intStr
  by_cases h : i < 0
  · right; exact ⟨h, by rw [if_pos h]⟩
  · left; exact ⟨by omega, by rw [if_neg h]⟩

theorem isNeg_natStr (n : Nat) : isNeg (natStr n) = false := by
  have := isNeg_digit_head (i := natStr n) (r := []) (natStr_digits n) (natStr_ne_nil n)
  simpa using this

theorem dropSign_natStr (n : Nat) : dropSign (natStr n) = natStr n := by
  cases h : natStr n with
  | nil => exact absurd h (natStr_ne_nil n)
  | cons c cs =>
    have hd := natStr_digits n
    rw [h, allDigits_cons, Bool.and_eq_true] at hd
    exact dropSign_digit_head hd.1

theorem isInteger_intStr (i : Int) : isInteger (intStr i) = true := by
  rcases intStr_cases i with ⟨_, h⟩ | ⟨_, h⟩
  · rw [h]; unfold isInteger; simp only []; rw [dropSign_natStr]
    have hne := natStr_ne_nil i.toNat
    have he : (natStr i.toNat).isEmpty = false := by cases hh : natStr i.toNat with
      | nil => exact absurd hh hne
      | cons _ _ => rfl
    rw [he, natStr_digits]; rfl
  · rw [h]; unfold isInteger; simp only [dropSign]
    have hne := natStr_ne_nil (-i).toNat
    have he : (natStr (-i).toNat).isEmpty = false := by cases hh : natStr (-i).toNat with
      | nil => exact absurd hh hne
      | cons _ _ => rfl
    rw [he, natStr_digits]; rfl

theorem isDecimal_intStr (i : Int) : isDecimal (intStr i) = true := by
  rcases intStr_cases i with ⟨_, h⟩ | ⟨_, h⟩
  · rw [h]; exact isDecimal_digits (natStr_digits _) (natStr_ne_nil _)
  · rw [h, isDecimal_neg]; exact decBody_digits (natStr_digits _) (natStr_ne_nil _)

theorem strip_intStr (i : Int) : strip (intStr i) = intStr i := strip_decimal (isDecimal_intStr i)

theorem scaleOf_intStr (i : Int) : scaleOf (intStr i) = 0 := by
  apply scaleOf_nodot
  rcases intStr_cases i with ⟨_, h⟩ | ⟨_, h⟩
  · rw [h]; exact natStr_no_dot _
  · rw [h]; intro c hc
    rcases List.mem_cons.mp hc with rfl | hc
    · decide
    · exact natStr_no_dot _ c hc

theorem numer_intStr (i : Int) : numer (intStr i) = i := by
  rcases intStr_cases i with ⟨h0, h⟩ | ⟨h0, h⟩
  · rw [h]; unfold numer; rw [isNeg_natStr, digitsVal_natStr]; simp; omega
  · rw [h]; unfold numer
    have : digitsVal ('-' :: natStr (-i).toNat) = (-i).toNat := by
      have := digitsVal_natStr (-i).toNat
      unfold digitsVal at *
      rw [List.foldl_cons]; simpa using this
    rw [this]; simp [isNeg]; omega

theorem intValue_intStr (i : Int) : intValue (intStr i) = some i := by
  unfold intValue
  simp only [strip_intStr, isInteger_intStr, if_true, numer_intStr]

/-- xs:integer, xs:positiveInteger (`i ≥ 1`), xs:nonNegativeInteger (`i ≥ 0`), integerZero (`i = 0`) -/
theorem integer_accepts (i : Int) : ({ base := .integer } : Simple).accepts (intStr i) = true := by
  simp [Simple.accepts, strip_intStr, isInteger_intStr]

theorem minIncl_accepts (i b : Int) (h : b ≤ i) :
    ({ base := .integer, minIncl := some b } : Simple).accepts (intStr i) = true := by
  simp [Simple.accepts, strip_intStr, isInteger_intStr, decGe, numer_intStr, scaleOf_intStr, h]

theorem zero_accepts : ({ base := .integer, minIncl := some 0, maxIncl := some 0 } : Simple).accepts (intStr 0) = true := by
  decide

theorem boolean_accepts (b : Bool) : ({ base := .boolean } : Simple).accepts (boolStr b) = true := by
  cases b <;> decide

theorem string_accepts (s : Str) : ({ base := .string } : Simple).accepts s = true := by
  simp [Simple.accepts]

end CR.XmlW

namespace CR.C03
open CR.Xsd CR.XmlNum CR.XmlW

/-! ### leaves against the schema's simple types -/

theorem sdec : schema.lookup "xs:decimal" = some (.simple { base := .decimal }) := by decide
theorem sposdec : schema.lookup "positiveDecimal" = some (.simple { base := .decimal, minExcl := some 0 }) := by decide
theorem sint : schema.lookup "xs:integer" = some (.simple { base := .integer }) := by decide
theorem sposint : schema.lookup "xs:positiveInteger" = some (.simple { base := .integer, minIncl := some 1 }) := by decide
theorem snonneg : schema.lookup "xs:nonNegativeInteger" = some (.simple { base := .integer, minIncl := some 0 }) := by decide
theorem szero : schema.lookup "integerZero" = some (.simple { base := .integer, minIncl := some 0, maxIncl := some 0 }) := by decide
theorem sbool : schema.lookup "xs:boolean" = some (.simple { base := .boolean }) := by decide
theorem sstring : schema.lookup "xs:string" = some (.simple { base := .string }) := by decide
theorem stime : schema.lookup "xs:time" = some (.simple { base := .time }) := by decide

theorem leaf_decimal (n : String) {x : Str} (h : isDecimal x = true) : validNode schema "xs:decimal" (leaf n x) = true :=
  validNode_simple sdec n (decimal_accepts h)

theorem leaf_posdec (n : String) {x : Str} (h : isDecimal x = true) (hn : isNeg x = false) (hz : x.any nz = true) :
    validNode schema "positiveDecimal" (leaf n x) = true :=
  validNode_simple sposdec n (positiveDecimal_accepts h hn hz)

theorem leaf_integer (n : String) (i : Int) : validNode schema "xs:integer" (leaf n (intStr i)) = true :=
  validNode_simple sint n (integer_accepts i)

theorem leaf_posint (n : String) {i : Int} (h : 1 ≤ i) : validNode schema "xs:positiveInteger" (leaf n (intStr i)) = true :=
  validNode_simple sposint n (minIncl_accepts i 1 h)

theorem leaf_nonneg (n : String) {i : Int} (h : 0 ≤ i) : validNode schema "xs:nonNegativeInteger" (leaf n (intStr i)) = true :=
  validNode_simple snonneg n (minIncl_accepts i 0 h)

theorem leaf_zero (n : String) : validNode schema "integerZero" (leaf n (intStr 0)) = true :=
  validNode_simple szero n zero_accepts

theorem leaf_bool (n : String) (b : Bool) : validNode schema "xs:boolean" (leaf n (boolStr b)) = true :=
  validNode_simple sbool n (boolean_accepts b)

theorem leaf_string (n : String) (s : Str) : validNode schema "xs:string" (leaf n s) = true :=
  validNode_simple sstring n (string_accepts s)

/-- a leaf whose text is a value the (enumeration) type `T` accepts -/
theorem leaf_enum (n T v : String) (h : acceptsV T v = true) : validNode schema T (leaf n v.toList) = true := by
  unfold acceptsV simpleOf at h
  cases hl : schema.lookup T with
  | none => rw [hl] at h; simp at h
  | some td =>
    rw [hl] at h
    cases td with
    | simple st => exact validNode_simple hl n (by simpa using h)
    | complex _ _ _ => simp at h

/-! ### numbers -/

theorem Fin.coord {x : Num} (h : Fin x) (p : Nat) : isDecimal (x.coord p) = true :=
  floatToStr_isDecimal _ _ _ _ _ (by rcases h with h | h; exact Or.inl h; exact Or.inr h.2)

theorem Fin.dec {x : Num} (h : Fin x) : isDecimal x.dec = true :=
  decimalToStr_isDecimal (by rcases h with h | h; exact Or.inl h; exact Or.inr h.1)

theorem leaf_coord (n : String) {x : Num} (h : Fin x) (p : Nat) : validNode schema "xs:decimal" (leaf n (x.coord p)) = true :=
  leaf_decimal n (h.coord p)

theorem leaf_dec (n : String) {x : Num} (h : Fin x) : validNode schema "xs:decimal" (leaf n x.dec) = true :=
  leaf_decimal n h.dec

theorem leaf_posdec_num (n : String) {x : Num} (h : PosNum x) : validNode schema "positiveDecimal" (leaf n x.dec) = true := by
  have hf : isPlainRepr x.repr = true ∨ isSciRepr x.repr = true := by
    rcases h.1 with h1 | h1; exact Or.inl h1; exact Or.inr h1.1
  have hp := decimalToStr_positive hf h.2.1 h.2.2
  exact leaf_posdec n h.1.dec hp.1 hp.2

/-! ### attributes -/

theorem attrs_none (decl : List AttrP) (h : decl.all (fun a => !a.required) = true) : attrsOk schema decl [] = true := by
  simp only [attrsOk, List.all_nil, Bool.true_and]
  rw [List.all_eq_true] at *
  intro a ha; have := h a ha; simp at this; simp [this]

theorem simple_posint : simpleOf schema "xs:positiveInteger" = some { base := .integer, minIncl := some 1 } := by decide
theorem simple_int : simpleOf schema "xs:integer" = some { base := .integer } := by decide

/-- `id="i"` against a declaration `id : xs:positiveInteger, required` -/
theorem attrs_id {i : Int} (h : 1 ≤ i) :
    attrsOk schema [{ name := "id", type := "xs:positiveInteger", required := true }] (idAttr i) = true := by
  simp [attrsOk, idAttr, simple_posint, String.toList_ofList, minIncl_accepts i 1 h]

/-- `ref="i"` against `ref : xs:integer, required` -/
theorem attrs_ref (i : Int) :
    attrsOk schema [{ name := "ref", type := "xs:integer", required := true }] [("ref", String.ofList (intStr i))] = true := by
  simp [attrsOk, simple_int, String.toList_ofList, integer_accepts i]

end CR.C03

namespace CR.Xsd

/-! ### exact types assigned by content models -/

/-- type of the first element particle named `n` -/
def typeOfIn (es : List ElemP) (n : String) : String :=
  match es.find? (·.name == n) with
  | some e => e.type
  | none => ""

theorem typeOfIn_cons_self (e : ElemP) (es : List ElemP) : typeOfIn (e :: es) e.name = e.type := by
  simp [typeOfIn]

theorem typeOfIn_cons_ne {e : ElemP} {es : List ElemP} {n : String} (h : n ≠ e.name) : typeOfIn (e :: es) n = typeOfIn es n := by
  have : (e.name == n) = false := by simpa using fun h' => h h'.symm
  simp [typeOfIn, this]

theorem validKids_all {S : Schema} {t : String} {f : List Xml} (h : ∀ x ∈ f, validNode S t x = true) :
    validKids S (List.replicate f.length t) f = true := by
  have := validKids_family (S := S) (t := t) (f := f) (ts := []) (ks := []) h
  simpa [validKids] using this

theorem validKids_map_self {S : Schema} (ty : String → String) : ∀ (kids : List Xml),
    (∀ k ∈ kids, validNode S (ty k.name) k = true) → validKids S (kids.map (fun k => ty k.name)) kids = true
  | [], _ => rfl
  | k :: ks, h => by
    simp only [List.map_cons, validKids, h k List.mem_cons_self, Bool.true_and]
    exact validKids_map_self ty ks (fun x hx => h x (List.mem_cons_of_mem _ hx))

/-- a choice of single elements: the alternative named like the next child is taken and gets its type -/
theorem matchChoiceI_unit_type : ∀ {es : List ElemP}, (es.all fun e => e.min == 1 && e.max == some 1) = true →
    ∀ (n : String) (rest : List String), n ∈ es.map (·.name) →
    matchChoiceI (es.map Item.elem) (n :: rest) = some ([typeOfIn es n], rest)
  | [], _, n, rest, hm => by simp at hm
  | e :: es, hu, n, rest, hm => by
    rw [List.all_cons, Bool.and_eq_true] at hu
    have hu1 := hu.1
    simp only [Bool.and_eq_true, beq_iff_eq] at hu1
    simp only [List.map_cons, matchChoiceI, matchItem, matchElem_unit hu1.1 hu1.2]
    by_cases hn : n = e.name
    · subst hn; simp [typeOfIn_cons_self]
    · simp only [hn, if_false]
      rw [typeOfIn_cons_ne hn]
      apply matchChoiceI_unit_type hu.2 n rest
      simp only [List.map_cons] at hm
      rcases List.mem_cons.mp hm with h | h
      · exact absurd h hn
      · exact h

theorem matchChoiceI_unit_nil : ∀ {es : List ElemP}, (es.all fun e => e.min == 1 && e.max == some 1) = true →
    matchChoiceI (es.map Item.elem) [] = none
  | [], _ => rfl
  | e :: es, hu => by
    rw [List.all_cons, Bool.and_eq_true] at hu
    have hu1 := hu.1
    simp only [Bool.and_eq_true, beq_iff_eq] at hu1
    simp only [List.map_cons, matchChoiceI, matchItem, matchElem, countPrefix, hu1.2, capMax, hu1.1]
    simpa using matchChoiceI_unit_nil hu.2

theorem rep_unit_choice_types {es : List ElemP} (hu : (es.all fun e => e.min == 1 && e.max == some 1) = true) (mn : Nat) :
    ∀ (ns : List String) (fuel cnt : Nat), ns.length < fuel → (∀ n ∈ ns, n ∈ es.map (·.name)) → mn ≤ cnt + ns.length →
      rep (matchChoiceI (es.map Item.elem)) mn none fuel cnt ns = some (ns.map (typeOfIn es), [])
  | [], fuel, cnt, hf, _, hmin => by
    cases fuel with
    | zero => simp at hf
    | succ f =>
      have hmin' : mn ≤ cnt := by simpa using hmin
      simp [rep, atMax, matchChoiceI_unit_nil hu, hmin']
  | n :: rest, fuel, cnt, hf, hall, hmin => by
    cases fuel with
    | zero => simp at hf
    | succ f =>
      have ht := matchChoiceI_unit_type hu n rest (hall n List.mem_cons_self)
      have hts := rep_unit_choice_types hu mn rest f (cnt + 1) (by simp at hf; omega)
        (fun m hm => hall m (List.mem_cons_of_mem _ hm)) (by simp at hmin; omega)
      simp [rep, atMax, ht, hts]

/-- repeated choice of single elements (`shape`): every child gets the type of the alternative of its name -/
theorem unit_choice_types {es : List ElemP} (hu : (es.all fun e => e.min == 1 && e.max == some 1) = true) (mn : Nat)
    (ns : List String) (hall : ∀ n ∈ ns, n ∈ es.map (·.name)) (hmin : mn ≤ ns.length) :
    matchGroup (.choice (es.map Item.elem) mn none) ns = some (ns.map (typeOfIn es)) := by
  have h := rep_unit_choice_types hu mn ns (ns.length + 1) 0 (by omega) hall (by omega)
  simp [matchGroup, h]

/-- a `{1,1}` choice between elements: a run of `n+1` children of one unbounded alternative, all of its type -/
theorem choice_run_types {g : Group} (hg : g = .choice ((elemsOf g).map Item.elem) 1 (some 1))
    (hmin : (elemsOf g).all (fun e => decide (1 ≤ e.min)) = true) (hnd : ((elemsOf g).map (·.name)).Nodup)
    (e : ElemP) (he : e ∈ elemsOf g) (hmax : e.max = none) (n : Nat) (hn : e.min ≤ n + 1) :
    matchGroup g (List.replicate (n + 1) e.name) = some (List.replicate (n + 1) e.type) := by
  have hall : ∀ e' ∈ elemsOf g, 1 ≤ e'.min := by
    intro e' he'; rw [List.all_eq_true] at hmin; simpa using hmin e' he'
  have h := matchChoiceI_run (elemsOf g) e n he hn hmax hall hnd
  rw [hg]
  simp only [matchGroup, List.length_replicate]
  simp [rep, atMax, h]

/-- a `{1,1}` choice between elements: exactly one child of a `{1,1}` alternative -/
theorem choice_one_types {g : Group} (hg : g = .choice ((elemsOf g).map Item.elem) 1 (some 1))
    (hmin : (elemsOf g).all (fun e => decide (1 ≤ e.min)) = true) (hnd : ((elemsOf g).map (·.name)).Nodup)
    (e : ElemP) (he : e ∈ elemsOf g) (hn : e.min ≤ 1) (hmax : ∀ m, e.max = some m → 1 ≤ m) :
    matchGroup g [e.name] = some [e.type] := by
  -- reuse the run lemma's argument with a capped maximum
  have hall : ∀ e' ∈ elemsOf g, 1 ≤ e'.min := by
    intro e' he'; rw [List.all_eq_true] at hmin; simpa using hmin e' he'
  have key : ∀ (es : List ElemP), e ∈ es → (∀ e' ∈ es, 1 ≤ e'.min) → (es.map (·.name)).Nodup →
      matchChoiceI (es.map Item.elem) [e.name] = some ([e.type], []) := by
    intro es
    induction es with
    | nil => intro h; cases h
    | cons e0 es ih =>
      intro hm hall' hnd'
      rw [List.map_cons, List.nodup_cons] at hnd'
      by_cases h0 : e0 = e
      · subst h0
        have hk : capMax (countPrefix e0.name [e0.name]) e0.max = 1 := by
          simp only [countPrefix, if_true]
          cases hx : e0.max with
          | none => rfl
          | some m => have := hmax m hx; simp [capMax]; omega
        have hme : matchElem e0 [e0.name] = some ([e0.type], []) := by
          unfold matchElem; simp only [hk]
          have : ¬ 1 < e0.min := by omega
          simp [this]
        simp [matchChoiceI, matchItem, hme]
      · have hin : e ∈ es := by
          rcases List.mem_cons.mp hm with h | h
          · exact absurd h.symm h0
          · exact h
        have hne : e.name ≠ e0.name := by
          intro heq; apply hnd'.1; rw [← heq]; exact List.mem_map.mpr ⟨e, hin, rfl⟩
        have hk : capMax (countPrefix e0.name [e.name]) e0.max = 0 := by
          have : countPrefix e0.name [e.name] = 0 := by simp [countPrefix, hne]
          rw [this]; cases e0.max <;> simp [capMax]
        have hme : matchElem e0 [e.name] = none := by
          unfold matchElem; simp only [hk]
          have := hall' e0 List.mem_cons_self
          have : 0 < e0.min := by omega
          simp [this]
        simp only [List.map_cons, matchChoiceI, matchItem, hme]
        exact ih hin (fun e' he' => hall' e' (List.mem_cons_of_mem _ he')) hnd'.2
  have h := key (elemsOf g) he hall hnd
  rw [hg]
  simp [matchGroup, rep, atMax, h]

/-! ### xs:all with exact types, and its assembly rule -/

theorem matchAll_types {es : List ElemP} (hes : isPlainAll es = true) {ns : List String} (hnd : ns.Nodup)
    (hsub : ∀ n ∈ ns, n ∈ es.map (·.name)) (hreq : ∀ e ∈ es, e.min = 1 → e.name ∈ ns) :
    matchAll es ns = some (ns.map (typeOfIn es)) := by
  have h := all_ok hes hnd hsub hreq
  unfold matchAll at *
  split at h
  · rename_i hc; rw [if_pos hc]; rfl
  · simp at h

/-- **assembly of an xs:all-typed element**: pairwise different child names, all declared, the required ones present,
    and every child valid against the type of the element of its name -/
theorem all_assembly {S : Schema} {tn : String} {decl : List AttrP} {mixed : Bool} {es : List ElemP}
    (hl : S.lookup tn = some (.complex decl mixed (.all es))) (hes : isPlainAll es = true) (n : String)
    (a : List (String × String)) (ha : attrsOk S decl a = true) (kids : List Xml) (hnd : (kids.map Xml.name).Nodup)
    (hsub : ∀ k ∈ kids, k.name ∈ es.map (·.name)) (hreq : ∀ e ∈ es, e.min = 1 → e.name ∈ kids.map Xml.name)
    (hk : ∀ k ∈ kids, validNode S (typeOfIn es k.name) k = true) :
    validNode S tn (.node n a [] kids) = true := by
  have hm : matchGroup (.all es) (kids.map Xml.name) = some ((kids.map Xml.name).map (typeOfIn es)) := by
    simp only [matchGroup]
    exact matchAll_types hes hnd (by intro m hm; obtain ⟨k, hk', rfl⟩ := List.mem_map.mp hm; exact hsub k hk') hreq
  rw [validNode_complex hl ha hm, List.map_map]
  exact validKids_map_self (typeOfIn es) kids hk

end CR.Xsd

namespace CR.Xsd

theorem typeOfIn_mem {es : List ElemP} {n : String} (h : n ∈ es.map (·.name)) : ∃ e ∈ es, e.name = n ∧ typeOfIn es n = e.type := by
  induction es with
  | nil => simp at h
  | cons e es ih =>
    by_cases hn : n = e.name
    · subst hn; exact ⟨e, List.mem_cons_self, rfl, typeOfIn_cons_self e es⟩
    · rw [List.map_cons] at h
      rcases List.mem_cons.mp h with h' | h'
      · exact absurd h' hn
      · obtain ⟨e', he', hn', ht⟩ := ih h'
        exact ⟨e', List.mem_cons_of_mem _ he', hn', by rw [typeOfIn_cons_ne hn]; exact ht⟩

/-- assembly for a repeated choice of single elements (`shape`) -/
theorem unit_choice_assembly {S : Schema} {tn : String} {decl : List AttrP} {mixed : Bool} {g : Group} (mn : Nat)
    (hl : S.lookup tn = some (.complex decl mixed g)) (hg : g = .choice ((elemsOf g).map Item.elem) mn none)
    (hu : ((elemsOf g).all fun e => e.min == 1 && e.max == some 1) = true) (n : String) (a : List (String × String))
    (ha : attrsOk S decl a = true) (kids : List Xml)
    (hk : ∀ k ∈ kids, k.name ∈ (elemsOf g).map (·.name) ∧ validNode S (typeOfIn (elemsOf g) k.name) k = true)
    (hmin : mn ≤ kids.length) : validNode S tn (.node n a [] kids) = true := by
  have hm : matchGroup g (kids.map Xml.name) = some ((kids.map Xml.name).map (typeOfIn (elemsOf g))) := by
    have := unit_choice_types hu mn (kids.map Xml.name)
      (by intro m hm; obtain ⟨k, hk', rfl⟩ := List.mem_map.mp hm; exact (hk k hk').1) (by simpa using hmin)
    rw [← hg] at this; exact this
  rw [validNode_complex hl ha hm, List.map_map]
  exact validKids_map_self _ kids (fun k hk' => (hk k hk').2)

/-- assembly for a `{1,1}` choice: a non-empty run of children of one unbounded alternative -/
theorem choice_run_assembly {S : Schema} {tn : String} {decl : List AttrP} {mixed : Bool} {g : Group}
    (hl : S.lookup tn = some (.complex decl mixed g)) (hg : g = .choice ((elemsOf g).map Item.elem) 1 (some 1))
    (hmin : (elemsOf g).all (fun e => decide (1 ≤ e.min)) = true) (hnd : ((elemsOf g).map (·.name)).Nodup)
    (e : ElemP) (he : e ∈ elemsOf g) (hmax : e.max = none) (he1 : e.min ≤ 1) (n : String) (a : List (String × String))
    (ha : attrsOk S decl a = true) (kids : List Xml) (hne : kids ≠ [])
    (hk : ∀ k ∈ kids, k.name = e.name ∧ validNode S e.type k = true) : validNode S tn (.node n a [] kids) = true := by
  obtain ⟨m, hm⟩ : ∃ m, kids.length = m + 1 := by
    cases kids with
    | nil => exact absurd rfl hne
    | cons _ t => exact ⟨t.length, rfl⟩
  have hmg : matchGroup g (kids.map Xml.name) = some (List.replicate kids.length e.type) := by
    rw [map_name_family (fun x hx => (hk x hx).1), hm]
    exact choice_run_types hg hmin hnd e he hmax m (by omega)
  rw [validNode_complex hl ha hmg]
  exact validKids_all (fun x hx => (hk x hx).2)

end CR.Xsd
