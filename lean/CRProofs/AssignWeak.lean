/-
  CRProofs.AssignWeak — what holds after EVERY history, `assign_obstacles_to_lanelets(use_center_only=True)` included:
  the registries contain (at least) the inverse of the recorded shape assignment, every recorded set is a lookup answer,
  every registry is duplicate free; and the totality lemmas (remove / add / any admissible assignment / both readers).
-/
import CRProofs.Assign

namespace CR.Assign

/-- The invariant of ALL histories.  After a centre-only assignment the registries may list an obstacle on more lanelets than
    its recorded shape set (the centre lanelets, by the documented purpose of the flag); what never breaks is the other
    inclusion — every recorded (obstacle, time step, lanelet) triple of an obstacle of the scenario is registered, with its key
    present — which is what `remove_obstacle` relies on. -/
structure WeakInv (E : Env) (s : St) : Prop where
  base : Base E s
  supS : ∀ l o, o ∈ s.statics → RecShapeS (s.fwd o) l → o ∈ s.sreg l
  supD : ∀ l t o, o ∈ s.dynamics → RecShapeD E (s.fwd o) o t l → memD s.dreg l t o

theorem weak_of_inv {E : Env} {s : St} (hi : Inv E s) : WeakInv E s :=
  ⟨hi.base, fun l o h1 h2 => (hi.invS l o).mpr ⟨trivial, h1, h2⟩, fun l t o h1 h2 => (hi.invD l t o).mpr ⟨trivial, h1, h2⟩⟩

theorem weak_init (E : Env) : WeakInv E St.init := by
  refine ⟨⟨fun o => ⟨?_, ?_, ?_, ?_, ?_⟩, ?_, ?_⟩, ?_, ?_⟩
  · intro ids h; cases h
  · intro d h; cases h
  · intro ids h; cases h
  · intro d h; cases h
  · intro ids h; cases h
  · intro o h; cases h
  · intro o h; cases h
  · intro l o h; cases h
  · intro l t o h; cases h

/-! ### add / remove -/

theorem weak_addToLanelets {E : Env} {s s' : St} {o : Id} (hw : WfEnv E) (hb : Base E s)
    (hS : ∀ l x, x ≠ o → x ∈ s.statics → RecShapeS (s.fwd x) l → x ∈ s.sreg l)
    (hD : ∀ l t x, x ≠ o → x ∈ s.dynamics → RecShapeD E (s.fwd x) x t l → memD s.dreg l t x)
    (h : addToLanelets E s o = .ok s') : WeakInv E s' := by
  obtain ⟨e1, e2, e3, hSt, hDy⟩ := addToLanelets_spec E s s' o h
  have hb' : Base E s' := ⟨fun x => by rw [e1]; exact hb.coh x, fun x hx => hb.kindS x (e2 ▸ hx), fun x hx => hb.kindD x (e3 ▸ hx)⟩
  by_cases hk : E.kind o = Kind.static
  · obtain ⟨e4, e5⟩ := hSt hk
    refine ⟨hb', ?_, ?_⟩
    · intro l x hx hr
      rw [e2] at hx; rw [e1] at hr; rw [e5]
      by_cases e : x = o
      · subst e
        exact Or.inr ⟨rfl, ne_nil_of_mem (effShp_sub hw (RecShapeS.mem_eff (hb.coh _) hr)), hr⟩
      · exact Or.inl (hS l x e hx hr)
    · intro l t x hx hr
      rw [e3] at hx; rw [e1] at hr; rw [e4]
      by_cases e : x = o
      · subst e; exact absurd hk (hb.kindD _ hx)
      · exact hD l t x e hx hr
  · obtain ⟨e4, e5⟩ := hDy hk
    refine ⟨hb', ?_, ?_⟩
    · intro l x hx hr
      rw [e2] at hx; rw [e1] at hr; rw [e4]
      by_cases e : x = o
      · subst e; exact absurd (hb.kindS _ hx) hk
      · exact hS l x e hx hr
    · intro l t x hx hr
      rw [e3] at hx; rw [e1] at hr; rw [e5]
      by_cases e : x = o
      · subst e
        refine Or.inr ⟨rfl, ?_, hr⟩
        rintro (h4 | h4)
        · exact RecShapeD.not_set (hb.coh _) hr h4
        · exact ne_nil_of_mem (hw.shp_sub _ _ _ (RecShapeD.sound (hb.coh _) hr).1) h4
      · exact Or.inl (hD l t x e hx hr)

theorem weak_add {E : Env} {s s' : St} {o : Id} (hw : WfEnv E) (hi : WeakInv E s) (h : add E s o = .ok s') :
    WeakInv E s' := by
  unfold add at h
  split at h
  · cases h
  · next hn =>
    have hns : o ∉ s.statics := fun h' => hn (Or.inl h')
    have hnd : o ∉ s.dynamics := fun h' => hn (Or.inr (Or.inl h'))
    split at h
    · next hk =>
      refine weak_addToLanelets (s := { s with statics := s.statics ++ [o] }) hw ⟨hi.base.coh, ?_, hi.base.kindD⟩ ?_ ?_ h
      · intro x hx
        rcases List.mem_append.mp hx with hx | hx
        · exact hi.base.kindS x hx
        · rw [List.mem_singleton.mp hx]; exact hk
      · intro l x e hx hr
        rcases List.mem_append.mp hx with hx | hx
        · exact hi.supS l x hx hr
        · exact absurd (List.mem_singleton.mp hx) e
      · intro l t x _ hx hr; exact hi.supD l t x hx hr
    · next hk =>
      refine weak_addToLanelets (s := { s with dynamics := s.dynamics ++ [o] }) hw ⟨hi.base.coh, hi.base.kindS, ?_⟩ ?_ ?_ h
      · intro x hx
        rcases List.mem_append.mp hx with hx | hx
        · exact hi.base.kindD x hx
        · rw [List.mem_singleton.mp hx]; exact hk
      · intro l x _ hx hr; exact hi.supS l x hx hr
      · intro l t x e hx hr
        rcases List.mem_append.mp hx with hx | hx
        · exact hi.supD l t x hx hr
        · exact absurd (List.mem_singleton.mp hx) e

theorem weak_remove {E : Env} {s s' : St} {o : Id} (hi : WeakInv E s) (h : remove E s o = .ok s') : WeakInv E s' := by
  unfold remove at h
  split at h
  · cases h
    refine ⟨⟨hi.base.coh, fun x hx => hi.base.kindS x (List.mem_filter.mp hx).1, hi.base.kindD⟩, ?_, hi.supD⟩
    intro l x hx hrec
    obtain ⟨h1, h2⟩ := List.mem_filter.mp hx
    show x ∈ removeStaticReg E o (s.fwd o) s.sreg l
    rw [removeStaticReg_spec]
    exact ⟨hi.supS l x h1 hrec, fun h3 => (of_decide_eq_true h2) h3.1⟩
  · split at h
    · split at h
      · cases h
        refine ⟨⟨hi.base.coh, hi.base.kindS, fun x hx => hi.base.kindD x (List.mem_filter.mp hx).1⟩, hi.supS, ?_⟩
        intro l t x hx hrec
        exact hi.supD l t x (List.mem_filter.mp hx).1 hrec
      · cases h
        refine ⟨⟨hi.base.coh, hi.base.kindS, fun x hx => hi.base.kindD x (List.mem_filter.mp hx).1⟩, hi.supS, ?_⟩
        intro l t x hx hrec
        obtain ⟨h1, h2⟩ := List.mem_filter.mp hx
        have hne : x ≠ o := of_decide_eq_true h2
        show memD (unregCenter E o (s.fwd o) (unregShape E o (s.fwd o) s.dreg)) l t x
        rw [(unregCenter_spec E o _ _).2, (unregShape_spec E o _ _).2]
        exact ⟨⟨hi.supD l t x h1 hrec, fun h3 => hne h3.1⟩, fun h3 => hne h3.1⟩
    · cases h; exact hi

/-- `remove_obstacle` never fails (kept under this name for the users of the invariant of ALL histories; since d431666 it
    needs no invariant at all: `remove_total`) -/
theorem remove_total_weak {E : Env} {s : St} (_hw : WfEnv E) (_hi : WeakInv E s) (o : Id) :
    ∃ s', remove E s o = .ok s' := remove_total E s o

/-! ### assignments, `use_center_only` either way -/

theorem assignFwd_true (E : Env) (o : Id) (f : Fwd) (t : T) (lids : List Id) (f3 : Fwd)
    (h : assignFwd E true o f t = .ok (lids, f3)) :
    E.kind o ≠ Kind.dynSet ∧ lids = E.cen o t ∧ f3.initShape = f.initShape ∧ f3.predShape = f.predShape ∧
    f3.initCenter = (if t = E.t0 o then some (E.cen o t) else f.initCenter) ∧
    (E.kind o = Kind.dynTraj → ∃ dc, f.predCenter = some dc ∧ f3.predCenter = some (dictSet dc t (E.cen o t))) ∧
    (E.kind o ≠ Kind.dynTraj → f3.predCenter = f.predCenter) := by
  unfold assignFwd at h
  by_cases hset : E.kind o = Kind.dynSet
  · rw [if_pos hset] at h; cases h
  rw [if_neg hset] at h
  refine ⟨hset, ?_⟩
  by_cases hk : E.kind o = Kind.dynTraj
  · simp only [hk, if_true] at h
    cases hc : f.predCenter with
    | none => simp [hc, bind, Except.bind] at h
    | some dc =>
      simp only [hc, bind, Except.bind, pure, Except.pure, Except.ok.injEq, Prod.mk.injEq] at h
      obtain ⟨rfl, rfl⟩ := h
      refine ⟨rfl, ?_, ?_, ?_, fun _ => ⟨dc, rfl, ?_⟩, fun hne => absurd hk hne⟩ <;> split <;> rfl
  · simp only [hk, if_false, if_true, bind, Except.bind, pure, Except.pure, Except.ok.injEq, Prod.mk.injEq] at h
    obtain ⟨rfl, rfl⟩ := h
    refine ⟨rfl, ?_, ?_, ?_, fun e => absurd e hk, fun _ => ?_⟩ <;> split <;> rfl

/-- a centre-only assignment at an admissible time step keeps the object coherent and its recorded shape relation -/
theorem assign_rec_true {E : Env} {o : Id} {f f3 : Fwd} {t : T} (hc : Coh E f o) (hns : E.kind o ≠ Kind.dynSet)
    (ht : t = E.t0 o ∨ (E.kind o = Kind.dynTraj ∧ E.t0 o ≤ t ∧ t ≤ E.tf o))
    (h1 : f3.initShape = f.initShape) (h2 : f3.predShape = f.predShape)
    (h3 : f3.initCenter = (if t = E.t0 o then some (E.cen o t) else f.initCenter))
    (h4 : E.kind o = Kind.dynTraj → ∃ dc, f.predCenter = some dc ∧ f3.predCenter = some (dictSet dc t (E.cen o t)))
    (h5 : E.kind o ≠ Kind.dynTraj → f3.predCenter = f.predCenter) :
    Coh E f3 o ∧ (∀ l, RecShapeS f3 l ↔ RecShapeS f l) ∧ ∀ t' l, RecShapeD E f3 o t' l ↔ RecShapeD E f o t' l := by
  refine ⟨⟨?_, ?_, ?_, ?_, ?_⟩, ?_, ?_⟩
  · intro ids hi
    rw [h3] at hi
    split at hi
    · next e => cases hi; rw [e, effCen_of_ne _ hns]
    · exact hc.initCenter ids hi
  · intro d hd t' ids hm
    by_cases hk : E.kind o = Kind.dynTraj
    · obtain ⟨dc, e1, e3⟩ := h4 hk
      rw [e3] at hd; cases hd
      rcases mem_dictSet_imp _ _ _ _ _ hm with h | ⟨rfl, rfl⟩
      · exact hc.predCenter dc e1 t' ids h
      · refine ⟨rfl, ?_⟩
        rcases ht with rfl | ⟨_, h6, h7⟩
        · exact ⟨Int.le_refl _, tf_ge E o⟩
        · exact ⟨h6, h7⟩
    · rw [h5 hk] at hd
      exact hc.predCenter d hd t' ids hm
  · intro ids hi; rw [h1] at hi; exact hc.initShape ids hi
  · intro d hd; rw [h2] at hd; exact hc.predShape d hd
  · intro ids hi
    rw [h1] at hi
    rw [h3]
    split
    · rfl
    · exact hc.center ids hi
  · intro l; unfold RecShapeS; rw [h1]
  · intro t' l; unfold RecShapeD; rw [h1, h2]

theorem weak_assignDynAt {E : Env} {co : Bool} {s s' : St} {o : Id} {t : T} (hi : WeakInv E s) (hod : o ∈ s.dynamics)
    (h : assignDynAt E co o s t = .ok s') : WeakInv E s' := by
  unfold assignDynAt at h
  split at h
  · cases h; exact hi
  · next hskip =>
    split at h
    · cases h
    · next hlt =>
      obtain ⟨⟨lids, f3⟩, ha, h⟩ := bind_ok.mp h
      obtain ⟨r, hr, h⟩ := bind_ok.mp h
      cases pure_ok.mp h
      have ht : t = E.t0 o ∨ (E.kind o = Kind.dynTraj ∧ E.t0 o ≤ t ∧ t ≤ E.tf o) := by
        by_cases e : t = E.t0 o
        · exact Or.inl e
        · right
          have h5 : ¬(E.kind o ≠ Kind.dynTraj ∨ E.tf o < t) := fun h6 => hskip ⟨e, h6⟩
          exact ⟨Classical.not_not.mp (fun h6 => h5 (Or.inl h6)), Int.not_lt.mp hlt, Int.not_lt.mp (fun h6 => h5 (Or.inr h6))⟩
      obtain ⟨_, hreg⟩ := regDyn_spec E o t _ _ _ hr
      have hns : o ∉ s.statics := fun h6 => hi.base.kindD o hod (hi.base.kindS o h6)
      -- the new attributes of `o`: coherent, and every recorded triple is registered now
      have key : Coh E f3 o ∧ ∀ t' l, RecShapeD E f3 o t' l → RecShapeD E (s.fwd o) o t' l ∨ (t' = t ∧ l ∈ lids) := by
        cases co with
        | false =>
          obtain ⟨ens, e0, e1, e2, e3, e4⟩ := assignFwd_false E o _ t lids f3 ha
          subst e0
          obtain ⟨c1, _, c3⟩ := assign_rec (hi.base.coh o) ens ht e1 e2 e3 e4
          exact ⟨c1, fun t' l hrec => (c3 t' l).mp hrec⟩
        | true =>
          obtain ⟨ens, _, e1, e2, e3, e4, e5⟩ := assignFwd_true E o _ t lids f3 ha
          obtain ⟨c1, _, c3⟩ := assign_rec_true (hi.base.coh o) ens ht e1 e2 e3 e4 e5
          exact ⟨c1, fun t' l hrec => Or.inl ((c3 t' l).mp hrec)⟩
      refine ⟨⟨?_, hi.base.kindS, hi.base.kindD⟩, ?_, ?_⟩
      · intro x
        show Coh E ((s.setFwd o f3).fwd x) x
        rw [setFwd_fwd]
        split
        · next e => rw [e]; exact key.1
        · exact hi.base.coh x
      · intro l x hx hrec
        have hne : x ≠ o := fun e => hns (e ▸ hx)
        have : (s.setFwd o f3).fwd x = s.fwd x := by rw [setFwd_fwd, if_neg hne]
        exact hi.supS l x hx (this ▸ hrec)
      · intro l t' x hx hrec
        show memD r l t' x
        rw [hreg]
        by_cases e : x = o
        · subst e
          have hrec' : RecShapeD E f3 x t' l := by
            have : (s.setFwd x f3).fwd x = f3 := by rw [setFwd_fwd, if_pos rfl]
            exact this ▸ hrec
          rcases key.2 t' l hrec' with h6 | ⟨h6, h7⟩
          · exact Or.inl (hi.supD l t' x hod h6)
          · exact Or.inr ⟨rfl, h6, h7⟩
        · have : (s.setFwd o f3).fwd x = s.fwd x := by rw [setFwd_fwd, if_neg e]
          exact Or.inl (hi.supD l t' x hx (this ▸ hrec))

theorem weak_assignStatic {E : Env} {co : Bool} {s s' : St} {o : Id} (hi : WeakInv E s) (hos : o ∈ s.statics)
    (h : assignStatic E co o s = .ok s') : WeakInv E s' := by
  unfold assignStatic at h
  obtain ⟨r, hr, h⟩ := bind_ok.mp h
  cases pure_ok.mp h
  obtain ⟨_, hreg⟩ := regStatic_spec E o _ _ _ hr
  have hnd : o ∉ s.dynamics := fun h6 => hi.base.kindD o h6 (hi.base.kindS o hos)
  have hkn : E.kind o ≠ Kind.dynSet := by rw [hi.base.kindS o hos]; intro h; cases h
  refine ⟨⟨?_, hi.base.kindS, hi.base.kindD⟩, ?_, ?_⟩
  · intro x
    simp only [setFwd_fwd]
    split
    · next e =>
      subst e
      cases co with
      | false => exact coh_mk hkn _ _ (hi.base.coh x).predCenter (hi.base.coh x).predShape
      | true =>
        refine ⟨?_, (hi.base.coh x).predCenter, (hi.base.coh x).initShape, (hi.base.coh x).predShape, ?_⟩
        · intro ids hids; cases hids; exact (effCen_of_ne _ hkn).symm
        · intro ids _; rfl
    · exact hi.base.coh x
  · intro l x hx hrec
    simp only [setFwd_fwd] at hrec
    show x ∈ r l
    rw [hreg]
    by_cases e : x = o
    · subst e
      rw [if_pos rfl] at hrec
      cases co with
      | false =>
        obtain ⟨ids, h1, h2⟩ := hrec
        cases h1
        exact Or.inr ⟨rfl, h2⟩
      | true => exact Or.inl (hi.supS l x hos hrec)
    · rw [if_neg e] at hrec
      exact Or.inl (hi.supS l x hx hrec)
  · intro l t x hx hrec
    have hne : x ≠ o := fun e => hnd (e ▸ hx)
    simp only [setFwd_fwd, if_neg hne] at hrec
    exact hi.supD l t x hx hrec

theorem weak_initDicts {E : Env} {s : St} {o : Id} (co : Bool) (hi : WeakInv E s) :
    WeakInv E (s.setFwd o (initDicts co (s.fwd o))) := by
  have hrec : ∀ t l, RecShapeD E (initDicts co (s.fwd o)) o t l → RecShapeD E (s.fwd o) o t l := by
    intro t l
    unfold RecShapeD initDicts
    cases hp : (s.fwd o).predShape with
    | none => cases co <;> simp [itemsMem]
    | some d => simp
  refine ⟨⟨?_, hi.base.kindS, hi.base.kindD⟩, ?_, ?_⟩
  · intro x
    simp only [setFwd_fwd]
    split
    · next e => subst e; exact coh_initDicts co (hi.base.coh x)
    · exact hi.base.coh x
  · intro l x hx hr
    simp only [setFwd_fwd] at hr
    by_cases e : x = o
    · subst e
      rw [if_pos rfl] at hr
      exact hi.supS l x hx (by simpa [RecShapeS, initDicts] using hr)
    · rw [if_neg e] at hr; exact hi.supS l x hx hr
  · intro l t x hx hr
    simp only [setFwd_fwd] at hr
    by_cases e : x = o
    · subst e
      rw [if_pos rfl] at hr
      exact hi.supD l t x hx (hrec t l hr)
    · rw [if_neg e] at hr; exact hi.supD l t x hx hr

theorem weak_assignObs {E : Env} {ts : Option (List T)} {co : Bool} {s s' : St} {o : Id} (hi : WeakInv E s)
    (h : assignObs E ts co s o = .ok s') : WeakInv E s' := by
  have hl := assignObs_lists h
  unfold assignObs at h
  split at h
  · next hod =>
    split at h
    · cases h
    · have key : ∀ (s1 : St), WeakInv E s1 → s1.dynamics = s.dynamics →
          ∀ (steps : List T), steps.foldlM (assignDynAt E co o) s1 = .ok s' → WeakInv E s' := by
        intro s1 h1 h3 steps hf
        have := foldlM_inv (assignDynAt E co o) (fun x => WeakInv E x ∧ x.dynamics = s.dynamics) ?_ steps s1 s' ⟨h1, h3⟩ hf
        · exact this.1
        · rintro x t x' ⟨q1, q3⟩ hx
          exact ⟨weak_assignDynAt q1 (q3 ▸ hod) hx, (assignDynAt_lists hx).2.trans q3⟩
      refine key _ ?_ ?_ _ h
      · split
        · exact weak_initDicts co hi
        · exact hi
      · split <;> rfl
  · split at h
    · next hos => exact weak_assignStatic hi hos h
    · cases h

theorem weak_assign {E : Env} {ids : Option (List Id)} {ts : Option (List T)} {co : Bool} {s s' : St}
    (hi : WeakInv E s) (h : assign E ids ts co s = .ok s') : WeakInv E s' := by
  unfold assign at h
  exact foldlM_inv (assignObs E ts co) (fun x => WeakInv E x) (fun x a x' hx hf => weak_assignObs hx hf) _ s s' hi h

/-! ### totality: any admissible assignment, both readers -/

/-- the prediction dicts the loop writes into exist -/
def DictsReady' (E : Env) (co : Bool) (f : Fwd) (o : Id) : Prop :=
  E.kind o = Kind.dynTraj → f.predCenter.isSome ∧ (co = false → f.predShape.isSome)

theorem assignFwd_ok' {E : Env} {co : Bool} {o : Id} {f : Fwd} (t : T) (hset : E.kind o ≠ Kind.dynSet)
    (h : DictsReady' E co f o) :
    ∃ lids f3, assignFwd E co o f t = .ok (lids, f3) ∧ lids = (if co then E.cen o t else E.shp o t) ∧
      DictsReady' E co f3 o := by
  cases co with
  | false =>
    obtain ⟨lids, f3, ha⟩ := assignFwd_ok (f := f) t hset (fun hk => ⟨(h hk).1, (h hk).2 rfl⟩)
    obtain ⟨_, e0, _, _, e3, _⟩ := assignFwd_false E o _ t lids f3 ha
    refine ⟨lids, f3, ha, e0, fun hk => ?_⟩
    obtain ⟨dc, ds, _, _, g3, g4⟩ := e3 hk
    rw [g3, g4]; exact ⟨rfl, fun _ => rfl⟩
  | true =>
    unfold assignFwd
    rw [if_neg hset]
    by_cases hk : E.kind o = Kind.dynTraj
    · obtain ⟨dc, hdc⟩ := Option.isSome_iff_exists.mp (h hk).1
      simp only [hk, if_true, hdc, bind, Except.bind, pure, Except.pure]
      refine ⟨_, _, rfl, rfl, fun _ => ⟨?_, fun hco => by cases hco⟩⟩
      split <;> rfl
    · simp only [hk, if_false, if_true, bind, Except.bind, pure, Except.pure]
      exact ⟨_, _, rfl, rfl, fun hk' => absurd hk' hk⟩

theorem assignDynAt_total' {E : Env} {co : Bool} {s : St} {o : Id} {t : T} (hw : WfEnv E)
    (hset : E.kind o ≠ Kind.dynSet) (hr : DictsReady' E co (s.fwd o) o) (ht : E.kind o = Kind.dynTraj → E.t0 o ≤ t) :
    ∃ s', assignDynAt E co o s t = .ok s' ∧ DictsReady' E co (s'.fwd o) o := by
  unfold assignDynAt
  split
  · exact ⟨s, rfl, hr⟩
  · next hskip =>
    have hge : E.t0 o ≤ t := by
      by_cases hk : E.kind o = Kind.dynTraj
      · exact ht hk
      · by_cases e : t = E.t0 o
        · rw [e]; exact Int.le_refl _
        · exact absurd ⟨e, Or.inl hk⟩ hskip
    rw [if_neg (Int.not_lt.mpr hge)]
    obtain ⟨lids, f3, ha, e0, hr3⟩ := assignFwd_ok' (co := co) t hset hr
    have hsub : ∀ l ∈ lids, l ∈ E.lanelets := by
      intro l hl
      rw [e0] at hl
      split at hl
      · exact hw.cen_sub o t l hl
      · exact hw.shp_sub o t l hl
    obtain ⟨r, hreg⟩ := regDyn_ok E o t lids s.dreg hsub
    refine ⟨{ s.setFwd o f3 with dreg := r }, ?_, ?_⟩
    · rw [ha]; simp only [bind, Except.bind]; rw [hreg]; rfl
    · show DictsReady' E co ((s.setFwd o f3).fwd o) o
      rw [setFwd_fwd, if_pos rfl]; exact hr3

/-- `assign_obstacles_to_lanelets(time_steps=…, use_center_only=…)` on one obstacle of the scenario never fails when the
    obstacle has no set-based prediction and no requested time step lies before the initial one of a trajectory prediction -/
theorem assignObs_total' {E : Env} {ts : Option (List T)} {co : Bool} {s : St} {o : Id} (hw : WfEnv E)
    (hin : o ∈ s.statics ∨ o ∈ s.dynamics) (hset : o ∈ s.dynamics → E.kind o ≠ Kind.dynSet)
    (hts : ∀ l, ts = some l → ∀ t ∈ l, E.kind o = Kind.dynTraj → E.t0 o ≤ t) :
    ∃ s', assignObs E ts co s o = .ok s' := by
  unfold assignObs
  split
  · next hod =>
    rw [if_neg (hset hod)]
    have hsteps : ∀ a ∈ (match ts with
        | some l => l
        | none => if E.kind o = Kind.dynTraj then trange (E.t0 o) (E.len o) else [E.t0 o]),
        E.kind o = Kind.dynTraj → E.t0 o ≤ a := by
      intro a ha hk
      cases ts with
      | some l => exact hts l rfl a ha hk
      | none =>
        simp only [hk, if_true] at ha
        exact (mem_trange.mp ha).1
    have hready : DictsReady' E co ((if E.kind o = Kind.dynTraj then s.setFwd o (initDicts co (s.fwd o)) else s).fwd o) o := by
      intro hk
      rw [if_pos hk, setFwd_fwd, if_pos rfl]
      unfold initDicts
      constructor
      · show (if (s.fwd o).predCenter.isNone then some [] else (s.fwd o).predCenter).isSome
        cases (s.fwd o).predCenter <;> rfl
      · intro hco; subst hco
        show (if (!false && (s.fwd o).predShape.isNone) then some [] else (s.fwd o).predShape).isSome
        cases (s.fwd o).predShape <;> rfl
    obtain ⟨s', h1, _⟩ := foldlM_total (assignDynAt E co o) (fun x => DictsReady' E co (x.fwd o) o)
      (fun a => E.kind o = Kind.dynTraj → E.t0 o ≤ a)
      (fun x a hq ha => assignDynAt_total' hw (hset hod) hq ha) _ _ hready hsteps
    exact ⟨s', h1⟩
  · next hnd =>
    have hos : o ∈ s.statics := by
      rcases hin with h | h
      · exact h
      · exact absurd h hnd
    rw [if_pos hos]
    unfold assignStatic
    have : ∀ l ∈ (if co = true then E.cen o (E.t0 o) else E.shp o (E.t0 o)), l ∈ E.lanelets := by
      intro l hl
      split at hl
      · exact hw.cen_sub o _ l hl
      · exact hw.shp_sub o _ l hl
    obtain ⟨r, hr⟩ := regStatic_ok E o _ s.sreg this
    exact ⟨_, by simp only [bind, Except.bind]; rw [hr]; rfl⟩

theorem assign_total' {E : Env} (hw : WfEnv E) (ids : Option (List Id)) (ts : Option (List T)) (co : Bool) (s : St)
    (hids : ∀ o ∈ ids.getD (s.statics ++ s.dynamics), (o ∈ s.statics ∨ o ∈ s.dynamics) ∧
      (o ∈ s.dynamics → E.kind o ≠ Kind.dynSet) ∧
      (∀ l, ts = some l → ∀ t ∈ l, E.kind o = Kind.dynTraj → E.t0 o ≤ t)) :
    ∃ s', assign E ids ts co s = .ok s' := by
  unfold assign
  obtain ⟨s', h, _⟩ := foldlM_total (assignObs E ts co)
    (fun x => x.statics = s.statics ∧ x.dynamics = s.dynamics)
    (fun a => (a ∈ s.statics ∨ a ∈ s.dynamics) ∧ (a ∈ s.dynamics → E.kind a ≠ Kind.dynSet) ∧
      (∀ l, ts = some l → ∀ t ∈ l, E.kind a = Kind.dynTraj → E.t0 a ≤ t))
    (by
      rintro x a ⟨q2, q3⟩ ⟨ha1, ha2, ha3⟩
      obtain ⟨x', hx⟩ := assignObs_total' (s := x) (ts := ts) (co := co) hw (by rw [q2, q3]; exact ha1)
        (fun hd => ha2 (q3 ▸ hd)) ha3
      obtain ⟨p2, p3⟩ := assignObs_lists hx
      exact ⟨x', hx, p2.trans q2, p3.trans q3⟩)
    (ids.getD (s.statics ++ s.dynamics)) s ⟨rfl, rfl⟩ hids
  exact ⟨s', h⟩

theorem readObs_total {E : Env} (hw : WfEnv E) (s : St) (o : Id) : ∃ s', readObs E s o = .ok s' := by
  unfold readObs
  split
  · unfold readStatic
    obtain ⟨r, hr⟩ := regStatic_ok E o (E.shp o (E.t0 o)) s.sreg (fun l hl => hw.shp_sub o _ l hl)
    exact ⟨_, by simp only [bind, Except.bind]; rw [hr]; rfl⟩
  · unfold readDynamic
    split
    · exact ⟨_, rfl⟩
    · obtain ⟨r1, hr1⟩ := regDyn_ok E o (E.t0 o) (E.shp o (E.t0 o)) s.dreg (fun l hl => hw.shp_sub o _ l hl)
      simp only [bind, Except.bind, hr1]
      split
      · obtain ⟨r2, hr2⟩ := regItems_ok E o ((trange (E.t0 o) (E.len o)).map (fun t => (t, E.shp o t))) r1 (by
          intro t ids hm l hl
          obtain ⟨a, _, e1⟩ := List.mem_map.mp hm
          cases e1
          exact hw.shp_sub o t l hl)
        rw [hr2]; exact ⟨_, rfl⟩
      · exact ⟨_, rfl⟩

/-- reading a file with lanelet assignment never fails, whatever the scenario holds -/
theorem reopenXml_total {E : Env} (hw : WfEnv E) {s : St} (hb : Base E s) : ∃ s', reopenXml E s = .ok s' := by
  unfold reopenXml
  obtain ⟨s1, h1, ⟨P, q1⟩, q2, q3⟩ := foldlM_total (readObs E)
    (fun x => (∃ P, InvOn P E x) ∧ x.statics = s.statics ∧ x.dynamics = s.dynamics)
    (fun a => a ∈ s.statics ∨ a ∈ s.dynamics)
    (by
      rintro x a ⟨⟨P, q1⟩, q2, q3⟩ ha
      obtain ⟨x', hx⟩ := readObs_total hw x a
      obtain ⟨r1, r2, r3⟩ := invOn_readObs q1 (by rw [q2, q3]; exact ha) hx
      exact ⟨x', hx, ⟨_, r1⟩, r2.trans q2, r3.trans q3⟩)
    (s.statics ++ s.dynamics) s.clearReg ⟨⟨_, invOn_clearReg hb⟩, rfl, rfl⟩ (fun a ha => List.mem_append.mp ha)
  obtain ⟨s2, h2, _⟩ := foldlM_total (addToLanelets E)
    (fun x => (∃ P, InvOn P E x) ∧ x.statics = s.statics ∧ x.dynamics = s.dynamics)
    (fun a => a ∈ s.statics ∨ a ∈ s.dynamics)
    (by
      rintro x a ⟨⟨P, q1⟩, q2, q3⟩ ha
      obtain ⟨x', hx⟩ := addToLanelets_total (s := x) (o := a) hw (q1.coh a)
      have r1 := invOn_addToLanelets hw q1 (by rw [q2, q3]; exact ha) hx
      obtain ⟨_, e2, e3, _⟩ := addToLanelets_spec E x x' a hx
      exact ⟨x', hx, ⟨_, r1⟩, e2.trans q2, e3.trans q3⟩)
    (s.statics ++ s.dynamics) s1 ⟨⟨P, q1⟩, q2, q3⟩ (fun a ha => List.mem_append.mp ha)
  exact ⟨s2, by rw [h1]; exact h2⟩

theorem reopenPb_total {E : Env} (hw : WfEnv E) {s : St} (hb : Base E s) : ∃ s', reopenPb E s = .ok s' := by
  unfold reopenPb
  obtain ⟨s1, h1, _⟩ := foldlM_total (fun s o => do let s' ← readObs E s o; addToLanelets E s' o)
    (fun x => (∃ P, InvOn P E x) ∧ x.statics = s.statics ∧ x.dynamics = s.dynamics)
    (fun a => a ∈ s.statics ∨ a ∈ s.dynamics)
    (by
      rintro x a ⟨⟨P, q1⟩, q2, q3⟩ ha
      obtain ⟨x1, hx1⟩ := readObs_total hw x a
      obtain ⟨r1, r2, r3⟩ := invOn_readObs q1 (by rw [q2, q3]; exact ha) hx1
      obtain ⟨x', hx⟩ := addToLanelets_total (s := x1) (o := a) hw (r1.coh a)
      have r4 := invOn_addToLanelets hw r1 (by rw [r2, r3, q2, q3]; exact ha) hx
      obtain ⟨_, e2, e3, _⟩ := addToLanelets_spec E x1 x' a hx
      refine ⟨x', ?_, ⟨_, r4⟩, e2.trans (r2.trans q2), e3.trans (r3.trans q3)⟩
      simp only [bind, Except.bind, hx1]; exact hx)
    (s.statics ++ s.dynamics) s.clearReg ⟨⟨_, invOn_clearReg hb⟩, rfl, rfl⟩ (fun a ha => List.mem_append.mp ha)
  exact ⟨s1, h1⟩

/-! ### the registries are sets: no obstacle id is listed twice -/

def SN (r : SReg) : Prop := ∀ l, (r l).Nodup
def DN (r : DReg) : Prop := ∀ l t st, r l t = some st → st.Nodup

/-- every `static_obstacles_on_lanelet` and every `dynamic_obstacles_on_lanelet[t]` is duplicate free -/
def RegNodup (s : St) : Prop := SN s.sreg ∧ DN s.dreg

theorem sn_sAdd {r : SReg} (l o : Id) (h : SN r) : SN (sAdd r l o) := by
  intro l'
  unfold sAdd
  split
  · exact nodup_setAdd (h l')
  · exact h l'

theorem sn_sDel {r : SReg} (l o : Id) (h : SN r) : SN (sDel r l o) := by
  intro l'
  unfold sDel
  split
  · exact (h l').filter _
  · exact h l'

theorem dn_dAdd {r : DReg} (l : Id) (t : T) (o : Id) (h : DN r) : DN (dAdd r l t o) := by
  intro l' t' st hst
  unfold dAdd at hst
  split at hst
  · cases hst
    apply nodup_setAdd
    cases hr : r l' t' with
    | none => exact List.nodup_nil
    | some st' => exact h l' t' st' hr
  · exact h l' t' st hst

theorem dn_dDel {r : DReg} (l : Id) (t : T) (o : Id) (h : DN r) : DN (dDel r l t o) := by
  intro l' t' st hst
  unfold dDel at hst
  split at hst
  · cases hr : r l' t' with
    | none => rw [hr] at hst; cases hst
    | some st' => rw [hr] at hst; cases hst; exact (h l' t' st' hr).filter _
  · exact h l' t' st hst

theorem sn_regStatic (E : Env) (o : Id) : ∀ (ids : List Id) (r r' : SReg), SN r → regStatic E o ids r = .ok r' → SN r' := by
  intro ids
  induction ids with
  | nil => intro r r' h e; cases e; exact h
  | cons a as ih =>
    intro r r' h e
    simp only [regStatic] at e
    split at e
    · exact ih _ _ (sn_sAdd a o h) e
    · cases e

theorem sn_unregStatic (E : Env) (o : Id) : ∀ (ids : List Id) (r r' : SReg), SN r → unregStatic E o ids r = .ok r' → SN r' := by
  intro ids
  induction ids with
  | nil => intro r r' h e; cases e; exact h
  | cons a as ih =>
    intro r r' h e
    simp only [unregStatic] at e
    split at e
    · split at e
      · exact ih _ _ (sn_sDel a o h) e
      · cases e
    · cases e

theorem dn_regDyn (E : Env) (o : Id) (t : T) : ∀ (ids : List Id) (r r' : DReg), DN r → regDyn E o t ids r = .ok r' → DN r' := by
  intro ids
  induction ids with
  | nil => intro r r' h e; cases e; exact h
  | cons a as ih =>
    intro r r' h e
    simp only [regDyn] at e
    split at e
    · exact ih _ _ (dn_dAdd a t o h) e
    · cases e

theorem dn_unregDyn (E : Env) (o : Id) (t : T) : ∀ (ids : List Id) (r r' : DReg), DN r → unregDyn E o t ids r = .ok r' → DN r' := by
  intro ids
  induction ids with
  | nil => intro r r' h e; cases e; exact h
  | cons a as ih =>
    intro r r' h e
    simp only [unregDyn] at e
    split at e
    · split at e
      · exact ih _ _ (dn_dDel a t o h) e
      · cases e
    · cases e

theorem dn_regItems (E : Env) (o : Id) : ∀ (d : Dict) (r r' : DReg), DN r → regItems E o d r = .ok r' → DN r' := by
  intro d
  induction d with
  | nil => intro r r' h e; cases e; exact h
  | cons a as ih =>
    obtain ⟨t, ids⟩ := a
    intro r r' h e
    simp only [regItems] at e
    obtain ⟨r1, h1, h2⟩ := bind_ok.mp e
    exact ih _ _ (dn_regDyn E o t ids _ _ h h1) h2

theorem dn_unregItems (E : Env) (o : Id) : ∀ (d : Dict) (r r' : DReg), DN r → unregItems E o d r = .ok r' → DN r' := by
  intro d
  induction d with
  | nil => intro r r' h e; cases e; exact h
  | cons a as ih =>
    obtain ⟨t, ids⟩ := a
    intro r r' h e
    simp only [unregItems] at e
    obtain ⟨r1, h1, h2⟩ := bind_ok.mp e
    exact ih _ _ (dn_unregDyn E o t ids _ _ h h1) h2

theorem sn_discardStatic (E : Env) (o : Id) : ∀ (ids : List Id) (r : SReg), SN r → SN (discardStatic E o ids r) := by
  intro ids
  induction ids with
  | nil => intro r h; exact h
  | cons a as ih =>
    intro r h
    simp only [discardStatic]
    apply ih
    split
    · exact sn_sDel a o h
    · exact h

theorem dn_discardDyn (E : Env) (o : Id) (t : T) : ∀ (ids : List Id) (r : DReg), DN r → DN (discardDyn E o t ids r) := by
  intro ids
  induction ids with
  | nil => intro r h; exact h
  | cons a as ih =>
    intro r h
    simp only [discardDyn]
    apply ih
    split
    · exact dn_dDel a t o h
    · exact h

theorem dn_discardItems (E : Env) (o : Id) : ∀ (d : Dict) (r : DReg), DN r → DN (discardItems E o d r) := by
  intro d
  induction d with
  | nil => intro r h; exact h
  | cons a as ih =>
    obtain ⟨t, ids⟩ := a
    intro r h
    simp only [discardItems]
    exact ih _ (dn_discardDyn E o t ids r h)

theorem nodup_addToLanelets {E : Env} {s s' : St} {o : Id} (hn : RegNodup s) (h : addToLanelets E s o = .ok s') :
    RegNodup s' := by
  unfold addToLanelets at h
  split at h
  · obtain ⟨r, hr, h⟩ := bind_ok.mp h
    cases pure_ok.mp h
    refine ⟨?_, hn.2⟩
    unfold addStaticReg at hr
    split at hr
    · cases hr; exact hn.1
    · split at hr
      · cases hr; exact hn.1
      · exact sn_regStatic E o _ _ _ hn.1 hr
  · split at h
    · cases h; exact hn
    · obtain ⟨r1, hr1, h⟩ := bind_ok.mp h
      obtain ⟨r2, hr2, h⟩ := bind_ok.mp h
      cases pure_ok.mp h
      refine ⟨hn.1, ?_⟩
      have h1 : DN r1 := by
        unfold regInit at hr1
        split at hr1
        · cases hr1; exact hn.2
        · exact dn_regDyn E o _ _ _ _ hn.2 hr1
      unfold regPred at hr2
      split at hr2
      · split at hr2
        · cases hr2; exact h1
        · exact dn_regItems E o _ _ _ h1 hr2
      · cases hr2; exact h1

theorem nodup_add {E : Env} {s s' : St} {o : Id} (hn : RegNodup s) (h : add E s o = .ok s') : RegNodup s' := by
  unfold add at h
  split at h
  · cases h
  · split at h
    · exact nodup_addToLanelets (s := { s with statics := s.statics ++ [o] }) hn h
    · exact nodup_addToLanelets (s := { s with dynamics := s.dynamics ++ [o] }) hn h

theorem nodup_remove {E : Env} {s s' : St} {o : Id} (hn : RegNodup s) (h : remove E s o = .ok s') : RegNodup s' := by
  unfold remove at h
  split at h
  · cases h
    exact ⟨sn_discardStatic E o _ _ hn.1, hn.2⟩
  · split at h
    · split at h
      · cases h; exact hn
      · cases h
        refine ⟨hn.1, ?_⟩
        apply dn_discardItems
        show DN (unregShape E o (s.fwd o) s.dreg)
        unfold unregShape
        split
        · exact dn_discardItems E o _ _ (dn_discardDyn E o _ _ _ hn.2)
        · exact dn_discardDyn E o _ _ _ hn.2
    · cases h; exact hn

theorem nodup_assignDynAt {E : Env} {co : Bool} {s s' : St} {o : Id} {t : T} (hn : RegNodup s)
    (h : assignDynAt E co o s t = .ok s') : RegNodup s' := by
  unfold assignDynAt at h
  split at h
  · cases h; exact hn
  · split at h
    · cases h
    · obtain ⟨⟨lids, f3⟩, _, h⟩ := bind_ok.mp h
      obtain ⟨r, hr, h⟩ := bind_ok.mp h
      cases pure_ok.mp h
      exact ⟨hn.1, dn_regDyn E o t _ _ _ hn.2 hr⟩

theorem nodup_assignObs {E : Env} {ts : Option (List T)} {co : Bool} {s s' : St} {o : Id} (hn : RegNodup s)
    (h : assignObs E ts co s o = .ok s') : RegNodup s' := by
  unfold assignObs at h
  split at h
  · split at h
    · cases h
    · refine foldlM_inv (assignDynAt E co o) RegNodup (fun x a x' hx hf => nodup_assignDynAt hx hf) _ _ s' ?_ h
      split
      · exact hn
      · exact hn
  · split at h
    · unfold assignStatic at h
      obtain ⟨r, hr, h⟩ := bind_ok.mp h
      cases pure_ok.mp h
      exact ⟨sn_regStatic E o _ _ _ hn.1 hr, hn.2⟩
    · cases h

theorem nodup_assign {E : Env} {ids : Option (List Id)} {ts : Option (List T)} {co : Bool} {s s' : St}
    (hn : RegNodup s) (h : assign E ids ts co s = .ok s') : RegNodup s' := by
  unfold assign at h
  exact foldlM_inv (assignObs E ts co) RegNodup (fun x a x' hx hf => nodup_assignObs hx hf) _ s s' hn h

theorem nodup_readObs {E : Env} {s s' : St} {o : Id} (hn : RegNodup s) (h : readObs E s o = .ok s') : RegNodup s' := by
  unfold readObs at h
  split at h
  · unfold readStatic at h
    obtain ⟨r, hr, h⟩ := bind_ok.mp h
    cases pure_ok.mp h
    exact ⟨sn_regStatic E o _ _ _ hn.1 hr, hn.2⟩
  · unfold readDynamic at h
    split at h
    · cases h; exact hn
    · obtain ⟨r1, hr1, h⟩ := bind_ok.mp h
      have h1 := dn_regDyn E o _ _ _ _ hn.2 hr1
      split at h
      · obtain ⟨r2, hr2, h⟩ := bind_ok.mp h
        cases pure_ok.mp h
        exact ⟨hn.1, dn_regItems E o _ _ _ h1 hr2⟩
      · cases pure_ok.mp h
        exact ⟨hn.1, h1⟩

theorem nodup_clearReg (s : St) : RegNodup s.clearReg :=
  ⟨fun _ => List.nodup_nil, fun _ _ st h => by cases h⟩

theorem nodup_reopenXml {E : Env} {s s' : St} (h : reopenXml E s = .ok s') : RegNodup s' := by
  unfold reopenXml at h
  obtain ⟨s1, h1, h2⟩ := bind_ok.mp h
  have n1 := foldlM_inv (readObs E) RegNodup (fun x a x' hx hf => nodup_readObs hx hf) _ _ s1 (nodup_clearReg s) h1
  exact foldlM_inv (addToLanelets E) RegNodup (fun x a x' hx hf => nodup_addToLanelets hx hf) _ s1 s' n1 h2

theorem nodup_reopenPb {E : Env} {s s' : St} (h : reopenPb E s = .ok s') : RegNodup s' := by
  unfold reopenPb at h
  refine foldlM_inv (fun s o => do let s' ← readObs E s o; addToLanelets E s' o) RegNodup ?_ _ _ s' (nodup_clearReg s) h
  intro x a x' hx hf
  obtain ⟨x1, hx1, hx2⟩ := bind_ok.mp hf
  exact nodup_addToLanelets (nodup_readObs hx hx1) hx2

/-! ### the other inclusion, for ALL histories: whatever a lanelet lists is an obstacle of the scenario whose recorded shape set
    or recorded centre set holds the lanelet — hence a removed obstacle is listed nowhere -/

structure SubInv (E : Env) (s : St) : Prop where
  subS : ∀ l o, o ∈ s.sreg l → o ∈ s.statics ∧ (RecShapeS (s.fwd o) l ∨ RecCenS (s.fwd o) l)
  subD : ∀ l t o, memD s.dreg l t o → o ∈ s.dynamics ∧ (RecShapeD E (s.fwd o) o t l ∨ RecCenD E (s.fwd o) o t l)

theorem sub_of_inv {E : Env} {s : St} (hi : Inv E s) : SubInv E s :=
  ⟨fun l o h => ⟨((hi.invS l o).mp h).2.1, Or.inl ((hi.invS l o).mp h).2.2⟩,
   fun l t o h => ⟨((hi.invD l t o).mp h).2.1, Or.inl ((hi.invD l t o).mp h).2.2⟩⟩

theorem sub_init (E : Env) : SubInv E St.init := by
  refine ⟨?_, ?_⟩
  · intro l o h; cases h
  · intro l t o h
    obtain ⟨st, h1, _⟩ := h
    cases h1

theorem effCen_sub {E : Env} (hw : WfEnv E) {o l : Id} {t : T} (h : l ∈ effCen E o t) : l ∈ E.lanelets := by
  unfold effCen at h
  split at h
  · cases h
  · exact hw.cen_sub o t l h

theorem RecCenS.mem_eff {E : Env} {f : Fwd} {o l : Id} (hc : Coh E f o) (h : RecCenS f l) : l ∈ effCen E o (E.t0 o) := by
  obtain ⟨ids, h1, h2⟩ := h
  rw [← hc.initCenter ids h1]; exact h2

/-- a recorded centre pair is a lookup answer; there is none for a set-based prediction -/
theorem RecCenD.sound {E : Env} {f : Fwd} {o l : Id} {t : T} (hc : Coh E f o) (h : RecCenD E f o t l) :
    l ∈ E.cen o t ∧ E.kind o ≠ Kind.dynSet := by
  rcases h with ⟨rfl, ids, h1, h2⟩ | ⟨hk, d, h1, ids, h2, h3⟩
  · rw [hc.initCenter ids h1] at h2
    unfold effCen at h2
    split at h2
    · cases h2
    · next hns => exact ⟨h2, hns⟩
  · rw [(hc.predCenter d h1 t ids h2).1] at h3
    exact ⟨h3, by rw [hk]; intro h; cases h⟩

theorem sub_addToLanelets {E : Env} {s s' : St} {o : Id} (hi : SubInv E s) (hin : o ∈ s.statics ∨ o ∈ s.dynamics)
    (hb : Base E s) (h : addToLanelets E s o = .ok s') : SubInv E s' := by
  obtain ⟨e1, e2, e3, hSt, hDy⟩ := addToLanelets_spec E s s' o h
  by_cases hk : E.kind o = Kind.static
  · obtain ⟨e4, e5⟩ := hSt hk
    have hos : o ∈ s.statics := by
      rcases hin with h' | h'
      · exact h'
      · exact absurd hk (hb.kindD o h')
    refine ⟨?_, ?_⟩
    · intro l x hx
      rw [e5] at hx; rw [e1, e2]
      rcases hx with hx | ⟨rfl, _, hr⟩
      · exact hi.subS l x hx
      · exact ⟨hos, Or.inl hr⟩
    · intro l t x hx
      rw [e4] at hx; rw [e1, e3]; exact hi.subD l t x hx
  · obtain ⟨e4, e5⟩ := hDy hk
    have hod : o ∈ s.dynamics := by
      rcases hin with h' | h'
      · exact absurd (hb.kindS o h') hk
      · exact h'
    refine ⟨?_, ?_⟩
    · intro l x hx
      rw [e4] at hx; rw [e1, e2]; exact hi.subS l x hx
    · intro l t x hx
      rw [e5] at hx; rw [e1, e3]
      rcases hx with hx | ⟨rfl, _, hr⟩
      · exact hi.subD l t x hx
      · exact ⟨hod, Or.inl hr⟩

theorem sub_add {E : Env} {s s' : St} {o : Id} (hi : SubInv E s) (hb : Base E s) (h : add E s o = .ok s') :
    SubInv E s' := by
  unfold add at h
  split at h
  · cases h
  · split at h
    · next hk =>
      refine sub_addToLanelets (s := { s with statics := s.statics ++ [o] }) ?_
        (Or.inl (List.mem_append.mpr (Or.inr (List.mem_singleton.mpr rfl)))) ⟨hb.coh, ?_, hb.kindD⟩ h
      · exact ⟨fun l x hx => ⟨List.mem_append.mpr (Or.inl (hi.subS l x hx).1), (hi.subS l x hx).2⟩, hi.subD⟩
      · intro x hx
        rcases List.mem_append.mp hx with hx | hx
        · exact hb.kindS x hx
        · rw [List.mem_singleton.mp hx]; exact hk
    · next hk =>
      refine sub_addToLanelets (s := { s with dynamics := s.dynamics ++ [o] }) ?_
        (Or.inr (List.mem_append.mpr (Or.inr (List.mem_singleton.mpr rfl)))) ⟨hb.coh, hb.kindS, ?_⟩ h
      · exact ⟨hi.subS, fun l t x hx => ⟨List.mem_append.mpr (Or.inl (hi.subD l t x hx).1), (hi.subD l t x hx).2⟩⟩
      · intro x hx
        rcases List.mem_append.mp hx with hx | hx
        · exact hb.kindD x hx
        · rw [List.mem_singleton.mp hx]; exact hk

/-- `remove_obstacle` (after the repair): the obstacle leaves the scenario AND every registry, whatever the history -/
theorem sub_remove {E : Env} {s s' : St} {o : Id} (hw : WfEnv E) (hi : SubInv E s) (hb : Base E s)
    (h : remove E s o = .ok s') : SubInv E s' := by
  unfold remove at h
  split at h
  · cases h
    refine ⟨?_, hi.subD⟩
    intro l x hx
    have hx' : x ∈ removeStaticReg E o (s.fwd o) s.sreg l := hx
    rw [removeStaticReg_spec] at hx'
    obtain ⟨h1, h2⟩ := hx'
    obtain ⟨h3, h4⟩ := hi.subS l x h1
    refine ⟨List.mem_filter.mpr ⟨h3, decide_eq_true ?_⟩, h4⟩
    rintro rfl
    refine h2 ⟨rfl, ?_, h4⟩
    rcases h4 with h5 | h5
    · exact effShp_sub hw (RecShapeS.mem_eff (hb.coh x) h5)
    · exact effCen_sub hw (RecCenS.mem_eff (hb.coh x) h5)
  · next hos =>
    split at h
    · next hod =>
      split at h
      · next hl =>
        cases h
        refine ⟨hi.subS, ?_⟩
        intro l t x hx
        obtain ⟨h3, h4⟩ := hi.subD l t x hx
        refine ⟨List.mem_filter.mpr ⟨h3, decide_eq_true ?_⟩, h4⟩
        rintro rfl
        -- a set-based prediction records nothing; with no lanelets nothing can be recorded
        have hmem : l ∈ E.lanelets ∧ E.kind x ≠ Kind.dynSet := by
          rcases h4 with h5 | h5
          · exact ⟨hw.shp_sub _ _ _ (RecShapeD.sound (hb.coh x) h5).1, RecShapeD.not_set (hb.coh x) h5⟩
          · exact ⟨hw.cen_sub _ _ _ (RecCenD.sound (hb.coh x) h5).1, (RecCenD.sound (hb.coh x) h5).2⟩
        rcases hl with hl | hl
        · exact hmem.2 hl
        · rw [hl] at hmem; cases hmem.1
      · cases h
        refine ⟨hi.subS, ?_⟩
        intro l t x hx
        have hx' : memD (unregCenter E o (s.fwd o) (unregShape E o (s.fwd o) s.dreg)) l t x := hx
        rw [(unregCenter_spec E o _ _).2, (unregShape_spec E o _ _).2] at hx'
        obtain ⟨⟨h1, n1⟩, n3⟩ := hx'
        obtain ⟨h3, h4⟩ := hi.subD l t x h1
        refine ⟨List.mem_filter.mpr ⟨h3, decide_eq_true ?_⟩, h4⟩
        rintro rfl
        rcases h4 with h5 | h5
        · exact n1 ⟨rfl, hw.shp_sub _ _ _ (RecShapeD.sound (hb.coh x) h5).1, h5⟩
        · exact n3 ⟨rfl, hw.cen_sub _ _ _ (RecCenD.sound (hb.coh x) h5).1, h5⟩
    · cases h; exact hi

/-- the recorded centre relation after one assignment (either mode) at an admissible time step -/
theorem assign_recCen {E : Env} {o : Id} {f f3 : Fwd} {t : T} (hc : Coh E f o) (hns : E.kind o ≠ Kind.dynSet)
    (h2 : f3.initCenter = (if t = E.t0 o then some (E.cen o t) else f.initCenter))
    (h3 : E.kind o = Kind.dynTraj → ∃ dc, f.predCenter = some dc ∧ f3.predCenter = some (dictSet dc t (E.cen o t)))
    (h4 : E.kind o ≠ Kind.dynTraj → f3.predCenter = f.predCenter) :
    (∀ t' l, RecCenD E f o t' l → RecCenD E f3 o t' l) ∧
    (t = E.t0 o ∨ E.kind o = Kind.dynTraj → ∀ l, l ∈ E.cen o t → RecCenD E f3 o t l) := by
  constructor
  · intro t' l hr
    rcases hr with ⟨rfl, ids, h5, h6⟩ | ⟨hk, d, h5, h6⟩
    · left
      refine ⟨rfl, ?_⟩
      rw [h2]
      split
      · next e =>
        rw [hc.initCenter ids h5, effCen_of_ne _ hns] at h6
        exact ⟨_, rfl, e ▸ h6⟩
      · exact ⟨ids, h5, h6⟩
    · right
      refine ⟨hk, ?_⟩
      obtain ⟨dc, e1, e3⟩ := h3 hk
      rw [e1] at h5; cases h5
      refine ⟨_, e3, ?_⟩
      have hv : ∀ w, (t, w) ∈ d → w = E.cen o t := fun w hw' => (hc.predCenter d e1 t w hw').1
      exact (itemsMem_dictSet hv).mpr (Or.inl h6)
  · intro ht l hl
    by_cases hk : E.kind o = Kind.dynTraj
    · right
      obtain ⟨dc, e1, e3⟩ := h3 hk
      have hv : ∀ w, (t, w) ∈ dc → w = E.cen o t := fun w hw' => (hc.predCenter dc e1 t w hw').1
      exact ⟨hk, _, e3, (itemsMem_dictSet hv).mpr (Or.inr ⟨rfl, hl⟩)⟩
    · left
      have e : t = E.t0 o := by
        rcases ht with h | h
        · exact h
        · exact absurd h hk
      refine ⟨e, ?_⟩
      rw [h2, if_pos e]
      exact ⟨_, rfl, hl⟩

theorem sub_assignDynAt {E : Env} {co : Bool} {s s' : St} {o : Id} {t : T} (hi : SubInv E s) (hb : Base E s)
    (hod : o ∈ s.dynamics) (h : assignDynAt E co o s t = .ok s') : SubInv E s' := by
  unfold assignDynAt at h
  split at h
  · cases h; exact hi
  · next hskip =>
    split at h
    · cases h
    · next hlt =>
      obtain ⟨⟨lids, f3⟩, ha, h⟩ := bind_ok.mp h
      obtain ⟨r, hr, h⟩ := bind_ok.mp h
      cases pure_ok.mp h
      have ht : t = E.t0 o ∨ (E.kind o = Kind.dynTraj ∧ E.t0 o ≤ t ∧ t ≤ E.tf o) := by
        by_cases e : t = E.t0 o
        · exact Or.inl e
        · right
          have h5 : ¬(E.kind o ≠ Kind.dynTraj ∨ E.tf o < t) := fun h6 => hskip ⟨e, h6⟩
          exact ⟨Classical.not_not.mp (fun h6 => h5 (Or.inl h6)), Int.not_lt.mp hlt, Int.not_lt.mp (fun h6 => h5 (Or.inr h6))⟩
      have ht' : t = E.t0 o ∨ E.kind o = Kind.dynTraj := ht.imp id (fun h => h.1)
      obtain ⟨_, hreg⟩ := regDyn_spec E o t _ _ _ hr
      have hns : o ∉ s.statics := fun h6 => hb.kindD o hod (hb.kindS o h6)
      -- old entries of `o` stay justified, the new ones are justified by what was just recorded
      have key : (∀ t' l, RecShapeD E (s.fwd o) o t' l ∨ RecCenD E (s.fwd o) o t' l →
            RecShapeD E f3 o t' l ∨ RecCenD E f3 o t' l) ∧
          (∀ l, l ∈ lids → RecShapeD E f3 o t l ∨ RecCenD E f3 o t l) := by
        cases co with
        | false =>
          obtain ⟨ens, e0, e1, e2, e3, e4⟩ := assignFwd_false E o _ t lids f3 ha
          subst e0
          obtain ⟨_, _, c3⟩ := assign_rec (hb.coh o) ens ht e1 e2 e3 e4
          obtain ⟨d1, _⟩ := assign_recCen (hb.coh o) ens e2
            (fun hk => by obtain ⟨dc, ds, g1, _, g3, _⟩ := e3 hk; exact ⟨dc, g1, g3⟩) (fun hk => (e4 hk).1)
          exact ⟨fun t' l hrec => hrec.imp (fun h6 => (c3 t' l).mpr (Or.inl h6)) (d1 t' l),
            fun l hl => Or.inl ((c3 t l).mpr (Or.inr ⟨rfl, hl⟩))⟩
        | true =>
          obtain ⟨ens, e0, e1, e2, e3, e4, e5⟩ := assignFwd_true E o _ t lids f3 ha
          subst e0
          obtain ⟨_, _, c3⟩ := assign_rec_true (hb.coh o) ens ht e1 e2 e3 e4 e5
          obtain ⟨d1, d2⟩ := assign_recCen (hb.coh o) ens e3 e4 e5
          exact ⟨fun t' l hrec => hrec.imp (fun h6 => (c3 t' l).mpr h6) (d1 t' l), fun l hl => Or.inr (d2 ht' l hl)⟩
      refine ⟨?_, ?_⟩
      · intro l x hx
        obtain ⟨h1, h2⟩ := hi.subS l x hx
        have hne : x ≠ o := fun e => hns (e ▸ h1)
        have : (s.setFwd o f3).fwd x = s.fwd x := by rw [setFwd_fwd, if_neg hne]
        exact ⟨h1, this ▸ h2⟩
      · intro l t' x hx
        have hx' : memD r l t' x := hx
        rw [hreg] at hx'
        show x ∈ s.dynamics ∧ (RecShapeD E ((s.setFwd o f3).fwd x) x t' l ∨ RecCenD E ((s.setFwd o f3).fwd x) x t' l)
        by_cases e : x = o
        · subst e
          rw [setFwd_fwd, if_pos rfl]
          rcases hx' with h1 | ⟨_, rfl, h3⟩
          · exact ⟨hod, key.1 t' l (hi.subD l t' x h1).2⟩
          · exact ⟨hod, key.2 l h3⟩
        · rw [setFwd_fwd, if_neg e]
          rcases hx' with h1 | ⟨h2, _⟩
          · exact hi.subD l t' x h1
          · exact absurd h2 e

theorem sub_assignStatic {E : Env} {co : Bool} {s s' : St} {o : Id} (hi : SubInv E s) (hb : Base E s)
    (hos : o ∈ s.statics) (h : assignStatic E co o s = .ok s') : SubInv E s' := by
  unfold assignStatic at h
  obtain ⟨r, hr, h⟩ := bind_ok.mp h
  cases pure_ok.mp h
  obtain ⟨_, hreg⟩ := regStatic_spec E o _ _ _ hr
  have hnd : o ∉ s.dynamics := fun h6 => hb.kindD o h6 (hb.kindS o hos)
  have hkn : E.kind o ≠ Kind.dynSet := by rw [hb.kindS o hos]; intro h; cases h
  refine ⟨?_, ?_⟩
  · intro l x hx
    have hx' : x ∈ r l := hx
    rw [hreg] at hx'
    simp only [setFwd_fwd, setFwd_statics]
    by_cases e : x = o
    · subst e
      rw [if_pos rfl]
      refine ⟨hos, ?_⟩
      -- the centre set is rewritten with the lookup answer, which the old one (if any) was; likewise the shape set
      have hcen : ∀ l', RecCenS (s.fwd x) l' → l' ∈ E.cen x (E.t0 x) := by
        intro l' h1
        have := RecCenS.mem_eff (hb.coh x) h1
        rwa [effCen_of_ne _ hkn] at this
      have hshp : ∀ l', RecShapeS (s.fwd x) l' → l' ∈ E.shp x (E.t0 x) := fun l' h1 => RecShapeS.mem_lanelets (hb.coh x) h1
      cases co with
      | false =>
        rcases hx' with h1 | ⟨_, h2⟩
        · rcases (hi.subS l x h1).2 with h3 | h3
          · exact Or.inl ⟨_, rfl, hshp l h3⟩
          · exact Or.inr ⟨_, rfl, hcen l h3⟩
        · exact Or.inl ⟨_, rfl, h2⟩
      | true =>
        rcases hx' with h1 | ⟨_, h2⟩
        · rcases (hi.subS l x h1).2 with h3 | h3
          · exact Or.inl h3
          · exact Or.inr ⟨_, rfl, hcen l h3⟩
        · exact Or.inr ⟨_, rfl, h2⟩
    · rw [if_neg e]
      rcases hx' with h1 | ⟨h2, _⟩
      · exact hi.subS l x h1
      · exact absurd h2 e
  · intro l t x hx
    obtain ⟨h1, h2⟩ := hi.subD l t x hx
    have hne : x ≠ o := fun e => hnd (e ▸ h1)
    simp only [setFwd_fwd, setFwd_dynamics, if_neg hne]
    exact ⟨h1, h2⟩

theorem sub_initDicts {E : Env} {s : St} {o : Id} (co : Bool) (hi : SubInv E s) :
    SubInv E (s.setFwd o (initDicts co (s.fwd o))) := by
  have hS : ∀ t l, RecShapeD E (s.fwd o) o t l → RecShapeD E (initDicts co (s.fwd o)) o t l := by
    intro t l
    unfold RecShapeD initDicts
    cases hp : (s.fwd o).predShape with
    | none => cases co <;> simp [itemsMem]
    | some d => simp
  have hC : ∀ t l, RecCenD E (s.fwd o) o t l → RecCenD E (initDicts co (s.fwd o)) o t l := by
    intro t l
    unfold RecCenD initDicts
    cases hp : (s.fwd o).predCenter with
    | none => simp [itemsMem]
    | some d => simp
  refine ⟨?_, ?_⟩
  · intro l x hx
    obtain ⟨h1, h2⟩ := hi.subS l x hx
    simp only [setFwd_fwd, setFwd_statics]
    refine ⟨h1, ?_⟩
    by_cases e : x = o
    · subst e
      rw [if_pos rfl]
      simpa [RecShapeS, RecCenS, initDicts] using h2
    · rw [if_neg e]; exact h2
  · intro l t x hx
    obtain ⟨h1, h2⟩ := hi.subD l t x hx
    simp only [setFwd_fwd, setFwd_dynamics]
    refine ⟨h1, ?_⟩
    by_cases e : x = o
    · subst e
      rw [if_pos rfl]
      exact h2.imp (hS t l) (hC t l)
    · rw [if_neg e]; exact h2

theorem sub_assignObs {E : Env} {ts : Option (List T)} {co : Bool} {s s' : St} {o : Id} (hi : SubInv E s)
    (hw : WeakInv E s) (h : assignObs E ts co s o = .ok s') : SubInv E s' := by
  unfold assignObs at h
  split at h
  · next hod =>
    split at h
    · cases h
    · have key : ∀ (s1 : St), (SubInv E s1 ∧ WeakInv E s1) → s1.dynamics = s.dynamics →
          ∀ (steps : List T), steps.foldlM (assignDynAt E co o) s1 = .ok s' → SubInv E s' := by
        intro s1 h1 h3 steps hf
        have := foldlM_inv (assignDynAt E co o) (fun x => (SubInv E x ∧ WeakInv E x) ∧ x.dynamics = s.dynamics) ?_
          steps s1 s' ⟨h1, h3⟩ hf
        · exact this.1.1
        · rintro x t x' ⟨⟨q1, q2⟩, q3⟩ hx
          exact ⟨⟨sub_assignDynAt q1 q2.base (q3 ▸ hod) hx, weak_assignDynAt q2 (q3 ▸ hod) hx⟩,
            (assignDynAt_lists hx).2.trans q3⟩
      refine key _ ?_ ?_ _ h
      · split
        · exact ⟨sub_initDicts co hi, weak_initDicts co hw⟩
        · exact ⟨hi, hw⟩
      · split <;> rfl
  · split at h
    · next hos => exact sub_assignStatic hi hw.base hos h
    · cases h

theorem sub_assign {E : Env} {ids : Option (List Id)} {ts : Option (List T)} {co : Bool} {s s' : St}
    (hi : SubInv E s) (hw : WeakInv E s) (h : assign E ids ts co s = .ok s') : SubInv E s' := by
  unfold assign at h
  have := foldlM_inv (assignObs E ts co) (fun x => SubInv E x ∧ WeakInv E x)
    (fun x a x' hx hf => ⟨sub_assignObs hx.1 hx.2 hf, weak_assignObs hx.2 hf⟩) _ s s' ⟨hi, hw⟩ h
  exact this.1

end CR.Assign
