/-
  CRProofs.BenchIdGrammar — the language of the id grammar `idRE` is exactly the set of normal-form strings
  (`NF.str` of CRProofs/BenchId.lean), and the deterministic matcher `matchId` (model of
  `benchmark_id_pattern.fullmatch`) decides it.
-/
import CRProofs.BenchId
set_option linter.unusedSimpArgs false
namespace CR.BenchId

/-! ## reading a digit string and printing it again -/

theorem digitChar_ofNat : ∀ k, k < 10 → digitChar k = Char.ofNat (48 + k) := by decide

theorem isDigit_bounds {c : Char} (h : c.isDigit = true) : 48 ≤ c.toNat ∧ c.toNat ≤ 57 := by
  simp only [Char.isDigit, Bool.and_eq_true, decide_eq_true_eq, ge_iff_le, UInt32.le_iff_toNat_le] at h
  exact h

theorem digitVal_lt {c : Char} (h : c.isDigit = true) : digitVal c < 10 := by
  have := isDigit_bounds h; unfold digitVal; omega

theorem digitChar_digitVal {c : Char} (h : c.isDigit = true) : digitChar (digitVal c) = c := by
  obtain ⟨h1, h2⟩ := isDigit_bounds h
  unfold digitVal
  rw [digitChar_ofNat _ (by omega)]
  have : 48 + (c.toNat - 48) = c.toNat := by omega
  rw [this, Char.ofNat_toNat]

theorem digitVal_pos {c : Char} (h : isDigit19 c = true) : 0 < digitVal c := by
  have hd := isDigit19_digit h
  have hb := isDigit_bounds hd
  have hne : c ≠ '0' := by simp [isDigit19] at h; exact h.2
  have : c.toNat ≠ 48 := by
    intro e
    apply hne
    have := Char.ofNat_toNat c
    rw [e] at this
    exact this.symm
  unfold digitVal; omega

theorem natToDigits_foldl : ∀ (s : Str) (acc : Nat), 0 < acc → (∀ x ∈ s, x.isDigit = true) →
    natToDigits (s.foldl (fun a c => a * 10 + digitVal c) acc) = natToDigits acc ++ s ∧
    0 < s.foldl (fun a c => a * 10 + digitVal c) acc
  | [], acc, h, _ => by simp [h]
  | d :: t, acc, h, hs => by
    have hd := hs d (by simp)
    have hv := digitVal_lt hd
    have ih := natToDigits_foldl t (acc * 10 + digitVal d) (by omega) (fun x hx => hs x (by simp [hx]))
    simp only [List.foldl_cons]
    refine ⟨?_, ih.2⟩
    rw [ih.1, natToDigits_ge (by omega : 10 ≤ acc * 10 + digitVal d)]
    have e1 : (acc * 10 + digitVal d) / 10 = acc := by omega
    have e2 : (acc * 10 + digitVal d) % 10 = digitVal d := by omega
    rw [e1, e2, digitChar_digitVal hd]
    simp

/-- `str(int(s)) = s` for `s` in `[1-9][0-9]*` -/
theorem natToDigits_digitsToNat {c : Char} {t : Str} (hc : isDigit19 c = true) (ht : ∀ x ∈ t, x.isDigit = true) :
    natToDigits (digitsToNat (c :: t)) = c :: t ∧ 0 < digitsToNat (c :: t) := by
  have hd := isDigit19_digit hc
  have := natToDigits_foldl t (digitVal c) (digitVal_pos hc) ht
  simp only [digitsToNat, List.foldl_cons, Nat.zero_mul, Nat.zero_add]
  refine ⟨?_, this.2⟩
  rw [this.1, natToDigits_lt (digitVal_lt hd), digitChar_digitVal hd]
  rfl

/-! ## inversion of `Matches` -/

theorem Matches.seq_inv {a b : RE} {u : Str} (h : Matches (.seq a b) u) :
    ∃ s t, u = s ++ t ∧ Matches a s ∧ Matches b t := by
  cases h with
  | seq h1 h2 => exact ⟨_, _, rfl, h1, h2⟩

theorem Matches.chr_inv {c : Char} {u : Str} (h : Matches (.chr c) u) : u = [c] := by
  cases h; rfl

theorem Matches.cls_inv {p : Char → Bool} {u : Str} (h : Matches (.cls p) u) : ∃ c, u = [c] ∧ p c = true := by
  cases h with
  | cls hp => exact ⟨_, rfl, hp⟩

theorem Matches.eps_inv {u : Str} (h : Matches .eps u) : u = [] := by
  cases h; rfl

theorem Matches.alt_inv {a b : RE} {u : Str} (h : Matches (.alt a b) u) : Matches a u ∨ Matches b u := by
  cases h with
  | altL h => exact Or.inl h
  | altR h => exact Or.inr h

theorem Matches.star_inv_aux {r : RE} {u : Str} (h : Matches r u) :
    ∀ a, r = .star a → ∃ l : List Str, u = l.flatten ∧ ∀ s ∈ l, Matches a s := by
  induction h with
  | cls _ => intro a e; cases e
  | chr => intro a e; cases e
  | eps => intro a e; cases e
  | seq _ _ _ _ => intro a e; cases e
  | altL _ _ => intro a e; cases e
  | altR _ _ => intro a e; cases e
  | starNil => intro a _; exact ⟨[], rfl, by simp⟩
  | @starCons a0 s0 t0 h1 _ _ ih2 =>
    intro a e
    cases e
    obtain ⟨l, hl, hall⟩ := ih2 _ rfl
    exact ⟨s0 :: l, by simp [hl], by
      intro s hs
      rcases List.mem_cons.1 hs with e | hs
      · exact e ▸ h1
      · exact hall s hs⟩

theorem Matches.star_inv {a : RE} {u : Str} (h : Matches (.star a) u) :
    ∃ l : List Str, u = l.flatten ∧ ∀ s ∈ l, Matches a s := Matches.star_inv_aux h a rfl

theorem Matches.star_cls_inv {p : Char → Bool} {u : Str} (h : Matches (.star (.cls p)) u) : ∀ c ∈ u, p c = true := by
  obtain ⟨l, rfl, hall⟩ := Matches.star_inv h
  intro c hc
  obtain ⟨s, hs, hcs⟩ := List.mem_flatten.1 hc
  obtain ⟨d, rfl, hd⟩ := Matches.cls_inv (hall s hs)
  simp at hcs
  exact hcs ▸ hd

/-- a word of `[1-9][0-9]*` is the decimal print of a positive number -/
theorem num_inv {u : Str} (h : Matches numRE u) : ∃ n, 0 < n ∧ u = natToDigits n := by
  obtain ⟨s, t, rfl, hs, ht⟩ := Matches.seq_inv h
  obtain ⟨c, rfl, hc⟩ := Matches.cls_inv hs
  have := natToDigits_digitsToNat hc (Matches.star_cls_inv ht)
  exact ⟨digitsToNat (c :: t), this.2, this.1.symm⟩

theorem dash_num_star_inv {u : Str} (h : Matches (.star (.seq (.chr '-') numRE)) u) :
    ∃ ps : List Nat, (∀ p ∈ ps, 0 < p) ∧ u = predStr ps := by
  obtain ⟨l, rfl, hall⟩ := Matches.star_inv h
  clear h
  induction l with
  | nil => exact ⟨[], by simp, rfl⟩
  | cons s l ih =>
    obtain ⟨ps, hps, e⟩ := ih (fun x hx => hall x (by simp [hx]))
    obtain ⟨s1, s2, rfl, h1, h2⟩ := Matches.seq_inv (hall s (by simp))
    have := Matches.chr_inv h1
    subst this
    obtain ⟨n, hn, rfl⟩ := num_inv h2
    refine ⟨n :: ps, ?_, by simp [predStr, e]⟩
    intro p hp
    rcases List.mem_cons.1 hp with e | hp
    · exact e ▸ hn
    · exact hps p hp

theorem tail_inv {u : Str} (h : Matches tailRE u) : ∃ t : NFTail, t.Ok ∧ u = t.str := by
  rcases Matches.alt_inv h with h | h
  · obtain ⟨s1, r1, rfl, h1, h2⟩ := Matches.seq_inv h
    have := Matches.chr_inv h1; subst this
    obtain ⟨s2, r2, rfl, h3, h4⟩ := Matches.seq_inv h2
    obtain ⟨c, hc, rfl⟩ := num_inv h3
    rcases Matches.alt_inv h4 with h4 | h4
    · obtain ⟨s3, r3, rfl, h5, h6⟩ := Matches.seq_inv h4
      have := Matches.chr_inv h5; subst this
      obtain ⟨s4, r4, rfl, h7, h8⟩ := Matches.seq_inv h6
      obtain ⟨t, rfl, ht⟩ := Matches.cls_inv h7
      obtain ⟨s5, r5, rfl, h9, h10⟩ := Matches.seq_inv h8
      obtain ⟨s6, r6, rfl, h11, h12⟩ := Matches.seq_inv h9
      have := Matches.chr_inv h11; subst this
      obtain ⟨n, hn, rfl⟩ := num_inv h12
      obtain ⟨ps, hps, rfl⟩ := dash_num_star_inv h10
      refine ⟨.pred c t (n :: ps), ⟨hc, ht, by simp, ?_⟩, by simp [NFTail.str, predStr]⟩
      intro p hp
      rcases List.mem_cons.1 hp with e | hp
      · exact e ▸ hn
      · exact hps p hp
    · have := Matches.eps_inv h4; subst this
      exact ⟨.cfg c, hc, by simp [NFTail.str]⟩
  · have := Matches.eps_inv h; subst this
    exact ⟨.map, trivial, rfl⟩

theorem plus_cls_inv {p : Char → Bool} {u : Str} (h : Matches (RE.plus (.cls p)) u) : u ≠ [] ∧ ∀ c ∈ u, p c = true := by
  obtain ⟨s, t, rfl, hs, ht⟩ := Matches.seq_inv h
  obtain ⟨c, rfl, hc⟩ := Matches.cls_inv hs
  refine ⟨by simp, ?_⟩
  intro x hx
  rcases List.mem_cons.1 hx with e | hx
  · exact e ▸ hc
  · exact Matches.star_cls_inv ht x hx

/-- every word of the id grammar is a normal-form string -/
theorem grammar_nf {s : Str} (h : Matches idRE s) : ∃ x : NF, x.Ok ∧ s = x.str := by
  obtain ⟨pre, r0, rfl, hpre, h0⟩ := Matches.seq_inv h
  obtain ⟨sa, r1, rfl, ha, h1⟩ := Matches.seq_inv h0
  obtain ⟨a, rfl, ua⟩ := Matches.cls_inv ha
  obtain ⟨sb, r2, rfl, hb, h2⟩ := Matches.seq_inv h1
  obtain ⟨b, rfl, ub⟩ := Matches.cls_inv hb
  obtain ⟨sc, r3, rfl, hc, h3⟩ := Matches.seq_inv h2
  obtain ⟨c, rfl, uc⟩ := Matches.cls_inv hc
  obtain ⟨su, r4, rfl, hu, h4⟩ := Matches.seq_inv h3
  have := Matches.chr_inv hu; subst this
  obtain ⟨name, r5, rfl, hname, h5⟩ := Matches.seq_inv h4
  obtain ⟨hne, halnum⟩ := plus_cls_inv hname
  obtain ⟨sd, r6, rfl, hd, h6⟩ := Matches.seq_inv h5
  have := Matches.chr_inv hd; subst this
  obtain ⟨snum, stail, rfl, hnum, htail⟩ := Matches.seq_inv h6
  obtain ⟨mapId, hm, rfl⟩ := num_inv hnum
  obtain ⟨tail, htok, rfl⟩ := tail_inv htail
  rcases Matches.alt_inv hpre with hp | hp
  · obtain ⟨p1, p2, rfl, hp1, hp2⟩ := Matches.seq_inv hp
    have := Matches.chr_inv hp1; subst this
    have := Matches.chr_inv hp2; subst this
    exact ⟨⟨true, a, b, c, name, mapId, tail⟩, ⟨ua, ub, uc, hne, halnum, hm, htok⟩, by simp [NF.str, NF.body]⟩
  · have := Matches.eps_inv hp; subst this
    exact ⟨⟨false, a, b, c, name, mapId, tail⟩, ⟨ua, ub, uc, hne, halnum, hm, htok⟩, by simp [NF.str, NF.body]⟩

/-! ## the matcher accepts only normal-form strings -/

theorem span_spec (p : Char → Bool) : ∀ (s : Str),
    s = (span p s).1 ++ (span p s).2 ∧ (∀ c ∈ (span p s).1, p c = true) ∧ ∀ x ∈ (span p s).2.head?, p x = false
  | [] => by simp [span]
  | c :: t => by
    have ih := span_spec p t
    by_cases hc : p c = true
    · simp only [span, hc, if_true]
      refine ⟨by simp [← ih.1], ?_, ih.2.2⟩
      intro x hx
      rcases List.mem_cons.1 hx with e | hx
      · exact e ▸ hc
      · exact ih.2.1 x hx
    · simp [span, hc]

theorem takeNum_inv {s d r : Str} (h : takeNum s = some (d, r)) :
    ∃ n, 0 < n ∧ d = natToDigits n ∧ s = d ++ r := by
  cases s with
  | nil => simp [takeNum] at h
  | cons c t =>
    simp only [takeNum] at h
    split at h
    · rename_i hc
      simp only [Option.some.injEq, Prod.mk.injEq] at h
      obtain ⟨hd, hr⟩ := h
      have sp := span_spec Char.isDigit t
      have := natToDigits_digitsToNat hc sp.2.1
      refine ⟨digitsToNat (c :: (span Char.isDigit t).1), this.2, ?_, ?_⟩
      · rw [this.1, hd]
      · rw [← hd, ← hr]; simp [← sp.1]
    · cases h

theorem predIdsOk_inv : ∀ (s : Str),
    (predIdsOk .dash s = true → ∃ ps, ps ≠ [] ∧ (∀ p ∈ ps, 0 < p) ∧ s = predStr ps) ∧
    (predIdsOk .first s = true → ∃ n ps, 0 < n ∧ (∀ p ∈ ps, 0 < p) ∧ s = natToDigits n ++ predStr ps) ∧
    (predIdsOk .digits s = true → ∃ ds ps, (∀ x ∈ ds, x.isDigit = true) ∧ (∀ p ∈ ps, 0 < p) ∧ s = ds ++ predStr ps)
  | [] => by
    refine ⟨by simp [predIdsOk], by simp [predIdsOk], fun _ => ⟨[], [], by simp, by simp, rfl⟩⟩
  | c :: t => by
    obtain ⟨ih1, ih2, ih3⟩ := predIdsOk_inv t
    have hfirst : isDigit19 c = true → predIdsOk .digits t = true →
        ∃ n ps, 0 < n ∧ (∀ p ∈ ps, 0 < p) ∧ c :: t = natToDigits n ++ predStr ps := by
      intro hc ht
      obtain ⟨ds, ps, hds, hps, rfl⟩ := ih3 ht
      have := natToDigits_digitsToNat hc hds
      exact ⟨digitsToNat (c :: ds), ps, this.2, hps, by rw [this.1]; rfl⟩
    have hdash : c = '-' → predIdsOk .first t = true →
        ∃ ps, ps ≠ [] ∧ (∀ p ∈ ps, 0 < p) ∧ c :: t = predStr ps := by
      intro hc ht
      obtain ⟨n, ps, hn, hps, rfl⟩ := ih2 ht
      refine ⟨n :: ps, by simp, ?_, by simp [predStr, hc]⟩
      intro p hp
      rcases List.mem_cons.1 hp with e | hp
      · exact e ▸ hn
      · exact hps p hp
    refine ⟨?_, ?_, ?_⟩
    · intro h
      simp only [predIdsOk, Bool.and_eq_true, decide_eq_true_eq] at h
      exact hdash h.1 h.2
    · intro h
      simp only [predIdsOk, Bool.and_eq_true] at h
      exact hfirst h.1 h.2
    · intro h
      simp only [predIdsOk] at h
      split at h
      · rename_i hc
        obtain ⟨ds, ps, hds, hps, rfl⟩ := ih3 h
        refine ⟨c :: ds, ps, ?_, hps, rfl⟩
        intro x hx
        rcases List.mem_cons.1 hx with e | hx
        · exact e ▸ hc
        · exact hds x hx
      · simp only [Bool.and_eq_true, decide_eq_true_eq] at h
        obtain ⟨ps, _, hps, e⟩ := hdash h.1 h.2
        exact ⟨[], ps, by simp, hps, by simpa using e⟩

theorem matchTail_inv {s : Str} {r : Option Str × Option Char × Option Str} (h : matchTail s = some r) :
    ∃ t : NFTail, t.Ok ∧ s = t.str ∧ r = t.groups := by
  cases s with
  | nil =>
    simp only [matchTail, Option.some.injEq] at h
    exact ⟨.map, trivial, rfl, h.symm⟩
  | cons u s6 =>
    simp only [matchTail] at h
    split at h
    · cases h
    · rename_i hu
      have hu : u = '_' := Decidable.byContradiction hu
      subst hu
      split at h
      · cases h
      · rename_i cfg s7 hnum
        obtain ⟨c, hc, rfl, rfl⟩ := takeNum_inv hnum
        split at h
        · simp only [Option.some.injEq] at h
          exact ⟨.cfg c, hc, by simp [NFTail.str], h.symm⟩
        · cases h
        · rename_i u2 t s8
          split at h
          · rename_i hcond
            simp only [Option.some.injEq] at h
            obtain ⟨hu2, ht, hp⟩ := hcond
            subst hu2
            obtain ⟨ps, hne, hps, rfl⟩ := (predIdsOk_inv s8).1 hp
            exact ⟨.pred c t ps, ⟨hc, ht, hne, hps⟩, by simp [NFTail.str], h.symm⟩
          · cases h

theorem stripCoop_inv (s : Str) :
    s = (if (stripCoop s).1 = true then 'C' :: '-' :: (stripCoop s).2 else (stripCoop s).2) := by
  unfold stripCoop
  split
  · split
    · rename_i h; simp [h.1, h.2]
    · simp
  · simp

/-- whatever the model of `benchmark_id_pattern.fullmatch` accepts is a normal-form string, and the groups are its parts -/
theorem matchId_inv {s : Str} {g : Groups} (h : matchId s = some g) : ∃ x : NF, x.Ok ∧ s = x.str ∧ g = x.groups := by
  have hs := stripCoop_inv s
  unfold matchId at h
  split at h
  · rename_i a b c u s2 hs1
    by_cases hcond : (a.isUpper && b.isUpper && c.isUpper && decide (u = '_')) = true
    · simp only [hcond, Bool.not_true, Bool.false_eq_true, if_false] at h
      simp only [Bool.and_eq_true, decide_eq_true_eq] at hcond
      obtain ⟨⟨⟨ua, ub⟩, uc⟩, hu⟩ := hcond
      subst hu
      have sp := span_spec Char.isAlphanum s2
      by_cases hname : (span Char.isAlphanum s2).1 = []
      · simp [hname] at h
      · simp only [hname, if_false] at h
        cases hrest : (span Char.isAlphanum s2).2 with
        | nil => simp [hrest] at h
        | cons d s4 =>
          simp only [hrest] at h
          by_cases hd : d = '-'
          · subst hd
            simp only [ne_eq, not_true_eq_false, if_false] at h
            cases hnum : takeNum s4 with
            | none => simp [hnum] at h
            | some p =>
              obtain ⟨mapIdS, s5⟩ := p
              simp only [hnum] at h
              obtain ⟨mapId, hm, rfl, rfl⟩ := takeNum_inv hnum
              cases htail : matchTail s5 with
              | none => simp [htail] at h
              | some q =>
                obtain ⟨cfg, pt, pids⟩ := q
                simp only [htail, Option.some.injEq] at h
                obtain ⟨tail, htok, rfl, hgr⟩ := matchTail_inv htail
                refine ⟨⟨(stripCoop s).1, a, b, c, (span Char.isAlphanum s2).1, mapId, tail⟩,
                  ⟨ua, ub, uc, hname, sp.2.1, hm, htok⟩, ?_, ?_⟩
                · have e2 : s2 = (span Char.isAlphanum s2).1 ++ '-' :: (natToDigits mapId ++ tail.str) := by
                    rw [← hrest]; exact sp.1
                  have e3 : (stripCoop s).2 = NF.body ⟨(stripCoop s).1, a, b, c, (span Char.isAlphanum s2).1, mapId, tail⟩ := by
                    rw [hs1]; simp only [NF.body]; rw [← e2]
                  rw [e3] at hs
                  simpa only [NF.str] using hs
                · rw [← h]
                  simp only [NF.groups, ← hgr]
          · simp [hd] at h
    · simp [hcond] at h
  · cases h

theorem matchId_sound {s : Str} {g : Groups} (h : matchId s = some g) : Matches idRE s := by
  obtain ⟨x, hx, rfl, _⟩ := matchId_inv h
  exact matches_str x hx

theorem matchId_complete {s : Str} (h : Matches idRE s) : ∃ g, matchId s = some g := by
  obtain ⟨x, hx, rfl⟩ := grammar_nf h
  exact ⟨x.groups, matchId_str x hx⟩

/-- if the constructor accepts the arguments read from a normal-form string, the result is the normal-form id -/
theorem mk_toRaw_inv (cs : List Str) (x : NF) (v : Str) (hx : x.Ok) {i : Id} (h : mk cs (x.toRaw v) = .ok i) :
    i = x.toId v := by
  by_cases hv : v ∈ supported
  · by_cases hc : [x.a, x.b, x.c] ∈ cs ∨ [x.a, x.b, x.c] = ZAM
    · rw [mk_toRaw cs x v hx hv hc] at h
      cases h; rfl
    · have : setCountry cs (some [x.a, x.b, x.c]) = .error .value := by simp [setCountry, hc]
      simp [mk, NF.toRaw, hv, this] at h
  · simp [mk, NF.toRaw, hv] at h

/-- print ∘ parse is the identity on the grammar: a grammar word that `from_benchmark_id` turns into an id
    (known country, supported version) prints back as the same string -/
theorem print_parse_grammar (cs : List Str) {s v : Str} {i : Id} (hs : Matches idRE s) (h : parse cs s v = .ok i) :
    print i = s ∧ i.version = v := by
  obtain ⟨x, hx, rfl⟩ := grammar_nf hs
  rw [parse_str cs x v hx] at h
  have := mk_toRaw_inv cs x v hx h
  subst this
  exact ⟨print_toId x v hx, rfl⟩

end CR.BenchId
