/-
  CRProofs.EqHashSpec — an independent, declarative reading of "the same attribute values" (`Same`) and the proof
  that the executable comparison `rel` decides exactly it; set-reordering congruence (`SetPerm`); the constructor
  signatures against the class rows.
-/
import CRProofs.EqHash

namespace CR.EqHash

theorem Table.RegE.toReg {T : Table} (h : T.RegE) : T.Reg :=
  ⟨fun c i => Kind.regE_reg (h.attr c i), fun c => by rw [h.whole]; rfl⟩

/-- a regular eq kind is `skip`, an element-wise kind, or a set kind -/
theorem Kind.regE_cases (T : Table) (k : Kind) (hk : k.regE = true) :
    k = .skip ∨ (∃ kh kt, k.split T = some (kh, kt)) ∨ (∃ ke, k.setElem = some ke) := by
  cases k <;> simp_all [Kind.regE, Kind.split, Kind.setElem]

theorem Kind.split_regE {T : Table} (hT : T.RegE) {K kh kt : Kind} (hK : K.regE = true)
    (hs : K.split T = some (kh, kt)) : kh.regE = true ∧ kt.regE = true := by
  cases K <;> simp_all [Kind.regE, Kind.split]
  all_goals (obtain ⟨rfl, rfl⟩ := hs; simp_all [Kind.regE])
  exact hT.attr _ _

theorem Kind.setElem_regE {K k : Kind} (hK : K.regE = true) (hs : K.setElem = some k) : k.regE = true := by
  cases K <;> simp_all [Kind.regE, Kind.setElem]
  all_goals (subst hs; simp_all [Kind.regE])

theorem Kind.split_setElem_excl (T : Table) {K kh kt k : Kind} (h1 : K.split T = some (kh, kt))
    (h2 : K.setElem = some k) : False := by
  cases K <;> simp_all [Kind.split, Kind.setElem]

/-! ## `Same`: what the property text calls identical attribute values -/

/-- `Same T k v w`: the two attribute values are the same under the way (`k`) the attribute is read:
    * an attribute that is not read is always the same (`skip`);
    * identical leaves (None, a number, a string, an empty container) are the same;
    * two reals in one 10-decimal bucket are the same where the attribute is rounded (`r10`);
    * None and the empty set are the same where the class documents None as "no ids" (`setNE`);
    * objects of one class are the same when their attribute chains are (by the table of the class);
    * lists (and arrays, dict items) are the same element by element;
    * id sets are the same **as sets**: every member of either side has a partner on the other side (`p`, `q` name the
      partners) — neither order nor multiplicity matter.
    Nothing else is the same.  (Inductive, i.e. the least such relation; it does not mention `rel`.) -/
inductive Same (T : Table) : Kind → Val → Val → Prop
  | skip {v w : Val} : Same T .skip v w
  | leaf {k : Kind} {v : Val} : k.regE = true → v.isLeaf = true → Same T k v v
  | bucket {a b : Rat} : round10 a = round10 b → Same T .r10 (.num a) (.num b)
  | noneEmpty {v w : Val} : v.isNoneNil = true → w.isNoneNil = true → Same T .setNE v w
  | obj {k : Kind} {c : Cls} {f f' : Val} : k.regE = true → k ≠ .skip → Same T (T.whole c) f f' →
      Same T k (.obj c f) (.obj c f')
  | elems {K kh kt : Kind} {h t h' t' : Val} : K.split T = some (kh, kt) → Same T kh h h' → Same T kt t t' →
      Same T K (.cons h t) (.cons h' t')
  | set {K k : Kind} {h t w : Val} (p q : Val → Val) : K.setElem = some k →
      (∀ x ∈ h :: elems t, p x ∈ elems w) → (∀ x ∈ h :: elems t, Same T k x (p x)) →
      (∀ y ∈ elems w, q y ∈ h :: elems t) → (∀ y ∈ elems w, Same T k (q y) y) →
      Same T K (.cons h t) w

theorem rel_leaf_refl (T : Table) (k : Kind) (v : Val) (hk : k.regE = true) (hl : v.isLeaf = true) :
    rel T v k v = true := by
  cases v <;> simp [Val.isLeaf] at hl <;> cases k <;> simp_all [rel, Kind.regE, allV]

/-- soundness of `rel` for `Same` -/
theorem rel_of_same (T : Table) {k : Kind} {v w : Val} (h : Same T k v w) : rel T v k w = true := by
  induction h with
  | skip => simp [rel]
  | leaf hk hl => exact rel_leaf_refl T _ _ hk hl
  | bucket hab => simp [rel, hab]
  | noneEmpty hv hw =>
    rename_i v w
    cases v <;> simp [Val.isNoneNil] at hv <;> cases w <;> simp [Val.isNoneNil] at hw <;> simp [rel]
  | obj hk hs _ ih =>
    rw [rel_obj_obj T _ _ _ _ _ (Kind.regE_reg hk) hs, ih]; simp
  | elems hK _ _ ih1 ih2 => rw [rel_split T _ _ _ hK, ih1, ih2]; rfl
  | set p q hK hp _ hq _ ihp ihq =>
    rw [rel_setElem T _ _ hK]
    simp only [setRel, Bool.and_eq_true, List.all_eq_true, List.any_eq_true]
    exact ⟨fun x hx => ⟨p x, hp x hx, ihp x hx⟩, fun y hy => ⟨q y, hq y hy, ihq y hy⟩⟩

/-- a partner found by search -/
def partner (f : Val → Bool) (l : List Val) : Val := (l.find? f).getD .none

theorem partner_spec (f : Val → Bool) (l : List Val) (h : l.any f = true) :
    partner f l ∈ l ∧ f (partner f l) = true := by
  unfold partner
  cases hf : l.find? f with
  | none =>
    rw [List.find?_eq_none] at hf
    simp only [List.any_eq_true] at h
    obtain ⟨x, hx, hfx⟩ := h
    exact absurd hfx (by simpa using hf x hx)
  | some y => exact ⟨List.mem_of_find?_eq_some hf, List.find?_some hf⟩

theorem rel_cons_other (T : Table) (hT : T.RegE) (k : Kind) (a b w : Val) (hk : k.regE = true) (hs : k ≠ .skip)
    (hw : ∀ h t, w ≠ .cons h t) : rel T (.cons a b) k w = false := by
  cases w with
  | cons h t => exact absurd rfl (hw h t)
  | obj c f => exact differs_sound T hT (.shapeCO hk hs)
  | none => exact rel_cons_leaf T k a b _ hk hs rfl
  | nil => exact rel_cons_leaf T k a b _ hk hs rfl
  | num r => exact rel_cons_leaf T k a b _ hk hs rfl
  | str s => exact rel_cons_leaf T k a b _ hk hs rfl

/-- completeness of `rel` for `Same` -/
theorem same_of_rel_aux (T : Table) (hT : T.RegE) (v : Val) :
    (∀ k w, k.regE = true → rel T v k w = true → Same T k v w)
      ∧ (∀ x ∈ elems v, ∀ k w, k.regE = true → rel T x k w = true → Same T k x w) := by
  induction v with
  | none =>
    refine ⟨fun k w hk h => ?_, by simp [elems]⟩
    by_cases hs : k = .skip
    · subst hs; exact .skip
    · by_cases hne : k = .setNE
      · subst hne
        simp only [rel, Bool.or_eq_true, beq_iff_eq] at h
        exact .noneEmpty rfl (by rcases h with rfl | rfl <;> rfl)
      · have : w = .none := by cases k <;> simp_all [rel, Kind.regE]
        subst this; exact .leaf hk rfl
  | nil =>
    refine ⟨fun k w hk h => ?_, by simp [elems]⟩
    by_cases hs : k = .skip
    · subst hs; exact .skip
    · by_cases hne : k = .setNE
      · subst hne
        simp only [rel, Bool.or_eq_true, beq_iff_eq] at h
        exact .noneEmpty rfl (by rcases h with rfl | rfl <;> rfl)
      · have : w = .nil := by cases k <;> simp_all [rel, Kind.regE]
        subst this; exact .leaf hk rfl
  | str s =>
    refine ⟨fun k w hk h => ?_, by simp [elems]⟩
    by_cases hs : k = .skip
    · subst hs; exact .skip
    · have : w = .str s := by cases k <;> simp_all [rel, Kind.regE]
      subst this; exact .leaf hk rfl
  | num a =>
    refine ⟨fun k w hk h => ?_, by simp [elems]⟩
    by_cases hs : k = .skip
    · subst hs; exact .skip
    · by_cases hr : k = .r10
      · subst hr
        cases w with
        | num b => simp only [rel, beq_iff_eq] at h; exact .bucket h
        | _ => simp [rel] at h
      · have : w = .num a := by cases k <;> simp_all [rel, Kind.regE]
        subst this; exact .leaf hk rfl
  | obj c f ihf =>
    refine ⟨fun k w hk h => ?_, by simp [elems]⟩
    have ihf1 := ihf.1
    clear ihf
    by_cases hs : k = .skip
    · subst hs; exact .skip
    · cases w with
      | obj c' f' =>
        rw [rel_obj_obj T _ _ _ _ k (Kind.regE_reg hk) hs] at h
        simp only [Bool.and_eq_true, beq_iff_eq] at h
        obtain ⟨rfl, h2⟩ := h
        exact .obj hk hs (ihf1 _ _ (by rw [hT.whole]; rfl) h2)
      | _ => rw [rel_obj_other T c f _ k (Kind.regE_reg hk) hs (by simp)] at h; cases h
  | cons a b iha ihb =>
    have hel : ∀ x ∈ a :: elems b, ∀ k w, k.regE = true → rel T x k w = true → Same T k x w := by
      intro x hx
      rcases List.mem_cons.mp hx with rfl | hx
      · exact iha.1
      · exact ihb.2 x hx
    have iha1 := iha.1
    have ihb1 := ihb.1
    clear iha ihb
    refine ⟨fun k w hk hr => ?_, hel⟩
    rcases Kind.regE_cases T k hk with rfl | ⟨kh, kt, hsp⟩ | ⟨ke, hse⟩
    · exact .skip
    · cases w with
      | cons a' b' =>
        rw [rel_split T _ _ _ hsp] at hr
        simp only [Bool.and_eq_true] at hr
        have hreg := Kind.split_regE hT hk hsp
        exact .elems hsp (iha1 _ _ hreg.1 hr.1) (ihb1 _ _ hreg.2 hr.2)
      | _ =>
        exfalso
        rw [rel_cons_other T hT k a b _ hk (by rintro rfl; simp [Kind.split] at hsp) (by simp)] at hr
        cases hr
    · rw [rel_setElem T _ _ hse] at hr
      simp only [setRel, Bool.and_eq_true, List.all_eq_true] at hr
      have hke := Kind.setElem_regE hk hse
      refine .set (fun x => partner (fun y => rel T x ke y) (elems w))
        (fun y => partner (fun x => rel T x ke y) (a :: elems b)) hse ?_ ?_ ?_ ?_
      · exact fun x hx => (partner_spec _ _ (hr.1 x hx)).1
      · exact fun x hx => hel x hx ke _ hke (partner_spec _ _ (hr.1 x hx)).2
      · exact fun y hy => (partner_spec _ _ (hr.2 y hy)).1
      · intro y hy
        have hp := partner_spec _ _ (hr.2 y hy)
        exact hel _ hp.1 ke y hke hp.2

/-- `rel` decides exactly `Same` (for every table of `__eq__` kinds, every kind, all values) -/
theorem rel_iff_same (T : Table) (hT : T.RegE) (k : Kind) (hk : k.regE = true) (v w : Val) :
    rel T v k w = true ↔ Same T k v w :=
  ⟨(same_of_rel_aux T hT v).1 k w hk, rel_of_same T⟩

/-- every `Differs` is a failure of `Same`: the constructors of `Differs` are sufficient conditions for "not the same" -/
theorem not_same_of_differs (T : Table) (hT : T.RegE) {k : Kind} {v w : Val} (h : Differs T k v w) : ¬ Same T k v w := by
  intro hs
  have h1 := rel_of_same T hs
  rw [differs_sound T hT h] at h1
  cases h1

/-! ## `Differs` is complete: whatever `rel` separates is a `Differs` -/

theorem leafExcept_false_of_not_leaf_num (k : Kind) (v w : Val) (h : (v.isNum = false ∧ v.isNoneNil = false) ∨
    (w.isNum = false ∧ w.isNoneNil = false)) : leafExcept k v w = false := by
  unfold leafExcept
  rcases h with ⟨h1, h2⟩ | ⟨h1, h2⟩ <;> simp [h1, h2]

theorem differs_of_rel_false_aux (T : Table) (hT : T.RegE) (v : Val) :
    (∀ k w, k.regE = true → rel T v k w = false → Differs T k v w)
      ∧ (∀ x ∈ elems v, ∀ k w, k.regE = true → rel T x k w = false → Differs T k x w) := by
  have leafCase : ∀ v : Val, v.isLeaf = true → ∀ k w, k.regE = true → rel T v k w = false → Differs T k v w := by
    intro v hl k w hk h
    have hs : k ≠ .skip := by rintro rfl; simp [rel] at h
    have hne : v ≠ w := by
      rintro rfl
      rw [rel_leaf_refl T k v hk hl] at h; cases h
    by_cases hex : leafExcept k v w = false
    · exact .leaf hk hs (Or.inl hl) hne hex
    · simp only [leafExcept, Bool.or_eq_false_iff, Bool.and_eq_false_iff, not_and, Bool.not_eq_false] at hex
      cases v <;> simp [Val.isLeaf] at hl <;> cases w <;> cases k <;>
        simp_all [rel, Kind.regE, Val.isNum, Val.isNoneNil]
      all_goals exact .real h
  induction v with
  | none => exact ⟨leafCase _ rfl, by simp [elems]⟩
  | nil => exact ⟨leafCase _ rfl, by simp [elems]⟩
  | str s => exact ⟨leafCase _ rfl, by simp [elems]⟩
  | num a =>
    refine ⟨fun k w hk h => ?_, by simp [elems]⟩
    by_cases hr : k = .r10
    · subst hr
      cases w with
      | num b => simp only [rel, beq_eq_false_iff_ne, ne_eq] at h; exact .real h
      | _ => exact leafCase _ rfl _ _ hk h
    · exact leafCase _ rfl _ _ hk h
  | obj c f ihf =>
    refine ⟨fun k w hk h => ?_, by simp [elems]⟩
    have ihf1 := ihf.1
    clear ihf
    have hs : k ≠ .skip := by rintro rfl; simp [rel] at h
    cases w with
    | obj c' f' =>
      rw [rel_obj_obj T _ _ _ _ k (Kind.regE_reg hk) hs] at h
      by_cases hc : c = c'
      · subst hc
        simp only [beq_self_eq_true, Bool.true_and] at h
        exact .attrs hk hs (ihf1 _ _ (by rw [hT.whole]; rfl) h)
      · exact .cls hk hs hc
    | cons a b => exact .shapeOC hk hs
    | none => exact .leaf hk hs (Or.inr rfl) (by simp) (leafExcept_false_of_not_leaf_num _ _ _ (Or.inl ⟨rfl, rfl⟩))
    | nil => exact .leaf hk hs (Or.inr rfl) (by simp) (leafExcept_false_of_not_leaf_num _ _ _ (Or.inl ⟨rfl, rfl⟩))
    | num r => exact .leaf hk hs (Or.inr rfl) (by simp) (leafExcept_false_of_not_leaf_num _ _ _ (Or.inl ⟨rfl, rfl⟩))
    | str s => exact .leaf hk hs (Or.inr rfl) (by simp) (leafExcept_false_of_not_leaf_num _ _ _ (Or.inl ⟨rfl, rfl⟩))
  | cons a b iha ihb =>
    have hel : ∀ x ∈ a :: elems b, ∀ k w, k.regE = true → rel T x k w = false → Differs T k x w := by
      intro x hx
      rcases List.mem_cons.mp hx with rfl | hx
      · exact iha.1
      · exact ihb.2 x hx
    have iha1 := iha.1
    have ihb1 := ihb.1
    clear iha ihb
    refine ⟨fun k w hk hr => ?_, hel⟩
    have hs : k ≠ .skip := by rintro rfl; simp [rel] at hr
    cases w with
    | obj c f => exact .shapeCO hk hs
    | none => exact .leaf hk hs (Or.inr rfl) (by simp) (leafExcept_false_of_not_leaf_num _ _ _ (Or.inl ⟨rfl, rfl⟩))
    | nil => exact .leaf hk hs (Or.inr rfl) (by simp) (leafExcept_false_of_not_leaf_num _ _ _ (Or.inl ⟨rfl, rfl⟩))
    | num r => exact .leaf hk hs (Or.inr rfl) (by simp) (leafExcept_false_of_not_leaf_num _ _ _ (Or.inl ⟨rfl, rfl⟩))
    | str s => exact .leaf hk hs (Or.inr rfl) (by simp) (leafExcept_false_of_not_leaf_num _ _ _ (Or.inl ⟨rfl, rfl⟩))
    | cons a' b' =>
      rcases Kind.regE_cases T k hk with rfl | ⟨kh, kt, hsp⟩ | ⟨ke, hse⟩
      · exact absurd rfl hs
      · rw [rel_split T _ _ _ hsp] at hr
        have hreg := Kind.split_regE hT hk hsp
        cases h1 : rel T a kh a' with
        | false => exact .head hsp (iha1 _ _ hreg.1 h1)
        | true =>
          rw [h1, Bool.true_and] at hr
          exact .tail hsp (ihb1 _ _ hreg.2 hr)
      · rw [rel_setElem T _ _ hse] at hr
        have hke := Kind.setElem_regE hk hse
        simp only [setRel, Bool.and_eq_false_iff, List.all_eq_false, List.any_eq_true, not_exists, not_and,
          Bool.not_eq_true] at hr
        rcases hr with ⟨x, hx, hxf⟩ | ⟨y, hy, hyf⟩
        · exact .memL hse hx (fun y hy => hel x hx ke y hke (hxf y hy))
        · exact .memR hse hy (fun x hx => hel x hx ke y hke (hyf x hx))

/-- `rel` is false exactly on the `Differs` pairs -/
theorem rel_false_iff_differs (T : Table) (hT : T.RegE) (k : Kind) (hk : k.regE = true) (v w : Val) :
    rel T v k w = false ↔ Differs T k v w :=
  ⟨(differs_of_rel_false_aux T hT v).1 k w hk, differs_sound T hT⟩

/-- … hence `Differs` is exactly the negation of `Same` -/
theorem differs_iff_not_same (T : Table) (hT : T.RegE) (k : Kind) (hk : k.regE = true) (v w : Val) :
    Differs T k v w ↔ ¬ Same T k v w := by
  rw [← rel_false_iff_differs T hT k hk, ← rel_iff_same T hT k hk]
  cases rel T v k w <;> simp

/-! ## reordering the members of sets, anywhere and any number of them -/

/-- `SetPerm T k v w`: `w` is `v` with the member lists of set-read chains reordered / repeated — at any nesting depth
    and in any number of attributes at once; everything else is literally identical.
    (`set`: every member of either side occurs, up to `SetPerm` below it, on the other side.) -/
inductive SetPerm (T : Table) : Kind → Val → Val → Prop
  | refl {k : Kind} {v : Val} : SetPerm T k v v
  | obj {k : Kind} {c : Cls} {f f' : Val} : SetPerm T (T.whole c) f f' → SetPerm T k (.obj c f) (.obj c f')
  | elems {K kh kt : Kind} {h t h' t' : Val} : K.split T = some (kh, kt) → SetPerm T kh h h' → SetPerm T kt t t' →
      SetPerm T K (.cons h t) (.cons h' t')
  | set {K k : Kind} {xs ys : List Val} (p q : Val → Val) : K.setElem = some k →
      (∀ x ∈ xs, p x ∈ ys) → (∀ x ∈ xs, SetPerm T k x (p x)) →
      (∀ y ∈ ys, q y ∈ xs) → (∀ y ∈ ys, SetPerm T k (q y) y) →
      SetPerm T K (ofList xs) (ofList ys)

/-- a permutation of the members is a `SetPerm` -/
theorem SetPerm.perm (T : Table) {K k : Kind} (hK : K.setElem = some k) {xs ys : List Val} (h : xs.Perm ys) :
    SetPerm T K (ofList xs) (ofList ys) :=
  .set id id hK (fun _ hx => h.mem_iff.mp hx) (fun _ _ => .refl) (fun _ hy => h.mem_iff.mpr hy) (fun _ _ => .refl)

/-- the set rule with existential partners (the partner functions are chosen classically) -/
theorem SetPerm.of_exists (T : Table) {K k : Kind} (hK : K.setElem = some k) {xs ys : List Val}
    (h1 : ∀ x ∈ xs, ∃ y ∈ ys, SetPerm T k x y) (h2 : ∀ y ∈ ys, ∃ x ∈ xs, SetPerm T k x y) :
    SetPerm T K (ofList xs) (ofList ys) := by
  classical
  refine .set (fun x => if h : ∃ y ∈ ys, SetPerm T k x y then Classical.choose h else .none)
    (fun y => if h : ∃ x ∈ xs, SetPerm T k x y then Classical.choose h else .none) hK ?_ ?_ ?_ ?_
  · intro x hx; simp only [dif_pos (h1 x hx)]; exact (Classical.choose_spec (h1 x hx)).1
  · intro x hx; simp only [dif_pos (h1 x hx)]; exact (Classical.choose_spec (h1 x hx)).2
  · intro y hy; simp only [dif_pos (h2 y hy)]; exact (Classical.choose_spec (h2 y hy)).1
  · intro y hy; simp only [dif_pos (h2 y hy)]; exact (Classical.choose_spec (h2 y hy)).2

/-- one attribute chain: the head changes, or the rest -/
theorem SetPerm.fields_cons (T : Table) {c : Cls} {i : Nat} {h h' t t' : Val}
    (hh : SetPerm T (T.attr c i) h h') (ht : SetPerm T (.fields c (i + 1)) t t') :
    SetPerm T (.fields c i) (.cons h t) (.cons h' t') := .elems rfl hh ht

theorem rel_of_setPerm (T : Table) (hT : T.RegE) {k : Kind} {v w : Val} (h : SetPerm T k v w) (hk : k.regE = true) :
    rel T v k w = true := by
  induction h with
  | refl => exact rel_refl T hT.toReg _ _ (Kind.regE_reg hk)
  | obj _ ih =>
    rename_i k c f f' _
    by_cases hs : k = .skip
    · subst hs; simp [rel]
    · rw [rel_obj_obj T _ _ _ _ _ (Kind.regE_reg hk) hs, ih (by rw [hT.whole]; rfl)]; simp
  | elems hK _ _ ih1 ih2 =>
    have hreg := Kind.split_regE hT hk hK
    rw [rel_split T _ _ _ hK, ih1 hreg.1, ih2 hreg.2]; rfl
  | set p q hK hp _ hq _ ihp ihq =>
    rename_i K k xs ys _ _
    have hke := Kind.setElem_regE hk hK
    cases xs with
    | nil =>
      cases ys with
      | nil => cases K <;> simp_all [Kind.setElem, ofList, rel]
      | cons y ys => exact absurd (hq y List.mem_cons_self) (by simp)
    | cons x xs =>
      simp only [ofList]
      rw [rel_setElem T _ _ hK, elems_ofList, elems_ofList]
      simp only [setRel, Bool.and_eq_true, List.all_eq_true, List.any_eq_true]
      exact ⟨fun a ha => ⟨p a, hp a ha, ihp a ha hke⟩, fun b hb => ⟨q b, hq b hb, ihq b hb hke⟩⟩

/-! ## constructor signatures -/

/-- every parameter of the constructor is stored in an attribute that `__eq__` of its family reads with a kind other
    than `skip` -/
def ctorOk (cr : CtorRow) : Bool :=
  cr.params.all fun pa =>
    match eqKindOfAttr cr.family pa.2 with
    | some k => k != .skip
    | none => false

theorem ctors_ok : ctors.all ctorOk = true := by decide

/-- the content attributes of LaneletNetwork / Scenario are rows as well -/
theorem content_ok (c : Cls) : (contentAttrs c).all (fun a =>
    match eqKindOfAttr c a with
    | some k => k != .skip
    | none => false) = true := by
  cases c <;> decide

end CR.EqHash
