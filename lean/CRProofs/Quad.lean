import CRProofs.Geom

/-!
  C06, rectangles in general position: the crossing-number test (with boundary inclusion) of the ring a rotated
  rectangle exports is the local box test.  Structure:
    * `rayCross_iff`  — an edge is crossed iff its end points straddle the ray's line and the point is strictly
                        left of an upward edge / strictly right of a downward edge (sign of `cross`);
    * `inRing_quad`   — normal form of `inRing` on a closed 4-ring, symmetric under cyclic shifts;
    * `rect_core`     — the case `0 < c`, `0 < s` (heights and sides in the local frame, then a finite linear case analysis);
    * `rect_rot`      — the same rectangle described with orientation + 90°: ring shifted by one vertex, same box;
    * `rect_ring_eq_box` — all `(c, s)` with `c² + s² = 1`.
-/
namespace CR.Geom

theorem rayCross_iff (a b p : Pt) : rayCross a b p = true ↔
    (¬((p.y < a.y) ↔ (p.y < b.y))) ∧ (if a.y < b.y then 0 < cross a b p else cross a b p < 0) := by
  unfold rayCross cross
  by_cases h : a.y < b.y
  · simp only [h, if_true, Bool.and_eq_true, bne_iff_ne, ne_eq, decide_eq_decide, decide_eq_true_eq]
    constructor <;> rintro ⟨h1, h2⟩ <;> exact ⟨h1, by linarith⟩
  · simp only [h, if_false, Bool.and_eq_true, bne_iff_ne, ne_eq, decide_eq_decide, decide_eq_true_eq]
    constructor <;> rintro ⟨h1, h2⟩ <;> exact ⟨h1, by linarith⟩

theorem onSeg_self_imp (a b p : Pt) (h : onSeg a a p = true) : onSeg a b p = true := by
  have := (seg_point p a).mp h
  have hp : p = a := by cases p; cases a; simp_all
  subst hp
  simp [onSeg, cross]

theorem rayCross_self (a p : Pt) : rayCross a a p = false := rayCross_of_not_straddle (by simp)

/-- Normal form of the ring test on a closed ring of four vertices. -/
theorem inRing_quad (q0 q1 q2 q3 p : Pt) : inRing [q0, q1, q2, q3, q0] p = true ↔
    (onSeg q0 q1 p = true ∨ onSeg q1 q2 p = true ∨ onSeg q2 q3 p = true ∨ onSeg q3 q0 p = true) ∨
    ¬(((rayCross q0 q1 p = true) ↔ (rayCross q1 q2 p = true)) ↔
      ((rayCross q2 q3 p = true) ↔ (rayCross q3 q0 p = true))) := by
  have hs := onSeg_self_imp q0 q1 p
  simp only [inRing, crossings, edges, List.cons_append, List.nil_append, List.zip_cons_cons, List.zip_nil_right,
    List.any_cons, List.any_nil, Bool.or_false, List.filter_cons, List.filter_nil, rayCross_self, Bool.false_eq_true,
    if_false, Bool.or_eq_true, beq_iff_eq]
  generalize rayCross q0 q1 p = r0
  generalize rayCross q1 q2 p = r1
  generalize rayCross q2 q3 p = r2
  generalize rayCross q3 q0 p = r3
  generalize onSeg q0 q0 p = s4 at hs ⊢
  generalize onSeg q0 q1 p = s0 at hs ⊢
  cases r0 <;> cases r1 <;> cases r2 <;> cases r3 <;> cases s4 <;> cases s0 <;> simp at hs ⊢

/-! ### the local frame -/

theorem place_y (ctr : Pt) (c s : Rat) (p : Pt) (h : c * c + s * s = 1) (u v : Rat)
    (hu : u = c * (p.x - ctr.x) + s * (p.y - ctr.y)) (hv : v = -(s * (p.x - ctr.x)) + c * (p.y - ctr.y)) (U V : Rat) :
    (place ctr c s ⟨U, V⟩).y = p.y + (s * (U - u) + c * (V - v)) := by
  subst hu hv; simp only [place]; linear_combination (p.y - ctr.y) * h

theorem place_x (ctr : Pt) (c s : Rat) (p : Pt) (h : c * c + s * s = 1) (u v : Rat)
    (hu : u = c * (p.x - ctr.x) + s * (p.y - ctr.y)) (hv : v = -(s * (p.x - ctr.x)) + c * (p.y - ctr.y)) (U V : Rat) :
    (place ctr c s ⟨U, V⟩).x = p.x + (c * (U - u) - s * (V - v)) := by
  subst hu hv; simp only [place]; linear_combination (p.x - ctr.x) * h

theorem sign_pos {k x : Rat} (hk : 0 < k) : (0 < k * x ↔ 0 < x) ∧ (k * x < 0 ↔ x < 0) := by
  refine ⟨mul_pos_iff_of_pos_left hk, ⟨fun h => ?_, fun h => mul_neg_of_pos_of_neg hk h⟩⟩
  by_contra hx; have := mul_nonneg hk.le (not_lt.mp hx); linarith

theorem sign_negmul {k x : Rat} (hk : 0 < k) : (0 < -k * x ↔ x < 0) ∧ (-k * x < 0 ↔ 0 < x) := by
  have := sign_pos (x := -x) hk
  constructor
  · rw [show -k * x = k * -x by ring, this.1]; exact neg_pos
  · rw [show -k * x = k * -x by ring, this.2]; exact neg_lt_zero

theorem straddle_up {y Ya Yb : Rat} (hab : Ya < Yb) : ¬((y < y + Ya) ↔ (y < y + Yb)) ↔ (Ya ≤ 0 ∧ 0 < Yb) := by
  constructor
  · intro h
    by_contra hc
    apply h
    constructor <;> intro h1
    · linarith
    · by_contra h2; exact hc ⟨by linarith, by linarith⟩
  · rintro ⟨h1, h2⟩ h; have := h.mpr (by linarith); linarith

theorem straddle_dn {y Ya Yb : Rat} (hab : Yb < Ya) : ¬((y < y + Ya) ↔ (y < y + Yb)) ↔ (Yb ≤ 0 ∧ 0 < Ya) := by
  rw [not_iff_not.mpr Iff.comm]; exact straddle_up hab

theorem le_zero_mul_pos {k x : Rat} (hk : 0 < k) : (k * x ≤ 0 ↔ x ≤ 0) ∧ (0 ≤ k * x ↔ 0 ≤ x) := by
  have := sign_pos (x := x) hk
  exact ⟨by rw [← not_lt, ← not_lt, this.1], by rw [← not_lt, ← not_lt, this.2]⟩

/-- `0` lies between `k·m` and `k·m'` iff it lies between `m` and `m'` (`k ≠ 0`, `m ≤ m'`). -/
theorem between0 {k m m' : Rat} (hk : k ≠ 0) (hm : m ≤ m') :
    ((k * m ≤ 0 ∨ k * m' ≤ 0) ∧ (0 ≤ k * m ∨ 0 ≤ k * m')) ↔ (m ≤ 0 ∧ 0 ≤ m') := by
  rcases lt_or_gt_of_ne hk with hk | hk
  · have e : ∀ x, (k * x ≤ 0 ↔ 0 ≤ x) ∧ (0 ≤ k * x ↔ x ≤ 0) := fun x => by
      have := le_zero_mul_pos (x := x) (neg_pos.mpr hk)
      constructor
      · rw [← this.2]; constructor <;> intro h <;> linarith
      · rw [← this.1]; constructor <;> intro h <;> linarith
    rw [(e m).1, (e m').1, (e m).2, (e m').2]
    constructor
    · rintro ⟨h1 | h1, h2 | h2⟩ <;> constructor <;> linarith
    · rintro ⟨h1, h2⟩; exact ⟨Or.inr h2, Or.inl h1⟩
  · rw [(le_zero_mul_pos hk).1, (le_zero_mul_pos hk).1, (le_zero_mul_pos hk).2, (le_zero_mul_pos hk).2]
    constructor
    · rintro ⟨h1 | h1, h2 | h2⟩ <;> constructor <;> linarith
    · rintro ⟨h1, h2⟩; exact ⟨Or.inl h1, Or.inr h2⟩

/-- `y` lies in the range spanned by `y + Ya`, `y + Yb` iff `0` lies between `Ya` and `Yb`. -/
theorem range_rel (y Ya Yb : Rat) :
    (min (y + Ya) (y + Yb) ≤ y ∧ y ≤ max (y + Ya) (y + Yb)) ↔ ((Ya ≤ 0 ∨ Yb ≤ 0) ∧ (0 ≤ Ya ∨ 0 ≤ Yb)) := by
  rw [min_le_iff, le_max_iff]
  constructor
  · rintro ⟨h1 | h1, h2 | h2⟩
    · exact ⟨Or.inl (by linarith), Or.inl (by linarith)⟩
    · exact ⟨Or.inl (by linarith), Or.inr (by linarith)⟩
    · exact ⟨Or.inr (by linarith), Or.inl (by linarith)⟩
    · exact ⟨Or.inr (by linarith), Or.inr (by linarith)⟩
  · rintro ⟨h1 | h1, h2 | h2⟩
    · exact ⟨Or.inl (by linarith), Or.inl (by linarith)⟩
    · exact ⟨Or.inl (by linarith), Or.inr (by linarith)⟩
    · exact ⟨Or.inr (by linarith), Or.inl (by linarith)⟩
    · exact ⟨Or.inr (by linarith), Or.inr (by linarith)⟩

/-- `onSeg` in coordinates relative to `p`. -/
theorem onSeg_rel (a b p : Pt) (Xa Ya Xb Yb : Rat) (hax : a.x = p.x + Xa) (hay : a.y = p.y + Ya)
    (hbx : b.x = p.x + Xb) (hby : b.y = p.y + Yb) :
    onSeg a b p = true ↔ cross a b p = 0 ∧ ((Xa ≤ 0 ∨ Xb ≤ 0) ∧ (0 ≤ Xa ∨ 0 ≤ Xb)) ∧
      ((Ya ≤ 0 ∨ Yb ≤ 0) ∧ (0 ≤ Ya ∨ 0 ≤ Yb)) := by
  simp only [onSeg, Bool.and_eq_true, decide_eq_true_eq]
  rw [hax, hay, hbx, hby, ← range_rel p.x Xa Xb, ← range_rel p.y Ya Yb]
  tauto

theorem between0r {k m m' : Rat} (hk : k ≠ 0) (hm : m' ≤ m) :
    ((k * m ≤ 0 ∨ k * m' ≤ 0) ∧ (0 ≤ k * m ∨ 0 ≤ k * m')) ↔ (m' ≤ 0 ∧ 0 ≤ m) := by
  rw [or_comm, or_comm (a := 0 ≤ k * m)]; exact between0 hk hm

/-- On the line `z = 0` of the local frame (`X = c·z − s·m`, `Y = s·z + c·m`): both coordinate ranges contain the
    point iff the local coordinate does. -/
theorem segA {c s : Rat} (hc : c ≠ 0) (hs : s ≠ 0) (z m m' : Rat) (hz : z = 0) :
    (((c * z - s * m ≤ 0 ∨ c * z - s * m' ≤ 0) ∧ (0 ≤ c * z - s * m ∨ 0 ≤ c * z - s * m')) ∧
      ((s * z + c * m ≤ 0 ∨ s * z + c * m' ≤ 0) ∧ (0 ≤ s * z + c * m ∨ 0 ≤ s * z + c * m'))) ↔
    ((m ≤ m' → m ≤ 0 ∧ 0 ≤ m') ∧ (m' ≤ m → m' ≤ 0 ∧ 0 ≤ m)) := by
  subst hz
  simp only [mul_zero, zero_sub, zero_add, ← neg_mul]
  rcases le_total m m' with hm | hm
  · rw [between0 (neg_ne_zero.mpr hs) hm, between0 hc hm]
    constructor
    · rintro ⟨h1, _⟩; exact ⟨fun _ => h1, fun h => ⟨by linarith, by linarith⟩⟩
    · rintro ⟨h1, _⟩; exact ⟨h1 hm, h1 hm⟩
  · rw [between0r (neg_ne_zero.mpr hs) hm, between0r hc hm]
    constructor
    · rintro ⟨h1, _⟩; exact ⟨fun h => ⟨by linarith, by linarith⟩, fun _ => h1⟩
    · rintro ⟨_, h1⟩; exact ⟨h1 hm, h1 hm⟩

theorem segB {c s : Rat} (hc : c ≠ 0) (hs : s ≠ 0) (z m m' : Rat) (hz : z = 0) :
    (((c * m - s * z ≤ 0 ∨ c * m' - s * z ≤ 0) ∧ (0 ≤ c * m - s * z ∨ 0 ≤ c * m' - s * z)) ∧
      ((s * m + c * z ≤ 0 ∨ s * m' + c * z ≤ 0) ∧ (0 ≤ s * m + c * z ∨ 0 ≤ s * m' + c * z))) ↔
    ((m ≤ m' → m ≤ 0 ∧ 0 ≤ m') ∧ (m' ≤ m → m' ≤ 0 ∧ 0 ≤ m)) := by
  subst hz
  simp only [mul_zero, sub_zero, add_zero]
  rcases le_total m m' with hm | hm
  · rw [between0 hc hm, between0 hs hm]
    constructor
    · rintro ⟨h1, _⟩; exact ⟨fun _ => h1, fun h => ⟨by linarith, by linarith⟩⟩
    · rintro ⟨h1, _⟩; exact ⟨h1 hm, h1 hm⟩
  · rw [between0r hc hm, between0r hs hm]
    constructor
    · rintro ⟨h1, _⟩; exact ⟨fun h => ⟨by linarith, by linarith⟩, fun _ => h1⟩
    · rintro ⟨_, h1⟩; exact ⟨h1 hm, h1 hm⟩

/-- The finite case analysis behind `rect_core`, over the four products `s·(∓a − u)`, `c·(∓b − v)` as atoms. -/
theorem quad_core (u v a b sA sA' cB cB' : Rat)
    (h1 : (0 < sA ↔ u < -a) ∧ (sA < 0 ↔ -a < u)) (h2 : (0 < sA' ↔ u < a) ∧ (sA' < 0 ↔ a < u))
    (h3 : (0 < cB ↔ v < -b) ∧ (cB < 0 ↔ -b < v)) (h4 : (0 < cB' ↔ v < b) ∧ (cB' < 0 ↔ b < v))
    (o1 : sA < sA') (o2 : cB < cB')
    (cr0 cr1 cr2 cr3 : Prop)
    (hc0 : cr0 ↔ sA + cB ≤ 0 ∧ 0 < sA + cB' ∧ u < -a)
    (hc1 : cr1 ↔ sA + cB' ≤ 0 ∧ 0 < sA' + cB' ∧ b < v)
    (hc2 : cr2 ↔ sA' + cB ≤ 0 ∧ 0 < sA' + cB' ∧ u < a)
    (hc3 : cr3 ↔ sA + cB ≤ 0 ∧ 0 < sA' + cB ∧ -b < v) :
    ((u = -a ∧ -b ≤ v ∧ v ≤ b) ∨ (v = b ∧ -a ≤ u ∧ u ≤ a) ∨ (u = a ∧ -b ≤ v ∧ v ≤ b) ∨ (v = -b ∧ -a ≤ u ∧ u ≤ a) ∨
      ¬((cr0 ↔ cr1) ↔ (cr2 ↔ cr3))) ↔ (-a ≤ u ∧ u ≤ a ∧ -b ≤ v ∧ v ≤ b) := by
  grind

/-- Rotated rectangle, orientation in the open first quadrant: ring test of the exported vertices = box. -/
theorem rect_core (l w : Rat) (ctr : Pt) (c s : Rat) (p : Pt) (hl : 0 < l) (hw : 0 < w) (hc : 0 < c) (hs : 0 < s)
    (h : c * c + s * s = 1) : rectContains l w ctr c s p = inBox l w ctr c s p := by
  obtain ⟨u, hu⟩ : ∃ u, u = c * (p.x - ctr.x) + s * (p.y - ctr.y) := ⟨_, rfl⟩
  obtain ⟨v, hv⟩ : ∃ v, v = -(s * (p.x - ctr.x)) + c * (p.y - ctr.y) := ⟨_, rfl⟩
  have py := place_y ctr c s p h u v hu hv
  have px := place_x ctr c s p h u v hu hv
  have hcw := mul_pos hc hw
  have hsl := mul_pos hs hl
  have hcl := mul_pos hc hl
  have hsw := mul_pos hs hw
  -- the four crossings
  have r0 : rayCross (place ctr c s ⟨-(l / 2), -(w / 2)⟩) (place ctr c s ⟨-(l / 2), w / 2⟩) p = true ↔
      s * (-(l / 2) - u) + c * (-(w / 2) - v) ≤ 0 ∧ 0 < s * (-(l / 2) - u) + c * (w / 2 - v) ∧ u < -(l / 2) := by
    rw [rayCross_iff, cross_q0q1 l w ctr c s p h, ← hu, py, py, if_pos (by linarith), straddle_up (by linarith),
      (sign_negmul hw).1]
    constructor
    · rintro ⟨⟨h1, h2⟩, h3⟩; exact ⟨h1, h2, by linarith⟩
    · rintro ⟨h1, h2, h3⟩; exact ⟨⟨h1, h2⟩, by linarith⟩
  have r1 : rayCross (place ctr c s ⟨-(l / 2), w / 2⟩) (place ctr c s ⟨l / 2, w / 2⟩) p = true ↔
      s * (-(l / 2) - u) + c * (w / 2 - v) ≤ 0 ∧ 0 < s * (l / 2 - u) + c * (w / 2 - v) ∧ w / 2 < v := by
    rw [rayCross_iff, cross_q1q2 l w ctr c s p h, ← hv, py, py, if_pos (by linarith), straddle_up (by linarith),
      (sign_pos hl).1]
    constructor
    · rintro ⟨⟨h1, h2⟩, h3⟩; exact ⟨h1, h2, by linarith⟩
    · rintro ⟨h1, h2, h3⟩; exact ⟨⟨h1, h2⟩, by linarith⟩
  have r2 : rayCross (place ctr c s ⟨l / 2, w / 2⟩) (place ctr c s ⟨l / 2, -(w / 2)⟩) p = true ↔
      s * (l / 2 - u) + c * (-(w / 2) - v) ≤ 0 ∧ 0 < s * (l / 2 - u) + c * (w / 2 - v) ∧ u < l / 2 := by
    rw [rayCross_iff, cross_q2q3 l w ctr c s p h, ← hu, py, py, if_neg (by linarith), straddle_dn (by linarith),
      (sign_pos hw).2]
    constructor
    · rintro ⟨⟨h1, h2⟩, h3⟩; exact ⟨h1, h2, by linarith⟩
    · rintro ⟨h1, h2, h3⟩; exact ⟨⟨h1, h2⟩, by linarith⟩
  have r3 : rayCross (place ctr c s ⟨l / 2, -(w / 2)⟩) (place ctr c s ⟨-(l / 2), -(w / 2)⟩) p = true ↔
      s * (-(l / 2) - u) + c * (-(w / 2) - v) ≤ 0 ∧ 0 < s * (l / 2 - u) + c * (-(w / 2) - v) ∧ -(w / 2) < v := by
    rw [rayCross_iff, cross_q3q0 l w ctr c s p h, ← hv, py, py, if_neg (by linarith), straddle_dn (by linarith),
      (sign_negmul hl).2]
    constructor
    · rintro ⟨⟨h1, h2⟩, h3⟩; exact ⟨h1, h2, by linarith⟩
    · rintro ⟨h1, h2, h3⟩; exact ⟨⟨h1, h2⟩, by linarith⟩
  -- the four edges
  have g0 : onSeg (place ctr c s ⟨-(l / 2), -(w / 2)⟩) (place ctr c s ⟨-(l / 2), w / 2⟩) p = true ↔
      u = -(l / 2) ∧ -(w / 2) ≤ v ∧ v ≤ w / 2 := by
    rw [onSeg_rel _ _ p _ _ _ _ (px _ _) (py _ _) (px _ _) (py _ _), cross_q0q1 l w ctr c s p h, ← hu]
    constructor
    · rintro ⟨hz, hxy⟩
      have hz' : -(l / 2) - u = 0 := by rcases mul_eq_zero.mp hz with h' | h' <;> linarith
      have := ((segA hc.ne' hs.ne' _ _ _ hz').mp hxy).1 (by linarith)
      exact ⟨by linarith, by linarith, by linarith⟩
    · rintro ⟨h1, h2, h3⟩
      have hz' : -(l / 2) - u = 0 := by linarith
      exact ⟨by rw [h1]; ring, (segA hc.ne' hs.ne' _ _ _ hz').mpr
        ⟨fun _ => ⟨by linarith, by linarith⟩, fun hh => by exfalso; linarith⟩⟩
  have g1 : onSeg (place ctr c s ⟨-(l / 2), w / 2⟩) (place ctr c s ⟨l / 2, w / 2⟩) p = true ↔
      v = w / 2 ∧ -(l / 2) ≤ u ∧ u ≤ l / 2 := by
    rw [onSeg_rel _ _ p _ _ _ _ (px _ _) (py _ _) (px _ _) (py _ _), cross_q1q2 l w ctr c s p h, ← hv]
    constructor
    · rintro ⟨hz, hxy⟩
      have hz' : w / 2 - v = 0 := by rcases mul_eq_zero.mp hz with h' | h' <;> linarith
      have := ((segB hc.ne' hs.ne' _ _ _ hz').mp hxy).1 (by linarith)
      exact ⟨by linarith, by linarith, by linarith⟩
    · rintro ⟨h1, h2, h3⟩
      have hz' : w / 2 - v = 0 := by linarith
      exact ⟨by rw [h1]; ring, (segB hc.ne' hs.ne' _ _ _ hz').mpr
        ⟨fun _ => ⟨by linarith, by linarith⟩, fun hh => by exfalso; linarith⟩⟩
  have g2 : onSeg (place ctr c s ⟨l / 2, w / 2⟩) (place ctr c s ⟨l / 2, -(w / 2)⟩) p = true ↔
      u = l / 2 ∧ -(w / 2) ≤ v ∧ v ≤ w / 2 := by
    rw [onSeg_rel _ _ p _ _ _ _ (px _ _) (py _ _) (px _ _) (py _ _), cross_q2q3 l w ctr c s p h, ← hu]
    constructor
    · rintro ⟨hz, hxy⟩
      have hz' : l / 2 - u = 0 := by rcases mul_eq_zero.mp hz with h' | h' <;> linarith
      have := ((segA hc.ne' hs.ne' _ _ _ hz').mp hxy).2 (by linarith)
      exact ⟨by linarith, by linarith, by linarith⟩
    · rintro ⟨h1, h2, h3⟩
      have hz' : l / 2 - u = 0 := by linarith
      exact ⟨by rw [h1]; ring, (segA hc.ne' hs.ne' _ _ _ hz').mpr
        ⟨fun hh => by exfalso; linarith, fun _ => ⟨by linarith, by linarith⟩⟩⟩
  have g3 : onSeg (place ctr c s ⟨l / 2, -(w / 2)⟩) (place ctr c s ⟨-(l / 2), -(w / 2)⟩) p = true ↔
      v = -(w / 2) ∧ -(l / 2) ≤ u ∧ u ≤ l / 2 := by
    rw [onSeg_rel _ _ p _ _ _ _ (px _ _) (py _ _) (px _ _) (py _ _), cross_q3q0 l w ctr c s p h, ← hv]
    constructor
    · rintro ⟨hz, hxy⟩
      have hz' : -(w / 2) - v = 0 := by rcases mul_eq_zero.mp hz with h' | h' <;> linarith
      have := ((segB hc.ne' hs.ne' _ _ _ hz').mp hxy).2 (by linarith)
      exact ⟨by linarith, by linarith, by linarith⟩
    · rintro ⟨h1, h2, h3⟩
      have hz' : -(w / 2) - v = 0 := by linarith
      exact ⟨by rw [h1]; ring, (segB hc.ne' hs.ne' _ _ _ hz').mpr
        ⟨fun hh => by exfalso; linarith, fun _ => ⟨by linarith, by linarith⟩⟩⟩
  -- signs of the four products
  have f1 : (0 < s * (-(l / 2) - u) ↔ u < -(l / 2)) ∧ (s * (-(l / 2) - u) < 0 ↔ -(l / 2) < u) :=
    ⟨by rw [(sign_pos hs).1]; constructor <;> intro <;> linarith, by rw [(sign_pos hs).2]; constructor <;> intro <;> linarith⟩
  have f2 : (0 < s * (l / 2 - u) ↔ u < l / 2) ∧ (s * (l / 2 - u) < 0 ↔ l / 2 < u) :=
    ⟨by rw [(sign_pos hs).1]; constructor <;> intro <;> linarith, by rw [(sign_pos hs).2]; constructor <;> intro <;> linarith⟩
  have f3 : (0 < c * (-(w / 2) - v) ↔ v < -(w / 2)) ∧ (c * (-(w / 2) - v) < 0 ↔ -(w / 2) < v) :=
    ⟨by rw [(sign_pos hc).1]; constructor <;> intro <;> linarith, by rw [(sign_pos hc).2]; constructor <;> intro <;> linarith⟩
  have f4 : (0 < c * (w / 2 - v) ↔ v < w / 2) ∧ (c * (w / 2 - v) < 0 ↔ w / 2 < v) :=
    ⟨by rw [(sign_pos hc).1]; constructor <;> intro <;> linarith, by rw [(sign_pos hc).2]; constructor <;> intro <;> linarith⟩
  rw [Bool.eq_iff_iff]
  unfold rectContains rectVerts
  rw [inRing_quad, r0, r1, r2, r3, g0, g1, g2, g3]
  simp only [inBox, Bool.and_eq_true, decide_eq_true_eq, ← hu, ← hv, or_assoc, and_assoc]
  exact quad_core u v (l / 2) (w / 2) _ _ _ _ f1 f2 f3 f4 (by linarith) (by linarith) _ _ _ _ Iff.rfl Iff.rfl Iff.rfl Iff.rfl

/-! ### the same rectangle described with orientation + 90° -/

theorem inRing_quad_shift (q0 q1 q2 q3 p : Pt) :
    inRing [q3, q0, q1, q2, q3] p = inRing [q0, q1, q2, q3, q0] p := by
  rw [Bool.eq_iff_iff, inRing_quad, inRing_quad]
  generalize onSeg q0 q1 p = a0
  generalize onSeg q1 q2 p = a1
  generalize onSeg q2 q3 p = a2
  generalize onSeg q3 q0 p = a3
  generalize rayCross q0 q1 p = r0
  generalize rayCross q1 q2 p = r1
  generalize rayCross q2 q3 p = r2
  generalize rayCross q3 q0 p = r3
  cases a0 <;> cases a1 <;> cases a2 <;> cases a3 <;> cases r0 <;> cases r1 <;> cases r2 <;> cases r3 <;> simp

theorem rect_rot (l w : Rat) (ctr : Pt) (c s : Rat) (p : Pt) :
    rectContains w l ctr (-s) c p = rectContains l w ctr c s p := by
  have e0 : place ctr (-s) c ⟨-(w / 2), -(l / 2)⟩ = place ctr c s ⟨l / 2, -(w / 2)⟩ := by
    simp only [place, Pt.mk.injEq]; constructor <;> ring
  have e1 : place ctr (-s) c ⟨-(w / 2), l / 2⟩ = place ctr c s ⟨-(l / 2), -(w / 2)⟩ := by
    simp only [place, Pt.mk.injEq]; constructor <;> ring
  have e2 : place ctr (-s) c ⟨w / 2, l / 2⟩ = place ctr c s ⟨-(l / 2), w / 2⟩ := by
    simp only [place, Pt.mk.injEq]; constructor <;> ring
  have e3 : place ctr (-s) c ⟨w / 2, -(l / 2)⟩ = place ctr c s ⟨l / 2, w / 2⟩ := by
    simp only [place, Pt.mk.injEq]; constructor <;> ring
  unfold rectContains rectVerts
  rw [e0, e1, e2, e3]
  exact inRing_quad_shift _ _ _ _ p

theorem inBox_rot (l w : Rat) (ctr : Pt) (c s : Rat) (p : Pt) :
    inBox w l ctr (-s) c p = inBox l w ctr c s p := by
  rw [Bool.eq_iff_iff]
  simp only [inBox, Bool.and_eq_true, decide_eq_true_eq]
  constructor <;> rintro ⟨⟨⟨h1, h2⟩, h3⟩, h4⟩ <;> refine ⟨⟨⟨?_, ?_⟩, ?_⟩, ?_⟩ <;> linarith

/-- Orientation in the half-open first quadrant `0 < c`, `0 ≤ s`. -/
theorem rect_base (l w : Rat) (ctr : Pt) (c s : Rat) (p : Pt) (hl : 0 < l) (hw : 0 < w) (hc : 0 < c) (hs : 0 ≤ s)
    (h : c * c + s * s = 1) : rectContains l w ctr c s p = inBox l w ctr c s p := by
  rcases lt_or_eq_of_le hs with hs | hs
  · exact rect_core l w ctr c s p hl hw hc hs h
  · subst hs
    have hc1 : c = 1 := by nlinarith
    subst hc1
    exact rect_axis l w hl hw ctr p

/-- A rectangle at ANY pose: the crossing-number test (with boundary inclusion) of the ring it exports is the
    `l`-by-`w` box at that pose. -/
theorem rect_ring_eq_box (l w : Rat) (ctr : Pt) (c s : Rat) (p : Pt) (hl : 0 < l) (hw : 0 < w)
    (h : c * c + s * s = 1) : rectContains l w ctr c s p = inBox l w ctr c s p := by
  by_cases h0 : 0 < c ∧ 0 ≤ s
  · exact rect_base l w ctr c s p hl hw h0.1 h0.2 h
  by_cases h1 : 0 < s
  · -- c ≤ 0 < s: (c, s) is (s, -c) turned by 90°
    have hc : c ≤ 0 := by by_contra hc; exact h0 ⟨not_le.mp hc, h1.le⟩
    have := rect_base w l ctr s (-c) p hw hl h1 (by linarith) (by nlinarith)
    rw [← rect_rot w l ctr s (-c) p, ← inBox_rot w l ctr s (-c) p, neg_neg] at this
    exact this
  by_cases h2 : c < 0
  · -- c < 0, s ≤ 0: (c, s) is (-c, -s) turned by 180°
    have := rect_base l w ctr (-c) (-s) p hl hw (by linarith) (by linarith) (by nlinarith)
    rw [← rect_rot l w ctr (-c) (-s) p, ← inBox_rot l w ctr (-c) (-s) p, neg_neg,
      ← rect_rot w l ctr s (-c) p, ← inBox_rot w l ctr s (-c) p, neg_neg] at this
    exact this
  · -- 0 ≤ c, s < 0: (-s, c) is in the base range
    have hc : 0 ≤ c := not_lt.mp h2
    have hs : s ≤ 0 := not_lt.mp h1
    have hs' : s < 0 := by
      rcases lt_or_eq_of_le hs with hs' | hs'
      · exact hs'
      · exfalso; subst hs'
        have : c ≠ 0 := by intro hc0; subst hc0; norm_num at h
        exact h0 ⟨lt_of_le_of_ne hc (Ne.symm this), le_refl _⟩
    have := rect_base w l ctr (-s) c p hw hl (by linarith) hc (by nlinarith)
    rw [rect_rot l w ctr c s p, inBox_rot l w ctr c s p] at this
    exact this

end CR.Geom
