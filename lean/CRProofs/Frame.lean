/-
  CRProofs.Frame — helper lemmas for C18 (model: CRModel/Frame.lean).
  Part A: every operation leaves the observable part unchanged.
  Part B: every operation keeps the hidden caches consistent (`St.Inv`).
  Part C: under `St.Inv` the answer of an operation is a function of the observable part.
-/
import CRModel.Frame
namespace CR.Frame

/-! ### Part A — observation frame (of the code as it is: the default variant `Sem.repaired`) -/

/-- what the switches select in the default variant -/
theorem harmonizeOf_eq : (harmonizeOf : Heap → Nat → List String → List String → Int → Int → Heap × Nat × List String) = harmonize := rfl
theorem dynByTimeOf_eq (l : Lanelet) (t : Int) : l.dynByTimeOf t = l.dynByTime t := rfl
theorem mergeRegsOf_eq : (mergeRegsOf : Regs → Regs → Regs × Regs) = mergeRegs := rfl
theorem pbLook_eq : (pbLook : Option Tbl → Nat → Option Tbl × Res (List Nat)) = goalLanelets := rfl

theorem map_eq_bind_pure {α β : Type} (x : Res α) (f : α → β) : (x >>= fun a => pure (f a)) = f <$> x := by
  cases x <;> rfl

/-- the repaired occupancy computation hands the trajectory's states back as they were (and computes `createOccs`) -/
theorem createOccLoop_eq (sh : Int) (ss : List TState) : ∀ i, createOccLoop sh ss i = (ss, createOccs sh ss) := by
  induction ss with
  | nil => intro i; rfl
  | cons s rest ih =>
    intro i
    have hsem : instSem.occWritesOrientation = false := rfl
    simp only [createOccLoop, ih, createOccs, List.mapM_cons, hsem, Bool.false_eq_true, if_false]
    split
    · cases h : occOfState sh s with
      | error e => rfl
      | ok o => simp only [bind, Except.bind]; rfl
    · rename_i hattr
      simp only [occOfState, stateOri, hattr, Bool.false_eq_true, if_false]
      cases h1 : s.getattr "velocity_y" with
      | error e => rfl
      | ok vy =>
        cases h2 : s.getattr "velocity" with
        | error e => rfl
        | ok v =>
          cases h3 : s.getattr "position" with
          | error e => rfl
          | ok p => cases hm : List.mapM (occOfState sh) rest <;> rfl

theorem createOccSet_eq (sh : Int) (ss : List TState) : createOccSet sh ss = (ss, createOccs sh ss) :=
  createOccLoop_eq sh ss 0

theorem Pred.obs_obs (p : Pred) : p.obs.obs = p.obs := by
  cases p <;> rfl

theorem Pred.occSet_obs (p : Pred) : p.occSet.1.obs = p.obs := by
  match p with
  | .absent => rfl
  | .setBased _ => rfl
  | .traj _ _ _ (some _) => rfl
  | .traj t1 ss sh none =>
    simp only [Pred.occSet, createOccSet_eq]
    split <;> rfl

theorem Pred.occAt_obs (p : Pred) (t : Int) : (p.occAt t).1.obs = p.obs := by
  simp only [Pred.occAt]
  exact Pred.occSet_obs p

theorem Obstacle.occAt_obs (o : Obstacle) (t : Int) : (o.occAt t).1.obs = o.obs := by
  match o with
  | .static _ _ _ => rfl
  | .environment _ _ => rfl
  | .dynamic i init r p =>
    simp only [Obstacle.occAt]
    split
    · rfl
    · split
      · simp only [Obstacle.obs, Pred.occAt_obs]
      · rfl
  | .phantom i p =>
    simp only [Obstacle.occAt]
    split
    · rfl
    · split
      · simp only [Obstacle.obs, Pred.occAt_obs]
      · simp only [Obstacle.obs, Pred.occAt_obs]
      · simp only [Obstacle.obs, Pred.occAt_obs]

theorem withObstacle_obs {α : Type} (f : Obstacle → Obstacle × Res α) (hf : ∀ o, (f o).1.obs = o.obs)
    (os : List Obstacle) (oid : Nat) :
    (withObstacle os oid f).1.map Obstacle.obs = os.map Obstacle.obs := by
  induction os with
  | nil => rfl
  | cons o rest ih =>
    simp only [withObstacle]
    split
    · simp only [List.map_cons, hf]
    · simp only [List.map_cons, ih]

theorem occsLoop_obs (t : Int) (role : Option Role) (os : List Obstacle) :
    (occsLoop t role os).1.map Obstacle.obs = os.map Obstacle.obs := by
  induction os with
  | nil => rfl
  | cons o rest ih =>
    simp only [occsLoop]
    split
    · split
      · simp only [List.map_cons, Obstacle.occAt_obs]
      · simp only [List.map_cons, Obstacle.occAt_obs, ih]
      · split
        · simp only [List.map_cons, Obstacle.occAt_obs]
        · simp only [List.map_cons, Obstacle.occAt_obs, ih]
    · simp only [List.map_cons, ih]

theorem Obstacle.occSet_obs (o : Obstacle) : o.occSet.1.obs = o.obs := by
  cases o <;> simp only [Obstacle.occSet, Obstacle.obs, Pred.occSet_obs]

theorem touchOccSet_obs (o : Obstacle) : (touchOccSet o).1.obs = o.obs := by
  cases o <;> simp only [touchOccSet, Obstacle.obs, Pred.occSet_obs]

theorem runOccQs_obs (qs : List Nat) (os : List Obstacle) :
    (runOccQs qs os).map Obstacle.obs = os.map Obstacle.obs := by
  induction qs generalizing os with
  | nil => rfl
  | cons q rest ih =>
    simp only [runOccQs]
    rw [ih, withObstacle_obs _ touchOccSet_obs]

theorem Light.stateAt_obs (l : Light) (t : Int) : (l.stateAt t).1.obs = l.obs := rfl

theorem withLight_obs (ls : List Light) (lid : Nat) (t : Int) :
    (withLight ls lid t).1.map Light.obs = ls.map Light.obs := by
  induction ls with
  | nil => rfl
  | cons l rest ih =>
    simp only [withLight]
    split
    · simp only [List.map_cons, Light.stateAt_obs]
    · simp only [List.map_cons, ih]

theorem runLightQsAt_obs (t : Int) (qs : List Nat) (ls : List Light) :
    (runLightQsAt t qs ls).map Light.obs = ls.map Light.obs := by
  induction qs generalizing ls with
  | nil => rfl
  | cons q rest ih =>
    simp only [runLightQsAt]
    rw [ih, withLight_obs]

theorem runLightQs_obs (qs : List Nat) (ls : List Light) :
    (runLightQs qs ls).map Light.obs = ls.map Light.obs := runLightQsAt_obs 0 qs ls

/-- a key that `in` finds is found by the lookup -/
theorem lookup_of_any {β : Type} (l : List (Nat × β)) (k : Nat) (h : l.any (fun x => x.1 == k) = true) :
    ∃ v, l.lookup k = some v := by
  induction l with
  | nil => simp at h
  | cons kv rest ih =>
    obtain ⟨k', v'⟩ := kv
    simp only [List.any_cons, Bool.or_eq_true, beq_iff_eq] at h
    by_cases hk : k = k'
    · exact ⟨v', by simp [List.lookup, hk]⟩
    · rcases h with h | h
      · exact absurd h.symm hk
      · obtain ⟨v, hv⟩ := ih h
        have hb : (k == k') = false := by simpa using hk
        exact ⟨v, by simp only [List.lookup, hb, hv]⟩

theorem Tbl.lookup_of_contains (t : Tbl) (k : Nat) (h : t.contains k = true) : ∃ v, t.items.lookup k = some v :=
  lookup_of_any t.items k h

/-- the writers' lookup never changes the goal-lanelet table and never fails -/
theorem goalLanelets_tbl (tbl : Option Tbl) (i : Nat) : (goalLanelets tbl i).1 = tbl := by
  match tbl with
  | none => rfl
  | some t =>
    simp only [goalLanelets]
    split
    · rename_i h
      obtain ⟨v, hv⟩ := Tbl.lookup_of_contains t i h
      simp only [Tbl.getItem, hv]
    · rfl

theorem goalLanelets_ok (tbl : Option Tbl) (i : Nat) : ∃ ids, (goalLanelets tbl i).2 = .ok ids := by
  match tbl with
  | none => exact ⟨[], rfl⟩
  | some t =>
    simp only [goalLanelets]
    split
    · rename_i h
      obtain ⟨v, hv⟩ := Tbl.lookup_of_contains t i h
      exact ⟨v, by simp only [Tbl.getItem, hv]⟩
    · exact ⟨[], rfl⟩

theorem goalLoop_tbl (posOnly : Bool) (tbl : Option Tbl) (goals : List Bool) (i : Nat) :
    (goalLoop goalLanelets posOnly tbl goals i).1 = tbl := by
  induction goals generalizing tbl i with
  | nil => rfl
  | cons g rest ih =>
    simp only [goalLoop]
    have h1 := goalLanelets_tbl tbl i
    obtain ⟨ids, h2⟩ := goalLanelets_ok tbl i
    generalize goalLanelets tbl i = r at h1 h2
    obtain ⟨t1, r1⟩ := r
    simp only at h1 h2
    subst h1 h2
    simp only [ih]

theorem goalLoop_ok (posOnly : Bool) (tbl : Option Tbl) (goals : List Bool) (i : Nat) :
    ∃ l, (goalLoop goalLanelets posOnly tbl goals i).2 = .ok l := by
  induction goals generalizing tbl i with
  | nil => exact ⟨[], rfl⟩
  | cons g rest ih =>
    simp only [goalLoop]
    have h1 := goalLanelets_tbl tbl i
    obtain ⟨ids, h2⟩ := goalLanelets_ok tbl i
    generalize goalLanelets tbl i = r at h1 h2
    obtain ⟨t1, r1⟩ := r
    simp only at h1 h2
    subst h1 h2
    obtain ⟨l, hl⟩ := ih t1 (i + 1)
    exact ⟨_ :: l, by rw [hl]; rfl⟩

theorem Problem.write_fst (posOnly : Bool) (p : Problem) : (p.write goalLanelets posOnly).1 = p := by
  simp only [Problem.write, goalLoop_tbl]

theorem Problem.write_ok (posOnly : Bool) (p : Problem) : ∃ x, (p.write goalLanelets posOnly).2 = .ok x := by
  obtain ⟨l, hl⟩ := goalLoop_ok posOnly p.tbl p.hasPos 0
  exact ⟨⟨p.id, p.init.used, p.goals, l⟩, by simp only [Problem.write, hl]; rfl⟩

theorem problemsWrite_fst (posOnly : Bool) (ps : List Problem) : (problemsWrite goalLanelets posOnly ps).1 = ps := by
  induction ps with
  | nil => rfl
  | cons p rest ih =>
    simp only [problemsWrite]
    have h1 := Problem.write_fst posOnly p
    obtain ⟨x, h2⟩ := Problem.write_ok posOnly p
    generalize p.write goalLanelets posOnly = r at h1 h2
    obtain ⟨p1, r1⟩ := r
    simp only at h1 h2
    subst h1 h2
    simp only [ih]

theorem problemsWrite_ok (posOnly : Bool) (ps : List Problem) : ∃ l, (problemsWrite goalLanelets posOnly ps).2 = .ok l := by
  induction ps with
  | nil => exact ⟨[], rfl⟩
  | cons p rest ih =>
    simp only [problemsWrite]
    have h1 := Problem.write_fst posOnly p
    obtain ⟨x, h2⟩ := Problem.write_ok posOnly p
    generalize p.write goalLanelets posOnly = r at h1 h2
    obtain ⟨p1, r1⟩ := r
    simp only at h1 h2
    subst h1 h2
    obtain ⟨l, hl⟩ := ih
    exact ⟨x :: l, by rw [hl]; rfl⟩

theorem St.write_ok (posOnly wp : Bool) (s : St) : ∃ f, (s.write goalLanelets posOnly wp).2 = .ok f := by
  simp only [St.write]
  split
  · obtain ⟨l, hl⟩ := problemsWrite_ok posOnly s.problems
    exact ⟨_, by rw [hl]; rfl⟩
  · exact ⟨_, rfl⟩

theorem St.write_fst (posOnly wp : Bool) (s : St) : (s.write goalLanelets posOnly wp).1 = s := by
  simp only [St.write]
  split
  · simp only [problemsWrite_fst]
  · rfl

theorem Net.deepcopy_lanelets (n : Net) : n.deepcopy.1.lanelets = n.lanelets := rfl
theorem Net.pickle_fst (n : Net) : n.pickle.1 = n := rfl

/-! #### goal checks: the caller's state (slot 0 of the store) is never written -/

theorem harmonize_frame (h : Heap) (r : Nat) (sf gf : List String) (v o : Int) :
    h.length ≤ (harmonize h r sf gf v o).1.length ∧
    ∀ i, i < h.length → (harmonize h r sf gf v o).1[i]? = h[i]? := by
  unfold harmonize
  simp only []
  split
  · split
    · constructor
      · simp only [List.length_append, List.length_cons, List.length_nil]; omega
      · intro i hi
        rw [List.getElem?_append_left (by simp only [List.length_append, List.length_cons, List.length_nil]; omega),
            List.getElem?_append_left hi]
    · constructor
      · simp only [List.length_modify, List.length_append, List.length_cons, List.length_nil]; omega
      · intro i hi
        rw [List.getElem?_modify]
        have hne : ¬ h.length = i := by omega
        simp only [hne, if_false, List.getElem?_append_left hi]
        cases h[i]? <;> rfl
  · constructor
    · simp only [List.length_append, List.length_cons, List.length_nil]; omega
    · intro i hi
      exact List.getElem?_append_left hi

theorem reachedLoop_frame (r : Nat) (gs : List (List String)) :
    ∀ (h : Heap) (dec : List (Res Bool)) (i : Nat), i < h.length → (reachedLoop harmonize h r gs dec).1[i]? = h[i]? := by
  induction gs with
  | nil => intro h dec i _; rfl
  | cons g gs ih =>
    intro h dec i hi
    have hf := harmonize_frame h r (h.getD r default).fields g (-1) (-2)
    simp only [reachedLoop]
    split
    · exact hf.2 i hi
    · split
      · exact hf.2 i hi
      · rw [ih _ _ i (by omega)]
        exact hf.2 i hi

/-- `GoalRegion.is_reached` hands the checked state back as it was: same attributes, same order, same values -/
theorem isReached_fst (goals : List (List String)) (st : TState) (dec : List (Res Bool)) : (isReached goals st dec).1 = st := by
  have h0 := reachedLoop_frame 0 goals [st] dec 0 (by simp)
  simp only [isReached, harmonizeOf_eq, List.getD_eq_getElem?_getD, h0]
  rfl

theorem zipDec_map_fst (ss : List TState) (ds : List (List (Res Bool))) : (zipDec ss ds).map (·.1) = ss := by
  induction ss generalizing ds with
  | nil => rfl
  | cons s ss ih =>
    cases ds with
    | nil => simp only [zipDec, List.map_cons, ih]
    | cons d ds => simp only [zipDec, List.map_cons, ih]

theorem grLoop_fst (goals : List (List String)) (l : List (TState × List (Res Bool))) : (grLoop goals l).1 = l.map (·.1) := by
  induction l with
  | nil => rfl
  | cons x rest ih =>
    obtain ⟨st, dec⟩ := x
    simp only [grLoop]
    split <;> simp only [List.map_cons, isReached_fst, ih]

/-- `PlanningProblem.goal_reached` hands every state of the trajectory back as it was -/
theorem goalReachedStates_fst (goals : List (List String)) (ss : List TState) (ds : List (List (Res Bool))) :
    (goalReachedStates goals ss ds).1 = ss := by
  simp only [goalReachedStates, grLoop_fst, List.map_reverse, List.reverse_reverse, zipDec_map_fst]

theorem set_of_getElem? {α : Type} (l : List α) (k : Nat) (a : α) (h : l[k]? = some a) : l.set k a = l := by
  induction l generalizing k with
  | nil => rfl
  | cons x rest ih =>
    cases k with
    | zero =>
      simp only [List.getElem?_cons_zero, Option.some.injEq] at h
      simp only [List.set_cons_zero, h]
    | succ k =>
      simp only [List.getElem?_cons_succ] at h
      simp only [List.set_cons_succ, ih k h]

theorem Obstacle.reach_fst (goals : List (List String)) (ix : Option Nat) (dec : List (Res Bool)) (o : Obstacle) :
    (o.reach goals ix dec).1 = o := by
  unfold Obstacle.reach
  split
  · simp only [isReached_fst]
  · simp only [isReached_fst]
  · split
    · rfl
    · rename_i st hst
      simp only [isReached_fst, set_of_getElem? _ _ _ hst]
  · rfl

theorem Obstacle.goalReach_fst (goals : List (List String)) (decs : List (List (Res Bool))) (o : Obstacle) :
    (o.goalReach goals decs).1 = o := by
  unfold Obstacle.goalReach
  split
  · simp only [goalReachedStates_fst]
  · rfl

theorem withObstacle_fst {α : Type} (f : Obstacle → Obstacle × Res α) (hf : ∀ o, (f o).1 = o) (os : List Obstacle) (oid : Nat) :
    (withObstacle os oid f).1 = os := by
  induction os with
  | nil => rfl
  | cons o rest ih =>
    simp only [withObstacle]
    split
    · simp only [hf]
    · simp only [ih]

theorem withProblem_fst {α : Type} (f : Problem → Problem × Res α) (hf : ∀ p, (f p).1 = p) (ps : List Problem) (pid : Nat) :
    (withProblem ps pid f).1 = ps := by
  induction ps with
  | nil => rfl
  | cons p rest ih =>
    simp only [withProblem]
    split
    · simp only [hf]
    · simp only [ih]

/-! #### operations that read occupancies -/

theorem occQueries_obs (qs : List Q) : ∀ (os : List Obstacle), (occQueries qs os).1.map Obstacle.obs = os.map Obstacle.obs := by
  induction qs with
  | nil => intro os; rfl
  | cons q rest ih =>
    intro os
    cases q with
    | fail e => rfl
    | occ oid t must =>
      have h1 := withObstacle_obs _ (fun o => Obstacle.occAt_obs o t) os oid
      simp only [occQueries]
      split
      · exact h1
      · split
        · exact h1
        · rw [ih, h1]

theorem renderLights_obs (tb : Int) (ls : List Light) : (renderLights tb ls).map Light.obs = ls.map Light.obs := by
  induction ls with
  | nil => rfl
  | cons l rest ih =>
    simp only [renderLights, List.map_cons, ih]
    split <;> rfl

/-! #### lanelet registries -/

theorem setRegs_self (ls : List Lanelet) (lid : Nat) (l : Lanelet) (h : findLanelet ls lid = some l) :
    setRegs ls lid l.regs = ls := by
  induction ls with
  | nil => rfl
  | cons x rest ih =>
    simp only [findLanelet, List.find?_cons] at h
    simp only [setRegs]
    split at h
    · rename_i hx
      simp only [Option.some.injEq] at h
      subst h
      simp only [hx, if_true, Lanelet.regs]
    · rename_i hx
      have hx' : (x.id == lid) = false := by simpa using hx
      simp only [hx', Bool.false_eq_true, if_false]
      rw [ih h]

theorem Lanelet.dynByTime_fst (l : Lanelet) (t : Int) : (l.dynByTime t).1 = l := by
  unfold Lanelet.dynByTime
  split <;> rfl

theorem mergePath_fst_false (ls : List Lanelet) (path : List Nat) :
    ∀ (first cur : Regs), (mergePath mergeRegs ls first cur false path).1 = first := by
  induction path with
  | nil => intro first cur; rfl
  | cons lid rest ih =>
    intro first cur
    simp only [mergePath]
    split
    · rfl
    · exact ih _ _

theorem mergePath_fst (ls : List Lanelet) (path : List Nat) (r : Regs) : (mergePath mergeRegs ls r r true path).1 = r := by
  cases path with
  | nil => rfl
  | cons lid rest =>
    simp only [mergePath]
    split
    · rfl
    · exact mergePath_fst_false ls rest _ _

/-- merging (after the repair) leaves every lanelet of the network as it was -/
theorem mergePaths_fst (lid : Nat) (paths : List (List Nat)) (ls : List Lanelet) : (mergePaths mergeRegs lid paths ls).1 = ls := by
  induction paths with
  | nil => rfl
  | cons path rest ih =>
    simp only [mergePaths]
    split
    · rfl
    · rename_i l hl
      have e : setRegs ls lid (mergePath mergeRegs ls l.regs l.regs true path).1 = ls := by
        rw [mergePath_fst]; exact setRegs_self ls lid l hl
      rw [e]
      split
      · rfl
      · exact ih

theorem Problem.reachInit_fst (dec : List (Res Bool)) (q : Problem) : (q.reachInit dec).1 = q := by
  simp only [Problem.reachInit, isReached_fst]

/-- goal checks, `==`, `hash`, `copy.copy`, the shape query, the registry query and the merge queries hand back the very
    state they were given — hidden caches included -/
theorem step_fst_eq (op : Op) (s : St)
    (h : (∃ pid loc dec, op = .reached pid loc dec) ∨ (∃ pid src decs, op = .goalReached pid src decs) ∨ (∃ t, op = .eq t) ∨
         (∃ t, op = .hash t) ∨ (∃ t, op = .shallowCopy t) ∨ (∃ sh, op = .findShape sh) ∨ (∃ lid t, op = .dynByTime lid t) ∨
         (∃ lid paths, op = .mergeFrom lid paths)) : (step op s).1 = s := by
  rcases h with ⟨pid, loc, dec, rfl⟩ | ⟨pid, src, decs, rfl⟩ | ⟨t, rfl⟩ | ⟨t, rfl⟩ | ⟨t, rfl⟩ | ⟨sh, rfl⟩ | ⟨lid, t, rfl⟩ | ⟨lid, paths, rfl⟩
  · simp only [step]
    split
    · rfl
    · cases loc with
      | foreign st => rfl
      | obsInit oid => simp only [withObstacle_fst _ (Obstacle.reach_fst _ _ _)]
      | obsTraj oid i => simp only [withObstacle_fst _ (Obstacle.reach_fst _ _ _)]
      | probInit => simp only [withProblem_fst _ (Problem.reachInit_fst _)]
  · simp only [step]
    split
    · rfl
    · cases src with
      | foreign states => rfl
      | own oid => simp only [withObstacle_fst _ (Obstacle.goalReach_fst _ _)]
  · rfl
  · rfl
  · rfl
  · rfl
  · simp only [step]
    split
    · rfl
    · rename_i l hl
      simp only [dynByTimeOf_eq, Lanelet.dynByTime_fst, setRegs_self _ _ _ hl]
  · simp only [step, mergeRegsOf_eq, mergePaths_fst]

/-- **Observation frame**: one read-only operation leaves the observable part of the state as it was. -/
theorem step_obs (op : Op) (s : St) : (step op s).1.obs = s.obs := by
  cases op with
  | occ oid t =>
    simp only [step, St.obs]
    rw [withObstacle_obs _ (fun o => Obstacle.occAt_obs o t)]
  | state oid t =>
    simp only [step, St.obs]
    rw [withObstacle_obs _ (fun _ => rfl)]
  | occs t role =>
    simp only [step]
    split
    · rfl
    · simp only [St.obs, occsLoop_obs]
  | statesAt t =>
    simp only [step]
    split <;> rfl
  | occSet oid =>
    simp only [step, St.obs]
    rw [withObstacle_obs _ Obstacle.occSet_obs]
  | findPos pts => rfl
  | light lid t =>
    simp only [step, St.obs, withLight_obs]
  | reads oq lq =>
    simp only [step, St.obs, runOccQs_obs, runLightQs_obs]
  | deepcopy => rfl
  | pickle => rfl
  | writeXml wp => simp only [step, St.write_fst]
  | writePb wp => simp only [step, pbLook_eq, St.write_fst]
  | reached pid loc dec => rw [step_fst_eq _ s (Or.inl ⟨_, _, _, rfl⟩)]
  | goalReached pid src decs => rw [step_fst_eq _ s (Or.inr (Or.inl ⟨_, _, _, rfl⟩))]
  | eq tgt => rfl
  | hash tgt => rfl
  | shallowCopy tgt => rfl
  | byIntervals t inside => simp only [step, St.obs, occQueries_obs]
  | findShape sh => rfl
  | mapObstacles oids rel => simp only [step, St.obs, occQueries_obs]
  | getObstacles lid oids t rel => simp only [step, St.obs, occQueries_obs]
  | dynByTime lid t => rw [step_fst_eq _ s (Or.inr (Or.inr (Or.inr (Or.inr (Or.inr (Or.inr (Or.inl ⟨_, _, rfl⟩)))))))]
  | mergeFrom lid paths => rw [step_fst_eq _ s (Or.inr (Or.inr (Or.inr (Or.inr (Or.inr (Or.inr (Or.inr ⟨_, _, rfl⟩)))))))]
  | draw p =>
    simp only [step]
    split
    · rfl
    · split
      · simp only [St.obs, occQueries_obs, runLightQsAt_obs]
      · simp only [St.obs, occQueries_obs, renderLights_obs, runLightQsAt_obs]

theorem run_obs (ops : List Op) (s : St) : (run ops s).obs = s.obs := by
  induction ops generalizing s with
  | nil => rfl
  | cons op rest ih => simp only [run, ih, step_obs]

/-! ### Part B — the hidden caches stay consistent -/

theorem Pred.obs_inv (p : Pred) : p.obs.Inv := by
  cases p <;> trivial

theorem Pred.occSet_inv (p : Pred) (h : p.Inv) : p.occSet.1.Inv := by
  match p, h with
  | .absent, _ => trivial
  | .setBased _, _ => trivial
  | .traj _ _ _ (some _), h => exact h
  | .traj t1 ss sh none, _ =>
    simp only [Pred.occSet, createOccSet_eq]
    split
    · rename_i c hc
      exact hc
    · trivial

theorem Pred.occAt_inv (p : Pred) (t : Int) (h : p.Inv) : (p.occAt t).1.Inv := Pred.occSet_inv p h

theorem Obstacle.obs_inv (o : Obstacle) : o.obs.Inv := by
  cases o <;> simp only [Obstacle.obs, Obstacle.Inv, Pred.obs_inv]

theorem Obstacle.occAt_inv (o : Obstacle) (t : Int) (h : o.Inv) : (o.occAt t).1.Inv := by
  match o, h with
  | .static _ _ _, _ => trivial
  | .environment _ _, _ => trivial
  | .dynamic i init r p, h =>
    simp only [Obstacle.occAt]
    split
    · exact h
    · split
      · exact Pred.occAt_inv p t h
      · exact h
  | .phantom i p, h =>
    simp only [Obstacle.occAt]
    split
    · exact h
    · split
      · exact Pred.occAt_inv p t h
      · exact Pred.occAt_inv p t h
      · exact Pred.occAt_inv _ t (Pred.occAt_inv p t h)

theorem withObstacle_inv {α : Type} (f : Obstacle → Obstacle × Res α) (hf : ∀ o, o.Inv → (f o).1.Inv)
    (os : List Obstacle) (oid : Nat) (h : ∀ o ∈ os, o.Inv) : ∀ o ∈ (withObstacle os oid f).1, o.Inv := by
  induction os with
  | nil => intro o ho; simp [withObstacle] at ho
  | cons o rest ih =>
    simp only [withObstacle]
    split
    · intro x hx
      simp only [List.mem_cons] at hx
      rcases hx with rfl | hx
      · exact hf o (h o (by simp))
      · exact h x (by simp [hx])
    · intro x hx
      simp only [List.mem_cons] at hx
      rcases hx with rfl | hx
      · exact h _ (by simp)
      · exact ih (fun y hy => h y (by simp [hy])) x hx

theorem occsLoop_inv (t : Int) (role : Option Role) (os : List Obstacle) (h : ∀ o ∈ os, o.Inv) :
    ∀ o ∈ (occsLoop t role os).1, o.Inv := by
  induction os with
  | nil => intro o ho; simp [occsLoop] at ho
  | cons o rest ih =>
    have ho : o.Inv := h o (by simp)
    have hrest : ∀ y ∈ rest, y.Inv := fun y hy => h y (by simp [hy])
    have h1 : (o.occAt t).1.Inv := Obstacle.occAt_inv o t ho
    have h2 : ((o.occAt t).1.occAt t).1.Inv := Obstacle.occAt_inv _ t h1
    have key : ∀ (a : Obstacle) (l : List Obstacle), a.Inv → (∀ y ∈ l, y.Inv) → ∀ x ∈ a :: l, x.Inv := by
      intro a l ha hl x hx
      simp only [List.mem_cons] at hx
      rcases hx with rfl | hx
      · exact ha
      · exact hl x hx
    simp only [occsLoop]
    split
    · split
      · exact key _ _ h1 hrest
      · exact key _ _ h1 (ih hrest)
      · split
        · exact key _ _ h2 hrest
        · exact key _ _ h2 (ih hrest)
    · exact key _ _ ho (ih hrest)

theorem Obstacle.occSet_inv (o : Obstacle) (h : o.Inv) : o.occSet.1.Inv := by
  match o, h with
  | .static _ _ _, _ => trivial
  | .environment _ _, _ => trivial
  | .dynamic _ _ _ p, h => exact Pred.occSet_inv p h
  | .phantom _ p, h => exact Pred.occSet_inv p h

theorem touchOccSet_inv (o : Obstacle) (h : o.Inv) : (touchOccSet o).1.Inv := by
  match o, h with
  | .static _ _ _, _ => trivial
  | .environment _ _, _ => trivial
  | .dynamic _ _ _ p, h => exact Pred.occSet_inv p h
  | .phantom _ p, h => exact Pred.occSet_inv p h

theorem runOccQs_inv (qs : List Nat) (os : List Obstacle) (h : ∀ o ∈ os, o.Inv) : ∀ o ∈ runOccQs qs os, o.Inv := by
  induction qs generalizing os with
  | nil => exact h
  | cons q rest ih =>
    simp only [runOccQs]
    exact ih _ (withObstacle_inv _ touchOccSet_inv os q h)

theorem Light.stateAt_inv (l : Light) (t : Int) (h : l.Inv) : (l.stateAt t).1.Inv := by
  rcases h with h | h
  · right; simp [Light.stateAt, h]
  · right; simp [Light.stateAt, h]

theorem withLight_inv (ls : List Light) (lid : Nat) (t : Int) (h : ∀ l ∈ ls, l.Inv) : ∀ l ∈ (withLight ls lid t).1, l.Inv := by
  induction ls with
  | nil => intro l hl; simp [withLight] at hl
  | cons l rest ih =>
    simp only [withLight]
    split
    · intro x hx
      simp only [List.mem_cons] at hx
      rcases hx with rfl | hx
      · exact Light.stateAt_inv l t (h l (by simp))
      · exact h x (by simp [hx])
    · intro x hx
      simp only [List.mem_cons] at hx
      rcases hx with rfl | hx
      · exact h _ (by simp)
      · exact ih (fun y hy => h y (by simp [hy])) x hx

theorem runLightQsAt_inv (t : Int) (qs : List Nat) (ls : List Light) (h : ∀ l ∈ ls, l.Inv) : ∀ l ∈ runLightQsAt t qs ls, l.Inv := by
  induction qs generalizing ls with
  | nil => exact h
  | cons q rest ih =>
    simp only [runLightQsAt]
    exact ih _ (withLight_inv ls q t h)

theorem runLightQs_inv (qs : List Nat) (ls : List Light) (h : ∀ l ∈ ls, l.Inv) : ∀ l ∈ runLightQs qs ls, l.Inv :=
  runLightQsAt_inv 0 qs ls h

theorem occQueries_inv (qs : List Q) : ∀ (os : List Obstacle), (∀ o ∈ os, o.Inv) → ∀ o ∈ (occQueries qs os).1, o.Inv := by
  induction qs with
  | nil => intro os h; exact h
  | cons q rest ih =>
    intro os h
    cases q with
    | fail e => exact h
    | occ oid t must =>
      have h1 := withObstacle_inv _ (fun o ho => Obstacle.occAt_inv o t ho) os oid h
      simp only [occQueries]
      split
      · exact h1
      · split
        · exact h1
        · exact ih _ h1

theorem renderLights_inv (tb : Int) (ls : List Light) (h : ∀ l ∈ ls, l.Inv) : ∀ l ∈ renderLights tb ls, l.Inv := by
  induction ls with
  | nil => intro l hl; simp [renderLights] at hl
  | cons l rest ih =>
    intro x hx
    simp only [renderLights, List.mem_cons] at hx
    rcases hx with rfl | hx
    · split
      · exact Light.stateAt_inv l tb (h l (by simp))
      · exact h l (by simp)
    · exact ih (fun y hy => h y (by simp [hy])) x hx

/-- **Invariant**: one read-only operation keeps every hidden cache consistent with the observable state. -/
theorem step_inv (op : Op) (s : St) (h : s.Inv) : (step op s).1.Inv := by
  cases op with
  | occ oid t =>
    exact ⟨withObstacle_inv _ (fun o ho => Obstacle.occAt_inv o t ho) _ _ h.obstacles, h.net, h.lights⟩
  | state oid t =>
    exact ⟨withObstacle_inv _ (fun _ ho => ho) _ _ h.obstacles, h.net, h.lights⟩
  | occs t role =>
    simp only [step]
    split
    · exact h
    · exact ⟨occsLoop_inv t role _ h.obstacles, h.net, h.lights⟩
  | statesAt t =>
    simp only [step]
    split <;> exact h
  | occSet oid =>
    exact ⟨withObstacle_inv _ Obstacle.occSet_inv _ _ h.obstacles, h.net, h.lights⟩
  | findPos pts => exact h
  | light lid t => exact ⟨h.obstacles, h.net, withLight_inv _ lid t h.lights⟩
  | reads oq lq => exact ⟨runOccQs_inv oq _ h.obstacles, h.net, runLightQs_inv lq _ h.lights⟩
  | deepcopy => exact ⟨h.obstacles, Or.inr rfl, h.lights⟩
  | pickle => exact ⟨h.obstacles, h.net, h.lights⟩
  | writeXml wp => simp only [step, St.write_fst]; exact h
  | writePb wp => simp only [step, pbLook_eq, St.write_fst]; exact h
  | reached pid loc dec => rw [step_fst_eq _ s (Or.inl ⟨_, _, _, rfl⟩)]; exact h
  | goalReached pid src decs => rw [step_fst_eq _ s (Or.inr (Or.inl ⟨_, _, _, rfl⟩))]; exact h
  | eq tgt => exact h
  | hash tgt => exact h
  | shallowCopy tgt => exact h
  | byIntervals t inside => exact ⟨occQueries_inv _ _ h.obstacles, h.net, h.lights⟩
  | findShape sh => exact h
  | mapObstacles oids rel => exact ⟨occQueries_inv _ _ h.obstacles, h.net, h.lights⟩
  | getObstacles lid oids t rel => exact ⟨occQueries_inv _ _ h.obstacles, h.net, h.lights⟩
  | dynByTime lid t => rw [step_fst_eq _ s (Or.inr (Or.inr (Or.inr (Or.inr (Or.inr (Or.inr (Or.inl ⟨_, _, rfl⟩)))))))]; exact h
  | mergeFrom lid paths => rw [step_fst_eq _ s (Or.inr (Or.inr (Or.inr (Or.inr (Or.inr (Or.inr (Or.inr ⟨_, _, rfl⟩)))))))]; exact h
  | draw p =>
    simp only [step]
    split
    · exact h
    · split
      · exact ⟨occQueries_inv _ _ h.obstacles, h.net, runLightQsAt_inv _ _ _ h.lights⟩
      · exact ⟨occQueries_inv _ _ h.obstacles, h.net, renderLights_inv _ _ (runLightQsAt_inv _ _ _ h.lights)⟩

theorem run_inv (ops : List Op) (s : St) (h : s.Inv) : (run ops s).Inv := by
  induction ops generalizing s with
  | nil => exact h
  | cons op rest ih => exact ih _ (step_inv op s h)

/-- the lanelet index, once built, stays built (and `deepcopy` builds it) -/
theorem step_index (op : Op) (s : St) (h : s.net.index = some s.net.lanelets) :
    (step op s).1.net.index = some (step op s).1.net.lanelets := by
  cases op with
  | occs t role => simp only [step]; split <;> exact h
  | statesAt t => simp only [step]; split <;> exact h
  | deepcopy => rfl
  | writeXml wp => simp only [step, St.write_fst]; exact h
  | writePb wp => simp only [step, pbLook_eq, St.write_fst]; exact h
  | reached pid loc dec => rw [step_fst_eq _ s (Or.inl ⟨_, _, _, rfl⟩)]; exact h
  | goalReached pid src decs => rw [step_fst_eq _ s (Or.inr (Or.inl ⟨_, _, _, rfl⟩))]; exact h
  | dynByTime lid t => rw [step_fst_eq _ s (Or.inr (Or.inr (Or.inr (Or.inr (Or.inr (Or.inr (Or.inl ⟨_, _, rfl⟩)))))))]; exact h
  | mergeFrom lid paths => rw [step_fst_eq _ s (Or.inr (Or.inr (Or.inr (Or.inr (Or.inr (Or.inr (Or.inr ⟨_, _, rfl⟩)))))))]; exact h
  | draw p =>
    simp only [step]
    split
    · exact h
    · split <;> exact h
  | _ => exact h

theorem run_index (ops : List Op) (s : St) (h : s.net.index = some s.net.lanelets) :
    (run ops s).net.index = some (run ops s).net.lanelets := by
  induction ops generalizing s with
  | nil => exact h
  | cons op rest ih => exact ih _ (step_index op s h)

/-! ### Part C — under `St.Inv` every answer is a function of the observable part -/

/-- the observable part of an answer: a returned copy is looked at through `St.obs` -/
def Out.obs : Out → Out
  | .copy s => .copy s.obs
  | o => o

/-- canonical representative of the consistent states with a given observable part and a given "index is built" flag -/
def St.norm (s : St) : St :=
  { s.obs with net := { lanelets := s.net.lanelets, index := if s.net.index.isSome then some s.net.lanelets else none } }

theorem Pred.occSet_snd (p : Pred) (h : p.Inv) : p.occSet.2 = p.obs.occSet.2 := by
  match p, h with
  | .absent, _ => rfl
  | .setBased _, _ => rfl
  | .traj _ _ _ none, _ => rfl
  | .traj t1 ss sh (some c), h =>
    have h' : createOccs sh ss = .ok c := h
    simp only [Pred.obs, Pred.occSet, createOccSet_eq, h']

theorem Pred.occAt_snd (p : Pred) (t : Int) (h : p.Inv) : (p.occAt t).2 = (p.obs.occAt t).2 := by
  simp only [Pred.occAt, Pred.occSet_snd p h]

theorem Pred.occAt_snd_congr (p q : Pred) (t : Int) (hp : p.Inv) (hq : q.Inv) (e : p.obs = q.obs) :
    (p.occAt t).2 = (q.occAt t).2 := by
  rw [Pred.occAt_snd p t hp, Pred.occAt_snd q t hq, e]

theorem Pred.obs_eq_absent (p : Pred) : p.obs = .absent ↔ p = .absent := by
  cases p <;> simp [Pred.obs]

theorem Obstacle.occAt_snd (o : Obstacle) (t : Int) (h : o.Inv) : (o.occAt t).2 = (o.obs.occAt t).2 := by
  match o, h with
  | .static _ _ _, _ => rfl
  | .environment _ _, _ => rfl
  | .dynamic i init r p, h =>
    have hp : p.Inv := h
    simp only [Obstacle.obs, Obstacle.occAt, Pred.obs_eq_absent, ne_eq]
    split
    · rfl
    · split
      · exact Pred.occAt_snd_congr p p.obs t hp (Pred.obs_inv p) (Pred.obs_obs p).symm
      · rfl
  | .phantom i p, h =>
    have hp : p.Inv := h
    have e1 : (p.occAt t).2 = (p.obs.occAt t).2 :=
      Pred.occAt_snd_congr p p.obs t hp (Pred.obs_inv p) (Pred.obs_obs p).symm
    have e2 : ((p.occAt t).1.occAt t).2 = ((p.obs.occAt t).1.occAt t).2 :=
      Pred.occAt_snd_congr _ _ t (Pred.occAt_inv p t hp) (Pred.occAt_inv _ t (Pred.obs_inv p))
        (by rw [Pred.occAt_obs, Pred.occAt_obs, Pred.obs_obs])
    simp only [Obstacle.obs, Obstacle.occAt, Pred.obs_eq_absent]
    split
    · rfl
    · rw [← e1, ← e2]
      split <;> rfl

theorem Obstacle.occAt_snd_congr (o o' : Obstacle) (t : Int) (h : o.Inv) (h' : o'.Inv) (e : o.obs = o'.obs) :
    (o.occAt t).2 = (o'.occAt t).2 := by
  rw [Obstacle.occAt_snd o t h, Obstacle.occAt_snd o' t h', e]

theorem Obstacle.obs_id (o : Obstacle) : o.obs.id = o.id := by cases o <;> rfl
theorem Obstacle.obs_role (o : Obstacle) : o.obs.role = o.role := by cases o <;> rfl
theorem Obstacle.obs_obs (o : Obstacle) : o.obs.obs = o.obs := by
  cases o <;> simp only [Obstacle.obs, Pred.obs_obs]

theorem withObstacle_snd {α : Type} (f : Obstacle → Obstacle × Res α) (hf : ∀ o, o.Inv → (f o).2 = (f o.obs).2)
    (os : List Obstacle) (oid : Nat) (h : ∀ o ∈ os, o.Inv) :
    (withObstacle os oid f).2 = (withObstacle (os.map Obstacle.obs) oid f).2 := by
  induction os with
  | nil => rfl
  | cons o rest ih =>
    simp only [List.map_cons, withObstacle, Obstacle.obs_id]
    split
    · exact hf o (h o (by simp))
    · exact ih (fun y hy => h y (by simp [hy]))

theorem occsLoop_snd (t : Int) (role : Option Role) (os : List Obstacle) (h : ∀ o ∈ os, o.Inv) :
    (occsLoop t role os).2 = (occsLoop t role (os.map Obstacle.obs)).2 := by
  induction os with
  | nil => rfl
  | cons o rest ih =>
    have ho : o.Inv := h o (by simp)
    have ihr := ih (fun y hy => h y (by simp [hy]))
    have e1 : (o.occAt t).2 = (o.obs.occAt t).2 := Obstacle.occAt_snd o t ho
    have e2 : ((o.occAt t).1.occAt t).2 = ((o.obs.occAt t).1.occAt t).2 :=
      Obstacle.occAt_snd_congr _ _ t (Obstacle.occAt_inv o t ho) (Obstacle.occAt_inv _ t (Obstacle.obs_inv o))
        (by rw [Obstacle.occAt_obs, Obstacle.occAt_obs, Obstacle.obs_obs])
    simp only [List.map_cons, occsLoop, Obstacle.obs_role]
    split
    · rw [← e1, ← e2, ← ihr]
      split
      · rfl
      · rfl
      · split <;> rfl
    · exact ihr

theorem Obstacle.stateAt_obs (o : Obstacle) (t : Int) : o.obs.stateAt t = o.stateAt t := by
  match o with
  | .static _ _ _ => rfl
  | .environment _ _ => rfl
  | .phantom _ _ => rfl
  | .dynamic i init r p =>
    cases p <;> rfl

theorem dynStates_obs (t : Int) (os : List Obstacle) : dynStates t (os.map Obstacle.obs) = dynStates t os := by
  induction os with
  | nil => rfl
  | cons o rest ih =>
    simp only [List.map_cons, dynStates, Obstacle.obs_role, Obstacle.stateAt_obs, Obstacle.obs_id, ih]

theorem filter_static_obs (os : List Obstacle) :
    ((os.map Obstacle.obs).filter (fun o => o.role == .static)).map (·.id) = (os.filter (fun o => o.role == .static)).map (·.id) := by
  induction os with
  | nil => rfl
  | cons o rest ih =>
    simp only [List.map_cons, List.filter_cons, Obstacle.obs_role]
    split
    · simp only [List.map_cons, Obstacle.obs_id, ih]
    · exact ih

theorem statesAtIds_obs (t : Int) (os : List Obstacle) : statesAtIds t (os.map Obstacle.obs) = statesAtIds t os := by
  simp only [statesAtIds, dynStates_obs, filter_static_obs]

theorem Obstacle.occSet_snd (o : Obstacle) (h : o.Inv) : o.occSet.2 = o.obs.occSet.2 := by
  match o, h with
  | .static _ _ _, _ => rfl
  | .environment _ _, _ => rfl
  | .dynamic _ _ _ p, h =>
    simp only [Obstacle.obs, Obstacle.occSet]
    rw [Pred.occSet_snd p h, Pred.occSet_snd p.obs (Pred.obs_inv p), Pred.obs_obs]
  | .phantom _ p, h =>
    simp only [Obstacle.obs, Obstacle.occSet]
    rw [Pred.occSet_snd p h, Pred.occSet_snd p.obs (Pred.obs_inv p), Pred.obs_obs]

theorem Light.stateAt_snd (l : Light) (t : Int) (h : l.Inv) : (l.stateAt t).2 = (l.obs.stateAt t).2 := by
  rcases h with h | h <;> simp [Light.stateAt, Light.obs, h]

theorem withLight_snd (ls : List Light) (lid : Nat) (t : Int) (h : ∀ l ∈ ls, l.Inv) :
    (withLight ls lid t).2 = (withLight (ls.map Light.obs) lid t).2 := by
  induction ls with
  | nil => rfl
  | cons l rest ih =>
    simp only [List.map_cons, withLight]
    have : l.obs.id = l.id := rfl
    rw [this]
    split
    · exact Light.stateAt_snd l t (h l (by simp))
    · exact ih (fun y hy => h y (by simp [hy]))

theorem Obstacle.file_obs (o : Obstacle) : o.obs.file = o.file := by
  match o with
  | .static _ _ _ => rfl
  | .environment _ _ => rfl
  | .dynamic _ _ _ p => cases p <;> rfl
  | .phantom _ p => cases p <;> rfl

theorem map_file_obs (os : List Obstacle) : (os.map Obstacle.obs).map Obstacle.file = os.map Obstacle.file := by
  induction os with
  | nil => rfl
  | cons o rest ih => simp only [List.map_cons, Obstacle.file_obs, ih]

/-- what a writer produces depends on the observable part only -/
theorem St.write_snd_congr (look : Option Tbl → Nat → Option Tbl × Res (List Nat)) (posOnly wp : Bool) (s s' : St)
    (e : s.obs = s'.obs) : (s.write look posOnly wp).2 = (s'.write look posOnly wp).2 := by
  have e1 : s.obstacles.map Obstacle.file = s'.obstacles.map Obstacle.file := by
    have := congrArg (fun x => x.obstacles.map Obstacle.file) e
    simpa only [St.obs, map_file_obs] using this
  have e2 : s.problems = s'.problems := by
    have : s.obs.problems = s'.obs.problems := congrArg St.problems e
    exact this
  have e3 : s.net.lanelets = s'.net.lanelets := congrArg (fun x => x.net.lanelets) e
  have e4 : s.extra = s'.extra := by
    have : s.obs.extra = s'.obs.extra := congrArg St.extra e
    exact this
  have e5 : s.lights.map Light.file = s'.lights.map Light.file := by
    have h := congrArg (fun x => x.lights.map Light.file) e
    have hm : ∀ ls : List Light, (ls.map Light.obs).map Light.file = ls.map Light.file := by
      intro ls
      rw [List.map_map]
      apply List.map_congr_left
      intro l _
      rfl
    simpa only [St.obs, hm] using h
  simp only [St.write, e1, e2, e3, e4, e5]
  cases wp <;> rfl

theorem St.obs_obs (s : St) : s.obs.obs = s.obs := by
  have h1 : (s.obstacles.map Obstacle.obs).map Obstacle.obs = s.obstacles.map Obstacle.obs := by
    rw [List.map_map]
    apply List.map_congr_left
    intro o _
    exact Obstacle.obs_obs o
  have h2 : (s.lights.map Light.obs).map Light.obs = s.lights.map Light.obs := by
    rw [List.map_map]
    apply List.map_congr_left
    intro l _
    rfl
  simp only [St.obs, h1, h2]

theorem St.norm_obs (s : St) : s.norm.obs = s.obs := by
  have := St.obs_obs s
  simp only [St.norm, St.obs] at this ⊢
  simp only [St.mk.injEq, true_and] at this ⊢
  exact ⟨this.1, this.2.1, this.2.2⟩

theorem St.norm_inv (s : St) : s.norm.Inv := by
  refine ⟨?_, ?_, ?_⟩
  · intro o ho
    simp only [St.norm, St.obs, List.mem_map] at ho
    obtain ⟨o', _, rfl⟩ := ho
    exact Obstacle.obs_inv o'
  · simp only [St.norm]
    split
    · exact Or.inr rfl
    · exact Or.inl rfl
  · intro l hl
    simp only [St.norm, St.obs, List.mem_map] at hl
    obtain ⟨l', _, rfl⟩ := hl
    exact Or.inl rfl

theorem St.norm_congr (s s' : St) (e : s.obs = s'.obs) (hi : s.net.index.isSome = s'.net.index.isSome) : s.norm = s'.norm := by
  have hl : s.net.lanelets = s'.net.lanelets := congrArg (fun x => x.net.lanelets) e
  simp only [St.norm, e, hl, hi]

theorem St.obs_with_net (s : St) (n : Net) (hn : n.lanelets = s.net.lanelets) : ({ s with net := n } : St).obs = s.obs := by
  simp only [St.obs, hn]

theorem Net.findPos_norm (s : St) (h : s.Inv) (pts : List Int) : s.net.findPos pts = s.norm.net.findPos pts := by
  rcases h.net with hn | hn <;> simp [Net.findPos, St.norm, hn]

theorem Obstacle.reach_snd_obs (goals : List (List String)) (ix : Option Nat) (dec : List (Res Bool)) (o : Obstacle) :
    (o.reach goals ix dec).2 = (o.obs.reach goals ix dec).2 := by
  match o, ix with
  | .static _ _ _, none => rfl
  | .static _ _ _, some _ => rfl
  | .environment _ _, _ => rfl
  | .phantom _ _, _ => rfl
  | .dynamic _ _ _ _, none => rfl
  | .dynamic _ _ _ .absent, some _ => rfl
  | .dynamic _ _ _ (.setBased _), some _ => rfl
  | .dynamic _ _ _ (.traj _ ss _ _), some k =>
    simp only [Obstacle.obs, Pred.obs, Obstacle.reach]
    split <;> rfl

theorem Obstacle.goalReach_snd_obs (goals : List (List String)) (decs : List (List (Res Bool))) (o : Obstacle) :
    (o.goalReach goals decs).2 = (o.obs.goalReach goals decs).2 := by
  match o with
  | .static _ _ _ => rfl
  | .environment _ _ => rfl
  | .phantom _ _ => rfl
  | .dynamic _ _ _ .absent => rfl
  | .dynamic _ _ _ (.setBased _) => rfl
  | .dynamic _ _ _ (.traj _ _ _ _) => rfl

/-- two consistent obstacle lists with the same observable part answer a query alike -/
theorem withObstacle_snd_congr {α : Type} (f : Obstacle → Obstacle × Res α) (hf : ∀ o, o.Inv → (f o).2 = (f o.obs).2)
    (os os' : List Obstacle) (oid : Nat) (h : ∀ o ∈ os, o.Inv) (h' : ∀ o ∈ os', o.Inv)
    (e : os.map Obstacle.obs = os'.map Obstacle.obs) : (withObstacle os oid f).2 = (withObstacle os' oid f).2 := by
  rw [withObstacle_snd f hf os oid h, withObstacle_snd f hf os' oid h', e]

theorem occQueries_snd_congr (qs : List Q) : ∀ (os os' : List Obstacle), (∀ o ∈ os, o.Inv) → (∀ o ∈ os', o.Inv) →
    os.map Obstacle.obs = os'.map Obstacle.obs → (occQueries qs os).2 = (occQueries qs os').2 := by
  induction qs with
  | nil => intro os os' _ _ _; rfl
  | cons q rest ih =>
    intro os os' h h' e
    cases q with
    | fail e => rfl
    | occ oid t must =>
      have ea := withObstacle_snd_congr _ (fun o ho => Obstacle.occAt_snd o t ho) os os' oid h h' e
      have hi := withObstacle_inv _ (fun o ho => Obstacle.occAt_inv o t ho) os oid h
      have hi' := withObstacle_inv _ (fun o ho => Obstacle.occAt_inv o t ho) os' oid h'
      have eo : (withObstacle os oid (fun o => o.occAt t)).1.map Obstacle.obs = (withObstacle os' oid (fun o => o.occAt t)).1.map Obstacle.obs := by
        rw [withObstacle_obs _ (fun o => Obstacle.occAt_obs o t), withObstacle_obs _ (fun o => Obstacle.occAt_obs o t), e]
      have er := ih _ _ hi hi' eo
      simp only [occQueries]
      rw [← ea, ← er]
      split
      · rfl
      · split <;> rfl

theorem obs_list_inv (os : List Obstacle) : ∀ o ∈ os.map Obstacle.obs, o.Inv := by
  intro o ho
  simp only [List.mem_map] at ho
  obtain ⟨o', _, rfl⟩ := ho
  exact Obstacle.obs_inv o'

theorem map_obs_obs (os : List Obstacle) : (os.map Obstacle.obs).map Obstacle.obs = os.map Obstacle.obs := by
  rw [List.map_map]
  apply List.map_congr_left
  intro o _
  exact Obstacle.obs_obs o

theorem occQueries_snd (qs : List Q) (os : List Obstacle) (h : ∀ o ∈ os, o.Inv) :
    (occQueries qs os).2 = (occQueries qs (os.map Obstacle.obs)).2 :=
  occQueries_snd_congr qs os _ h (obs_list_inv os) (map_obs_obs os).symm

theorem filter_role_ids_obs (r : Role) (os : List Obstacle) :
    ((os.map Obstacle.obs).filter (fun o => o.role == r)).map (·.id) = (os.filter (fun o => o.role == r)).map (·.id) := by
  induction os with
  | nil => rfl
  | cons o rest ih =>
    simp only [List.map_cons, List.filter_cons, Obstacle.obs_role]
    split
    · simp only [List.map_cons, Obstacle.obs_id, ih]
    · exact ih

theorem byIntervalsQs_obs (t : Int) (os : List Obstacle) : byIntervalsQs t (os.map Obstacle.obs) = byIntervalsQs t os := by
  induction os with
  | nil => rfl
  | cons o rest ih =>
    simp only [byIntervalsQs, List.map_cons, List.filter_cons, Obstacle.obs_role] at ih ⊢
    split
    · simp only [List.map_cons, Obstacle.obs_id, ih]
    · exact ih

theorem dynDrawQs_obs (p : DrawP) (i : Nat) (init : TState) (pr : Pred) : dynDrawQs p i init pr.obs = dynDrawQs p i init pr := by
  cases pr <;> rfl

theorem drawQs_obs (p : DrawP) (os : List Obstacle) : drawQs p (os.map Obstacle.obs) = drawQs p os := by
  induction os with
  | nil => rfl
  | cons o rest ih =>
    cases o <;> simp only [List.map_cons, Obstacle.obs, drawQs, ih, dynDrawQs_obs]

theorem Net.findShape_norm (s : St) (h : s.Inv) (sh : Int) : s.net.findShape sh = s.norm.net.findShape sh := by
  rcases h.net with hn | hn <;> simp [Net.findShape, St.norm, hn]

theorem norm_obstacles (s : St) : s.norm.obstacles = s.obstacles.map Obstacle.obs := rfl
theorem norm_problems (s : St) : s.norm.problems = s.problems := rfl
theorem norm_lanelets (s : St) : s.norm.net.lanelets = s.net.lanelets := rfl

/-- under the invariant, the (observable part of the) answer of an operation is the answer on the canonical state -/
theorem step_snd_norm (op : Op) (s : St) (h : s.Inv) :
    (step op s).2.map Out.obs = (step op s.norm).2.map Out.obs := by
  cases op with
  | occ oid t =>
    simp only [step]
    rw [withObstacle_snd _ (fun o ho => Obstacle.occAt_snd o t ho) _ _ h.obstacles]
    rfl
  | state oid t =>
    simp only [step]
    rw [withObstacle_snd _ (fun o _ => by simp only [Obstacle.stateAt_obs]) _ _ h.obstacles]
    rfl
  | occs t role =>
    simp only [step]
    split
    · rfl
    · rw [occsLoop_snd t role _ h.obstacles]
      rfl
  | statesAt t =>
    simp only [step]
    split
    · rfl
    · have : s.norm.obstacles = s.obstacles.map Obstacle.obs := rfl
      rw [this, statesAtIds_obs]
  | occSet oid =>
    simp only [step]
    rw [withObstacle_snd _ Obstacle.occSet_snd _ _ h.obstacles]
    rfl
  | findPos pts =>
    simp only [step]
    rw [Net.findPos_norm s h pts]
  | light lid t =>
    simp only [step]
    rw [withLight_snd _ lid t h.lights]
    rfl
  | reads oq lq => rfl
  | deepcopy =>
    have e1 := St.obs_with_net s s.net.deepcopy.2 rfl
    have e2 := St.obs_with_net s.norm s.norm.net.deepcopy.2 rfl
    simp only [step, Except.map, Out.obs]
    rw [e1, e2, St.norm_obs]
  | pickle =>
    have e1 := St.obs_with_net s s.net.pickle.2 rfl
    have e2 := St.obs_with_net s.norm s.norm.net.pickle.2 rfl
    simp only [step, Except.map, Out.obs]
    rw [e1, e2, St.norm_obs]
  | writeXml wp =>
    simp only [step]
    rw [St.write_snd_congr goalLanelets true wp s s.norm (St.norm_obs s).symm]
  | writePb wp =>
    simp only [step, pbLook_eq]
    rw [St.write_snd_congr goalLanelets false wp s s.norm (St.norm_obs s).symm]
  | reached pid loc dec =>
    simp only [step, norm_problems, norm_obstacles]
    split
    · rfl
    · cases loc with
      | foreign st => rfl
      | obsInit oid =>
        simp only []
        rw [withObstacle_snd _ (fun o _ => Obstacle.reach_snd_obs _ _ _ o) _ _ h.obstacles]
      | obsTraj oid i =>
        simp only []
        rw [withObstacle_snd _ (fun o _ => Obstacle.reach_snd_obs _ _ _ o) _ _ h.obstacles]
      | probInit => rfl
  | goalReached pid src decs =>
    simp only [step, norm_problems, norm_obstacles]
    split
    · rfl
    · cases src with
      | foreign states => rfl
      | own oid =>
        simp only []
        rw [withObstacle_snd _ (fun o _ => Obstacle.goalReach_snd_obs _ _ o) _ _ h.obstacles]
  | eq tgt => rfl
  | hash tgt => rfl
  | shallowCopy tgt =>
    simp only [step, Except.map, Out.obs]
    by_cases ht : tgt = .net
    · have e1 := St.obs_with_net s s.net.pickle.2 rfl
      have e2 := St.obs_with_net s.norm s.norm.net.pickle.2 rfl
      simp only [ht, if_true]
      rw [e1, e2, St.norm_obs]
    · simp only [ht, if_false, St.norm_obs]
  | byIntervals t inside =>
    simp only [step, norm_obstacles, byIntervalsQs_obs, filter_role_ids_obs]
    rw [occQueries_snd _ _ h.obstacles]
  | findShape sh =>
    simp only [step]
    rw [Net.findShape_norm s h sh]
  | mapObstacles oids rel =>
    simp only [step, norm_obstacles, norm_lanelets]
    rw [occQueries_snd _ _ h.obstacles]
  | getObstacles lid oids t rel =>
    simp only [step, norm_obstacles]
    rw [occQueries_snd _ _ h.obstacles]
  | dynByTime lid t =>
    simp only [step, norm_lanelets]
    split <;> rfl
  | mergeFrom lid paths => rfl
  | draw p =>
    simp only [step, norm_obstacles, drawQs_obs]
    split
    · rfl
    · rw [occQueries_snd _ _ h.obstacles]
      split <;> rfl

/-- two consistent states with the same observable part (and the lanelet index built in both or in neither) give the
    same answer to every operation -/
theorem answer_congr (op : Op) (s s' : St) (h : s.Inv) (h' : s'.Inv) (e : s.obs = s'.obs)
    (hi : s.net.index.isSome = s'.net.index.isSome) :
    (step op s).2.map Out.obs = (step op s').2.map Out.obs := by
  rw [step_snd_norm op s h, step_snd_norm op s' h', St.norm_congr s s' e hi]

/-! ### Part D — the other variants of the code DO change the observable state (families of witnesses) -/

/-- the heading-carrying object of state `s` standing at index `i` -/
def withOri (s : TState) (i : Nat) : TState := { s with attrs := s.attrs ++ [("orientation", some (-1 - (i : Int)))] }

theorem withOri_ne (s : TState) (i : Nat) : withOri s i ≠ s := by
  intro h
  have := congrArg (fun x => x.attrs.length) h
  simp [withOri] at this

/-- legacy `_create_occupancy_set`: a first state without `orientation` whose heading can be computed is replaced by the
    object carrying the heading, whatever comes after it and whether or not the computation succeeds in the end -/
theorem createOccLoop_legacy_head (sh : Int) (st : TState) (ss : List TState) (i : Nat) (ori : Ori)
    (h1 : st.hasattr "orientation" = false) (h2 : stateOri st = .ok ori) :
    ∃ tl, (createOccLoop (sem := Sem.legacy) sh (st :: ss) i).1 = withOri st i :: tl := by
  simp only [createOccLoop, h1, h2, Bool.false_eq_true, if_false, if_true, withOri]
  split
  · exact ⟨_, rfl⟩
  · exact ⟨_, rfl⟩

theorem Pred.occSet_legacy_head (t1 : Int) (sh : Int) (st : TState) (ss : List TState) (ori : Ori)
    (h1 : st.hasattr "orientation" = false) (h2 : stateOri st = .ok ori) :
    ∃ tl c, (Pred.occSet (sem := Sem.legacy) (.traj t1 (st :: ss) sh none)).1 = .traj t1 (withOri st 0 :: tl) sh c := by
  obtain ⟨tl, htl⟩ := createOccLoop_legacy_head sh st ss 0 ori h1 h2
  simp only [Pred.occSet, createOccSet]
  split
  · exact ⟨tl, _, by rw [htl]⟩
  · exact ⟨tl, _, by rw [htl]⟩

/-- legacy protobuf lookup on a `defaultdict` table: it never fails, the table only grows, and it grows as soon as one goal
    index is missing -/
theorem goalLoopOld_dflt (posOnly : Bool) : ∀ (goals : List Bool) (items : List (Nat × List Nat)) (i : Nat),
    ∃ items', (goalLoop goalLaneletsOld posOnly (some ⟨.dflt, items⟩) goals i).1 = some ⟨.dflt, items'⟩ ∧
      items.length ≤ items'.length ∧
      ((∃ k, k < goals.length ∧ items.lookup (i + k) = none) → items.length < items'.length) := by
  intro goals
  induction goals with
  | nil => intro items i; exact ⟨items, rfl, Nat.le_refl _, fun ⟨k, hk, _⟩ => absurd hk (by simp)⟩
  | cons g rest ih =>
    intro items i
    cases hl : items.lookup i with
    | some v =>
      obtain ⟨items', h1, h2, h3⟩ := ih items (i + 1)
      refine ⟨items', ?_, h2, ?_⟩
      · simp only [goalLoop, goalLaneletsOld, Tbl.getItem, hl, h1]
      · rintro ⟨k, hk, hnone⟩
        cases k with
        | zero => simp [hl] at hnone
        | succ k =>
          apply h3
          exact ⟨k, by simpa using hk, by rw [show i + 1 + k = i + (k + 1) by omega]; exact hnone⟩
    | none =>
      obtain ⟨items', h1, h2, _⟩ := ih (items ++ [(i, [])]) (i + 1)
      refine ⟨items', ?_, ?_, ?_⟩
      · simp only [goalLoop, goalLaneletsOld, Tbl.getItem, hl, h1]
      · simp only [List.length_append, List.length_cons, List.length_nil] at h2; omega
      · intro _
        simp only [List.length_append, List.length_cons, List.length_nil] at h2; omega

/-- legacy protobuf lookup on a plain `dict` with a missing goal index: KeyError, table untouched -/
theorem goalLoopOld_plain (posOnly : Bool) : ∀ (goals : List Bool) (items : List (Nat × List Nat)) (i : Nat),
    (∃ k, k < goals.length ∧ items.lookup (i + k) = none) →
    (goalLoop goalLaneletsOld posOnly (some ⟨.plain, items⟩) goals i).2 = .error .key ∧
    (goalLoop goalLaneletsOld posOnly (some ⟨.plain, items⟩) goals i).1 = some ⟨.plain, items⟩ := by
  intro goals
  induction goals with
  | nil => intro items i ⟨k, hk, _⟩; exact absurd hk (by simp)
  | cons g rest ih =>
    intro items i ⟨k, hk, hnone⟩
    cases hl : items.lookup i with
    | none => constructor <;> simp only [goalLoop, goalLaneletsOld, Tbl.getItem, hl]
    | some v =>
      cases k with
      | zero => simp [hl] at hnone
      | succ k =>
        have := ih items (i + 1) ⟨k, by simpa using hk, by rw [show i + 1 + k = i + (k + 1) by omega]; exact hnone⟩
        constructor
        · simp only [goalLoop, goalLaneletsOld, Tbl.getItem, hl, this.1]; rfl
        · simp only [goalLoop, goalLaneletsOld, Tbl.getItem, hl, this.2]

theorem unionIds_length (a b : List Nat) (x : Nat) (hx : x ∈ b) (hn : x ∉ a) : a.length < (unionIds a b).length := by
  have : x ∈ b.filter (fun y => !a.contains y) := by
    simp only [List.mem_filter, hx, true_and, Bool.not_eq_true', List.contains_eq_mem, decide_eq_false_iff_not]
    exact hn
  have hpos : 0 < (b.filter (fun y => !a.contains y)).length := List.length_pos_of_mem this
  simp only [unionIds, List.length_append]
  omega

end CR.Frame
