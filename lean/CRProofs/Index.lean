import CRModel.Index
import Mathlib.Data.List.Nodup

/-!
  Helper lemmas for C06 (index part): the invariants `Buffered`, `Fresh`, `Sync` of the spatial index and their
  preservation by every operation of `CR.Index`.
-/
namespace CR.Index
open CR.Geom

/-! ### dictionaries -/

theorem dictSet_new {κ α} [DecidableEq κ] (m : List (κ × α)) (k : κ) (v : α) (h : k ∉ m.map (·.1)) :
    dictSet m k v = m ++ [(k, v)] := by
  induction m with
  | nil => rfl
  | cons e m ih =>
    obtain ⟨k', v'⟩ := e
    simp only [List.map_cons, List.mem_cons, not_or] at h
    have hne : ¬ k' = k := fun e => h.1 e.symm
    simp [dictSet, hne, ih h.2]

theorem keys_unique {κ α} (m : List (κ × α)) (hn : (m.map (·.1)).Nodup) {k : κ} {v v' : α}
    (h1 : (k, v) ∈ m) (h2 : (k, v') ∈ m) : v = v' := by
  induction m with
  | nil => cases h1
  | cons e m ih =>
    simp only [List.map_cons, List.nodup_cons] at hn
    rcases List.mem_cons.mp h1 with h1 | h1 <;> rcases List.mem_cons.mp h2 with h2 | h2
    · rw [← h1] at h2; exact (Prod.mk.inj h2).2.symm ▸ rfl
    · exfalso; apply hn.1; rw [← h1]; exact List.mem_map.mpr ⟨(k, v'), h2, rfl⟩
    · exfalso; apply hn.1; rw [← h2]; exact List.mem_map.mpr ⟨(k, v), h1, rfl⟩
    · exact ih hn.2 h1 h2

theorem dictGet_of_mem {κ α} [DecidableEq κ] (m : List (κ × α)) (hn : (m.map (·.1)).Nodup) {k : κ} {v : α}
    (h : (k, v) ∈ m) : dictGet m k = some v := by
  unfold dictGet
  cases hf : m.reverse.find? (fun e => e.1 = k) with
  | none =>
    have := List.find?_eq_none.mp hf (k, v) (List.mem_reverse.mpr h)
    simp at this
  | some e =>
    have hp := List.find?_some hf
    have hm := List.mem_reverse.mp (List.mem_of_find?_eq_some hf)
    obtain ⟨k', v'⟩ := e
    simp only [decide_eq_true_eq] at hp
    subst hp
    simp [keys_unique m hn hm h]

/-! ### invariants -/

/-- `_buffered_polygons` mirrors the lanelets; ids are unique (dict keys) and every polygon is an object of its own. -/
def Buffered (n : Net) : Prop :=
  n.buffered = n.lanelets.map (fun l => (l.id, l.poly)) ∧ (n.lanelets.map (·.id)).Nodup ∧
    (n.lanelets.map (·.poly.addr)).Nodup

/-- The tree and the reverse map are those of the current `_buffered_polygons`. -/
def Fresh (n : Net) : Prop :=
  n.tree = some (n.buffered.map (·.2)) ∧ n.idOf = n.buffered.map (fun e => (e.2.addr, e.1))

/-- The spatial index mirrors the current lanelet polygons. -/
def Sync (n : Net) : Prop := Buffered n ∧ Fresh n

theorem sync_empty : Sync Net.empty := ⟨⟨rfl, List.nodup_nil, List.nodup_nil⟩, rfl, rfl⟩

theorem fresh_create (n : Net) : Fresh (createStrtree n) := ⟨rfl, rfl⟩

theorem buffered_create {n : Net} (h : Buffered n) : Buffered (createStrtree n) := h

theorem sync_create {n : Net} (h : Buffered n) : Sync (createStrtree n) := ⟨buffered_create h, fresh_create n⟩

theorem any_id_iff (ls : List Lanelet) (i : Int) :
    ls.any (fun k => decide (k.id = i)) = true ↔ i ∈ ls.map (·.id) := by
  simp only [List.any_eq_true, decide_eq_true_eq, List.mem_map]

/-! ### add -/

theorem addLanelet_known (n : Net) (l : Lanelet) (r : Bool) (h : l.id ∈ n.lanelets.map (·.id)) :
    addLanelet n l r = (n, false) := by
  unfold addLanelet
  rw [if_pos ((any_id_iff _ _).mpr h)]

theorem addLanelet_new (n : Net) (l : Lanelet) (r : Bool) (hb : Buffered n) (h : l.id ∉ n.lanelets.map (·.id)) :
    addLanelet n l r =
      (let n' : Net := { n with lanelets := n.lanelets ++ [l], buffered := n.buffered ++ [(l.id, l.poly)] }
       (if r then createStrtree n' else n', true)) := by
  unfold addLanelet
  have hk : l.id ∉ n.buffered.map (·.1) := by
    rw [hb.1, List.map_map]; exact h
  rw [if_neg (fun hc => h ((any_id_iff _ _).mp hc)), dictSet_new _ _ _ hk]

theorem buffered_add {n : Net} (l : Lanelet) (r : Bool) (hb : Buffered n)
    (ha : l.poly.addr ∉ n.lanelets.map (·.poly.addr)) : Buffered (addLanelet n l r).1 := by
  by_cases h : l.id ∈ n.lanelets.map (·.id)
  · rw [addLanelet_known n l r h]; exact hb
  · rw [addLanelet_new n l r hb h]
    have hB : Buffered ({ n with lanelets := n.lanelets ++ [l], buffered := n.buffered ++ [(l.id, l.poly)] } : Net) := by
      refine ⟨?_, ?_, ?_⟩
      · simp [hb.1]
      · simp only [List.map_append, List.map_cons, List.map_nil]
        exact List.nodup_append.mpr ⟨hb.2.1, by simp, by
          intro a ha' b hb'; simp at hb'; subst hb'; intro e; exact h (e ▸ ha')⟩
      · simp only [List.map_append, List.map_cons, List.map_nil]
        exact List.nodup_append.mpr ⟨hb.2.2, by simp, by
          intro a ha' b hb'; simp at hb'; subst hb'; intro e; exact ha (e ▸ ha')⟩
    cases r
    · exact hB
    · exact buffered_create hB

theorem sync_add_rtree {n : Net} (l : Lanelet) (hs : Sync n)
    (ha : l.poly.addr ∉ n.lanelets.map (·.poly.addr)) : Sync (addLanelet n l true).1 := by
  refine ⟨buffered_add l true hs.1 ha, ?_⟩
  by_cases h : l.id ∈ n.lanelets.map (·.id)
  · rw [addLanelet_known n l true h]; exact hs.2
  · rw [addLanelet_new n l true hs.1 h]; exact fresh_create _

theorem fresh_add_new {n : Net} (l : Lanelet) (hb : Buffered n) (h : l.id ∉ n.lanelets.map (·.id)) :
    Fresh (addLanelet n l true).1 := by
  rw [addLanelet_new n l true hb h]; exact fresh_create _

theorem addLanelet_lanelets (n : Net) (l : Lanelet) (r : Bool) :
    (addLanelet n l r).1.lanelets = if l.id ∈ n.lanelets.map (·.id) then n.lanelets else n.lanelets ++ [l] := by
  by_cases h : l.id ∈ n.lanelets.map (·.id)
  · rw [addLanelet_known n l r h, if_pos h]
  · unfold addLanelet
    rw [if_neg (fun hc => h ((any_id_iff _ _).mp hc)), if_neg h]
    cases r <;> rfl

/-! ### remove -/

theorem removeLanelet_ok {n : Net} (i : Int) (r : Bool) (hb : Buffered n) :
    removeLanelet n i r = .ok
      (let n' : Net := { n with lanelets := n.lanelets.filter (fun k => decide (k.id ≠ i)),
                                buffered := n.buffered.filter (fun e => decide (e.1 ≠ i)) }
       if r then createStrtree n' else n') := by
  unfold removeLanelet
  by_cases h : i ∈ n.lanelets.map (·.id)
  · have hk : n.buffered.any (fun e => decide (e.1 = i)) = true := by
      rw [hb.1]
      obtain ⟨l, hl, rfl⟩ := List.mem_map.mp h
      exact List.any_eq_true.mpr ⟨(l.id, l.poly), List.mem_map.mpr ⟨l, hl, rfl⟩, by simp⟩
    rw [if_pos ((any_id_iff _ _).mpr h), if_pos hk]
  · rw [if_neg (fun hc => h ((any_id_iff _ _).mp hc))]
    have h1 : n.lanelets.filter (fun k => decide (k.id ≠ i)) = n.lanelets :=
      List.filter_eq_self.mpr (fun l hl => by
        simp only [ne_eq, decide_eq_true_eq]; intro e; exact h (List.mem_map.mpr ⟨l, hl, e⟩))
    have h2 : n.buffered.filter (fun e => decide (e.1 ≠ i)) = n.buffered :=
      List.filter_eq_self.mpr (fun e he => by
        simp only [ne_eq, decide_eq_true_eq]; intro e'
        rw [hb.1] at he
        obtain ⟨l, hl, rfl⟩ := List.mem_map.mp he
        exact h (List.mem_map.mpr ⟨l, hl, e'⟩))
    simp only [h1, h2]

theorem buffered_filter {n : Net} (i : Int) (hb : Buffered n) :
    Buffered ({ n with lanelets := n.lanelets.filter (fun k => decide (k.id ≠ i)),
                       buffered := n.buffered.filter (fun e => decide (e.1 ≠ i)) } : Net) := by
  refine ⟨?_, ?_, ?_⟩
  · simp only [hb.1, List.filter_map]; rfl
  · exact hb.2.1.sublist (List.Sublist.map _ List.filter_sublist)
  · exact hb.2.2.sublist (List.Sublist.map _ List.filter_sublist)

theorem remove_spec {n : Net} (i : Int) (r : Bool) (hb : Buffered n) :
    ∃ n', removeLanelet n i r = .ok n' ∧ Buffered n' ∧ (r = true → Fresh n') ∧
      n'.lanelets = n.lanelets.filter (fun k => decide (k.id ≠ i)) := by
  rw [removeLanelet_ok i r hb]
  cases r
  · exact ⟨_, rfl, buffered_filter i hb, by simp, rfl⟩
  · exact ⟨_, rfl, buffered_create (buffered_filter i hb), fun _ => fresh_create _, rfl⟩

/-- A removal without rebuild that removes nothing keeps a fresh index fresh. -/
theorem remove_absent {n : Net} (i : Int) (r : Bool) (h : i ∉ n.lanelets.map (·.id)) (hf : Fresh n) :
    ∃ n', removeLanelet n i r = .ok n' ∧ Fresh n' := by
  unfold removeLanelet
  rw [if_neg (fun hc => h ((any_id_iff _ _).mp hc))]
  cases r
  · exact ⟨_, rfl, hf⟩
  · exact ⟨_, rfl, fresh_create _⟩

/-! ### add_lanelets_from_network -/

theorem buffered_addMany (ls : List Lanelet) : ∀ (n : Net) (flag : Bool), Buffered n →
    (ls.map (·.poly.addr)).Nodup → (∀ l ∈ ls, l.poly.addr ∉ n.lanelets.map (·.poly.addr)) →
    Buffered (addManyLoop n flag ls).1 := by
  induction ls with
  | nil => intro n flag hb _ _; exact hb
  | cons l ls ih =>
    intro n flag hb hn hd
    simp only [List.map_cons, List.nodup_cons] at hn
    unfold addManyLoop
    cases flag
    · simp only [Bool.false_eq_true, if_false]
      exact ih n false hb hn.2 (fun k hk => hd k (List.mem_cons_of_mem _ hk))
    · simp only [if_true]
      apply ih _ _ (buffered_add l false hb (hd l (List.mem_cons_self))) hn.2
      intro k hk
      rw [addLanelet_lanelets]
      split
      · exact hd k (List.mem_cons_of_mem _ hk)
      · simp only [List.map_append, List.map_cons, List.map_nil, List.mem_append, List.mem_singleton, not_or]
        refine ⟨hd k (List.mem_cons_of_mem _ hk), fun e => hn.1 ?_⟩
        rw [← e]; exact List.mem_map.mpr ⟨k, hk, rfl⟩

theorem sync_addFrom {n : Net} (ls : List Lanelet) (hb : Buffered n)
    (hn : (ls.map (·.poly.addr)).Nodup) (hd : ∀ l ∈ ls, l.poly.addr ∉ n.lanelets.map (·.poly.addr)) :
    Sync (addFromNetwork n ls).1 :=
  sync_create (buffered_addMany ls n true hb hn hd)

/-! ### create_from_lanelet_list -/

theorem buffered_fromListLoop (ls : List Lanelet) : ∀ (n : Net), Buffered n →
    (ls.map (·.poly.addr)).Nodup → (∀ l ∈ ls, l.poly.addr ∉ n.lanelets.map (·.poly.addr)) →
    Buffered (fromListLoop n ls) := by
  induction ls with
  | nil => intro n hb _ _; exact hb
  | cons l ls ih =>
    intro n hb hn hd
    simp only [List.map_cons, List.nodup_cons] at hn
    unfold fromListLoop
    apply ih _ (buffered_add l false hb (hd l (List.mem_cons_self))) hn.2
    intro k hk
    rw [addLanelet_lanelets]
    split
    · exact hd k (List.mem_cons_of_mem _ hk)
    · simp only [List.map_append, List.map_cons, List.map_nil, List.mem_append, List.mem_singleton, not_or]
      refine ⟨hd k (List.mem_cons_of_mem _ hk), fun e => hn.1 ?_⟩
      rw [← e]; exact List.mem_map.mpr ⟨k, hk, rfl⟩

theorem fromListLoop_lanelets (ls : List Lanelet) : ∀ (n : Net),
    ((n.lanelets ++ ls).map (·.id)).Nodup → (fromListLoop n ls).lanelets = n.lanelets ++ ls := by
  induction ls with
  | nil => intro n _; simp [fromListLoop]
  | cons l ls ih =>
    intro n hn
    unfold fromListLoop
    have hl : l.id ∉ n.lanelets.map (·.id) := by
      simp only [List.map_append, List.map_cons] at hn
      have := (List.nodup_append.mp hn).2.2
      intro hc; exact this _ hc _ (List.mem_cons_self) rfl
    have e : (addLanelet n l false).1.lanelets = n.lanelets ++ [l] := by
      rw [addLanelet_lanelets, if_neg hl]
    rw [ih _ (by rw [e]; simpa using hn), e]; simp

theorem map_relabel_addr (f : Nat → Nat) (ls : List Lanelet) :
    (ls.map (relabelL f)).map (·.poly.addr) = (ls.map (·.poly.addr)).map f := by
  simp [relabelL, Lanelet.poly, List.map_map, Function.comp_def]

theorem map_relabel_id (f : Nat → Nat) (ls : List Lanelet) :
    (ls.map (relabelL f)).map (·.id) = ls.map (·.id) := by
  simp [relabelL, List.map_map, Function.comp_def]

theorem sync_fromList (f : Nat → Nat) (hf : Function.Injective f) (ls : List Lanelet)
    (hn : (ls.map (·.poly.addr)).Nodup) : Sync (fromList f ls) := by
  apply sync_create
  apply buffered_fromListLoop _ _ sync_empty.1
  · rw [map_relabel_addr]; exact hn.map hf
  · intro l _; simp [Net.empty]

/-! ### deepcopy / pickle -/

theorem sync_copy {n : Net} (f : Nat → Nat) (hf : Function.Injective f) (hb : Buffered n) : Sync (copyNet f n) := by
  apply sync_create
  refine ⟨?_, ?_, ?_⟩
  · simp [hb.1, relabelL, Lanelet.poly, List.map_map, Function.comp_def]
  · rw [map_relabel_id]; exact hb.2.1
  · rw [map_relabel_addr]; exact hb.2.2.map hf

/-! ### lookups -/

theorem mapM_ok {α β} (f : α → Res β) (g : α → β) (xs : List α) (h : ∀ x ∈ xs, f x = .ok (g x)) :
    xs.mapM f = .ok (xs.map g) := by
  induction xs with
  | nil => rfl
  | cons x xs ih =>
    rw [List.mapM_cons, h x (List.mem_cons_self), ih (fun y hy => h y (List.mem_cons_of_mem _ hy))]
    rfl

theorem idOfPoly_sync {n : Net} (hs : Sync n) {l : Lanelet} (hl : l ∈ n.lanelets) : idOfPoly n l.poly = .ok l.id := by
  unfold idOfPoly
  have hid : n.idOf = n.lanelets.map (fun l => (l.poly.addr, l.id)) := by
    rw [hs.2.2, hs.1.1, List.map_map]; rfl
  have hn : (n.idOf.map (·.1)).Nodup := by
    rw [hid, List.map_map]; exact hs.1.2.2
  rw [dictGet_of_mem n.idOf hn (v := l.id) (by rw [hid]; exact List.mem_map.mpr ⟨l, hl, rfl⟩)]

theorem tree_sync {n : Net} (hs : Sync n) : n.tree = some (n.lanelets.map (·.poly)) := by
  rw [hs.2.1, hs.1.1, List.map_map]; rfl

theorem scan_sync {n : Net} (hs : Sync n) (P : List Pt → Bool) :
    ((n.lanelets.map (·.poly)).filter (fun g => P g.ring)).mapM (idOfPoly n) =
      .ok ((n.lanelets.filter (fun l => P l.poly.ring)).map (·.id)) := by
  rw [List.filter_map, mapM_ok (idOfPoly n) (fun g => _) _ ?_]
  rotate_left
  · exact fun g => match dictGet n.idOf g.addr with | some i => i | none => 0
  · intro g hg
    obtain ⟨l, hl, rfl⟩ := List.mem_map.mp hg
    have := idOfPoly_sync hs (List.mem_filter.mp hl).1
    unfold idOfPoly at this ⊢
    cases h : dictGet n.idOf l.poly.addr with
    | none => rw [h] at this; cases this
    | some i => rfl
  · congr 1
    rw [List.map_map]
    apply List.map_congr_left
    intro l hl
    have := idOfPoly_sync hs (List.mem_filter.mp hl).1
    unfold idOfPoly at this
    simp only [Function.comp]
    cases h : dictGet n.idOf l.poly.addr with
    | none => rw [h] at this; cases this
    | some i => rw [h] at this; cases this; rfl

/-! ### obstacles -/

theorem mem_dedupInto (xs : List Obst) : ∀ (res : List Obst) (o : Obst), o ∈ dedupInto res xs ↔ o ∈ res ∨ o ∈ xs := by
  induction xs with
  | nil => intro res o; simp [dedupInto]
  | cons x xs ih =>
    intro res o
    unfold dedupInto
    split
    · rename_i h
      rw [ih]; constructor
      · rintro (h1 | h1); exact Or.inl h1; exact Or.inr (List.mem_cons_of_mem _ h1)
      · rintro (h1 | h1); exact Or.inl h1
        rcases List.mem_cons.mp h1 with h2 | h2
        · exact Or.inl (h2 ▸ h)
        · exact Or.inr h2
    · rw [ih]; simp only [List.mem_append, List.mem_cons]; tauto

theorem nodup_dedupInto (xs : List Obst) : ∀ (res : List Obst), res.Nodup → (dedupInto res xs).Nodup := by
  induction xs with
  | nil => intro res h; exact h
  | cons x xs ih =>
    intro res h
    unfold dedupInto
    split
    · exact ih res h
    · rename_i hx
      apply ih
      exact List.nodup_append.mpr ⟨h, by simp, by intro a ha b hb; simp at hb; subst hb; intro e; exact hx (e ▸ ha)⟩

/-! ### LaneletNetwork.translate_rotate -/

theorem sync_move {n : Net} (t : Pt) (f : Nat → Nat) (hf : Function.Injective f) (hb : Buffered n) :
    Sync (moveNet t f n) := by
  apply sync_create
  refine ⟨rfl, ?_, ?_⟩
  · have : (n.lanelets.map (moveL t f)).map (·.id) = n.lanelets.map (·.id) := by
      simp [moveL, List.map_map, Function.comp_def]
    rw [show ({ n with lanelets := n.lanelets.map (moveL t f),
                       buffered := (n.lanelets.map (moveL t f)).map (fun l => (l.id, l.poly)) } : Net).lanelets =
          n.lanelets.map (moveL t f) from rfl, this]
    exact hb.2.1
  · have : (n.lanelets.map (moveL t f)).map (·.poly.addr) = (n.lanelets.map (·.poly.addr)).map f := by
      simp [moveL, Lanelet.poly, List.map_map, Function.comp_def]
    rw [show ({ n with lanelets := n.lanelets.map (moveL t f),
                       buffered := (n.lanelets.map (moveL t f)).map (fun l => (l.id, l.poly)) } : Net).lanelets =
          n.lanelets.map (moveL t f) from rfl, this]
    exact hb.2.2.map hf

/-- The polygon of a moved lanelet is the moved polygon. -/
theorem moveL_ring (t : Pt) (f : Nat → Nat) (l : Lanelet) :
    (moveL t f l).poly.ring = l.poly.ring.map (·.add t) := by
  simp [moveL, Lanelet.poly, laneletRing, List.map_append, List.map_reverse]

/-! ### Scenario.remove_lanelet(list), possibly failing half-way -/

theorem scRemove_spec (ids : List Int) : ∀ (n : Net), Buffered n →
    Buffered (scRemoveLoop n ids).1 ∧ (Fresh n → Fresh (scRemoveLoop n ids).1) ∧
    ((∃ i ∈ ids.head?, i ∈ n.lanelets.map (·.id)) → Fresh (scRemoveLoop n ids).1) := by
  induction ids with
  | nil => intro n hb; exact ⟨hb, id, by simp⟩
  | cons i is ih =>
    intro n hb
    unfold scRemoveLoop
    by_cases h : i ∈ n.lanelets.map (·.id)
    · rw [if_pos ((any_id_iff _ _).mpr h)]
      obtain ⟨n', h1, hb', hf', _⟩ := remove_spec i true hb
      rw [h1]
      obtain ⟨k1, k2, _⟩ := ih n' hb'
      exact ⟨k1, fun _ => k2 (hf' rfl), fun _ => k2 (hf' rfl)⟩
    · rw [if_neg (fun hc => h ((any_id_iff _ _).mp hc))]
      refine ⟨hb, id, ?_⟩
      rintro ⟨j, hj, hj'⟩
      simp only [List.head?_cons, Option.mem_def, Option.some.injEq] at hj
      subst hj; exact absurd hj' h

/-- The lanelets left by `Scenario.remove_lanelet(ids)`: the entries up to the first one that is not (any more) in
    the network are removed, the others stay — whether or not the call raised. -/
theorem scRemove_lanelets (ids : List Int) : ∀ (n : Net), Buffered n →
    ∀ l, l ∈ (scRemoveLoop n ids).1.lanelets → l ∈ n.lanelets := by
  induction ids with
  | nil => intro n _ l h; exact h
  | cons i is ih =>
    intro n hb l
    unfold scRemoveLoop
    by_cases h : i ∈ n.lanelets.map (·.id)
    · rw [if_pos ((any_id_iff _ _).mpr h)]
      obtain ⟨n', h1, hb', _, hl⟩ := remove_spec i true hb
      rw [h1]
      intro hm
      have := ih n' hb' l hm
      rw [hl] at this
      exact (List.mem_filter.mp this).1
    · rw [if_neg (fun hc => h ((any_id_iff _ _).mp hc))]; exact id

/-! ### operation sequences: vocabulary of the property theorems -/

/-- Admissible operation in a state: a lanelet that is added brings a polygon object of its own (Python: a live
    object has a unique `id`); a copy yields fresh distinct objects. -/
def Adm (n : Net) : Op → Prop
  | .add l _ => l.poly.addr ∉ n.lanelets.map (·.poly.addr)
  | .remove _ _ => True
  | .addFrom ls => (ls.map (·.poly.addr)).Nodup ∧ ∀ l ∈ ls, l.poly.addr ∉ n.lanelets.map (·.poly.addr)
  | .copy f => Function.Injective f
  | .scRemove _ => True
  | .move _ f => Function.Injective f

/-- Every operation of a sequence is admissible in the state it is applied to. -/
def AdmSeq : Net → List Op → Prop
  | _, [] => True
  | n, o :: os => Adm n o ∧ ∀ n', step n o = .ok n' → AdmSeq n' os

/-- The operation ends with a rebuilt index (or changes nothing). -/
def rebuilds : Op → Bool
  | .add _ r => r
  | .remove _ r => r
  | .addFrom _ => true
  | .copy _ => true
  | .scRemove _ => true
  | .move _ _ => true

/-- The operation certainly rebuilds the index in state `n`. -/
def refreshes (n : Net) : Op → Prop
  | .add l r => r = true ∧ l.id ∉ n.lanelets.map (·.id)
  | .remove _ r => r = true
  | .addFrom _ => True
  | .copy _ => True
  | .scRemove ids => ∃ i ∈ ids.head?, i ∈ n.lanelets.map (·.id)
  | .move _ _ => True


theorem run_append (ops : List Op) : ∀ (n n1 : Net) (o : Op), run n ops = .ok n1 →
    run n (ops ++ [o]) = step n1 o := by
  induction ops with
  | nil => intro n n1 o h; simp only [run] at h; cases h; simp only [List.nil_append, run]; cases step n o <;> rfl
  | cons o' os ih =>
    intro n n1 o h
    simp only [List.cons_append, run] at h ⊢
    cases hs : step n o' with
    | error e => rw [hs] at h; cases h
    | ok n2 => rw [hs] at h; simp only []; exact ih n2 n1 o h

theorem admSeq_append (ops : List Op) : ∀ (n n1 : Net) (o : Op), AdmSeq n (ops ++ [o]) → run n ops = .ok n1 → Adm n1 o := by
  induction ops with
  | nil => intro n n1 o h hr; simp only [run] at hr; cases hr; exact h.1
  | cons o' os ih =>
    intro n n1 o h hr
    simp only [run] at hr
    cases hs : step n o' with
    | error e => rw [hs] at hr; cases hr
    | ok n2 => rw [hs] at hr; exact ih n2 n1 o (h.2 n2 hs) hr

theorem admSeq_prefix (ops : List Op) : ∀ (n : Net) (o : Op), AdmSeq n (ops ++ [o]) → AdmSeq n ops := by
  induction ops with
  | nil => intro _ _ _; trivial
  | cons o' os ih => intro n o h; exact ⟨h.1, fun n' hn' => ih n' o (h.2 n' hn')⟩


/-! ### lookups: list form and the scan of the lanelets -/

/-- List form (tree order = insertion order in the model; `STRtree.query` promises no order, so the property theorems
    in `CRProps/C06.lean` only use membership and `Nodup`).  `within` is arbitrary here; it is instantiated there. -/
theorem find_eq_scan (within : List Pt → Pt → Bool) (n : Net) (hs : Sync n) (pts : List Pt) :
    findByPosition within n pts =
      .ok (pts.map (fun p => (n.lanelets.filter (fun l => within l.poly.ring p)).map (·.id))) := by
  unfold findByPosition
  cases pts with
  | nil => rfl
  | cons p ps =>
    simp only []
    rw [tree_sync hs]
    exact mapM_ok _ _ _ (fun p _ => scan_sync hs (fun ring => within ring p))

/-- The same for `find_lanelet_by_shape` with a Circle / Polygon / Rectangle. -/
theorem findShape_eq_scan (meets : List Pt → Prim → Bool) (n : Net) (hs : Sync n) (s : Prim) :
    findByShape meets n (.prim s) = .ok ((n.lanelets.filter (fun l => meets l.poly.ring s)).map (·.id)) := by
  unfold findByShape findPrim
  rw [tree_sync hs]
  exact scan_sync hs (fun ring => meets ring s)


/-- The ids of the lanelets satisfying `P`, in the order of the network. -/
def scanIds (n : Net) (P : Lanelet → Bool) : List Int := (n.lanelets.filter P).map (·.id)

theorem scanIds_spec {n : Net} (hb : Buffered n) (P : Lanelet → Bool) :
    (scanIds n P).Nodup ∧ ∀ i, i ∈ scanIds n P ↔ ∃ l ∈ n.lanelets, l.id = i ∧ P l = true := by
  refine ⟨hb.2.1.sublist (List.Sublist.map _ List.filter_sublist), fun i => ?_⟩
  simp only [scanIds, List.mem_map, List.mem_filter]
  constructor
  · rintro ⟨l, ⟨hl, hp⟩, rfl⟩; exact ⟨l, hl, rfl, hp⟩
  · rintro ⟨l, hl, rfl, hp⟩; exact ⟨l, ⟨hl, hp⟩, rfl⟩

theorem mem_appendNew (res ids : List Int) (i : Int) : i ∈ appendNew res ids ↔ i ∈ res ∨ i ∈ ids := by
  induction ids generalizing res with
  | nil => simp [appendNew]
  | cons a as ih =>
    simp only [appendNew, ih, List.mem_cons]
    by_cases h : a ∈ res
    · simp only [h, if_true]
      constructor
      · rintro (h1 | h1) <;> [exact Or.inl h1; exact Or.inr (Or.inr h1)]
      · rintro (h1 | h1 | h1)
        · exact Or.inl h1
        · subst h1; exact Or.inl h
        · exact Or.inr h1
    · simp only [h, if_false, List.mem_append, List.mem_singleton]
      tauto

theorem nodup_appendNew (res ids : List Int) (h : res.Nodup) : (appendNew res ids).Nodup := by
  induction ids generalizing res with
  | nil => simpa [appendNew]
  | cons a as ih =>
    simp only [appendNew]
    apply ih
    by_cases ha : a ∈ res
    · simpa [ha] using h
    · simp only [ha, if_false]
      exact List.nodup_append.mpr ⟨h, by simp, by intro x hx y hy; simp at hy; subst hy; intro hxy; exact ha (hxy ▸ hx)⟩


end CR.Index
