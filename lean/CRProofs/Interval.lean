import CRModel.Interval
import Mathlib.Tactic.Linarith
import Mathlib.Tactic.Ring
import Mathlib.Tactic.FieldSimp
import Mathlib.Algebra.Order.Field.Rat
import Mathlib.Algebra.Order.Floor.Ring
import Mathlib.Data.Rat.Floor

namespace CR.Iv

/-! ### wrap -/

theorem wrap_eq (τ x : Rat) : wrap τ x = x - τ * ((x / τ).floor : Int) := rfl

theorem wrap_nonneg {τ : Rat} (hτ : 0 < τ) (x : Rat) : 0 ≤ wrap τ x := by
  have h := Rat.floor_le (x / τ)
  have : ((x / τ).floor : Rat) * τ ≤ x := by
    have := mul_le_mul_of_nonneg_right h (le_of_lt hτ)
    rwa [div_mul_cancel₀ _ (ne_of_gt hτ)] at this
  rw [wrap_eq]; linarith

theorem wrap_lt {τ : Rat} (hτ : 0 < τ) (x : Rat) : wrap τ x < τ := by
  have h := Rat.lt_floor_add_one (x / τ)
  have : x < (((x / τ).floor + 1 : Int) : Rat) * τ := by
    have := mul_lt_mul_of_pos_right h hτ
    rwa [div_mul_cancel₀ _ (ne_of_gt hτ)] at this
  rw [wrap_eq]; push_cast at this; linarith

/-- `wrap` is the unique representative in `[0, τ)`. -/
theorem wrap_unique {τ : Rat} (hτ : 0 < τ) (x : Rat) (k : Int)
    (h0 : 0 ≤ x + k * τ) (h1 : x + k * τ < τ) : wrap τ x = x + k * τ := by
  have hf : (x / τ).floor = -k := by
    have h1 : -k ≤ (x / τ).floor := Rat.le_floor_iff.mpr (by rw [le_div_iff₀ hτ]; push_cast; linarith)
    have h2 : (x / τ).floor < -k + 1 := Rat.floor_lt_iff.mpr (by rw [div_lt_iff₀ hτ]; push_cast; linarith)
    omega
  rw [wrap_eq, hf]; push_cast; ring

theorem wrap_exists (τ x : Rat) : ∃ k : Int, wrap τ x = x + k * τ :=
  ⟨-(x / τ).floor, by rw [wrap_eq]; push_cast; ring⟩

theorem wrap_add_int {τ : Rat} (hτ : 0 < τ) (x : Rat) (k : Int) : wrap τ (x + k * τ) = wrap τ x := by
  obtain ⟨m, hm⟩ := wrap_exists τ x
  have h0 := wrap_nonneg hτ x
  have h1 := wrap_lt hτ x
  have := wrap_unique hτ (x + k * τ) (m - k) (by push_cast; linarith) (by push_cast; linarith)
  rw [this, hm]; push_cast; ring

/-! ### loops -/

theorem downLoop2_spec (τ : Rat) (hτ : 0 < τ) : ∀ (n : Nat) (s e : Rat),
    s ≤ (n + 1) * τ → e ≤ (n + 1) * τ →
    ∃ m : Nat, downLoop2 n τ s e = (s - m * τ, e - m * τ) ∧ s - m * τ ≤ τ ∧ e - m * τ ≤ τ
      ∧ (m = 0 ∨ (τ < s - (m - 1 : Nat) * τ ∨ τ < e - (m - 1 : Nat) * τ))
  | 0, s, e, hs, he => ⟨0, by simp [downLoop2], by simpa using hs, by simpa using he, Or.inl rfl⟩
  | n + 1, s, e, hs, he => by
    unfold downLoop2
    by_cases hg : s > τ ∨ e > τ
    · simp only [hg, if_true]
      obtain ⟨m, hm, h1, h2, h3⟩ := downLoop2_spec τ hτ n (s - τ) (e - τ)
        (by push_cast at hs ⊢; linarith) (by push_cast at he ⊢; linarith)
      refine ⟨m + 1, ?_, ?_, ?_, ?_⟩
      · rw [hm]; push_cast; congr 1 <;> ring
      · push_cast; linarith
      · push_cast; linarith
      · right
        rcases h3 with h3 | h3
        · subst h3; simpa using hg
        · have hm1 : 1 ≤ m := by
            rcases Nat.eq_zero_or_pos m with h | h
            · subst h; simp at h3 h1 h2; rcases h3 with h3 | h3 <;> linarith
            · exact h
          simp only [Nat.add_sub_cancel]
          have : ((m - 1 : Nat) : Rat) = (m : Rat) - 1 := by
            rw [Nat.cast_sub hm1]; simp
          rw [this] at h3
          rcases h3 with h3 | h3 <;> [left; right] <;> linarith
    · simp only [hg, if_false]
      push Not at hg
      exact ⟨0, by simp, by simpa using hg.1, by simpa using hg.2, Or.inl rfl⟩

theorem upLoop2_spec (τ : Rat) (hτ : 0 < τ) : ∀ (n : Nat) (s e : Rat),
    -((n : Rat) + 1) * τ ≤ s →
    ∃ m : Nat, upLoop2 n τ s e = (s + m * τ, e + m * τ) ∧ -τ ≤ s + m * τ
      ∧ (m = 0 ∨ s + (m - 1 : Nat) * τ < -τ)
  | 0, s, e, hs => ⟨0, by simp [upLoop2], by simp at hs ⊢; linarith, Or.inl rfl⟩
  | n + 1, s, e, hs => by
    unfold upLoop2
    by_cases hg : s < -τ ∨ s < -τ
    · simp only [hg, if_true]
      obtain ⟨m, hm, h1, h3⟩ := upLoop2_spec τ hτ n (s + τ) (e + τ) (by push_cast at hs ⊢; linarith)
      refine ⟨m + 1, ?_, ?_, ?_⟩
      · rw [hm]; push_cast; congr 1 <;> ring
      · push_cast; linarith
      · right
        rcases h3 with h3 | h3
        · subst h3; simp; rcases hg with h | h <;> exact h
        · have hm1 : 1 ≤ m := by
            rcases Nat.eq_zero_or_pos m with h | h
            · subst h; simp at h3 h1; linarith
            · exact h
          simp only [Nat.add_sub_cancel]
          have : ((m - 1 : Nat) : Rat) = (m : Rat) - 1 := by
            rw [Nat.cast_sub hm1]; simp
          rw [this] at h3
          linarith
    · simp only [hg, if_false]
      push Not at hg
      exact ⟨0, by simp, by simpa using hg.1, Or.inl rfl⟩

theorem abs_le_fuel {τ : Rat} (hτ : 0 < τ) (x : Rat) :
    x ≤ (fuelFor τ x : Rat) * τ ∧ -((fuelFor τ x : Rat) * τ) ≤ x := by
  unfold fuelFor
  set a : Rat := if x < 0 then -x else x with ha
  have ha0 : 0 ≤ a := by rw [ha]; split <;> linarith
  have hax : x ≤ a ∧ -a ≤ x := by rw [ha]; split <;> constructor <;> linarith
  have hc : a / τ ≤ ((a / τ).ceil : Rat) := Rat.le_ceil
  have hc0 : 0 ≤ (a / τ).ceil := by
    have : (-1 : Int) < (a / τ).ceil :=
      Rat.lt_ceil_iff.mpr (by have := div_nonneg ha0 (le_of_lt hτ); push_cast; linarith)
    omega
  have hcast : (((a / τ).ceil.toNat : Nat) : Rat) = ((a / τ).ceil : Rat) := by
    have := Int.toNat_of_nonneg hc0
    exact_mod_cast congrArg (fun z : Int => (z : Rat)) this
  have h1 : a ≤ ((a / τ).ceil : Rat) * τ := by
    have := mul_le_mul_of_nonneg_right hc (le_of_lt hτ)
    rwa [div_mul_cancel₀ _ (ne_of_gt hτ)] at this
  push_cast
  rw [hcast]
  constructor <;> nlinarith [hax.1, hax.2]

end CR.Iv
