/-
  CRProofs.XsdEnum — shared definitions for the enumeration theorems of C03, and the large `decide`s over the traffic-sign
  tables (kept out of CRProps/C03.lean so that lake builds them in parallel and caches them).
-/
import CRModel.XsdModel
import CRModel.CRXmlWOk
import Gen.XsdScenario
import Gen.PyEnums

namespace CR.C03
open CR.Xsd

/-- the schema accepts the member's value exactly if it is neither `UNKNOWN` nor listed as not expressible -/
def signOk (x : String × String × String) : Bool :=
  acceptsV "trafficSignID" x.2.2 == !(x.2.1 == "UNKNOWN" || signNotExpressible.contains (x.1, x.2.1))

/-- the German table and its Zamunda copy -/
def gerSigns : List (String × String) := (CR.Py.Gen.trafficSignId.filter (fun x => x.1 == "TrafficSignIDGermany")).map (·.2)
def zamSigns : List (String × String) := (CR.Py.Gen.trafficSignId.filter (fun x => x.1 == "TrafficSignIDZamunda")).map (·.2)
def otherSigns : List (String × String × String) :=
  CR.Py.Gen.trafficSignId.filter (fun x => x.1 != "TrafficSignIDGermany" && x.1 != "TrafficSignIDZamunda")

def gerExcl : List String :=
  ["KEEP_STRAIGHT_AHEAD", "LANE_BOARD_3_LANES_NO_OPPOSITE_WITH_SIGNS", "ADDITION_SCHOOL", "ADDITION_KINDERGARTEN",
   "ADDITION_RETIREMENT_HOME", "ADDITION_HOSPITAL"]

/-- (member name, value) of the German / Zamunda table: accepted exactly if not `UNKNOWN` and not one of the six -/
def okNV (p : String × String) : Bool := acceptsV "trafficSignID" p.2 == !(p.1 == "UNKNOWN" || gerExcl.contains p.1)

end CR.C03
