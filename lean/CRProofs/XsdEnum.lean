/-
  CRProofs.XsdEnum — shared definitions for the enumeration theorems of C03, and the large `decide`s over the traffic-sign
  tables (kept out of CRProps/C03.lean so that lake builds them in parallel and caches them).
-/
import CRModel.XsdModel
import CRModel.CRXmlWOk
import Gen.XsdScenario
import Gen.PyEnums

namespace CR.C03
open CR.Xsd

/-- traffic-sign members whose value the 2020a XSD does not list (besides every `UNKNOWN`, whose value is "") -/
def signNotExpressible : List (String × String) :=
  [("TrafficSignIDArgentina", "MAX_SPEED"), ("TrafficSignIDAustralia", "STOP"), ("TrafficSignIDAustralia", "YIELD"),
   ("TrafficSignIDBelgium", "MAX_SPEED"), ("TrafficSignIDCroatia", "MAX_SPEED"), ("TrafficSignIDFrance", "MAX_SPEED"),
   ("TrafficSignIDGreece", "MAX_SPEED"), ("TrafficSignIDRussia", "MAX_SPEED"), ("TrafficSignIDUsa", "STOP"),
   ("TrafficSignIDUsa", "STOP_4_WAY"), ("TrafficSignIDUsa", "NO_TURN_ON_RED"), ("TrafficSignIDUsa", "ONEWAY"),
   ("TrafficSignIDGermany", "KEEP_STRAIGHT_AHEAD"), ("TrafficSignIDGermany", "LANE_BOARD_3_LANES_NO_OPPOSITE_WITH_SIGNS"),
   ("TrafficSignIDGermany", "ADDITION_SCHOOL"), ("TrafficSignIDGermany", "ADDITION_KINDERGARTEN"),
   ("TrafficSignIDGermany", "ADDITION_RETIREMENT_HOME"), ("TrafficSignIDGermany", "ADDITION_HOSPITAL"),
   ("TrafficSignIDZamunda", "KEEP_STRAIGHT_AHEAD"), ("TrafficSignIDZamunda", "LANE_BOARD_3_LANES_NO_OPPOSITE_WITH_SIGNS"),
   ("TrafficSignIDZamunda", "ADDITION_SCHOOL"), ("TrafficSignIDZamunda", "ADDITION_KINDERGARTEN"),
   ("TrafficSignIDZamunda", "ADDITION_RETIREMENT_HOME"), ("TrafficSignIDZamunda", "ADDITION_HOSPITAL")]

def signOk (x : String × String × String) : Bool :=
  acceptsV "trafficSignID" x.2.2 || x.2.1 == "UNKNOWN" || signNotExpressible.contains (x.1, x.2.1)

/-- the German table and its Zamunda copy -/
def gerSigns : List (String × String) := (CR.Py.Gen.trafficSignId.filter (fun x => x.1 == "TrafficSignIDGermany")).map (·.2)
def zamSigns : List (String × String) := (CR.Py.Gen.trafficSignId.filter (fun x => x.1 == "TrafficSignIDZamunda")).map (·.2)
def otherSigns : List (String × String × String) :=
  CR.Py.Gen.trafficSignId.filter (fun x => x.1 != "TrafficSignIDGermany" && x.1 != "TrafficSignIDZamunda")

def gerExcl : List String :=
  ["KEEP_STRAIGHT_AHEAD", "LANE_BOARD_3_LANES_NO_OPPOSITE_WITH_SIGNS", "ADDITION_SCHOOL", "ADDITION_KINDERGARTEN",
   "ADDITION_RETIREMENT_HOME", "ADDITION_HOSPITAL"]

/-- (member name, value) of the German / Zamunda table is fine -/
def okNV (p : String × String) : Bool := acceptsV "trafficSignID" p.2 || p.1 == "UNKNOWN" || gerExcl.contains p.1

end CR.C03
