/-
  CRProofs.SolutionXml — helper lemmas for C14 (model: CRModel/SolutionXml.lean).
  Part 1: generic list lemmas, the state-level write → read lemma for ANY aligned table.
-/
import CRModel.SolutionXml
import Std.Data.String.ToInt
namespace CR.Sol

/-! ## small generic facts -/

theorem mapRes_ok {α β : Type} (f : α → Res β) (g : α → β) :
    ∀ (l : List α), (∀ a ∈ l, f a = .ok (g a)) → mapRes f l = .ok (l.map g)
  | [], _ => rfl
  | a :: as, h => by
    have h1 := h a (by simp)
    have h2 := mapRes_ok f g as (fun x hx => h x (by simp [hx]))
    simp [mapRes, h1, h2]

theorem mapRes_congr_ok {α β : Type} (f : α → Res β) :
    ∀ (l : List α) (r : List β), l.length = r.length →
      (∀ i (h1 : i < l.length) (h2 : i < r.length), f l[i] = .ok r[i]) → mapRes f l = .ok r
  | [], [], _, _ => rfl
  | [], _ :: _, h, _ => by simp at h
  | _ :: _, [], h, _ => by simp at h
  | a :: as, b :: bs, hl, h => by
    have h0 := h 0 (by simp) (by simp)
    simp only [List.getElem_cons_zero] at h0
    have ih := mapRes_congr_ok f as bs (by simpa using hl) (fun i h1 h2 => by
      have := h (i + 1) (by simp; omega) (by simp; omega)
      simpa using this)
    simp [mapRes, h0, ih]

/-- Bool-valued "no duplicates" (so that the table facts can be decided). -/
def nodupB : List String → Bool
  | [] => true
  | a :: l => !l.contains a && nodupB l

theorem lookup_map_self (g : String → FVal) :
    ∀ (tb : List (XName × String)) (a : String), a ∈ tb.map (·.2) →
      (tb.map fun e => (e.2, g e.2)).lookup a = some (g a)
  | [], _, h => by simp at h
  | e :: es, a, h => by
    by_cases hea : a = e.2
    · subst hea; simp
    · have : a ∈ es.map (·.2) := by
        simp only [List.map_cons, List.mem_cons] at h
        rcases h with h | h
        · exact absurd h hea
        · exact h
      have hne : (a == e.2) = false := by simpa using hea
      simp only [List.map_cons, List.lookup, hne]
      exact lookup_map_self g es a this

/-! ## finding a leaf -/

theorem findLeaf_append_of_not_mem (n : String) (pre post : List Leaf)
    (h : ∀ l ∈ pre, l.tag ≠ n) : findLeaf n (pre ++ post) = findLeaf n post := by
  induction pre with
  | nil => rfl
  | cons a as ih =>
    have ha : (a.tag == n) = false := by simpa using h a (by simp)
    have := ih (fun l hl => h l (by simp [hl]))
    simp only [findLeaf, List.cons_append, List.find?_cons, ha] at *
    exact this

theorem findLeaf_cons_self (n t : String) (post : List Leaf) : findLeaf n (⟨n, t⟩ :: post) = some ⟨n, t⟩ := by
  simp [findLeaf]

theorem findLeaf_cons_ne (n : String) (l : Leaf) (post : List Leaf) (h : l.tag ≠ n) :
    findLeaf n (l :: post) = findLeaf n post := by
  have : (l.tag == n) = false := by simpa using h
  simp [findLeaf, this]

/-! ## one table entry: what is written, and that it is read back -/

/-- value of field `f` as the reader will hold it -/
def valOf (st : State) (f : String) : FVal := (getattr st f).getD FVal.none

/-- the leaves `writeField` produces for a well-typed entry -/
def entryLeaves (c : Codec) (st : State) (e : XName × String) : List Leaf :=
  match e.1, valOf st e.2 with
  | .pair a b, .vec x y => [⟨a, c.fmtNum x⟩, ⟨b, c.fmtNum y⟩]
  | .one n, .num v => [⟨n, c.fmtNum v⟩]
  | .one n, .time t => [⟨n, c.fmtInt t⟩]
  | _, _ => []

theorem typedFor_cons (st : State) (e : XName × String) (es : List (XName × String)) :
    typedFor (e :: es) st = (entryOK st e && typedFor es st) := by
  simp [typedFor]

theorem writeField_ok (c : Codec) (st : State) (e : XName × String) (h : entryOK st e = true) :
    writeField c st e = .ok (entryLeaves c st e) := by
  obtain ⟨xn, f⟩ := e
  unfold entryOK at h
  simp only at h
  cases hg : getattr st f with
  | none => simp [hg] at h
  | some v =>
    simp only [hg] at h
    cases xn with
    | one n =>
      cases v <;> simp_all [writeField, entryLeaves, valOf, subText, kindOK]
    | pair a b =>
      cases v <;> simp_all [writeField, entryLeaves, valOf, kindOK]

theorem entryLeaves_tags (c : Codec) (st : State) (e : XName × String) (h : entryOK st e = true) :
    (entryLeaves c st e).map (·.tag) = e.1.names := by
  obtain ⟨xn, f⟩ := e
  unfold entryOK at h
  simp only at h
  cases hg : getattr st f with
  | none => simp [hg] at h
  | some v =>
    simp only [hg] at h
    cases xn <;> cases v <;> simp_all [entryLeaves, valOf, kindOK, XName.names]

/-- all leaves a table writes for a well-typed state -/
def tableLeaves (c : Codec) (st : State) (tb : List (XName × String)) : List Leaf :=
  tb.flatMap (entryLeaves c st)

theorem writeLeaves_ok (c : Codec) (st : State) :
    ∀ (tb : List (XName × String)), typedFor tb st = true → writeLeaves c st tb = .ok (tableLeaves c st tb)
  | [], _ => rfl
  | e :: es, h => by
    rw [typedFor_cons, Bool.and_eq_true] at h
    simp [writeLeaves, writeField_ok c st e h.1, writeLeaves_ok c st es h.2, tableLeaves]

theorem tableLeaves_tags (c : Codec) (st : State) :
    ∀ (tb : List (XName × String)), typedFor tb st = true → (tableLeaves c st tb).map (·.tag) = tableNames tb
  | [], _ => rfl
  | e :: es, h => by
    rw [typedFor_cons, Bool.and_eq_true] at h
    have ih := tableLeaves_tags c st es h.2
    simp only [tableLeaves, tableNames, List.flatMap_cons, List.map_append] at *
    rw [entryLeaves_tags c st e h.1, ih]

theorem lookup_mem : ∀ (st : State) (f : String) (v : FVal), st.lookup f = some v → (f, v) ∈ st
  | [], _, _, h => by simp [List.lookup] at h
  | (k, w) :: rest, f, v, h => by
    by_cases hk : f = k
    · subst hk
      simp [List.lookup] at h
      subst h
      simp
    · have hne : (f == k) = false := by simpa using hk
      simp only [List.lookup, hne] at h
      exact List.mem_cons_of_mem _ (lookup_mem rest f v h)

theorem mem_stateToks {st : State} {f : String} {v : FVal} {t : Tok} (h : getattr st f = some v)
    (ht : t ∈ fvalToks v) : t ∈ stateToks st :=
  List.mem_flatMap.2 ⟨(f, v), lookup_mem st f v h, ht⟩

/-- what the proofs need from the number codec for one state -/
def NumOK (c : Codec) (st : State) : Prop := ∀ v ∈ stateToks st, c.prsNum (c.fmtNum v) = .ok v
def IntOK (c : Codec) : Prop := ∀ i, c.prsInt (c.fmtInt i) = .ok i

/-- reading one entry back out of `pre ++ (its leaves) ++ post`, when no earlier leaf carries its names -/
theorem parseField_entry (c : Codec) (hnum : NumOK c st) (hint : IntOK c) (e : XName × String)
    (h : entryOK st e = true) (hn : nodupB e.1.names = true) (pre post : List Leaf)
    (hpre : ∀ l ∈ pre, ∀ n ∈ e.1.names, l.tag ≠ n) :
    parseField c (pre ++ entryLeaves c st e ++ post) e = .ok (e.2, valOf st e.2) := by
  obtain ⟨xn, f⟩ := e
  unfold entryOK at h
  simp only at h
  cases hg : getattr st f with
  | none => simp [hg] at h
  | some v =>
    simp only [hg] at h
    cases xn with
    | one n =>
      have hp : ∀ l ∈ pre, l.tag ≠ n := fun l hl => hpre l hl n (by simp [XName.names])
      cases v with
      | num x =>
        have hnt : (n == "time") = false := by simpa [kindOK] using h
        have hx := hnum x (mem_stateToks hg (by simp [fvalToks]))
        simp [parseField, hnt, subNum, entryLeaves, valOf, hg, List.append_assoc,
          findLeaf_append_of_not_mem n pre _ hp, findLeaf_cons_self, hx]
      | time t =>
        have hnt : (n == "time") = true := by simpa [kindOK] using h
        simp [parseField, hnt, subInt, entryLeaves, valOf, hg, List.append_assoc,
          findLeaf_append_of_not_mem n pre _ hp, findLeaf_cons_self, hint t]
      | vec a b => simp [kindOK] at h
      | none => simp [kindOK] at h
    | pair a b =>
      have hpa : ∀ l ∈ pre, l.tag ≠ a := fun l hl => hpre l hl a (by simp [XName.names])
      have hpb : ∀ l ∈ pre, l.tag ≠ b := fun l hl => hpre l hl b (by simp [XName.names])
      have hab : a ≠ b := by
        simp [nodupB, XName.names] at hn
        exact fun h' => hn h'
      cases v with
      | vec x y =>
        have hx := hnum x (mem_stateToks hg (by simp [fvalToks]))
        have hy := hnum y (mem_stateToks hg (by simp [fvalToks]))
        simp [parseField, subNum, entryLeaves, valOf, hg, List.append_assoc,
          findLeaf_append_of_not_mem a pre _ hpa, findLeaf_append_of_not_mem b pre _ hpb,
          findLeaf_cons_self, findLeaf_cons_ne b ⟨a, c.fmtNum x⟩ _ hab, hx, hy]
      | num _ => simp [kindOK] at h
      | time _ => simp [kindOK] at h
      | none => simp [kindOK] at h

theorem nodupB_append {a b : List String} (h : nodupB (a ++ b) = true) :
    nodupB a = true ∧ nodupB b = true ∧ ∀ x ∈ a, ∀ y ∈ b, x ≠ y := by
  induction a with
  | nil => simp [nodupB] at *; exact h
  | cons x xs ih =>
    simp only [List.cons_append, nodupB, Bool.and_eq_true, Bool.not_eq_true', List.contains_eq_mem,
      List.mem_append, decide_eq_false_iff_not, not_or] at h
    obtain ⟨⟨hx1, hx2⟩, hr⟩ := h
    obtain ⟨i1, i2, i3⟩ := ih hr
    refine ⟨by simp [nodupB, hx1, i1], i2, ?_⟩
    intro u hu y hy
    simp only [List.mem_cons] at hu
    rcases hu with rfl | hu
    · exact fun h' => hx2 (h' ▸ hy)
    · exact i3 u hu y hy

/-- Key lemma: for ANY table whose XML names are pairwise different and any state typed for it, the reader's
    loop over the table recovers exactly the values the writer's loop put into the element. -/
theorem parse_written (c : Codec) (st : State) (hnum : NumOK c st) (hint : IntOK c) :
    ∀ (tb : List (XName × String)) (pre : List Leaf),
      typedFor tb st = true → nodupB (tableNames tb) = true →
      (∀ l ∈ pre, ∀ n ∈ tableNames tb, l.tag ≠ n) →
      mapRes (parseField c (pre ++ tableLeaves c st tb)) tb = .ok (tb.map fun e => (e.2, valOf st e.2))
  | [], _, _, _, _ => rfl
  | e :: es, pre, ht, hn, hpre => by
    rw [typedFor_cons, Bool.and_eq_true] at ht
    have hsplit : tableNames (e :: es) = e.1.names ++ tableNames es := by simp [tableNames]
    rw [hsplit] at hn hpre
    obtain ⟨hn1, hn2, hdis⟩ := nodupB_append hn
    have hhead : parseField c (pre ++ tableLeaves c st (e :: es)) e = .ok (e.2, valOf st e.2) := by
      have := parseField_entry c hnum hint e ht.1 hn1 pre (tableLeaves c st es)
        (fun l hl n hn' => hpre l hl n (by simp [hn']))
      simpa [tableLeaves, List.append_assoc] using this
    have htail := parse_written c st hnum hint es (pre ++ entryLeaves c st e) ht.2 hn2 (by
      intro l hl n hn'
      simp only [List.mem_append] at hl
      rcases hl with hl | hl
      · exact hpre l hl n (by simp [hn'])
      · have : l.tag ∈ e.1.names := by
          rw [← entryLeaves_tags c st e ht.1]; exact List.mem_map_of_mem hl
        exact hdis _ this n hn')
    have hl : pre ++ tableLeaves c st (e :: es) = pre ++ entryLeaves c st e ++ tableLeaves c st es := by
      simp [tableLeaves, List.append_assoc]
    simp only [mapRes, hhead, List.map_cons]
    rw [hl, htail]

/-! ## Part 2: the concrete tables -/

/-- everything the proofs need to know about the row of `T` in the code's tables, as one decidable check -/
def tableOK (T : TType) : Bool :=
  (fields T).length == (xmlFields T).length &&
  (table T).map (·.2) == fields T &&
  nodupB (leafNames T) && nodupB (fields T) &&
  (table T).all (fun e => (classAttrs T).contains e.2) &&
  (classAttrs T).all (fun a => ((table T).map (·.2)).contains a) &&
  readerStateTypes.contains T &&
  (table T).all (fun e => ((e.1 == XName.one "time") == (e.2 == "time_step")) &&
    (match e.1 with | .pair _ _ => e.2 == "position" | .one _ => e.2 != "position")) &&
  (table T).contains (XName.one "time", "time_step") &&
  (classAttrs T).contains "time_step" &&
  TType.ofTrajTag? (trajTag T) == some T

theorem tableOK_all : ∀ T, tableOK T = true := by
  intro T; cases T <;> decide

theorem tableOK_parts (T : TType) :
    (table T).map (·.2) = fields T ∧ nodupB (leafNames T) = true ∧
    (∀ e ∈ table T, e.2 ∈ classAttrs T) ∧ (∀ a ∈ classAttrs T, a ∈ (table T).map (·.2)) ∧
    readerStateTypes.contains T = true ∧ (XName.one "time", "time_step") ∈ table T ∧
    "time_step" ∈ classAttrs T ∧ TType.ofTrajTag? (trajTag T) = some T := by
  have h := tableOK_all T
  simp only [tableOK, Bool.and_eq_true, beq_iff_eq, List.all_eq_true, List.contains_eq_mem,
    decide_eq_true_eq] at h
  obtain ⟨⟨⟨⟨⟨⟨⟨⟨⟨⟨_, h2⟩, h3⟩, _⟩, h5⟩, h6⟩, h7⟩, _⟩, h9⟩, h10⟩, h11⟩ := h
  exact ⟨h2, h3, h5, h6, by simpa using h7, by simpa using h9, h10, h11⟩

/-- what the written state element looks like -/
theorem createStateNode_ok (c : Codec) (T : TType) (st : State) (ht : typedFor (table T) st = true) :
    createStateNode c T st = .ok ⟨stateTag T, tableLeaves c st (table T)⟩ := by
  simp [createStateNode, writeLeaves_ok c st (table T) ht]

theorem projectState_eq (T : TType) (st : State) :
    projectState T st = (classAttrs T).map fun a => (a, valOf st a) := rfl

/-- a state written with the table of `T` is read back as the same values, held by the class of `T` -/
theorem parseState_written (c : Codec) (T : TType) (st : State) (hnum : NumOK c st) (hint : IntOK c)
    (ht : typedFor (table T) st = true) :
    parseState c T ⟨stateTag T, tableLeaves c st (table T)⟩ = .ok (projectState T st) := by
  obtain ⟨_, hnd, hsub, hsup, hkey, _, _, _⟩ := tableOK_parts T
  have hp := parse_written c st hnum hint (table T) [] ht hnd (by simp)
  simp only [List.nil_append] at hp
  have hall : ((table T).map fun e => (e.2, valOf st e.2)).all (fun p => (classAttrs T).contains p.1) = true := by
    simp only [List.all_map, List.all_eq_true, Function.comp, List.contains_eq_mem, decide_eq_true_eq]
    exact hsub
  simp only [parseState, parseStateWith, bne_self_eq_false, Bool.false_eq_true, if_false, hp, hkey, if_true,
    construct, hall, Bool.not_true]
  rw [projectState_eq]
  congr 1
  apply List.map_congr_left
  intro a ha
  rw [lookup_map_self (valOf st) (table T) a (hsup a ha)]
  rfl

/-! ## Part 3: trajectories -/

theorem mapRes_map_ok {α β γ : Type} (f : β → Res γ) (g : α → β) (h : α → γ) :
    ∀ (l : List α), (∀ a ∈ l, f (g a) = .ok (h a)) → mapRes f (l.map g) = .ok (l.map h)
  | [], _ => rfl
  | a :: as, hh => by
    have h1 := hh a (by simp)
    have h2 := mapRes_map_ok f g h as (fun x hx => hh x (by simp [hx]))
    simp [mapRes, h1, h2]

theorem lookup_map_pair (g : String → FVal) :
    ∀ (l : List String) (a : String), a ∈ l → (l.map fun x => (x, g x)).lookup a = some (g a)
  | [], _, h => by simp at h
  | x :: xs, a, h => by
    by_cases hax : a = x
    · subst hax; simp
    · have hm : a ∈ xs := by
        simp only [List.mem_cons] at h
        rcases h with h | h
        · exact absurd h hax
        · exact h
      have hne : (a == x) = false := by simpa using hax
      simp only [List.map_cons, List.lookup, hne]
      exact lookup_map_pair g xs a hm

theorem typed_entry {tb : List (XName × String)} {st : State} (h : typedFor tb st = true)
    {e : XName × String} (he : e ∈ tb) : entryOK st e = true := by
  simp only [typedFor, List.all_eq_true] at h
  exact h e he

/-- a typed state carries an integer time step -/
theorem typed_time (T : TType) (st : State) (ht : typedFor (table T) st = true) :
    getattr st "time_step" = some (.time (timeOf st)) := by
  obtain ⟨_, _, _, _, _, hmem, _, _⟩ := tableOK_parts T
  have := typed_entry ht hmem
  unfold entryOK at this
  simp only at this
  cases hg : getattr st "time_step" with
  | none => simp [hg] at this
  | some v =>
    simp only [hg] at this
    cases v <;> simp_all [kindOK, timeOf]

/-- a typed state has a proper value for every attribute of the reader's class -/
theorem typed_val_ne_none (T : TType) (st : State) (ht : typedFor (table T) st = true)
    (a : String) (ha : a ∈ classAttrs T) : valOf st a ≠ FVal.none := by
  obtain ⟨_, _, _, hsup, _, _, _, _⟩ := tableOK_parts T
  have hm := hsup a ha
  simp only [List.mem_map] at hm
  obtain ⟨e, he, rfl⟩ := hm
  have := typed_entry ht he
  unfold entryOK at this
  cases hg : getattr st e.2 with
  | none => simp [hg] at this
  | some v =>
    simp only [hg] at this
    cases v <;> cases hx : e.1 <;> simp_all [kindOK, valOf]

theorem attrsOf_project (T : TType) (st : State) : attrsOf (projectState T st) = classAttrs T := by
  simp [attrsOf, projectState, Function.comp_def]

theorem getattr_project (T : TType) (st : State) (a : String) (ha : a ∈ classAttrs T) :
    getattr (projectState T st) a = some (valOf st a) := by
  rw [projectState_eq]
  exact lookup_map_pair (valOf st) (classAttrs T) a ha

theorem time_project (T : TType) (st : State) (ht : typedFor (table T) st = true) :
    getattr (projectState T st) "time_step" = some (.time (timeOf st)) ∧
    timeOf (projectState T st) = timeOf st := by
  obtain ⟨_, _, _, _, _, _, hts, _⟩ := tableOK_parts T
  have h1 := getattr_project T st "time_step" hts
  have h2 := typed_time T st ht
  have h3 : valOf st "time_step" = .time (timeOf st) := by simp [valOf, h2]
  rw [h3] at h1
  exact ⟨h1, by simp [timeOf, h1]⟩

theorem usedAttrs_project (T : TType) (st : State) (ht : typedFor (table T) st = true) :
    usedAttrs (projectState T st) = classAttrs T := by
  rw [projectState_eq, usedAttrs]
  have : ∀ (l : List String), (∀ a ∈ l, valOf st a ≠ FVal.none) →
      ((l.map fun a => (a, valOf st a)).filter (fun p => p.2 != FVal.none)).map (·.1) = l := by
    intro l
    induction l with
    | nil => intro _; rfl
    | cons x xs ih =>
      intro h
      have hx : (valOf st x != FVal.none) = true := by simpa using h x (by simp)
      simp only [List.map_cons, List.filter_cons, hx, if_true]
      rw [ih (fun a ha => h a (by simp [ha]))]
  exact this _ (typed_val_ne_none T st ht)

theorem sameSet_self (l : List String) : sameSet l l = true := by
  simp [sameSet]

/-- the written trajectory element -/
def trajNodeOf (c : Codec) (T : TType) (ppId : Int) (tr : Traj) : TrajNode :=
  ⟨trajTag T, [("planningProblem", c.fmtInt ppId)],
   tr.states.map fun st => ⟨stateTag T, tableLeaves c st (table T)⟩⟩

theorem goodTraj_parts {T : TType} {tr : Traj} (h : goodTraj T tr = true) :
    (∀ st ∈ tr.states, typedFor (table T) st = true) ∧ (∀ st ∈ tr.states, 0 ≤ timeOf st) ∧
    ∃ s0 rest, tr.states = s0 :: rest ∧ timeOf s0 = tr.init := by
  simp only [goodTraj, Bool.and_eq_true, List.all_eq_true, decide_eq_true_eq] at h
  obtain ⟨⟨h1, h2⟩, h3⟩ := h
  refine ⟨h1, h2, ?_⟩
  cases hs : tr.states with
  | nil => simp [hs] at h3
  | cons s0 rest => exact ⟨s0, rest, rfl, by simpa [hs] using h3⟩

theorem createTrajNode_ok (c : Codec) (T : TType) (ppId : Int) (tr : Traj) (h : goodTraj T tr = true) :
    createTrajNode c T ppId tr = .ok (trajNodeOf c T ppId tr) := by
  obtain ⟨h1, _, _⟩ := goodTraj_parts h
  have := mapRes_ok (createStateNode c T) (fun st => (⟨stateTag T, tableLeaves c st (table T)⟩ : StateNode))
    tr.states (fun st hst => createStateNode_ok c T st (h1 st hst))
  simp [createTrajNode, this, trajNodeOf]

/-- reading a written trajectory: same type, same id, the states of `normTraj` -/
theorem parseTraj_written (c : Codec) (T : TType) (ppId : Int) (tr : Traj)
    (hnum : ∀ st ∈ tr.states, NumOK c st) (hint : IntOK c) (h : goodTraj T tr = true) :
    parseTraj c (trajNodeOf c T ppId tr) = .ok (T, ppId, normTraj T tr) := by
  obtain ⟨h1, h2, s00, rest0, hs0, _⟩ := goodTraj_parts h
  obtain ⟨_, _, _, _, _, _, _, htag⟩ := tableOK_parts T
  have hstates := mapRes_map_ok (parseState c T)
    (fun st => (⟨stateTag T, tableLeaves c st (table T)⟩ : StateNode)) (projectState T) tr.states
    (fun st hst => parseState_written c T st (hnum st hst) hint (h1 st hst))
  -- the sorted list
  cases hS : (tr.states.map (projectState T)).mergeSort timeLe with
  | nil =>
    have := congrArg List.length hS
    simp [hs0] at this
  | cons s0 rest =>
    have hmem : ∀ s ∈ s0 :: rest, ∃ st ∈ tr.states, s = projectState T st := by
      intro s hs
      rw [← hS, List.mem_mergeSort, List.mem_map] at hs
      obtain ⟨st, hst, rfl⟩ := hs
      exact ⟨st, hst, rfl⟩
    have g1 : (s0 :: rest).all timeNatural = true := by
      rw [List.all_eq_true]
      intro s hs
      obtain ⟨st, hst, rfl⟩ := hmem s hs
      rw [timeNatural, (time_project T st (h1 st hst)).1]
      simpa using h2 st hst
    have g2 : (s0 :: rest).all (fun s => sameSet (usedAttrs s0) (usedAttrs s)) = true := by
      rw [List.all_eq_true]
      intro s hs
      obtain ⟨st, hst, rfl⟩ := hmem s hs
      obtain ⟨st0, hst0, rfl⟩ := hmem s0 (by simp)
      rw [usedAttrs_project T st (h1 st hst), usedAttrs_project T st0 (h1 st0 hst0)]
      exact sameSet_self _
    have g3 : getattr s0 "time_step" = some (.time (timeOf s0)) := by
      obtain ⟨st0, hst0, rfl⟩ := hmem s0 (by simp)
      rw [(time_project T st0 (h1 st0 hst0)).1, (time_project T st0 (h1 st0 hst0)).2]
    have hmk : mkTraj (timeOf s0) (s0 :: rest) = .ok ⟨timeOf s0, s0 :: rest⟩ := by
      simp only [mkTraj, g1, g2, g3, Bool.not_true, Bool.false_eq_true, if_false, if_true]
    have hnorm : normTraj T tr = ⟨timeOf s0, s0 :: rest⟩ := by
      simp [normTraj, hS]
    simp only [parseTraj, trajNodeOf, htag, List.lookup, beq_self_eq_true, hint ppId, hstates, hS, hmk, hnorm]

/-! ## Part 4: planning-problem solutions and the whole document -/

theorem parseVehicleId_vehicleId (m : VModel) (vt : VType) : parseVehicleId (vehicleId m vt) = .ok (m, vt) := by
  cases m <;> cases vt <;> decide

theorem costOfName_name (cf : Cost) : Cost.ofName? cf.name = some cf := by
  cases cf <;> decide

/-- the reader re-derives the trajectory type from the class it instantiated: for every admissible
    (type, vehicle model) pair `get_state_type` returns the type that was written -/
theorem getStateType_class (T : TType) (m : VModel) :
    validVehicleModel T m = true → getStateType (classAttrs T) (some m) = .ok T := by
  cases T <;> cases m <;> decide

theorem normTraj_head {T : TType} {tr : Traj} (h : goodTraj T tr = true) :
    ∃ st0 ∈ tr.states, ∃ rest, (normTraj T tr).states = projectState T st0 :: rest := by
  obtain ⟨_, _, s00, rest0, hs0, _⟩ := goodTraj_parts h
  cases hS : (tr.states.map (projectState T)).mergeSort timeLe with
  | nil =>
    have := congrArg List.length hS
    simp [hs0] at this
  | cons s0 rest =>
    have : s0 ∈ (tr.states.map (projectState T)).mergeSort timeLe := by simp [hS]
    rw [List.mem_mergeSort, List.mem_map] at this
    obtain ⟨st, hst, rfl⟩ := this
    exact ⟨st, hst, rest, by simp [normTraj, hS]⟩

def ppsNode (c : Codec) (p : PPS) : TrajNode := trajNodeOf c p.ttype p.ppId p.traj

theorem goodPPS_parts {p : PPS} (h : goodPPS p = true) :
    validVehicleModel p.ttype p.model = true ∧ (supportedCosts p.model).contains p.cost = true ∧
    goodTraj p.ttype p.traj = true := by
  simp only [goodPPS, Bool.and_eq_true] at h
  exact ⟨h.1.1, h.1.2, h.2⟩

theorem parsePPS_written (c : Codec) (p : PPS) (hnum : ∀ st ∈ p.traj.states, NumOK c st) (hint : IntOK c)
    (h : goodPPS p = true) :
    parsePPS c (vehicleId p.model p.vtype) p.cost.name (ppsNode c p) = .ok (normPPS p) := by
  obtain ⟨hv, hcost, hg⟩ := goodPPS_parts h
  obtain ⟨st0, _, rest, hst⟩ := normTraj_head hg
  have hgs := getStateType_class p.ttype p.model hv
  have hmk : mkPPS p.ppId p.model p.vtype p.cost (normTraj p.ttype p.traj) = .ok (normPPS p) := by
    simp only [mkPPS, hst, attrsOf_project, hgs, hv, hcost, Bool.not_true, Bool.false_eq_true, if_false, normPPS]
  simp only [parsePPS, parseVehicleId_vehicleId, costOfName_name, ppsNode,
    parseTraj_written c p.ttype p.ppId p.traj hnum hint hg, hmk]

theorem parseNodes_written (c : Codec) (hint : IntOK c) :
    ∀ (ps : List PPS), (∀ p ∈ ps, ∀ st ∈ p.traj.states, NumOK c st) → ps.all goodPPS = true →
      parseNodes c (ps.map fun p => vehicleId p.model p.vtype) (ps.map (·.cost.name)) (ps.map (ppsNode c))
        = .ok (ps.map normPPS)
  | [], _, _ => rfl
  | p :: ps, hnum, h => by
    simp only [List.all_cons, Bool.and_eq_true] at h
    simp only [List.map_cons, parseNodes, parsePPS_written c p (hnum p (by simp)) hint h.1,
      parseNodes_written c hint ps (fun q hq => hnum q (by simp [hq])) h.2]

theorem encodeSol_ok (c : Codec) (auto : Option String) (s : Solution) (h : s.pps.all goodPPS = true) :
    encodeSol c auto s = .ok ⟨"CommonRoadSolution", benchOf s, rootAttrs c auto s, s.pps.map (ppsNode c)⟩ := by
  have := mapRes_ok (fun p => createTrajNode c p.ttype p.ppId p.traj) (ppsNode c) s.pps (fun p hp => by
    rw [List.all_eq_true] at h
    exact createTrajNode_ok c p.ttype p.ppId p.traj (goodPPS_parts (h p hp)).2.2)
  simp [encodeSol, this]

theorem parseHeader_written (c : Codec) (auto : Option String) (s : Solution)
    (hct : ∀ t, s.ct = some t → c.prsNum (c.fmtNum t) = .ok t)
    (hdt : ∀ d, s.date = some d → c.prsDate (c.fmtDate d.sec) = some d.sec) :
    parseHeader c (rootAttrs c auto s) =
      .ok (s.date.map (fun d => ⟨d.sec, 0⟩), s.ct, if s.proc = some "auto" then auto else s.proc) := by
  unfold rootAttrs
  generalize (if s.proc = some "auto" then auto else s.proc) = pn
  cases hc' : s.ct <;> cases hd : s.date <;> cases pn <;>
    simp_all [parseHeader, optAttr, List.lookup]

theorem dictInsert_new (d : List PPS) (p : PPS) (h : ∀ q ∈ d, q.ppId ≠ p.ppId) : dictInsert d p = d ++ [p] := by
  have : d.any (·.ppId == p.ppId) = false := by
    rw [List.any_eq_false]
    intro q hq
    simpa using h q hq
  simp [dictInsert, this]

theorem foldl_dictInsert : ∀ (ps acc : List PPS), distinctIds ps = true →
    (∀ p ∈ ps, ∀ q ∈ acc, q.ppId ≠ p.ppId) → ps.foldl dictInsert acc = acc ++ ps
  | [], acc, _, _ => by simp
  | p :: ps, acc, hd, hdis => by
    simp only [distinctIds, Bool.and_eq_true, Bool.not_eq_true', List.any_eq_false, beq_iff_eq] at hd
    rw [List.foldl_cons, dictInsert_new acc p (fun q hq => hdis p (by simp) q hq),
      foldl_dictInsert ps (acc ++ [p]) hd.2 (by
        intro p' hp' q hq
        simp only [List.mem_append, List.mem_singleton] at hq
        rcases hq with hq | rfl
        · exact hdis p' (by simp [hp']) q hq
        · exact fun h' => hd.1 p' hp' h'.symm)]
    simp

theorem dictOf_distinct (ps : List PPS) (h : distinctIds ps = true) : dictOf ps = ps := by
  simpa [dictOf] using foldl_dictInsert ps [] h (by simp)

theorem distinctIds_map_norm : ∀ (ps : List PPS), distinctIds ps = true → distinctIds (ps.map normPPS) = true
  | [], _ => rfl
  | p :: ps, h => by
    simp only [distinctIds, Bool.and_eq_true, Bool.not_eq_true', List.any_eq_false, beq_iff_eq] at h
    simp only [List.map_cons, distinctIds, Bool.and_eq_true, Bool.not_eq_true', List.any_eq_false, beq_iff_eq,
      List.mem_map, forall_exists_index, and_imp, forall_apply_eq_imp_iff₂]
    exact ⟨fun q hq => by simpa [normPPS] using h.1 q hq, distinctIds_map_norm ps h.2⟩

/-- the identity codec (tokens written as they are) is lawful: the hypothesis of the theorems is satisfiable -/
theorem Codec.ident_lawful : Codec.ident.Lawful where
  num := fun _ => rfl
  int := fun i => by simp [Codec.ident]
  date := fun _ => rfl

theorem Codec.Lawful.lawfulFor {c : Codec} (hc : c.Lawful) (s : Solution) : c.LawfulFor s :=
  ⟨fun v _ => hc.num v, hc.int, fun d _ => hc.date d.sec⟩

/-- the per-state form of `LawfulFor.num` -/
theorem LawfulFor_states {c : Codec} {s : Solution} (hc : c.LawfulFor s) :
    ∀ p ∈ s.pps, ∀ st ∈ p.traj.states, NumOK c st := by
  intro p hp st hst v hv
  apply hc.num
  simp only [numToks, List.mem_append, List.mem_flatMap, ppsToks]
  exact Or.inl ⟨p, hp, st, hst, hv⟩

theorem LawfulFor_ct {c : Codec} {s : Solution} (hc : c.LawfulFor s) :
    ∀ t, s.ct = some t → c.prsNum (c.fmtNum t) = .ok t := by
  intro t ht
  apply hc.num
  simp [numToks, ht]

/-! ## Part 5: the schema -/

/-- table facts used by the schema proof: "time" is the XML name of `time_step` only; tuple names are not "time" -/
def tableOK2 (T : TType) : Bool :=
  (table T).all fun e => match e.1 with
    | .pair a b => a != "time" && b != "time"
    | .one n => (n == "time") == (e.2 == "time_step")

theorem tableOK2_all : ∀ T, tableOK2 T = true := by
  intro T; cases T <;> decide

/-- every leaf a typed state writes: its tag is one of the table's names; a "time" leaf carries the state's
    integer time step, any other leaf a number -/
theorem leaf_char (c : Codec) (T : TType) (st : State) (ht : typedFor (table T) st = true) :
    ∀ l ∈ tableLeaves c st (table T), l.tag ∈ leafNames T ∧
      ((l.tag = "time" ∧ l.text = c.fmtInt (timeOf st)) ∨
       (l.tag ≠ "time" ∧ ∃ v ∈ stateToks st, l.text = c.fmtNum v)) := by
  intro l hl
  refine ⟨?_, ?_⟩
  · rw [leafNames, ← tableLeaves_tags c st (table T) ht]
    exact List.mem_map_of_mem hl
  · simp only [tableLeaves, List.mem_flatMap] at hl
    obtain ⟨e, he, hle⟩ := hl
    have hok := typed_entry ht he
    have h2 := tableOK2_all T
    simp only [tableOK2, List.all_eq_true] at h2
    have h2e := h2 e he
    obtain ⟨xn, f⟩ := e
    unfold entryOK at hok
    cases hg : getattr st f with
    | none => simp [hg] at hok
    | some v =>
      simp only [hg] at hok
      cases xn with
      | pair a b =>
        cases v with
        | vec x y =>
          simp only [Bool.and_eq_true, bne_iff_ne, ne_eq] at h2e
          simp only [entryLeaves, valOf, hg, Option.getD_some, List.mem_cons, List.not_mem_nil, or_false] at hle
          rcases hle with rfl | rfl
          · exact Or.inr ⟨h2e.1, x, mem_stateToks hg (by simp [fvalToks]), rfl⟩
          · exact Or.inr ⟨h2e.2, y, mem_stateToks hg (by simp [fvalToks]), rfl⟩
        | num _ => simp [kindOK] at hok
        | time _ => simp [kindOK] at hok
        | none => simp [kindOK] at hok
      | one n =>
        cases v with
        | num x =>
          have hn : n ≠ "time" := by simpa [kindOK] using hok
          simp only [entryLeaves, valOf, hg, Option.getD_some, List.mem_cons, List.not_mem_nil, or_false] at hle
          subst hle
          exact Or.inr ⟨hn, x, mem_stateToks hg (by simp [fvalToks]), rfl⟩
        | time t =>
          have hn : n = "time" := by simpa [kindOK] using hok
          subst hn
          have hf : f = "time_step" := by simpa using h2e
          subst hf
          have ht' : timeOf st = t := by simp [timeOf, hg]
          simp only [entryLeaves, valOf, hg, Option.getD_some, List.mem_cons, List.not_mem_nil, or_false] at hle
          subst hle
          exact Or.inl ⟨rfl, by rw [ht']⟩
        | vec _ _ => simp [kindOK] at hok
        | none => simp [kindOK] at hok

/-- closed facts about the schema declaration `d` used for the trajectory type `T` -/
def rowOK (T : TType) (d : TrajDecl) : Bool :=
  d.tag == trajTag T && d.state.tag == stateTag T &&
  (leafNames T).length == d.state.leaves.length &&
  d.state.leaves.all (fun p => ((leafNames T).filter (· == p.1)).length == 1) &&
  (leafNames T).all (fun n => d.state.leaves.lookup n == some (if n == "time" then XsType.int else XsType.float))

/-- for every trajectory type the schema defines, its declaration lists exactly the XML names the writer's table
    produces (each once), with `xs:int` for "time" and `xs:float` for the rest -/
theorem rowOK_all (T : TType) :
    (schemaIndex solSchema (trajTag T)).isSome = true →
    ∀ d ∈ solSchema.trajs, d.tag = trajTag T → rowOK T d = true := by
  cases T <;> decide

theorem filter_tag_length (L : List Leaf) (p : String) :
    (L.filter (·.tag == p)).length = ((L.map (·.tag)).filter (· == p)).length := by
  induction L with
  | nil => rfl
  | cons a as ih =>
    simp only [List.filter_cons, List.map_cons]
    split <;> simp [ih]

theorem validState_written (c : Codec) (lx : Lex) (T : TType) (d : TrajDecl) (st : State)
    (hrow : rowOK T d = true) (ht : typedFor (table T) st = true)
    (hF : ∀ v ∈ stateToks st, lx.float (c.fmtNum v) = true) (hI : lx.int (c.fmtInt (timeOf st)) = true) :
    validState lx d.state ⟨stateTag T, tableLeaves c st (table T)⟩ = true := by
  simp only [rowOK, Bool.and_eq_true, beq_iff_eq, List.all_eq_true] at hrow
  obtain ⟨⟨⟨⟨_, hst⟩, hlen⟩, hcnt⟩, hty⟩ := hrow
  have htags := tableLeaves_tags c st (table T) ht
  have hlen' : (tableLeaves c st (table T)).length = d.state.leaves.length := by
    rw [← hlen, leafNames, ← htags, List.length_map]
  simp only [validState, Bool.and_eq_true, beq_iff_eq, List.all_eq_true]
  refine ⟨⟨⟨hst.symm, hlen'⟩, ?_⟩, ?_⟩
  · intro p hp
    rw [filter_tag_length, htags]
    exact hcnt p hp
  · intro l hl
    obtain ⟨hmem, hkind⟩ := leaf_char c T st ht l hl
    have hl2 := hty l.tag hmem
    simp only [validLeaf, hl2]
    rcases hkind with ⟨h1, h2⟩ | ⟨h1, v, hv, h2⟩
    · simp [h1, lexOK, h2, hI]
    · simp [h1, lexOK, h2, hF v hv]

theorem validTraj_written (c : Codec) (lx : Lex) (p : PPS) (d : TrajDecl)
    (hrow : rowOK p.ttype d = true) (hg : goodTraj p.ttype p.traj = true)
    (hF : ∀ st ∈ p.traj.states, ∀ v ∈ stateToks st, lx.float (c.fmtNum v) = true)
    (hI : ∀ st ∈ p.traj.states, lx.int (c.fmtInt (timeOf st)) = true) :
    validTraj lx d (ppsNode c p) = true := by
  obtain ⟨h1, _, s0, rest, hs, _⟩ := goodTraj_parts hg
  have htag : d.tag = trajTag p.ttype := by
    simp only [rowOK, Bool.and_eq_true, beq_iff_eq] at hrow
    exact hrow.1.1.1.1
  simp only [validTraj, ppsNode, trajNodeOf, Bool.and_eq_true, beq_iff_eq, List.all_eq_true, List.map_cons,
    List.map_nil, Bool.not_eq_true', List.isEmpty_eq_false_iff, List.mem_map, forall_exists_index, and_imp,
    forall_apply_eq_imp_iff₂]
  refine ⟨⟨⟨htag.symm, trivial⟩, by simp [hs]⟩, ?_⟩
  intro st hst
  exact validState_written c lx p.ttype d st hrow (h1 st hst) (hF st hst) (hI st hst)

theorem nondecr_map_succ : ∀ (l : List Nat), nondecr (l.map (· + 1)) = nondecr l
  | [] => rfl
  | a :: l => by
    simp only [List.map_cons, nondecr, nondecr_map_succ l, List.all_map]
    congr 1
    apply List.all_congr rfl
    intro b
    simp

theorem declIndex_cons_ne (d : TrajDecl) (ds : List TrajDecl) (t : String) (h : t ≠ d.tag) :
    declIndex (d :: ds) t = (declIndex ds t).map (· + 1) := by
  have : (t == d.tag) = false := by simpa using h
  simp [declIndex, this]

/-- children whose tags are all declared and whose declaration positions never decrease, each valid against the
    declaration carrying its tag, match the `xs:sequence` of `(t)*` particles -/
theorem matchSeq_ok (lx : Lex) : ∀ (ds : List TrajDecl) (ns : List TrajNode),
    (∀ n ∈ ns, (declIndex ds n.tag).isSome = true) →
    nondecr (ns.map fun n => (declIndex ds n.tag).getD 0) = true →
    (∀ n ∈ ns, ∀ d ∈ ds, d.tag = n.tag → validTraj lx d n = true) →
    matchSeq lx ds ns = true
  | [], [], _, _, _ => by simp [matchSeq]
  | [], n :: ns, h, _, _ => by
    have := h n (by simp)
    simp [declIndex] at this
  | d :: ds, ns, hsome, hmono, hval => by
    induction ns with
    | nil => simp [matchSeq]
    | cons n ns ih =>
      rw [matchSeq]
      by_cases hnd : n.tag = d.tag
      · have hb : (n.tag == d.tag) = true := by simpa using hnd
        simp only [hb, if_true, Bool.and_eq_true]
        refine ⟨hval n (by simp) d (by simp) hnd.symm, ?_⟩
        apply ih (fun m hm => hsome m (by simp [hm]))
        · simp only [List.map_cons, nondecr, Bool.and_eq_true] at hmono
          exact hmono.2
        · exact fun m hm => hval m (by simp [hm])
      · have hb : (n.tag == d.tag) = false := by simpa using hnd
        simp only [hb, Bool.false_eq_true, if_false]
        -- nobody from here on carries d's tag: positions are ≥ 1
        have hn1 : 1 ≤ (declIndex (d :: ds) n.tag).getD 0 := by
          rw [declIndex_cons_ne d ds n.tag hnd]
          have := hsome n (by simp)
          rw [declIndex_cons_ne d ds n.tag hnd] at this
          cases hx : declIndex ds n.tag with
          | none => simp [hx] at this
          | some i => simp
        have hne : ∀ m ∈ n :: ns, m.tag ≠ d.tag := by
          intro m hm
          simp only [List.mem_cons] at hm
          rcases hm with rfl | hm
          · exact hnd
          · intro hmd
            simp only [List.map_cons, nondecr, Bool.and_eq_true, List.all_eq_true, List.mem_map,
              forall_exists_index, and_imp, forall_apply_eq_imp_iff₂, decide_eq_true_eq] at hmono
            have := hmono.1 m hm
            have h0 : (declIndex (d :: ds) m.tag).getD 0 = 0 := by
              have : (m.tag == d.tag) = true := by simpa using hmd
              simp [declIndex, this]
            omega
        have hsome' : ∀ m ∈ n :: ns, (declIndex ds m.tag).isSome = true := by
          intro m hm
          have := hsome m hm
          rw [declIndex_cons_ne d ds m.tag (hne m hm)] at this
          simpa using this
        have hmap : ((n :: ns).map fun m => (declIndex (d :: ds) m.tag).getD 0) =
            ((n :: ns).map fun m => (declIndex ds m.tag).getD 0).map (· + 1) := by
          rw [List.map_map]
          apply List.map_congr_left
          intro m hm
          rw [declIndex_cons_ne d ds m.tag (hne m hm)]
          have := hsome' m hm
          cases hx : declIndex ds m.tag with
          | none => simp [hx] at this
          | some i => simp [hx]
        rw [hmap, nondecr_map_succ] at hmono
        exact matchSeq_ok lx ds (n :: ns) hsome' hmono
          (fun m hm d' hd' => hval m hm d' (by simp [hd']))

theorem validAttrs_written (c : Codec) (lx : Lex) (auto : Option String) (s : Solution)
    (hF : ∀ t, s.ct = some t → lx.float (c.fmtNum t) = true)
    (hD : ∀ d, s.date = some d → lx.dateTime (c.fmtDate d.sec) = true) :
    validAttrs lx solSchema.attrs (rootAttrs c auto s) = true := by
  unfold rootAttrs
  generalize (if s.proc = some "auto" then auto else s.proc) = pn
  cases hct : s.ct <;> cases hd : s.date <;> cases pn <;>
    simp_all [validAttrs, optAttr, solSchema, List.lookup, lexOK]

/-! ## Part 6: order of the read-back states, normal form, undeclared tags -/

theorem timeLe_trans (a b c : State) : timeLe a b = true → timeLe b c = true → timeLe a c = true := by
  simp only [timeLe, decide_eq_true_eq]; omega

theorem timeLe_total (a b : State) : (timeLe a b || timeLe b a) = true := by
  simp only [timeLe, Bool.or_eq_true, decide_eq_true_eq]; omega

/-- A solution that is already in the reader's normal form. -/
def IsNormal (s : Solution) : Prop :=
  (∀ p ∈ s.pps, p.traj.states.map (projectState p.ttype) = p.traj.states ∧
                p.traj.states.Pairwise (fun a b => timeLe a b = true)) ∧
  (∀ d, s.date = some d → d.micro = 0) ∧ s.proc ≠ some "auto"

theorem normSol_of_normal (auto : Option String) (s : Solution) (hg : s.pps.all goodPPS = true)
    (hn : IsNormal s) : normSol auto s = s := by
  obtain ⟨hp, hd, hproc⟩ := hn
  have hpps : s.pps.map normPPS = s.pps := by
    have : ∀ p ∈ s.pps, normPPS p = p := by
      intro p hpm
      obtain ⟨h1, h2⟩ := hp p hpm
      rw [List.all_eq_true] at hg
      obtain ⟨_, _, s0, rest, hs, hinit⟩ := goodTraj_parts (goodPPS_parts (hg p hpm)).2.2
      have hms : (p.traj.states.map (projectState p.ttype)).mergeSort timeLe = p.traj.states := by
        rw [h1]; exact List.mergeSort_of_pairwise h2
      have e1 : (normTraj p.ttype p.traj).states = p.traj.states := by simp only [normTraj, hms]
      have e2 : (normTraj p.ttype p.traj).init = p.traj.init := by
        show ((((p.traj.states.map (projectState p.ttype)).mergeSort timeLe).head?.map timeOf).getD p.traj.init)
          = p.traj.init
        rw [hms, hs]
        simp [hinit]
      have : normTraj p.ttype p.traj = p.traj := by
        cases hn : normTraj p.ttype p.traj with
        | mk i1 s1 =>
          cases hx : p.traj with
          | mk i2 s2 => simp_all
      simp [normPPS, this]
    calc s.pps.map normPPS = s.pps.map id := List.map_congr_left this
      _ = s.pps := List.map_id _
  have hdate : s.date.map (fun d => (⟨d.sec, 0⟩ : Date)) = s.date := by
    cases hx : s.date with
    | none => rfl
    | some d =>
      have := hd d hx
      cases d with
      | mk sec micro => simp_all
  cases s with
  | mk scen ver pps date ct proc => simp_all [normSol]

theorem matchSeq_undeclared (lx : Lex) (n : TrajNode) (ns : List TrajNode) :
    ∀ (ds : List TrajDecl), declIndex ds n.tag = none → matchSeq lx ds (n :: ns) = false
  | [], _ => by simp [matchSeq]
  | d :: ds, h => by
    have hne : (n.tag == d.tag) = false := by
      cases hb : (n.tag == d.tag) with
      | false => rfl
      | true => simp [declIndex, hb] at h
    have h' : declIndex ds n.tag = none := by simpa [declIndex, hne] using h
    rw [matchSeq]
    simp [hne, matchSeq_undeclared lx n ns ds h']


/-! ## Part 7: the values that come back -/

/-- the reader's state carries, for every field of `T`, the very token of the written state -/
theorem project_values (T : TType) (st : State) (ht : typedFor (table T) st = true) :
    ∀ f ∈ fields T, getattr (projectState T st) f = getattr st f ∧ getattr st f ≠ none := by
  intro f hf
  obtain ⟨hmap, _, hsub, _, _, _, _, _⟩ := tableOK_parts T
  rw [← hmap, List.mem_map] at hf
  obtain ⟨e, he, rfl⟩ := hf
  have hok := typed_entry ht he
  unfold entryOK at hok
  cases hg : getattr st e.2 with
  | none => simp [hg] at hok
  | some v =>
    rw [getattr_project T st e.2 (hsub e he)]
    simp [valOf, hg]

/-- order and content of the states of a normalised trajectory -/
theorem normTraj_states (T : TType) (tr : Traj) :
    (normTraj T tr).states.Pairwise (fun a b => timeOf a ≤ timeOf b) ∧
    (normTraj T tr).states.Perm (tr.states.map (projectState T)) := by
  refine ⟨?_, List.mergeSort_perm _ _⟩
  have := List.pairwise_mergeSort timeLe_trans timeLe_total (tr.states.map (projectState T))
  exact this.imp (fun h => by simpa [timeLe] using h)

end CR.Sol
