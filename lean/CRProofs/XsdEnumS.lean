/-
  CRProofs.XsdEnumS — C03, enumerations, traffic signs: every row of the 14 regenerated country tables is accepted by the schema's
  `trafficSignID` type exactly if the member is neither `UNKNOWN` nor listed in `signNotExpressible`.  The finite facts are decided
  in chunks (CRProofs.XsdEnumG1..8: the German table, O1..2: the other countries, Z1..4: the Zamunda table equals the German one)
  so that lake builds them in parallel.
-/
import CRProofs.XsdEnumT
import CRProofs.XsdEnumG1
import CRProofs.XsdEnumG2
import CRProofs.XsdEnumG3
import CRProofs.XsdEnumG4
import CRProofs.XsdEnumG5
import CRProofs.XsdEnumG6
import CRProofs.XsdEnumG7
import CRProofs.XsdEnumG8
import CRProofs.XsdEnumO1
import CRProofs.XsdEnumO2
import CRProofs.XsdEnumZ1
import CRProofs.XsdEnumZ2
import CRProofs.XsdEnumZ3
import CRProofs.XsdEnumZ4

namespace CR.C03
open CR.Xsd CR.XmlW CR.Py.Gen

theorem all_take_drop {α} (p : α → Bool) (n : Nat) (l : List α) (h1 : (l.take n).all p = true) (h2 : (l.drop n).all p = true) :
    l.all p = true := by
  rw [← List.take_append_drop n l, List.all_append, h1, h2]; rfl

theorem eq_take_drop {α} (n : Nat) (l m : List α) (h1 : l.take n = m.take n) (h2 : l.drop n = m.drop n) : l = m := by
  rw [← List.take_append_drop n l, ← List.take_append_drop n m, h1, h2]

/-! ### the chunks put together -/

theorem signs_ger_all : gerSigns.all okNV = true := by
  have h7 : (gerSigns.drop 180).all okNV = true := all_take_drop okNV 30 _ signs_ger_7 (by simpa [List.drop_drop] using signs_ger_8)
  have h6 : (gerSigns.drop 150).all okNV = true := all_take_drop okNV 30 _ signs_ger_6 (by simpa [List.drop_drop] using h7)
  have h5 : (gerSigns.drop 120).all okNV = true := all_take_drop okNV 30 _ signs_ger_5 (by simpa [List.drop_drop] using h6)
  have h4 : (gerSigns.drop 90).all okNV = true := all_take_drop okNV 30 _ signs_ger_4 (by simpa [List.drop_drop] using h5)
  have h3 : (gerSigns.drop 60).all okNV = true := all_take_drop okNV 30 _ signs_ger_3 (by simpa [List.drop_drop] using h4)
  have h2 : (gerSigns.drop 30).all okNV = true := all_take_drop okNV 30 _ signs_ger_2 (by simpa [List.drop_drop] using h3)
  exact all_take_drop okNV 30 _ (by simpa using signs_ger_1) h2

theorem signs_other : otherSigns.all signOk = true := all_take_drop signOk 34 _ signs_other_1 signs_other_2

theorem signs_zam_eq_ger : zamSigns = gerSigns := by
  have h3 : zamSigns.drop 120 = gerSigns.drop 120 :=
    eq_take_drop 60 _ _ signs_zam_3 (by simpa [List.drop_drop] using signs_zam_4)
  have h2 : zamSigns.drop 60 = gerSigns.drop 60 := eq_take_drop 60 _ _ signs_zam_2 (by simpa [List.drop_drop] using h3)
  exact eq_take_drop 60 _ _ (by simpa using signs_zam_1) h2

/-! ### traffic signs: accepted exactly if not UNKNOWN and not listed -/

theorem gerExcl_iff (c n : String) (hc : c = "TrafficSignIDGermany" ∨ c = "TrafficSignIDZamunda") :
    signNotExpressible.contains (c, n) = gerExcl.contains n := by
  rcases hc with rfl | rfl <;> simp [signNotExpressible, gerExcl]

theorem okNV_ger (p : String × String) (hp : p ∈ gerSigns) : okNV p = true := List.all_eq_true.mp signs_ger_all p hp

/-- every row of the 14 country tables: the schema accepts the value **iff** the member is neither `UNKNOWN` nor listed -/
theorem sign_row (x : String × String × String) (hx : x ∈ trafficSignId) : signOk x = true := by
  have fromNV : ∀ (hc : x.1 = "TrafficSignIDGermany" ∨ x.1 = "TrafficSignIDZamunda"), okNV x.2 = true → signOk x = true := by
    intro hc h
    unfold signOk; unfold okNV at h
    rw [gerExcl_iff _ _ hc]; exact h
  by_cases hg : x.1 = "TrafficSignIDGermany"
  · exact fromNV (Or.inl hg) (okNV_ger x.2 (List.mem_map.mpr ⟨x, List.mem_filter.mpr ⟨hx, by simp [hg]⟩, rfl⟩))
  · by_cases hz : x.1 = "TrafficSignIDZamunda"
    · have : x.2 ∈ zamSigns := List.mem_map.mpr ⟨x, List.mem_filter.mpr ⟨hx, by simp [hz]⟩, rfl⟩
      rw [signs_zam_eq_ger] at this
      exact fromNV (Or.inr hz) (okNV_ger x.2 this)
    · exact List.all_eq_true.mp signs_other x (List.mem_filter.mpr ⟨hx, by simp [hg, hz]⟩)

theorem sign_accepts_iff (x : String × String × String) (hx : x ∈ trafficSignId) :
    acceptsV "trafficSignID" x.2.2 = true ↔ (x.2.1 ≠ "UNKNOWN" ∧ (x.1, x.2.1) ∉ signNotExpressible) := by
  have h := sign_row x hx
  unfold signOk at h
  rw [beq_iff_eq] at h
  rw [h]
  simp

/-- a traffic-sign element the schema can express: the written id is a schema value -/
theorem ok_sign {e : String × String × List String} (h : SignElemOk e) : acceptsV "trafficSignID" (signValue e.1 e.2.1) = true := by
  obtain ⟨hs, hu, hl⟩ := h
  unfold signValue
  cases hx : signEntry e.1 e.2.1 with
  | none => rw [hx] at hs; simp at hs
  | some x =>
    have hmem : x ∈ trafficSignId := List.mem_of_find?_eq_some hx
    have hp := List.find?_some hx
    simp only [Bool.and_eq_true, beq_iff_eq] at hp
    simp only
    rw [sign_accepts_iff x hmem, hp.1, hp.2]
    exact ⟨hu, hl⟩

end CR.C03
