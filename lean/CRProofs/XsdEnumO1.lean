import CRProofs.XsdEnum
namespace CR.C03
set_option maxRecDepth 100000 in
set_option maxHeartbeats 1000000 in
theorem signs_other_1 : ((otherSigns.take 34).all signOk) = true := by decide
end CR.C03
