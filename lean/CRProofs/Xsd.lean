/-
  CRProofs.Xsd — helper lemmas for C03: the xs:decimal grammar, the number formatters, content-model matching.
-/
import CRModel.XsdModel
import CRModel.XmlNum
import CRModel.CRXmlW

namespace CR.Xsd

theorem allDigits_iff {s : Str} : allDigits s = true ↔ ∀ c ∈ s, c.isDigit = true := by
  simp [allDigits]

theorem allDigits_nil : allDigits [] = true := rfl

theorem allDigits_cons {c : Char} {s : Str} : allDigits (c :: s) = (c.isDigit && allDigits s) := by
  simp [allDigits]

theorem allDigits_append {a b : Str} : allDigits (a ++ b) = (allDigits a && allDigits b) := by
  simp [allDigits]

theorem allDigits_take {a : Str} (n : Nat) (h : allDigits a = true) : allDigits (a.take n) = true := by
  rw [allDigits_iff] at *
  intro c hc; exact h c (List.mem_of_mem_take hc)

theorem allDigits_drop {a : Str} (n : Nat) (h : allDigits a = true) : allDigits (a.drop n) = true := by
  rw [allDigits_iff] at *
  intro c hc; exact h c (List.mem_of_mem_drop hc)

theorem allDigits_replicate_zero (k : Nat) : allDigits (List.replicate k '0') = true := by
  rw [allDigits_iff]; intro c hc
  rw [List.mem_replicate] at hc; rw [hc.2]; decide

theorem decAfterInt_digits {a : Str} (r : Str) (h : allDigits a = true) : decAfterInt (a ++ r) = decAfterInt r := by
  induction a with
  | nil => rfl
  | cons c cs ih =>
    rw [allDigits_cons, Bool.and_eq_true] at h
    simp only [List.cons_append, decAfterInt, h.1, if_true]
    exact ih h.2

theorem decAfterInt_nil : decAfterInt [] = true := rfl

theorem decAfterInt_dot (b : Str) : decAfterInt ('.' :: b) = allDigits b := by
  simp [decAfterInt]

/-- `d+` is a decimal body -/
theorem decBody_digits {a : Str} (h : allDigits a = true) (hne : a ≠ []) : decBody a = true := by
  cases a with
  | nil => exact absurd rfl hne
  | cons c cs =>
    rw [allDigits_cons, Bool.and_eq_true] at h
    simp only [decBody, h.1, if_true]
    have := decAfterInt_digits [] h.2
    rw [List.append_nil] at this
    rw [this]; rfl

/-- `d+ . d*` is a decimal body -/
theorem decBody_digits_dot_digits {a b : Str} (ha : allDigits a = true) (hne : a ≠ []) (hb : allDigits b = true) :
    decBody (a ++ '.' :: b) = true := by
  cases a with
  | nil => exact absurd rfl hne
  | cons c cs =>
    rw [allDigits_cons, Bool.and_eq_true] at ha
    simp only [List.cons_append, decBody, ha.1, if_true]
    rw [decAfterInt_digits _ ha.2, decAfterInt_dot]; exact hb

/-! ### consequences of the lexical grammar: no exponent, no nan/inf, at most one dot -/

def decChar (c : Char) : Bool := c.isDigit || c == '.'

theorem allDigits_decChars {s : Str} (h : allDigits s = true) : s.all decChar = true := by
  rw [allDigits_iff] at h
  simp only [List.all_eq_true]; intro c hc; simp [decChar, h c hc]

theorem decAfterInt_chars : ∀ {s : Str}, decAfterInt s = true → s.all decChar = true
  | [], _ => rfl
  | c :: cs, h => by
    simp only [decAfterInt] at h
    by_cases hd : c.isDigit = true
    · simp only [hd, if_true] at h
      simp only [List.all_cons, decChar, hd, Bool.true_or, Bool.true_and]
      exact decAfterInt_chars h
    · simp only [hd] at h
      by_cases hp : (c == '.') = true
      · simp only [hp, if_true] at h
        simp only [List.all_cons, decChar, hp, Bool.or_true, Bool.true_and]
        exact allDigits_decChars h
      · simp [hp] at h

theorem decBody_chars : ∀ {s : Str}, decBody s = true → s.all decChar = true
  | [], h => by simp [decBody] at h
  | c :: cs, h => by
    simp only [decBody] at h
    by_cases hd : c.isDigit = true
    · simp only [hd, if_true] at h
      simp only [List.all_cons, decChar, hd, Bool.true_or, Bool.true_and]
      exact decAfterInt_chars h
    · simp only [hd] at h
      by_cases hp : (c == '.') = true
      · have h' : (!cs.isEmpty && allDigits cs) = true := by simpa [hd, hp] using h
        rw [Bool.and_eq_true] at h'
        simp only [List.all_cons, decChar, hp, Bool.or_true, Bool.true_and]
        exact allDigits_decChars h'.2
      · simp [hp] at h

theorem dropSign_cases (s : Str) : dropSign s = s ∨ (∃ r, s = '+' :: r ∧ dropSign s = r) ∨ (∃ r, s = '-' :: r ∧ dropSign s = r) := by
  unfold dropSign
  split
  · right; left; exact ⟨_, rfl, rfl⟩
  · right; right; exact ⟨_, rfl, rfl⟩
  · left; rfl

/-- every character of an xs:decimal literal is a digit, the point, or a leading sign -/
theorem isDecimal_chars {s : Str} (h : isDecimal s = true) :
    ∀ c ∈ s, c.isDigit = true ∨ c = '.' ∨ c = '+' ∨ c = '-' := by
  unfold isDecimal at h
  have hb := decBody_chars h
  rw [List.all_eq_true] at hb
  have conv : ∀ c, decChar c = true → c.isDigit = true ∨ c = '.' ∨ c = '+' ∨ c = '-' := by
    intro c hc; simp [decChar] at hc; rcases hc with hc | hc
    · exact Or.inl hc
    · exact Or.inr (Or.inl hc)
  rcases dropSign_cases s with h0 | ⟨r, hs, hr⟩ | ⟨r, hs, hr⟩
  · rw [h0] at hb; intro c hc; exact conv c (hb c hc)
  · rw [hr] at hb; subst hs; intro c hc
    rcases List.mem_cons.mp hc with rfl | hc
    · exact Or.inr (Or.inr (Or.inl rfl))
    · exact conv c (hb c hc)
  · rw [hr] at hb; subst hs; intro c hc
    rcases List.mem_cons.mp hc with rfl | hc
    · exact Or.inr (Or.inr (Or.inr rfl))
    · exact conv c (hb c hc)

theorem count_dot_digits {s : Str} (h : allDigits s = true) : s.count '.' = 0 := by
  rw [List.count_eq_zero]; intro hm
  have := (allDigits_iff.mp h) '.' hm
  exact absurd this (by decide)

theorem decAfterInt_one_dot : ∀ {s : Str}, decAfterInt s = true → s.count '.' ≤ 1
  | [], _ => by simp
  | c :: cs, h => by
    simp only [decAfterInt] at h
    by_cases hd : c.isDigit = true
    · have hc : c ≠ '.' := by intro e; rw [e] at hd; exact absurd hd (by decide)
      have h' : decAfterInt cs = true := by simpa [hd] using h
      rw [List.count_cons_of_ne hc]; exact decAfterInt_one_dot h'
    · by_cases hp : (c == '.') = true
      · have h' : allDigits cs = true := by simpa [hd, hp] using h
        have e : c = '.' := by simpa using hp
        rw [e, List.count_cons_self, count_dot_digits h']; omega
      · simp [hd, hp] at h

theorem decBody_one_dot : ∀ {s : Str}, decBody s = true → s.count '.' ≤ 1
  | [], h => by simp [decBody] at h
  | c :: cs, h => by
    simp only [decBody] at h
    by_cases hd : c.isDigit = true
    · have hc : c ≠ '.' := by intro e; rw [e] at hd; exact absurd hd (by decide)
      have h' : decAfterInt cs = true := by simpa [hd] using h
      rw [List.count_cons_of_ne hc]; exact decAfterInt_one_dot h'
    · by_cases hp : (c == '.') = true
      · have h' : (!cs.isEmpty && allDigits cs) = true := by simpa [hd, hp] using h
        rw [Bool.and_eq_true] at h'
        have e : c = '.' := by simpa using hp
        rw [e, List.count_cons_self, count_dot_digits h'.2]; omega
      · simp [hd, hp] at h

/-- an xs:decimal literal has at most one point -/
theorem isDecimal_one_dot {s : Str} (h : isDecimal s = true) : s.count '.' ≤ 1 := by
  unfold isDecimal at h
  have hb := decBody_one_dot h
  rcases dropSign_cases s with h0 | ⟨r, hs, hr⟩ | ⟨r, hs, hr⟩
  · rwa [h0] at hb
  · rw [hr] at hb; subst hs; rw [List.count_cons_of_ne (by decide)]; exact hb
  · rw [hr] at hb; subst hs; rw [List.count_cons_of_ne (by decide)]; exact hb

theorem dropSign_digit_head {c : Char} {cs : Str} (h : c.isDigit = true) : dropSign (c :: cs) = c :: cs := by
  have h1 : c ≠ '+' := by intro e; rw [e] at h; exact absurd h (by decide)
  have h2 : c ≠ '-' := by intro e; rw [e] at h; exact absurd h (by decide)
  unfold dropSign
  split
  · rename_i heq; exact absurd (List.cons.inj heq).1 h1
  · rename_i heq; exact absurd (List.cons.inj heq).1 h2
  · rfl

theorem isDecimal_neg (b : Str) : isDecimal ('-' :: b) = decBody b := rfl

/-- `d+` and `d+.d*` (optionally preceded by `-`) are decimals -/
theorem isDecimal_digits {a : Str} (ha : allDigits a = true) (hne : a ≠ []) : isDecimal a = true := by
  cases a with
  | nil => exact absurd rfl hne
  | cons c cs =>
    have hc : c.isDigit = true := by rw [allDigits_cons, Bool.and_eq_true] at ha; exact ha.1
    unfold isDecimal; rw [dropSign_digit_head hc]; exact decBody_digits ha hne

theorem isDecimal_digits_dot_digits {a b : Str} (ha : allDigits a = true) (hne : a ≠ []) (hb : allDigits b = true) :
    isDecimal (a ++ '.' :: b) = true := by
  cases a with
  | nil => exact absurd rfl hne
  | cons c cs =>
    have hc : c.isDigit = true := by rw [allDigits_cons, Bool.and_eq_true] at ha; exact ha.1
    unfold isDecimal; rw [List.cons_append, dropSign_digit_head hc, ← List.cons_append]
    exact decBody_digits_dot_digits ha hne hb

end CR.Xsd

namespace CR.XmlNum
open CR.Xsd

theorem natStr_digits (n : Nat) : allDigits (natStr n) = true := by
  rw [allDigits_iff]; intro c hc
  exact Nat.isDigit_of_mem_toDigits (by decide) (by decide) hc

theorem natStr_ne_nil (n : Nat) : natStr n ≠ [] := Nat.toDigits_ne_nil

theorem padLeft_digits {k : Nat} {s : Str} (h : allDigits s = true) : allDigits (padLeft k s) = true := by
  unfold padLeft zeros
  rw [allDigits_append, allDigits_replicate_zero, h]; rfl

/-- `format(x, ".pf")` of a finite float is an xs:decimal, for every value and every precision -/
theorem fixedFmt_isDecimal (neg : Bool) (num den p : Nat) : isDecimal (fixedFmt neg num den p) = true := by
  unfold fixedFmt
  simp only []
  generalize roundHalfEven (num * 10 ^ p) den = n
  have hbody : ∀ b : Str, (b = natStr (n / 10 ^ p) ∨ b = natStr (n / 10 ^ p) ++ '.' :: padLeft p (natStr (n % 10 ^ p))) →
      isDecimal b = true ∧ decBody b = true := by
    intro b hb
    rcases hb with rfl | rfl
    · refine ⟨isDecimal_digits (natStr_digits _) (natStr_ne_nil _), decBody_digits (natStr_digits _) (natStr_ne_nil _)⟩
    · refine ⟨isDecimal_digits_dot_digits (natStr_digits _) (natStr_ne_nil _) (padLeft_digits (natStr_digits _)),
        decBody_digits_dot_digits (natStr_digits _) (natStr_ne_nil _) (padLeft_digits (natStr_digits _))⟩
  by_cases hp : p = 0
  · have := hbody _ (Or.inl rfl)
    cases neg
    · simpa [hp] using this.1
    · simpa [hp, isDecimal_neg] using this.2
  · have := hbody _ (Or.inr rfl)
    cases neg
    · simpa [hp] using this.1
    · simpa [hp, isDecimal_neg] using this.2

theorem digits_takeWhile (b : Str) : allDigits (b.takeWhile Char.isDigit) = true := by
  unfold allDigits; exact List.all_takeWhile

/-- `d+` or `d+ . d+` -/
theorem unsignedPlain_shape {b : Str} (h : unsignedPlain b = true) :
    ∃ ip, allDigits ip = true ∧ ip ≠ [] ∧ (b = ip ∨ ∃ fr, allDigits fr = true ∧ fr ≠ [] ∧ b = ip ++ '.' :: fr) := by
  have hsplit := @List.takeWhile_append_dropWhile _ Char.isDigit b
  unfold unsignedPlain at h
  refine ⟨b.takeWhile Char.isDigit, digits_takeWhile b, ?_, ?_⟩
  · split at h
    · simpa using h
    · simp only [Bool.and_eq_true] at h; simpa using h.1.1
    · simp at h
  · split at h
    · rename_i heq; left; rw [heq, List.append_nil] at hsplit; exact hsplit.symm
    · rename_i fr heq; right
      simp only [Bool.and_eq_true] at h
      refine ⟨fr, h.2, by simpa using h.1.2, ?_⟩
      rw [heq] at hsplit; exact hsplit.symm
    · simp at h

theorem plain_shape {s : Str} (h : isPlainRepr s = true) :
    ∃ sg ip, (sg = [] ∨ sg = ['-']) ∧ allDigits ip = true ∧ ip ≠ [] ∧
      (s = sg ++ ip ∨ ∃ fr, allDigits fr = true ∧ fr ≠ [] ∧ s = sg ++ (ip ++ '.' :: fr)) := by
  unfold isPlainRepr at h
  split at h
  · obtain ⟨ip, h1, h2, h3⟩ := unsignedPlain_shape h
    refine ⟨['-'], ip, Or.inr rfl, h1, h2, ?_⟩
    rcases h3 with h3 | ⟨fr, hf1, hf2, h3⟩
    · left; rw [h3]; rfl
    · right; exact ⟨fr, hf1, hf2, by rw [h3]; rfl⟩
  · obtain ⟨ip, h1, h2, h3⟩ := unsignedPlain_shape h
    refine ⟨[], ip, Or.inl rfl, h1, h2, ?_⟩
    rcases h3 with h3 | ⟨fr, hf1, hf2, h3⟩
    · left; rw [h3]; rfl
    · right; exact ⟨fr, hf1, hf2, by rw [h3]; rfl⟩

theorem digit_ne_dot {c : Char} (h : c.isDigit = true) : (c != '.') = true := by
  have : c ≠ '.' := by intro e; rw [e] at h; exact absurd h (by decide)
  simpa using this

theorem nodot_of_digits {a : Str} (h : allDigits a = true) : ∀ c ∈ a, (c != '.') = true := by
  intro c hc; exact digit_ne_dot (allDigits_iff.mp h c hc)

theorem nodot_sign {sg : Str} (h : sg = [] ∨ sg = ['-']) : ∀ c ∈ sg, (c != '.') = true := by
  rcases h with rfl | rfl
  · intro c hc; cases hc
  · intro c hc; simp at hc; subst hc; decide

theorem beforeDot_nodot {a : Str} (h : ∀ c ∈ a, (c != '.') = true) : beforeDot a = a := by
  unfold beforeDot
  have := @List.takeWhile_append_of_pos _ (· != '.') a [] h
  simpa using this

theorem afterDot_nodot {a : Str} (h : ∀ c ∈ a, (c != '.') = true) : afterDot a = none := by
  unfold afterDot
  have := @List.dropWhile_append_of_pos _ (· != '.') a [] h
  simp only [List.append_nil, List.dropWhile_nil] at this
  rw [this]

theorem beforeDot_dot {a r : Str} (h : ∀ c ∈ a, (c != '.') = true) : beforeDot (a ++ '.' :: r) = a := by
  unfold beforeDot
  rw [List.takeWhile_append_of_pos h, List.takeWhile_cons_of_neg (by decide)]; simp

theorem afterDot_dot {a r : Str} (h : ∀ c ∈ a, (c != '.') = true) (hr : ∀ c ∈ r, (c != '.') = true) :
    afterDot (a ++ '.' :: r) = some r := by
  unfold afterDot
  rw [List.dropWhile_append_of_pos h, List.dropWhile_cons_of_neg (by decide)]
  have := @List.takeWhile_append_of_pos _ (· != '.') r [] hr
  simp only [List.append_nil, List.takeWhile_nil] at this
  simp only [this]

theorem nodot_append {a b : Str} (ha : ∀ c ∈ a, (c != '.') = true) (hb : ∀ c ∈ b, (c != '.') = true) :
    ∀ c ∈ a ++ b, (c != '.') = true := by
  intro c hc; rcases List.mem_append.mp hc with h | h
  · exact ha c h
  · exact hb c h

theorem isDecimal_signed_digits {sg ip : Str} (hs : sg = [] ∨ sg = ['-']) (h1 : allDigits ip = true) (h2 : ip ≠ []) :
    isDecimal (sg ++ ip) = true := by
  rcases hs with rfl | rfl
  · exact isDecimal_digits h1 h2
  · exact decBody_digits h1 h2

theorem isDecimal_signed_digits_dot {sg ip fr : Str} (hs : sg = [] ∨ sg = ['-']) (h1 : allDigits ip = true) (h2 : ip ≠ [])
    (h3 : allDigits fr = true) : isDecimal (sg ++ (ip ++ '.' :: fr)) = true := by
  rcases hs with rfl | rfl
  · exact isDecimal_digits_dot_digits h1 h2 h3
  · exact decBody_digits_dot_digits h1 h2 h3

/-- float_to_str writes an xs:decimal: exponent-form reprs go through `format(x, ".pf")`, plain reprs are cut after
    `p` fraction digits -/
theorem floatToStr_isDecimal (repr : Str) (neg : Bool) (num den p : Nat)
    (h : isPlainRepr repr = true ∨ repr.contains 'e' = true) : isDecimal (floatToStr repr neg num den p) = true := by
  unfold floatToStr
  by_cases he : repr.contains 'e' = true
  · rw [if_pos he]; exact fixedFmt_isDecimal neg num den p
  · rw [if_neg he]
    have hp : isPlainRepr repr = true := by rcases h with h | h; exact h; exact absurd h he
    obtain ⟨sg, ip, hs, h1, h2, h3⟩ := plain_shape hp
    have nd := nodot_append (nodot_sign hs) (nodot_of_digits h1)
    rcases h3 with rfl | ⟨fr, hf1, _, rfl⟩
    · rw [afterDot_nodot nd, beforeDot_nodot nd]; exact isDecimal_signed_digits hs h1 h2
    · rw [← List.append_assoc, afterDot_dot nd (nodot_of_digits hf1), beforeDot_dot nd]
      simp only []
      rw [List.append_assoc]
      exact isDecimal_signed_digits_dot hs h1 h2 (allDigits_take p hf1)

/-! ### decimal_to_str -/

theorem trimZerosRight_mem {f : Str} {c : Char} (h : c ∈ trimZerosRight f) : c ∈ f := by
  unfold trimZerosRight at h
  rw [List.mem_reverse] at h
  have := (List.dropWhile_sublist (· == '0') (l := f.reverse)).subset h
  exact List.mem_reverse.mp this

theorem trimZerosRight_digits {f : Str} (h : allDigits f = true) : allDigits (trimZerosRight f) = true := by
  rw [allDigits_iff] at *
  intro c hc; exact h c (trimZerosRight_mem hc)

theorem zeros_digits (k : Nat) : allDigits (zeros k) = true := allDigits_replicate_zero k

/-- the positional notation of any digit strings is an xs:decimal -/
theorem positional_isDecimal (neg : Bool) {ip fp : Str} (e : Int) (h1 : allDigits ip = true) (h2 : allDigits fp = true) :
    isDecimal (positional neg ip fp e) = true := by
  have hd : allDigits (ip ++ fp) = true := by rw [allDigits_append, h1, h2]; rfl
  have key : ∀ i f : Str, allDigits i = true → i ≠ [] → allDigits f = true →
      isDecimal (if neg then '-' :: (i ++ '.' :: (if (trimZerosRight f).isEmpty then ['0'] else trimZerosRight f))
                 else i ++ '.' :: (if (trimZerosRight f).isEmpty then ['0'] else trimZerosRight f)) = true := by
    intro i f hi hne hf
    have hf' : allDigits (if (trimZerosRight f).isEmpty then ['0'] else trimZerosRight f) = true := by
      split
      · decide
      · exact trimZerosRight_digits hf
    cases neg
    · simpa using isDecimal_digits_dot_digits hi hne hf'
    · simpa [isDecimal_neg] using decBody_digits_dot_digits hi hne hf'
  unfold positional
  simp only []
  by_cases c1 : (ip.length : Int) + e ≤ 0
  · simp only [c1, if_true]
    exact key ['0'] _ (by decide) (by simp) (by rw [allDigits_append, zeros_digits, hd]; rfl)
  · simp only [c1, if_false]
    by_cases c2 : (ip ++ fp).length ≤ ((ip.length : Int) + e).toNat
    · simp only [c2, if_true]
      refine key _ [] (by rw [allDigits_append, hd, zeros_digits]; rfl) ?_ rfl
      intro hnil
      have hl := congrArg List.length hnil
      simp only [List.length_append, zeros, List.length_replicate, List.length_nil] at hl
      simp only [List.length_append] at c2
      omega
    · simp only [c2, if_false]
      refine key _ _ (allDigits_take _ hd) ?_ (allDigits_drop _ hd)
      intro hnil
      have hl := congrArg List.length hnil
      simp only [List.length_take, List.length_nil] at hl
      omega

theorem isE_of_digit {c : Char} (h : c.isDigit = true) : isE c = false := by
  have h1 : c ≠ 'e' := by intro e; rw [e] at h; exact absurd h (by decide)
  have h2 : c ≠ 'E' := by intro e; rw [e] at h; exact absurd h (by decide)
  simp [isE, h1, h2]

theorem any_isE_digits {a : Str} (h : allDigits a = true) : a.any isE = false := by
  rw [List.any_eq_false]; intro c hc
  simp [isE_of_digit (allDigits_iff.mp h c hc)]

theorem plain_no_E {s : Str} (h : isPlainRepr s = true) : s.any isE = false := by
  obtain ⟨sg, ip, hs, h1, _, h3⟩ := plain_shape h
  have hsg : sg.any isE = false := by rcases hs with rfl | rfl <;> decide
  rcases h3 with rfl | ⟨fr, hf1, _, rfl⟩
  · rw [List.any_append, hsg, any_isE_digits h1]; rfl
  · rw [List.any_append, List.any_append, List.any_cons, hsg, any_isE_digits h1, any_isE_digits hf1]; decide

theorem isDecimal_of_plain {s : Str} (h : isPlainRepr s = true) : isDecimal s = true := by
  obtain ⟨sg, ip, hs, h1, h2, h3⟩ := plain_shape h
  rcases h3 with rfl | ⟨fr, hf1, _, rfl⟩
  · exact isDecimal_signed_digits hs h1 h2
  · exact isDecimal_signed_digits_dot hs h1 h2 hf1

/-- mantissa digits of a repr in scientific notation -/
theorem sci_mantissa_digits {s : Str} (h : isSciRepr s = true) :
    allDigits ((mantissa s).takeWhile (· != '.')) = true ∧ allDigits (((mantissa s).dropWhile (· != '.')).drop 1) = true := by
  unfold isSciRepr at h
  simp only [Bool.and_eq_true] at h
  obtain ⟨ip, h1, _, h3⟩ := unsignedPlain_shape h.1.1
  have nd := nodot_of_digits h1
  rcases h3 with h3 | ⟨fr, hf1, _, h3⟩
  · rw [h3]
    have e1 := @List.takeWhile_append_of_pos _ (· != '.') ip [] nd
    have e2 := @List.dropWhile_append_of_pos _ (· != '.') ip [] nd
    simp only [List.append_nil, List.takeWhile_nil, List.dropWhile_nil] at e1 e2
    rw [e1, e2]; exact ⟨h1, rfl⟩
  · rw [h3, List.takeWhile_append_of_pos nd, List.dropWhile_append_of_pos nd,
      List.takeWhile_cons_of_neg (by decide), List.dropWhile_cons_of_neg (by decide)]
    simp only [List.append_nil, List.drop_succ_cons, List.drop_zero]
    exact ⟨h1, hf1⟩

/-- decimal_to_str writes an xs:decimal for every finite float -/
theorem decimalToStr_isDecimal {s : Str} (h : isPlainRepr s = true ∨ isSciRepr s = true) :
    isDecimal (decimalToStr s) = true := by
  unfold decimalToStr
  by_cases he : s.any isE = true
  · rw [if_pos he]
    rcases h with h | h
    · rw [plain_no_E h] at he; exact absurd he (by decide)
    · obtain ⟨d1, d2⟩ := sci_mantissa_digits h
      exact positional_isDecimal _ _ d1 d2
  · rw [if_neg he]
    rcases h with h | h
    · exact isDecimal_of_plain h
    · -- a scientific repr contains an `e`
      exfalso; apply he
      unfold isSciRepr at h
      simp only [Bool.and_eq_true] at h
      have h2 := h.1.2
      split at h2
      · rename_i c ex heq
        have hmem : c ∈ (dropSign s).dropWhile (fun c => !isE c) := by rw [heq]; exact List.mem_cons_self
        have hc : isE c = true := by
          have := List.head?_dropWhile_not (fun c => !isE c) (dropSign s)
          rw [heq] at this; simpa using this
        have hin : c ∈ dropSign s := (List.dropWhile_sublist _).subset hmem
        have hins : c ∈ s := by
          rcases dropSign_cases s with h0 | ⟨r, hs, hr⟩ | ⟨r, hs, hr⟩
          · rwa [h0] at hin
          · rw [hr] at hin; rw [hs]; exact List.mem_cons_of_mem _ hin
          · rw [hr] at hin; rw [hs]; exact List.mem_cons_of_mem _ hin
        exact List.any_eq_true.mpr ⟨c, hins, hc⟩
      · exact absurd h2 (by decide)

/-! ### positivity -/

theorem isDigit_of_digitVal {c : Char} (h : digitVal c ≠ 0) : c.isDigit = true := by
  unfold digitVal at h
  split at h <;> first | decide | exact absurd rfl h

theorem foldl_digits_pos : ∀ (s : Str) (acc : Nat), (0 < acc ∨ s.any nz = true) →
    0 < s.foldl (fun acc c => if c.isDigit then 10 * acc + digitVal c else acc) acc
  | [], acc, h => by
    rcases h with h | h
    · simpa using h
    · simp at h
  | c :: cs, acc, h => by
    simp only [List.foldl_cons]
    apply foldl_digits_pos cs
    rcases h with h | h
    · left
      by_cases hd : c.isDigit = true
      · rw [if_pos hd]; exact Nat.lt_of_lt_of_le (by omega : 0 < 10 * acc) (Nat.le_add_right _ _)
      · rw [if_neg hd]; exact h
    · rw [List.any_cons, Bool.or_eq_true] at h
      rcases h with h | h
      · left
        have hv : digitVal c ≠ 0 := by simpa [nz] using h
        rw [if_pos (isDigit_of_digitVal hv)]
        exact Nat.lt_of_lt_of_le (Nat.pos_of_ne_zero hv) (Nat.le_add_left _ _)
      · right; exact h

theorem digitsVal_pos {s : Str} (h : s.any nz = true) : 0 < digitsVal s :=
  foldl_digits_pos s 0 (Or.inr h)

theorem decGt_zero {s : Str} (hneg : isNeg s = false) (h : s.any nz = true) : decGt s 0 = true := by
  unfold decGt numer
  rw [hneg]
  have := digitsVal_pos h
  simp only [Bool.false_eq_true, if_false, Int.zero_mul, decide_eq_true_eq]
  exact Int.natCast_pos.mpr this

theorem mem_dropWhile_of_neg {α} {p : α → Bool} {c : α} (hc : p c = false) : ∀ {l : List α}, c ∈ l → c ∈ l.dropWhile p
  | [], h => by cases h
  | x :: xs, h => by
    by_cases hx : p x = true
    · rw [List.dropWhile_cons_of_pos hx]
      rcases List.mem_cons.mp h with rfl | h
      · rw [hc] at hx; exact absurd hx (by decide)
      · exact mem_dropWhile_of_neg hc h
    · rw [List.dropWhile_cons_of_neg hx]; exact h

theorem nz_ne_zero {c : Char} (h : nz c = true) : (c == '0') = false := by
  have : c ≠ '0' := by intro e; rw [e] at h; exact absurd h (by decide)
  simpa using this

theorem trimZerosRight_keeps {f : Str} {c : Char} (hc : nz c = true) (h : c ∈ f) : c ∈ trimZerosRight f := by
  unfold trimZerosRight
  rw [List.mem_reverse]
  exact mem_dropWhile_of_neg (p := (· == '0')) (nz_ne_zero hc) (List.mem_reverse.mpr h)

theorem any_nz_of_mem {s : Str} {c : Char} (hc : nz c = true) (h : c ∈ s) : s.any nz = true :=
  List.any_eq_true.mpr ⟨c, h, hc⟩

theorem isNeg_digit_head {i r : Str} (hi : allDigits i = true) (hne : i ≠ []) : isNeg (i ++ r) = false := by
  cases i with
  | nil => exact absurd rfl hne
  | cons c cs =>
    have hc : c.isDigit = true := by rw [allDigits_cons, Bool.and_eq_true] at hi; exact hi.1
    have h2 : c ≠ '-' := by intro e; rw [e] at hc; exact absurd hc (by decide)
    unfold isNeg
    simp only [List.cons_append]
    split
    · rename_i heq; exact absurd (List.cons.inj heq).1 h2
    · rfl

/-- positional notation of a non-negative number with a non-zero digit is a decimal greater than zero -/
theorem positional_pos {ip fp : Str} (e : Int) (h1 : allDigits ip = true) (h2 : allDigits fp = true)
    (hnz : (ip ++ fp).any nz = true) :
    isNeg (positional false ip fp e) = false ∧ (positional false ip fp e).any nz = true := by
  obtain ⟨c, hcm, hc⟩ := List.any_eq_true.mp hnz
  have hd : allDigits (ip ++ fp) = true := by rw [allDigits_append, h1, h2]; rfl
  have key : ∀ i f : Str, allDigits i = true → i ≠ [] → (c ∈ i ∨ c ∈ f) →
      isNeg (i ++ '.' :: (if (trimZerosRight f).isEmpty then ['0'] else trimZerosRight f)) = false ∧
      (i ++ '.' :: (if (trimZerosRight f).isEmpty then ['0'] else trimZerosRight f)).any nz = true := by
    intro i f hi hne hm
    refine ⟨isNeg_digit_head hi hne, ?_⟩
    rcases hm with hm | hm
    · exact any_nz_of_mem hc (List.mem_append_left _ hm)
    · have hk := trimZerosRight_keeps hc hm
      have hne' : (trimZerosRight f).isEmpty = false := by
        cases hh : trimZerosRight f with
        | nil => rw [hh] at hk; cases hk
        | cons _ _ => rfl
      rw [hne']
      exact any_nz_of_mem hc (List.mem_append_right _ (List.mem_cons_of_mem _ hk))
  unfold positional
  simp only [Bool.false_eq_true, if_false]
  by_cases c1 : (ip.length : Int) + e ≤ 0
  · simp only [c1, if_true]
    exact key ['0'] _ (by decide) (by simp) (Or.inr (List.mem_append_right _ hcm))
  · simp only [c1, if_false]
    by_cases c2 : (ip ++ fp).length ≤ ((ip.length : Int) + e).toNat
    · simp only [c2, if_true]
      refine key _ [] (by rw [allDigits_append, hd, zeros_digits]; rfl) ?_ (Or.inl (List.mem_append_left _ hcm))
      intro hnil
      have hl := congrArg List.length hnil
      simp only [List.length_append, zeros, List.length_replicate, List.length_nil] at hl
      simp only [List.length_append] at c2
      omega
    · simp only [c2, if_false]
      refine key _ _ (allDigits_take _ hd) ?_ ?_
      · intro hnil
        have hl := congrArg List.length hnil
        simp only [List.length_take, List.length_nil] at hl
        omega
      · have := List.take_append_drop ((ip.length : Int) + e).toNat (ip ++ fp)
        rw [← this] at hcm
        exact List.mem_append.mp hcm

theorem dropWhile_all_neg {α} {p : α → Bool} : ∀ {l : List α}, (∀ c ∈ l, p c = false) → l.dropWhile p = l
  | [], _ => rfl
  | x :: xs, h => by
    have : ¬ p x = true := by rw [h x List.mem_cons_self]; decide
    rw [List.dropWhile_cons_of_neg this]

theorem strip_id {s : Str} (h : ∀ c ∈ s, isWs c = false) : strip s = s := by
  unfold strip
  rw [dropWhile_all_neg h, dropWhile_all_neg (l := s.reverse) (fun c hc => h c (List.mem_reverse.mp hc)), List.reverse_reverse]

theorem isWs_of_decimal {s : Str} (h : isDecimal s = true) : ∀ c ∈ s, isWs c = false := by
  intro c hc
  rcases isDecimal_chars h c hc with h1 | rfl | rfl | rfl
  · have a1 : c ≠ ' ' := by intro e; rw [e] at h1; exact absurd h1 (by decide)
    have a2 : c ≠ '\t' := by intro e; rw [e] at h1; exact absurd h1 (by decide)
    have a3 : c ≠ '\n' := by intro e; rw [e] at h1; exact absurd h1 (by decide)
    have a4 : c ≠ '\r' := by intro e; rw [e] at h1; exact absurd h1 (by decide)
    simp [isWs, a1, a2, a3, a4]
  · decide
  · decide
  · decide

theorem strip_decimal {s : Str} (h : isDecimal s = true) : strip s = s := strip_id (isWs_of_decimal h)

/-- the `xs:decimal` type accepts every decimal literal; `positiveDecimal` (minExclusive 0) the positive ones -/
theorem decimal_accepts {s : Str} (hd : isDecimal s = true) :
    ({ base := .decimal, enum := [], minExcl := none, minIncl := none, maxIncl := none } : Simple).accepts s = true := by
  simp [Simple.accepts, strip_decimal hd, hd]

theorem positiveDecimal_accepts {s : Str} (hd : isDecimal s = true) (hn : isNeg s = false) (hz : s.any nz = true) :
    ({ base := .decimal, enum := [], minExcl := some 0, minIncl := none, maxIncl := none } : Simple).accepts s = true := by
  simp [Simple.accepts, strip_decimal hd, hd, decGt_zero hn hz]

theorem nz_not_dot {c : Char} (h : nz c = true) : c ≠ '.' := by
  intro e; rw [e] at h; exact absurd h (by decide)

theorem mantissa_subset {s : Str} {c : Char} (h : c ∈ mantissa s) : c ∈ s := by
  unfold mantissa at h
  have h1 := (List.takeWhile_sublist _).subset h
  rcases dropSign_cases s with h0 | ⟨r, hs, hr⟩ | ⟨r, hs, hr⟩
  · rwa [h0] at h1
  · rw [hr] at h1; rw [hs]; exact List.mem_cons_of_mem _ h1
  · rw [hr] at h1; rw [hs]; exact List.mem_cons_of_mem _ h1

theorem mem_split_dot {m : Str} {c : Char} (hc : c ≠ '.') (h : c ∈ m) :
    c ∈ m.takeWhile (· != '.') ++ (m.dropWhile (· != '.')).drop 1 := by
  have hsplit := @List.takeWhile_append_dropWhile _ (· != '.') m
  rw [← hsplit] at h
  rcases List.mem_append.mp h with h | h
  · exact List.mem_append_left _ h
  · apply List.mem_append_right
    cases hdw : m.dropWhile (· != '.') with
    | nil => rw [hdw] at h; cases h
    | cons x rest =>
      rw [hdw] at h
      have hx : x = '.' := by
        have := List.head?_dropWhile_not (· != '.') m
        rw [hdw] at this; simpa using this
      rcases List.mem_cons.mp h with rfl | h
      · exact absurd hx hc
      · simpa using h

/-- decimal_to_str of a positive finite float is a positive decimal: no sign, and a non-zero digit survives -/
theorem decimalToStr_positive {s : Str} (h : isPlainRepr s = true ∨ isSciRepr s = true) (hn : isNeg s = false)
    (hz : (mantissa s).any nz = true) : isNeg (decimalToStr s) = false ∧ (decimalToStr s).any nz = true := by
  obtain ⟨c, hcm, hc⟩ := List.any_eq_true.mp hz
  unfold decimalToStr
  by_cases he : s.any isE = true
  · rw [if_pos he]
    rcases h with h | h
    · rw [plain_no_E h] at he; exact absurd he (by decide)
    · obtain ⟨d1, d2⟩ := sci_mantissa_digits h
      unfold positionalOfRepr
      simp only []
      rw [hn]
      exact positional_pos _ d1 d2 (any_nz_of_mem hc (mem_split_dot (nz_not_dot hc) hcm))
  · rw [if_neg he]
    exact ⟨hn, any_nz_of_mem hc (mantissa_subset hcm)⟩

end CR.XmlNum

namespace CR.Xsd

/-! ### sequences of element particles -/

/-- the child names `c₁ × e₁.name, c₂ × e₂.name, …` -/
def blocks : List ElemP → List Nat → List String
  | e :: es, c :: cs => List.replicate c e.name ++ blocks es cs
  | _, _ => []

def inRange (e : ElemP) (c : Nat) : Prop := e.min ≤ c ∧ (∀ m, e.max = some m → c ≤ m)

theorem countPrefix_replicate (n : String) (c : Nat) (rest : List String) :
    countPrefix n (List.replicate c n ++ rest) = c + countPrefix n rest := by
  induction c with
  | zero => simp
  | succ k ih => simp [List.replicate_succ, countPrefix, ih]; omega

theorem countPrefix_not_mem {n : String} : ∀ {l : List String}, (∀ x ∈ l.head?, x ≠ n) → countPrefix n l = 0
  | [], _ => rfl
  | x :: xs, h => by
    have : x ≠ n := h x (by simp)
    simp [countPrefix, this]

theorem blocks_head_mem : ∀ {es : List ElemP} {cs : List Nat} {x : String}, x ∈ (blocks es cs).head? → x ∈ es.map (·.name)
  | [], _, x, h => by simp [blocks] at h
  | e :: es, [], x, h => by simp [blocks] at h
  | e :: es, c :: cs, x, h => by
    cases c with
    | zero =>
      simp only [blocks, List.replicate_zero, List.nil_append] at h
      exact List.mem_cons_of_mem _ (blocks_head_mem h)
    | succ k =>
      simp [blocks, List.replicate_succ] at h
      simp [h]

theorem capMax_of_le {c : Nat} {mx : Option Nat} (h : ∀ m, mx = some m → c ≤ m) : capMax c mx = c := by
  cases mx with
  | none => rfl
  | some m => simp only [capMax]; exact Nat.min_eq_left (h m rfl)

def RangesOk : List ElemP → List Nat → Prop
  | [], [] => True
  | e :: es, c :: cs => inRange e c ∧ RangesOk es cs
  | _, _ => False

/-- distinct element names, every count within its range: the greedy matcher consumes exactly the blocks -/
theorem matchElems_blocks : ∀ (es : List ElemP) (cs : List Nat), (es.map (·.name)).Nodup → RangesOk es cs →
    ∃ ts, matchElems es (blocks es cs) = some (ts, [])
  | [], [], _, _ => ⟨[], rfl⟩
  | [], _ :: _, _, h => by simp [RangesOk] at h
  | _ :: _, [], _, h => by simp [RangesOk] at h
  | e :: es, c :: cs, hnd, hr => by
    rw [List.map_cons, List.nodup_cons] at hnd
    obtain ⟨hr0, hr'⟩ := hr
    obtain ⟨ts, hts⟩ := matchElems_blocks es cs hnd.2 hr'
    have hcp : countPrefix e.name (blocks (e :: es) (c :: cs)) = c := by
      simp only [blocks]
      rw [countPrefix_replicate, countPrefix_not_mem]
      · rfl
      · intro x hx; intro heq; subst heq; exact hnd.1 (blocks_head_mem hx)
    have hm : matchElem e (blocks (e :: es) (c :: cs)) = some (List.replicate c e.type, blocks es cs) := by
      unfold matchElem
      simp only [hcp, capMax_of_le hr0.2]
      have : ¬ c < e.min := by have := hr0.1; omega
      rw [if_neg this]
      simp [blocks]
    refine ⟨List.replicate c e.type ++ ts, ?_⟩
    simp only [matchElems, hm, hts]

theorem matchItems_elems (es : List ElemP) (ns : List String) : matchItems (es.map Item.elem) ns = matchElems es ns := by
  induction es generalizing ns with
  | nil => rfl
  | cons e es ih =>
    simp only [List.map_cons, matchItems, matchItem, matchElems]
    cases matchElem e ns with
    | none => rfl
    | some r => obtain ⟨ts, rest⟩ := r; simp only [ih]

/-- a `{1,1}` sequence group accepts what its item list consumes completely -/
theorem matchGroup_seq_once {items : List Item} {ns ts : List String} (h : matchItems items ns = some (ts, [])) :
    (matchGroup (.seq items 1 (some 1)) ns).isSome = true := by
  unfold matchGroup
  simp only [rep, atMax, h]
  cases ns with
  | nil => simp
  | cons n rest =>
    simp only [List.length_nil, List.length_cons, Nat.zero_lt_succ, if_true, decide_eq_true_eq]
    simp [rep, atMax]

/-- **order theorem, general form**: children laid out as blocks in the order of a sequence of distinct elements,
    each count within the element's occurrence range, match the content model -/
theorem seq_blocks_ok (es : List ElemP) (cs : List Nat) (hnd : (es.map (·.name)).Nodup) (hr : RangesOk es cs) :
    (matchGroup (.seq (es.map Item.elem) 1 (some 1)) (blocks es cs)).isSome = true := by
  obtain ⟨ts, h⟩ := matchElems_blocks es cs hnd hr
  exact matchGroup_seq_once (by rw [matchItems_elems]; exact h)

/-- "`g` is a plain `{1,1}` sequence of elements with pairwise different names" (decidable on a schema term) -/
def isPlainSeq (g : Group) : Bool :=
  g == .seq ((elemsOf g).map Item.elem) 1 (some 1) && decide ((elemsOf g).map (·.name)).Nodup

theorem plainSeq_ok {g : Group} (hg : isPlainSeq g = true) (cs : List Nat) (hr : RangesOk (elemsOf g) cs) :
    (matchGroup g (blocks (elemsOf g) cs)).isSome = true := by
  unfold isPlainSeq at hg
  rw [Bool.and_eq_true] at hg
  have h1 : g = .seq ((elemsOf g).map Item.elem) 1 (some 1) := by simpa using hg.1
  have h2 : ((elemsOf g).map (·.name)).Nodup := by simpa using hg.2
  have := seq_blocks_ok (elemsOf g) cs h2 hr
  rw [← h1] at this; exact this

/-- symbolic occurrence counts: what a builder emits for one element particle -/
inductive Cnt where
  | const (k : Nat)                       -- always exactly k
  | any (n : Nat)                         -- one per list entry, any number
  | opt (b : Bool)                        -- present or absent
  | ge (k n : Nat) (h : k ≤ n)            -- n entries, at least k of them

def Cnt.val : Cnt → Nat
  | .const k => k
  | .any n => n
  | .opt b => if b then 1 else 0
  | .ge _ n _ => n

def leOpt (k : Nat) : Option Nat → Bool
  | none => true
  | some m => decide (k ≤ m)

/-- the particle's occurrence range admits every value the symbolic count can take -/
def Cnt.fits (e : ElemP) : Cnt → Bool
  | .const k => decide (e.min ≤ k) && leOpt k e.max
  | .any _ => e.min == 0 && e.max == none
  | .opt _ => e.min == 0 && leOpt 1 e.max
  | .ge k _ _ => decide (e.min ≤ k) && e.max == none

def fitsAll : List ElemP → List Cnt → Bool
  | [], [] => true
  | e :: es, c :: cs => c.fits e && fitsAll es cs
  | _, _ => false

theorem leOpt_spec {k : Nat} {mx : Option Nat} (h : leOpt k mx = true) : ∀ m, mx = some m → k ≤ m := by
  intro m hm; subst hm; simpa [leOpt] using h

theorem Cnt.fits_inRange {e : ElemP} {c : Cnt} (h : c.fits e = true) : inRange e c.val := by
  cases c with
  | const k =>
    simp only [Cnt.fits, Bool.and_eq_true, decide_eq_true_eq] at h
    exact ⟨h.1, leOpt_spec h.2⟩
  | any n =>
    simp only [Cnt.fits, Bool.and_eq_true, beq_iff_eq] at h
    refine ⟨by simp [Cnt.val, h.1], ?_⟩
    intro m hm; rw [h.2] at hm; cases hm
  | opt b =>
    simp only [Cnt.fits, Bool.and_eq_true, beq_iff_eq] at h
    refine ⟨by simp [h.1], ?_⟩
    intro m hm
    have := leOpt_spec h.2 m hm
    cases b <;> simp [Cnt.val] <;> omega
  | ge k n hk =>
    simp only [Cnt.fits, Bool.and_eq_true, decide_eq_true_eq, beq_iff_eq] at h
    refine ⟨by simp only [Cnt.val]; omega, ?_⟩
    intro m hm; rw [h.2] at hm; cases hm

theorem fitsAll_ranges : ∀ {es : List ElemP} {cs : List Cnt}, fitsAll es cs = true → RangesOk es (cs.map Cnt.val)
  | [], [], _ => trivial
  | [], _ :: _, h => by simp [fitsAll] at h
  | _ :: _, [], h => by simp [fitsAll] at h
  | e :: es, c :: cs, h => by
    simp only [fitsAll, Bool.and_eq_true] at h
    exact ⟨Cnt.fits_inRange h.1, fitsAll_ranges h.2⟩

/-- blocks by names only -/
def blocksN : List String → List Nat → List String
  | n :: ns, c :: cs => List.replicate c n ++ blocksN ns cs
  | _, _ => []

theorem blocks_eq_blocksN : ∀ (es : List ElemP) (cs : List Nat), blocks es cs = blocksN (es.map (·.name)) cs
  | [], _ => by simp [blocks, blocksN]
  | _ :: _, [] => by simp [blocks, blocksN]
  | e :: es, c :: cs => by simp [blocks, blocksN, blocks_eq_blocksN es cs]

/-- **order theorem, the form used per builder**: `g` is a `{1,1}` sequence of distinctly named elements `names`;
    the builder emits, in that order, `cs[i]` children named `names[i]`, and every particle admits its count. -/
theorem order_ok {g : Group} (hg : isPlainSeq g = true) (names : List String) (hn : (elemsOf g).map (·.name) = names)
    (cs : List Cnt) (hf : fitsAll (elemsOf g) cs = true) :
    (matchGroup g (blocksN names (cs.map Cnt.val))).isSome = true := by
  have := plainSeq_ok hg (cs.map Cnt.val) (fitsAll_ranges hf)
  rw [blocks_eq_blocksN, hn] at this; exact this

end CR.Xsd

namespace CR.Xsd

/-! ### xs:all -/

theorem countName_nodup {n : String} : ∀ {ns : List String}, ns.Nodup → countName n ns ≤ 1
  | [], _ => by simp [countName]
  | x :: xs, h => by
    rw [List.nodup_cons] at h
    have ih := countName_nodup (n := n) h.2
    unfold countName at *
    by_cases hx : x = n
    · subst hx
      have : List.countP (· == x) xs = 0 := by
        rw [List.countP_eq_zero]; intro a ha hax
        have : a = x := by simpa using hax
        subst this; exact h.1 ha
      simp [this]
    · have : (x == n) = false := by simpa using hx
      simp [this]; exact ih

theorem countName_pos {n : String} {ns : List String} (h : n ∈ ns) : 1 ≤ countName n ns := by
  unfold countName
  exact List.countP_pos_iff.mpr ⟨n, h, by simp⟩

/-- "`es` is an xs:all group whose elements occur at most once" (decidable on a schema term) -/
def isPlainAll (es : List ElemP) : Bool := es.all (fun e => decide (e.min ≤ 1) && e.max == some 1)

/-- **xs:all**: pairwise different child names, each declared, every required element present — any order -/
theorem all_ok {es : List ElemP} (hes : isPlainAll es = true) {ns : List String} (hnd : ns.Nodup)
    (hsub : ∀ n ∈ ns, n ∈ es.map (·.name)) (hreq : ∀ e ∈ es, e.min = 1 → e.name ∈ ns) :
    (matchAll es ns).isSome = true := by
  unfold matchAll
  have c1 : es.all (fun e => decide (e.min ≤ countName e.name ns) && !(atMax (countName e.name ns) (e.max.map (· + 1)))) = true := by
    rw [List.all_eq_true]; intro e he
    unfold isPlainAll at hes
    rw [List.all_eq_true] at hes
    have h1 := hes e he
    simp only [Bool.and_eq_true, decide_eq_true_eq, beq_iff_eq] at h1
    have hle := countName_nodup (n := e.name) hnd
    rw [h1.2]
    simp only [Option.map_some, atMax, Bool.and_eq_true, decide_eq_true_eq, Bool.not_eq_true', decide_eq_false_iff_not]
    refine ⟨?_, by omega⟩
    by_cases hm : e.min = 1
    · have := countName_pos (hreq e he hm); omega
    · omega
  have c2 : ns.all (fun n => es.any (·.name == n)) = true := by
    rw [List.all_eq_true]; intro n hn
    have := hsub n hn
    rw [List.mem_map] at this
    obtain ⟨e, he, hen⟩ := this
    exact List.any_eq_true.mpr ⟨e, he, by simp [hen]⟩
  rw [c1, c2]; rfl

/-! ### a repeated choice of single elements (`shape`) -/

/-- every alternative is one element occurring exactly once -/
def isUnitChoice (items : List Item) : Bool :=
  items.all (fun | .elem e => e.min == 1 && e.max == some 1 | _ => false)

theorem matchElem_unit {e : ElemP} (h1 : e.min = 1) (h2 : e.max = some 1) (n : String) (rest : List String) :
    matchElem e (n :: rest) = if n = e.name then some ([e.type], rest) else none := by
  unfold matchElem
  by_cases hn : n = e.name
  · rw [hn]
    simp only [countPrefix, if_true, h2, capMax, h1]
    have : min (countPrefix e.name rest + 1) 1 = 1 := by omega
    rw [this]; simp
  · simp only [countPrefix, hn, if_false, h2, capMax, h1]
    simp

theorem matchChoiceI_unit : ∀ {items : List Item}, isUnitChoice items = true → ∀ (n : String) (rest : List String),
    n ∈ (items.filterMap (fun | .elem e => some e.name | _ => none)) →
    ∃ t, matchChoiceI items (n :: rest) = some ([t], rest)
  | [], _, n, rest, hm => by simp at hm
  | it :: its, hu, n, rest, hm => by
    unfold isUnitChoice at hu
    rw [List.all_cons, Bool.and_eq_true] at hu
    cases it with
    | elem e =>
      simp only [Bool.and_eq_true, beq_iff_eq] at hu
      simp only [matchChoiceI, matchItem, matchElem_unit hu.1.1 hu.1.2]
      by_cases hn : n = e.name
      · refine ⟨e.type, ?_⟩
        simp [hn]
      · simp only [hn, if_false]
        apply matchChoiceI_unit (items := its) hu.2 n rest
        simp only [List.filterMap_cons] at hm
        rcases List.mem_cons.mp hm with h | h
        · exact absurd h hn
        · exact h
    | seq _ _ _ => simp at hu
    | choice _ _ _ => simp at hu

theorem rep_unit_choice {items : List Item} (hu : isUnitChoice items = true) (mn : Nat) :
    ∀ (ns : List String) (fuel cnt : Nat), ns.length < fuel →
      (∀ n ∈ ns, n ∈ (items.filterMap (fun | .elem e => some e.name | _ => none))) → mn ≤ cnt + ns.length →
      ∃ ts, rep (matchChoiceI items) mn none fuel cnt ns = some (ts, [])
  | [], fuel, cnt, hf, _, hmin => by
    cases fuel with
    | zero => simp at hf
    | succ f =>
      have hmin' : mn ≤ cnt := by simpa using hmin
      cases items with
      | nil => exact ⟨[], by simp [rep, atMax, matchChoiceI, hmin']⟩
      | cons it its =>
        -- on the empty input every unit alternative fails, so the repetition stops
        have hnone : matchChoiceI (it :: its) [] = none := by
          have : ∀ l : List Item, isUnitChoice l = true → matchChoiceI l [] = none := by
            intro l
            induction l with
            | nil => intro _; rfl
            | cons a as ih =>
              intro h
              unfold isUnitChoice at h
              rw [List.all_cons, Bool.and_eq_true] at h
              cases a with
              | elem e =>
                simp only [Bool.and_eq_true, beq_iff_eq] at h
                simp only [matchChoiceI, matchItem, matchElem, countPrefix, h.1.2, capMax, h.1.1]
                simpa using ih h.2
              | seq _ _ _ => simp at h
              | choice _ _ _ => simp at h
          exact this _ hu
        exact ⟨[], by simp [rep, atMax, hnone, hmin']⟩
  | n :: rest, fuel, cnt, hf, hall, hmin => by
    cases fuel with
    | zero => simp at hf
    | succ f =>
      obtain ⟨t, ht⟩ := matchChoiceI_unit hu n rest (hall n List.mem_cons_self)
      obtain ⟨ts, hts⟩ := rep_unit_choice hu mn rest f (cnt + 1) (by simp at hf; omega)
        (fun m hm => hall m (List.mem_cons_of_mem _ hm)) (by simp at hmin; omega)
      refine ⟨[t] ++ ts, ?_⟩
      simp [rep, atMax, ht, hts]

/-- **repeated choice** (`xs:choice maxOccurs="unbounded"` of single elements): any non-shorter-than-`mn` sequence of
    alternative names matches -/
theorem unit_choice_ok {items : List Item} (hu : isUnitChoice items = true) (mn : Nat) (ns : List String)
    (hall : ∀ n ∈ ns, n ∈ (items.filterMap (fun | .elem e => some e.name | _ => none))) (hmin : mn ≤ ns.length) :
    (matchGroup (.choice items mn none) ns).isSome = true := by
  obtain ⟨ts, h⟩ := rep_unit_choice hu mn ns (ns.length + 1) 0 (by omega) hall (by omega)
  simp [matchGroup, h]

end CR.Xsd

namespace CR.Xsd

theorem order_of {g : Group} (hg : isPlainSeq g = true) (names : List String) (hn : (elemsOf g).map (·.name) = names)
    (cs : List Cnt) (hf : fitsAll (elemsOf g) cs = true) {kids : List String}
    (he : kids = blocksN names (cs.map Cnt.val)) : (matchGroup g kids).isSome = true := by
  rw [he]; exact order_ok hg names hn cs hf

/-! ### a single choice between runs of one element (`position`) -/

theorem countPrefix_replicate_self (n : String) (c : Nat) : countPrefix n (List.replicate c n) = c := by
  have := countPrefix_replicate n c []
  simpa [countPrefix] using this

theorem matchChoiceI_run : ∀ (es : List ElemP) (e : ElemP) (n : Nat), e ∈ es → e.min ≤ n + 1 → e.max = none →
    (∀ e' ∈ es, 1 ≤ e'.min) → (es.map (·.name)).Nodup →
    matchChoiceI (es.map Item.elem) (List.replicate (n + 1) e.name) = some (List.replicate (n + 1) e.type, [])
  | [], e, n, hm, _, _, _, _ => by cases hm
  | e0 :: es, e, n, hm, hmin, hmax, hall, hnd => by
    rw [List.map_cons, List.nodup_cons] at hnd
    by_cases h0 : e0 = e
    · subst h0
      have hme : matchElem e0 (List.replicate (n + 1) e0.name) = some (List.replicate (n + 1) e0.type, []) := by
        unfold matchElem
        have hk : capMax (countPrefix e0.name (List.replicate (n + 1) e0.name)) e0.max = n + 1 := by
          rw [countPrefix_replicate_self, hmax]; rfl
        simp only [hk]
        have : ¬ n + 1 < e0.min := by omega
        simp [this]
      simp only [List.map_cons, matchChoiceI, matchItem, hme]
      simp
    · have hin : e ∈ es := by
        rcases List.mem_cons.mp hm with h | h
        · exact absurd h.symm h0
        · exact h
      have hne : e.name ≠ e0.name := by
        intro heq; apply hnd.1; rw [← heq]; exact List.mem_map.mpr ⟨e, hin, rfl⟩
      have hme : matchElem e0 (List.replicate (n + 1) e.name) = none := by
        unfold matchElem
        have : countPrefix e0.name (List.replicate (n + 1) e.name) = 0 := by
          simp [List.replicate_succ, countPrefix, hne]
        have h1 := hall e0 List.mem_cons_self
        have hk : capMax (countPrefix e0.name (List.replicate (n + 1) e.name)) e0.max = 0 := by
          rw [this]; cases e0.max <;> simp [capMax]
        simp only [hk]
        have : 0 < e0.min := by omega
        simp [this]
      simp only [List.map_cons, matchChoiceI, matchItem, hme]
      exact matchChoiceI_run es e n hin hmin hmax (fun e' he' => hall e' (List.mem_cons_of_mem _ he')) hnd.2

/-- a `{1,1}` choice between elements: a run of `n+1` children of one unbounded alternative matches -/
theorem choice_run_ok {g : Group} (hg : g = .choice ((elemsOf g).map Item.elem) 1 (some 1))
    (hmin : (elemsOf g).all (fun e => decide (1 ≤ e.min)) = true) (hnd : ((elemsOf g).map (·.name)).Nodup)
    (e : ElemP) (he : e ∈ elemsOf g) (hmax : e.max = none) (n : Nat) (hn : e.min ≤ n + 1) :
    (matchGroup g (List.replicate (n + 1) e.name)).isSome = true := by
  have hall : ∀ e' ∈ elemsOf g, 1 ≤ e'.min := by
    intro e' he'; rw [List.all_eq_true] at hmin; simpa using hmin e' he'
  have h := matchChoiceI_run (elemsOf g) e n he hn hmax hall hnd
  rw [hg]
  simp only [matchGroup, List.length_replicate]
  simp [rep, atMax, h]

end CR.Xsd

namespace CR.Xsd

/-- xs:all group of a schema type, stated for use with `decide`-checked side conditions -/
theorem all_group_ok {g : Group} (hg : g = .all (elemsOf g)) (hp : isPlainAll (elemsOf g) = true) (req : List String)
    (hreq : (elemsOf g).all (fun e => e.min != 1 || req.contains e.name) = true) {ns : List String} (hnd : ns.Nodup)
    (hsub : ∀ n ∈ ns, n ∈ (elemsOf g).map (·.name)) (hr : ∀ r ∈ req, r ∈ ns) :
    (matchGroup g ns).isSome = true := by
  rw [hg]
  simp only [matchGroup]
  refine all_ok hp hnd (by simpa [elemsOf] using hsub) ?_
  intro e he hmin
  rw [List.all_eq_true] at hreq
  have := hreq e (by simpa [elemsOf] using he)
  simp only [hmin, bne_self_eq_false, Bool.false_or] at this
  exact hr _ (by simpa using this)

end CR.Xsd

namespace CR.Xsd
/-- assembly rule: an element with no character data is valid iff its attributes are, its children's names match the
    content model, and every child is valid against the type the content model assigns to it -/
theorem validNode_complex {S : Schema} {tn : String} {decl : List AttrP} {mixed : Bool} {g : Group}
    (hl : S.lookup tn = some (.complex decl mixed g)) {n : String} {a : List (String × String)} {kids : List Xml}
    {ts : List String} (ha : attrsOk S decl a = true) (hm : matchGroup g (kids.map Xml.name) = some ts) :
    validNode S tn (.node n a [] kids) = validKids S ts kids := by
  simp only [validNode, shallow, hl, Xml.attrs, Xml.text, Xml.kidNames, Xml.kids, ha, hm]
  cases g <;> simp

theorem validNode_simple {S : Schema} {tn : String} {st : Simple} (hl : S.lookup tn = some (.simple st)) (n : String)
    {t : Str} (h : st.accepts t = true) : validNode S tn (.node n [] t []) = true := by
  simp only [validNode, shallow, hl, Xml.attrs, Xml.kids, Xml.text, List.isEmpty_nil, Bool.true_and, h, if_true, validKids]
end CR.Xsd

namespace CR.Xsd

/-- the types assigned to the blocks -/
def typeBlocks : List ElemP → List Nat → List String
  | e :: es, c :: cs => List.replicate c e.type ++ typeBlocks es cs
  | _, _ => []

theorem matchElems_blocks_types : ∀ (es : List ElemP) (cs : List Nat), (es.map (·.name)).Nodup → RangesOk es cs →
    matchElems es (blocks es cs) = some (typeBlocks es cs, [])
  | [], [], _, _ => rfl
  | [], _ :: _, _, h => by simp [RangesOk] at h
  | _ :: _, [], _, h => by simp [RangesOk] at h
  | e :: es, c :: cs, hnd, hr => by
    rw [List.map_cons, List.nodup_cons] at hnd
    obtain ⟨hr0, hr'⟩ := hr
    have hts := matchElems_blocks_types es cs hnd.2 hr'
    have hcp : countPrefix e.name (blocks (e :: es) (c :: cs)) = c := by
      simp only [blocks]
      rw [countPrefix_replicate, countPrefix_not_mem]
      · rfl
      · intro x hx; intro heq; subst heq; exact hnd.1 (blocks_head_mem hx)
    have hm : matchElem e (blocks (e :: es) (c :: cs)) = some (List.replicate c e.type, blocks es cs) := by
      unfold matchElem
      simp only [hcp, capMax_of_le hr0.2]
      have : ¬ c < e.min := by have := hr0.1; omega
      rw [if_neg this]
      simp [blocks]
    simp only [matchElems, hm, hts, typeBlocks]

theorem matchGroup_seq_once_types {items : List Item} {ns ts : List String} (h : matchItems items ns = some (ts, []))
    (hne : ns ≠ []) : matchGroup (.seq items 1 (some 1)) ns = some ts := by
  unfold matchGroup
  cases ns with
  | nil => exact absurd rfl hne
  | cons n rest =>
    simp [rep, atMax, h]

/-- families of children for a sequence of element particles: every member carries the particle's name and is valid
    against the particle's type, and the family size is within the occurrence range -/
def FamsOk (S : Schema) : List ElemP → List (List Xml) → Prop
  | [], [] => True
  | e :: es, f :: fs => (∀ x ∈ f, x.name = e.name ∧ validNode S e.type x = true) ∧ inRange e f.length ∧ FamsOk S es fs
  | _, _ => False

theorem FamsOk.ranges {S : Schema} : ∀ {es : List ElemP} {fs : List (List Xml)}, FamsOk S es fs → RangesOk es (fs.map List.length)
  | [], [], _ => trivial
  | [], _ :: _, h => by simp [FamsOk] at h
  | _ :: _, [], h => by simp [FamsOk] at h
  | _ :: _, _ :: _, h => ⟨h.2.1, FamsOk.ranges h.2.2⟩

theorem map_name_family {f : List Xml} {n : String} (h : ∀ x ∈ f, x.name = n) : f.map Xml.name = List.replicate f.length n := by
  induction f with
  | nil => rfl
  | cons x xs ih =>
    simp only [List.map_cons, List.length_cons, List.replicate_succ]
    rw [h x List.mem_cons_self, ih (fun y hy => h y (List.mem_cons_of_mem _ hy))]

theorem FamsOk.names {S : Schema} : ∀ {es : List ElemP} {fs : List (List Xml)}, FamsOk S es fs →
    fs.flatten.map Xml.name = blocks es (fs.map List.length)
  | [], [], _ => rfl
  | [], _ :: _, h => by simp [FamsOk] at h
  | _ :: _, [], h => by simp [FamsOk] at h
  | e :: es, f :: fs, h => by
    simp only [List.flatten_cons, List.map_append, List.map_cons, blocks]
    rw [map_name_family (fun x hx => (h.1 x hx).1), FamsOk.names h.2.2]

theorem validKids_family {S : Schema} {t : String} : ∀ {f : List Xml} {ts : List String} {ks : List Xml},
    (∀ x ∈ f, validNode S t x = true) → validKids S (List.replicate f.length t ++ ts) (f ++ ks) = validKids S ts ks
  | [], _, _, _ => by simp
  | x :: xs, ts, ks, h => by
    simp only [List.length_cons, List.replicate_succ, List.cons_append, validKids, h x List.mem_cons_self, Bool.true_and]
    exact validKids_family (fun y hy => h y (List.mem_cons_of_mem _ hy))

theorem FamsOk.valid {S : Schema} : ∀ {es : List ElemP} {fs : List (List Xml)}, FamsOk S es fs →
    validKids S (typeBlocks es (fs.map List.length)) fs.flatten = true
  | [], [], _ => by simp [typeBlocks, validKids]
  | [], _ :: _, h => by simp [FamsOk] at h
  | _ :: _, [], h => by simp [FamsOk] at h
  | e :: es, f :: fs, h => by
    simp only [List.map_cons, typeBlocks, List.flatten_cons]
    rw [validKids_family (fun x hx => (h.1 x hx).2)]
    exact FamsOk.valid h.2.2

/-- **assembly of a sequence-typed element**: attributes valid, no character data, and the children are families of
    valid elements laid out in the order of the type's (distinctly named) element particles — then the element is valid. -/
theorem seq_assembly {S : Schema} {tn : String} {decl : List AttrP} {mixed : Bool} {g : Group}
    (hl : S.lookup tn = some (.complex decl mixed g)) (hg : isPlainSeq g = true) (n : String) (a : List (String × String))
    (ha : attrsOk S decl a = true) (fs : List (List Xml)) (hf : FamsOk S (elemsOf g) fs) (hne : fs.flatten ≠ []) :
    validNode S tn (.node n a [] fs.flatten) = true := by
  unfold isPlainSeq at hg
  rw [Bool.and_eq_true] at hg
  have h1 : g = .seq ((elemsOf g).map Item.elem) 1 (some 1) := by simpa using hg.1
  have h2 : ((elemsOf g).map (·.name)).Nodup := by simpa using hg.2
  have hm : matchGroup g (fs.flatten.map Xml.name) = some (typeBlocks (elemsOf g) (fs.map List.length)) := by
    rw [hf.names]
    have := matchElems_blocks_types (elemsOf g) (fs.map List.length) h2 hf.ranges
    rw [← matchItems_elems] at this
    have hne' : blocks (elemsOf g) (fs.map List.length) ≠ [] := by
      rw [← hf.names]; intro h; exact hne (List.map_eq_nil_iff.mp h)
    have := matchGroup_seq_once_types this hne'
    rw [← h1] at this; exact this
  rw [validNode_complex hl ha hm]
  exact hf.valid

/-- an injective-on-the-list map: no two elements of the list have the same image -/
theorem nodup_map_inj {α β} {f : α → β} : ∀ {l : List α}, (l.map f).Nodup → ∀ {x y}, x ∈ l → y ∈ l → f x = f y → x = y
  | [], _, _, _, hx, _, _ => by cases hx
  | a :: as, hnd, x, y, hx, hy, hxy => by
    rw [List.map_cons, List.nodup_cons] at hnd
    rcases List.mem_cons.mp hx with rfl | hx' <;> rcases List.mem_cons.mp hy with rfl | hy'
    · rfl
    · exact absurd (List.mem_map.mpr ⟨y, hy', hxy.symm⟩) hnd.1
    · exact absurd (List.mem_map.mpr ⟨x, hx', hxy⟩) hnd.1
    · exact nodup_map_inj hnd.2 hx' hy' hxy

end CR.Xsd
