/-
  CRProofs.XsdOrd1 — C03, section 2 of CRProps/C03.lean (element order per node builder): the proofs, kept in their own modules so
  that lake builds them in parallel with the tree-encoder chain (CRProofs.XsdDoc*).  CRProps/C03.lean states the theorems.
-/
import CRProofs.XsdOrd

namespace CR.C03
open CR.Xsd CR.XmlNum CR.XmlW

theorem ord_order_point (z : Bool) : Ok "point" (pointKids z) := by cases z <;> decide

theorem ord_order_rectangle (dyn oriSet ctrSet : Bool) : Ok "rectangle" (rectangleKids dyn oriSet ctrSet) := by
  cases dyn <;> cases oriSet <;> cases ctrSet <;> decide

theorem ord_order_circle (dyn ctrSet : Bool) : Ok "circle" (circleKids dyn ctrSet) := by
  cases dyn <;> cases ctrSet <;> decide

theorem ord_order_polygon (n : Nat) (h : 3 ≤ n) : Ok "polygon" (polygonKids n) :=
  order_of (by decide) ["point"] (by decide) [.ge 3 n h] (by rfl) (by kids_eq polygonKids)

theorem ord_order_bound (n : Nat) (marking : Bool) (h : 2 ≤ n) : Ok "bound" (boundKids n marking) :=
  order_of (by decide) ["point", "lineMarking"] (by decide) [.ge 2 n h, .opt marking] (by rfl) (by
    cases marking <;> kids_eq boundKids)

theorem ord_order_lanelet (p : LaneletP) : Ok "lanelet" (laneletKids p) :=
  order_of (by decide)
    ["leftBound", "rightBound", "predecessor", "successor", "adjacentLeft", "adjacentRight", "stopLine", "laneletType",
     "userOneWay", "userBidirectional", "trafficSignRef", "trafficLightRef"] (by decide)
    [.const 1, .const 1, .any p.nPred, .any p.nSucc, .opt p.adjL, .opt p.adjR, .opt p.stop,
     .ge 1 (if p.nTypes = 0 then 1 else p.nTypes) (by split <;> omega), .any p.nOneWay, .any p.nBidir, .any p.nSigns,
     .any p.nLights] (by rfl) (by
      simp only [laneletKids, blocksN, CR.XmlW.rep, CR.XmlW.opt, List.map, Cnt.val]
      cases p.adjL <;> cases p.adjR <;> cases p.stop <;> simp)

theorem ord_order_stopLine (points : Bool) (nSigns nLights : Nat) : Ok "stopLine" (stopLineKids points true nSigns nLights) :=
  order_of (by decide) ["point", "lineMarking", "trafficSignRef", "trafficLightRef"] (by decide)
    [.const (if points then 2 else 0), .const 1, .any nSigns, .any nLights] (by cases points <;> rfl) (by
      cases points <;> simp [stopLineKids, blocksN, CR.XmlW.rep, CR.XmlW.opt, Cnt.val])

theorem ord_order_trafficSign (n : Nat) (position virtual : Bool) (h : 1 ≤ n) :
    Ok "trafficSign" (trafficSignKids n position virtual) :=
  order_of (by decide) ["trafficSignElement", "position", "virtual"] (by decide) [.ge 1 n h, .opt position, .opt virtual]
    (by rfl) (by cases position <;> cases virtual <;> simp [trafficSignKids, blocksN, CR.XmlW.rep, CR.XmlW.opt, Cnt.val])

theorem ord_order_trafficSignElement (n : Nat) : Ok "trafficSign/trafficSignElement" (signElementKids n) :=
  order_of (by decide) ["trafficSignID", "additionalValue"] (by decide) [.const 1, .any n] (by rfl)
    (by simp [signElementKids, blocksN, CR.XmlW.rep, Cnt.val])

theorem ord_order_trafficLight (position direction active : Bool) :
    Ok "trafficLight" (trafficLightKids true position direction active) := by
  cases position <;> cases direction <;> cases active <;> decide

end CR.C03
