/-
  CRProofs.XsdEnumT — C03, enumerations: the finite facts about the regenerated (member name, value) tables of the Python enums
  against the regenerated schema term (the traffic-sign tables: CRProofs.XsdEnumS), and what follows for the text the writer model emits for a MEMBER (`enumValue`,
  `lineMarkingLower`, `signValue`): it is a value the schema's simple type accepts.
-/
import CRProofs.Xsd
import CRProofs.XsdEnum

namespace CR.C03
open CR.Xsd CR.XmlW CR.Py.Gen

/-! ### the table facts (finite, decided on the regenerated tables) -/

theorem enum_total :
    (lineMarking.all fun (_, v) => acceptsV "lineMarking" v) = true ∧
    ((lineMarking.map (·.1)).all fun n => acceptsV "lineMarking" (lineMarkingLower n)) = true ∧
    (laneletType.all fun (_, v) => acceptsV "laneletType" v) = true ∧
    (roadUser.all fun (_, v) => acceptsV "vehicleType" v) = true ∧
    (trafficLightState.all fun (_, v) => acceptsV "trafficLightColor" v) = true ∧
    (trafficLightDirection.all fun (_, v) => acceptsV "trafficLight/direction" v) = true ∧
    (tag.all fun (_, v) => ((elemsOf (schema.content "tag")).map (·.name)).contains v) = true ∧
    (obstacleRole.all fun (_, v) =>
      ((elemsOf (schema.content "/commonRoad")).map (·.name)).contains (v ++ "Obstacle")) = true ∧
    acceptsV "/commonRoad/@commonRoadVersion" scenarioVersion = true := by decide

theorem enum_partial :
    (timeOfDay.all fun (n, v) => acceptsV "timeOfDay" v == timeOfDayOk.contains n) = true ∧
    (weather.all fun (n, v) => acceptsV "weather" v == weatherOk.contains n) = true ∧
    (underground.all fun (n, v) => acceptsV "underground" v == !(undergroundNot.contains n)) = true ∧
    (obstacleType.all fun (n, v) => acceptsV "obstacleTypeStatic" v == staticTypes.contains n) = true ∧
    (obstacleType.all fun (n, v) => acceptsV "obstacleTypeDynamic" v == dynamicTypes.contains n) = true ∧
    (obstacleType.all fun (n, v) => acceptsV "obstacleTypeEnvironment" v == environmentTypes.contains n) = true := by decide

/-- the listed expressible members are members -/
theorem partial_members :
    (timeOfDayOk.all fun n => (timeOfDay.map (·.1)).contains n) = true ∧ (weatherOk.all fun n => (weather.map (·.1)).contains n) = true ∧
    ((staticTypes ++ dynamicTypes ++ environmentTypes).all fun n => (obstacleType.map (·.1)).contains n) = true := by decide

theorem tag_values_nodup : (tag.map (·.2)).Nodup := by decide

/-! ### from a member to the accepted text -/

theorem enumValue_mem {tbl : List (String × String)} {n : String} (h : n ∈ tbl.map (·.1)) : (n, enumValue tbl n) ∈ tbl := by
  induction tbl with
  | nil => simp at h
  | cons e es ih =>
    obtain ⟨k, v⟩ := e
    by_cases hk : n = k
    · subst hk; simp [enumValue, List.lookup]
    · have hne : (n == k) = false := by simpa using hk
      rw [List.map_cons] at h
      rcases List.mem_cons.mp h with h' | h'
      · exact absurd h' hk
      · have := ih h'
        unfold enumValue at this ⊢
        simp only [List.lookup, hne]
        exact List.mem_cons_of_mem _ this

/-- total enum: the value of every member is accepted -/
theorem accepts_member {tbl : List (String × String)} {T : String} (hall : (tbl.all fun (_, v) => acceptsV T v) = true)
    {n : String} (h : memberOf tbl n) : acceptsV T (enumValue tbl n) = true := by
  have := List.all_eq_true.mp hall _ (enumValue_mem h)
  simpa using this

/-- partial enum: the value of a listed member is accepted -/
theorem accepts_listed {tbl : List (String × String)} {T : String} {ok : List String}
    (hall : (tbl.all fun (n, v) => acceptsV T v == ok.contains n) = true) {n : String} (hm : memberOf tbl n) (h : n ∈ ok) :
    acceptsV T (enumValue tbl n) = true := by
  have := List.all_eq_true.mp hall _ (enumValue_mem hm)
  simp only [beq_iff_eq] at this
  rw [this]; simpa using h

theorem listed_member {tbl : List (String × String)} {ok : List String} (hall : (ok.all fun n => (tbl.map (·.1)).contains n) = true)
    {n : String} (h : n ∈ ok) : memberOf tbl n := by
  have := List.all_eq_true.mp hall n h
  simpa [memberOf] using this

theorem ok_lineMarking {n : String} (h : memberOf lineMarking n) : acceptsV "lineMarking" (enumValue lineMarking n) = true :=
  accepts_member enum_total.1 h
theorem ok_lineMarkingLower {n : String} (h : memberOf lineMarking n) : acceptsV "lineMarking" (lineMarkingLower n) = true :=
  List.all_eq_true.mp enum_total.2.1 n h
theorem ok_laneletType {n : String} (h : memberOf laneletType n) : acceptsV "laneletType" (enumValue laneletType n) = true :=
  accepts_member enum_total.2.2.1 h
theorem ok_roadUser {n : String} (h : memberOf roadUser n) : acceptsV "vehicleType" (enumValue roadUser n) = true :=
  accepts_member enum_total.2.2.2.1 h
theorem ok_lightState {n : String} (h : memberOf trafficLightState n) :
    acceptsV "trafficLightColor" (enumValue trafficLightState n) = true := accepts_member enum_total.2.2.2.2.1 h
theorem ok_lightDirection {n : String} (h : memberOf trafficLightDirection n) :
    acceptsV "trafficLight/direction" (enumValue trafficLightDirection n) = true := accepts_member enum_total.2.2.2.2.2.1 h
theorem ok_timeOfDay {n : String} (h : n ∈ timeOfDayOk) : acceptsV "timeOfDay" (enumValue timeOfDay n) = true :=
  accepts_listed enum_partial.1 (listed_member partial_members.1 h) h
theorem ok_weather {n : String} (h : n ∈ weatherOk) : acceptsV "weather" (enumValue weather n) = true :=
  accepts_listed enum_partial.2.1 (listed_member partial_members.2.1 h) h
theorem ok_underground {n : String} (hm : memberOf underground n) (h : n ∉ undergroundNot) :
    acceptsV "underground" (enumValue underground n) = true := by
  have := List.all_eq_true.mp enum_partial.2.2.1 _ (enumValue_mem hm)
  simp only [beq_iff_eq] at this
  rw [this]; simpa using h
theorem ok_static {n : String} (h : n ∈ staticTypes) : acceptsV "obstacleTypeStatic" (enumValue obstacleType n) = true :=
  accepts_listed enum_partial.2.2.2.1 (listed_member partial_members.2.2 (by simp [h])) h
theorem ok_dynamic {n : String} (h : n ∈ dynamicTypes) : acceptsV "obstacleTypeDynamic" (enumValue obstacleType n) = true :=
  accepts_listed enum_partial.2.2.2.2.1 (listed_member partial_members.2.2 (by simp [h])) h
theorem ok_environment {n : String} (h : n ∈ environmentTypes) : acceptsV "obstacleTypeEnvironment" (enumValue obstacleType n) = true :=
  accepts_listed enum_partial.2.2.2.2.2 (listed_member partial_members.2.2 (by simp [h])) h

/-- tags: the value of a member is an element the `tag` type declares; different members have different values -/
theorem ok_tag {n : String} (h : memberOf tag n) : enumValue tag n ∈ (elemsOf (schema.content "tag")).map (·.name) := by
  have := List.all_eq_true.mp enum_total.2.2.2.2.2.2.1 _ (enumValue_mem h)
  simpa [List.contains_iff_mem] using this

theorem tag_value_inj {a b : String} (ha : memberOf tag a) (hb : memberOf tag b) (h : enumValue tag a = enumValue tag b) : a = b := by
  have h1 := enumValue_mem ha
  have h2 := enumValue_mem hb
  rw [h] at h1
  have := nodup_map_inj tag_values_nodup h1 h2 rfl
  exact (Prod.mk.inj this).1

end CR.C03
