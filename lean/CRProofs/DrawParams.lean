/-
  CRProofs.DrawParams — reading flags from a parameter tree after a top-level window assignment.
-/
import CRModel.DrawParams
import CRProofs.Params
set_option linter.unusedSimpArgs false
namespace CR.Draw
open CR.Params

/-- `f` with the window `[tb, te)` in every group the selection logic reads a window from. -/
def withWindow (f : Flags) (tb te : Int) : Flags :=
  { dyn := { f.dyn with tb := tb, te := te, trajTb := tb, trajTe := te },
    ph := { f.ph with tb := tb, te := te }, tbStatic := tb, tbEnv := tb }

theorem atomBool_window (g : Grp) (hi : g.allInit = true) (atb ate : String) (p : List String) (k : String) (hp1 : "time_begin" ∉ p) (hp2 : "time_end" ∉ p)
    (h1 : k ≠ "time_begin") (h2 : k ≠ "time_end") :
    atomBool ((g.set "time_begin" (.atom atb)).set "time_end" (.atom ate)) (p ++ [k]) = atomBool g (p ++ [k]) := by
  have h := (window_reads g hi p atb ate hp1 hp2).1 k
  simp only [atomBool]
  cases hg : g.at (p ++ [k]) with
  | none =>
    cases hg' : ((g.set "time_begin" (.atom atb)).set "time_end" (.atom ate)).at (p ++ [k]) with
    | none => rfl
    | some y =>
      cases y with
      | atom a => have := (h a h1 h2).1 hg'; simp [hg] at this
      | grp w => rfl
  | some x =>
    cases x with
    | atom a => rw [(h a h1 h2).2 hg]
    | grp w =>
      cases hg' : ((g.set "time_begin" (.atom atb)).set "time_end" (.atom ate)).at (p ++ [k]) with
      | none => rfl
      | some y =>
        cases y with
        | atom a => have := (h a h1 h2).1 hg'; simp [hg] at this
        | grp w => rfl

theorem atomInt_window (g : Grp) (hi : g.allInit = true) (atb ate : String) (p : List String) (k : String) (hp1 : "time_begin" ∉ p) (hp2 : "time_end" ∉ p)
    (h1 : k ≠ "time_begin") (h2 : k ≠ "time_end") :
    atomInt ((g.set "time_begin" (.atom atb)).set "time_end" (.atom ate)) (p ++ [k]) = atomInt g (p ++ [k]) := by
  have h := (window_reads g hi p atb ate hp1 hp2).1 k
  simp only [atomInt]
  cases hg : g.at (p ++ [k]) with
  | none =>
    cases hg' : ((g.set "time_begin" (.atom atb)).set "time_end" (.atom ate)).at (p ++ [k]) with
    | none => rfl
    | some y =>
      cases y with
      | atom a => have := (h a h1 h2).1 hg'; simp [hg] at this
      | grp w => rfl
  | some x =>
    cases x with
    | atom a => rw [(h a h1 h2).2 hg]
    | grp w =>
      cases hg' : ((g.set "time_begin" (.atom atb)).set "time_end" (.atom ate)).at (p ++ [k]) with
      | none => rfl
      | some y =>
        cases y with
        | atom a => have := (h a h1 h2).1 hg'; simp [hg] at this
        | grp w => rfl

theorem atomInt_tb (g : Grp) (hi : g.allInit = true) (atb ate : String) (p : List String) (hp1 : "time_begin" ∉ p) (hp2 : "time_end" ∉ p) (x : Int)
    (h : atomInt g (p ++ ["time_begin"]) = some x) :
    atomInt ((g.set "time_begin" (.atom atb)).set "time_end" (.atom ate)) (p ++ ["time_begin"]) = parseInt atb := by
  cases hg : g.at (p ++ ["time_begin"]) with
  | none => simp [atomInt, hg] at h
  | some y => simp [atomInt, (window_reads g hi p atb ate hp1 hp2).2.1 y hg]

theorem atomInt_te (g : Grp) (hi : g.allInit = true) (atb ate : String) (p : List String) (hp1 : "time_begin" ∉ p) (hp2 : "time_end" ∉ p) (x : Int)
    (h : atomInt g (p ++ ["time_end"]) = some x) :
    atomInt ((g.set "time_begin" (.atom atb)).set "time_end" (.atom ate)) (p ++ ["time_end"]) = parseInt ate := by
  cases hg : g.at (p ++ ["time_end"]) with
  | none => simp [atomInt, hg] at h
  | some y => simp [atomInt, (window_reads g hi p atb ate hp1 hp2).2.2 y hg]

/-- The flags the drawing functions read after `params.time_begin = tb; params.time_end = te` at the top level:
    every window is `[tb, te)`, every other flag is what it was. -/
theorem flagsOf_window (g : Grp) (hi : g.allInit = true) (atb ate : String) (tb te : Int) (f : Flags)
    (htb : parseInt atb = some tb) (hte : parseInt ate = some te) (hf : flagsOf g = some f) :
    flagsOf ((g.set "time_begin" (.atom atb)).set "time_end" (.atom ate)) = some (withWindow f tb te) := by
  simp only [flagsOf, bind, Option.bind_eq_some_iff, pure, Option.some.injEq] at hf
  obtain ⟨x0, h0, x1, h1, x2, h2, x3, h3, x4, h4, x5, h5, x6, h6, x7, h7, x8, h8, x9, h9, x10, h10, x11, h11, x12, h12,
    x13, h13, x14, h14, x15, h15, x16, h16, x17, h17, x18, h18, x19, h19, x20, h20, x21, h21, x22, h22, rfl⟩ := hf
  have nb : ∀ p ∈ [pDyn, pDynTraj, pDynOcc, pDynHist, pDynState, pPh, pPhOcc, pStatic, pEnv],
      "time_begin" ∉ p ∧ "time_end" ∉ p := by decide
  have B := fun p hp k h1 h2 => atomBool_window g hi atb ate p k (nb p hp).1 (nb p hp).2 h1 h2
  have I := fun p hp k h1 h2 => atomInt_window g hi atb ate p k (nb p hp).1 (nb p hp).2 h1 h2
  have Tb := fun p hp x h => atomInt_tb g hi atb ate p (nb p hp).1 (nb p hp).2 x h
  have Te := fun p hp x h => atomInt_te g hi atb ate p (nb p hp).1 (nb p hp).2 x h
  simp only [flagsOf, bind, pure,
    Tb pDyn (by simp) x0 h0, Te pDyn (by simp) x1 h1,
    B pDyn (by simp) "draw_shape" (by decide) (by decide), B pDyn (by simp) "draw_icon" (by decide) (by decide),
    B pDyn (by simp) "draw_direction" (by decide) (by decide), B pDyn (by simp) "draw_signals" (by decide) (by decide),
    B pDynOcc (by simp) "draw_occupancies" (by decide) (by decide),
    B pDynTraj (by simp) "draw_trajectory" (by decide) (by decide),
    B pDynHist (by simp) "draw_history" (by decide) (by decide),
    I pDynHist (by simp) "steps" (by decide) (by decide), I pDynHist (by simp) "step_size" (by decide) (by decide),
    B pDyn (by simp) "draw_initial_state" (by decide) (by decide), B pDyn (by simp) "show_label" (by decide) (by decide),
    B pDynState (by simp) "draw_arrow" (by decide) (by decide),
    Tb pDynTraj (by simp) x14 h14, Te pDynTraj (by simp) x15 h15,
    B pDynTraj (by simp) "draw_continuous" (by decide) (by decide),
    Tb pPh (by simp) x17 h17, Te pPh (by simp) x18 h18,
    B pPh (by simp) "draw_shape" (by decide) (by decide), B pPhOcc (by simp) "draw_occupancies" (by decide) (by decide),
    Tb pStatic (by simp) x21 h21, Tb pEnv (by simp) x22 h22,
    h2, h3, h4, h5, h6, h7, h8, h9, h10, h11, h12, h13, h16, h19, h20, htb, hte, Option.bind_some, withWindow]

end CR.Draw
