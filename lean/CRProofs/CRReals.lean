/-
  CRProofs.CRReals — the real-valued leaves of a document, and what `mapR` does to them: the leaves of `x.mapR m` are the
  leaves of `x`, one for one and in order, each passed through `m.f` (reals written with `float_to_str`) or `m.g` (reals
  written with `decimal_to_str`).  This is how the pointwise bound of CRProofs/DecVal.lean reaches every real of `normDoc`.
-/
import CRProofs.CRNorm
import CRProofs.DecVal

namespace CR.X

theorem flatMap_map_of {α : Type} (l : List α) (r : α → List String) (mp : α → α) (g : String → String)
    (h : ∀ a, a ∈ l → r (mp a) = (r a).map g) : (l.map mp).flatMap r = (l.flatMap r).map g := by
  induction l with
  | nil => rfl
  | cons a t ih =>
    simp only [List.map_cons, List.flatMap_cons, List.map_append, h a (by simp), ih (fun b hb => h b (by simp [hb]))]

def optReals {α : Type} (o : Option α) (r : α → List String) : List String :=
  match o with
  | some a => r a
  | none => []

theorem optReals_map {α : Type} (o : Option α) (r : α → List String) (mp : α → α) (g : String → String)
    (h : ∀ a, o = some a → r (mp a) = (r a).map g) : optReals (o.map mp) r = (optReals o r).map g := by
  cases o with
  | none => rfl
  | some a => exact h a rfl

/-! ## leaves written with float_to_str (F) and with decimal_to_str (G) -/

def Pt.realsF (p : Pt) : List String := p.x :: p.y :: optReals p.z (fun v => [v])

theorem Pt.realsF_mapR (m : RealMaps) (p : Pt) : (p.mapR m).realsF = p.realsF.map m.f := by
  cases p with
  | mk x y z => cases z <;> rfl

def Shape1.realsF : Shape1 → List String
  | .rect _ _ _ c => c.realsF
  | .circ _ c => c.realsF
  | .poly vs => vs.flatMap Pt.realsF

def Shape1.realsG : Shape1 → List String
  | .rect l w o _ => [l, w, o]
  | .circ r _ => [r]
  | .poly _ => []

theorem Shape1.realsF_mapR (m : RealMaps) (s : Shape1) : (s.mapR m).realsF = s.realsF.map m.f := by
  cases s with
  | rect l w o c => exact Pt.realsF_mapR m c
  | circ r c => exact Pt.realsF_mapR m c
  | poly vs => exact flatMap_map_of vs _ _ _ (fun p _ => Pt.realsF_mapR m p)

theorem Shape1.realsG_mapR (m : RealMaps) (s : Shape1) : (s.mapR m).realsG = s.realsG.map m.g := by
  cases s <;> rfl

def Shape.realsF : Shape → List String
  | .one s => s.realsF
  | .group l => l.flatMap Shape1.realsF

def Shape.realsG : Shape → List String
  | .one s => s.realsG
  | .group l => l.flatMap Shape1.realsG

theorem Shape.realsF_mapR (m : RealMaps) (s : Shape) : (s.mapR m).realsF = s.realsF.map m.f := by
  cases s with
  | one s => exact Shape1.realsF_mapR m s
  | group l => exact flatMap_map_of l _ _ _ (fun p _ => Shape1.realsF_mapR m p)

theorem Shape.realsG_mapR (m : RealMaps) (s : Shape) : (s.mapR m).realsG = s.realsG.map m.g := by
  cases s with
  | one s => exact Shape1.realsG_mapR m s
  | group l => exact flatMap_map_of l _ _ _ (fun p _ => Shape1.realsG_mapR m p)

def SVal.realsF : SVal → List String
  | .time _ => []
  | .pos (.point p) => p.realsF
  | .pos (.region s) => s.realsF
  | .pos (.lanelets _) => []
  | .val (.exact v) => [v]
  | .val (.interval a b) => [a, b]

def SVal.realsG : SVal → List String
  | .pos (.region s) => s.realsG
  | _ => []

theorem SVal.realsF_mapR (m : RealMaps) (v : SVal) : (v.mapR m).realsF = v.realsF.map m.f := by
  cases v with
  | time t => rfl
  | val v => cases v <;> rfl
  | pos p =>
    cases p with
    | point p => exact Pt.realsF_mapR m p
    | region s => exact Shape.realsF_mapR m s
    | lanelets ids => rfl

theorem SVal.realsG_mapR (m : RealMaps) (v : SVal) : (v.mapR m).realsG = v.realsG.map m.g := by
  cases v with
  | time t => rfl
  | val v => rfl
  | pos p =>
    cases p with
    | point p => rfl
    | region s => exact Shape.realsG_mapR m s
    | lanelets ids => rfl

def State.realsF (s : State) : List String := s.fields.flatMap (fun f => f.2.realsF)
def State.realsG (s : State) : List String := s.fields.flatMap (fun f => f.2.realsG)

theorem State.realsF_mapR (m : RealMaps) (s : State) : (s.mapR m).realsF = s.realsF.map m.f :=
  flatMap_map_of s.fields _ _ _ (fun f _ => SVal.realsF_mapR m f.2)

theorem State.realsG_mapR (m : RealMaps) (s : State) : (s.mapR m).realsG = s.realsG.map m.g :=
  flatMap_map_of s.fields _ _ _ (fun f _ => SVal.realsG_mapR m f.2)

def Occupancy.realsF (o : Occupancy) : List String := o.shape.realsF
def Occupancy.realsG (o : Occupancy) : List String := o.shape.realsG

def Prediction.realsF : Prediction → List String
  | .none => []
  | .traj l => l.flatMap State.realsF
  | .occ l => l.flatMap Occupancy.realsF

def Prediction.realsG : Prediction → List String
  | .none => []
  | .traj l => l.flatMap State.realsG
  | .occ l => l.flatMap Occupancy.realsG

theorem Prediction.realsF_mapR (m : RealMaps) (p : Prediction) : (p.mapR m).realsF = p.realsF.map m.f := by
  cases p with
  | none => rfl
  | traj l => exact flatMap_map_of l _ _ _ (fun s _ => State.realsF_mapR m s)
  | occ l => exact flatMap_map_of l _ _ _ (fun o _ => Shape.realsF_mapR m o.shape)

theorem Prediction.realsG_mapR (m : RealMaps) (p : Prediction) : (p.mapR m).realsG = p.realsG.map m.g := by
  cases p with
  | none => rfl
  | traj l => exact flatMap_map_of l _ _ _ (fun s _ => State.realsG_mapR m s)
  | occ l => exact flatMap_map_of l _ _ _ (fun o _ => Shape.realsG_mapR m o.shape)

def StaticObs.realsF (o : StaticObs) : List String := o.shape.realsF ++ o.init.realsF
def StaticObs.realsG (o : StaticObs) : List String := o.shape.realsG ++ o.init.realsG
def DynObs.realsF (o : DynObs) : List String := o.shape.realsF ++ o.init.realsF ++ o.pred.realsF
def DynObs.realsG (o : DynObs) : List String := o.shape.realsG ++ o.init.realsG ++ o.pred.realsG
def EnvObs.realsF (o : EnvObs) : List String := o.shape.realsF
def EnvObs.realsG (o : EnvObs) : List String := o.shape.realsG
def PhantomObs.realsF (o : PhantomObs) : List String := optReals o.occ (fun l => l.flatMap Occupancy.realsF)
def PhantomObs.realsG (o : PhantomObs) : List String := optReals o.occ (fun l => l.flatMap Occupancy.realsG)

theorem StaticObs.realsF_mapR (m : RealMaps) (o : StaticObs) : (o.mapR m).realsF = o.realsF.map m.f := by
  simp only [StaticObs.realsF, StaticObs.mapR, List.map_append, Shape.realsF_mapR, State.realsF_mapR]
theorem StaticObs.realsG_mapR (m : RealMaps) (o : StaticObs) : (o.mapR m).realsG = o.realsG.map m.g := by
  simp only [StaticObs.realsG, StaticObs.mapR, List.map_append, Shape.realsG_mapR, State.realsG_mapR]
theorem DynObs.realsF_mapR (m : RealMaps) (o : DynObs) : (o.mapR m).realsF = o.realsF.map m.f := by
  simp only [DynObs.realsF, DynObs.mapR, List.map_append, Shape.realsF_mapR, State.realsF_mapR, Prediction.realsF_mapR]
theorem DynObs.realsG_mapR (m : RealMaps) (o : DynObs) : (o.mapR m).realsG = o.realsG.map m.g := by
  simp only [DynObs.realsG, DynObs.mapR, List.map_append, Shape.realsG_mapR, State.realsG_mapR, Prediction.realsG_mapR]
theorem EnvObs.realsF_mapR (m : RealMaps) (o : EnvObs) : (o.mapR m).realsF = o.realsF.map m.f := Shape.realsF_mapR m o.shape
theorem EnvObs.realsG_mapR (m : RealMaps) (o : EnvObs) : (o.mapR m).realsG = o.realsG.map m.g := Shape.realsG_mapR m o.shape
theorem PhantomObs.realsF_mapR (m : RealMaps) (o : PhantomObs) : (o.mapR m).realsF = o.realsF.map m.f :=
  optReals_map o.occ _ _ _ (fun l _ => flatMap_map_of l _ _ _ (fun oc _ => Shape.realsF_mapR m oc.shape))
theorem PhantomObs.realsG_mapR (m : RealMaps) (o : PhantomObs) : (o.mapR m).realsG = o.realsG.map m.g :=
  optReals_map o.occ _ _ _ (fun l _ => flatMap_map_of l _ _ _ (fun oc _ => Shape.realsG_mapR m oc.shape))

def StopLine.realsF (s : StopLine) : List String := optReals s.pts (fun pq => pq.1.realsF ++ pq.2.realsF)

theorem StopLine.realsF_mapR (m : RealMaps) (s : StopLine) : (s.mapR m).realsF = s.realsF.map m.f :=
  optReals_map s.pts _ _ _ (fun pq _ => by simp only [List.map_append, Pt.realsF_mapR])

def Lanelet.realsF (l : Lanelet) : List String :=
  l.left.pts.flatMap Pt.realsF ++ l.right.pts.flatMap Pt.realsF ++ optReals l.stop StopLine.realsF

theorem Lanelet.realsF_mapR (m : RealMaps) (l : Lanelet) : (l.mapR m).realsF = l.realsF.map m.f := by
  simp only [Lanelet.realsF, Lanelet.mapR, Bound.mapR, List.map_append]
  rw [flatMap_map_of l.left.pts _ _ _ (fun p _ => Pt.realsF_mapR m p), flatMap_map_of l.right.pts _ _ _ (fun p _ => Pt.realsF_mapR m p),
    optReals_map l.stop _ _ _ (fun s _ => StopLine.realsF_mapR m s)]

def Sign.realsF (s : Sign) : List String := optReals s.position Pt.realsF
def Light.realsF (l : Light) : List String := optReals l.position Pt.realsF

theorem Sign.realsF_mapR (m : RealMaps) (s : Sign) : (s.mapR m).realsF = s.realsF.map m.f :=
  optReals_map s.position _ _ _ (fun p _ => Pt.realsF_mapR m p)
theorem Light.realsF_mapR (m : RealMaps) (l : Light) : (l.mapR m).realsF = l.realsF.map m.f :=
  optReals_map l.position _ _ _ (fun p _ => Pt.realsF_mapR m p)

def PlanningProblem.realsF (p : PlanningProblem) : List String := p.init.realsF ++ p.goals.flatMap State.realsF
def PlanningProblem.realsG (p : PlanningProblem) : List String := p.init.realsG ++ p.goals.flatMap State.realsG

theorem PlanningProblem.realsF_mapR (m : RealMaps) (p : PlanningProblem) : (p.mapR m).realsF = p.realsF.map m.f := by
  simp only [PlanningProblem.realsF, PlanningProblem.mapR, List.map_append, State.realsF_mapR]
  rw [flatMap_map_of p.goals _ _ _ (fun s _ => State.realsF_mapR m s)]
theorem PlanningProblem.realsG_mapR (m : RealMaps) (p : PlanningProblem) : (p.mapR m).realsG = p.realsG.map m.g := by
  simp only [PlanningProblem.realsG, PlanningProblem.mapR, List.map_append, State.realsG_mapR]
  rw [flatMap_map_of p.goals _ _ _ (fun s _ => State.realsG_mapR m s)]

/-- every real of the body that the writer formats with `float_to_str`, in document order per collection -/
def Doc.realsF (d : Doc) : List String :=
  d.lanelets.flatMap Lanelet.realsF ++ d.signs.flatMap Sign.realsF ++ d.lights.flatMap Light.realsF ++ d.statics.flatMap StaticObs.realsF ++
    d.dynamics.flatMap DynObs.realsF ++ d.phantoms.flatMap PhantomObs.realsF ++ d.envs.flatMap EnvObs.realsF ++
    d.problems.flatMap PlanningProblem.realsF

/-- every real of the body that the writer formats with `decimal_to_str` (rectangle length / width / orientation, circle radius) -/
def Doc.realsG (d : Doc) : List String :=
  d.statics.flatMap StaticObs.realsG ++ d.dynamics.flatMap DynObs.realsG ++ d.phantoms.flatMap PhantomObs.realsG ++
    d.envs.flatMap EnvObs.realsG ++ d.problems.flatMap PlanningProblem.realsG

theorem Doc.realsF_mapR (m : RealMaps) (d : Doc) : (d.mapR m).realsF = d.realsF.map m.f := by
  simp only [Doc.realsF, Doc.mapR, List.map_append]
  rw [flatMap_map_of d.lanelets _ _ _ (fun x _ => Lanelet.realsF_mapR m x), flatMap_map_of d.signs _ _ _ (fun x _ => Sign.realsF_mapR m x),
    flatMap_map_of d.lights _ _ _ (fun x _ => Light.realsF_mapR m x), flatMap_map_of d.statics _ _ _ (fun x _ => StaticObs.realsF_mapR m x),
    flatMap_map_of d.dynamics _ _ _ (fun x _ => DynObs.realsF_mapR m x), flatMap_map_of d.phantoms _ _ _ (fun x _ => PhantomObs.realsF_mapR m x),
    flatMap_map_of d.envs _ _ _ (fun x _ => EnvObs.realsF_mapR m x), flatMap_map_of d.problems _ _ _ (fun x _ => PlanningProblem.realsF_mapR m x)]

theorem Doc.realsG_mapR (m : RealMaps) (d : Doc) : (d.mapR m).realsG = d.realsG.map m.g := by
  simp only [Doc.realsG, Doc.mapR, List.map_append]
  rw [flatMap_map_of d.statics _ _ _ (fun x _ => StaticObs.realsG_mapR m x),
    flatMap_map_of d.dynamics _ _ _ (fun x _ => DynObs.realsG_mapR m x), flatMap_map_of d.phantoms _ _ _ (fun x _ => PhantomObs.realsG_mapR m x),
    flatMap_map_of d.envs _ _ _ (fun x _ => EnvObs.realsG_mapR m x), flatMap_map_of d.problems _ _ _ (fun x _ => PlanningProblem.realsG_mapR m x)]

/-! ## the whole file: header and location reals are written with decimal_to_str -/

def Location.realsG (l : Location) : List String :=
  l.lat :: l.lon :: optReals l.geo (fun g => optReals g.add (fun a => [a.x, a.y, a.rot, a.scaling]))

theorem Location.realsG_mapR (m : RealMaps) (l : Location) : (l.mapR m).realsG = l.realsG.map m.g := by
  cases l with
  | mk i la lo geo env =>
    cases geo with
    | none => rfl
    | some g =>
      cases g with
      | mk r add => cases add <;> rfl

def File.realsF (f : File) : List String := f.body.realsF
def File.realsG (f : File) : List String := f.header.dt :: optReals f.location Location.realsG ++ f.body.realsG

theorem File.realsF_mapR (m : RealMaps) (f : File) : (f.mapR m).realsF = f.realsF.map m.f := Doc.realsF_mapR m f.body

theorem File.realsG_mapR (m : RealMaps) (f : File) : (f.mapR m).realsG = f.realsG.map m.g := by
  simp only [File.realsG, File.mapR, List.map_cons, List.map_append, Doc.realsG_mapR]
  rw [optReals_map f.location _ _ _ (fun l _ => Location.realsG_mapR m l)]

/-! ## lifting a pointwise relation -/

theorem forall₂_map_of {r : String → String → Prop} (l : List String) (g : String → String) (h : ∀ s, s ∈ l → r s (g s)) :
    List.Forall₂ r l (l.map g) := by
  induction l with
  | nil => exact List.Forall₂.nil
  | cons a t ih => exact List.Forall₂.cons (h a (by simp)) (ih (fun s hs => h s (by simp [hs])))

end CR.X
