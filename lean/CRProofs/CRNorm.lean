/-
  CRProofs.CRNorm — what one write → read does to a value, said without codecs:

      norm x  =  mapR ⟨float_to_str, decimal_to_str⟩ (canon x)

  `canon` is the discrete part (what the writer does not write and the reader completes: an adjacent id 0, an empty lanelet
  type set, a stop line without points, `virtual`, the light direction default, a non-positive time offset, a zero centre /
  orientation of a dynamic obstacle's shape, a one-member shape group, the attribute order of a state, the defaults of an
  initial state AND the loss of every attribute of an initial state that `InitialState` does not have: `C01_initial_extra_dropped`);
  `mapR` touches the reals and nothing else.  `canon` is the identity on strictly expressible values.
-/
import CRModel.CRXml
import CRProofs.CRXml
import CRProofs.CRState

namespace CR.X

/-- `f`: reals formatted with `float_to_str`; `g`: reals formatted with `decimal_to_str` -/
structure RealMaps where
  f : String → String
  g : String → String

def realMaps (P : Params) : RealMaps := ⟨floatToStr P, decimalToStr P⟩

/-! ## mapR: the reals, nothing else -/

def Pt.mapR (m : RealMaps) (p : Pt) : Pt := ⟨m.f p.x, m.f p.y, p.z.map m.f⟩

/-- what is left of a point where the writer only writes x and y -/
def Pt.flat (p : Pt) : Pt := ⟨p.x, p.y, none⟩

def Shape1.mapR (m : RealMaps) : Shape1 → Shape1
  | .rect l w o c => .rect (m.g l) (m.g w) (m.g o) (c.mapR m)
  | .circ r c => .circ (m.g r) (c.mapR m)
  | .poly vs => .poly (vs.map (Pt.mapR m))

def Shape.mapR (m : RealMaps) : Shape → Shape
  | .one s => .one (s.mapR m)
  | .group l => .group (l.map (Shape1.mapR m))

def Val.mapR (m : RealMaps) : Val → Val
  | .exact v => .exact (m.f v)
  | .interval a b => .interval (m.f a) (m.f b)

def Pos.mapR (m : RealMaps) : Pos → Pos
  | .point p => .point (p.mapR m)
  | .region s => .region (s.mapR m)
  | .lanelets ids => .lanelets ids

def SVal.mapR (m : RealMaps) : SVal → SVal
  | .time t => .time t
  | .pos p => .pos (p.mapR m)
  | .val v => .val (v.mapR m)

def fieldMapR (m : RealMaps) (f : String × SVal) : String × SVal := (f.1, f.2.mapR m)

def State.mapR (m : RealMaps) (s : State) : State := ⟨s.fields.map (fieldMapR m)⟩

/-! ## canon: shapes -/

def Shape1.canon (dyn : Bool) : Shape1 → Shape1
  | .rect l w o c => .rect l w (if dyn && isZeroRepr o then "0.0" else o) (if dyn && isOrigin c then zeroPt else c.flat)
  | .circ r c => .circ r (if dyn && isOrigin c then zeroPt else c.flat)
  | .poly vs => .poly (vs.map Pt.flat)

def Shape.canon (dyn : Bool) : Shape → Shape
  | .one s => .one (s.canon dyn)
  | .group [s] => .one (s.canon dyn)
  | .group l => .group (l.map (Shape1.canon dyn))

/-- the two facts about the formats that the defaults need: "0.0" is written as "0.0" -/
structure ZeroFixed (m : RealMaps) : Prop where
  f0 : m.f "0.0" = "0.0"
  g0 : m.g "0.0" = "0.0"

theorem floatToStr_zero (P : Params) (h : 1 ≤ P.d) : floatToStr P "0.0" = "0.0" := by
  have he : ("0.0" : String).toList.contains 'e' = false := by decide
  simp only [floatToStr, he, Bool.false_eq_true, ↓reduceIte]
  have ht : ("0.0" : String).toList = ['0', '.', '0'] := by decide
  rw [ht]
  have hs : splitDot ['0', '.', '0'] = [['0'], ['0']] := by decide
  obtain ⟨k, hk⟩ : ∃ k, P.d = k + 1 := ⟨P.d - 1, by omega⟩
  have : truncChars P.d ['0', '.', '0'] = ['0', '.', '0'] := by
    simp [truncChars, hs, hk]
  rw [this]

theorem decimalToStr_zero (P : Params) : decimalToStr P "0.0" = "0.0" := by
  have he : ("0.0" : String).toList.contains 'e' = false := by decide
  have hE : ("0.0" : String).toList.contains 'E' = false := by decide
  simp only [decimalToStr, he, hE, Bool.or_self, Bool.false_eq_true, ↓reduceIte]

theorem realMaps_zeroFixed (P : Params) (h : 1 ≤ P.d) : ZeroFixed (realMaps P) :=
  ⟨floatToStr_zero P h, decimalToStr_zero P⟩

theorem ptE_norm (P : Params) (p : Pt) : (ptE P).norm p = p.flat.mapR (realMaps P) := rfl
theorem pt3E_norm (P : Params) (p : Pt) : (pt3E P).norm p = p.mapR (realMaps P) := rfl

theorem zeroPt_mapR (m : RealMaps) (h : ZeroFixed m) : zeroPt.mapR m = zeroPt := by
  simp [Pt.mapR, zeroPt, h.f0]

theorem normShape1_eq (P : Params) (hz : ZeroFixed (realMaps P)) (dyn : Bool) (s : Shape1) :
    normShape1 P dyn s = (s.canon dyn).mapR (realMaps P) := by
  have hf0 : floatToStr P "0.0" = "0.0" := hz.f0
  have hg0 : decimalToStr P "0.0" = "0.0" := hz.g0
  cases s with
  | rect l w o c =>
    simp only [normShape1, rectE, ECodec.ofKids, Codec.pair, Codec.child, ECodec.ofText, Prim.decPlain, orientC, centerC,
      Codec.optChild, Shape1.canon, Shape1.mapR, ptE_norm]
    cases dyn <;> cases h1 : isZeroRepr o <;> cases h2 : isOrigin c <;>
      simp [realMaps, hf0, hg0, Pt.mapR, Pt.flat, zeroPt]
  | circ r c =>
    simp only [normShape1, circE, ECodec.ofKids, Codec.pair, Codec.child, ECodec.ofText, Prim.decPlain, centerC,
      Codec.optChild, Shape1.canon, Shape1.mapR, ptE_norm]
    cases dyn <;> cases h2 : isOrigin c <;> simp [realMaps, hf0, Pt.mapR, Pt.flat, zeroPt]
  | poly vs =>
    simp only [normShape1, polyE, ECodec.ofKids, Codec.many, Shape1.canon, Shape1.mapR, List.map_map]
    rfl

theorem shapeC_norm_eq (P : Params) (hz : ZeroFixed (realMaps P)) (dyn : Bool) (s : Shape) :
    (shapeC P dyn).norm s = (s.canon dyn).mapR (realMaps P) := by
  cases s with
  | one s => simp only [shapeC, Codec.pmap, Shape.canon, Shape.mapR, normShape1_eq P hz]
  | group l =>
    match l with
    | [] => rfl
    | [s] => simp only [shapeC, Codec.pmap, Shape.canon, Shape.mapR, normShape1_eq P hz]
    | s1 :: s2 :: r =>
      simp only [shapeC, Codec.pmap, Shape.canon, Shape.mapR, List.map_map]
      congr 1
      apply List.map_congr_left
      intro s _
      exact normShape1_eq P hz dyn s

/-! ## values, positions, fields, states -/

theorem valC_norm_eq (P : Params) (v : Val) : (valC P).norm v = v.mapR (realMaps P) := by
  cases v <;> rfl

theorem timeC_norm_eq (t : TimeV) : timeC.norm t = t := by
  cases t <;> rfl

def Pos.canon : Pos → Pos
  | .point p => .point p
  | .region s => .region (s.canon false)
  | .lanelets ids => .lanelets ids

def canonField (f : String × SVal) : String × SVal :=
  match f.2 with
  | .pos p => (f.1, .pos p.canon)
  | .time t => (f.1, .time t)
  | .val v => (f.1, .val v)

theorem normField_eq (P : Params) (hz : ZeroFixed (realMaps P)) (f : String × SVal) :
    normField P f = fieldMapR (realMaps P) (canonField f) := by
  obtain ⟨n, v⟩ := f
  cases v with
  | time t => rfl
  | val v => simp only [normField, canonField, fieldMapR, SVal.mapR, valC_norm_eq]
  | pos p =>
    cases p with
    | point p => rfl
    | lanelets ids => rfl
    | region s => simp only [normField, canonField, fieldMapR, SVal.mapR, normPos, Pos.canon, Pos.mapR, shapeC_norm_eq P hz]

theorem lookupField_mapR (m : RealMaps) (a : String) (l : List (String × SVal)) :
    lookupField a (l.map (fieldMapR m)) = (lookupField a l).map (SVal.mapR m) := by
  induction l with
  | nil => rfl
  | cons f r ih =>
    obtain ⟨k, v⟩ := f
    simp only [List.map_cons, fieldMapR, lookupField]
    cases (k == a)
    · simpa [fieldMapR] using ih
    · rfl

theorem classOf_mapR (m : RealMaps) (classes : List (List String)) (l : List (String × SVal)) :
    classOf classes (l.map (fieldMapR m)) = classOf classes l := by
  simp only [classOf, List.length_map, lookupField_mapR, Option.isSome_map]

theorem pick_mapR (m : RealMaps) (l : List (String × SVal)) (a : String) :
    pick (l.map (fieldMapR m)) a = (pick l a).map (fieldMapR m) := by
  simp only [pick, lookupField_mapR]
  cases lookupField a l <;> rfl

/-- class order if a state class matches the populated attributes, the given order otherwise -/
def State.canon (cfg : Cfg) (s : State) : State :=
  let cf := s.fields.map canonField
  match classOf cfg.classes cf with
  | some C => ⟨C.filterMap (pick cf)⟩
  | none => ⟨cf⟩

theorem normFields_eq (P : Params) (hz : ZeroFixed (realMaps P)) (fs : List (String × SVal)) :
    fs.map (normField P) = (fs.map canonField).map (fieldMapR (realMaps P)) := by
  rw [List.map_map]
  apply List.map_congr_left
  intro f _
  exact normField_eq P hz f

theorem normState_eq (cfg : Cfg) (hz : ZeroFixed (realMaps cfg.P)) (s : State) :
    normState cfg s = (s.canon cfg).mapR (realMaps cfg.P) := by
  simp only [normState, State.canon, normFields_eq cfg.P hz, classOf_mapR]
  cases hc : classOf cfg.classes (s.fields.map canonField) with
  | none => rfl
  | some C =>
    simp only [State.mapR, List.map_filterMap]
    congr 1
    apply filterMap_congr'
    intro a _
    exact pick_mapR _ _ a

/-- an initial state: exactly the attributes of the first class (`InitialState`), unset ones with their default; every OTHER
    attribute the state carries is dropped (the reader only fills an `InitialState`; `C01_initial_extra_dropped`) -/
def State.canonInitial (cfg : Cfg) (s : State) : State :=
  match cfg.classes with
  | [] => s
  | C :: _ => ⟨C.map (fun a => (a, (lookupField a (s.fields.map canonField)).getD (defaultOf a)))⟩

theorem defaultOf_mapR (m : RealMaps) (hz : ZeroFixed m) (a : String) : (defaultOf a).mapR m = defaultOf a := by
  unfold defaultOf
  split
  · simp [SVal.mapR, Pos.mapR, zeroPt_mapR m hz]
  · simp [SVal.mapR, Val.mapR, hz.f0]

theorem normInitial_eq (cfg : Cfg) (hz : ZeroFixed (realMaps cfg.P)) (hne : cfg.classes ≠ []) (s : State) :
    normInitial cfg s = (s.canonInitial cfg).mapR (realMaps cfg.P) := by
  cases hc : cfg.classes with
  | nil => exact absurd hc hne
  | cons C Cs =>
    simp only [normInitial, State.canonInitial, hc, State.mapR, normFields_eq cfg.P hz]
    congr 1
    refine Eq.trans ?_ (List.map_map (l := C)).symm
    apply List.map_congr_left
    intro a _
    simp only [Function.comp, fieldMapR, lookupField_mapR]
    cases lookupField a (s.fields.map canonField) with
    | none => simp [defaultOf_mapR _ hz]
    | some v => rfl

/-! ## occupancies, predictions, obstacles -/

def Occupancy.mapR (m : RealMaps) (o : Occupancy) : Occupancy := ⟨o.shape.mapR m, o.time⟩
def Occupancy.canon (o : Occupancy) : Occupancy := ⟨o.shape.canon false, o.time⟩

theorem occE_norm_eq (P : Params) (hz : ZeroFixed (realMaps P)) (o : Occupancy) : (occE P).norm o = o.canon.mapR (realMaps P) := by
  show (⟨(shapeC P false).norm o.shape, timeC.norm o.time⟩ : Occupancy) = _
  rw [shapeC_norm_eq P hz, timeC_norm_eq]
  rfl

theorem occs_norm_eq (P : Params) (hz : ZeroFixed (realMaps P)) (l : List Occupancy) :
    l.map (occE P).norm = (l.map Occupancy.canon).map (Occupancy.mapR (realMaps P)) := by
  rw [List.map_map]
  apply List.map_congr_left
  intro o _
  exact occE_norm_eq P hz o

def Prediction.mapR (m : RealMaps) : Prediction → Prediction
  | .none => .none
  | .traj l => .traj (l.map (State.mapR m))
  | .occ l => .occ (l.map (Occupancy.mapR m))

def Prediction.canon (cfg : Cfg) : Prediction → Prediction
  | .none => .none
  | .traj l => .traj (l.map (State.canon cfg))
  | .occ l => .occ (l.map Occupancy.canon)

theorem states_norm_eq (cfg : Cfg) (hz : ZeroFixed (realMaps cfg.P)) (l : List State) :
    l.map (normState cfg) = (l.map (State.canon cfg)).map (State.mapR (realMaps cfg.P)) := by
  rw [List.map_map]
  apply List.map_congr_left
  intro s _
  exact normState_eq cfg hz s

theorem predC_norm_eq (cfg : Cfg) (hz : ZeroFixed (realMaps cfg.P)) (p : Prediction) :
    (predC cfg).norm p = (p.canon cfg).mapR (realMaps cfg.P) := by
  cases p with
  | none => rfl
  | traj l =>
    show Prediction.traj (l.map (normState cfg)) = _
    rw [states_norm_eq cfg hz]
    rfl
  | occ l =>
    show Prediction.occ (l.map (occE cfg.P).norm) = _
    rw [occs_norm_eq cfg.P hz]
    rfl

theorem signalE_norm_eq (sg : Signal) : signalE.norm sg = sg := by
  cases sg with
  | mk t a b c d e f => cases a <;> cases b <;> cases c <;> cases d <;> cases e <;> cases f <;> rfl

theorem seriesC_norm_eq (l : List Signal) : seriesC.norm l = l := by
  cases l with
  | nil => rfl
  | cons a r =>
    simp only [seriesC, Codec.optChild, List.isEmpty_cons, Bool.not_false, ↓reduceIte, ECodec.ofKids, Codec.many]
    have : signalE.norm = id := funext signalE_norm_eq
    rw [this]
    simp

def StaticObs.mapR (m : RealMaps) (o : StaticObs) : StaticObs := ⟨o.id, o.type, o.shape.mapR m, o.init.mapR m⟩
def StaticObs.canon (cfg : Cfg) (o : StaticObs) : StaticObs := ⟨o.id, o.type, o.shape.canon false, o.init.canonInitial cfg⟩

def DynObs.mapR (m : RealMaps) (o : DynObs) : DynObs :=
  ⟨o.id, o.type, o.shape.mapR m, o.init.mapR m, o.initSignal, o.pred.mapR m, o.series⟩
def DynObs.canon (cfg : Cfg) (o : DynObs) : DynObs :=
  ⟨o.id, o.type, o.shape.canon true, o.init.canonInitial cfg, o.initSignal, o.pred.canon cfg, o.series⟩

def EnvObs.mapR (m : RealMaps) (o : EnvObs) : EnvObs := ⟨o.id, o.type, o.shape.mapR m⟩
def EnvObs.canon (o : EnvObs) : EnvObs := ⟨o.id, o.type, o.shape.canon false⟩

def PhantomObs.mapR (m : RealMaps) (o : PhantomObs) : PhantomObs := ⟨o.id, o.occ.map (fun l => l.map (Occupancy.mapR m))⟩
def PhantomObs.canon (o : PhantomObs) : PhantomObs := ⟨o.id, o.occ.map (fun l => l.map Occupancy.canon)⟩

theorem staticObsE_norm_eq (cfg : Cfg) (hz : ZeroFixed (realMaps cfg.P)) (hne : cfg.classes ≠ []) (o : StaticObs) :
    (staticObsE cfg).norm o = (o.canon cfg).mapR (realMaps cfg.P) := by
  show (⟨o.id, o.type, (shapeC cfg.P false).norm o.shape, normInitial cfg o.init⟩ : StaticObs) = _
  rw [shapeC_norm_eq cfg.P hz, normInitial_eq cfg hz hne]
  rfl

theorem dynObsE_norm_eq (cfg : Cfg) (hz : ZeroFixed (realMaps cfg.P)) (hne : cfg.classes ≠ []) (o : DynObs) :
    (dynObsE cfg).norm o = (o.canon cfg).mapR (realMaps cfg.P) := by
  show (⟨o.id, o.type, (shapeC cfg.P true).norm o.shape, normInitial cfg o.init, o.initSignal.map signalE.norm,
    (predC cfg).norm o.pred, seriesC.norm o.series⟩ : DynObs) = _
  rw [shapeC_norm_eq cfg.P hz, normInitial_eq cfg hz hne, predC_norm_eq cfg hz, seriesC_norm_eq]
  have : o.initSignal.map signalE.norm = o.initSignal := by
    cases o.initSignal with
    | none => rfl
    | some sg => simp [signalE_norm_eq]
  rw [this]
  rfl

theorem envObsE_norm_eq (cfg : Cfg) (hz : ZeroFixed (realMaps cfg.P)) (o : EnvObs) :
    (envObsE cfg).norm o = o.canon.mapR (realMaps cfg.P) := by
  show (⟨o.id, o.type, (shapeC cfg.P false).norm o.shape⟩ : EnvObs) = _
  rw [shapeC_norm_eq cfg.P hz]
  rfl

theorem phantomObsE_norm_eq (cfg : Cfg) (hz : ZeroFixed (realMaps cfg.P)) (o : PhantomObs) :
    (phantomObsE cfg).norm o = o.canon.mapR (realMaps cfg.P) := by
  show (⟨o.id, o.occ.map (occSetE cfg.P).norm⟩ : PhantomObs) = _
  simp only [PhantomObs.canon, PhantomObs.mapR, Option.map_map]
  congr 1
  cases o.occ with
  | none => rfl
  | some l =>
    show some (l.map (occE cfg.P).norm) = _
    rw [occs_norm_eq cfg.P hz]
    rfl

/-! ## lanelets -/

def Bound.mapR (m : RealMaps) (b : Bound) : Bound := ⟨b.pts.map (Pt.mapR m), b.marking⟩

def StopLine.mapR (m : RealMaps) (s : StopLine) : StopLine :=
  ⟨s.pts.map (fun pq => (pq.1.mapR m, pq.2.mapR m)), s.marking, s.signRefs, s.lightRefs⟩

/-- the two points of a stop line are written as x, y -/
def StopLine.flat (s : StopLine) : StopLine := ⟨s.pts.map (fun pq => (pq.1.flat, pq.2.flat)), s.marking, s.signRefs, s.lightRefs⟩

def Lanelet.mapR (m : RealMaps) (l : Lanelet) : Lanelet :=
  ⟨l.id, l.left.mapR m, l.right.mapR m, l.pred, l.succ, l.adjL, l.adjR, l.stop.map (StopLine.mapR m), l.types, l.oneWay, l.bidir,
   l.signs, l.lights⟩

/-- `if lanelet.adj_left:` -/
def canonAdj (a : Option Adj) : Option Adj :=
  match a with
  | some v => if v.ref == 0 then none else some v
  | none => none

/-- an adjacent id 0 is dropped, an empty type set becomes {unknown}, a stop line without points gets the end points of the
    bounds -/
def Lanelet.canon (l : Lanelet) : Lanelet :=
  ⟨l.id, l.left, l.right, l.pred, l.succ, canonAdj l.adjL, canonAdj l.adjR,
   (completeStop l.left l.right (l.stop.map StopLine.flat)).getD (l.stop.map StopLine.flat),
   if l.types.isEmpty then ["unknown"] else l.types, l.oneWay, l.bidir, l.signs, l.lights⟩

theorem boundE_norm_eq (P : Params) (b : Bound) : (boundE P).norm b = b.mapR (realMaps P) := by
  show (⟨b.pts.map (pt3E P).norm, if (b.marking != "unknown") = true then b.marking else "unknown"⟩ : Bound) = _
  simp only [Bound.mapR]
  congr 1
  cases h : (b.marking != "unknown")
  · have : b.marking = "unknown" := by simpa using h
    simp [this]
  · rfl

theorem adjC_norm_eq (t : String) (a : Option Adj) : (adjC t).norm a = canonAdj a := by
  cases a with
  | none => rfl
  | some v =>
    show Option.map adjE.norm (if (v.ref == 0) = true then none else some v) = _
    simp only [canonAdj]
    cases (v.ref == 0) <;> rfl

theorem refsC_norm_eq (t : String) (l : List Int) : (refsC t).norm l = l := map_refE_norm l

theorem typesC_norm_eq (l : List String) : typesC.norm l = if l.isEmpty then ["unknown"] else l := by
  show List.map id (if l.isEmpty then ["unknown"] else l) = _
  simp

theorem usersC_norm_eq (t : String) (l : List String) : (usersC t).norm l = l := by
  show List.map id l = l
  simp

theorem stopLineE_norm_eq (P : Params) (s : StopLine) : (stopLineE P).norm s = s.flat.mapR (realMaps P) := by
  cases s with
  | mk pts m a b => cases pts <;> rfl

theorem lastPt_map (m : RealMaps) (l : List Pt) : lastPt (l.map (Pt.mapR m)) = (lastPt l).map (Pt.mapR m) := by
  simp [lastPt, List.getLast?_map]

theorem completeStop_mapR (m : RealMaps) (left right : Bound) (stop : Option StopLine) :
    completeStop (left.mapR m) (right.mapR m) (stop.map (StopLine.mapR m)) =
      (completeStop left right stop).map (fun o => o.map (StopLine.mapR m)) := by
  cases stop with
  | none => rfl
  | some sl =>
    cases hp : sl.pts with
    | some pq => simp [completeStop, StopLine.mapR, hp]
    | none =>
      simp only [Option.map, completeStop, StopLine.mapR, hp, Bound.mapR, lastPt_map]
      cases lastPt left.pts <;> cases lastPt right.pts <;> simp [Option.map, hp]

/-- the codec's own side condition on a lanelet: a stop line without points needs end points to be placed at -/
def Lanelet.Ok (l : Lanelet) : Prop := ∀ sl, l.stop = some sl → sl.pts = none → l.left.pts ≠ [] ∧ l.right.pts ≠ []

theorem completeStop_isSome (l : Lanelet) (h : l.Ok) :
    (completeStop l.left l.right (l.stop.map StopLine.flat)).isSome = true := by
  cases hs : l.stop with
  | none => rfl
  | some sl0 =>
    have hsl : Option.map StopLine.flat (some sl0) = some sl0.flat := rfl
    rw [hsl]
    generalize hsl' : sl0.flat = sl
    cases hp : sl.pts with
    | some pq => simp [completeStop, hp]
    | none =>
      have hp0 : sl0.pts = none := by
        rw [← hsl'] at hp
        cases h0 : sl0.pts with
        | none => rfl
        | some pq => simp [StopLine.flat, h0] at hp
      obtain ⟨hl, hr⟩ := h sl0 hs hp0
      have h1 := getLast?_isSome_of_ne_nil hl
      have h2 := getLast?_isSome_of_ne_nil hr
      simp only [completeStop, hp, lastPt]
      cases e1 : l.left.pts.getLast? with
      | none => rw [e1] at h1; cases h1
      | some a =>
        cases e2 : l.right.pts.getLast? with
        | none => rw [e2] at h2; cases h2
        | some b => rfl

theorem laneletE_norm_eq (P : Params) (l : Lanelet) (h : l.Ok) : (laneletE P).norm l = l.canon.mapR (realMaps P) := by
  show (laneletOfTuple (l.id, (boundE P).norm l.left, (boundE P).norm l.right, (refsC "predecessor").norm l.pred,
    (refsC "successor").norm l.succ, (adjC "adjacentLeft").norm l.adjL, (adjC "adjacentRight").norm l.adjR,
    l.stop.map (stopLineE P).norm, typesC.norm l.types, (usersC "userOneWay").norm l.oneWay, (usersC "userBidirectional").norm l.bidir,
    (refsC "trafficSignRef").norm l.signs, (refsC "trafficLightRef").norm l.lights)).getD l = _
  simp only [boundE_norm_eq, refsC_norm_eq, adjC_norm_eq, typesC_norm_eq, usersC_norm_eq, laneletOfTuple]
  have hst : l.stop.map (stopLineE P).norm = (l.stop.map StopLine.flat).map (StopLine.mapR (realMaps P)) := by
    cases l.stop with
    | none => rfl
    | some sl => simp [stopLineE_norm_eq]
  rw [hst, completeStop_mapR]
  have hs := completeStop_isSome l h
  cases hc : completeStop l.left l.right (l.stop.map StopLine.flat) with
  | none => rw [hc] at hs; cases hs
  | some st => simp [Lanelet.canon, Lanelet.mapR, hc]

/-! ## traffic signs and lights, intersections -/

def SignElement.canon (cfg : Cfg) (e : SignElement) : SignElement := ⟨(Prim.signId cfg.signVals cfg.maxSpeed).norm e.id, e.values⟩

def Sign.mapR (m : RealMaps) (s : Sign) : Sign := ⟨s.id, s.elements, s.position.map (Pt.mapR m), s.virtual⟩

/-- the sign ids go through the country table; `virtual` is never read (known finding) -/
def Sign.canon (cfg : Cfg) (s : Sign) : Sign := ⟨s.id, s.elements.map (SignElement.canon cfg), s.position.map Pt.flat, false⟩

theorem signElementE_norm_eq (cfg : Cfg) (e : SignElement) : (signElementE cfg).norm e = e.canon cfg := by
  show (⟨(Prim.signId cfg.signVals cfg.maxSpeed).norm e.id, List.map id e.values⟩ : SignElement) = _
  simp [SignElement.canon]

theorem signE_norm_eq (cfg : Cfg) (s : Sign) : (signE cfg).norm s = (s.canon cfg).mapR (realMaps cfg.P) := by
  show (⟨s.id, s.elements.map (signElementE cfg).norm, s.position.map (ptE cfg.P).norm, false⟩ : Sign) = _
  have : s.elements.map (signElementE cfg).norm = s.elements.map (SignElement.canon cfg) :=
    List.map_congr_left (fun e _ => signElementE_norm_eq cfg e)
  rw [this]
  simp only [Sign.canon, Sign.mapR, Option.map_map]
  congr 1

def Cycle.canon (c : Cycle) : Cycle := ⟨c.elements, if c.offset > 0 then c.offset else 0⟩

def Light.mapR (m : RealMaps) (l : Light) : Light := ⟨l.id, l.cycle, l.position.map (Pt.mapR m), l.direction, l.active⟩

/-- a non-positive time offset is not written (read: 0); an unknown direction reads as `all` -/
def Light.canon (l : Light) : Light :=
  ⟨l.id, l.cycle.map Cycle.canon, l.position.map Pt.flat, if lightDirections.contains l.direction then l.direction else "all",
   l.active⟩

theorem cycleE_norm_eq (c : Cycle) : cycleE.norm c = c.canon := by
  show (⟨c.elements.map (fun e => (⟨id e.duration, id e.color⟩ : CycleElement)), if decide (c.offset > 0) = true then id c.offset else 0⟩ : Cycle) = _
  simp [Cycle.canon]

theorem lightE_norm_eq (P : Params) (l : Light) : (lightE P).norm l = l.canon.mapR (realMaps P) := by
  show (⟨l.id, l.cycle.map cycleE.norm, l.position.map (ptE P).norm, (Prim.enumDefault lightDirections "all").norm l.direction,
    l.active⟩ : Light) = _
  have : l.cycle.map cycleE.norm = l.cycle.map Cycle.canon := by
    cases l.cycle with
    | none => rfl
    | some c => simp [cycleE_norm_eq]
  rw [this]
  simp only [Light.canon, Light.mapR, Option.map_map]
  congr 1

def Incoming.canon (i : Incoming) : Incoming :=
  ⟨i.id, i.lanelets, i.right, i.straight, i.left, match i.leftOf with
    | some v => if v == 0 then none else some v
    | none => none⟩

def Intersection.canon (i : Intersection) : Intersection := ⟨i.id, i.incomings.map Incoming.canon, i.crossings⟩

theorem leftOfC_norm_eq (o : Option Int) : leftOfC.norm o = (match o with
    | some v => if v == 0 then none else some v
    | none => none) := by
  cases o with
  | none => rfl
  | some v =>
    show (List.map refE.norm (if (v == 0) = true then [] else [v])).getLast? = _
    have hr : refE.norm v = v := rfl
    cases h : (v == 0)
    · have : v ≠ 0 := by simpa using h
      simp [hr, this]
    · have : v = 0 := by simpa using h
      simp [this]

theorem incomingE_norm_eq (i : Incoming) : incomingE.norm i = i.canon := by
  show (⟨i.id, i.lanelets, i.right, i.straight, i.left, leftOfC.norm i.leftOf⟩ : Incoming) = _
  rw [leftOfC_norm_eq]
  rfl

theorem intersectionE_norm_eq (i : Intersection) : intersectionE.norm i = i.canon := by
  show (⟨i.id, i.incomings.map incomingE.norm, i.crossings⟩ : Intersection) = _
  have : i.incomings.map incomingE.norm = i.incomings.map Incoming.canon :=
    List.map_congr_left (fun e _ => incomingE_norm_eq e)
  rw [this]
  rfl

/-! ## planning problems, the document -/

def PlanningProblem.mapR (m : RealMaps) (p : PlanningProblem) : PlanningProblem := ⟨p.id, p.init.mapR m, p.goals.map (State.mapR m)⟩
def PlanningProblem.canon (cfg : Cfg) (p : PlanningProblem) : PlanningProblem :=
  ⟨p.id, p.init.canonInitial cfg, p.goals.map (State.canon cfg)⟩

theorem planningProblemE_norm_eq (cfg : Cfg) (hz : ZeroFixed (realMaps cfg.P)) (hne : cfg.classes ≠ []) (p : PlanningProblem) :
    (planningProblemE cfg).norm p = (p.canon cfg).mapR (realMaps cfg.P) := by
  show (⟨p.id, normInitial cfg p.init, p.goals.map (normState cfg)⟩ : PlanningProblem) = _
  rw [normInitial_eq cfg hz hne, states_norm_eq cfg hz]
  rfl

def Doc.mapR (m : RealMaps) (d : Doc) : Doc :=
  ⟨d.lanelets.map (Lanelet.mapR m), d.signs.map (Sign.mapR m), d.lights.map (Light.mapR m), d.intersections,
   d.statics.map (StaticObs.mapR m), d.dynamics.map (DynObs.mapR m), d.phantoms.map (PhantomObs.mapR m), d.envs.map (EnvObs.mapR m),
   d.problems.map (PlanningProblem.mapR m)⟩

def Doc.canon (cfg : Cfg) (d : Doc) : Doc :=
  ⟨d.lanelets.map Lanelet.canon, d.signs.map (Sign.canon cfg), d.lights.map Light.canon, d.intersections.map Intersection.canon,
   d.statics.map (StaticObs.canon cfg), d.dynamics.map (DynObs.canon cfg), d.phantoms.map PhantomObs.canon, d.envs.map EnvObs.canon,
   d.problems.map (PlanningProblem.canon cfg)⟩

theorem map_eq_map_map {α : Type} (l : List α) (n c r : α → α) (h : ∀ a, a ∈ l → n a = r (c a)) : l.map n = (l.map c).map r := by
  rw [List.map_map]
  exact List.map_congr_left h

/-- **norm = mapR ∘ canon** for the whole document body -/
theorem normDoc_eq (cfg : Cfg) (hd : 1 ≤ cfg.P.d) (hne : cfg.classes ≠ []) (d : Doc) (hl : ∀ l, l ∈ d.lanelets → l.Ok) :
    normDoc cfg d = (d.canon cfg).mapR (realMaps cfg.P) := by
  have hz := realMaps_zeroFixed cfg.P hd
  show (⟨d.lanelets.map (laneletE cfg.P).norm, d.signs.map (signE cfg).norm, d.lights.map (lightE cfg.P).norm,
    d.intersections.map intersectionE.norm, d.statics.map (staticObsE cfg).norm, d.dynamics.map (dynObsE cfg).norm,
    d.phantoms.map (phantomObsE cfg).norm, d.envs.map (envObsE cfg).norm, d.problems.map (planningProblemE cfg).norm⟩ : Doc) = _
  simp only [Doc.canon, Doc.mapR]
  rw [map_eq_map_map d.lanelets _ Lanelet.canon _ (fun l h => laneletE_norm_eq cfg.P l (hl l h)),
    map_eq_map_map d.signs _ (Sign.canon cfg) _ (fun s _ => signE_norm_eq cfg s),
    map_eq_map_map d.lights _ Light.canon _ (fun s _ => lightE_norm_eq cfg.P s),
    List.map_congr_left (fun i _ => intersectionE_norm_eq i),
    map_eq_map_map d.statics _ (StaticObs.canon cfg) _ (fun s _ => staticObsE_norm_eq cfg hz hne s),
    map_eq_map_map d.dynamics _ (DynObs.canon cfg) _ (fun s _ => dynObsE_norm_eq cfg hz hne s),
    map_eq_map_map d.phantoms _ PhantomObs.canon _ (fun s _ => phantomObsE_norm_eq cfg hz s),
    map_eq_map_map d.envs _ EnvObs.canon _ (fun s _ => envObsE_norm_eq cfg hz s),
    map_eq_map_map d.problems _ (PlanningProblem.canon cfg) _ (fun s _ => planningProblemE_norm_eq cfg hz hne s)]

/-! ## canon is the identity on strictly expressible values -/

theorem Pt.flat_id (p : Pt) (h : p.z = none) : p.flat = p := by
  cases p with
  | mk x y z =>
    simp only at h
    simp [Pt.flat, h]

/-- centres and polygon vertices are 2-D (the writer only writes their x and y); for the shape of a dynamic obstacle a zero
    orientation is spelled "0.0" and a centre at the origin is `zeroPt` -/
def Shape1.Strict (dyn : Bool) : Shape1 → Prop
  | .rect _ _ o c => c.z = none ∧ (dyn = true → (isZeroRepr o = true → o = "0.0") ∧ (isOrigin c = true → c = zeroPt))
  | .circ _ c => c.z = none ∧ (dyn = true → (isOrigin c = true → c = zeroPt))
  | .poly vs => ∀ v, v ∈ vs → v.z = none

theorem map_id_of {α : Type} (l : List α) (f : α → α) (h : ∀ a, a ∈ l → f a = a) : l.map f = l := by
  induction l with
  | nil => rfl
  | cons a r ih => simp [h a (by simp), ih (fun b hb => h b (by simp [hb]))]

theorem Shape1.canon_id (dyn : Bool) (s : Shape1) (h : s.Strict dyn) : s.canon dyn = s := by
  cases s with
  | rect l w o c =>
    obtain ⟨hzn, hd⟩ := h
    have hfl := Pt.flat_id c hzn
    cases dyn with
    | false => simp [Shape1.canon, hfl]
    | true =>
      obtain ⟨ho, hc⟩ := hd rfl
      simp only [Shape1.canon, Bool.true_and]
      congr 1
      · cases hz : isZeroRepr o
        · simp
        · simp [ho hz]
      · cases hz : isOrigin c
        · simp [hfl]
        · simp [hc hz]
  | circ r c =>
    obtain ⟨hzn, hd⟩ := h
    have hfl := Pt.flat_id c hzn
    cases dyn with
    | false => simp [Shape1.canon, hfl]
    | true =>
      have hc := hd rfl
      simp only [Shape1.canon, Bool.true_and]
      congr 1
      cases hz : isOrigin c
      · simp [hfl]
      · simp [hc hz]
  | poly vs =>
    simp only [Shape1.canon]
    congr 1
    exact map_id_of _ _ (fun v hv => Pt.flat_id v (h v hv))

/-- a group has at least two members -/
def Shape.Strict (dyn : Bool) : Shape → Prop
  | .one s => s.Strict dyn
  | .group l => 2 ≤ l.length ∧ ∀ s, s ∈ l → s.Strict dyn

theorem Shape.canon_id (dyn : Bool) (s : Shape) (h : s.Strict dyn) : s.canon dyn = s := by
  cases s with
  | one s => simp [Shape.canon, Shape1.canon_id dyn s h]
  | group l =>
    obtain ⟨hlen, hs⟩ := h
    match l, hlen, hs with
    | [], hlen, _ => simp at hlen
    | [s], hlen, _ => simp at hlen
    | s1 :: s2 :: r, _, hs =>
      simp only [Shape.canon]
      congr 1
      exact map_id_of _ _ (fun s hm => Shape1.canon_id dyn s (hs s hm))

def fieldStrict (f : String × SVal) : Prop :=
  match f.2 with
  | .pos (.region s) => s.Strict false
  | _ => True

theorem canonField_id (f : String × SVal) (h : fieldStrict f) : canonField f = f := by
  obtain ⟨n, v⟩ := f
  cases v with
  | time t => rfl
  | val v => rfl
  | pos p =>
    cases p with
    | point p => rfl
    | lanelets ids => rfl
    | region s =>
      have : s.canon false = s := Shape.canon_id false s h
      simp [canonField, Pos.canon, this]

/-- distinct attribute names, listed in the order of the state class they match (if they match one) -/
def State.Strict (cfg : Cfg) (s : State) : Prop :=
  (s.fields.map (fun f => f.1)).Nodup ∧ (∀ f, f ∈ s.fields → fieldStrict f) ∧
    ∀ C, classOf cfg.classes s.fields = some C → s.fields.map (fun f => f.1) = C

theorem State.canon_id (cfg : Cfg) (s : State) (h : s.Strict cfg) : s.canon cfg = s := by
  obtain ⟨fs⟩ := s
  obtain ⟨hnd, hf, hc⟩ := h
  have hcf : fs.map canonField = fs := map_id_of _ _ (fun f hm => canonField_id f (hf f hm))
  simp only [State.canon, hcf]
  cases hco : classOf cfg.classes fs with
  | none => rfl
  | some C =>
    simp only []
    congr 1
    rw [← hc C hco]
    exact pick_all fs hnd

/-- an initial state that sets every attribute of `InitialState`, in that order -/
def State.StrictInitial (cfg : Cfg) (s : State) : Prop :=
  (s.fields.map (fun f => f.1)).Nodup ∧ (∀ f, f ∈ s.fields → fieldStrict f) ∧ ∀ C Cs, cfg.classes = C :: Cs → s.fields.map (fun f => f.1) = C

theorem lookup_all (d : String → SVal) (L : List (String × SVal)) (hnd : (L.map (fun f => f.1)).Nodup) :
    (L.map (fun f => f.1)).map (fun a => (a, (lookupField a L).getD (d a))) = L := by
  induction L with
  | nil => rfl
  | cons f r ih =>
    obtain ⟨k, v⟩ := f
    simp only [List.map_cons, List.nodup_cons] at hnd
    have hk : lookupField k ((k, v) :: r) = some v := by simp [lookupField]
    simp only [List.map_cons, hk, Option.getD_some]
    congr 1
    rw [List.map_map]
    have := ih hnd.2
    rw [List.map_map] at this
    refine Eq.trans (List.map_congr_left ?_) this
    intro f hf
    have hne : k ≠ f.1 := by
      intro e
      apply hnd.1
      rw [e]
      exact List.mem_map_of_mem hf
    simp only [Function.comp, lookupField_cons_ne k f.1 v r hne]

theorem State.canonInitial_id (cfg : Cfg) (s : State) (h : s.StrictInitial cfg) : s.canonInitial cfg = s := by
  obtain ⟨fs⟩ := s
  obtain ⟨hnd, hf, hc⟩ := h
  have hcf : fs.map canonField = fs := map_id_of _ _ (fun f hm => canonField_id f (hf f hm))
  simp only [State.canonInitial, hcf]
  cases hcl : cfg.classes with
  | nil => rfl
  | cons C Cs =>
    simp only []
    congr 1
    rw [← hc C Cs hcl]
    exact lookup_all defaultOf fs hnd

def Occupancy.Strict (o : Occupancy) : Prop := o.shape.Strict false

theorem Occupancy.canon_id (o : Occupancy) (h : o.Strict) : o.canon = o := by
  cases o with
  | mk sh t => simp [Occupancy.canon, Shape.canon_id false sh h]

def Prediction.Strict (cfg : Cfg) : Prediction → Prop
  | .none => True
  | .traj l => ∀ s, s ∈ l → s.Strict cfg
  | .occ l => ∀ o, o ∈ l → o.Strict

theorem Prediction.canon_id (cfg : Cfg) (p : Prediction) (h : p.Strict cfg) : p.canon cfg = p := by
  cases p with
  | none => rfl
  | traj l => simp only [Prediction.canon]; congr 1; exact map_id_of _ _ (fun s hm => State.canon_id cfg s (h s hm))
  | occ l => simp only [Prediction.canon]; congr 1; exact map_id_of _ _ (fun o hm => Occupancy.canon_id o (h o hm))

def StaticObs.Strict (cfg : Cfg) (o : StaticObs) : Prop := o.shape.Strict false ∧ o.init.StrictInitial cfg
def DynObs.Strict (cfg : Cfg) (o : DynObs) : Prop := o.shape.Strict true ∧ o.init.StrictInitial cfg ∧ o.pred.Strict cfg
def EnvObs.Strict (o : EnvObs) : Prop := o.shape.Strict false
def PhantomObs.Strict (o : PhantomObs) : Prop := ∀ l, o.occ = some l → ∀ oc, oc ∈ l → oc.Strict

theorem StaticObs.canon_id (cfg : Cfg) (o : StaticObs) (h : o.Strict cfg) : o.canon cfg = o := by
  cases o with
  | mk id ty sh ini => simp [StaticObs.canon, Shape.canon_id false sh h.1, State.canonInitial_id cfg ini h.2]

theorem DynObs.canon_id (cfg : Cfg) (o : DynObs) (h : o.Strict cfg) : o.canon cfg = o := by
  cases o with
  | mk id ty sh ini isg pr se =>
    simp [DynObs.canon, Shape.canon_id true sh h.1, State.canonInitial_id cfg ini h.2.1, Prediction.canon_id cfg pr h.2.2]

theorem EnvObs.canon_id (o : EnvObs) (h : o.Strict) : o.canon = o := by
  cases o with
  | mk id ty sh => simp [EnvObs.canon, Shape.canon_id false sh h]

theorem PhantomObs.canon_id (o : PhantomObs) (h : o.Strict) : o.canon = o := by
  cases o with
  | mk id oc =>
    cases oc with
    | none => rfl
    | some l =>
      simp only [PhantomObs.canon, Option.map]
      congr 2
      exact map_id_of _ _ (fun x hm => Occupancy.canon_id x (h l rfl x hm))

/-- ids ≥ 1 in the adjacency references, at least one lanelet type, a stop line has its two points -/
def Lanelet.Strict (l : Lanelet) : Prop :=
  (∀ a, l.adjL = some a → a.ref ≠ 0) ∧ (∀ a, l.adjR = some a → a.ref ≠ 0) ∧ l.types ≠ [] ∧
    (∀ s, l.stop = some s → ∃ a b, s.pts = some (a, b) ∧ a.z = none ∧ b.z = none)

theorem canonAdj_id (a : Option Adj) (h : ∀ v, a = some v → v.ref ≠ 0) : canonAdj a = a := by
  cases a with
  | none => rfl
  | some v =>
    have : (v.ref == 0) = false := by simpa using h v rfl
    simp [canonAdj, this]

theorem Lanelet.Strict.ok {l : Lanelet} (h : l.Strict) : l.Ok := by
  intro sl hs hp
  obtain ⟨a, b, hab, _⟩ := h.2.2.2 sl hs
  rw [hab] at hp
  cases hp

theorem Lanelet.canon_id (l : Lanelet) (h : l.Strict) : l.canon = l := by
  obtain ⟨h1, h2, h3, h4⟩ := h
  cases l with
  | mk id left right pred succ adjL adjR stop types oneWay bidir signs lights =>
    simp only at h1 h2 h3 h4
    have ht : types.isEmpty = false := by
      cases types with
      | nil => exact absurd rfl h3
      | cons a r => rfl
    have hfl : stop.map StopLine.flat = stop := by
      cases stop with
      | none => rfl
      | some sl =>
        obtain ⟨a, b, hab, ha, hb⟩ := h4 sl rfl
        cases sl with
        | mk pts m sr lr =>
          simp only at hab
          simp [StopLine.flat, hab, Pt.flat_id a ha, Pt.flat_id b hb]
    have hs : (completeStop left right stop).getD stop = stop := by
      cases stop with
      | none => rfl
      | some sl =>
        obtain ⟨a, b, hab, _⟩ := h4 sl rfl
        simp [completeStop, hab]
    simp [Lanelet.canon, canonAdj_id adjL h1, canonAdj_id adjR h2, ht, hfl, hs]

/-- ids known to the country table ("274" only where it is the country's MAX_SPEED); `virtual` False (known finding) -/
def Sign.Strict (cfg : Cfg) (s : Sign) : Prop :=
  s.virtual = false ∧ (∀ p, s.position = some p → p.z = none) ∧
    ∀ e, e ∈ s.elements → cfg.signVals.contains e.id = true ∧ (e.id = "274" → cfg.maxSpeed = some "274")

theorem Sign.canon_id (cfg : Cfg) (s : Sign) (h : s.Strict cfg) : s.canon cfg = s := by
  cases s with
  | mk id els pos v =>
    obtain ⟨hv, hp, he⟩ := h
    simp only at hv hp he
    have hpos : pos.map Pt.flat = pos := by
      cases pos with
      | none => rfl
      | some q => simp [Pt.flat_id q (hp q rfl)]
    simp only [Sign.canon, hv, hpos]
    congr 1
    apply map_id_of
    intro e hm
    obtain ⟨hc, h274⟩ := he e hm
    cases e with
    | mk eid vals =>
      simp only [SignElement.canon, Prim.signId]
      congr 1
      cases hb : (eid == "274")
      · have hc' : eid ∈ cfg.signVals := by simpa using hc
        simp [hc']
      · have : eid = "274" := by simpa using hb
        simp [h274 this, this]

/-- time offset ≥ 0, a direction of the enumeration -/
def Light.Strict (l : Light) : Prop :=
  lightDirections.contains l.direction = true ∧ (∀ p, l.position = some p → p.z = none) ∧ ∀ c, l.cycle = some c → 0 ≤ c.offset

theorem Light.canon_id (l : Light) (h : l.Strict) : l.canon = l := by
  cases l with
  | mk id cyc pos dir act =>
    obtain ⟨hd, hp, hc⟩ := h
    simp only at hd hp hc
    have hpos : pos.map Pt.flat = pos := by
      cases pos with
      | none => rfl
      | some q => simp [Pt.flat_id q (hp q rfl)]
    simp only [Light.canon, hd, hpos, ↓reduceIte]
    congr 1
    cases cyc with
    | none => rfl
    | some c =>
      have h0 := hc c rfl
      cases c with
      | mk els off =>
        simp only [Option.map, Cycle.canon]
        congr 2
        simp only at h0
        split
        · rfl
        · omega

def Intersection.Strict (i : Intersection) : Prop := ∀ inc, inc ∈ i.incomings → inc.leftOf ≠ some 0

theorem Intersection.canon_id (i : Intersection) (h : i.Strict) : i.canon = i := by
  cases i with
  | mk id incs cr =>
    simp only [Intersection.canon]
    congr 1
    apply map_id_of
    intro inc hm
    have := h inc hm
    cases inc with
    | mk iid a b c d lo =>
      simp only [Incoming.canon]
      congr 1
      cases lo with
      | none => rfl
      | some v =>
        have hv : v ≠ 0 := by
          intro e
          apply this
          simp [e]
        have : (v == 0) = false := by simpa using hv
        simp [this]

def PlanningProblem.Strict (cfg : Cfg) (p : PlanningProblem) : Prop := p.init.StrictInitial cfg ∧ ∀ g, g ∈ p.goals → g.Strict cfg

theorem PlanningProblem.canon_id (cfg : Cfg) (p : PlanningProblem) (h : p.Strict cfg) : p.canon cfg = p := by
  cases p with
  | mk id ini goals =>
    simp only [PlanningProblem.canon, State.canonInitial_id cfg ini h.1]
    congr 1
    exact map_id_of _ _ (fun g hm => State.canon_id cfg g (h.2 g hm))

/-- the strictly expressible documents: everything `canon` would rewrite is already in its written / read form -/
structure Doc.Strict (cfg : Cfg) (d : Doc) : Prop where
  lanelets : ∀ l, l ∈ d.lanelets → l.Strict
  signs : ∀ s, s ∈ d.signs → s.Strict cfg
  lights : ∀ l, l ∈ d.lights → l.Strict
  intersections : ∀ i, i ∈ d.intersections → i.Strict
  statics : ∀ o, o ∈ d.statics → o.Strict cfg
  dynamics : ∀ o, o ∈ d.dynamics → o.Strict cfg
  phantoms : ∀ o, o ∈ d.phantoms → o.Strict
  envs : ∀ o, o ∈ d.envs → o.Strict
  problems : ∀ p, p ∈ d.problems → p.Strict cfg

theorem Doc.canon_id (cfg : Cfg) (d : Doc) (h : d.Strict cfg) : d.canon cfg = d := by
  cases d with
  | mk a b c e f g i j k =>
    simp only [Doc.canon]
    rw [map_id_of a _ (fun x hm => Lanelet.canon_id x (h.lanelets x hm)),
      map_id_of b _ (fun x hm => Sign.canon_id cfg x (h.signs x hm)),
      map_id_of c _ (fun x hm => Light.canon_id x (h.lights x hm)),
      map_id_of e _ (fun x hm => Intersection.canon_id x (h.intersections x hm)),
      map_id_of f _ (fun x hm => StaticObs.canon_id cfg x (h.statics x hm)),
      map_id_of g _ (fun x hm => DynObs.canon_id cfg x (h.dynamics x hm)),
      map_id_of i _ (fun x hm => PhantomObs.canon_id x (h.phantoms x hm)),
      map_id_of j _ (fun x hm => EnvObs.canon_id x (h.envs x hm)),
      map_id_of k _ (fun x hm => PlanningProblem.canon_id cfg x (h.problems x hm))]

/-! ## the whole file -/

def AddTransformation.mapR (m : RealMaps) (a : AddTransformation) : AddTransformation := ⟨m.g a.x, m.g a.y, m.g a.rot, m.g a.scaling⟩
def GeoTransformation.mapR (m : RealMaps) (g : GeoTransformation) : GeoTransformation := ⟨g.ref, g.add.map (AddTransformation.mapR m)⟩
def Location.mapR (m : RealMaps) (l : Location) : Location := ⟨l.geoNameId, m.g l.lat, m.g l.lon, l.geo.map (GeoTransformation.mapR m), l.env⟩

def File.mapR (m : RealMaps) (f : File) : File :=
  ⟨⟨m.g f.header.dt, f.header.author, f.header.affiliation, f.header.source, f.header.benchmarkId⟩, f.location.map (Location.mapR m),
   f.tags, f.body.mapR m⟩

/-- no location ↦ the default location; the tags in the order of the `Tag` enumeration, once each -/
def File.canon (fc : FileCfg) (f : File) : File :=
  ⟨f.header, some (f.location.getD defaultLocation), allTags.filter (fun t => f.tags.contains t),
   f.body.canon (fc.cfgFor f.header.benchmarkId)⟩

theorem locationE_norm_eq (P : Params) (l : Location) : (locationE P).norm l = l.mapR (realMaps P) := by
  show (⟨l.geoNameId, decimalToStr P l.lat, decimalToStr P l.lon, l.geo.map (geoE P).norm, l.env.map envE.norm⟩ : Location) = _
  have hg : l.geo.map (geoE P).norm = l.geo.map (GeoTransformation.mapR (realMaps P)) := by
    cases l.geo <;> rfl
  have he : l.env.map envE.norm = l.env := by
    cases l.env with
    | none => rfl
    | some e => cases e; rfl
  rw [hg, he]
  rfl

theorem normFile_eq (fc : FileCfg) (hd : 1 ≤ fc.P.d) (hne : fc.classes ≠ []) (f : File) (hl : ∀ l, l ∈ f.body.lanelets → l.Ok) :
    normFile fc f = (f.canon fc).mapR (realMaps fc.P) := by
  have hb := normDoc_eq (fc.cfgFor f.header.benchmarkId) hd hne f.body hl
  simp only [normFile, File.canon, File.mapR]
  congr 1
  · show (locationC fc.P).norm f.location = _
    cases f.location with
    | none => simp [locationC, Codec.iso, Codec.optional, locationE_norm_eq]
    | some l => simp [locationC, Codec.iso, Codec.optional, locationE_norm_eq]

/-- a location is given, the tags are listed in enumeration order -/
structure File.Strict (fc : FileCfg) (f : File) : Prop where
  location : f.location.isSome
  tags : allTags.filter (fun t => f.tags.contains t) = f.tags
  body : f.body.Strict (fc.cfgFor f.header.benchmarkId)

theorem File.canon_id (fc : FileCfg) (f : File) (h : f.Strict fc) : f.canon fc = f := by
  cases f with
  | mk hdr loc tags body =>
    have h1 := h.location
    have h2 := h.tags
    have h3 := Doc.canon_id _ _ h.body
    simp only at h1 h2 h3
    cases loc with
    | none => cases h1
    | some l =>
      simp only [File.canon, Option.getD_some, h3]
      rw [h2]

end CR.X
