/-
  CRProofs.XsdDocE — C03, the identity constraints: xs:key (ids unique) and xs:keyref (every @ref resolves), generically
  over element trees and for the document tree the modelled writer builds.
-/
import CRProofs.XsdDocR

namespace CR.Xsd

theorem nodupInt_iff : ∀ {l : List Int}, nodupInt l = true ↔ l.Nodup
  | [] => by simp [nodupInt]
  | x :: xs => by simp [nodupInt, nodupInt_iff (l := xs), List.nodup_cons]

/-- **keys_ok, generic**: if the elements the key selector selects carry exactly the ids `ids` (as integers), the ids are
    pairwise different, and every `@ref` below the root has the integer value of one of them, then the schema's xs:key and
    xs:keyref constraints hold. -/
theorem keys_refs_ok (S : Schema) (root : Xml) (ids : List Int)
    (hk : keyValues { S with keyPaths := S.keyPaths.eraseDups } root = ids.map some) (hnd : ids.Nodup)
    (hr : ∀ v ∈ refsOfList S.refField root.kids, ∃ i ∈ ids, intValue v.toList = some i) :
    keysOk S root = true ∧ refsOk S root = true := by
  have hfm : (ids.map some).filterMap id = ids := by
    induction ids with
    | nil => rfl
    | cons x xs ih => simp
  constructor
  · unfold keysOk
    simp only [hk, hfm, Bool.and_eq_true]
    exact ⟨by simp, nodupInt_iff.mpr hnd⟩
  · unfold refsOk
    simp only [hk, hfm]
    rw [List.all_eq_true]
    intro v hv
    obtain ⟨i, hi, hiv⟩ := hr v hv
    rw [hiv]; simpa using hi

end CR.Xsd

namespace CR.C03
open CR.Xsd CR.XmlNum CR.XmlW

/-! ### the keyed elements of the document tree -/

theorem keyPaths_eq : schema.keyPaths.eraseDups =
    [["lanelet"], ["trafficSign"], ["trafficLight"], ["intersection"], ["staticObstacle"], ["dynamicObstacle"],
     ["phantomObstacle"], ["environmentObstacle"], ["planningProblem"], ["intersection", "incoming"]] := by decide

theorem filter_fam {α} (f : α → Xml) (m n : String) (h : ∀ y, (f y).name = m) (l : List α) :
    (l.map f).filter (fun x => x.name == n) = if m = n then l.map f else [] := by
  induction l with
  | nil => simp
  | cons y ys ih =>
    simp only [List.map_cons, List.filter_cons, h y, ih]
    by_cases hmn : m = n
    · simp [hmn]
    · have : (m == n) = false := by simpa using hmn
      simp [hmn, this]

theorem filter_one (x : Xml) (m n : String) (h : x.name = m) : [x].filter (fun y => y.name == n) = if m = n then [x] else [] := by
  simp only [List.filter_cons, h, List.filter_nil]
  by_cases hmn : m = n
  · simp [hmn]
  · have : (m == n) = false := by simpa using hmn
    simp [hmn, this]

/-- the children of the root named `n` -/
theorem root_filter (d : DocD) (n : String) :
    (docNode d).kids.filter (fun x => x.name == n) =
      (if "location" = n then [locationNode d.location] else []) ++ (if "scenarioTags" = n then [tagsNode d.tags] else []) ++
      (if "lanelet" = n then d.lanelets.map (laneletNode d.precision) else []) ++
      (if "trafficSign" = n then d.signs.map (signNode d.precision) else []) ++
      (if "trafficLight" = n then d.lights.map (lightNode d.precision) else []) ++
      (if "intersection" = n then d.intersections.map intersectionNode else []) ++
      (if "staticObstacle" = n then d.statics.map (staticNode d.precision) else []) ++
      (if "dynamicObstacle" = n then d.dynamics.map (dynNode d.precision) else []) ++
      (if "phantomObstacle" = n then d.phantoms.map (phantomNode d.precision) else []) ++
      (if "environmentObstacle" = n then d.envs.map (envObsNode d.precision) else []) ++
      (if "planningProblem" = n then d.problems.map (problemNode d.precision) else []) := by
  simp only [docNode, Xml.kids, docFamilies, List.flatten_cons, List.flatten_nil, List.append_nil, List.filter_append,
    filter_one _ _ n (rfl : (locationNode d.location).name = "location"),
    filter_one _ _ n (rfl : (tagsNode d.tags).name = "scenarioTags"),
    filter_fam (laneletNode d.precision) "lanelet" n (fun _ => rfl), filter_fam (signNode d.precision) "trafficSign" n (fun _ => rfl),
    filter_fam (lightNode d.precision) "trafficLight" n (fun _ => rfl), filter_fam intersectionNode "intersection" n (fun _ => rfl),
    filter_fam (staticNode d.precision) "staticObstacle" n (fun _ => rfl),
    filter_fam (dynNode d.precision) "dynamicObstacle" n (fun _ => rfl),
    filter_fam (phantomNode d.precision) "phantomObstacle" n (fun _ => rfl),
    filter_fam (envObsNode d.precision) "environmentObstacle" n (fun _ => rfl),
    filter_fam (problemNode d.precision) "planningProblem" n (fun _ => rfl), List.append_assoc]
  rfl

/-- key value of an element that carries `id="i"` -/
theorem keyval_id (n : String) (i : Int) (kids : List Xml) :
    (attrOf (.node n (idAttr i) [] kids) "id").bind (fun v => intValue v.toList) = some i := by
  simp [attrOf, Xml.attrs, idAttr, String.toList_ofList, intValue_intStr]

theorem keyvals_map {α} (f : α → Xml) (g : α → Int)
    (h : ∀ y, (attrOf (f y) "id").bind (fun v => intValue v.toList) = some (g y)) (l : List α) :
    (l.map f).map (fun x => (attrOf x "id").bind (fun v => intValue v.toList)) = (l.map g).map some := by
  induction l with
  | nil => rfl
  | cons y ys ih => simp [h y, ih]

theorem incoming_filter (x : IntersectionD) :
    (intersectionNode x).kids.filter (fun y => y.name == "incoming") = x.incomings.map incomingNode := by
  simp only [intersectionNode, Xml.kids, List.filter_append, filter_fam incomingNode "incoming" "incoming" (fun _ => rfl)]
  have : (crossingNodes x.crossings).filter (fun y => y.name == "incoming") = [] := by
    unfold crossingNodes; split
    · rfl
    · simp [el, Xml.name]
  simp [this]

theorem flatMap_filter {α} (l : List α) (f : α → List Xml) (p : Xml → Bool) :
    (l.flatMap f).filter p = l.flatMap (fun a => (f a).filter p) := by
  induction l with
  | nil => rfl
  | cons a as ih => simp [List.flatMap_cons, List.filter_append, ih]

/-- the key selector of the schema selects exactly the elements carrying `docIds d`, with those integer values -/
theorem doc_keyValues (d : DocD) :
    keyValues { schema with keyPaths := schema.keyPaths.eraseDups } (docNode d) = (docIds d).map some := by
  have kf : schema.keyField = "id" := by decide
  unfold keyValues keyNodes
  simp only [keyPaths_eq, kf, List.flatMap_cons, List.flatMap_nil, List.append_nil, selectPath, root_filter, String.reduceEq,
    reduceIte, List.nil_append]
  have k1 : ∀ l : LaneletD, (attrOf (laneletNode d.precision l) "id").bind (fun v => intValue v.toList) = some l.id :=
    fun _ => keyval_id _ _ _
  have k2 : ∀ l : SignD, (attrOf (signNode d.precision l) "id").bind (fun v => intValue v.toList) = some l.id :=
    fun _ => keyval_id _ _ _
  have k3 : ∀ l : LightD, (attrOf (lightNode d.precision l) "id").bind (fun v => intValue v.toList) = some l.id :=
    fun _ => keyval_id _ _ _
  have k4 : ∀ l : IntersectionD, (attrOf (intersectionNode l) "id").bind (fun v => intValue v.toList) = some l.id :=
    fun _ => keyval_id _ _ _
  have k5 : ∀ l : StaticObs, (attrOf (staticNode d.precision l) "id").bind (fun v => intValue v.toList) = some l.id :=
    fun _ => keyval_id _ _ _
  have k6 : ∀ l : DynObs, (attrOf (dynNode d.precision l) "id").bind (fun v => intValue v.toList) = some l.id :=
    fun _ => keyval_id _ _ _
  have k7 : ∀ l : PhantomObs, (attrOf (phantomNode d.precision l) "id").bind (fun v => intValue v.toList) = some l.id :=
    fun _ => keyval_id _ _ _
  have k8 : ∀ l : EnvObs, (attrOf (envObsNode d.precision l) "id").bind (fun v => intValue v.toList) = some l.id :=
    fun _ => keyval_id _ _ _
  have k9 : ∀ l : ProblemD, (attrOf (problemNode d.precision l) "id").bind (fun v => intValue v.toList) = some l.id :=
    fun _ => keyval_id _ _ _
  have k10 : ∀ l : IncomingD, (attrOf (incomingNode l) "id").bind (fun v => intValue v.toList) = some l.id :=
    fun _ => keyval_id _ _ _
  simp only [flatMap_filter, List.map_append, List.map_flatMap, List.map_map, Function.comp_def, docIds, List.append_assoc,
    k1, k2, k3, k4, k5, k6, k7, k8, k9, List.flatMap_map, incoming_filter, k10]

/-- **keys_ok for the written document**: unique ids and resolvable references give the schema's key / keyref constraints -/
theorem doc_keys_refs_ok (d : DocD) (hnd : (docIds d).Nodup)
    (hrefs : ∀ v ∈ refsOfList "ref" (docNode d).kids, ∃ i ∈ docIds d, intValue v.toList = some i) :
    keysOk schema (docNode d) = true ∧ refsOk schema (docNode d) = true :=
  keys_refs_ok schema (docNode d) (docIds d) (doc_keyValues d) hnd (by
    have : schema.refField = "ref" := by decide
    rw [this]; exact hrefs)

/-- **valid_doc**: the document the modelled writer produces from a schema-expressible scenario with unique ids and
    resolvable references is valid against the schema — content models, attributes, every leaf, xs:key and xs:keyref. -/
theorem valid_doc (d : DocD) (h : DocOk d) (hnd : (docIds d).Nodup)
    (hrefs : ∀ v ∈ refsOfList "ref" (docNode d).kids, ∃ i ∈ docIds d, intValue v.toList = some i) :
    validDoc schema (docNode d) = true := by
  have hv := valid_docNode h
  obtain ⟨hk, hr⟩ := doc_keys_refs_ok d hnd hrefs
  have hn : schema.rootName = "commonRoad" := by decide
  have hrt : schema.rootType = "/commonRoad" := by decide
  unfold validDoc
  rw [hrt, hv, hk, hr, hn]
  simp [docNode, Xml.name]

end CR.C03
