/-
  CRProofs.XsdDocR — C03 whole-document validity: the root element `commonRoad` (header attributes, then the families of parts
  B, C and D in the schema's order).
-/
import CRProofs.XsdDocB
import CRProofs.XsdDocC
import CRProofs.XsdDocD

namespace CR.C03
open CR.Xsd CR.XmlNum CR.XmlW

/-! ### the root element -/

def rootDecl : List AttrP := match schema.lookup "/commonRoad" with | some (.complex d _ _) => d | _ => []

theorem lk_root : schema.lookup "/commonRoad" = some (.complex rootDecl false (schema.content "/commonRoad")) := by decide

theorem header_ok {d : DocD} (h : HeaderOk d) : attrsOk schema rootDecl (headerAttrs d) = true := by
  obtain ⟨hdt, hdate⟩ := h
  have hver : acceptsV "/commonRoad/@commonRoadVersion" CR.Py.Gen.scenarioVersion = true := enum_total.2.2.2.2.2.2.2.2
  have hd : rootDecl =
      [{ name := "commonRoadVersion", type := "/commonRoad/@commonRoadVersion", required := true },
       { name := "benchmarkID", type := "xs:string", required := true },
       { name := "date", type := "xs:date", required := true },
       { name := "author", type := "xs:string", required := true },
       { name := "affiliation", type := "xs:string", required := true },
       { name := "source", type := "xs:string", required := true },
       { name := "timeStepSize", type := "xs:decimal", required := true }] := by decide
  have s1 : simpleOf schema "xs:string" = some { base := .string } := by decide
  have s2 : simpleOf schema "xs:date" = some { base := .date } := by decide
  have s3 : simpleOf schema "xs:decimal" = some { base := .decimal } := by decide
  have hdec := decimal_accepts hdt.dec
  have hstr : ∀ v : String, ({ base := .string } : Simple).accepts v.toList = true := by intro v; simp [Simple.accepts]
  have hdt' : ({ base := .date } : Simple).accepts d.date.toList = true := by simp [Simple.accepts, hdate]
  unfold acceptsV at hver
  rw [hd]
  cases h4 : simpleOf schema "/commonRoad/@commonRoadVersion" with
  | none => rw [h4] at hver; simp at hver
  | some st =>
    rw [h4] at hver
    simp only at hver
    simp [attrsOk, headerAttrs, s1, s2, s3, h4, hver, hstr, hdt', hdec, String.toList_ofList]

/-- the whole element tree is valid against the root type — every element, attribute and leaf -/
theorem valid_docNode {d : DocD} (h : DocOk d) : validNode schema "/commonRoad" (docNode d) = true := by
  obtain ⟨hh, hloc, htags, hlne, hlan, hsig, hlig, hint, hsta, hdyn, hpha, henv, hpne, hpro⟩ := h
  have he : elemsOf (schema.content "/commonRoad") =
      [{ name := "location", type := "location", min := 1, max := some 1 },
       { name := "scenarioTags", type := "tag", min := 1, max := some 1 },
       { name := "lanelet", type := "lanelet", min := 1, max := none },
       { name := "trafficSign", type := "trafficSign", min := 0, max := none },
       { name := "trafficLight", type := "trafficLight", min := 0, max := none },
       { name := "intersection", type := "intersection", min := 0, max := none },
       { name := "staticObstacle", type := "staticObstacle", min := 0, max := none },
       { name := "dynamicObstacle", type := "dynamicObstacle", min := 0, max := none },
       { name := "phantomObstacle", type := "phantomObstacle", min := 0, max := none },
       { name := "environmentObstacle", type := "environmentObstacle", min := 0, max := none },
       { name := "planningProblem", type := "planningProblem", min := 1, max := none }] := by decide
  have hf : FamsOk schema (elemsOf (schema.content "/commonRoad")) (docFamilies d) := by
    rw [he]
    refine ⟨fam_one rfl (valid_location hloc), ir_one _ _, fam_one rfl (valid_tags htags), ir_one _ _,
            fam_map (fun l hl => ⟨rfl, valid_lanelet _ (hlan l hl)⟩), ir_ge _ _ 1 ?_,
            fam_map (fun s hs => ⟨rfl, valid_sign _ (hsig s hs)⟩), ir_any _ _ _,
            fam_map (fun l hl => ⟨rfl, valid_light _ (hlig l hl)⟩), ir_any _ _ _,
            fam_map (fun x hx => ⟨rfl, valid_intersection (hint x hx)⟩), ir_any _ _ _,
            fam_map (fun o ho => ⟨rfl, valid_static _ (hsta o ho)⟩), ir_any _ _ _,
            fam_map (fun o ho => ⟨rfl, valid_dynamic _ (hdyn o ho)⟩), ir_any _ _ _,
            fam_map (fun o ho => ⟨rfl, valid_phantom _ (hpha o ho)⟩), ir_any _ _ _,
            fam_map (fun o ho => ⟨rfl, valid_envObs _ (henv o ho)⟩), ir_any _ _ _,
            fam_map (fun q hq => ⟨rfl, valid_problem _ (hpro q hq)⟩), ir_ge _ _ 1 ?_, trivial⟩
    · cases hq : d.lanelets with
      | nil => exact absurd hq hlne
      | cons _ _ => simp
    · cases hq : d.problems with
      | nil => exact absurd hq hpne
      | cons _ _ => simp
  exact seq_assembly lk_root (by decide) "commonRoad" (headerAttrs d) (header_ok hh) (docFamilies d) hf (by simp [docFamilies])

end CR.C03
