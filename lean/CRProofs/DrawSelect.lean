/-
  CRProofs.DrawSelect — lemmas about the selection model `CR.Draw` (CRModel/DrawSelect.lean).
-/
import CRModel.DrawSelect
set_option linter.unusedSimpArgs false
namespace CR.Draw

theorem mem_pyRange (a b t : Int) : t ∈ pyRange a b ↔ a ≤ t ∧ t < b := by
  simp only [pyRange, List.mem_map, List.mem_range]
  constructor
  · rintro ⟨i, hi, rfl⟩; omega
  · rintro ⟨h1, h2⟩
    exact ⟨(t - a).toNat, by omega, by omega⟩

theorem pyRange_empty (a b : Int) (h : b ≤ a) : pyRange a b = [] := by
  have : (b - a).toNat = 0 := by omega
  simp [pyRange, this]

/-- A flatMap over a range whose every element is rejected emits nothing. -/
theorem flatMap_occ_nil (s : TSet) (a b : Int) (h : ∀ t, a ≤ t → t < b → s.mem t = false) :
    (pyRange a b).flatMap (fun t => if s.mem t then [Item.occ t] else []) = [] := by
  rw [List.flatMap_eq_nil_iff]
  intro t ht
  have := (mem_pyRange a b t).1 ht
  simp [h t this.1 this.2]

/-- An obstacle as commonroad-io builds it, seen through `occupancy_at_time` (obstacle.py:419-426, 612-625,
    797-811, 954-961): static and environment obstacles have an occupancy at every step; a dynamic obstacle has
    none before its initial time step, only the initial one without a prediction, and none after the final
    time step of its prediction. -/
def Obst.WF (o : Obst) : Prop :=
  match o.role with
  | .static => o.occ.all = true
  | .env => o.occ.all = true
  | .phantom => True
  | .dynamic => ∀ t, o.occ.mem t = true →
      o.initTs ≤ t ∧ (o.pred.isNone = true → t = o.initTs) ∧ (o.pred.isNone = false → t ≤ o.pred.final)

/-- If the early returns of `draw_dynamic_obstacle` fire for a well-formed obstacle and a window,
    the obstacle has no occupancy anywhere in `[time_begin, time_end)`. -/
theorem hidden_no_occ (f : DynFlags) (o : Obst) (hr : o.role = .dynamic) (hw : o.WF)
    (hh : dynHidden f o = true) : ∀ t, f.tb ≤ t → t < f.te → o.occ.mem t = false := by
  intro t h1 h2
  cases hm : o.occ.mem t with
  | false => rfl
  | true =>
    exfalso
    simp only [Obst.WF, hr] at hw
    obtain ⟨w1, w2, w3⟩ := hw t hm
    simp only [dynHidden, Bool.or_eq_true, Bool.and_eq_true, decide_eq_true_eq, Bool.not_eq_true'] at hh
    rcases hh with (⟨hn, hlt⟩ | hgt) | (⟨hn, hlt⟩ | hgt)
    · have := w2 hn; omega
    · omega
    · have := w3 hn; omega
    · omega

/-- … and none at `time_begin` itself even for the degenerate window `time_begin = time_end`. -/
theorem hidden_no_occ_tb (f : DynFlags) (o : Obst) (hr : o.role = .dynamic) (hw : o.WF) (hwin : f.tb ≤ f.te)
    (hh : dynHidden f o = true) : o.occ.mem f.tb = false := by
  cases hm : o.occ.mem f.tb with
  | false => rfl
  | true =>
    exfalso
    simp only [Obst.WF, hr] at hw
    obtain ⟨w1, w2, w3⟩ := hw f.tb hm
    simp only [dynHidden, Bool.or_eq_true, Bool.and_eq_true, decide_eq_true_eq, Bool.not_eq_true'] at hh
    rcases hh with (⟨hn, hlt⟩ | hgt) | (⟨hn, hlt⟩ | hgt)
    · have := w2 hn; omega
    · omega
    · have := w3 hn; omega
    · omega

/-! ### the checked layer computes the same items and never fails on readable obstacles -/

@[simp] theorem anchorC_eq (s : StateInfo) : anchorC s = .ok (anchorSel s) := by
  cases h : s.uncPos <;> simp [anchorC, anchorSel, h, centerOf, indexXY, bind, Except.bind, pure, Except.pure]

@[simp] theorem midC_eq (b : Bool) : midC b = .ok (midSel b) := by
  cases b <;> simp [midC, midSel, realArg, bind, Except.bind, pure, Except.pure]

theorem trajStateC_eq (o : Obst) (t : Int) (h : o.pred.isTraj = true) :
    trajStateC o t = .ok (if o.stateAt.mem t then some (o.stateInfo t) else none) := by
  simp [trajStateC, h]

theorem dynHiddenC_eq (f : DynFlags) (o : Obst) (h : o.pred ≠ .setbEmpty) :
    dynHiddenC f o = .ok (dynHidden f o) := by
  by_cases h1 : o.initTs < f.tb <;> by_cases h2 : f.te < o.initTs <;> by_cases h2' : o.initTs > f.te <;>
    first
    | omega
    | (cases hp : o.pred with
       | none => simp [dynHiddenC, dynHidden, hp, Pred.isNone, h1, h2, pure, Except.pure, bind, Except.bind]
       | traj fin =>
         simp [dynHiddenC, dynHidden, hp, Pred.isNone, Pred.finalC, Pred.final, h1, h2, pure, Except.pure, bind, Except.bind]
       | setb fin =>
         simp [dynHiddenC, dynHidden, hp, Pred.isNone, Pred.finalC, Pred.final, h1, h2, pure, Except.pure, bind, Except.bind]
       | setbEmpty => exact absurd hp h)

theorem iconBlockC_eq (f : DynFlags) (o : Obst) : iconBlockC f o = .ok (iconBlock f o) := by
  unfold iconBlockC iconBlock
  by_cases h1 : (f.drawIcon && o.iconType && o.pred.isTraj) = true
  · have ht : o.pred.isTraj = true := by simp only [Bool.and_eq_true] at h1; exact h1.2
    simp only [h1, if_true]
    by_cases h2 : o.hasLW = true
    · simp only [h2, if_true]
      by_cases h3 : f.tb = o.initTs
      · simp [h3, pure, Except.pure, bind, Except.bind]
      · by_cases h4 : o.stateAt.mem f.tb = true
        · simp [h3, h4, trajStateC_eq o f.tb ht, pure, Except.pure, bind, Except.bind]
        · simp [h3, h4, trajStateC_eq o f.tb ht, pure, Except.pure, bind, Except.bind]
    · simp [h2, pure, Except.pure]
  · simp only [h1]
    by_cases h2 : f.drawIcon = true <;> simp [h2, pure, Except.pure]

theorem labelStateC_eq (f : DynFlags) (o : Obst) : labelStateC f o = .ok (labelState f o) := by
  unfold labelStateC labelState
  by_cases h0 : f.tb = 0
  · simp [h0, pure, Except.pure]
  · by_cases ht : o.pred.isTraj = true
    · simp [h0, ht, trajStateC_eq o f.tb ht]
    · simp [h0, ht, pure, Except.pure]

theorem stateItemC_eq (f : DynFlags) (s : StateInfo) : stateItemC f s = .ok (stateItem f s) := by
  cases h : f.stateArrow <;> simp [stateItemC, stateItem, h, pure, Except.pure, bind, Except.bind]

theorem occLoopC_eq (o : Obst) : ∀ (l : List Int), occLoopC o l = .ok (l.flatMap
    (fun t => (if o.occ.mem t then [Item.occ t] else []) ++
              (if o.pred.isTraj && o.stateAt.mem t && o.uncAt.mem t then [Item.uncState t] else [])))
  | [] => by simp [occLoopC, pure, Except.pure]
  | t :: ts => by
    have ih := occLoopC_eq o ts
    by_cases ht : o.pred.isTraj = true
    · by_cases h1 : o.occ.mem t = true <;> by_cases h2 : o.stateAt.mem t = true <;> by_cases h3 : o.uncAt.mem t = true <;>
        simp [occLoopC, ih, ht, h1, h2, h3, trajStateC_eq o t ht, occAtC, Obst.stateInfo, pure, Except.pure, bind, Except.bind]
    · by_cases h1 : o.occ.mem t = true <;>
        simp [occLoopC, ih, ht, h1, occAtC, pure, Except.pure, bind, Except.bind]

/-- The partial-read version of `draw_dynamic_obstacle` emits exactly the items of the total one and does not fail,
    unless the set-based prediction is empty (then `final_time_step` raises). -/
theorem drawDynamicC_eq (f : DynFlags) (o : Obst) (h : o.pred ≠ .setbEmpty) :
    drawDynamicC f o = .ok (drawDynamic f o) := by
  unfold drawDynamicC drawDynamic
  simp only [dynHiddenC_eq f o h, iconBlockC_eq, labelStateC_eq, occLoopC_eq, bind, Except.bind, pure, Except.pure]
  by_cases hh : dynHidden f o = true
  · simp [hh]
  · simp only [hh]
    rcases hib : iconBlock f o with ⟨shape, icon, items⟩
    simp only [Bool.false_eq_true, if_false]
    by_cases ho : o.occ.mem f.tb = true <;> by_cases hd : (f.drawOccupancies || o.pred.isSet) = true <;>
      cases hl : labelState f o <;> by_cases hi : f.drawInitialState = true <;>
      simp [occAtC, ho, hd, hi, stateItemC_eq, bind, Except.bind, pure, Except.pure]

/-- What makes every partial read of the selection logic succeed: no empty set-based prediction (XSD: an
    occupancy set has at least one occupancy) and — `draw_environment_obstacle` does not test for `None` — an
    environment obstacle with an occupancy at every step (`EnvironmentObstacle.occupancy_at_time` always returns one). -/
def Obst.Readable (o : Obst) : Prop :=
  o.pred ≠ .setbEmpty ∧ (o.role = .env → o.occ.all = true)

theorem drawObstacleC_eq (f : Flags) (o : Obst) (h : o.Readable) :
    drawObstacleC f o = .ok (drawObstacle f o) := by
  unfold drawObstacleC drawObstacle
  cases hr : o.role with
  | dynamic => simpa using drawDynamicC_eq f.dyn o h.1
  | static => simp [pure, Except.pure]
  | phantom => simp [pure, Except.pure]
  | env =>
    have := h.2 hr
    simp [drawEnvC, drawEnv, occAtC, TSet.mem, this, deref, bind, Except.bind, pure, Except.pure]

theorem mapM_ok {α β : Type} (g : α → Res β) (g' : α → β) :
    ∀ (l : List α), (∀ a ∈ l, g a = .ok (g' a)) → l.mapM g = .ok (l.map g')
  | [], _ => by simp [pure, Except.pure]
  | a :: l, h => by
    have h1 := h a (by simp)
    have h2 := mapM_ok g g' l (fun b hb => h b (by simp [hb]))
    simp [List.mapM_cons, h1, h2, bind, Except.bind, pure, Except.pure]

theorem lightLabelsGo_ok (showLabel : Bool) : ∀ (ls : List LightInfo) (var : Option String),
    ∃ r, lightLabelsGo showLabel true var ls = .ok r
  | [], _ => ⟨[], by simp [lightLabelsGo, pure, Except.pure]⟩
  | l :: ls, var => by
    unfold lightLabelsGo
    by_cases hp : l.hasPosition = true
    · by_cases ha : l.active = true
      · obtain ⟨r, hr⟩ := lightLabelsGo_ok showLabel ls (some l.state)
        cases showLabel <;> simp [hp, ha, hr, bind, Except.bind, pure, Except.pure]
      · obtain ⟨r, hr⟩ := lightLabelsGo_ok showLabel ls (some "inactive")
        cases showLabel <;> simp [hp, ha, hr, bind, Except.bind, pure, Except.pure]
    · obtain ⟨r, hr⟩ := lightLabelsGo_ok showLabel ls var
      simp [hp, hr]

/-! ### the prescribed occupancies as a predicate on time steps -/

theorem pyRange_pairwise (a b : Int) : (pyRange a b).Pairwise (· < ·) := by
  unfold pyRange
  rw [List.pairwise_map]
  exact (List.pairwise_lt_range).imp (by intro x y h; omega)

theorem occItems_append (l1 l2 : List Item) : occItems (l1 ++ l2) = occItems l1 ++ occItems l2 := by
  simp [occItems]

theorem occItems_flatMap_occ (s : TSet) : ∀ (l : List Int),
    occItems (l.flatMap (fun t => if s.mem t then [Item.occ t] else [])) = l.filter (fun t => s.mem t)
  | [] => by simp [occItems]
  | t :: ts => by
    have ih := occItems_flatMap_occ s ts
    by_cases h : s.mem t = true
    · simp only [List.flatMap_cons, h, if_true, occItems_append, ih, List.filter_cons]; simp [occItems]
    · simp only [List.flatMap_cons, h, occItems_append, ih, List.filter_cons]; simp [occItems]

/-! ### computational form of the prescription (internal: same shape as the drawers; the property theorems use `Prescribed`) -/

/-- "Shape drawing on; icons, signals, trajectories, extra occupancies and history off" for the
    dynamic-obstacle group (direction triangle, state marker and label are further extras, off as well). -/
def DynFlags.plain (f : DynFlags) : Prop :=
  f.drawShape = true ∧ f.drawIcon = false ∧ f.drawDirection = false ∧ f.drawSignals = false ∧
  f.drawOccupancies = false ∧ f.drawTrajectory = false ∧ f.drawHistory = false ∧
  f.drawInitialState = false ∧ f.showLabel = false

def PhFlags.plain (f : PhFlags) : Prop := f.drawShape = true ∧ f.drawOccupancies = false

/-- What the property text prescribes for one obstacle and the window `[tb, te)`:
    its occupancy at `tb` if it has one; for a dynamic obstacle with a set-based prediction also the
    occupancies at the later steps of the window; nothing else. -/
def modelShapes (tb te : Int) (o : Obst) : List Item :=
  (if o.occ.mem tb then [Item.occ tb] else []) ++
  (if o.role = .dynamic ∧ o.pred.isSet = true then
     (pyRange (tb + 1) te).flatMap (fun t => if o.occ.mem t then [Item.occ t] else [])
   else [])

/-- Dynamic obstacles: for every well-formed obstacle with exactly known initial position, every window
    `time_begin ≤ time_end` (before, inside, after the horizon) and plain flags, the patches emitted are
    exactly the prescribed ones — in particular the early returns never hide an occupancy that lies in the
    window and never let one through that lies outside. -/
theorem dynamic_drawn_eq_model (f : DynFlags) (o : Obst) (hr : o.role = .dynamic) (hw : o.WF)
    (hu : o.uncInit = false) (hwin : f.tb ≤ f.te) (hp : f.plain) :
    drawDynamic f o = modelShapes f.tb f.te o := by
  obtain ⟨p1, p2, p3, p4, p5, p6, p7, p8, p9⟩ := hp
  by_cases hh : dynHidden f o = true
  · have h0 := hidden_no_occ_tb f o hr hw hwin hh
    have h1 := hidden_no_occ f o hr hw hh
    have h2 : (pyRange (f.tb + 1) f.te).flatMap (fun t => if o.occ.mem t then [Item.occ t] else []) = [] :=
      flatMap_occ_nil o.occ _ _ (fun t a b => h1 t (by omega) b)
    simp [drawDynamic, hh, modelShapes, h0, h2]
  · simp only [Bool.not_eq_true] at hh
    cases hs : o.pred.isSet with
    | false =>
      cases hl : labelState f o <;>
        simp [drawDynamic, hh, modelShapes, iconBlock, occWithInit, p1, p2, p3, p4, p5, p6, p7, p8, p9, hu, hs, hr, hl]
    | true =>
      have ht : o.pred.isTraj = false := by
        cases hpq : o.pred <;> simp [hpq, Pred.isSet, Pred.isTraj] at hs ⊢
      cases hl : labelState f o <;>
        simp [drawDynamic, hh, modelShapes, iconBlock, occWithInit, p1, p2, p3, p4, p5, p6, p7, p8, p9, hu, hs, hr, ht, hl]

/-- Static obstacles (exactly known position): the occupancy at `time_begin`, which always exists. -/
theorem static_drawn_eq_model (tb te : Int) (o : Obst) (hr : o.role = .static) (hw : o.WF)
    (hu : o.uncInit = false) : drawStatic tb o = modelShapes tb te o := by
  simp only [Obst.WF, hr] at hw
  simp [drawStatic, occWithInit, modelShapes, TSet.mem, hw, hu, hr]

/-- Environment obstacles: the occupancy at `time_begin`, which always exists. -/
theorem env_drawn_eq_model (tb te : Int) (o : Obst) (hr : o.role = .env) (hw : o.WF) :
    drawEnv tb o = modelShapes tb te o := by
  simp only [Obst.WF, hr] at hw
  simp [drawEnv, modelShapes, TSet.mem, hw, hr]

/-- Phantom obstacles: the occupancy at `time_begin` if there is one, nothing otherwise. -/
theorem phantom_drawn_eq_model (f : PhFlags) (o : Obst) (hr : o.role = .phantom) (hp : f.plain) :
    drawPhantom f o = modelShapes f.tb f.te o := by
  obtain ⟨p1, p2⟩ := hp
  simp [drawPhantom, modelShapes, p1, p2, hr]

/-- The parameter groups of all four obstacle roles carry one window `[tb, te)` (what a top-level
    assignment establishes, `C19_window_everywhere`) and plain flags. -/
structure Flags.plainAt (f : Flags) (tb te : Int) : Prop where
  dyn : f.dyn.plain
  ph : f.ph.plain
  dynTb : f.dyn.tb = tb
  dynTe : f.dyn.te = te
  phTb : f.ph.tb = tb
  phTe : f.ph.te = te
  stTb : f.tbStatic = tb
  envTb : f.tbEnv = tb

/-- **drawn_eq_model** for whole scenarios: any number of obstacles of any role in any order, any window
    `tb ≤ te`: per obstacle the emitted patches are exactly the prescribed occupancies. -/
theorem drawn_eq_modelShapes (f : Flags) (tb te : Int) (os : List Obst) (hf : f.plainAt tb te) (hwin : tb ≤ te)
    (hw : ∀ o ∈ os, o.WF) (hu : ∀ o ∈ os, o.uncInit = false) :
    drawScenario f os = os.map (modelShapes tb te) := by
  simp only [drawScenario]
  apply List.map_congr_left
  intro o ho
  have w := hw o ho
  have u := hu o ho
  cases hr : o.role with
  | dynamic =>
    have := dynamic_drawn_eq_model f.dyn o hr w u (by rw [hf.dynTb, hf.dynTe]; exact hwin) hf.dyn
    simpa [drawObstacle, hr, hf.dynTb, hf.dynTe] using this
  | static =>
    have := static_drawn_eq_model f.tbStatic te o hr w u
    simpa [drawObstacle, hr, hf.stTb] using this
  | env =>
    have := env_drawn_eq_model f.tbEnv te o hr w
    simpa [drawObstacle, hr, hf.envTb] using this
  | phantom =>
    have := phantom_drawn_eq_model f.ph o hr hf.ph
    simpa [drawObstacle, hr, hf.phTb, hf.phTe] using this


/-- The flags the property text names: shape drawing on; icons, signals, trajectories, extra occupancies, history off. -/
def DynFlags.asText (f : DynFlags) : Prop :=
  f.drawShape = true ∧ f.drawIcon = false ∧ f.drawSignals = false ∧ f.drawOccupancies = false ∧
  f.drawTrajectory = false ∧ f.drawHistory = false

@[simp] theorem occItems_nil : occItems [] = [] := rfl
@[simp] theorem occItems_occ (t : Int) (l : List Item) : occItems (Item.occ t :: l) = t :: occItems l := by simp [occItems]
@[simp] theorem occItems_uncInit (l : List Item) : occItems (Item.uncInit :: l) = occItems l := by simp [occItems]
@[simp] theorem occItems_dir (l : List Item) : occItems (Item.dir :: l) = occItems l := by simp [occItems]
@[simp] theorem occItems_label (a : Anchor) (l : List Item) : occItems (Item.label a :: l) = occItems l := by simp [occItems]
@[simp] theorem occItems_state (a : Anchor) (x : Option (Mid × Mid)) (l : List Item) :
    occItems (Item.state a x :: l) = occItems l := by simp [occItems]

/-- The occupancy items of `draw_dynamic_obstacle` under the text's flags — whatever direction triangle, state marker,
    label and uncertain initial position add, they are not occupancy items. -/
theorem occItems_drawDynamic (f : DynFlags) (o : Obst) (hr : o.role = .dynamic) (hw : o.WF)
    (hwin : f.tb ≤ f.te) (ht : f.asText) :
    occItems (drawDynamic f o) = occItems (modelShapes f.tb f.te o) := by
  obtain ⟨p1, p2, p4, p5, p6, p7⟩ := ht
  by_cases hh : dynHidden f o = true
  · have h0 := hidden_no_occ_tb f o hr hw hwin hh
    have h1 := hidden_no_occ f o hr hw hh
    have h2 : (pyRange (f.tb + 1) f.te).flatMap (fun t => if o.occ.mem t then [Item.occ t] else []) = [] :=
      flatMap_occ_nil o.occ _ _ (fun t a b => h1 t (by omega) b)
    simp [drawDynamic, hh, modelShapes, h0, h2]
  · simp only [Bool.not_eq_true] at hh
    have hsI : o.pred.isSet = true → o.pred.isTraj = false := by
      intro hs; cases hpq : o.pred <;> simp [hpq, Pred.isSet, Pred.isTraj] at hs ⊢
    cases hs : o.pred.isSet with
    | false =>
      cases hl : labelState f o <;> cases hu : o.uncInit <;> cases hd : f.drawDirection <;>
        cases hre : o.rectAt.mem f.tb <;> cases h8 : f.drawInitialState <;> cases h9 : f.showLabel <;>
        cases hm : o.occ.mem f.tb <;>
        simp [drawDynamic, hh, modelShapes, iconBlock, occWithInit, stateItem, occItems_append,
          p1, p2, p4, p5, p6, p7, hs, hr, hl, hu, hd, hre, h8, h9, hm]
    | true =>
      have ht := hsI hs
      cases hl : labelState f o <;> cases hu : o.uncInit <;> cases hd : f.drawDirection <;>
        cases hre : o.rectAt.mem f.tb <;> cases h8 : f.drawInitialState <;> cases h9 : f.showLabel <;>
        cases hm : o.occ.mem f.tb <;>
        simp [drawDynamic, hh, modelShapes, iconBlock, occWithInit, stateItem, occItems_append,
          p1, p2, p4, p5, p6, p7, hs, hr, ht, hl, hu, hd, hre, h8, h9, hm]

/-- The occupancy steps of the computational prescription: `tb` if defined, then the defined later steps. -/
theorem occItems_modelShapes (tb te : Int) (o : Obst) :
    occItems (modelShapes tb te o) =
      (if o.occ.mem tb then [tb] else []) ++
      (if o.role = .dynamic ∧ o.pred.isSet = true then (pyRange (tb + 1) te).filter (fun t => o.occ.mem t) else []) := by
  unfold modelShapes
  rw [occItems_append]
  congr 1
  · split <;> simp
  · split
    · exact occItems_flatMap_occ o.occ _
    · rfl

/-- Exactly the flags the property text names, for the dynamic- and the phantom-obstacle group, and one window
    `[tb, te)` in the groups of all four obstacle roles (what a top-level assignment establishes,
    `C19_window_reaches_drawing`).  Nothing is assumed about `draw_direction`, `draw_initial_state`, `show_label`. -/
structure Flags.textAt (f : Flags) (tb te : Int) : Prop where
  dyn : f.dyn.asText
  ph : f.ph.plain
  dynTb : f.dyn.tb = tb
  dynTe : f.dyn.te = te
  phTb : f.ph.tb = tb
  phTe : f.ph.te = te
  stTb : f.tbStatic = tb
  envTb : f.tbEnv = tb

theorem occItems_drawObstacle (f : Flags) (tb te : Int) (o : Obst) (hf : f.textAt tb te) (hwin : tb ≤ te) (hw : o.WF) :
    occItems (drawObstacle f o) =
      (if o.occ.mem tb then [tb] else []) ++
      (if o.role = .dynamic ∧ o.pred.isSet = true then (pyRange (tb + 1) te).filter (fun t => o.occ.mem t) else []) := by
  rw [← occItems_modelShapes]
  cases hr : o.role with
  | dynamic =>
    have := occItems_drawDynamic f.dyn o hr hw (by rw [hf.dynTb, hf.dynTe]; exact hwin) hf.dyn
    simpa [drawObstacle, hr, hf.dynTb, hf.dynTe] using this
  | static =>
    simp only [Obst.WF, hr] at hw
    cases hu : o.uncInit <;> simp [drawObstacle, hr, drawStatic, occWithInit, modelShapes, TSet.mem, hw, hu, hf.stTb]
  | env =>
    simp only [Obst.WF, hr] at hw
    simp [drawObstacle, hr, drawEnv, modelShapes, TSet.mem, hw, hf.envTb]
  | phantom =>
    obtain ⟨p1, p2⟩ := hf.ph
    simp [drawObstacle, hr, drawPhantom, modelShapes, p1, p2, hf.phTb]

theorem Flags.plainAt.toText {f : Flags} {tb te : Int} (h : f.plainAt tb te) : f.textAt tb te := by
  obtain ⟨p1, p2, _, p4, p5, p6, p7, _, _⟩ := h.dyn
  exact ⟨⟨p1, p2, p4, p5, p6, p7⟩, h.ph, h.dynTb, h.dynTe, h.phTb, h.phTe, h.stTb, h.envTb⟩

/-! ### histories of renderer operations -/

theorem stateAfter_append : ∀ (o1 o2 : List ROp) (b : Buffers), stateAfter b (o1 ++ o2) = stateAfter (stateAfter b o1) o2
  | [], _, _ => rfl
  | .draw fr :: r, o2, b => by simpa [stateAfter] using stateAfter_append r o2 _
  | .clear k :: r, o2, b => by simpa [stateAfter] using stateAfter_append r o2 _
  | .render k :: r, o2, b => by simpa [stateAfter] using stateAfter_append r o2 _
  | .renderDynamic :: r, o2, b => by simpa [stateAfter] using stateAfter_append r o2 _

theorem runOps_append : ∀ (o1 o2 : List ROp) (b : Buffers),
    runOps b (o1 ++ o2) = runOps b o1 ++ runOps (stateAfter b o1) o2
  | [], _, _ => rfl
  | .draw fr :: r, o2, b => by simpa [runOps, stateAfter] using runOps_append r o2 _
  | .clear k :: r, o2, b => by simpa [runOps, stateAfter] using runOps_append r o2 _
  | .render k :: r, o2, b => by simpa [runOps, stateAfter] using runOps_append r o2 _
  | .renderDynamic :: r, o2, b => by simpa [runOps, stateAfter] using runOps_append r o2 _

theorem stateAfter_draws : ∀ (ds : List Frame) (b : Buffers),
    (stateAfter b (ds.map ROp.draw)).patches = b.patches ++ ds.flatMap (fun fr => drawScenario fr.flags fr.obstacles)
  | [], b => by simp [stateAfter]
  | fr :: ds, b => by
    simp only [List.map_cons, stateAfter, stateAfter_draws ds, Frame.draw, List.flatMap_cons, List.append_assoc]

theorem runOps_draws : ∀ (ds : List Frame) (b : Buffers), runOps b (ds.map ROp.draw) = []
  | [], _ => rfl
  | fr :: ds, b => by simpa [runOps] using runOps_draws ds _

/-! ### what is on the axes -/

/-- every obstacle patch collection on the axes is registered in `dynamic_artists` -/
def Rend.Reg (s : Rend) : Prop := ∀ c ∈ s.axes, s.registered c.1 = true

theorem runAxes_append : ∀ (o1 o2 : List AOp) (s : Rend),
    runAxes s (o1 ++ o2) = runAxes s o1 ++ runAxes (o1.foldl stepA s) o2
  | [], _, _ => rfl
  | op :: r, o2, s => by
    simp only [List.cons_append, runAxes, List.foldl_cons]
    split <;> simp [runAxes_append r o2]

theorem runAxes_draws : ∀ (ds : List Frame) (s : Rend), runAxes s (ds.map AOp.draw) = []
  | [], _ => rfl
  | fr :: ds, s => by simpa [runAxes, AOp.shows] using runAxes_draws ds _

theorem foldl_draws : ∀ (ds : List Frame) (s : Rend),
    ((ds.map AOp.draw).foldl stepA s).axes = s.axes ∧ ((ds.map AOp.draw).foldl stepA s).dyn = s.dyn ∧
    ((ds.map AOp.draw).foldl stepA s).next = s.next ∧
    ((ds.map AOp.draw).foldl stepA s).buf.patches =
      s.buf.patches ++ ds.flatMap (fun fr => drawScenario fr.flags fr.obstacles)
  | [], s => by simp
  | fr :: ds, s => by
    obtain ⟨h1, h2, h3, h4⟩ := foldl_draws ds (stepA s (.draw fr))
    simp only [List.map_cons, List.foldl_cons]
    refine ⟨h1, h2, h3, ?_⟩
    rw [h4]; simp [stepA, Frame.draw, List.append_assoc]

theorem removeDynamic_axes_of_reg (s : Rend) (h : s.Reg) : s.removeDynamic.axes = [] := by
  simp only [Rend.removeDynamic, List.filter_eq_nil_iff]
  intro c hc
  simp [h c hc]

/-- One `update(frame)` of `create_video` on a renderer on whose axes every obstacle patch collection is registered:
    afterwards the axes hold exactly one obstacle patch collection, the one of this frame's draws, and it is registered. -/
theorem videoFrame_spec (ds : List Frame) (s : Rend) (h : s.Reg) :
    runAxes s (videoFrame ds) = [[(s.next, ds.flatMap (fun fr => drawScenario fr.flags fr.obstacles))]] ∧
    ((videoFrame ds).foldl stepA s).Reg := by
  have hax := removeDynamic_axes_of_reg s h
  obtain ⟨d1, d2, d3, d4⟩ := foldl_draws ds ((s.removeDynamic).clear false)
  have e1 : ((s.removeDynamic).clear false).axes = [] := by simpa [Rend.clear] using hax
  have e2 : ((s.removeDynamic).clear false).dyn = [] := rfl
  have e3 : ((s.removeDynamic).clear false).next = s.next := rfl
  have e4 : ((s.removeDynamic).clear false).buf.patches = [] := rfl
  rw [e1] at d1; rw [e2] at d2; rw [e3] at d3; rw [e4, List.nil_append] at d4
  constructor
  · simp only [videoFrame, List.append_assoc, List.cons_append, List.nil_append, runAxes, AOp.shows, stepA,
      Bool.false_eq_true, if_false]
    rw [runAxes_append, runAxes_draws, List.nil_append]
    simp only [runAxes, AOp.shows, if_true, stepA, Rend.renderDynamic, d1, d2, d3, d4, List.foldl_nil, List.nil_append]
  · intro c hc
    simp only [videoFrame, List.append_assoc, List.cons_append, List.nil_append, List.foldl_cons, List.foldl_append,
      List.foldl_nil, stepA, Rend.renderDynamic, d1, d2, d3, d4] at hc ⊢
    simp only [List.mem_singleton] at hc
    subst hc
    simp [Rend.registered]

theorem runAxes_videoFrames : ∀ (frames : List (List Frame)) (s : Rend), s.Reg →
    (runAxes s (frames.flatMap videoFrame)).map (fun ax => ax.map (·.2)) =
      frames.map (fun ds => [ds.flatMap (fun fr => drawScenario fr.flags fr.obstacles)])
  | [], _, _ => rfl
  | ds :: rest, s, h => by
    obtain ⟨h1, h2⟩ := videoFrame_spec ds s h
    rw [List.flatMap_cons, runAxes_append, h1]
    simp only [List.map_cons, List.cons_append, List.nil_append, List.map_nil, List.cons.injEq, true_and]
    exact runAxes_videoFrames rest _ h2

end CR.Draw
