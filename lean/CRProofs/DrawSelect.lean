/-
  CRProofs.DrawSelect — lemmas about the selection model `CR.Draw` (CRModel/DrawSelect.lean).
-/
import CRModel.DrawSelect
namespace CR.Draw

theorem mem_pyRange (a b t : Int) : t ∈ pyRange a b ↔ a ≤ t ∧ t < b := by
  simp only [pyRange, List.mem_map, List.mem_range]
  constructor
  · rintro ⟨i, hi, rfl⟩; omega
  · rintro ⟨h1, h2⟩
    exact ⟨(t - a).toNat, by omega, by omega⟩

theorem pyRange_empty (a b : Int) (h : b ≤ a) : pyRange a b = [] := by
  have : (b - a).toNat = 0 := by omega
  simp [pyRange, this]

/-- A flatMap over a range whose every element is rejected emits nothing. -/
theorem flatMap_occ_nil (s : TSet) (a b : Int) (h : ∀ t, a ≤ t → t < b → s.mem t = false) :
    (pyRange a b).flatMap (fun t => if s.mem t then [Item.occ t] else []) = [] := by
  rw [List.flatMap_eq_nil_iff]
  intro t ht
  have := (mem_pyRange a b t).1 ht
  simp [h t this.1 this.2]

/-- An obstacle as commonroad-io builds it, seen through `occupancy_at_time` (obstacle.py:419-426, 612-625,
    797-811, 954-961): static and environment obstacles have an occupancy at every step; a dynamic obstacle has
    none before its initial time step, only the initial one without a prediction, and none after the final
    time step of its prediction. -/
def Obst.WF (o : Obst) : Prop :=
  match o.role with
  | .static => o.occ.all = true
  | .env => o.occ.all = true
  | .phantom => True
  | .dynamic => ∀ t, o.occ.mem t = true →
      o.initTs ≤ t ∧ (o.pred.isNone = true → t = o.initTs) ∧ (o.pred.isNone = false → t ≤ o.pred.final)

/-- If the early returns of `draw_dynamic_obstacle` fire for a well-formed obstacle and a window,
    the obstacle has no occupancy anywhere in `[time_begin, time_end)`. -/
theorem hidden_no_occ (f : DynFlags) (o : Obst) (hr : o.role = .dynamic) (hw : o.WF)
    (hh : dynHidden f o = true) : ∀ t, f.tb ≤ t → t < f.te → o.occ.mem t = false := by
  intro t h1 h2
  cases hm : o.occ.mem t with
  | false => rfl
  | true =>
    exfalso
    simp only [Obst.WF, hr] at hw
    obtain ⟨w1, w2, w3⟩ := hw t hm
    simp only [dynHidden, Bool.or_eq_true, Bool.and_eq_true, decide_eq_true_eq, Bool.not_eq_true'] at hh
    rcases hh with (⟨hn, hlt⟩ | hgt) | (⟨hn, hlt⟩ | hgt)
    · have := w2 hn; omega
    · omega
    · have := w3 hn; omega
    · omega

/-- … and none at `time_begin` itself even for the degenerate window `time_begin = time_end`. -/
theorem hidden_no_occ_tb (f : DynFlags) (o : Obst) (hr : o.role = .dynamic) (hw : o.WF) (hwin : f.tb ≤ f.te)
    (hh : dynHidden f o = true) : o.occ.mem f.tb = false := by
  cases hm : o.occ.mem f.tb with
  | false => rfl
  | true =>
    exfalso
    simp only [Obst.WF, hr] at hw
    obtain ⟨w1, w2, w3⟩ := hw f.tb hm
    simp only [dynHidden, Bool.or_eq_true, Bool.and_eq_true, decide_eq_true_eq, Bool.not_eq_true'] at hh
    rcases hh with (⟨hn, hlt⟩ | hgt) | (⟨hn, hlt⟩ | hgt)
    · have := w2 hn; omega
    · omega
    · have := w3 hn; omega
    · omega

end CR.Draw
