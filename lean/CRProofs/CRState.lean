/-
  CRProofs.CRState — the hand-written state element codecs (`StateXMLNode` / `StateFactory`) obey the element-codec law.
-/
import CRModel.CRXml
import CRProofs.CRXml

namespace CR.X

/-! ## positions -/

theorem find_none_map {α : Type} (t : String) (f : α → Xml) (l : List α) (h : ∀ a, a ∈ l → (f a).tag ≠ t) :
    find t (l.map f) = none := by
  apply find_none_of_foreign
  intro x hx
  simp only [List.mem_map] at hx
  obtain ⟨a, ha, rfl⟩ := hx
  exact h a ha

theorem find_isSome_map_cons {α : Type} (t : String) (f : α → Xml) (a : α) (l : List α) (h : (f a).tag = t) :
    (find t ((a :: l).map f)).isSome = true :=
  find_isSome_of_mem (x := f a) (by simp) h

theorem encShape1_tag_cases (P : Params) (dyn : Bool) (s : Shape1) :
    (encShape1 P dyn s).tag = "rectangle" ∨ (encShape1 P dyn s).tag = "circle" ∨ (encShape1 P dyn s).tag = "polygon" := by
  cases s
  · exact Or.inl rfl
  · exact Or.inr (Or.inl rfl)
  · exact Or.inr (Or.inr rfl)

theorem encShape1_tag_ne_point (P : Params) (dyn : Bool) (s : Shape1) : (encShape1 P dyn s).tag ≠ "point" := by
  cases s
  · show ("rectangle" : String) ≠ "point"; decide
  · show ("circle" : String) ≠ "point"; decide
  · show ("polygon" : String) ≠ "point"; decide

theorem shapeProbe (P : Params) (s : Shape1) (l : List Shape1) :
    ((find "rectangle" ((s :: l).map (encShape1 P false))).isSome || (find "circle" ((s :: l).map (encShape1 P false))).isSome
      || (find "polygon" ((s :: l).map (encShape1 P false))).isSome) = true := by
  rcases encShape1_tag_cases P false s with h | h | h
  · simp only [find_isSome_map_cons _ _ s l h, Bool.true_or, Bool.or_true]
  · simp only [find_isSome_map_cons _ _ s l h, Bool.true_or, Bool.or_true]
  · simp only [find_isSome_map_cons _ _ s l h, Bool.true_or, Bool.or_true]

theorem decPos_region (P : Params) (goal : Bool) (l : List Shape1) (hne : l ≠ []) (hok : ∀ s, s ∈ l → okShape1 P false s) :
    decPos P goal (l.map (encShape1 P false)) =
      (match l.map (normShape1 P false) with
        | [] => none
        | [s] => some (.region (.one s))
        | l' => some (.region (.group l'))) := by
  cases l with
  | nil => exact absurd rfl hne
  | cons s r =>
    have h0 : find "point" ((s :: r).map (encShape1 P false)) = none :=
      find_none_map _ _ _ (fun a _ => encShape1_tag_ne_point P false a)
    have hm := mapOpt_map (decShape1 P false) (encShape1 P false) (normShape1 P false) (s :: r)
      (fun a ha => decShape1_encShape1 P false a (hok a ha))
    simp only [decPos, h0, shapeProbe P s r, if_true, hm]
    cases r with
    | nil => rfl
    | cons s2 r2 => rfl

theorem decPos_encPos (P : Params) (goal : Bool) (p : Pos) (h : okPos P goal p) :
    decPos P goal (encPos P p) = some (normPos P p) := by
  cases p with
  | point p =>
    have hf : find "point" [(pt3E P).el "point" p] = some ((pt3E P).el "point" p) := find_singleton_self _ _ rfl
    simp only [decPos, encPos, hf, (pt3E_lawful P).rt "point" p h.2, normPos]
  | region s =>
    cases s with
    | one s =>
      have := decPos_region P goal [s] (by simp) (by
        intro s' hs'
        simp only [List.mem_singleton] at hs'
        subst hs'
        exact h.1 s' (by simp))
      simpa [encPos, shapeC, Codec.pmap, Codec.manyOf, normPos] using this
    | group l =>
      have hne : l ≠ [] := h.2
      have := decPos_region P goal l hne (fun s' hs' => h.1 s' hs')
      simp only [encPos, shapeC, Codec.pmap, Codec.manyOf, normPos]
      rw [this]
      match l, hne with
      | [s], _ => rfl
      | s1 :: s2 :: r, _ => rfl
  | lanelets ids =>
    obtain ⟨hg, hne⟩ := h
    subst hg
    cases ids with
    | nil => exact absurd rfl hne
    | cons i r =>
      have h0 : find "point" ((i :: r).map (refE.el "lanelet")) = none :=
        find_none_map _ _ _ (fun _ _ => by show ("lanelet" : String) ≠ "point"; decide)
      have h1 : find "rectangle" ((i :: r).map (refE.el "lanelet")) = none :=
        find_none_map _ _ _ (fun _ _ => by show ("lanelet" : String) ≠ "rectangle"; decide)
      have h2 : find "circle" ((i :: r).map (refE.el "lanelet")) = none :=
        find_none_map _ _ _ (fun _ _ => by show ("lanelet" : String) ≠ "circle"; decide)
      have h3 : find "polygon" ((i :: r).map (refE.el "lanelet")) = none :=
        find_none_map _ _ _ (fun _ _ => by show ("lanelet" : String) ≠ "polygon"; decide)
      have h4 : (find "lanelet" ((i :: r).map (refE.el "lanelet"))).isSome = true := find_isSome_map_cons _ _ i r rfl
      have h5 := mapOpt_map refE.decE (refE.el "lanelet") id (i :: r) (fun a _ => refE_lawful.rt "lanelet" a trivial)
      simp only [decPos, encPos, h0, h1, h2, h3, h4, findAll_map_el, h5, normPos]
      simp

/-! ## one attribute -/

/-- the tag `_fill_state` asks for when it wants attribute `a` -/
def soughtTag (a : String) : String :=
  if a == "position" then "position" else if a == "time_step" then "time" else xmlName a

/-- what `_fill_state` does with the element it found (or not) -/
def readFound (P : Params) (goal : Bool) (a : String) (o : Option Xml) : Option (Option SVal) :=
  match o with
  | none => some none
  | some x =>
    if a == "position" then
      match decPos P goal x.kids with
      | some p => some (some (.pos p))
      | none => none
    else if a == "time_step" then
      match timeC.dec x.kids with
      | some t => some (some (.time t))
      | none => none
    else
      match (valC P).dec x.kids with
      | some v => some (some (.val v))
      | none => none

theorem readAttr_eq (P : Params) (goal : Bool) (kids : List Xml) (a : String) :
    readAttr P goal kids a = readFound P goal a (find (soughtTag a) kids) := by
  unfold readAttr soughtTag readFound
  cases h1 : (a == "position")
  · cases h2 : (a == "time_step")
    · simp only [Bool.false_eq_true, ↓reduceIte]
      cases find (xmlName a) kids <;> rfl
    · simp only [Bool.false_eq_true, ↓reduceIte]
      cases find "time" kids <;> rfl
  · simp only [↓reduceIte]
    cases find "position" kids <;> rfl

theorem soughtTag_eq_xmlName (a : String) : soughtTag a = xmlName a := by
  unfold soughtTag
  by_cases h1 : (a == "position") = true
  · have : a = "position" := by simpa using h1
    subst this
    decide
  · by_cases h2 : (a == "time_step") = true
    · have : a = "time_step" := by simpa using h2
      subst this
      decide
    · simp only [h1, h2]
      rfl

theorem encField_tag (P : Params) (goal : Bool) (f : String × SVal) (h : okField P goal f) :
    (encField P goal f).tag = xmlName f.1 := by
  obtain ⟨n, v⟩ := f
  cases v with
  | pos p =>
    have hn : n = "position" := h.1
    subst hn
    show ("position" : String) = xmlName "position"
    decide
  | time t =>
    have hn : n = "time_step" := h.1
    subst hn
    show ("time" : String) = xmlName "time_step"
    decide
  | val v =>
    have hg : goal = true → xmlNameGoal n = xmlName n := h.2.2.2.2.2.1
    cases goal with
    | false => rfl
    | true =>
      show xmlNameGoal n = xmlName n
      exact hg rfl

theorem okField_admissible (P : Params) (goal : Bool) (f : String × SVal) (h : okField P goal f) :
    propName (xmlName f.1) = f.1 := by
  obtain ⟨n, v⟩ := f
  cases v with
  | pos p =>
    have hn : n = "position" := h.1
    subst hn
    show propName (xmlName "position") = "position"
    decide
  | time t =>
    have hn : n = "time_step" := h.1
    subst hn
    show propName (xmlName "time_step") = "time_step"
    decide
  | val v => exact h.2.2.1

theorem tag_beq (P : Params) (goal : Bool) (f : String × SVal) (h : okField P goal f) (a : String)
    (ha : propName (xmlName a) = a) : hasTag (soughtTag a) (encField P goal f) = (f.1 == a) := by
  unfold hasTag
  rw [encField_tag P goal f h, soughtTag_eq_xmlName]
  cases hb : (f.1 == a)
  · cases hc : (xmlName f.1 == xmlName a)
    · rfl
    · exfalso
      have h1 : xmlName f.1 = xmlName a := by simpa using hc
      have h2 : f.1 = a := by rw [← okField_admissible P goal f h, ← ha, h1]
      rw [h2] at hb
      simp at hb
  · have : f.1 = a := by simpa using hb
    rw [this]
    simp

theorem find_fields (P : Params) (goal : Bool) (fs : List (String × SVal)) (hok : ∀ f, f ∈ fs → okField P goal f) (a : String)
    (ha : propName (xmlName a) = a) :
    find (soughtTag a) (fs.map (encField P goal)) = (fs.find? (fun f => f.1 == a)).map (encField P goal) := by
  induction fs with
  | nil => rfl
  | cons f r ih =>
    have ih' := ih (fun g hg => hok g (by simp [hg]))
    simp only [List.map_cons, find, List.find?_cons, tag_beq P goal f (hok f (by simp)) a ha]
    cases (f.1 == a)
    · exact ih'
    · rfl

theorem lookup_fields (P : Params) (fs : List (String × SVal)) (a : String) :
    lookupField a (fs.map (normField P)) = (fs.find? (fun f => f.1 == a)).map (fun f => (normField P f).2) := by
  induction fs with
  | nil => rfl
  | cons f r ih =>
    obtain ⟨n, v⟩ := f
    have hn : (normField P (n, v)).1 = n := by cases v <;> rfl
    simp only [List.map_cons, List.find?_cons]
    have : lookupField a (normField P (n, v) :: r.map (normField P)) =
        if (normField P (n, v)).1 == a then some (normField P (n, v)).2 else lookupField a (r.map (normField P)) := by
      cases hnf : normField P (n, v) with
      | mk k w => rfl
    rw [this, hn]
    cases (n == a)
    · simpa using ih
    · rfl

theorem readFound_field (P : Params) (goal : Bool) (f : String × SVal) (h : okField P goal f) :
    readFound P goal f.1 (some (encField P goal f)) = some (some (normField P f).2) := by
  obtain ⟨n, v⟩ := f
  cases v with
  | pos p =>
    have hn : n = "position" := h.1
    subst hn
    have := decPos_encPos P goal p h.2
    have e1 : (("position" : String) == "position") = true := by decide
    simp only [readFound, encField, node, normField, e1, this, ↓reduceIte]
  | time t =>
    have hn : n = "time_step" := h.1
    subst hn
    have := timeC_lawful.rt t (by cases t <;> first | trivial | exact ⟨trivial, trivial⟩)
    have hnt : timeC.norm t = t := by cases t <;> rfl
    have e1 : (("time_step" : String) == "position") = false := by decide
    have e2 : (("time_step" : String) == "time_step") = true := by decide
    simp only [readFound, encField, node, normField, e1, e2, this, hnt, Bool.false_eq_true, ↓reduceIte]
  | val v =>
    have h1 : (n == "position") = false := by
      have : n ≠ "position" := h.1
      simpa using this
    have h2 : (n == "time_step") = false := by
      have : n ≠ "time_step" := h.2.1
      simpa using this
    have := (valC_lawful P).rt v h.2.2.2.2.2.2
    have htag : (encField P goal (n, SVal.val v)).kids = (valC P).enc v := by cases goal <;> rfl
    simp only [readFound, h1, h2, htag, this, normField, Bool.false_eq_true, ↓reduceIte]

/-- one iteration of `_fill_state` on a written state: the attribute is there (with its round-tripped value) or not -/
theorem readAttr_fields (P : Params) (goal : Bool) (fs : List (String × SVal)) (hok : ∀ f, f ∈ fs → okField P goal f) (a : String)
    (ha : propName (xmlName a) = a) :
    readAttr P goal (fs.map (encField P goal)) a = some (lookupField a (fs.map (normField P))) := by
  rw [readAttr_eq, find_fields P goal fs hok a ha, lookup_fields]
  cases hf : fs.find? (fun f => f.1 == a) with
  | none => rfl
  | some f =>
    have hmem : f ∈ fs := List.mem_of_find?_eq_some hf
    have hfa : f.1 = a := by
      have := List.find?_some hf
      simpa using this
    simp only [Option.map]
    rw [← hfa]
    exact readFound_field P goal f (hok f hmem)

/-! ## `_fill_state`, the class loop, the fallback -/

/-- every attribute name of every state class survives snake_case → camelCase → snake_case (checked on the real table) -/
def CfgOk (cfg : Cfg) : Prop := ∀ C, C ∈ cfg.classes → ∀ a, a ∈ C → propName (xmlName a) = a

def pick (nf : List (String × SVal)) (a : String) : Option (String × SVal) := (lookupField a nf).map (fun v => (a, v))

theorem fill_fields (P : Params) (goal : Bool) (fs : List (String × SVal)) (hok : ∀ f, f ∈ fs → okField P goal f)
    (attrs : List String) (ha : ∀ a, a ∈ attrs → propName (xmlName a) = a) :
    fill P goal (fs.map (encField P goal)) attrs =
      some (attrs.filterMap (pick (fs.map (normField P))), attrs.all (fun a => (lookupField a (fs.map (normField P))).isSome)) := by
  induction attrs with
  | nil => rfl
  | cons a as ih =>
    have ih' := ih (fun b hb => ha b (by simp [hb]))
    have hr := readAttr_fields P goal fs hok a (ha a (by simp))
    simp only [fill, hr, ih']
    cases hl : lookupField a (fs.map (normField P)) with
    | none => simp [pick, hl]
    | some v => simp [pick, hl]

theorem classOf_cons (C : List String) (Cs : List (List String)) (nf : List (String × SVal)) :
    classOf (C :: Cs) nf = if (C.length == nf.length && C.all (fun a => (lookupField a nf).isSome)) then some C else classOf Cs nf := by
  simp only [classOf, List.find?_cons]
  cases (C.length == nf.length && C.all (fun a => (lookupField a nf).isSome)) <;> rfl

theorem matchClass_fields (P : Params) (goal : Bool) (fs : List (String × SVal)) (hok : ∀ f, f ∈ fs → okField P goal f)
    (classes : List (List String)) (hc : ∀ C, C ∈ classes → ∀ a, a ∈ C → propName (xmlName a) = a) :
    matchClass P goal (fs.map (encField P goal)) classes =
      some ((classOf classes (fs.map (normField P))).map (fun C => C.filterMap (pick (fs.map (normField P))))) := by
  induction classes with
  | nil => rfl
  | cons C Cs ih =>
    have ih' := ih (fun D hD => hc D (by simp [hD]))
    have hf := fill_fields P goal fs hok C (hc C (by simp))
    rw [classOf_cons]
    simp only [matchClass, List.length_map]
    by_cases hlen : C.length = fs.length
    · have h1 : (C.length != fs.length) = false := by simp [hlen]
      have h2 : (C.length == fs.length) = true := by simp [hlen]
      simp only [h1, h2, Bool.true_and, hf, Bool.false_eq_true, ↓reduceIte]
      cases hall : C.all (fun a => (lookupField a (fs.map (normField P))).isSome)
      · simp only [Bool.false_eq_true, ↓reduceIte]
        exact ih'
      · simp
    · have h1 : (C.length != fs.length) = true := by simp [hlen]
      have h2 : (C.length == fs.length) = false := by simp [hlen]
      simp only [h1, h2, Bool.false_and, Bool.false_eq_true, ↓reduceIte]
      exact ih'

theorem normField_fst (P : Params) (f : String × SVal) : (normField P f).1 = f.1 := by
  obtain ⟨n, v⟩ := f
  cases v <;> rfl

theorem tags_to_names (P : Params) (goal : Bool) (fs : List (String × SVal)) (hok : ∀ f, f ∈ fs → okField P goal f) :
    (fs.map (encField P goal)).map (fun x => propName x.tag) = fs.map (fun f => f.1) := by
  rw [List.map_map]
  apply List.map_congr_left
  intro f hf
  simp only [Function.comp]
  rw [encField_tag P goal f (hok f hf), okField_admissible P goal f (hok f hf)]

theorem lookupField_cons_ne (k a : String) (v : SVal) (r : List (String × SVal)) (h : k ≠ a) :
    lookupField a ((k, v) :: r) = lookupField a r := by
  have : (k == a) = false := by simpa using h
  simp [lookupField, this]

theorem filterMap_congr' {α β : Type} {f g : α → Option β} {l : List α} (h : ∀ a, a ∈ l → f a = g a) :
    l.filterMap f = l.filterMap g := by
  induction l with
  | nil => rfl
  | cons a r ih =>
    have ih' := ih (fun b hb => h b (by simp [hb]))
    simp only [List.filterMap_cons, h a (by simp), ih']

theorem pick_all (L : List (String × SVal)) (hnd : (L.map (fun f => f.1)).Nodup) :
    (L.map (fun f => f.1)).filterMap (pick L) = L := by
  induction L with
  | nil => rfl
  | cons f r ih =>
    obtain ⟨k, v⟩ := f
    simp only [List.map_cons, List.nodup_cons] at hnd
    have hhead : pick ((k, v) :: r) k = some (k, v) := by simp [pick, lookupField]
    simp only [List.map_cons, List.filterMap_cons, hhead]
    congr 1
    have : List.filterMap (pick ((k, v) :: r)) (r.map (fun f => f.1)) = List.filterMap (pick r) (r.map (fun f => f.1)) := by
      apply filterMap_congr'
      intro a ha
      have hne : k ≠ a := by
        intro e
        subst e
        exact hnd.1 ha
      simp [pick, lookupField_cons_ne k a v r hne]
    rw [this]
    exact ih hnd.2

theorem decState_encState (cfg : Cfg) (hcfg : CfgOk cfg) (goal : Bool) (s : State) (hok : okState cfg.P goal s) :
    decState cfg goal (encState cfg.P goal s) = some (normState cfg s) := by
  obtain ⟨fs⟩ := s
  obtain ⟨hnd, hf⟩ := hok
  simp only [decState, encState, normState]
  rw [matchClass_fields cfg.P goal fs hf cfg.classes hcfg]
  cases hco : classOf cfg.classes (fs.map (normField cfg.P)) with
  | some C => rfl
  | none =>
    simp only [Option.map]
    rw [tags_to_names cfg.P goal fs hf]
    rw [fill_fields cfg.P goal fs hf (fs.map (fun f => f.1)) (by
      intro a ha
      simp only [List.mem_map] at ha
      obtain ⟨f, hfm, rfl⟩ := ha
      exact okField_admissible cfg.P goal f (hf f hfm))]
    have hkeys : fs.map (fun f => f.1) = (fs.map (normField cfg.P)).map (fun f => f.1) := by
      rw [List.map_map]
      apply List.map_congr_left
      intro f _
      exact (normField_fst cfg.P f).symm
    have hnd' : ((fs.map (normField cfg.P)).map (fun f => f.1)).Nodup := by rw [← hkeys]; exact hnd
    simp only []
    rw [hkeys, pick_all _ hnd']

/-! ## initial states -/

theorem lookup_pick (nf : List (String × SVal)) (L : List String) (a : String) :
    lookupField a (L.filterMap (pick nf)) = if L.contains a then lookupField a nf else none := by
  induction L with
  | nil => rfl
  | cons b r ih =>
    simp only [List.filterMap_cons, List.contains_cons]
    cases hb : (b == a)
    · have hab : (a == b) = false := by
        have : b ≠ a := by simpa using hb
        have : a ≠ b := fun e => this e.symm
        simpa using this
      cases hp : pick nf b with
      | none => simp only [hab, Bool.false_or]; exact ih
      | some q =>
        have hq : q.1 = b := by
          simp only [pick] at hp
          cases hl : lookupField b nf with
          | none => rw [hl] at hp; cases hp
          | some v => rw [hl] at hp; simp at hp; rw [← hp]
        obtain ⟨k, w⟩ := q
        simp only at hq
        subst hq
        simp only [hab, Bool.false_or]
        rw [lookupField_cons_ne k a w _ (by simpa using hb)]
        exact ih
    · have e : b = a := by simpa using hb
      subst e
      simp only [BEq.rfl, Bool.true_or, ↓reduceIte]
      cases hl : lookupField b nf with
      | none =>
        simp only [pick, hl, Option.map]
        rw [ih, hl]
        simp
      | some v =>
        simp [pick, hl, lookupField]

theorem decInitial_encState (cfg : Cfg) (hcfg : CfgOk cfg) (hne : cfg.classes ≠ []) (s : State) (hok : okState cfg.P false s) :
    decInitial cfg (encState cfg.P false s) = some (normInitial cfg s) := by
  obtain ⟨fs⟩ := s
  obtain ⟨_, hf⟩ := hok
  cases hcl : cfg.classes with
  | nil => exact absurd hcl hne
  | cons C Cs =>
    have hC : ∀ a, a ∈ C → propName (xmlName a) = a := hcfg C (by rw [hcl]; simp)
    simp only [decInitial, encState, normInitial, hcl]
    rw [fill_fields cfg.P false fs hf C hC]
    simp only []
    congr 2
    apply List.map_congr_left
    intro a ha
    rw [lookup_pick]
    simp [ha]

/-! ## the three state element codecs are lawful -/

theorem stateLaws (cfg : Cfg) (hcfg : CfgOk cfg) (hne : cfg.classes ≠ []) : StateLaws cfg where
  state := ⟨fun _ s h => decState_encState cfg hcfg false s h⟩
  goal := ⟨fun _ s h => decState_encState cfg hcfg true s h⟩
  initial := ⟨fun _ s h => decInitial_encState cfg hcfg hne s h⟩

end CR.X
