/-
  CRProofs.BenchIdValid — the domain of property C13 (`CountriesOk`, `Valid`), the constructor's normalisation (`norm`)
  and the lemmas that connect them with the normal form of CRProofs/BenchId.lean.
-/
import CRProofs.BenchId
set_option linter.unusedSimpArgs false
namespace CR.BenchId

/-- What the theorems assume about `iso3166.countries_by_alpha3` (checked on the real table by the harness on
    every run): every key is three upper-case ASCII letters. -/
def CountriesOk (cs : List Str) : Prop :=
  ∀ c ∈ cs, ∃ x y z, c = [x, y, z] ∧ x.isUpper = true ∧ y.isUpper = true ∧ z.isUpper = true

/-- The property's domain, stated on the constructor arguments: cooperative flag, ISO-3166 alpha-3 country or ZAM
    (or the default), non-empty alphanumeric map name, positive map / configuration / prediction numbers, obstacle
    behaviour S, T, P or I, one prediction id (an `int`) or several (a `list` of at least two).
    A one-element *list* is outside (narrow reading, see `C13_boundary_one_element_list`). -/
structure Valid (cs : List Str) (r : Raw) : Prop where
  version : r.version ∈ supported
  country : ∀ c, r.country = some c → c ∈ cs ∨ c = ZAM
  name_ne : r.mapName ≠ []
  name_alnum : ∀ ch ∈ r.mapName, ch.isAlphanum = true
  mapId : 0 < r.mapId
  config : ∀ c, r.config = some c → 0 < c
  beh : ∀ b, r.beh = some b → b ∈ behaviours
  pred_beh : r.pred ≠ .none → r.beh ≠ none
  pred : match r.pred with
    | .none => True
    | .one n => 0 < n
    | .many l => 2 ≤ l.length ∧ ∀ n ∈ l, 0 < n

/-- The id the constructor builds from valid arguments: defaults filled in (`country_id` None → ZAM,
    `configuration_id or 1` unless it is a pure map id, `prediction_id or 1` when a behaviour is given). -/
def norm (r : Raw) : Id :=
  { coop := r.coop, country := r.country.getD ZAM, mapName := r.mapName, mapId := r.mapId,
    config := if r.config.isNone && r.beh.isNone && (r.pred == .none) then none else some (r.config.getD 1),
    beh := r.beh,
    pred := if r.beh.isSome && (r.pred == .none) then .one 1 else r.pred,
    version := r.version }

/-! ### auxiliary facts about `Valid` -/

theorem beh_char {b : Str} (h : b ∈ behaviours) : ∃ t, b = [t] ∧ isSTPI t = true := by
  simp only [behaviours, List.mem_cons, List.not_mem_nil, or_false] at h
  rcases h with e | e | e | e <;> subst e <;> exact ⟨_, rfl, by decide⟩

theorem map_toNat_cast (l : List Int) (hp : ∀ n ∈ l, 0 < n) : (l.map Int.toNat).map (fun (n : Nat) => (n : Int)) = l := by
  rw [List.map_map]
  conv => rhs; rw [← List.map_id l]
  apply List.map_congr_left
  intro n hn
  have := hp n hn
  simp only [Function.comp, id]
  omega

theorem predOfList_toNat_many (l : List Int) (h2 : 2 ≤ l.length) (hp : ∀ n ∈ l, 0 < n) :
    predOfList (l.map Int.toNat) = .many l := by
  have := map_toNat_cast l hp
  match l, h2 with
  | a :: b :: t, _ =>
    simp only [List.map_cons] at this ⊢
    simp only [predOfList, List.map_cons, this]

theorem country_abc {cs : List Str} (hcs : CountriesOk cs) (co : Option Str) (h : ∀ c, co = some c → c ∈ cs ∨ c = ZAM) :
    ∃ x y z, co.getD ZAM = [x, y, z] ∧ x.isUpper = true ∧ y.isUpper = true ∧ z.isUpper = true ∧
      ([x, y, z] ∈ cs ∨ [x, y, z] = ZAM) := by
  cases co with
  | none => exact ⟨'Z', 'A', 'M', rfl, by decide, by decide, by decide, Or.inr rfl⟩
  | some c =>
    rcases h c rfl with hm | hz
    · obtain ⟨x, y, z, e, hx, hy, hz⟩ := hcs c hm
      exact ⟨x, y, z, by simp [e], hx, hy, hz, Or.inl (e ▸ hm)⟩
    · exact ⟨'Z', 'A', 'M', by simp [hz, ZAM], by decide, by decide, by decide, Or.inr rfl⟩

/-- every valid id is, after the constructor's normalisation, a normal-form id (CRProofs: `NF`) -/
theorem valid_nf {cs : List Str} (hcs : CountriesOk cs) {r : Raw} (hv : Valid cs r) :
    ∃ x : NF, x.Ok ∧ x.toId r.version = norm r ∧ ([x.a, x.b, x.c] ∈ cs ∨ [x.a, x.b, x.c] = ZAM) := by
  obtain ⟨a, b, c, hco, ua, ub, uc, hmem⟩ := country_abc hcs r.country hv.country
  obtain ⟨coop, country, name, mapId, config, beh, pred, version⟩ := r
  have hm : ((mapId.toNat : Nat) : Int) = mapId := Int.toNat_of_nonneg (Int.le_of_lt hv.mapId)
  have hmp : 0 < mapId.toNat := by have := hv.mapId; simp only at this; omega
  simp only at hco
  have base : ∀ tail : NFTail, tail.Ok →
      (⟨coop, a, b, c, name, mapId.toNat, tail⟩ : NF).Ok :=
    fun tail ht => ⟨ua, ub, uc, hv.name_ne, hv.name_alnum, hmp, ht⟩
  cases beh with
  | none =>
    have hpn : pred = .none := Decidable.byContradiction fun hne => hv.pred_beh hne rfl
    subst hpn
    cases config with
    | none =>
      exact ⟨⟨coop, a, b, c, name, mapId.toNat, .map⟩, base _ trivial,
        by simp [NF.toId, norm, hm, hco, NFTail.config, NFTail.beh, NFTail.predv], hmem⟩
    | some k =>
      have hk := hv.config k rfl
      have hkc : ((k.toNat : Nat) : Int) = k := Int.toNat_of_nonneg (Int.le_of_lt hk)
      exact ⟨⟨coop, a, b, c, name, mapId.toNat, .cfg k.toNat⟩, base _ (by show 0 < k.toNat; omega),
        by simp [NF.toId, norm, hm, hco, NFTail.config, NFTail.beh, NFTail.predv, hkc], hmem⟩
  | some bb =>
    obtain ⟨t, hbt, ht⟩ := beh_char (hv.beh bb rfl)
    subst hbt
    -- configuration: given (positive) or defaulted to 1
    obtain ⟨k, hk, hkc⟩ : ∃ k : Nat, 0 < k ∧ ((k : Nat) : Int) = config.getD 1 := by
      cases config with
      | none => exact ⟨1, by omega, rfl⟩
      | some k =>
        have hk := hv.config k rfl
        exact ⟨k.toNat, by omega, Int.toNat_of_nonneg (Int.le_of_lt hk)⟩
    have hcfg : (if (config.isNone && (some [t] : Option Str).isNone && (pred == Pred.none)) = true then (none : Option Int)
        else some (config.getD 1)) = some (k : Int) := by simp [hkc]
    have hp := hv.pred
    cases pred with
    | none =>
      exact ⟨⟨coop, a, b, c, name, mapId.toNat, .pred k t [1]⟩, base _ ⟨hk, ht, by simp, by simp⟩,
        by simp [NF.toId, norm, hm, hco, NFTail.config, NFTail.beh, NFTail.predv, predOfList, hkc], hmem⟩
    | one n =>
      simp only at hp
      have hn : ((n.toNat : Nat) : Int) = n := Int.toNat_of_nonneg (Int.le_of_lt hp)
      exact ⟨⟨coop, a, b, c, name, mapId.toNat, .pred k t [n.toNat]⟩,
        base _ ⟨hk, ht, by simp, by intro p hp'; simp at hp'; omega⟩,
        by simp [NF.toId, norm, hm, hco, NFTail.config, NFTail.beh, NFTail.predv, predOfList, hkc, hn], hmem⟩
    | many l =>
      simp only at hp
      obtain ⟨h2, hpos⟩ := hp
      have hne : l.map Int.toNat ≠ [] := by
        intro e
        have : l = [] := by simpa using e
        subst this
        simp at h2
      refine ⟨⟨coop, a, b, c, name, mapId.toNat, .pred k t (l.map Int.toNat)⟩, base _ ⟨hk, ht, hne, ?_⟩,
        by simp [NF.toId, norm, hm, hco, NFTail.config, NFTail.beh, NFTail.predv, predOfList_toNat_many l h2 hpos, hkc], hmem⟩
      intro p hp'
      obtain ⟨n, hn, rfl⟩ := List.mem_map.1 hp'
      have := hpos n hn
      omega

theorem setCountry_valid {cs : List Str} (co : Option Str) (h : ∀ c, co = some c → c ∈ cs ∨ c = ZAM) :
    setCountry cs co = .ok (co.getD ZAM) := by
  cases co with
  | none => rfl
  | some c => simp [setCountry, h c rfl]


/-- the constructor on valid arguments -/
theorem mk_valid {cs : List Str} {r : Raw} (hv : Valid cs r) : mk cs r = .ok (norm r) := by
  have hset := setCountry_valid r.country hv.country
  have hf := filter_alnum_self r.mapName hv.name_alnum
  have hver := hv.version
  have hmap := hv.mapId
  have hcfg := hv.config
  have hbeh := hv.beh
  have hpb := hv.pred_beh
  have hp := hv.pred
  obtain ⟨coop, country, name, mapId, config, beh, pred, version⟩ := r
  simp only at hset hf hver hmap hcfg hbeh hpb hp
  cases beh with
  | none =>
    have hpn : pred = .none := Decidable.byContradiction fun hne => hpb hne rfl
    subst hpn
    cases config with
    | none => simp [mk, norm, hset, hf, hver, hmap, behOk]
    | some k =>
      have hk := hcfg k rfl
      have hk0 : k ≠ 0 := by omega
      simp [mk, norm, hset, hf, hver, hmap, behOk, cfgOrOne, hk, hk0]
  | some bb =>
    have hb : bb ∈ behaviours := hbeh bb rfl
    have hc1 : ¬ config.getD 1 ≤ 0 ∧ cfgOrOne config = config.getD 1 := by
      cases config with
      | none => simp [cfgOrOne]
      | some k =>
        have hk := hcfg k rfl
        have hk0 : k ≠ 0 := by omega
        simp [cfgOrOne, hk, hk0]
    cases pred with
    | none => simp [mk, norm, hset, hf, hver, hmap, behOk, hb, hc1.1, hc1.2, Pred.orOne, Pred.allPos]
    | one n =>
      simp only at hp
      have hn0 : n ≠ 0 := by omega
      simp [mk, norm, hset, hf, hver, hmap, behOk, hb, hc1.1, hc1.2, Pred.orOne, Pred.allPos, hp, hn0]
    | many l =>
      simp only at hp
      have hl : l ≠ [] := by intro e; subst e; simp at hp
      have hall : (l.all fun n => decide (0 < n)) = true := by simpa using hp.2
      simp [mk, norm, hset, hf, hver, hmap, behOk, hb, hc1.1, hc1.2, Pred.orOne, Pred.allPos, hl, hall]


/-- parse ∘ print on the normalised id -/
theorem parse_print_valid {cs : List Str} (hcs : CountriesOk cs) {r : Raw} (hv : Valid cs r) :
    parse cs (print (norm r)) r.version = .ok (norm r) := by
  obtain ⟨x, hx, e, hc⟩ := valid_nf hcs hv
  rw [← e]
  exact parse_print_nf cs x r.version hx hv.version hc


/-! ### solutions -/

theorem supported_chars : ∀ v ∈ supported, ':' ∉ v ∧ ' ' ∉ v := by decide

theorem print_no_sep {cs : List Str} (hcs : CountriesOk cs) {r : Raw} (hv : Valid cs r) (d : Char)
    (hd : d.isAlphanum = false) (h1 : d ≠ '-') (h2 : d ≠ '_') : d ∉ print (norm r) := by
  obtain ⟨x, hx, e, _⟩ := valid_nf hcs hv
  rw [← e, print_toId x r.version hx]
  intro hm
  exact idChar_ne (str_idChar x hx d hm) hd h1 h2 rfl

/-- `_parse_benchmark_id` on the benchmark id of a solution: the four segments come back. -/
theorem parseBenchmarkId_benchmarkId {cs : List Str} (hcs : CountriesOk cs) {r : Raw} (hv : Valid cs r)
    (vs : List (VModel × VType)) (ks : List Cost) (hvs : vs ≠ []) (hks : ks ≠ []) :
    parseBenchmarkId cs (benchmarkId vs ks (norm r)) = .ok (vs.map vehicleId, ks.map Cost.name, norm r) := by
  have hA : ∀ a ∈ vs.map vehicleId, ∀ ch ∈ a, ch.isAlphanum = true := by
    intro a ha
    obtain ⟨v, _, rfl⟩ := List.mem_map.1 ha
    exact vehicleId_alnum v
  have hB : ∀ a ∈ ks.map Cost.name, ∀ ch ∈ a, ch.isAlphanum = true := by
    intro a ha
    obtain ⟨k, _, rfl⟩ := List.mem_map.1 ha
    exact costName_alnum k
  have hAne : vs.map vehicleId ≠ [] := by simpa using hvs
  have hBne : ks.map Cost.name ≠ [] := by simpa using hks
  have cA : ':' ∉ bracket (vs.map vehicleId) := bracket_ne _ hA ':' (by decide) (by decide) (by decide) (by decide)
  have cB : ':' ∉ bracket (ks.map Cost.name) := bracket_ne _ hB ':' (by decide) (by decide) (by decide) (by decide)
  have cC : ':' ∉ print (norm r) := print_no_sep hcs hv ':' (by decide) (by decide) (by decide)
  have cD : ':' ∉ r.version := (supported_chars _ hv.version).1
  have sA : ' ' ∉ bracket (vs.map vehicleId) := bracket_ne _ hA ' ' (by decide) (by decide) (by decide) (by decide)
  have sB : ' ' ∉ bracket (ks.map Cost.name) := bracket_ne _ hB ' ' (by decide) (by decide) (by decide) (by decide)
  have sC : ' ' ∉ print (norm r) := print_no_sep hcs hv ' ' (by decide) (by decide) (by decide)
  have sD : ' ' ∉ r.version := (supported_chars _ hv.version).2
  have hshape : benchmarkId vs ks (norm r) =
      bracket (vs.map vehicleId) ++ ':' :: (bracket (ks.map Cost.name) ++ ':' :: (print (norm r) ++ ':' :: r.version)) := by
    simp [benchmarkId, norm]
  have hfilter : (benchmarkId vs ks (norm r)).filter (fun c => c != ' ') = benchmarkId vs ks (norm r) := by
    apply List.filter_eq_self.2
    intro ch hm
    rw [hshape] at hm
    simp only [List.mem_append, List.mem_cons] at hm
    have : ch ≠ ' ' := by
      rcases hm with hm | hm | hm | hm | hm | hm | hm
      · exact fun e => sA (e ▸ hm)
      · subst hm; decide
      · exact fun e => sB (e ▸ hm)
      · subst hm; decide
      · exact fun e => sC (e ▸ hm)
      · subst hm; decide
      · exact fun e => sD (e ▸ hm)
    simpa using this
  have hsplit : splitOn ':' (benchmarkId vs ks (norm r)) =
      [bracket (vs.map vehicleId), bracket (ks.map Cost.name), print (norm r), r.version] := by
    rw [hshape, splitOn_append ':' _ _ cA, splitOn_append ':' _ _ cB, splitOn_append ':' _ _ cC, splitOn_notin ':' _ cD]
  have hparse := parse_print_valid hcs hv
  have fA := filter_notBracket_bracket _ hAne hA
  have fB := filter_notBracket_bracket _ hBne hB
  have jA := splitOn_join ',' _ hAne (fun a ha => fun hm => by
    have := hA a ha ',' hm; revert this; decide)
  have jB := splitOn_join ',' _ hBne (fun a ha => fun hm => by
    have := hB a ha ',' hm; revert this; decide)
  simp only [parseBenchmarkId, hfilter, hsplit, hparse, fA, fB, jA, jB]


/-! ### concrete ids for the non-vacuity examples -/

def exCountries : List Str := [['D', 'E', 'U'], ['U', 'S', 'A']]

theorem exCountries_ok : CountriesOk exCountries := by
  intro c hc
  simp only [exCountries, List.mem_cons, List.not_mem_nil, or_false] at hc
  rcases hc with e | e <;> subst e
  · exact ⟨'D', 'E', 'U', rfl, by decide, by decide, by decide⟩
  · exact ⟨'U', 'S', 'A', rfl, by decide, by decide, by decide⟩

/-- `ScenarioID(True, "USA", "US101", 33, 2, "T", [1, 2])` -/
def exRaw : Raw :=
  { coop := true, country := some ['U', 'S', 'A'], mapName := ['U', 'S', '1', '0', '1'], mapId := 33, config := some 2,
    beh := some ['T'], pred := .many [1, 2], version := ['2', '0', '2', '0', 'a'] }

theorem exRaw_valid : Valid exCountries exRaw where
  version := by decide
  country := by intro c h; cases h; exact Or.inl (by decide)
  name_ne := by decide
  name_alnum := by decide
  mapId := by decide
  config := by intro c h; cases h; decide
  beh := by intro b h; cases h; decide
  pred_beh := by intro _; decide
  pred := ⟨by decide, by decide⟩

/-- `ScenarioID(country_id=None, map_name="Test", obstacle_behavior="S")`: defaults are filled in -/
def exRawDefaults : Raw :=
  { coop := false, country := none, mapName := ['T', 'e', 's', 't'], mapId := 1, config := none,
    beh := some ['S'], pred := .none, version := ['2', '0', '1', '8', 'b'] }

theorem exRawDefaults_valid : Valid exCountries exRawDefaults where
  version := by decide
  country := by intro c h; cases h
  name_ne := by decide
  name_alnum := by decide
  mapId := by decide
  config := by intro c h; cases h
  beh := by intro b h; cases h; decide
  pred_beh := by intro h; exact absurd rfl h
  pred := trivial


end CR.BenchId
