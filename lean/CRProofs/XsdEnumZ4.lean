import CRProofs.XsdEnum
namespace CR.C03
set_option maxRecDepth 100000 in
set_option maxHeartbeats 1000000 in
theorem signs_zam_4 : zamSigns.drop 180 = gerSigns.drop 180 := by decide
end CR.C03
